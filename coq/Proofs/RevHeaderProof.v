(* Proofs about Model/RevHeader.v: the identifier lines read back to what was written, for all strings;
   the docstring scanner closes where intended on bodies without backslash and triple quote. *)
From Coq Require Import String.
From AV Require Import Model.PyRepr Model.Render Model.RevHeader Proofs.PyReprProof Proofs.RenderProof.
Open Scope N_scope.

(* ---------------------------------------------------------------- separators of the header text *)
Definition is_p (t:ptok) : bool := match t with TPunct c => negb (c =? 46) | _ => false end.
Fixpoint seps_s (pp:bool) (l:wtoks) : option bool :=
  match l with
  | [] => Some pp
  | (w, t) :: r => if is_ws w && ((match w with [] => false | _ => true end) || pp || is_p t) then seps_s (is_p t) r else None
  end.
Definition prev_p (prev:option ptok) : bool := match prev with None => true | Some t => is_p t end.

Lemma seps_s_ok : forall l prev, (exists b, seps_s (prev_p prev) l = Some b) -> seps_ok prev l = true.
Proof.
  induction l as [|[w t] r IH]; intros prev [b H]; [reflexivity|]. cbn [seps_s seps_ok] in *.
  destruct (is_ws w) eqn:Hw; [|discriminate]. cbn [andb] in *.
  destruct ((match w with [] => false | _ => true end) || prev_p prev || is_p t) eqn:E; [|discriminate].
  rewrite (IH (Some t)) by (exists b; exact H). rewrite andb_true_r.
  destruct prev as [p|]; [|reflexivity].
  apply orb_true_iff in E. destruct E as [E|E]; [apply orb_true_iff in E; destruct E as [E|E]|].
  - rewrite E. apply orb_true_r.
  - cbn [prev_p] in E. unfold needs_space. destruct p as [s|c|h s|d]; try discriminate. cbn [wordy andb]. reflexivity.
  - unfold needs_space. destruct t as [s|c|h s|d]; try discriminate. cbn [is_p] in E. apply negb_true_iff in E.
    rewrite andb_false_r. cbn [orb].
    destruct p as [s'|c'|h' s'|d']; try reflexivity.
    assert (c <> 46) by (apply N.eqb_neq; exact E).
    destruct c as [|pc]; try reflexivity. repeat (destruct pc as [pc|pc|]; try reflexivity). contradiction.
Qed.

Lemma seps_s_app a : forall pp b, seps_s pp (a ++ b) = match seps_s pp a with Some p => seps_s p b | None => None end.
Proof. induction a as [|[w t] r IH]; intros pp b; [reflexivity|]. cbn [app seps_s]. destruct (_ && _); [apply IH|reflexivity]. Qed.

Lemma seps_elems_tail l pp : seps_s pp (elems_tail l) = Some (match l with [] => pp | _ => false end).
Proof. revert pp. induction l as [|s r IH]; intros pp; [reflexivity|]. cbn [elems_tail seps_s rs]. destruct pp; cbn; rewrite IH; destruct r; reflexivity. Qed.
Lemma seps_elems l : seps_s true (elems l) = Some (match l with [] => true | _ => false end).
Proof. destruct l as [|s r]; [reflexivity|]. cbn [elems seps_s rs]. cbn. rewrite seps_elems_tail. destruct r; reflexivity. Qed.
Lemma seps_val pp v : exists b, seps_s pp (val_toks sp v) = Some b.
Proof.
  destruct v as [|s|l|l]; cbn [val_toks].
  - eexists; reflexivity.
  - eexists; reflexivity.
  - cbn [seps_s]. cbn [is_ws sp forallb is_space]. cbn. rewrite seps_s_app, seps_elems. rewrite seps_s_app.
    destruct l as [|a [|b r]]; cbn; eexists; reflexivity.
  - cbn [seps_s]. cbn. rewrite seps_s_app, seps_elems. destruct l; cbn; eexists; reflexivity.
Qed.

Lemma seps_line w name ann v pp : is_ws w = true -> (match w with [] => false | _ => true end) || pp = true ->
  (forall p, exists b, seps_s p ann = Some b) ->
  exists b, seps_s pp (line w name ann v) = Some b.
Proof.
  intros Hw Hp Hann.
  assert (S1: seps_s pp [nm w name; pu [] 58] = Some true).
  { unfold nm, pu. cbn [seps_s]. rewrite Hw. cbn [andb].
    destruct w as [|c w']; destruct pp; cbn in Hp; try discriminate; reflexivity. }
  assert (S2: forall b, seps_s b [pu sp 61] = Some true) by (intros []; reflexivity).
  change (line w name ann v) with ([nm w name; pu [] 58] ++ ann ++ [pu sp 61] ++ val_toks sp v).
  rewrite seps_s_app, S1, seps_s_app. destruct (Hann true) as [b Hb]. rewrite Hb, seps_s_app, S2.
  apply seps_val.
Qed.

Lemma seps_header a : seps_ok None (header_toks a) = true.
Proof.
  apply seps_s_ok. cbn [prev_p]. unfold header_toks.
  assert (A1: forall p, exists b, seps_s p ann_str = Some b) by (intros [|]; eexists; vm_compute; reflexivity).
  assert (A2: forall p, exists b, seps_s p ann_opt_str = Some b) by (intros [|]; eexists; vm_compute; reflexivity).
  assert (A3: forall p, exists b, seps_s p ann_seq = Some b) by (intros [|]; eexists; vm_compute; reflexivity).
  rewrite seps_s_app.
  destruct (seps_line [] "revision" ann_str (VStr (h_rev a)) true eq_refl eq_refl A1) as [b1 H1]. rewrite H1, seps_s_app.
  destruct (seps_line nl "down_revision" ann_opt_str (h_down a) b1 eq_refl eq_refl A2) as [b2 H2]. rewrite H2, seps_s_app.
  destruct (seps_line nl "branch_labels" ann_seq (h_labels a) b2 eq_refl eq_refl A3) as [b3 H3]. rewrite H3.
  apply seps_line; auto.
Qed.

(* ---------------------------------------------------------------- well-formedness of the header tokens *)
Definition hval_valid (v:hval) : bool :=
  match v with VNone => true | VStr s => valid_strb s | VTuple l | VList l => forallb valid_strb l end.
Definition hargs_valid (a:hargs) : bool := valid_strb (h_rev a) && hval_valid (h_down a) && hval_valid (h_labels a) && hval_valid (h_deps a).

Definition tok_ok (wt:str * ptok) : bool := wf_tok (snd wt) && via_repr_tok (snd wt).
Lemma ok_elems_tail l : forallb valid_strb l = true -> forallb tok_ok (elems_tail l) = true.
Proof. induction l as [|s r IH]; [reflexivity|]. cbn [forallb elems_tail]. intros H. apply andb_true_iff in H. destruct H as [H1 H2].
  unfold tok_ok at 1 2. cbn [snd rs wf_tok via_repr_tok]. rewrite H1. cbn. apply IH. exact H2. Qed.
Lemma ok_elems l : forallb valid_strb l = true -> forallb tok_ok (elems l) = true.
Proof. destruct l as [|s r]; [reflexivity|]. cbn [forallb elems]. intros H. apply andb_true_iff in H. destruct H as [H1 H2].
  unfold tok_ok at 1. cbn [snd rs wf_tok via_repr_tok]. rewrite H1. cbn. apply ok_elems_tail. exact H2. Qed.
Lemma ok_val w v : hval_valid v = true -> forallb tok_ok (val_toks w v) = true.
Proof.
  destruct v as [|s|l|l]; cbn [val_toks hval_valid]; intros H.
  - reflexivity.
  - cbn [forallb]. unfold tok_ok. cbn [snd rs wf_tok via_repr_tok]. rewrite H. reflexivity.
  - cbn [forallb]. rewrite !forallb_app, ok_elems by assumption. destruct l as [|a [|b r]]; reflexivity.
  - cbn [forallb]. rewrite !forallb_app, ok_elems by assumption. reflexivity.
Qed.
Lemma ok_line w name ann v : valid_ident (lit name) = true -> forallb tok_ok ann = true -> hval_valid v = true ->
  forallb tok_ok (line w name ann v) = true.
Proof.
  intros Hn Ha Hv. unfold line. cbn [forallb]. unfold tok_ok at 1 2. cbn [snd nm pu wf_tok via_repr_tok]. rewrite Hn. cbn [andb].
  replace (is_punct 58) with true by reflexivity. cbn [andb]. rewrite !forallb_app, Ha, ok_val by assumption. reflexivity.
Qed.
Lemma ok_header a : hargs_valid a = true -> forallb tok_ok (header_toks a) = true.
Proof.
  unfold hargs_valid. intros H. rewrite !andb_true_iff in H. destruct H as [[[H1 H2] H3] H4].
  unfold header_toks. rewrite !forallb_app.
  rewrite !ok_line; try assumption; try reflexivity.
Qed.
Lemma tok_ok_split l : forallb tok_ok l = true ->
  forallb (fun wt => wf_tok (snd wt)) l = true /\ forallb (fun wt => via_repr_tok (snd wt)) l = true.
Proof. induction l as [|x r IH]; [auto|]. cbn [forallb]. intros H. apply andb_true_iff in H. destruct H as [H1 H2].
  unfold tok_ok in H1. apply andb_true_iff in H1. destruct H1 as [Ha Hb]. destruct (IH H2) as [I1 I2]. rewrite Ha, Hb, I1, I2. auto. Qed.

Lemma lex_header printable a : hargs_valid a = true ->
  py_lex (write_header printable a) = Ok (map erase (map snd (header_toks a))).
Proof.
  intros H. unfold write_header. destruct (tok_ok_split _ (ok_header a H)) as [W V].
  apply lex_untokw; auto. apply seps_header.
Qed.

(* ---------------------------------------------------------------- parsing the token list back *)
Definition er (l:wtoks) : list pytoken := map erase (map snd l).
Lemma er_app a b : er (a ++ b) = er a ++ er b.
Proof. unfold er. rewrite !map_app. reflexivity. Qed.

Lemma parse_elems_tail close l : close <> 44 -> forall acc comma rest,
  parse_seq close acc comma (er (elems_tail l) ++ Punct close :: rest)
  = Some (rev acc ++ l, comma || (match l with [] => false | _ => true end), rest).
Proof.
  intros Hc. induction l as [|s r IH]; intros acc comma rest.
  - cbn. rewrite N.eqb_refl, app_nil_r, orb_false_r. reflexivity.
  - cbn [elems_tail er map snd erase rs app parse_seq].
    apply N.eqb_neq in Hc. rewrite N.eqb_sym in Hc. rewrite Hc. cbn [N.eqb Pos.eqb].
    change (map erase (map snd (elems_tail r))) with (er (elems_tail r)). rewrite IH. cbn [rev]. rewrite <- app_assoc. cbn [app].
    rewrite orb_true_r. destruct r; reflexivity.
Qed.
Lemma parse_elems close l : close <> 44 -> forall rest,
  parse_seq close [] false (er (elems l) ++ Punct close :: rest) = Some (l, (match l with [] | [_] => false | _ => true end), rest).
Proof.
  intros Hc rest. destruct l as [|s r].
  - cbn. rewrite N.eqb_refl. reflexivity.
  - cbn [elems er map snd erase rs app parse_seq]. change (map erase (map snd (elems_tail r))) with (er (elems_tail r)).
    rewrite parse_elems_tail by assumption. cbn [rev app orb]. destruct r; reflexivity.
Qed.

Lemma er_cons x l : er (x :: l) = erase (snd x) :: er l.
Proof. reflexivity. Qed.

Lemma parse_val v rest : parse_value (er (val_toks sp v) ++ rest) = Some (v, rest).
Proof.
  destruct v as [|s|l|l]; cbn [val_toks].
  - reflexivity.
  - reflexivity.
  - rewrite er_cons. cbn [snd erase app parse_value]. replace (40 =? 40) with true by reflexivity.
    rewrite !er_app, <- !app_assoc.
    destruct l as [|a [|b r]]; [reflexivity|reflexivity|].
    change (er [] ++ er [([], TPunct 41)] ++ rest) with (Punct 41 :: rest).
    rewrite parse_elems by discriminate. reflexivity.
  - rewrite er_cons. cbn [snd erase app parse_value]. replace (91 =? 40) with false by reflexivity. replace (91 =? 91) with true by reflexivity.
    rewrite !er_app, <- !app_assoc. change (er [([], TPunct 93)] ++ rest) with (Punct 93 :: rest).
    rewrite parse_elems by discriminate. reflexivity.
Qed.

Lemma read_line w name ann v rest :
  (forall r, after_eq (er ann ++ Punct 61 :: r) = Some r) ->
  read_assign name (er (line w name ann v) ++ rest) = Some (v, rest).
Proof.
  intros Ha. unfold line. rewrite !er_cons. unfold nm, pu. cbn [snd erase app read_assign].
  rewrite str_eqb_refl. replace (58 =? 58) with true by reflexivity. cbn [andb].
  rewrite !er_app, <- !app_assoc. cbn [app]. rewrite er_cons. cbn [snd erase app].
  rewrite Ha. cbn [obind]. apply parse_val.
Qed.

Lemma val_list_scalar mk l : (forall x, val_list (mk x) = x) -> val_list (scalar_or mk l) = l.
Proof. intros H. destruct l as [|a [|b r]]; cbn; auto. Qed.

Theorem header_roundtrip printable rev down labels deps :
  valid_strb rev = true -> forallb valid_strb down = true -> forallb valid_strb labels = true -> forallb valid_strb deps = true ->
  read_header (write_header printable (mk_args rev down labels deps)) = Some (mkFields rev down labels deps).
Proof.
  intros H1 H2 H3 H4. unfold read_header. rewrite lex_header.
  2:{ unfold hargs_valid, mk_args. cbn [h_rev h_down h_labels h_deps]. rewrite H1. cbn [andb].
      assert (A: forall mk l, (forall x, hval_valid (mk x) = forallb valid_strb x) -> forallb valid_strb l = true -> hval_valid (scalar_or mk l) = true).
      { intros mk l Hm Hl. destruct l as [|a [|b r]]; cbn [scalar_or hval_valid]; [reflexivity| |rewrite Hm; exact Hl].
        cbn in Hl. apply andb_true_iff in Hl. tauto. }
      rewrite !A by (auto; reflexivity). destruct labels; [reflexivity|]. cbn [hval_valid]. rewrite H3. reflexivity. }
  unfold header_toks. change (map erase (map snd ?l)) with (er l). rewrite !er_app.
  assert (A1: forall r, after_eq (er ann_str ++ Punct 61 :: r) = Some r) by reflexivity.
  assert (A2: forall r, after_eq (er ann_opt_str ++ Punct 61 :: r) = Some r) by reflexivity.
  assert (A3: forall r, after_eq (er ann_seq ++ Punct 61 :: r) = Some r) by reflexivity.
  rewrite read_line by exact A1. cbn [obind fst snd].
  rewrite read_line by exact A2. cbn [obind fst snd].
  rewrite read_line by exact A3. cbn [obind fst snd].
  rewrite <- (app_nil_r (er (line nl "depends_on" ann_seq _))). rewrite read_line by exact A3. cbn [obind fst snd mk_args h_rev h_down h_labels h_deps].
  rewrite !val_list_scalar by reflexivity. destruct labels; reflexivity.
Qed.

(* ---------------------------------------------------------------- the docstring *)
Lemma has_triple_tail a l : has_triple (a :: l) = false -> has_triple l = false.
Proof. destruct l as [|b [|c r]]; try reflexivity. cbn [has_triple]. intros H. apply orb_false_iff in H. tauto. Qed.
Lemma has_triple_app_r a b : has_triple (a ++ b) = false -> has_triple b = false.
Proof. induction a as [|x a IH]; [auto|]. cbn [app]. intros H. apply IH. eapply has_triple_tail. exact H. Qed.
Lemma repeat_shift (x:N) q l : repeat x q ++ x :: l = repeat x (S q) ++ l.
Proof. induction q as [|q IH]; [reflexivity|]. cbn [repeat app] in *. rewrite IH. reflexivity. Qed.
Lemma ends_app a b : ends_with_quote (a ++ b) = match b with [] => ends_with_quote a | _ => ends_with_quote b end.
Proof.
  unfold ends_with_quote. destruct b as [|x b]; [rewrite app_nil_r; reflexivity|].
  rewrite rev_app_distr. destruct (rev (x :: b)) eqn:E; [|reflexivity].
  apply (f_equal (@length N)) in E. rewrite rev_length in E. discriminate.
Qed.

Lemma scan_doc_safe : forall body acc q rest,
  memN c_bs body = false -> has_triple (repeat c_dq q ++ body) = false -> (q <= 2)%nat ->
  ends_with_quote (repeat c_dq q ++ body) = false ->
  scan_doc q acc (body ++ triple ++ rest) = DocClosed (rev acc ++ body) rest.
Proof.
  induction body as [|c body IH]; intros acc q rest Hb Ht Hq He.
  - rewrite app_nil_r in He. destruct q as [|q].
    + cbn. rewrite app_nil_r. reflexivity.
    + exfalso. cbn [repeat] in He. rewrite repeat_cons in He. unfold ends_with_quote in He.
      rewrite rev_app_distr in He. cbn in He. discriminate.
  - cbn [app scan_doc]. cbn [memN existsb] in Hb. apply orb_false_iff in Hb. destruct Hb as [Hb1 Hb2].
    destruct (N.eqb_spec c c_dq) as [->|Nq].
    + rewrite repeat_shift in Ht, He.
      destruct q as [|[|[|q]]]; try lia.
      * rewrite (IH (c_dq :: acc) 1%nat rest) by (auto; lia). cbn [rev]. rewrite <- app_assoc. reflexivity.
      * rewrite (IH (c_dq :: acc) 2%nat rest) by (auto; lia). cbn [rev]. rewrite <- app_assoc. reflexivity.
      * exfalso. cbn in Ht. discriminate.
    + assert (E: (c =? c_bs) = false) by (rewrite N.eqb_sym; exact Hb1).
      rewrite E.
      rewrite (IH (c :: acc) 0%nat rest); auto; try lia.
      * cbn [rev]. rewrite <- app_assoc. reflexivity.
      * cbn [repeat app]. apply has_triple_app_r in Ht. eapply has_triple_tail. exact Ht.
      * cbn [repeat app]. rewrite ends_app in He. destruct body as [|b body]; [reflexivity|].
        change (c :: b :: body) with ([c] ++ b :: body) in He. rewrite ends_app in He. exact He.
Qed.

Theorem docstring_safe body rest : doc_safe body = true -> doc_ok body rest = true.
Proof.
  unfold doc_safe, doc_ok, doc_text. intros H. rewrite !andb_true_iff, !negb_true_iff in H. destruct H as [[H1 H2] H3].
  rewrite (scan_doc_safe body [] 0%nat rest) by (auto; lia). cbn [rev app]. rewrite !str_eqb_refl. reflexivity.
Qed.

(* ---------------------------------------------------------------- file names *)
Section FileNames.
  Variable is_word : N -> bool.
  Variable lower : N -> str.

  (* a template that starts with the revision id: the loader's two forbidden prefixes cannot occur when the id does not
     start with a dot or an underscore *)
  Theorem filename_prefix_ok rest c r msg trunc : c <> 46 -> c <> 95 ->
    has_prefix (lit ".#") (rev_filename is_word lower (TRevId :: rest) (c :: r) msg trunc) = false /\
    has_prefix (lit "__init__") (rev_filename is_word lower (TRevId :: rest) (c :: r) msg trunc) = false.
  Proof.
    intros H1 H2. unfold rev_filename. cbn [flat_map piece_text app].
    apply N.eqb_neq in H1, H2. rewrite N.eqb_sym in H1, H2. split.
    - change (lit ".#") with [46; 35]. cbn [has_prefix]. rewrite H1. reflexivity.
    - change (lit "__init__") with (95 :: lit "_init__"). cbn [has_prefix]. rewrite H2. reflexivity.
  Qed.

  Lemma split_unique (sep:N) : forall a b x y, ~ In sep a -> ~ In sep b -> a ++ sep :: x = b ++ sep :: y -> a = b.
  Proof.
    induction a as [|c a IH]; destruct b as [|d b]; cbn [app]; intros x y Ha Hb E.
    - reflexivity.
    - injection E as E _. exfalso. apply Hb. left. symmetry. exact E.
    - injection E as E _. exfalso. apply Ha. left. exact E.
    - injection E as E1 E2. subst d. f_equal. apply (IH b x y); auto; intros Hin; [apply Ha|apply Hb]; right; exact Hin.
  Qed.

  (* the default shape of file_template, the revision id followed by a separator that no revision id contains:
     two calls that write the same file name have the same revision id *)
  Theorem filename_injective sep l rest r1 r2 m1 m2 t1 t2 : ~ In sep r1 -> ~ In sep r2 ->
    rev_filename is_word lower (TRevId :: TLit (sep :: l) :: rest) r1 m1 t1
    = rev_filename is_word lower (TRevId :: TLit (sep :: l) :: rest) r2 m2 t2 -> r1 = r2.
  Proof.
    intros H1 H2. unfold rev_filename. cbn [flat_map piece_text]. rewrite <- !app_assoc. cbn [app].
    intros E. eapply split_unique; eauto.
  Qed.
End FileNames.
