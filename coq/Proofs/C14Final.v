(* C14 — the property theorems assembled: decider soundness, the wf table, the main theorem, refutations. *)
From Coq Require Import List NArith Bool Arith Lia String.
From AV Require Import Spec.C14 Proofs.QuoteProof Proofs.VisitorsProof.
Import ListNotations.
Open Scope N_scope.

(* every visitor of the table is well-formed — recomputed from the transcriptions *)
Lemma wf_table_bool : forallb (fun dc => visitor_wf (qspec_of (fst dc)) (visitor (fst dc) (snd dc))) all_pairs = true.
Proof. vm_compute. reflexivity. Qed.

Lemma all_constructs_complete c : In c all_constructs.
Proof.
  destruct c; repeat match goal with b : bool |- _ => destruct b end; vm_compute; tauto.
Qed.

Lemma all_pairs_complete d c : In (d, c) all_pairs.
Proof.
  unfold all_pairs. apply in_flat_map. exists d. split; [destruct d; simpl; tauto|].
  apply in_map. apply all_constructs_complete.
Qed.

Lemma wf_table d c : visitor_wf (qspec_of d) (visitor d c) = true.
Proof.
  pose proof wf_table_bool as H. rewrite forallb_forall in H. exact (H (d, c) (all_pairs_complete d c)).
Qed.

Lemma check_stmt_sound i o : check_stmt i o = true -> C14_holds i o.
Proof.
  destruct i as [[d c] e]. unfold check_stmt, C14_holds. destruct o as [sql off|x]; [|auto].
  rewrite !andb_true_iff, negb_true_iff, !tokens_eqb_eq. tauto.
Qed.

Lemma main_generic d c e : visitor_wf (qspec_of d) (visitor d c) = true -> env_ok (qspec_of d) e = true ->
  C14_holds (d, c, e) (emit_stmt (d, c, e)).
Proof.
  intros V E. unfold C14_holds, emit_stmt. destruct (render (qspec_of d) e (visitor d c)) as [sql|x] eqn:R; [|exact I].
  destruct (visitor_sound _ e _ sql V E R) as (L & _ & _ & _ & F).
  repeat split; auto. now apply offline_sound.
Qed.

(* in the class, a visitor without a raise does emit a statement *)
Lemma render_piece_emits q e p : env_ok q e = true -> is_fail p = false -> exists t, render_piece q e p = ROk t.
Proof.
  intros E F. apply env_ok_parts in E as (SO & NO & _).
  assert (Q : forall n, exists t, quote q (slot e n) = Some t).
  { intro n. apply quote_some. pose proof (NO n) as Hn. now apply name_ok_parts in Hn as [H _]. }
  assert (FT : forall n sch, exists t, format_table_name q (slot e n) (schema_if e sch) = Some t).
  { intros n sch. unfold format_table_name. destruct (Q n) as [b Qb]. rewrite Qb.
    pose proof (schema_if_ok q e sch SO) as S. unfold schema_ok in S.
    destruct (schema_given (schema_if e sch)) as [s|]; [|eauto].
    unfold quote_dotted. induction (split_dot s) as [|p0 r IH]; [simpl; eauto|].
    simpl in S. apply andb_true_iff in S as [S1 S2]. destruct (IH S2) as [t Ht].
    simpl. destruct (quote_some q p0) as [x Qx]; [now apply name_ok_parts in S1 as [H _]|]. rewrite Qx.
    destruct (map_opt (quote q) r); [eauto | discriminate Ht]. }
  destruct p as [t0|n sch|n|ps|n|i|x]; cbn [render_piece]; try discriminate F; eauto.
  - destruct (FT n sch) as [t ->]. simpl. eauto.
  - unfold format_column_name. destruct (Q n) as [t ->]. simpl. eauto.
  - assert (M : exists l, map_opt (render_inner q e) ps = Some l).
    { clear F. induction ps as [|x0 ps IH]; [simpl; eauto|]. destruct x0 as [esc ip]. destruct IH as [l Hl]. cbn [map_opt]. rewrite Hl.
      assert (R : exists t, render_ipiece q e ip = Some t).
      { destruct ip as [t0|n sch|n|n|]; cbn [render_ipiece]; eauto. }
      destruct R as [t Rt]. unfold render_inner. cbn [fst snd]. rewrite Rt. eauto. }
    destruct M as [l ->]. eauto.
Qed.

Lemma emits_generic q e v : env_ok q e = true -> raises v = false -> exists sql, render q e v = ROk sql.
Proof.
  intros E. induction v as [|p r IH]; intro F; [simpl; eauto|].
  unfold raises in F. cbn [existsb] in F. apply orb_false_iff in F as [F1 F2].
  destruct (render_piece_emits q e p E F1) as [t Ht]. destruct (IH F2) as [sql' Hs].
  cbn [render]. rewrite Ht, Hs. eauto.
Qed.

(* ------------------------------------------------------------------ witnesses of the three deviation classes *)

Definition env_of (sc:option str) (t c:str) : env :=
  mkEnv sc t (s2l "t_new") c (s2l "c_new") [s2l "INTEGER"].

Definition w_pct : c14_in := (Postgresql, CDropColumn, env_of None (s2l "a%b") (s2l "c")).
Definition w_tab : c14_in := (Sqlite, CDropColumn, env_of None [97; 9; 98] (s2l "c")).
Definition w_nl  : c14_in := (Postgresql, CDropColumn, env_of None (s2l "select" ++ [10]) (s2l "c")).

Lemma not_holds_by_decider i : check_stmt i (emit_stmt i) = false ->
  (forall i o, C14_holds i o -> check_stmt i o = true) -> ~ C14_holds i (emit_stmt i).
Proof. intros H C X. apply C in X. congruence. Qed.

Lemma check_stmt_complete i o : C14_holds i o -> check_stmt i o = true.
Proof.
  destruct i as [[d c] e]. unfold check_stmt, C14_holds. destruct o as [sql off|x]; [|auto].
  intros (A & B & C). rewrite A, B, C. simpl. rewrite andb_true_iff. split; apply tokens_eqb_eq; reflexivity.
Qed.

(* the visitors as they were before the two "fix:" commits (DESIGN section 6) *)
Definition old_oracle_column_comment : list piece :=
  [K "COMMENT ON COLUMN "; RawName NTable; K "."; RawName NColumn; K " IS "; Opaque 0].
Definition old_mssql_rename_table : list piece :=
  [K "EXEC sp_rename "; StrLit [(false, ITbl NTable true)]; K ", "; Tbl NNewTable false].

(* ------------------------------------------------------------------ operations: the impl-level dispatch *)

(* every construct the dispatch builds is given the operation's table, column, schema and new names
   (MySQLModifyColumn is given newname = column_name, which its visitor never reads) *)
Definition step_carries (n:names) (s:pstep) : Prop :=
  match s with
  | SRaise _ => True
  | SEmit c t col sc nn nt =>
      t = n_table n /\ col = n_column n /\ sc = n_schema n /\ nt = n_newtable n /\
      (nn = n_newcolumn n \/ (nn = n_column n /\ exists a b x y, c = CMysqlModify a b x y))
  end.

Lemma default_alter_carries n nl df rn ty cm : Forall (step_carries n) (default_alter n nl df rn ty cm).
Proof.
  unfold default_alter, alter, alter_named.
  destruct (is_given nl), (requested df), ty, (requested cm), rn; cbn [app];
    repeat (apply Forall_cons; [cbn; tauto|]); apply Forall_nil.
Qed.

Lemma plan_carries n d o : Forall (step_carries n) (plan n d o).
Proof.
  destruct o as [| |df ck fk|r]; cbn [plan].
  - apply Forall_cons; [cbn; tauto | apply Forall_nil].
  - apply Forall_cons; [cbn; tauto | apply Forall_nil].
  - apply Forall_app. split.
    + destruct d; try apply Forall_nil. unfold alter.
      destruct df, ck, fk; cbn [app]; repeat (apply Forall_cons; [cbn; tauto|]); apply Forall_nil.
    + apply Forall_cons; [cbn; tauto | apply Forall_nil].
  - destruct d.
    + apply default_alter_carries.
    + unfold pg_alter. destruct (r_using r && negb (r_type r)).
      * apply Forall_cons; [exact I | apply Forall_nil].
      * apply Forall_app. split; [|apply default_alter_carries].
        destruct (r_type r); [apply Forall_cons; [cbn; tauto | apply Forall_nil] | apply Forall_nil].
    + unfold mysql_alter. destruct (mysql_flags r) as [[[nl ai] df] cm].
      destruct (r_rename r).
      * destruct (r_type r || r_ex_type r); (apply Forall_cons; [cbn; tauto | apply Forall_nil]).
      * destruct (is_given (r_nullable r) || r_type r || is_given (r_autoinc r) || requested (r_comment r)).
        -- destruct (r_type r || r_ex_type r); (apply Forall_cons; [|apply Forall_nil]); [|exact I].
           cbn. repeat split; auto. right. split; [reflexivity|]. eauto.
        -- destruct (requested (r_default r)); [apply Forall_cons; [cbn; tauto | apply Forall_nil] | apply Forall_nil].
    + unfold mssql_alter. destruct (is_given (r_nullable r) && negb (r_type r) && negb (r_ex_type r)).
      * apply Forall_cons; [exact I | apply Forall_nil].
      * destruct (if is_given (r_nullable r) then (r_nullable r, false)
                  else if is_given (r_ex_nullable r) && r_type r then (r_ex_nullable r, false) else (TNone, r_type r)) as [nl ty].
        apply Forall_app; split; [apply default_alter_carries|]. apply Forall_app; split.
        -- destruct (requested (r_default r)); [|apply Forall_nil]. apply Forall_app. split.
           ++ destruct (requested (r_ex_default r) || negb (is_set (r_default r))); [|apply Forall_nil].
              apply Forall_cons; [cbn; tauto | apply Forall_nil].
           ++ destruct (is_set (r_default r)); [apply default_alter_carries | apply Forall_nil].
        -- destruct (r_rename r); [apply default_alter_carries | apply Forall_nil].
    + apply default_alter_carries.
Qed.

Lemma modify_ignores_newname d a b x y sc t nt c nn nn' opq :
  emit_stmt (d, CMysqlModify a b x y, mkEnv sc t nt c nn opq) = emit_stmt (d, CMysqlModify a b x y, mkEnv sc t nt c nn' opq).
Proof. destruct d, a, b, x, y; reflexivity. Qed.

Lemma step_emits_as_op d n c t col sc nn nt opq : step_carries n (SEmit c t col sc nn nt) ->
  emit_stmt (d, c, step_env t col sc nn nt opq) = emit_stmt (d, c, op_env n opq).
Proof.
  cbn. intros (-> & -> & -> & -> & [->|[-> (a & b & x & y & ->)]]); unfold step_env, op_env; [reflexivity|].
  apply modify_ignores_newname.
Qed.

Lemma run_plan_holds d n p : Forall (step_carries n) p -> forall opqs,
  forallb (fun opq => env_ok (qspec_of d) (op_env n opq)) ([] :: opqs) = true ->
  steps_hold d n opqs (fst (run_plan d opqs p)).
Proof.
  induction 1 as [|s p Hs Hp IH]; intros opqs E; [exact I|].
  destruct s as [c t col sc nn nt|e]; [|exact I].
  cbn [run_plan]. rewrite (step_emits_as_op d n c t col sc nn nt _ Hs).
  assert (E0 : env_ok (qspec_of d) (op_env n (hd [] opqs)) = true).
  { cbn [forallb] in E. apply andb_true_iff in E as [E1 E2]. destruct opqs as [|o r]; [exact E1|].
    cbn [forallb hd] in *. now apply andb_true_iff in E2 as [E2 _]. }
  assert (E1 : forallb (fun opq => env_ok (qspec_of d) (op_env n opq)) ([] :: tl opqs) = true).
  { cbn [forallb] in *. apply andb_true_iff in E as [E1 E2]. rewrite E1. destruct opqs as [|o r]; [reflexivity|].
    cbn [forallb tl] in *. now apply andb_true_iff in E2 as [_ E2]. }
  pose proof (main_generic d c _ (wf_table d c) E0) as H.
  destruct (emit_stmt (d, c, op_env n (hd [] opqs))) as [sql off|x] eqn:M.
  - specialize (IH (tl opqs) E1). destruct (run_plan d (tl opqs) p) as [l e]. cbn [fst steps_hold o_c o_out]. split; [exact H | exact IH].
  - cbn [fst steps_hold o_c o_out]. split; [exact I | exact I].
Qed.

Lemma check_steps_sound d n : forall steps opqs, check_steps d n opqs steps = true -> steps_hold d n opqs steps.
Proof.
  induction steps as [|s r IH]; intros opqs H; [exact I|]. cbn [check_steps steps_hold] in *.
  apply andb_true_iff in H as [H1 H2]. split; [now apply check_stmt_sound | now apply IH].
Qed.

(* ------------------------------------------------------------------ corollaries in terms of single names *)

Lemma flat_map_in_split {A B} (f:A -> list B) l x : In x l -> exists pre post, flat_map f l = pre ++ f x ++ post.
Proof.
  intro H. apply in_split in H as (l1 & l2 & ->). exists (flat_map f l1), (flat_map f l2).
  rewrite flat_map_app. reflexivity.
Qed.

Lemma piece_read_back d c e sql off p : env_ok (qspec_of d) e = true -> emit_stmt (d, c, e) = OutSql sql off ->
  In p (visitor d c) ->
  exists pre post, lex (qspec_of d) sql = pre ++ piece_tokens (qspec_of d) e p ++ post.
Proof.
  intros E M I. pose proof (main_generic d c e (wf_table d c) E) as H. rewrite M in H.
  destruct H as (_ & L & _). rewrite L. now apply flat_map_in_split.
Qed.

Lemma decider_sound c o : check_C14 c o = true -> C14_case_holds c o.
Proof.
  destruct c as [d k e|d s|d|d o0 n opqs], o as [out|r| |steps raised]; cbn [check_C14 C14_case_holds]; try discriminate; auto.
  - apply (check_stmt_sound (d, k, e)).
  - destruct r as [t|]; [|auto]. now rewrite tokens_eqb_eq.
  - apply check_steps_sound.
Qed.

Lemma quote_alone q s t : qspec_wf q = true -> name_ok q s = true -> quote q s = Some t -> lex q t = [ident_token q s].
Proof. intros W N Q. now destruct (quote_closed q s t W N Q). Qed.

Lemma qspecs_wf d : qspec_wf (qspec_of d) = true.
Proof. destruct d; reflexivity. Qed.

Lemma model_holds c : inclass_C14 c = true -> C14_case_holds c (model_C14 c).
Proof.
  destruct c as [d k e|d s|d|d o0 n opqs]; cbn [inclass_C14 model_C14 C14_case_holds]; auto.
  - intro E. apply main_generic; [apply wf_table | exact E].
  - intro N. destruct (quote (qspec_of d) s) as [t|] eqn:Q; [|exact I]. now apply quote_alone; [apply qspecs_wf| |].
  - intro E. pose proof (run_plan_holds d n (plan n d o0) (plan_carries n d o0) opqs E) as H.
    unfold run_op. destruct (run_plan d opqs (plan n d o0)) as [l e]. exact H.
Qed.

Lemma corr_is_model c o : corr_C14 c o = true -> match c, o with
  | CaseStmt d k e, ObsStmt out => out = emit_stmt (d, k, e)
  | CaseQuote d s, ObsQuote r => r = quote (qspec_of d) s
  | _, _ => True end.
Proof.
  destruct c as [d k e|d s|d|d o0 n opqs], o as [out|r| |steps raised]; cbn [corr_C14]; auto.
  - destruct (emit_stmt (d, k, e)) as [a b|x], out as [a' b'|y]; simpl; try discriminate.
    + rewrite andb_true_iff, !str_eqb_eq. now intros [-> ->].
    + destruct x, y; simpl; try discriminate; auto.
  - destruct (quote (qspec_of d) s) as [a|], r as [b|]; simpl; try discriminate; auto. rewrite str_eqb_eq. now intros ->.
Qed.

(* ------------------------------------------------------------------ refutations (vm_compute witnesses) *)

Lemma w_pct_fails : check_stmt w_pct (emit_stmt w_pct) = false. Proof. vm_compute. reflexivity. Qed.
Lemma w_tab_fails : check_stmt w_tab (emit_stmt w_tab) = false. Proof. vm_compute. reflexivity. Qed.
Lemma w_nl_fails : check_stmt w_nl (emit_stmt w_nl) = false. Proof. vm_compute. reflexivity. Qed.

Lemma refuted i : check_stmt i (emit_stmt i) = false -> ~ C14_holds i (emit_stmt i).
Proof. intros H X. apply check_stmt_complete in X. congruence. Qed.

Definition w_old_env : env := mkEnv (Some (s2l "My Schema")) (s2l "my table") (s2l "t_new") (s2l "Some Col") (s2l "c_new") [s2l "'x'"].
Definition w_old_env2 : env := mkEnv None (s2l "t'x") (s2l "t_new") (s2l "c") (s2l "c_new") [].

Lemma old_oracle_rejected :
  visitor_wf (qspec_of Oracle) old_oracle_column_comment = false /\
  env_ok (qspec_of Oracle) w_old_env = true /\
  exists sql, render (qspec_of Oracle) w_old_env old_oracle_column_comment = ROk sql /\
              lex (qspec_of Oracle) sql <> expected_tokens (qspec_of Oracle) w_old_env old_oracle_column_comment.
Proof.
  split; [vm_compute; reflexivity|]. split; [vm_compute; reflexivity|].
  eexists. split; [vm_compute; reflexivity|]. intro H. apply tokens_eqb_eq in H. vm_compute in H. discriminate H.
Qed.

Lemma old_mssql_rejected :
  visitor_wf (qspec_of Mssql) old_mssql_rename_table = false /\
  env_ok (qspec_of Mssql) w_old_env2 = true /\
  exists sql, render (qspec_of Mssql) w_old_env2 old_mssql_rename_table = ROk sql /\
              lex (qspec_of Mssql) sql <> expected_tokens (qspec_of Mssql) w_old_env2 old_mssql_rename_table.
Proof.
  split; [vm_compute; reflexivity|]. split; [vm_compute; reflexivity|].
  eexists. split; [vm_compute; reflexivity|]. intro H. apply tokens_eqb_eq in H. vm_compute in H. discriminate H.
Qed.
