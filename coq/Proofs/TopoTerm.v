(* Termination of the _topological_sort transcription: the potential phi strictly decreases. *)
From Coq Require Import List NArith Arith Lia Bool Permutation.
Import ListNotations.
From AV Require Import Model.Topo Proofs.TopoProof.

Lemma filter_length_le {A} (f:A->bool) l : length (filter f l) <= length l.
Proof. induction l as [|a l IH]; cbn; [lia|]. destruct (f a); cbn; lia. Qed.

Lemma filter_length_lt {A} (f g:A->bool) l :
  (forall x, In x l -> f x = true -> g x = true) ->
  (exists y, In y l /\ g y = true /\ f y = false) ->
  length (filter f l) < length (filter g l).
Proof.
  induction l as [|a l IH]; intros Himp [y [Hy [Hg Hf]]]; [destruct Hy|].
  cbn. destruct Hy as [->|Hy].
  - rewrite Hg, Hf. cbn.
    assert (length (filter f l) <= length (filter g l)).
    { clear -Himp. induction l as [|b l IH]; cbn; [lia|].
      assert (Hb := Himp b (or_intror (or_introl eq_refl))).
      destruct (f b) eqn:Efb.
      - rewrite (Hb eq_refl). cbn. apply le_n_S. apply IH. intros x Hx. apply Himp. cbn in *. tauto.
      - destruct (g b); cbn; [apply le_S|]; apply IH; intros x Hx; apply Himp; cbn in *; tauto. }
    lia.
  - assert (IH' : length (filter f l) < length (filter g l)).
    { apply IH; [intros x Hx; apply Himp; right; auto | exists y; auto]. }
    destruct (f a) eqn:Efa.
    + rewrite (Himp a (or_introl eq_refl) Efa). cbn. lia.
    + destruct (g a); cbn; lia.
Qed.

Lemma NoDup_incl_len (l l':list N) : NoDup l -> incl l l' -> length l <= length l'.
Proof. apply NoDup_incl_length. Qed.

Lemma NoDup_nth_error_fst (l:list (N*list N)) k i c A A' :
  NoDup (map fst l) -> nth_error l k = Some (c,A) -> nth_error l i = Some (c,A') -> k = i.
Proof.
  intros ND Hk Hi. apply (proj1 (NoDup_nth_error (map fst l)) ND).
  - rewrite map_length. apply nth_error_Some. congruence.
  - rewrite !nth_error_map, Hk, Hi. reflexivity.
Qed.

Section TERM.
  Variable parents : N -> list N.
  Variable anc     : N -> list N.
  Variable linear  : N -> bool.
  Hypothesis anc_spec : forall x y, In y (anc x) <-> Anc parents x y.
  Hypothesis acyclic  : forall x p, In p (parents x) -> ~ Anc parents p x.
  Hypothesis linear_spec : forall c, linear c = true -> exists p, parents c = [p].
  Hypothesis parents_nodup : forall x, NoDup (parents x).
  Variable todo0 : list N.
  Hypothesis todo0_nodup : NoDup todo0.
  Hypothesis convex : forall x y p, In x todo0 -> In y todo0 -> Anc parents x p -> Anc parents p y -> In p todo0.

  Let InvS := Inv parents todo0.

  (* number of current heads that have the candidate among their stored ancestors, other than itself *)
  Definition blockers (s:st) : nat :=
    match nth_error (hs s) (idx s) with
    | None => 0
    | Some (c,_) => length (filter (fun hA => memN c (snd hA) && negb (N.eqb (fst hA) c)) (hs s))
    end.

  Definition B := length todo0.
  Definition phi (s:st) : nat := length (todo s) * (B + 2) + blockers s.

  Lemma blockers_le s : InvS s -> blockers s <= B.
  Proof.
    intros I. unfold blockers. destruct (nth_error (hs s) (idx s)) as [[c Ac]|]; [|lia].
    etransitivity; [apply filter_length_le|].
    rewrite <- (map_length fst). unfold B.
    apply NoDup_incl_len; [apply I|].
    intros h Hh. apply in_map_iff in Hh. destruct Hh as [[h' A] [<- Hin]].
    apply (i_part _ _ _ I). right. apply (i_heads _ _ _ I _ _ Hin).
  Qed.

  Lemma step_decreases s s' : InvS s -> step parents anc linear s = Next s' -> InvS s' -> phi s' < phi s.
  Proof.
    intros I H I'. unfold step in H.
    destruct (hs s) as [|hd tl] eqn:Ehs; [discriminate|]. rewrite <- Ehs in *.
    destruct (nth_error (hs s) (idx s)) as [[c Ac]|] eqn:En; [|discriminate].
    assert (Hc_in : In (c,Ac) (hs s)) by (eapply nth_error_In; eauto).
    destruct (i_heads _ _ _ I _ _ Hc_in) as [Hc_todo HAc].
    destruct (find_blocker c (idx s) 0 (hs s)) as [k|] eqn:Eb.
    - (* switch: todo unchanged, blockers strictly decrease *)
      inversion H; subst s'; clear H. unfold phi; cbn [todo].
      enough (blockers {| hs := hs s; idx := k; todo := todo s; out := out s |} < blockers s) by lia.
      unfold blockers; cbn [hs idx]. rewrite En.
      pose proof (find_blocker_Some_spec _ _ _ _ _ Eb) as [h [A [Hk [Hne [HcA _]]]]].
      rewrite Nat.sub_0_r in Hk. rewrite Hk.
      assert (Hh_in : In (h,A) (hs s)) by (eapply nth_error_In; eauto).
      destruct (i_heads _ _ _ I _ _ Hh_in) as [_ HA].
      assert (Hhc : Anc parents h c) by (apply HA; apply memN_In; exact HcA).
      assert (Hneq : h <> c).
      { intros ->. pose proof (i_nodup_heads _ _ _ I) as ND. apply Hne.
        eapply NoDup_nth_error_fst; eauto. }
      apply filter_length_lt.
      + intros [h2 A2] Hin2 Hf. cbn in *. apply andb_true_iff in Hf. destruct Hf as [Hm Hn].
        destruct (i_heads _ _ _ I _ _ Hin2) as [_ HA2].
        apply memN_In, HA2 in Hm.
        apply andb_true_iff. split.
        * apply memN_In, HA2. eapply Anc_trans; eauto.
        * apply negb_true_iff, N.eqb_neq. intros ->.
          apply negb_true_iff, N.eqb_neq in Hn. apply Hn.
          eapply Anc_antisym; eauto.
      + exists (h,A). split; auto. cbn. split.
        * apply andb_true_iff. split; auto. apply negb_true_iff, N.eqb_neq. exact Hneq.
        * apply andb_false_iff. right. apply negb_false_iff, N.eqb_eq. reflexivity.
    - (* emit: todo shrinks by one *)
      assert (Em : memN c (todo s) = true) by (apply memN_In; auto).
      rewrite Em in H.
      assert (Hlen : forall t, t = removeN c (todo s) -> S (length t) = length (todo s)).
      { intros t ->. pose proof (i_todo_nodup _ _ _ I) as ND. revert Hc_todo ND. clear.
        induction (todo s) as [|a l IH]; intros Hin ND; [destruct Hin|]. inversion ND; subst.
        cbn. destruct (N.eqb_spec c a) as [->|Hne]; cbn.
        - f_equal. clear -H1. induction l as [|b l IH]; cbn; auto.
          destruct (N.eqb_spec a b) as [->|]; cbn; [exfalso; apply H1; left; auto|].
          f_equal. apply IH. intros Hx. apply H1. right; auto.
        - f_equal. apply IH; auto. destruct Hin; [congruence|auto]. }
      assert (Htodo' : todo s' = removeN c (todo s)).
      { destruct (filter _ (parents c)); [|destruct (linear c)]; inversion H; reflexivity. }
      pose proof (Hlen _ Htodo') as HL.
      pose proof (blockers_le _ I') as Hb'.
      unfold phi. rewrite <- HL. nia.
  Qed.

  Lemma run_terminates : forall fuel s, InvS s -> phi s < fuel -> exists o, run parents anc linear fuel s = Some o.
  Proof.
    induction fuel as [|f IH]; intros s I Hphi; [lia|]. cbn [run].
    destruct (step parents anc linear s) as [o|s'|] eqn:E.
    - eauto.
    - assert (I' : InvS s') by (eapply step_preserves; eauto).
      apply IH; auto. pose proof (step_decreases _ _ I E I'). lia.
    - exfalso. eapply step_not_stuck; eauto.
  Qed.
End TERM.
