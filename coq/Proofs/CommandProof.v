(* The whole-command model satisfies the whole-command statement, and the decider applied to the observed
   end-to-end behaviour is sound: C01/C02 (plan), C03 (version table) composed behind the resolution stage. *)
From AV Require Import Spec.Command Proofs.GraphProof Proofs.CycleProof Proofs.PlanProof Proofs.C01Proof Proofs.C02Proof
  Proofs.C03Graph Proofs.HeadsProof Proofs.ComposeProof.
From AV Require Proofs.ResolveProof.
From Coq Require Import Permutation Lia.

(* ---------- names <-> positions ---------- *)
Lemma pos_from_nth H : forall k x n, pos_from k H x = Some n ->
  exists m r, n = (k + N.of_nat m)%N /\ nth_error H m = Some r /\ R.s_id r = x.
Proof. induction H as [|r H IH]; intros k x n E; cbn [pos_from] in E; [discriminate|].
  destruct (R.streqb (R.s_id r) x) eqn:Ex.
  - inversion E; subst. exists 0%nat, r. split; [cbn; lia|]. split; auto. apply ResolveProof.streqb_eq; auto.
  - destruct (IH _ _ _ E) as [m [r' [-> [Hn Hx]]]]. exists (S m), r'. split; [lia|]. split; auto. Qed.

Lemma pos_name H x n : pos H x = Some n -> name_of H n = x.
Proof. unfold pos, name_of. intros E. destruct (pos_from_nth H _ _ _ E) as [m [r [-> [Hn Hx]]]].
  replace (N.to_nat (0 + N.of_nat m)) with m by lia. rewrite Hn. exact Hx. Qed.

Lemma pos_list_names H : forall xs l, pos_list H xs = Some l -> names H l = xs.
Proof. induction xs as [|x xs IH]; intros l E; cbn [pos_list] in E.
  - inversion E. reflexivity.
  - destruct (pos H x) eqn:Ex; [|discriminate]. destruct (pos_list H xs) eqn:El; [|discriminate].
    inversion E; subst. specialize (IH l0 eq_refl). unfold names in *. cbn [map]. rewrite (pos_name H x n Ex), IH. reflexivity. Qed.

(* ---------- rows as multisets of strings ---------- *)
Lemma count_s_notin x l : ~ In x l -> count_s x l = 0%nat.
Proof. unfold count_s. induction l as [|y l IH]; intros Hn; cbn; auto.
  destruct (R.streqb x y) eqn:E.
  - exfalso. apply Hn. left. symmetry. apply ResolveProof.streqb_eq; auto.
  - apply IH. intros Hi. apply Hn. right; auto. Qed.

Lemma same_rowsb_spec a b : same_rowsb a b = true -> same_rows a b.
Proof. unfold same_rowsb, same_rows. rewrite forallb_forall. intros Hf x.
  destruct (in_dec (list_eq_dec N.eq_dec) x (a ++ b)) as [Hi|Hn].
  - apply Nat.eqb_eq. apply Hf; auto.
  - rewrite !count_s_notin; auto; intros Hi; apply Hn, in_or_app; auto. Qed.

Lemma same_rows_refl a : same_rows a a.
Proof. intros x. reflexivity. Qed.

Lemma unchangedb_spec i ran rows : unchangedb i ran rows = true -> unchanged i ran rows.
Proof. unfold unchangedb, unchanged. destruct ran; [|discriminate]. intros Hs. split; auto. apply same_rowsb_spec; auto. Qed.

Lemma xerr_eqb_eq a b : xerr_eqb a b = true -> a = b.
Proof. destruct a, b; cbn; congruence. Qed.

Lemma closedb_spec G A : closedb G A = true -> Spec.C03.closed G A.
Proof. unfold closedb, Spec.C03.closed. rewrite forallb_forall. intros Hf x p Hx Hp.
  specialize (Hf x Hx). apply subsetN_incl in Hf. apply Hf. exact Hp. Qed.

(* ---------- the domain ---------- *)
Lemma graph_okb_spec G : graph_okb G = true ->
  wf_refs G /\ ~ cyclic (all_down G) /\ ndeps_ok G /\ Spec.C03.ndeps_okb G = true.
Proof. unfold graph_okb. rewrite andb_true_iff. intros [Hw Hn].
  destruct (wf_graphb_spec G Hw) as [WF [AC NOK]]. auto. Qed.

Lemma steps_up plan : steps_of true plan = up_steps plan.   Proof. reflexivity. Qed.
Lemma steps_down plan : steps_of false plan = down_steps plan.   Proof. reflexivity. Qed.

(* run_plan on a state of the domain, for a plan that the bookkeeping theorem covers *)
Lemma run_plan_ok H G plan up rowsN A0 :
  wf_refs G -> ~ cyclic (all_down G) -> Spec.C03.ndeps_okb G = true ->
  Spec.C03.pre_C03 (G, rowsN, false, []) = true -> Spec.C03.closure G rowsN = Some A0 ->
  (exists os s', run_steps G (fun l => l) (steps_of up plan) (start rowsN) = (os, Some s') /\
                 Inv G (Spec.C03.ghost_steps (steps_of up plan) A0) s') ->
  exists rws, run_plan H G plan up rowsN = COk (names H plan) (names H rws) /\
              Spec.C03.rows_ok G (Spec.C03.ghost_steps (steps_of up plan) A0) rws.
Proof. intros WF AC NOK3 PRE CL [os [s' [ER I]]].
  pose proof (gwf_of G WF AC NOK3) as W.
  exists (rows s'). split; [|apply Inv_rows_ok; auto].
  unfold run_plan, run_cmd. fold (steps_of up plan). rewrite ER. cbn [option_map]. reflexivity. Qed.

Theorem model_holds : forall i, Cmd_holds i (run_command i).
Proof. intros i. unfold Cmd_holds, run_command, cmd_pre. destruct (resolve_cmd i) as [|e|G rowsN T L|G rowsN target branch U] eqn:ER.
  - auto.
  - intros _. cbn [exec_cmd]. split; auto. split; auto. apply same_rows_refl.
  - rewrite !andb_true_iff. intros [[[HG HS] HL] HT] A0 CL.
    destruct (graph_okb_spec G HG) as [WF [AC [NOK NOK3]]].
    apply list_eqbN_eq in HL. subst L. apply subsetN_incl in HT. unfold state_okb in HS.
    pose proof (start_Inv G A0 rowsN (pre_InvR G rowsN false [] A0 HS CL)) as I0.
    pose proof (C01Proof.model_holds G WF AC NOK TOther T rowsN eq_refl) as MH.
    cbn [exec_cmd]. destruct (upgrade_plan G T rowsN) as [plan|e] eqn:EP.
    + destruct (upgrade_command G (fun l => l) T A0 (start rowsN) plan WF AC NOK NOK3 (fun l => Permutation_refl l) HT I0 EP)
        as [os [s' [ERS [_ [I' _]]]]].
      destruct (run_plan_ok (c_revs i) G plan true rowsN A0 WF AC NOK3 HS CL) as [rws [E1 E2]].
      { exists os, s'. split; auto. }
      rewrite E1. exists plan, rws. auto.
    + pose proof (C01Proof.upgrade_total G WF AC NOK T rowsN e EP) as ->. cbn [plan_xerr].
      split; auto. split; auto. split; auto. apply same_rows_refl.
  - rewrite !andb_true_iff. intros [[[[HG HS] HU] _] _] A0 CL.
    destruct (graph_okb_spec G HG) as [WF [AC [NOK NOK3]]].
    apply list_eqbN_eq in HU. subst U. unfold state_okb in HS.
    pose proof (start_Inv G A0 rowsN (pre_InvR G rowsN false [] A0 HS CL)) as I0.
    pose proof (downgrade_plan_result G WF AC NOK DOther target branch rowsN eq_refl) as MH.
    cbn [exec_cmd]. destruct (downgrade_plan G target branch rowsN) as [plan|e] eqn:EP.
    + destruct (downgrade_command G (fun l => l) target branch A0 (start rowsN) plan WF AC NOK NOK3 (fun l => Permutation_refl l) I0 EP)
        as [os [s' [ERS [_ [I' _]]]]].
      destruct (run_plan_ok (c_revs i) G plan false rowsN A0 WF AC NOK3 HS CL) as [rws [E1 E2]].
      { exists os, s'. split; auto. }
      rewrite E1. exists plan, rws. auto.
    + assert (e = PERange \/ e = PERevision) as He.
      { destruct MH as [_ MH]. destruct e; try contradiction; auto. }
      destruct He as [-> | ->]; cbn [plan_xerr]; (split; [|split; auto; apply same_rows_refl]); [left|right]; auto. Qed.

Theorem decider_sound : forall i o, check_cmd i o = true -> Cmd_holds i o.
Proof. intros i o. unfold check_cmd, Cmd_holds. destruct (cmd_pre i) eqn:EPRE; [|intros _; discriminate]. cbn [negb].
  intros HC _. unfold cmd_pre in EPRE. destruct (resolve_cmd i) as [|e|G rowsN T L|G rowsN target branch U] eqn:ER.
  - auto.
  - destruct o as [|e' ran rows]; [discriminate|]. apply andb_true_iff in HC. destruct HC as [H1 H2].
    split; [apply xerr_eqb_eq; auto|apply unchangedb_spec; auto].
  - apply andb_true_iff in EPRE. destruct EPRE as [EPRE _]. apply andb_true_iff in EPRE. destruct EPRE as [EPRE _].
    apply andb_true_iff in EPRE. destruct EPRE as [HG HS].
    destruct (graph_okb_spec G HG) as [WF [AC [NOK NOK3]]]. pose proof (gwf_of G WF AC NOK3) as W.
    intros A0 CL. rewrite CL in HC. destruct o as [ran rows|e ran rows].
    + destruct (pos_list (c_revs i) ran) as [plan|] eqn:E1; [|discriminate].
      destruct (pos_list (c_revs i) rows) as [rws|] eqn:E2; [|discriminate].
      apply andb_true_iff in HC. destruct HC as [HC H3]. apply andb_true_iff in HC. destruct HC as [H1 H2].
      exists plan, rws. split; [symmetry; apply pos_list_names; auto|]. split; [symmetry; apply pos_list_names; auto|].
      split; [apply (C01Proof.decider_sound G WF); auto|].
      apply rows_okb_spec; auto. apply closedb_spec; auto. apply gwf_noself; auto.
    + apply andb_true_iff in HC. destruct HC as [HC H3]. apply andb_true_iff in HC. destruct HC as [H1 H2].
      split; [apply xerr_eqb_eq; auto|]. split; [apply (C01Proof.decider_sound G WF); auto|apply unchangedb_spec; auto].
  - apply andb_true_iff in EPRE. destruct EPRE as [EPRE _]. apply andb_true_iff in EPRE. destruct EPRE as [EPRE _].
    apply andb_true_iff in EPRE. destruct EPRE as [EPRE _]. apply andb_true_iff in EPRE. destruct EPRE as [HG HS].
    destruct (graph_okb_spec G HG) as [WF [AC [NOK NOK3]]]. pose proof (gwf_of G WF AC NOK3) as W.
    intros A0 CL. rewrite CL in HC. destruct o as [ran rows|e ran rows].
    + destruct (pos_list (c_revs i) ran) as [plan|] eqn:E1; [|discriminate].
      destruct (pos_list (c_revs i) rows) as [rws|] eqn:E2; [|discriminate].
      apply andb_true_iff in HC. destruct HC as [HC H3]. apply andb_true_iff in HC. destruct HC as [H1 H2].
      exists plan, rws. split; [symmetry; apply pos_list_names; auto|]. split; [symmetry; apply pos_list_names; auto|].
      split; [apply (C02Proof.decider_sound G WF AC); auto|].
      apply rows_okb_spec; auto. apply closedb_spec; auto. apply gwf_noself; auto.
    + apply andb_true_iff in HC. destruct HC as [HC H3]. split; [|apply unchangedb_spec; auto].
      apply orb_true_iff in HC. destruct HC as [HC|HC]; apply andb_true_iff in HC; destruct HC as [H1 H2]; [left|right];
        (split; [apply xerr_eqb_eq; auto|apply (C02Proof.decider_sound G WF AC); auto]). Qed.

(* a history with a cycle (C15): every command is refused, whatever the target, nothing runs *)
Theorem cyclic_refused : forall i G0,
  has_colon (c_target i) = false -> intern0 (c_revs i) = Some G0 -> wf_refs G0 -> cyclic (all_down G0) ->
  run_command i = CFail R.CmdRevision [] (c_rows i).
Proof. intros i G0 HC HI WF CY. unfold run_command, resolve_cmd. rewrite HC, HI.
  apply (load_iff G0 WF) in CY. destruct (Cycle.load G0) as [l|e]; [discriminate|]. reflexivity. Qed.

(* and for an acyclic one the loader's check is passed, so the refusal above is exactly C15's *)
Theorem acyclic_passes_loader : forall G0, wf_refs G0 -> ~ cyclic (all_down G0) -> exists l, Cycle.load G0 = Loaded l.
Proof. intros G0 WF AC. destruct (Cycle.load G0) as [l|e] eqn:E; [eauto|]. exfalso.
  pose proof (load_iff G0 WF) as [H1 _]. pose proof (load_total G0 WF) as [T1 T2].
  apply AC, H1. rewrite E. destruct e; try reflexivity; congruence. Qed.

(* ---------- sessions ---------- *)
Theorem session_decider_sound : forall l, check_cmds l tt = true -> Cmds_hold l.
Proof. intros l. unfold check_cmds, Cmds_hold. rewrite andb_true_iff, forallb_forall. intros [_ H].
  apply Forall_forall. intros p Hp. apply decider_sound. apply H; auto. Qed.

Theorem session_model_holds : forall rows cmds, Cmds_hold (run_session rows cmds) /\ chained (run_session rows cmds) = true.
Proof. intros rows cmds. revert rows. induction cmds as [|c rest IH]; intros rows; cbn [run_session].
  - split; [constructor|reflexivity].
  - destruct (IH (rows_after (run_command (with_rows c rows)))) as [H1 H2]. split.
    + constructor; auto. apply model_holds.
    + destruct rest as [|c' rest']; [reflexivity|].
      change (run_session (rows_after (run_command (with_rows c rows))) (c' :: rest')) with
        ((with_rows c' (rows_after (run_command (with_rows c rows))), run_command (with_rows c' (rows_after (run_command (with_rows c rows)))))
           :: run_session (rows_after (run_command (with_rows c' (rows_after (run_command (with_rows c rows)))))) rest') in *.
      cbn [chained fst snd] in *. apply andb_true_iff. split; [|exact H2].
      cbn [with_rows c_rows]. unfold same_rowsb. apply forallb_forall. intros x _. apply Nat.eqb_refl. Qed.
