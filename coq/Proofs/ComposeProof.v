(* Composition of C01/C02 with C03: the plans the planner models produce are valid step
   sequences for the version-table bookkeeping, so a whole `upgrade` / `downgrade` command
   (planner followed by HeadMaintainer.update_to_step for every step) keeps the version table
   equal to the heads of the applied set after every step. *)
From AV Require Import Model.Plan Spec.C01 Spec.C02 Spec.C03 Proofs.GraphProof Proofs.CycleProof
  Proofs.PlanProof Proofs.C01Proof Proofs.C02Proof Proofs.C03Graph Proofs.HeadsProof.
From Coq Require Import Permutation.

Definition up_steps (plan : list N) : list step := map (fun r => RevStep r true) plan.
Definition down_steps (plan : list N) : list step := map (fun r => RevStep r false) plan.

Section COMPOSE.
  Variable G : graph.
  Hypothesis WF : wf_refs G.
  Hypothesis AC : ~ cyclic (all_down G).
  Hypothesis NOK : ndeps_ok G.

  Lemma AncOf_in_ids X z : incl X (ids G) -> AncOf G X z -> In z (ids G).
  Proof. intros HX [x [Hx P]]. unfold Anc in P. apply HX in Hx. clear HX. induction P; auto.
    apply IHP. eapply all_down_closed; eauto. Qed.

  Lemma up_valid_aux T Cur A plan : incl T (ids G) -> (forall z, In z A <-> AncOf G Cur z) ->
    upgrade_plan G T Cur = POk plan ->
    forall post pre A', plan = pre ++ post -> (forall z, In z A' <-> In z pre \/ In z A) ->
    valid_steps G A' (up_steps post).
  Proof. intros HT HA E. pose proof (upgrade_plan_result G WF AC NOK T Cur) as H. rewrite E in H.
    specialize (H (TIds T) (proj2 (seteqN_spec T T) (fun x => iff_refl _))). destruct H as [_ [ND [Hmem Hord]]].
    induction post as [|r post IH]; intros pre A' Ep HA'; cbn [up_steps map valid_steps]; auto.
    assert (In r plan) as Hr by (rewrite Ep; apply in_or_app; right; left; auto).
    destruct (proj1 (Hmem r) Hr) as [HrT HrC].
    assert (~ In r pre) as Hnp.
    { intros Hin. rewrite Ep in ND. apply NoDup_remove_2 in ND. apply ND. apply in_or_app; auto. }
    split.
    - unfold valid_step. split; [eapply AncOf_in_ids; eauto|]. split.
      + intros p Hp. apply HA'. destruct (Hord pre r post Ep p Hp) as [H1|H1]; auto. right. apply HA. exact H1.
      + intros Hin. apply HA' in Hin. destruct Hin as [H1|H1]; auto. apply HrC. apply HA. exact H1.
    - apply (IH (pre ++ [r]) (ghost r true A')).
      + rewrite Ep, <- app_assoc. reflexivity.
      + intros z. cbn [ghost]. simpl. rewrite in_app_iff, HA'. simpl. tauto. Qed.

  Theorem upgrade_plan_valid T Cur A plan : incl T (ids G) -> (forall z, In z A <-> AncOf G Cur z) ->
    upgrade_plan G T Cur = POk plan -> valid_steps G A (up_steps plan).
  Proof. intros HT HA E. apply (up_valid_aux T Cur A plan HT HA E plan [] A); auto. intros z; simpl; tauto. Qed.

  Lemma down_valid_aux target branch Cur A plan : (forall z, In z A <-> AncOf G Cur z) ->
    downgrade_plan G target branch Cur = POk plan ->
    forall post pre A', plan = pre ++ post -> (forall z, In z A' <-> In z A /\ ~ In z pre) ->
    valid_steps G A' (down_steps post).
  Proof. intros HA E. pose proof (downgrade_plan_result G WF AC NOK DOther target branch Cur eq_refl) as H. rewrite E in H.
    destruct H as [_ [ND [Hmem [Hord _]]]].
    induction post as [|r post IH]; intros pre A' Ep HA'; cbn [down_steps map valid_steps]; auto.
    assert (In r plan) as Hr by (rewrite Ep; apply in_or_app; right; left; auto).
    destruct (proj1 (Hmem r) Hr) as [_ HrC].
    assert (~ In r pre) as Hnp.
    { intros Hin. rewrite Ep in ND. apply NoDup_remove_2 in ND. apply ND. apply in_or_app; auto. }
    split.
    - unfold valid_step. split. { apply HA'. split; auto. apply HA. exact HrC. }
      intros y Hy Hin. apply HA' in Hy. destruct Hy as [HyA Hyp]. apply Hyp.
      apply (Hord pre r post Ep y); auto. apply HA. exact HyA.
    - apply (IH (pre ++ [r]) (ghost r false A')).
      + rewrite Ep, <- app_assoc. reflexivity.
      + intros z. cbn [ghost]. rewrite removeN_In, in_app_iff, HA'. simpl. split.
        * intros [[H1 H2] H3]. split; auto. intros [H4|[H4|[]]]; auto.
        * intros [H1 H2]. split; [split; auto|]; intros H3; apply H2; auto. Qed.

  Theorem downgrade_plan_valid target branch Cur A plan : (forall z, In z A <-> AncOf G Cur z) ->
    downgrade_plan G target branch Cur = POk plan -> valid_steps G A (down_steps plan).
  Proof. intros HA E. apply (down_valid_aux target branch Cur A plan HA E plan [] A); auto. intros z; simpl; tauto. Qed.
End COMPOSE.

(* the whole command: plan with the planner, then book-keep every step *)
Theorem upgrade_command G ord T A s plan :
  wf_refs G -> ~ cyclic (all_down G) -> ndeps_ok G -> Spec.C03.ndeps_okb G = true ->
  (forall l, Permutation (ord l) l) -> incl T (ids G) ->
  Inv G A s -> upgrade_plan G T (rows s) = POk plan ->
  exists os s', run_steps G ord (up_steps plan) s = (os, Some s') /\ steps_hold G A (up_steps plan) os /\
                Inv G (ghost_steps (up_steps plan) A) s' /\ last_rows os (rows s) = rows s'.
Proof. intros WF AC NOK NOK3 OP HT I E.
  pose proof (gwf_of G WF AC NOK3) as W. pose proof (Inv_rows_ok G A s W I) as [_ [_ [_ Himp]]].
  apply run_steps_thm; auto.
  apply (upgrade_plan_valid G WF AC NOK T (rows s) A plan HT); auto. Qed.

Theorem downgrade_command G ord target branch A s plan :
  wf_refs G -> ~ cyclic (all_down G) -> ndeps_ok G -> Spec.C03.ndeps_okb G = true ->
  (forall l, Permutation (ord l) l) ->
  Inv G A s -> downgrade_plan G target branch (rows s) = POk plan ->
  exists os s', run_steps G ord (down_steps plan) s = (os, Some s') /\ steps_hold G A (down_steps plan) os /\
                Inv G (ghost_steps (down_steps plan) A) s' /\ last_rows os (rows s) = rows s'.
Proof. intros WF AC NOK NOK3 OP I E.
  pose proof (gwf_of G WF AC NOK3) as W. pose proof (Inv_rows_ok G A s W I) as [_ [_ [_ Himp]]].
  apply run_steps_thm; auto.
  apply (downgrade_plan_valid G WF AC NOK target branch (rows s) A plan); auto. Qed.
