(* C04 on branched histories: the bookkeeping of the Txn model, fed with the statements of the C03 model of
   update_to_step, reproduces the C03 rows; composition with C03_invariant (run_steps_thm). *)
From AV Require Import Spec.C04 Proofs.TxnProof.
From AV Require Proofs.HeadsProof.
From Coq Require Import Lia Permutation.

Definition replay (st:list Heads.stmt) (l:list N) : list N := fold_left (fun l v => apply_vop v l) (map conv st) l.
Lemma replay_app a b l : replay (a ++ b) l = replay b (replay a l).
Proof. unfold replay. rewrite map_app, fold_left_app. reflexivity. Qed.

Definition tracks (f:Heads.hm -> Heads.res (Heads.hm * list Heads.stmt)) : Prop :=
  forall h h' st, f h = Heads.Ok (h', st) -> replay st (Heads.rows h) = Heads.rows h'.

Lemma tr_insert v : tracks (Heads.insert_version v).
Proof. intros h h' st. unfold Heads.insert_version. destruct (memN v (Heads.heads h)); [discriminate|].
  intros [= <- <-]. reflexivity. Qed.
Lemma tr_delete v : tracks (Heads.delete_version v).
Proof. intros h h' st. unfold Heads.delete_version. destruct (memN v (Heads.heads h)); [|discriminate].
  destruct (Nat.eqb _ 1); [|discriminate]. intros [= <- <-]. reflexivity. Qed.
Lemma tr_update a b : tracks (Heads.update_version a b).
Proof. intros h h' st. unfold Heads.update_version. destruct (memN b (Heads.heads h)); [discriminate|].
  destruct (memN a (Heads.heads h)); [|discriminate]. destruct (Nat.eqb _ 1); [|discriminate].
  intros [= <- <-]. reflexivity. Qed.
Lemma tr_each op l : (forall x, tracks (op x)) -> tracks (Heads.each op l).
Proof. intros Hop. induction l as [|x l IH]; intros h h' st; simpl.
  - intros [= <- <-]. reflexivity.
  - destruct (op x h) as [[h1 s1]|] eqn:E1; simpl; [|discriminate].
    destruct (Heads.each op l h1) as [[h2 s2]|] eqn:E2; simpl; [|discriminate].
    intros [= <- <-]. rewrite replay_app, (Hop x _ _ _ E1). apply (IH _ _ _ E2). Qed.
Lemma tr_then a f : tracks a -> tracks f -> tracks (fun h => Heads.then_ (a h) f).
Proof. intros Ha Hf h h' st. unfold Heads.then_. destruct (a h) as [[h1 s1]|] eqn:E1; simpl; [|discriminate].
  destruct (f h1) as [[h2 s2]|] eqn:E2; simpl; [|discriminate].
  intros [= <- <-]. rewrite replay_app, (Ha _ _ _ E1). apply (Hf _ _ _ E2). Qed.

Lemma tr_rev_step G ord r up : tracks (Heads.rev_step G ord r up).
Proof.
  intros h h' st. unfold Heads.rev_step.
  assert (FB : forall ft : N * N, Heads.bind (Heads.rev_update_version_num G r up (Heads.heads h)) (fun ft => Heads.update_version (fst ft) (snd ft) h)
                 = Heads.Ok (h', st) -> replay st (Heads.rows h) = Heads.rows h').
  { intros _. destruct (Heads.rev_update_version_num G r up (Heads.heads h)) as [[a b]|]; simpl; [|discriminate].
    apply tr_update. }
  assert (TH : forall l a b, Heads.then_ (Heads.each Heads.delete_version l h) (Heads.update_version a b) = Heads.Ok (h', st) ->
                 replay st (Heads.rows h) = Heads.rows h').
  { intros l a b. apply (tr_then (Heads.each Heads.delete_version l) (Heads.update_version a b)).
    - apply tr_each. apply tr_delete. - apply tr_update. }
  assert (TI : forall l a b, Heads.then_ (Heads.each Heads.insert_version l h) (Heads.update_version a b) = Heads.Ok (h', st) ->
                 replay st (Heads.rows h) = Heads.rows h').
  { intros l a b. apply (tr_then (Heads.each Heads.insert_version l) (Heads.update_version a b)).
    - apply tr_each. apply tr_insert. - apply tr_update. }
  destruct up.
  - destruct (_ || _); [apply tr_insert|]. destruct (_ && _); [apply TH|apply (FB (0%N, 0%N))].
  - destruct (memN r (Heads.heads h)); [|apply (FB (0%N, 0%N))].
    destruct (Heads.is_nil _); [apply tr_delete|].
    destruct (Heads.unmerge_to_revisions G r (Heads.heads h)) as [to0|]; [|discriminate].
    destruct (Heads.is_nil to0); [apply tr_delete|].
    destruct (Nat.ltb 1 _); [apply TI|apply (FB (0%N, 0%N))].
Qed.

Definition rstep (m:mstep) : Heads.step := Heads.RevStep (ms_rev m) (ms_up m).

(* the bookkeeping of the Txn model over the generated steps reproduces the rows of the C03 model *)
Lemma bridge G : forall ms h os h', Heads.run_steps G (fun l => l) (map rstep ms) h = (os, Some h') ->
  rows_after (mk_steps G ms h) (Heads.rows h) = Heads.rows h' /\ length (mk_steps G ms h) = length ms.
Proof.
  induction ms as [|m ms IH]; intros h os h'; simpl.
  - intros E; inversion E; subst; auto.
  - unfold rstep at 1. cbn [Heads.update_to_step].
    change (map (fun m0 : mstep => Heads.RevStep (ms_rev m0) (ms_up m0)) ms) with (map rstep ms).
    destruct (Heads.rev_step G (fun l => l) (ms_rev m) (ms_up m) h) as [[h1 st]|] eqn:E; [|discriminate].
    destruct (Heads.run_steps G (fun l => l) (map rstep ms) h1) as [o f] eqn:E2. intros E0; inversion E0; subst.
    destruct (IH _ _ _ E2) as [I1 I2]. simpl. split; [|lia].
    unfold rows_after in *. simpl. unfold ver_rows at 2. simpl.
    change (fold_left (fun l v => apply_vop v l) (map conv st) (Heads.rows h)) with (replay st (Heads.rows h)).
    rewrite (tr_rev_step _ _ _ _ _ _ _ E). exact I1.
Qed.

Lemma firstn_mk_steps G : forall c ms h, firstn c (mk_steps G ms h) = mk_steps G (firstn c ms) h.
Proof. induction c as [|c IH]; intros [|m ms] h; cbn [firstn mk_steps]; auto.
  destruct (Heads.update_to_step G (fun l => l) (Heads.RevStep (ms_rev m) (ms_up m)) h) as [[h1 st]|]; cbn [firstn];
    [rewrite IH; reflexivity|]. destruct c; reflexivity. Qed.

(* the spec's own notions vs those of the C03 development *)
Lemma gvalid_valid G : forall ms A, gvalid G A ms -> HeadsProof.valid_steps G A (map rstep ms).
Proof. induction ms as [|m ms IH]; intros A; simpl; auto. intros [H1 H2]. split; auto. Qed.
Lemma gapplied_ghost : forall ms A, Spec.C03.ghost_steps (map rstep ms) A = gapplied ms A.
Proof. induction ms as [|m ms IH]; intros A; simpl; auto. Qed.
Lemma gvalid_firstn G : forall c ms A, gvalid G A ms -> gvalid G A (firstn c ms).
Proof. induction c as [|c IH]; intros [|m ms] A; simpl; auto. intros [H1 H2]. split; auto. Qed.
Lemma gvalidb_spec G : forall ms A, gvalidb G A ms = true -> gvalid G A ms.
Proof. induction ms as [|m ms IH]; intros A; simpl; auto. intros H. apply andb_true_iff in H as [H1 H2].
  split; [apply HeadsProof.valid_stepb_spec; auto|apply IH; auto]. Qed.

(* an upgrade run only adds, a downgrade run only removes *)
Lemma up_grows : forall ms A x, forallb ms_up ms = true -> In x A -> In x (gapplied ms A).
Proof. induction ms as [|m ms IH]; intros A x; simpl; auto. intros H Hx. apply andb_true_iff in H as [H1 H2].
  apply IH; auto. unfold gapply, Spec.C03.ghost. rewrite H1. right; auto. Qed.
Lemma down_shrinks : forall ms A x, forallb (fun m => negb (ms_up m)) ms = true -> In x (gapplied ms A) -> In x A.
Proof. induction ms as [|m ms IH]; intros A x; simpl; auto. intros H Hx. apply andb_true_iff in H as [H1 H2].
  apply IH in Hx; auto. unfold gapply, Spec.C03.ghost in Hx. apply negb_true_iff in H1. rewrite H1 in Hx.
  apply removeN_In in Hx. tauto. Qed.
Lemma firstn_split {A} (l:list A) c k : c <= k -> firstn k l = firstn c l ++ firstn (k - c) (skipn c l).
Proof. revert l k; induction c as [|c IH]; intros l k H; simpl.
  - rewrite Nat.sub_0_r. reflexivity.
  - destruct k; [lia|]. destruct l; simpl; [destruct (k - c); reflexivity|]. rewrite (IH l k) by lia. reflexivity. Qed.
Lemma gapplied_app : forall a b A, gapplied (a ++ b) A = gapplied b (gapplied a A).
Proof. induction a as [|m a IH]; intros b A; simpl; auto. Qed.
Lemma forallb_firstn {A} (f:A->bool) : forall c l, forallb f l = true -> forallb f (firstn c l) = true.
Proof. induction c; intros [|x l]; simpl; auto. intros H. apply andb_true_iff in H as [-> H]. simpl. auto. Qed.
Lemma forallb_skipn {A} (f:A->bool) : forall c l, forallb f l = true -> forallb f (skipn c l) = true.
Proof. induction c; intros [|x l]; simpl; auto. intros H. apply andb_true_iff in H as [_ H]. auto. Qed.

(* validity at the failing step *)
Lemma gvalid_nth G : forall k ms A m, gvalid G A ms -> nth_error ms k = Some m ->
  Spec.C03.valid_step G (gapplied (firstn k ms) A) (ms_rev m) (ms_up m).
Proof. induction k as [|k IH]; intros [|x ms] A m; simpl; try discriminate.
  - intros [H _] [= <-]. exact H.
  - intros [_ H] Hn. apply IH; auto. Qed.

Section Compose.
  Variable gi : ginput.
  Let G := g_graph gi.
  Let ms := g_msteps gi.
  Let i := to_input gi.
  Variable A0 : list N.
  Hypothesis Hpre : gpre gi = true.
  Hypothesis Hcl : Spec.C03.closure G (vrows (g_db0 gi)) = Some A0.
  Hypothesis Hwf : wf_refs G.
  Hypothesis Hac : ~ cyclic (all_down G).
  Hypothesis Hnd : Spec.C03.ndeps_okb G = true.
  Hypothesis Hval : gvalid G A0 ms.

  Lemma W : HeadsProof.gwf G. Proof. apply HeadsProof.gwf_of; auto. Qed.

  (* the C03 model on a prefix of the plan *)
  Lemma prefix_run c : exists os h',
    Heads.run_steps G (fun l => l) (map rstep (firstn c ms)) (Heads.start (vrows (g_db0 gi))) = (os, Some h') /\
    HeadsProof.Inv G (gapplied (firstn c ms) A0) h'.
  Proof.
    pose proof (HeadsProof.pre_InvR G (vrows (g_db0 gi)) false [] A0 Hpre Hcl) as IR.
    pose proof (HeadsProof.start_Inv _ _ _ IR) as I0.
    destruct (HeadsProof.run_steps_thm G (fun l => l) W (fun l => Permutation_refl l) (map rstep (firstn c ms)) A0 _ I0
                (gvalid_valid G _ _ (gvalid_firstn G c ms A0 Hval))) as (os & h' & E & _ & I' & _).
    exists os, h'. rewrite gapplied_ghost in I'. auto.
  Qed.

  Lemma rows_prefix c : exists h', HeadsProof.Inv G (gapplied (firstn c ms) A0) h' /\
    rows_after (firstn c (i_steps i)) (vrows (g_db0 gi)) = Heads.rows h'.
  Proof.
    destruct (prefix_run c) as (os & h' & E & I'). exists h'. split; auto.
    unfold i, to_input. cbn [i_steps]. rewrite firstn_mk_steps.
    destruct (bridge G _ _ _ _ E) as [B _]. exact B.
  Qed.

  Lemma steps_len : length (i_steps i) = length ms.
  Proof. destruct (prefix_run (length ms)) as (os & h' & E & _). rewrite firstn_all in E.
    destruct (bridge G _ _ _ _ E) as [_ B]. exact B. Qed.

  Lemma named k m : fail_index i = Some k -> nth_error ms k = Some m ->
    let A' := gapplied (firstn (committed_count i) ms) A0 in
    (forallb ms_up ms = true -> ~ In (ms_rev m) A') /\
    (forallb (fun x => negb (ms_up x)) ms = true -> In (ms_rev m) A').
  Proof.
    intros Hf Hn A'. pose proof (count_le i k Hf) as Hle.
    pose proof (gvalid_nth G k ms A0 m Hval Hn) as V.
    assert (Esplit : gapplied (firstn k ms) A0 = gapplied (firstn (k - committed_count i) (skipn (committed_count i) ms)) A').
    { rewrite (firstn_split ms _ _ Hle), gapplied_app. reflexivity. }
    split; intros Hall.
    - assert (Hup : ms_up m = true). { rewrite forallb_forall in Hall. apply Hall. eapply nth_error_In; eauto. }
      rewrite Hup in V. destruct V as (_ & _ & V). intros Hin. apply V. rewrite Esplit.
      apply up_grows; auto. apply forallb_firstn. apply forallb_skipn. auto.
    - assert (Hup : ms_up m = false). { rewrite forallb_forall in Hall. apply negb_true_iff. apply Hall. eapply nth_error_In; eauto. }
      rewrite Hup in V. destruct V as (V & _). rewrite Esplit in V.
      apply (down_shrinks _ A' _ (forallb_firstn _ _ _ (forallb_skipn _ _ _ Hall)) V).
  Qed.
End Compose.

Theorem C04g_main_thm gi : consistent (to_input gi) = true -> C04g_holds gi (txn_run_g gi).
Proof.
  intros Hc. unfold C04g_holds, txn_run_g. split; [apply C04_main_thm; auto|].
  intros A0 Hpre Hcl Hwf Hac Hnd Hval. split.
  - rewrite (version_rows_thm _ Hc).
    destruct (rows_prefix gi A0 Hpre Hcl Hwf Hac Hnd Hval (committed_count (to_input gi))) as (h' & I' & E).
    change (i_db0 (to_input gi)) with (g_db0 gi). rewrite E. apply HeadsProof.Inv_rows_ok; auto. apply W; auto.
  - intros k m Hf Hn. apply (named gi A0 Hval k m Hf Hn).
Qed.

Theorem check_C04g_sound gi o : check_C04g gi o = true -> C04g_holds gi o.
Proof.
  unfold check_C04g, C04g_holds. intros H. apply andb_true_iff in H as [H1 H2]. split; [apply check_C04_sound; auto|].
  intros A0 Hpre Hcl Hwf Hac Hnd Hval. rewrite Hpre, Hcl in H2. simpl in H2.
  destruct (gvalidb (g_graph gi) A0 (g_msteps gi)) eqn:Hvb; simpl in H2.
  2:{ (* the decider did not establish validity: derive the clauses from the hypotheses instead *)
      exfalso. clear H2.
      (* gvalid is a hypothesis, gvalidb is its complete decider only in one direction; fall back on decidability *)
      assert (D : forall ms A, gvalid (g_graph gi) A ms -> gvalidb (g_graph gi) A ms = true).
      { induction ms as [|m ms IH]; intros A; simpl; auto. intros [V1 V2]. rewrite (IH _ V2), andb_true_r.
        unfold Spec.C03.valid_step, Spec.C03.valid_stepb in *. destruct (ms_up m).
        - destruct V1 as (V1 & V3 & V4). apply memN_In in V1. apply subsetN_incl in V3. apply memN_nIn in V4.
          rewrite V1, V3, V4. reflexivity.
        - destruct V1 as (V1 & V3). apply memN_In in V1. rewrite V1. simpl. apply negb_true_iff.
          unfold Spec.C03.has_child_in. destruct (existsb _ A) eqn:Ex; auto. apply existsb_exists in Ex as (y & Hy & Hm).
          apply memN_In in Hm. exfalso. eapply V3; eauto. }
      rewrite (D _ _ Hval) in Hvb. discriminate. }
  apply andb_true_iff in H2 as [H2 H3]. split.
  - destruct (rows_prefix gi A0 Hpre Hcl Hwf Hac Hnd Hval (committed_count (to_input gi))) as (h' & (Cl & _) & _).
    apply HeadsProof.rows_okb_spec; auto. apply HeadsProof.gwf_noself. apply W; auto.
  - intros k m Hf Hn. rewrite Hf, Hn in H3. apply andb_true_iff in H3 as [H3 H4]. split; intros Hall; rewrite Hall in *; simpl in *.
    + apply negb_true_iff in H3. apply memN_nIn in H3. exact H3.
    + apply memN_In. exact H4.
Qed.

(* ------------------------------------------------------------------ the named corollaries *)
Section Named.
  Variable gi : ginput.
  Variable A0 : list N.
  Hypothesis Hc : consistent (to_input gi) = true.
  Hypothesis Hpre : gpre gi = true.
  Hypothesis Hcl : Spec.C03.closure (g_graph gi) (vrows (g_db0 gi)) = Some A0.
  Hypothesis Hwf : wf_refs (g_graph gi).
  Hypothesis Hac : ~ cyclic (all_down (g_graph gi)).
  Hypothesis Hnd : Spec.C03.ndeps_okb (g_graph gi) = true.
  Hypothesis Hval : gvalid (g_graph gi) A0 (g_msteps gi).

  Lemma rows_are_heads_thm :
    Spec.C03.rows_ok (g_graph gi) (gapplied (firstn (committed_count (to_input gi)) (g_msteps gi)) A0)
                     (vrows (o_db (txn_run_g gi))).
  Proof. destruct (C04g_main_thm gi Hc) as [_ H]. apply (H A0); auto. Qed.

  Lemma failed_upgrade_thm k m : fail_index (to_input gi) = Some k -> nth_error (g_msteps gi) k = Some m ->
    forallb ms_up (g_msteps gi) = true ->
    ~ In (ms_rev m) (vrows (o_db (txn_run_g gi))) /\ ~ implied (g_graph gi) (vrows (o_db (txn_run_g gi))) (ms_rev m).
  Proof. intros Hf Hn Hall. destruct (C04g_main_thm gi Hc) as [_ H].
    destruct (H A0 Hpre Hcl Hwf Hac Hnd Hval) as [(_ & R2 & _ & R4) N]. destruct (N k m Hf Hn) as [N1 _]. specialize (N1 Hall).
    split.
    - intros Hin. apply R2 in Hin. destruct Hin as [Hin _]. auto.
    - intros Himp. apply N1. apply R4. exact Himp. Qed.

  Lemma failed_downgrade_thm k m : fail_index (to_input gi) = Some k -> nth_error (g_msteps gi) k = Some m ->
    forallb (fun x => negb (ms_up x)) (g_msteps gi) = true ->
    implied (g_graph gi) (vrows (o_db (txn_run_g gi))) (ms_rev m).
  Proof. intros Hf Hn Hall. destruct (C04g_main_thm gi Hc) as [_ H].
    destruct (H A0 Hpre Hcl Hwf Hac Hnd Hval) as [(_ & _ & _ & R4) N]. destruct (N k m Hf Hn) as [_ N2].
    apply R4. apply N2. exact Hall. Qed.
End Named.
