(* Proofs for C11 (Model/BatchFail.v, Spec/C11.v). *)
From AV Require Import Base.ListSet Model.BatchFail Spec.C11.

(* ------------------------------------------------------------------ boolean equalities *)
Lemma list_eqb_spec {A} (eqb:A->A->bool) :
  (forall x y, eqb x y = true <-> x = y) -> forall a b, list_eqb eqb a b = true <-> a = b.
Proof.
  intros H a. induction a as [|x a IH]; destruct b as [|y b]; simpl; try (split; congruence).
  rewrite andb_true_iff, H, IH. split; [intros [-> ->]; auto | inversion 1; auto].
Qed.
Lemma name_eqb_eq a b : name_eqb a b = true <-> a = b.
Proof. apply list_eqb_spec. intros; apply N.eqb_eq. Qed.
Lemma name_eqb_refl a : name_eqb a a = true.
Proof. apply name_eqb_eq; auto. Qed.
Lemma name_eqb_neq a b : name_eqb a b = false <-> a <> b.
Proof. rewrite <- name_eqb_eq. destruct (name_eqb a b); split; congruence. Qed.
Lemma name_eqb_sym a b : name_eqb a b = name_eqb b a.
Proof. destruct (name_eqb a b) eqn:E.
  - apply name_eqb_eq in E; subst; symmetry; apply name_eqb_refl.
  - symmetry; apply name_eqb_neq. apply name_eqb_neq in E. congruence. Qed.
Lemma val_eqb_eq a b : val_eqb a b = true <-> a = b.
Proof. destruct a, b; simpl; try (split; congruence).
  - rewrite Z.eqb_eq. split; congruence.
  - rewrite list_eqbN_eq. split; congruence. Qed.
Lemma row_eqb_eq a b : row_eqb a b = true <-> a = b.
Proof. apply list_eqb_spec. apply val_eqb_eq. Qed.
Lemma mem_name_In x l : mem_name x l = true <-> In x l.
Proof. unfold mem_name. rewrite existsb_exists. split.
  - intros [y [Hy E]]. apply name_eqb_eq in E; subst; auto.
  - intros H; exists x; split; auto. apply name_eqb_refl. Qed.
Lemma skind_eqb_eq a b : skind_eqb a b = true <-> a = b.
Proof. destruct a, b; simpl; try (split; congruence);
  rewrite ?andb_true_iff, ?name_eqb_eq; split; try congruence; try (intros [-> ->]; auto); inversion 1; auto. Qed.

(* ------------------------------------------------------------------ multisets of rows, sets of names *)
Lemma count_row_notin r l : (forall x, In x l -> x <> r) -> count_row r l = 0%nat.
Proof. unfold count_row. induction l as [|y l IH]; simpl; auto. intros H.
  destruct (row_eqb r y) eqn:E. { apply row_eqb_eq in E. exfalso. apply (H y); auto. }
  apply IH. intros; apply H; auto. Qed.
Lemma In_dec_row (r:row) l : In r l \/ (forall x, In x l -> x <> r).
Proof. induction l as [|y l IH]. { right; simpl; tauto. }
  destruct (row_eqb r y) eqn:E. { apply row_eqb_eq in E; subst; left; simpl; auto. }
  destruct IH as [H|H]; [left; simpl; auto|]. right. simpl. intros x [<-|Hx]; auto.
  intro; subst. rewrite (proj2 (row_eqb_eq r r) eq_refl) in E; discriminate. Qed.
Lemma mseqb_sound a b : mseqb a b = true -> mseq a b.
Proof. unfold mseqb, mseq. rewrite forallb_forall. intros H r.
  destruct (In_dec_row r (a ++ b)) as [Hin|Hn].
  - apply Nat.eqb_eq. auto.
  - rewrite !count_row_notin; auto; intros x Hx; apply Hn; apply in_or_app; auto. Qed.
Lemma mseq_refl a : mseq a a. Proof. intro; auto. Qed.
Lemma name_subb_incl a b : name_subb a b = true <-> incl a b.
Proof. unfold name_subb, incl. rewrite forallb_forall. split; intros H x Hx; apply mem_name_In; auto. Qed.
Lemma name_seteqb_sound a b : name_seteqb a b = true -> name_seteq a b.
Proof. unfold name_seteqb, name_seteq. rewrite andb_true_iff, !name_subb_incl. unfold incl. firstorder. Qed.
Lemma otable_eqb_sound x y : otable_eqb x y = true -> otable_equiv x y.
Proof. unfold otable_eqb, otable_equiv. rewrite !andb_true_iff, N.eqb_eq. intros [[? ?] ?].
  auto using mseqb_sound, name_seteqb_sound. Qed.
Lemma otable_equiv_refl x : otable_equiv x x.
Proof. repeat split; auto. Qed.

(* ------------------------------------------------------------------ the observation of a table map *)
Lemma lookup_in_keys n tb : lookup n tb <> None -> In n (map fst tb).
Proof. induction tb as [|[m o] r IH]; simpl; [congruence|]. destruct (name_eqb n m) eqn:E.
  - apply name_eqb_eq in E; subst; auto.
  - auto. Qed.
Lemma dedupe_names_In seen l x : In x (dedupe_names seen l) <-> In x l /\ ~ In x seen.
Proof. revert seen; induction l as [|a r IH]; intros seen; cbn [dedupe_names]. { simpl; tauto. }
  destruct (mem_name a seen) eqn:E.
  - apply mem_name_In in E. rewrite IH. simpl. split; [tauto|]. intros [[->|H] Hn]; tauto.
  - assert (Ha : ~ In a seen) by (rewrite <- mem_name_In; congruence).
    simpl. rewrite IH. simpl. split.
    + intros [->|[H Hn]]; [tauto|]. split; [tauto|]. intro; apply Hn; auto.
    + intros [[->|H] Hn]; [tauto|].
      destruct (name_eqb a x) eqn:Eax; [apply name_eqb_eq in Eax; auto|]. apply name_eqb_neq in Eax.
      right. split; auto. intros [?|?]; [congruence|tauto]. Qed.
Lemma table_names_In n tb : In n (table_names tb) <-> lookup n tb <> None.
Proof. unfold table_names. rewrite filter_In, dedupe_names_In. split.
  - intros [_ H]. destruct (lookup n tb); simpl in H; congruence.
  - intros H. split; [split; [apply lookup_in_keys; auto | simpl; tauto]|]. destruct (lookup n tb); simpl; congruence. Qed.

Lemma obs_lookup_flat n (g:name -> option otable) l :
  obs_lookup n (flat_map (fun m => match g m with Some x => [(m, x)] | None => [] end) l)
  = if mem_name n l then g n else None.
Proof. induction l as [|m l IH]; simpl; auto.
  destruct (name_eqb n m) eqn:E.
  - apply name_eqb_eq in E; subst m. destruct (g n) eqn:G; simpl.
    + rewrite name_eqb_refl; auto.
    + rewrite IH. destruct (mem_name n l); auto.
  - destruct (g m); simpl; [rewrite E|]; apply IH. Qed.
Lemma obs_lookup_obs_of n tb : obs_lookup n (obs_of tb) = option_map abs_table (lookup n tb).
Proof. unfold obs_of.
  rewrite (obs_lookup_flat n (fun m => option_map abs_table (lookup m tb)) (table_names tb)).
  destruct (mem_name n (table_names tb)) eqn:E; auto.
  destruct (lookup n tb) eqn:L; auto. exfalso.
  assert (H : In n (table_names tb)) by (apply table_names_In; congruence).
  apply mem_name_In in H. congruence. Qed.

(* ------------------------------------------------------------------ generic facts about the interpreter *)
Fixpoint all_stmts (S:stmt -> Prop) (p:prog) : Prop :=
  match p with
  | PSkip => True
  | PRaise _ => True
  | PStmt s => S s
  | PSeq p q => all_stmts S p /\ all_stmts S q
  | PTry b h e => all_stmts S b /\ all_stmts S h /\ all_stmts S e
  end.

Lemma run_inv k f inj (I:conn -> Prop) (S:stmt -> Prop) :
  (forall s c, S s -> I c -> I (fst (exec k s c))) ->
  forall p, all_stmts S p -> forall x, I (s_conn x) -> I (s_conn (fst (run k f inj p x))).
Proof.
  intros HS. induction p as [|s|p IHp q IHq|e0|b IHb h IHh els IHe]; cbn [run all_stmts]; intros Hp x Hx.
  - exact Hx.
  - unfold step. destruct (f (s_n x)); cbn; auto.
    specialize (HS s (s_conn x) Hp Hx). destruct (exec k s (s_conn x)); cbn in *; auto.
  - destruct Hp as [H1 H2]. specialize (IHp H1 x Hx). destruct (run k f inj p x) as [x1 [e|]]; cbn in *; auto.
  - exact Hx.
  - destruct Hp as [H1 [H2 H3]]. specialize (IHb H1 x Hx). destruct (run k f inj b x) as [x1 [e|]]; cbn in *; auto.
    specialize (IHh H2 x1 IHb). destruct (run k f inj h x1) as [x2 e2]; cbn in *; auto.
Qed.

Lemma run_log k f inj p : forall x, exists l, s_log (fst (run k f inj p x)) = l ++ s_log x.
Proof.
  induction p as [|s|p IHp q IHq|e0|b IHb h IHh els IHe]; cbn [run]; intros x.
  - exists []; auto.
  - unfold step. destruct (f (s_n x)); [|destruct (exec k s (s_conn x))]; cbn; exists [kind_of s]; auto.
  - destruct (IHp x) as [l1 H1]. destruct (run k f inj p x) as [x1 [e|]]; cbn in *; [eauto|].
    destruct (IHq x1) as [l2 H2]. exists (l2 ++ l1). rewrite H2, H1, app_assoc; auto.
  - exists []; auto.
  - destruct (IHb x) as [l1 H1]. destruct (run k f inj b x) as [x1 [e|]]; cbn in *.
    + destruct (IHh x1) as [l2 H2]. destruct (run k f inj h x1) as [x2 e2]; cbn in *.
      exists (l2 ++ l1). rewrite H2, H1, app_assoc; auto.
    + destruct (IHe x1) as [l2 H2]. exists (l2 ++ l1). rewrite H2, H1, app_assoc; auto.
Qed.

Lemma index_prog_all t (S:stmt -> Prop) ixs : (forall i, S (SCreateIndex t i)) -> all_stmts S (index_prog t ixs).
Proof. intros H. induction ixs; cbn; auto. Qed.

Arguments violates : simpl never.
Arguments calc_temp_name : simpl never.
Arguments copy_row : simpl never.
Arguments index_prog : simpl never.

Section Create.
  Variables (k:kind) (pre:bool) (db:tables) (t tmp:name) (nd:tdef) (tr:list transfer) (ixs:list idx) (f:nat -> bool) (inj:nat -> err) (T0:table).
  Hypothesis HT0 : lookup t db = Some T0.
  Let img := map (copy_row tr) (t_rows T0).

  Definition R1 (tb:tables) : Prop := exists T, lookup t tb = Some T /\ t_def T = t_def T0 /\ t_rows T = t_rows T0.
  Definition R2 (tb:tables) : Prop := exists T, lookup tmp tb = Some T /\ t_rows T = img.
  Definition R3 (tb:tables) : Prop := exists T, lookup t tb = Some T /\ t_def T = nd /\ t_rows T = img.
  Definition safe (tb:tables) : Prop := R1 tb \/ R2 tb \/ R3 tb.
  Definition G (c:conn) : Prop := safe (committed c) /\ safe (current c).

  Definition x0 := mkSt (begin_scope k pre db) 0 [].
  Definition xend := run k f inj (create_prog t tmp nd tr ixs) x0.

  Lemma step_eq kk s x : step kk f inj s x =
    if f (s_n x) then (mkSt (s_conn x) (S (s_n x)) (kind_of s :: s_log x), Some (inj (s_n x)))
    else let (c, e) := exec kk s (s_conn x) in (mkSt c (S (s_n x)) (kind_of s :: s_log x), e).
  Proof. reflexivity. Qed.

  Hypothesis Htm : name_eqb t tmp = false.
  Hypothesis Hmt : name_eqb tmp t = false.

  Ltac sim :=
    repeat (progress (cbn [run exec apply_stmt is_dml kind_of s_n s_conn s_log begin_scope committed current intx
                           lookup set_tbl fst snd t_def t_rows t_idx app];
                      rewrite ?name_eqb_refl, ?Htm, ?Hmt, ?HT0)).
  Ltac go :=
    sim;
    repeat (first
      [ rewrite step_eq; sim
      | match goal with
        | |- context [if f ?n then _ else _] => let F := fresh "F" in destruct (f n) eqn:F; sim
        | |- context [match lookup tmp db with _ => _ end] => let L := fresh "L" in destruct (lookup tmp db) eqn:L; sim
        | |- context [if violates ?a ?b ?c then _ else _] => let V := fresh "V" in destruct (violates a b c) eqn:V; sim
        end ]).

  Lemma index_safe i tb tb' : apply_stmt (SCreateIndex t i) tb = Ok tb' -> safe tb -> safe tb'.
  Proof.
    cbn [apply_stmt]. destruct (lookup t tb) as [T|] eqn:L; [|discriminate].
    destruct (idx_name_used (i_name i) tb); [discriminate|].
    destruct (i_unique i && negb (unique_ok (i_cols i) (t_rows T))); [discriminate|].
    intros E; inversion E; subst tb'; clear E. unfold safe, R1, R2, R3.
    intros [[T' [H1 [H2 H3]]]|[[T' [H1 H2]]|[T' [H1 [H2 H3]]]]].
    - left. rewrite L in H1; inversion H1; subst T'. eexists; split; [cbn [lookup set_tbl]; rewrite name_eqb_refl; reflexivity|]. cbn; auto.
    - right; left. exists T'. split; auto. cbn [lookup set_tbl]. rewrite Hmt. auto.
    - right; right. rewrite L in H1; inversion H1; subst T'. eexists; split; [cbn [lookup set_tbl]; rewrite name_eqb_refl; reflexivity|]. cbn; auto.
  Qed.

  Lemma index_G kk x : G (s_conn x) -> G (s_conn (fst (run kk f inj (index_prog t ixs) x))).
  Proof.
    apply (run_inv kk f inj G (fun s => exists i, s = SCreateIndex t i)).
    - intros s c [i ->] [Hc Hu]. unfold G.
      destruct kk; cbn [exec is_dml]; destruct (apply_stmt (SCreateIndex t i) (current c)) as [tb|e] eqn:A;
        try (destruct (intx c)); cbn [fst committed current]; try (split; auto; fail);
        pose proof (index_safe _ _ _ A Hu); split; auto.
    - apply index_prog_all. eauto.
  Qed.

  Lemma tail_G kk x : G (s_conn x) -> G (s_conn (fst (run kk f inj (index_tail t tr ixs) x))).
  Proof. unfold index_tail. destruct (gather_ok tr ixs); [apply index_G|cbn [run fst]; auto]. Qed.

  Ltac safe_tac :=
    unfold safe, R1, R2, R3; cbn [lookup set_tbl]; rewrite ?name_eqb_refl, ?Htm, ?Hmt, ?HT0;
    first [ left; eexists; split; [reflexivity|split; reflexivity]
          | right; left; eexists; split; [reflexivity|reflexivity]
          | right; right; eexists; split; [reflexivity|split; reflexivity] ].

  Lemma create_G : G (s_conn (fst xend)).
  Proof.
    unfold xend, x0, create_prog.
    destruct k, pre; go; try apply tail_G; unfold G; cbn [s_conn committed current begin_scope]; split; safe_tac.
  Qed.

  Lemma early_false log a b : In (KRename a b) log -> early (rev log) = false.
  Proof. intros H. unfold early. apply negb_false_iff. apply existsb_exists. exists (KRename a b). split; auto.
    apply in_rev. rewrite rev_involutive. auto. Qed.
  Lemma run_keeps_rename kk p x a b : In (KRename a b) (s_log x) -> early (rev (s_log (fst (run kk f inj p x)))) = false.
  Proof. intros H. destruct (run_log kk f inj p x) as [l Hl]. apply (early_false _ a b). rewrite Hl. apply in_or_app; auto. Qed.

  Ltac logsim := cbn [rev app early existsb is_rename negb orb s_log fst].

  (* a failure at or before DROP original: the original is there, unchanged, whatever the caller does next *)
  Lemma create_untouched :
    early (rev (s_log (fst xend))) = true ->
    lookup t (committed (s_conn (fst xend))) = Some T0 /\ lookup t (current (s_conn (fst xend))) = Some T0.
  Proof.
    unfold xend, x0, create_prog.
    destruct k, pre; go;
      try (rewrite (run_keeps_rename _ _ _ tmp t) by (cbn; auto); discriminate);
      logsim; intros He; try discriminate He; cbn [s_conn committed current begin_scope lookup set_tbl];
      rewrite ?name_eqb_refl, ?Htm, ?Hmt, ?HT0; auto.
  Qed.

  Ltac usef H := repeat match goal with F : f ?n = ?b |- _ => try rewrite F in H; clear F end.

  Lemma create_tmp_gone oc :
    lookup tmp db = None ->
    early (rev (s_log (fst xend))) = true ->
    handler_clean f tmp (rev (s_log (fst xend))) ->
    tmp_gone_class k pre f oc = true ->
    lookup tmp (end_scope oc (s_conn (fst xend))) = None.
  Proof.
    intros Hfresh. unfold xend, x0, create_prog.
    destruct k, pre; go; try congruence;
      try (rewrite (run_keeps_rename _ _ _ tmp t) by (cbn; auto); discriminate);
      logsim; intros He Hclean Hclass; try discriminate He;
      try (exfalso; pose proof (Hclean 2%nat eq_refl); congruence);
      try (exfalso; pose proof (Hclean 3%nat eq_refl); congruence);
      destruct oc; cbn [end_scope s_conn committed current begin_scope lookup set_tbl];
      rewrite ?name_eqb_refl, ?Htm, ?Hmt; auto;
      unfold tmp_gone_class, copy_reached in Hclass; usef Hclass; discriminate.
  Qed.

  (* the complement class: the temporary table is back, empty *)
  Lemma create_tmp_resurrected :
    k = Pysqlite -> pre = false -> copy_reached f = true ->
    lookup tmp db = None ->
    early (rev (s_log (fst xend))) = true ->
    handler_clean f tmp (rev (s_log (fst xend))) ->
    lookup tmp (committed (s_conn (fst xend))) = Some (mkTable nd [] []).
  Proof.
    intros Hk Hp Hcr Hfresh. unfold xend, x0, create_prog. rewrite Hk, Hp. unfold copy_reached in Hcr.
    go; try congruence;
      try (rewrite (run_keeps_rename _ _ _ tmp t) by (cbn; auto); discriminate);
      logsim; intros He Hclean; try discriminate He;
      try (exfalso; pose proof (Hclean 2%nat eq_refl); congruence);
      try (exfalso; pose proof (Hclean 3%nat eq_refl); congruence);
      try (exfalso; usef Hcr; discriminate);
      cbn [s_conn committed current begin_scope lookup set_tbl]; rewrite ?name_eqb_refl, ?Htm, ?Hmt; auto.
  Qed.

  (* a copy that violates a constraint of the new definition: IntegrityError, handler runs, original untouched *)
  Lemma create_natural :
    (forall n, f n = false) -> lookup tmp db = None -> violates nd [] img = true ->
    snd xend = Some EIntegrity /\ rev (s_log (fst xend)) = [KCreate tmp; KCopy t tmp; KDrop tmp] /\
    lookup t (committed (s_conn (fst xend))) = Some T0 /\ lookup t (current (s_conn (fst xend))) = Some T0 /\
    lookup tmp (current (s_conn (fst xend))) = None.
  Proof.
    intros Hf Hfresh Hv. unfold img in Hv. unfold xend, x0, create_prog.
    destruct k, pre; go;
      try (match goal with F : f _ = true |- _ => rewrite Hf in F; discriminate F end); try congruence;
      cbn [snd fst s_log s_conn rev app committed current begin_scope lookup set_tbl];
      rewrite ?name_eqb_refl, ?Htm, ?Hmt, ?HT0; auto.
  Qed.

  (* success: the table is there under its own name with the new definition and the copied rows, and no temporary table *)
  Definition J (c:conn) : Prop := lookup tmp (current c) = None /\ R3 (current c).
  Lemma index_J_apply i tb tb' : apply_stmt (SCreateIndex t i) tb = Ok tb' -> lookup tmp tb = None /\ R3 tb -> lookup tmp tb' = None /\ R3 tb'.
  Proof.
    cbn [apply_stmt]. destruct (lookup t tb) as [T|] eqn:L; [|discriminate].
    destruct (idx_name_used (i_name i) tb); [discriminate|].
    destruct (i_unique i && negb (unique_ok (i_cols i) (t_rows T))); [discriminate|].
    intros E; inversion E; subst tb'; clear E. intros [H1 [T' [H2 [H3 H4]]]]. split.
    - cbn [lookup set_tbl]. rewrite Hmt. auto.
    - rewrite L in H2; inversion H2; subst T'. eexists; split; [cbn [lookup set_tbl]; rewrite name_eqb_refl; reflexivity|]. cbn; auto.
  Qed.
  Lemma index_J kk x : J (s_conn x) -> J (s_conn (fst (run kk f inj (index_prog t ixs) x))).
  Proof.
    apply (run_inv kk f inj J (fun s => exists i, s = SCreateIndex t i)).
    - intros s c [i ->] HJ. unfold J in *.
      destruct kk; cbn [exec is_dml]; destruct (apply_stmt (SCreateIndex t i) (current c)) as [tb|e] eqn:A;
        try (destruct (intx c)); cbn [fst committed current]; auto; apply (index_J_apply _ _ _ A HJ).
    - apply index_prog_all. eauto.
  Qed.
  Lemma tail_J kk x : J (s_conn x) -> J (s_conn (fst (run kk f inj (index_tail t tr ixs) x))).
  Proof. unfold index_tail. destruct (gather_ok tr ixs); [apply index_J|cbn [run fst]; auto]. Qed.
  Lemma create_success : lookup tmp db = None -> snd xend = None -> J (s_conn (fst xend)).
  Proof.
    intros Hfresh. unfold xend, x0, create_prog.
    destruct k, pre; go; try congruence; cbn [snd]; intros He; try discriminate He;
      apply tail_J; unfold J, R3; cbn [s_conn current lookup set_tbl]; rewrite ?name_eqb_refl, ?Htm, ?Hmt;
      (split; [auto | eexists; split; [reflexivity|split; reflexivity]]).
  Qed.

  (* one failing statement among the first four, everything else fine: exactly what is left *)
  Lemma create_fault_table pos oc :
    (pos <= 3)%nat -> (forall n, f n = Nat.eqb n pos) -> lookup tmp db = None -> violates nd [] img = false ->
    (lookup t (end_scope oc (s_conn (fst xend))), lookup tmp (end_scope oc (s_conn (fst xend)))) = left_after k pre oc pos T0 nd img.
  Proof.
    intros Hpos Hf Hfresh Hv. unfold img in Hv. unfold xend, x0, create_prog.
    destruct pos as [|[|[|[|p]]]]; [| | | |exfalso; lia];
    destruct k, pre, oc; go;
      try (match goal with F : f _ = _ |- _ => rewrite Hf in F; discriminate F end); try congruence;
      try (match goal with |- context [run ?kk f inj (index_tail t tr ixs) ?x] => exfalso;
             match goal with F : f 3%nat = false |- _ => rewrite Hf in F; discriminate F end end);
      cbn [left_after end_scope fst snd s_conn committed current begin_scope lookup set_tbl];
      rewrite ?name_eqb_refl, ?Htm, ?Hmt, ?HT0, ?Hfresh;
      try (match goal with L : lookup tmp db = _ |- _ => rewrite L end); auto.
  Qed.
  (* the Python-level failure point: the gather raises after the rename; exactly what is left *)
  Lemma create_gather_fault oc :
    gather_ok tr ixs = false -> (forall n, f n = false) -> lookup tmp db = None -> violates nd [] img = false ->
    snd xend = Some EPython /\ rev (s_log (fst xend)) = [KCreate tmp; KCopy t tmp; KDrop t; KRename tmp t] /\
    (lookup t (end_scope oc (s_conn (fst xend))), lookup tmp (end_scope oc (s_conn (fst xend)))) = left_after_gather k pre oc T0 nd img.
  Proof.
    intros Hg Hf Hfresh Hv. unfold img in Hv. unfold xend, x0, create_prog, index_tail. rewrite Hg.
    destruct k, pre, oc; go;
      try (match goal with F : f _ = true |- _ => rewrite Hf in F; discriminate F end); try congruence;
      cbn [run snd fst s_log s_conn rev app left_after_gather end_scope committed current begin_scope lookup set_tbl];
      rewrite ?name_eqb_refl, ?Htm, ?Hmt, ?HT0, ?Hfresh;
      try (match goal with L : lookup tmp db = _ |- _ => rewrite L end); auto.
  Qed.
End Create.

(* ------------------------------------------------------------------ facts that need no case analysis *)
Section Frame.
  Variables (k:kind) (pre:bool) (db:tables) (t tmp:name) (nd:tdef) (tr:list transfer) (ixs:list idx) (f:nat -> bool) (inj:nat -> err).

  Definition touches_only (s:stmt) : Prop :=
    match s with
    | SCreateTable n _ => n = tmp
    | SCopy _ dst _ => dst = tmp
    | SDropTable n => n = t \/ n = tmp
    | SRename a b => a = tmp /\ b = t
    | SCreateIndex n _ => n = t
    end.
  Lemma create_prog_all (S:stmt -> Prop) :
    S (SCreateTable tmp nd) -> S (SCopy t tmp tr) -> S (SDropTable t) -> S (SDropTable tmp) -> S (SRename tmp t) ->
    (forall i, S (SCreateIndex t i)) -> all_stmts S (create_prog t tmp nd tr ixs).
  Proof. intros. cbn. repeat split; auto. unfold index_tail. destruct (gather_ok tr ixs); [apply index_prog_all; auto|exact I]. Qed.
  Lemma create_prog_touches : all_stmts touches_only (create_prog t tmp nd tr ixs).
  Proof. apply create_prog_all; cbn; auto. Qed.

  Definition other (n:name) : Prop := name_eqb n t = false /\ name_eqb n tmp = false.
  Lemma apply_frame s tb tb' n : touches_only s -> other n -> apply_stmt s tb = Ok tb' -> lookup n tb' = lookup n tb.
  Proof.
    intros Hs [Hn1 Hn2]. destruct s; cbn [apply_stmt touches_only] in *.
    - subst. destruct (lookup tmp tb); [discriminate|]. intros E; inversion E. cbn. rewrite Hn2; auto.
    - subst. destruct (lookup src tb); [|discriminate]. destruct (lookup tmp tb); [|discriminate].
      destruct (violates _ _ _); [discriminate|]. intros E; inversion E. cbn. rewrite Hn2; auto.
    - destruct (lookup n0 tb); [|discriminate]. intros E; inversion E. cbn. destruct Hs; subst; rewrite ?Hn1, ?Hn2; auto.
    - destruct Hs; subst. destruct (lookup tmp tb); [|discriminate]. destruct (lookup t tb); [discriminate|].
      intros E; inversion E. cbn. rewrite Hn1, Hn2; auto.
    - subst. destruct (lookup t tb); [|discriminate]. destruct (idx_name_used _ _); [discriminate|].
      destruct (_ && _); [discriminate|]. intros E; inversion E. cbn. rewrite Hn1; auto.
  Qed.

  Definition frame_inv (c:conn) : Prop :=
    forall n, other n -> lookup n (committed c) = lookup n db /\ lookup n (current c) = lookup n db.
  Lemma exec_frame s c : touches_only s -> frame_inv c -> frame_inv (fst (exec k s c)).
  Proof.
    intros Hs Hc n Hn. destruct (Hc n Hn) as [H1 H2].
    destruct k; cbn [exec]; destruct (is_dml s); destruct (apply_stmt s (current c)) as [tb|e] eqn:A;
      try destruct (intx c); cbn [fst committed current]; auto;
      pose proof (apply_frame _ _ _ n Hs Hn A) as Hf; rewrite ?Hf; auto.
  Qed.
  Lemma create_frame : frame_inv (s_conn (fst (run k f inj (create_prog t tmp nd tr ixs) (mkSt (begin_scope k pre db) 0 [])))).
  Proof.
    apply (run_inv k f inj frame_inv touches_only).
    - intros; apply exec_frame; auto.
    - apply create_prog_touches.
    - intros n Hn. cbn. auto.
  Qed.

  (* inside one transaction nothing is committed before the scope ends *)
  Definition tx_inv (c:conn) : Prop := committed c = db /\ intx c = true.
  Lemma exec_tx s c : k = TxDDL \/ k = Pysqlite -> tx_inv c -> tx_inv (fst (exec k s c)).
  Proof.
    intros Hk [H1 H2]. destruct Hk; subst k; cbn [exec]; destruct (is_dml s); destruct (apply_stmt s (current c));
      rewrite ?H2; cbn; unfold tx_inv; cbn; auto.
  Qed.
  Lemma create_tx : k = TxDDL \/ (k = Pysqlite /\ pre = true) ->
    committed (s_conn (fst (run k f inj (create_prog t tmp nd tr ixs) (mkSt (begin_scope k pre db) 0 [])))) = db.
  Proof.
    intros Hk.
    apply (run_inv k f inj tx_inv (fun _ => True)).
    - intros; apply exec_tx; auto. destruct Hk as [?|[? ?]]; auto.
    - apply create_prog_all; auto.
    - unfold tx_inv. destruct Hk as [->|[-> ->]]; cbn; auto.
  Qed.
End Frame.


(* ------------------------------------------------------------------ the temporary name is the table's own name *)
Lemma create_same k pre db t tmp nd tr ixs f inj T0 :
  lookup t db = Some T0 -> name_eqb t tmp = true ->
  exists e, run k f inj (create_prog t tmp nd tr ixs) (mkSt (begin_scope k pre db) 0 [])
            = (mkSt (begin_scope k pre db) 1 [KCreate tmp], Some e).
Proof.
  intros HT0 E. apply name_eqb_eq in E. subst tmp. unfold create_prog. cbn [run]. rewrite step_eq. cbn [s_n s_conn s_log].
  destruct (f 0%nat); [eexists; reflexivity|].
  destruct k, pre; cbn [exec is_dml apply_stmt begin_scope current]; rewrite HT0; eexists; reflexivity.
Qed.

(* ------------------------------------------------------------------ statements about run_batch *)
Lemma run_batch_eq k pre db t nd tr ixs f inj sc :
  run_batch k pre db t nd tr ixs f inj sc =
  let xe := run k f inj (create_prog t (calc_temp_name t) nd tr ixs) (mkSt (begin_scope k pre db) 0 []) in
  let fin := end_scope (eff_outcome sc (snd xe)) (s_conn (fst xe)) in
  mkResult (snd xe) (rev (s_log (fst xe)))
           (match sc with Caller _ => current (s_conn (fst xe)) | OwnScope => fin end) fin.
Proof. unfold run_batch. destruct (run _ _ _ _) as [x e]. reflexivity. Qed.

Section Top.
  Variables (k:kind) (pre:bool) (db:tables) (t:name) (nd:tdef) (tr:list transfer) (ixs:list idx) (f:nat -> bool) (inj:nat -> err) (sc:scope) (T0:table).
  Hypothesis HT0 : lookup t db = Some T0.
  Let tmp := calc_temp_name t.
  Let r := run_batch k pre db t nd tr ixs f inj sc.

  Lemma neq_both : name_eqb t tmp = false -> name_eqb tmp t = false.
  Proof. rewrite name_eqb_sym; auto. Qed.

  Lemma final_cases : r_final r = committed (s_conn (fst (xend k pre db t tmp nd tr ixs f inj)))
                   \/ r_final r = current (s_conn (fst (xend k pre db t tmp nd tr ixs f inj))).
  Proof. unfold r. rewrite run_batch_eq. cbn [r_final]. fold tmp. unfold xend, x0.
    destruct (eff_outcome sc _); cbn [end_scope]; auto. Qed.

  (* every kind, every fault function, any number of indexes, any way the transaction is ended *)
  Theorem no_row_lost_lk : safe t tmp nd tr T0 (r_final r).
  Proof.
    destruct (name_eqb t tmp) eqn:E.
    - destruct (create_same k pre db t tmp nd tr ixs f inj T0 HT0 E) as [e Hc].
      left. exists T0. split; auto.
      destruct final_cases as [H|H]; rewrite H; unfold xend, x0; rewrite Hc; destruct k, pre; cbn; auto.
    - pose proof (create_G k pre db t tmp nd tr ixs f inj T0 HT0 E (neq_both E)) as [H1 H2].
      destruct final_cases as [H|H]; rewrite H; auto.
  Qed.

  Theorem original_untouched_lk : early (r_log r) = true -> lookup t (r_final r) = Some T0.
  Proof.
    destruct (name_eqb t tmp) eqn:E.
    - intros _. destruct (create_same k pre db t tmp nd tr ixs f inj T0 HT0 E) as [e Hc].
      destruct final_cases as [H|H]; rewrite H; unfold xend, x0; rewrite Hc; destruct k, pre; cbn; auto.
    - unfold r at 1. rewrite run_batch_eq. cbn [r_log]. fold tmp. intros He.
      destruct (create_untouched k pre db t tmp nd tr ixs f inj T0 HT0 E (neq_both E) He) as [H1 H2].
      destruct final_cases as [H|H]; rewrite H; auto.
  Qed.

  Lemma fresh_neq : lookup tmp db = None -> name_eqb t tmp = false.
  Proof. intros H. destruct (name_eqb t tmp) eqn:E; auto. apply name_eqb_eq in E. rewrite <- E in H. congruence. Qed.

  Theorem tmp_gone_lk :
    early (r_log r) = true -> lookup tmp db = None -> handler_clean f tmp (r_log r) ->
    tmp_gone_class k pre f (eff_outcome sc (r_err r)) = true ->
    lookup tmp (r_final r) = None.
  Proof.
    unfold r. rewrite run_batch_eq. cbn [r_log r_err r_final]. fold tmp. intros He Hfresh Hcl Hclass.
    pose proof (fresh_neq Hfresh) as E.
    apply (create_tmp_gone k pre db t tmp nd tr ixs f inj T0 HT0 E (neq_both E)); auto.
  Qed.

  Theorem tmp_resurrected_lk :
    k = Pysqlite -> pre = false -> copy_reached f = true -> eff_outcome sc (r_err r) = Rollback ->
    early (r_log r) = true -> lookup tmp db = None -> handler_clean f tmp (r_log r) ->
    lookup tmp (r_final r) = Some (mkTable nd [] []).
  Proof.
    unfold r. rewrite run_batch_eq. cbn [r_log r_err r_final]. fold tmp. intros Hk Hp Hcr Hoc He Hfresh Hcl.
    pose proof (fresh_neq Hfresh) as E. rewrite Hoc. cbn [end_scope].
    apply (create_tmp_resurrected k pre db t tmp nd tr ixs f inj T0 HT0 E (neq_both E)); auto.
  Qed.

  Theorem natural_copy_failure_lk :
    (forall n, f n = false) -> lookup tmp db = None -> violates nd [] (map (copy_row tr) (t_rows T0)) = true ->
    r_err r = Some EIntegrity /\ r_log r = [KCreate tmp; KCopy t tmp; KDrop tmp] /\ early (r_log r) = true /\
    lookup t (r_final r) = Some T0.
  Proof.
    intros Hf Hfresh Hv. pose proof (fresh_neq Hfresh) as E.
    destruct (create_natural k pre db t tmp nd tr ixs f inj T0 HT0 E (neq_both E) Hf Hfresh Hv) as [H1 [H2 [H3 [H4 H5]]]].
    assert (Hl : r_log r = [KCreate tmp; KCopy t tmp; KDrop tmp]) by (unfold r; rewrite run_batch_eq; cbn [r_log]; fold tmp; auto).
    repeat split; auto.
    - unfold r; rewrite run_batch_eq; cbn [r_err]; fold tmp; auto.
    - rewrite Hl. reflexivity.
    - destruct final_cases as [H|H]; rewrite H; auto.
  Qed.

  Theorem others_untouched_lk : forall n, n <> t -> n <> tmp -> lookup n (r_final r) = lookup n db.
  Proof.
    intros n Hn1 Hn2. pose proof (create_frame k pre db t tmp nd tr ixs f inj) as Hfr.
    assert (Ho : other t tmp n) by (split; apply name_eqb_neq; auto).
    destruct (Hfr n Ho) as [H1 H2]. destruct final_cases as [H|H]; rewrite H; auto.
  Qed.

  Theorem txddl_rollback_restores_lk :
    k = TxDDL \/ (k = Pysqlite /\ pre = true) -> eff_outcome sc (r_err r) = Rollback -> r_final r = db.
  Proof.
    intros Hk Hoc. unfold r in *. rewrite run_batch_eq in *. cbn [r_final r_err] in *. rewrite Hoc. cbn [end_scope].
    apply create_tx; auto.
  Qed.

  Theorem success_no_temp_lk :
    lookup tmp db = None -> r_err r = None -> eff_outcome sc (r_err r) = Commit ->
    lookup tmp (r_final r) = None /\
    exists T, lookup t (r_final r) = Some T /\ t_def T = nd /\ t_rows T = map (copy_row tr) (t_rows T0).
  Proof.
    unfold r. rewrite run_batch_eq. cbn [r_err r_final]. fold tmp. intros Hfresh He Hoc. rewrite Hoc. cbn [end_scope].
    pose proof (fresh_neq Hfresh) as E.
    apply (create_success k pre db t tmp nd tr ixs f inj T0 HT0 E (neq_both E)); auto.
  Qed.

  Theorem fault_table_lk pos :
    (pos <= 3)%nat -> (forall n, f n = Nat.eqb n pos) -> lookup tmp db = None ->
    violates nd [] (map (copy_row tr) (t_rows T0)) = false ->
    (lookup t (r_final r), lookup tmp (r_final r)) =
      left_after k pre (eff_outcome sc (r_err r)) pos T0 nd (map (copy_row tr) (t_rows T0)).
  Proof.
    intros Hpos Hf Hfresh Hv. unfold r. rewrite run_batch_eq. cbn [r_final r_err]. fold tmp.
    pose proof (fresh_neq Hfresh) as E.
    apply (create_fault_table k pre db t tmp nd tr ixs f inj T0 HT0 E (neq_both E)); auto.
  Qed.
  Theorem gather_fault_lk :
    gather_ok tr ixs = false -> (forall n, f n = false) -> lookup tmp db = None ->
    violates nd [] (map (copy_row tr) (t_rows T0)) = false ->
    r_err r = Some EPython /\ r_log r = [KCreate tmp; KCopy t tmp; KDrop t; KRename tmp t] /\
    (lookup t (r_final r), lookup tmp (r_final r)) =
      left_after_gather k pre (eff_outcome sc (r_err r)) T0 nd (map (copy_row tr) (t_rows T0)).
  Proof.
    intros Hg Hf Hfresh Hv. unfold r. rewrite run_batch_eq. cbn [r_final r_err r_log]. fold tmp.
    pose proof (fresh_neq Hfresh) as E.
    destruct (create_gather_fault k pre db t tmp nd tr ixs f inj T0 HT0 E (neq_both E)
                (eff_outcome sc (snd (run k f inj (create_prog t tmp nd tr ixs) (mkSt (begin_scope k pre db) 0 [])))) Hg Hf Hfresh Hv) as [H1 [H2 H3]].
    auto.
  Qed.
End Top.

(* ------------------------------------------------------------------ the decider *)
Lemma handler_cleanb_false f tmp log : forall j0, handler_cleanb_from f tmp j0 log = false ->
  exists j, nth_error log j = Some (KDrop tmp) /\ f (j0 + j)%nat = true.
Proof.
  induction log as [|s log IH]; cbn [handler_cleanb_from]; intros j0 H; [discriminate|].
  apply andb_false_iff in H. destruct H as [H|H].
  - destruct (skind_eqb s (KDrop tmp)) eqn:E; [|discriminate]. apply skind_eqb_eq in E. subst s.
    exists 0%nat. rewrite Nat.add_0_r. split; auto. destruct (f j0); auto; discriminate.
  - destruct (IH _ H) as [j [H1 H2]]. exists (S j). split; auto. rewrite <- plus_n_Sm. auto.
Qed.
Lemma handler_clean_b f tmp log : handler_clean f tmp log -> handler_cleanb f tmp log = true.
Proof.
  intros H. unfold handler_cleanb. destruct (handler_cleanb_from f tmp 0 log) eqn:E; auto.
  destruct (handler_cleanb_false _ _ _ _ E) as [j [H1 H2]]. cbn [Nat.add] in H2. rewrite (H j H1) in H2. discriminate.
Qed.

Theorem decider_sound i o : check_C11 i o = true -> C11_holds i o.
Proof.
  unfold check_C11, C11_holds. destruct (o_err o) as [e|]; [|congruence]. intros H _ T0 HT0. rewrite HT0 in H.
  apply andb_true_iff in H. destruct H as [Hn He]. split.
  - unfold no_row_lostb in Hn. unfold no_row_lost. apply orb_true_iff in Hn. destruct Hn as [Hn|Hn]; [apply orb_true_iff in Hn; destruct Hn as [Hn|Hn]|].
    + left. destruct (obs_lookup (i_t i) (o_final o)) as [x|]; [|discriminate]. apply andb_true_iff in Hn. destruct Hn as [H1 H2].
      exists x. repeat split; auto. apply N.eqb_eq; auto. apply mseqb_sound; auto.
    + right; left. destruct (obs_lookup (calc_temp_name (i_t i)) (o_final o)) as [x|]; [|discriminate].
      exists x. split; auto. apply mseqb_sound; auto.
    + right; right. destruct (obs_lookup (i_t i) (o_final o)) as [x|]; [|discriminate]. apply andb_true_iff in Hn. destruct Hn as [H1 H2].
      exists x. repeat split; auto. apply N.eqb_eq; auto. apply mseqb_sound; auto.
  - intros Hearly. rewrite Hearly in He. apply andb_true_iff in He. destruct He as [H1 H2]. split.
    + unfold original_untouched. destruct (obs_lookup (i_t i) (o_final o)) as [x|]; [|discriminate].
      exists x. split; auto. apply otable_eqb_sound; auto.
    + intros Hfresh Hclean. rewrite Hfresh in H2. rewrite (handler_clean_b _ _ _ Hclean) in H2. cbn in H2.
      destruct (obs_lookup (calc_temp_name (i_t i)) (o_final o)); auto; discriminate.
Qed.

(* ------------------------------------------------------------------ the model's own output satisfies the property *)
Lemma safe_no_row_lost i T0 tb (o:output) :
  o_final o = obs_of tb ->
  safe (i_t i) (calc_temp_name (i_t i)) (i_nd i) (i_tr i) T0 tb -> no_row_lost i o T0.
Proof.
  intros Ho. unfold no_row_lost. rewrite Ho, !obs_lookup_obs_of.
  intros [[T [H1 [H2 H3]]]|[[T [H1 H2]]|[T [H1 [H2 H3]]]]]; rewrite H1; cbn [option_map].
  - left. eexists; split; eauto. unfold abs_table, o_tag, o_rows; cbn. rewrite H2, H3. split; auto using mseq_refl.
  - right; left. eexists; split; eauto. unfold abs_table, o_rows; cbn. rewrite H2. apply mseq_refl.
  - right; right. eexists; split; eauto. unfold abs_table, o_tag, o_rows; cbn. rewrite H2, H3. split; auto using mseq_refl.
Qed.

Theorem no_row_lost_obs i T0 : lookup (i_t i) (i_db i) = Some T0 -> no_row_lost i (model_out i) T0.
Proof.
  intros HT0. apply (safe_no_row_lost i T0 (r_final (model_res i))); [reflexivity|].
  apply no_row_lost_lk; auto.
Qed.

Lemma eff_outcome_err sc e e' : eff_outcome sc (Some e) = eff_outcome sc (Some e').
Proof. destruct sc; auto. Qed.

Lemma mo_final i : o_final (model_out i) = obs_of (r_final (model_res i)). Proof. reflexivity. Qed.
Lemma mo_log i : o_log (model_out i) = r_log (model_res i). Proof. reflexivity. Qed.
Lemma mo_err i : o_err (model_out i) = r_err (model_res i). Proof. reflexivity. Qed.

Theorem holds_partial i : inclass_C11 i = true -> C11_holds i (model_out i).
Proof.
  intros Hc. unfold C11_holds. intros Herr T0 HT0. split; [apply no_row_lost_obs; auto|].
  rewrite mo_log. rewrite mo_err in Herr. intros He. split.
  - unfold original_untouched. rewrite mo_final, obs_lookup_obs_of.
    unfold model_res in *. rewrite (original_untouched_lk _ _ _ _ _ _ _ _ _ _ T0 HT0 He). cbn. eexists; split; eauto. apply otable_equiv_refl.
  - intros Hfresh Hclean. rewrite mo_final, obs_lookup_obs_of. unfold model_res in *.
    rewrite (tmp_gone_lk _ _ _ _ _ _ _ _ _ _ T0 HT0 He Hfresh Hclean); auto.
    unfold inclass_C11 in Hc. destruct (r_err _) as [e|]; [|congruence].
    rewrite (eff_outcome_err _ e EInjected). auto.
Qed.

(* ------------------------------------------------------------------ the recorded deviation, as a closed witness *)
(* t(id, a, b) with a NULL in a; the batch sets a NOT NULL; stock driver, Alembic's own scope.  The INSERT..SELECT
   fails, the handler drops the temporary table inside the transaction the INSERT opened, the rollback brings it back. *)
Definition wit_t : name := [116]%N.
Definition wit_rows : list row := [[VInt 1; VInt 1; VText [120]%N]; [VInt 2; VNull; VText [121]%N]; [VInt 3; VInt 3; VText [121]%N]].
Definition wit_db : tables := [(wit_t, Some (mkTable (mkDef 10 [0%nat] [[0%nat]] []) wit_rows []))].
Definition wit (sc:scope) : input :=
  mkIn Pysqlite false wit_db wit_t (mkDef 11 [0%nat; 1%nat] [[0%nat]] []) [TCol 0; TCol 1; TCol 2] [] [] sc None false.

Theorem tmp_gone_refuted : exists i, inclass_C11 i = false /\ check_C11 i (model_out i) = false /\ ~ C11_holds i (model_out i).
Proof.
  exists (wit OwnScope). split; [vm_compute; reflexivity|]. split; [vm_compute; reflexivity|].
  intros H. unfold C11_holds in H.
  assert (He : o_err (model_out (wit OwnScope)) <> None) by (vm_compute; discriminate).
  destruct (H He _ eq_refl) as [_ H2].
  assert (Hearly : early (o_log (model_out (wit OwnScope))) = true) by (vm_compute; reflexivity).
  destruct (H2 Hearly) as [_ H3].
  assert (Hfresh : lookup (calc_temp_name (i_t (wit OwnScope))) (i_db (wit OwnScope)) = None) by (vm_compute; reflexivity).
  assert (Hclean : handler_clean (faults_of (i_faults (wit OwnScope))) (calc_temp_name (i_t (wit OwnScope))) (o_log (model_out (wit OwnScope))))
    by (intros j _; reflexivity).
  specialize (H3 Hfresh Hclean). vm_compute in H3. discriminate.
Qed.

(* ------------------------------------------------------------------ the exception class of an injected fault is irrelevant *)
(* bare `except:` — the handler runs for Exception and non-Exception BaseException alike: what is sent to the database and
   what the database holds do not depend on which class the injected faults raise; only the class that propagates does *)
Lemma run_inj_indep k f inj inj' p : forall x,
  fst (run k f inj p x) = fst (run k f inj' p x) /\ (snd (run k f inj p x) = None <-> snd (run k f inj' p x) = None).
Proof.
  induction p as [|s|p IHp q IHq|e0|b IHb h IHh els IHe]; cbn [run]; intros x.
  - split; tauto.
  - unfold step. destruct (f (s_n x)); cbn; [split; [auto|split; discriminate]|].
    destruct (exec k s (s_conn x)); cbn; split; tauto.
  - destruct (IHp x) as [H1 H2]. destruct (run k f inj p x) as [x1 e1]; destruct (run k f inj' p x) as [x1' e1']; cbn in *. subst x1'.
    destruct e1, e1'; cbn; try (split; [auto|split; discriminate]).
    + exfalso. destruct H2 as [_ H2]. specialize (H2 eq_refl). discriminate.
    + exfalso. destruct H2 as [H2 _]. specialize (H2 eq_refl). discriminate.
    + apply IHq.
  - cbn. split; [auto|split; discriminate].
  - destruct (IHb x) as [H1 H2]. destruct (run k f inj b x) as [x1 e1]; destruct (run k f inj' b x) as [x1' e1']; cbn in *. subst x1'.
    destruct e1, e1'.
    + destruct (IHh x1) as [H3 _]. destruct (run k f inj h x1) as [x2 e2]; destruct (run k f inj' h x1) as [x2' e2']; cbn in *. subst.
      split; [auto|split; discriminate].
    + exfalso. destruct H2 as [_ H2]. specialize (H2 eq_refl). discriminate.
    + exfalso. destruct H2 as [H2 _]. specialize (H2 eq_refl). discriminate.
    + apply IHe.
Qed.

Theorem exception_class_irrelevant k pre db t nd tr ixs f inj inj' sc :
  let r := run_batch k pre db t nd tr ixs f inj sc in
  let r' := run_batch k pre db t nd tr ixs f inj' sc in
  r_log r = r_log r' /\ r_mid r = r_mid r' /\ r_final r = r_final r' /\ (r_err r = None <-> r_err r' = None).
Proof.
  cbn zeta. rewrite !run_batch_eq. cbn [r_log r_mid r_final r_err].
  destruct (run_inj_indep k f inj inj' (create_prog t (calc_temp_name t) nd tr ixs) (mkSt (begin_scope k pre db) 0 [])) as [H1 H2].
  rewrite H1.
  assert (Ho : eff_outcome sc (snd (run k f inj (create_prog t (calc_temp_name t) nd tr ixs) (mkSt (begin_scope k pre db) 0 [])))
             = eff_outcome sc (snd (run k f inj' (create_prog t (calc_temp_name t) nd tr ixs) (mkSt (begin_scope k pre db) 0 [])))).
  { clear H1. revert H2.
    generalize (snd (run k f inj (create_prog t (calc_temp_name t) nd tr ixs) (mkSt (begin_scope k pre db) 0 []))).
    generalize (snd (run k f inj' (create_prog t (calc_temp_name t) nd tr ixs) (mkSt (begin_scope k pre db) 0 []))).
    intros e2 e1 [Ha Hb]. destruct sc, e1, e2; cbn [eff_outcome]; auto.
    - specialize (Hb eq_refl). discriminate.
    - specialize (Ha eq_refl). discriminate. }
  rewrite Ho. repeat split; auto; apply H2.
Qed.

(* the exception that propagates is the injected one when a single statement of the try body is hit and the handler is not *)
Theorem tddl_irrelevant k pre db t nd tr ixs fl sc v1 v2 p1 p2 :
  model_out (mkIn k pre db t nd tr ixs fl sc v1 p1) = model_out (mkIn k pre db t nd tr ixs fl sc v2 p2).
Proof. reflexivity. Qed.

(* ------------------------------------------------------------------ the decider is complete as well *)
Lemma mseqb_complete a b : mseq a b -> mseqb a b = true.
Proof. intros H. unfold mseqb. apply forallb_forall. intros r _. apply Nat.eqb_eq. apply H. Qed.
Lemma name_seteqb_complete a b : name_seteq a b -> name_seteqb a b = true.
Proof. unfold name_seteq, name_seteqb. intros H. apply andb_true_iff. split; apply name_subb_incl; intros x Hx; apply H; auto. Qed.
Lemma otable_eqb_complete x y : otable_equiv x y -> otable_eqb x y = true.
Proof. unfold otable_equiv, otable_eqb. intros [H1 [H2 H3]]. rewrite H1, N.eqb_refl, (mseqb_complete _ _ H2), (name_seteqb_complete _ _ H3). auto. Qed.
Lemma handler_cleanb_true f tmp log : forall j0, handler_cleanb_from f tmp j0 log = true ->
  forall j, nth_error log j = Some (KDrop tmp) -> f (j0 + j)%nat = false.
Proof.
  induction log as [|s log IH]; cbn [handler_cleanb_from]; intros j0 H j Hj; [destruct j; discriminate|].
  apply andb_true_iff in H. destruct H as [H1 H2]. destruct j as [|j]; cbn in Hj.
  - inversion Hj; subst s. rewrite (proj2 (skind_eqb_eq _ _) eq_refl) in H1. rewrite Nat.add_0_r. apply negb_true_iff; auto.
  - rewrite <- plus_n_Sm. apply (IH (S j0) H2 j Hj).
Qed.
Lemma handler_cleanb_sound f tmp log : handler_cleanb f tmp log = true -> handler_clean f tmp log.
Proof. intros H j Hj. apply (handler_cleanb_true f tmp log 0 H j Hj). Qed.

Theorem decider_complete i o : C11_holds i o -> check_C11 i o = true.
Proof.
  unfold C11_holds, check_C11. destruct (o_err o) as [e|]; [|auto]. intros H.
  destruct (lookup (i_t i) (i_db i)) as [T0|] eqn:HT0; [|auto].
  destruct (H ltac:(discriminate) T0 eq_refl) as [Hn He]. apply andb_true_iff. split.
  - unfold no_row_lost in Hn. unfold no_row_lostb.
    destruct Hn as [[x [F1 [F2 F3]]]|[[x [F1 F2]]|[x [F1 [F2 F3]]]]]; rewrite F1.
    + rewrite F2, N.eqb_refl, (mseqb_complete _ _ F3). auto.
    + rewrite (mseqb_complete _ _ F2). rewrite orb_true_r. auto.
    + rewrite F2, N.eqb_refl, (mseqb_complete _ _ F3). cbn. rewrite !orb_true_r. auto.
  - destruct (early (o_log o)) eqn:Ee; auto. destruct (He eq_refl) as [[x [F1 F2]] Ht]. rewrite F1, (otable_eqb_complete _ _ F2). cbn.
    destruct (lookup (calc_temp_name (i_t i)) (i_db i)) eqn:L; cbn; auto.
    destruct (handler_cleanb (faults_of (i_faults i)) (calc_temp_name (i_t i)) (o_log o)) eqn:Hc; cbn; auto.
    rewrite (Ht eq_refl (handler_cleanb_sound _ _ _ Hc)). auto.
Qed.
