(* C14 — string literals whose content is itself SQL (T-SQL exec('alter table ...'), sp_rename '<qualified name>'):
   the content of the literal, read with the dialect's rules, is again exactly the expected tokens. *)
From Coq Require Import List NArith Bool Arith Lia String.
From AV Require Import Spec.C14 Proofs.QuoteProof Proofs.VisitorsProof Proofs.C14Final.
Import ListNotations.
Open Scope N_scope.

(* the inner pieces of a literal seen as a statement of their own; raw names make it data, not SQL *)
Definition as_piece (ip:bool * ipiece) : piece :=
  match snd ip with
  | IKw t => Kw t
  | ITbl n sch => Tbl n sch
  | ICol n => Col n
  | IRaw n => RawName n
  | IRawSchemaDot => RawName NTable
  end.

Definition is_data_literal (ps:list (bool * ipiece)) : bool :=
  existsb (fun ip => match snd ip with IRaw _ | IRawSchemaDot => true | _ => false end) ps.

Definition inner_sql_wf (q:qspec) (ps:list (bool * ipiece)) : bool := visitor_wf q (map as_piece ps).

Definition literal_ok (q:qspec) (p:piece) : bool :=
  match p with
  | StrLit ps => is_data_literal ps || inner_sql_wf q ps
  | _ => true
  end.

Lemma render_inner_sql q e ps : env_ok q e = true -> forallb (piece_wf q) (map as_piece ps) = true ->
  render q e (map as_piece ps) = ROk (concat (map (inner_expected q e) ps)).
Proof.
  intros E. induction ps as [|ip ps IH]; intro F; [reflexivity|].
  cbn [map forallb] in F. apply andb_true_iff in F as [F1 F2]. cbn [map render concat]. rewrite (IH F2).
  destruct ip as [esc p]. unfold as_piece, inner_expected in *. cbn [fst snd] in *.
  destruct p as [t0|n sch|n|n|]; cbn [render_piece piece_wf] in *; try discriminate F1; try reflexivity.
  - rewrite (schema_if_forced e n sch F1).
    destruct (render_piece_emits q e (Tbl n sch) E eq_refl) as [t Ht]. cbn [render_piece] in Ht.
    destruct (format_table_name q (flag e n) (slot e n) (sflag e) (schema_if e sch)) as [x|]; [reflexivity | discriminate Ht].
  - destruct (render_piece_emits q e (Col n) E eq_refl) as [t Ht]. cbn [render_piece] in Ht.
    destruct (format_column_name q (flag e n) (slot e n)) as [x|]; [reflexivity | discriminate Ht].
Qed.

Theorem inner_sql_sound q e ps : inner_sql_wf q ps = true -> env_ok q e = true ->
  lex q (concat (map (inner_expected q e) ps)) = expected_tokens q e (map as_piece ps).
Proof.
  intros V E. pose proof V as V0. unfold inner_sql_wf, visitor_wf in V. rewrite !andb_true_iff in V. destruct V as [_ F].
  assert (SA : sa_ok (map as_piece ps) e = true).
  { unfold sa_ok. assert (existsb is_tblsa (map as_piece ps) = false) as ->; [|reflexivity].
    clear. induction ps as [|[esc ip] ps IH]; [reflexivity|]. cbn [map existsb]. rewrite IH.
    destruct ip; reflexivity. }
  now destruct (visitor_sound q e _ _ V0 E SA (render_inner_sql q e ps E F)) as [L _].
Qed.

Lemma literal_table_bool :
  forallb (fun dc => forallb (literal_ok (qspec_of (fst dc))) (visitor (fst dc) (snd dc))) all_pairs = true.
Proof. vm_compute. reflexivity. Qed.

Lemma literal_table d c p : In p (visitor d c) -> literal_ok (qspec_of d) p = true.
Proof.
  intro I. pose proof literal_table_bool as H. rewrite forallb_forall in H.
  destruct (is_identity_alter c) eqn:IA.
  - destruct c; try discriminate. clear H.
    destruct d; try (vm_compute in I; repeat (destruct I as [<-|I]; [reflexivity|]); now destruct I).
    assert (E : visitor Postgresql (CIdentityAlter steps)
                = alter_table ++ [K " "; K "ALTER COLUMN "; Col NColumn; K " "] ++ pg_identity_steps 0 steps) by reflexivity.
    rewrite E in I. apply in_app_or in I as [I|I]; [|apply in_app_or in I as [I|I]];
      try (vm_compute in I; repeat (destruct I as [<-|I]; [reflexivity|]); now destruct I).
    clear E IA. revert I. generalize 0%nat. induction steps as [|[b|] l IH]; intros i I; cbn [pg_identity_steps] in I; [destruct I| |].
    + destruct I as [<-|I]; [reflexivity | now apply (IH i)].
    + destruct I as [<-|[<-|[<-|I]]]; try reflexivity. now apply (IH (Datatypes.S i)).
  - specialize (H (d, c) (all_pairs_complete d c IA)). cbn [fst snd] in H. rewrite forallb_forall in H. now apply H.
Qed.
