(* C10 main theorem: on inclass_C10 the model's output satisfies the property (Spec/C10.v C10_holds). *)
From AV Require Import Base.ListSet Model.BatchFail Model.Batch Spec.C11 Spec.C10 Proofs.BatchFailProof Proofs.BatchProof.

(* ------------------------------------------------------------------ small facts *)
Lemma aget_adel_same {V} k (l:list (key * V)) : aget k (adel k l) = None.
Proof. unfold adel. induction l as [|[k1 v1] l IH]; simpl; auto. destruct (name_eqb k k1) eqn:E; simpl; [|rewrite E]; auto. Qed.
Lemma aget_in {V} k (l:list (key * V)) v : aget k l = Some v -> In (k, v) l.
Proof. induction l as [|[k1 v1] l IH]; simpl; [congruence|]. destruct (name_eqb k k1) eqn:E.
  - apply name_eqb_eq in E. subst. inversion 1; auto.
  - auto. Qed.
Lemma in_aget {V} k (l:list (key * V)) v : NoDup (akeys l) -> In (k, v) l -> aget k l = Some v.
Proof. unfold akeys. induction l as [|[k1 v1] l IH]; simpl; [tauto|]. intros Hn [E|H].
  - inversion E; subst. rewrite name_eqb_refl. auto.
  - inversion Hn; subst. destruct (name_eqb k k1) eqn:E; [|auto]. apply name_eqb_eq in E. subst k1.
    exfalso. match goal with Hx : ~ In _ _ |- _ => apply Hx end. change k with (fst (k, v)). apply in_map; auto. Qed.

Lemma in_class2_in_class o : in_class2 o = true -> in_class o = true.
Proof. unfold in_class2. rewrite andb_true_iff. tauto. Qed.
Lemma forall_class2 ops : forallb in_class2 ops = true -> forallb in_class ops = true.
Proof. rewrite !forallb_forall. intros H x Hx. apply in_class2_in_class; auto. Qed.

(* ------------------------------------------------------------------ where a column ends up (specification level) *)
Lemma edit_absent o T T' k : in_class o = true -> edit o T = BOk T' -> aget k (tb_cols T) = None -> aget k (tb_cols T') = None.
Proof.
  intros Hc He Hk. destruct o as [k0 c b a|k0|k0 a|c|n|x|n]; cbn [in_class edit] in *; try discriminate.
  - destruct (negb (has_key k0 T)); [discriminate|]. destruct (existsb _ (tb_idx T)); [discriminate|]. destruct (existsb _ (tb_cons T)); [discriminate|].
    inversion He; subst T'; cbn. destruct (name_eqb k k0) eqn:E.
    + apply name_eqb_eq in E. subst. apply aget_adel_same.
    + rewrite aget_adel_other; auto. apply name_eqb_neq; auto.
  - destruct (aget k0 (tb_cols T)) eqn:G; [|discriminate]. destruct (mem_name _ _); [discriminate|].
    inversion He; subst T'; cbn. rewrite aget_aset_other; auto. intro; subst. congruence.
  - destruct (_ || _); [discriminate|]. inversion He; subst T'; auto.
  - destruct (is_some _); [|discriminate]. inversion He; subst T'; auto.
  - destruct (_ || _); [discriminate|]. inversion He; subst T'; auto.
  - destruct (is_some _); [|discriminate]. inversion He; subst T'; auto.
Qed.
Lemma edit_all_absent ops : forall T T' k, forallb in_class ops = true -> edit_all ops T = BOk T' ->
  aget k (tb_cols T) = None -> aget k (tb_cols T') = None.
Proof. induction ops as [|o ops IH]; cbn [edit_all forallb]; intros T T' k Hc He Hk.
  - inversion He; subst; auto.
  - apply andb_true_iff in Hc. destruct Hc. destruct (edit o T) as [T1|] eqn:E; [|discriminate].
    apply (IH T1); auto. apply (edit_absent o T); auto. Qed.

Lemma final_name_spec ops : forall T T' k c, forallb in_class ops = true -> edit_all ops T = BOk T' ->
  aget k (tb_cols T) = Some c -> final_name ops k (c_name c) = option_map c_name (aget k (tb_cols T')).
Proof.
  induction ops as [|o ops IH]; cbn [edit_all forallb final_name]; intros T T' k c Hc He Hk.
  - inversion He; subst. rewrite Hk. auto.
  - apply andb_true_iff in Hc. destruct Hc as [Hc1 Hc2]. destruct (edit o T) as [T1|] eqn:E; [|discriminate].
    destruct o as [k0 c0 b a|k0|k0 a|c0|n|x|n]; cbn [in_class] in Hc1; try discriminate; cbn [edit] in E.
    + destruct (negb (has_key k0 T)); [discriminate|]. destruct (existsb _ (tb_idx T)); [discriminate|]. destruct (existsb _ (tb_cons T)); [discriminate|].
      inversion E; subst T1; clear E. destruct (name_eqb k k0) eqn:Ek.
      * apply name_eqb_eq in Ek. subst k0. rewrite (edit_all_absent ops _ T' k Hc2 He); auto. cbn. apply aget_adel_same.
      * eapply IH; [exact Hc2|exact He|]. cbn. rewrite aget_adel_other; auto. apply name_eqb_neq; auto.
    + destruct (aget k0 (tb_cols T)) as [c1|] eqn:G; [|discriminate]. destruct (mem_name _ _); [discriminate|].
      inversion E; subst T1; clear E. destruct (name_eqb k k0) eqn:Ek.
      * apply name_eqb_eq in Ek. subst k0. rewrite Hk in G. inversion G; subst c1.
        match goal with |- final_name ops k ?nm = _ =>
          change nm with (c_name (mkCol nm (match al_type a with Some t => t | None => c_ty c end)
                                     (match al_nullable a with Some b => b | None => c_nullable c end)
                                     (match al_default a with Some d => d | None => c_default c end))) end.
        eapply IH; [exact Hc2|exact He|]. cbn. apply aget_aset_same.
      * eapply IH; [exact Hc2|exact He|]. cbn. rewrite aget_aset_other; auto. apply name_eqb_neq; auto.
    + destruct (_ || _); [discriminate|]. inversion E; subst T1. eapply IH; [exact Hc2|exact He|]; auto.
    + destruct (is_some _); [|discriminate]. inversion E; subst T1. eapply IH; [exact Hc2|exact He|]; auto.
    + destruct (_ || _); [discriminate|]. inversion E; subst T1. eapply IH; [exact Hc2|exact He|]; auto.
    + destruct (is_some _); [|discriminate]. inversion E; subst T1. eapply IH; [exact Hc2|exact He|]; auto.
Qed.

Lemma final_name_mentioned ops : forall k cur n, final_name ops k cur = Some n -> n = cur \/ In n (mentioned ops).
Proof.
  induction ops as [|o ops IH]; cbn [final_name mentioned flat_map]; intros k cur n H.
  - inversion H; auto.
  - destruct o as [k0 c0 b a|k0|k0 a|c0|m|x|m]; try (destruct (IH _ _ _ H); [auto|right; apply in_or_app; auto]).
    + destruct (name_eqb k k0); [discriminate|]. destruct (IH _ _ _ H); [auto|right; apply in_or_app; auto].
    + destruct (name_eqb k k0).
      * destruct (IH _ _ _ H) as [E|E]; [|right; apply in_or_app; auto].
        destruct (al_name a) as [nn|] eqn:Ea; [|auto]. right. apply in_or_app. left. cbn. rewrite Ea. subst; simpl; auto.
      * destruct (IH _ _ _ H); [auto|right; apply in_or_app; auto].
Qed.

(* ------------------------------------------------------------------ keys stay distinct *)
Lemma NoDup_filter' {A} (f:A -> bool) l : NoDup l -> NoDup (filter f l).
Proof. induction l as [|x l IH]; simpl; auto. intros H. inversion H; subst. destruct (f x); auto.
  constructor; auto. rewrite filter_In. tauto. Qed.
Lemma edit_keys_nodup o T T' : in_class o = true -> edit o T = BOk T' -> NoDup (akeys (tb_cols T)) -> NoDup (akeys (tb_cols T')).
Proof.
  intros Hc He Hn. destruct o as [k0 c b a|k0|k0 a|c|n|x|n]; cbn [in_class edit] in *; try discriminate.
  - destruct (negb (has_key k0 T)); [discriminate|]. destruct (existsb _ (tb_idx T)); [discriminate|]. destruct (existsb _ (tb_cons T)); [discriminate|].
    inversion He; subst T'; cbn [tb_cols]. rewrite akeys_adel. apply NoDup_filter'; auto.
  - destruct (aget k0 (tb_cols T)) eqn:G; [|discriminate]. destruct (mem_name _ _); [discriminate|].
    inversion He; subst T'; cbn [tb_cols]. rewrite akeys_aset; auto. congruence.
  - destruct (_ || _); [discriminate|]. inversion He; subst T'; auto.
  - destruct (is_some _); [|discriminate]. inversion He; subst T'; auto.
  - destruct (_ || _); [discriminate|]. inversion He; subst T'; auto.
  - destruct (is_some _); [|discriminate]. inversion He; subst T'; auto.
Qed.
Lemma edit_all_keys_nodup ops : forall T T', forallb in_class ops = true -> edit_all ops T = BOk T' ->
  NoDup (akeys (tb_cols T)) -> NoDup (akeys (tb_cols T')).
Proof. induction ops as [|o ops IH]; cbn [edit_all forallb]; intros T T' Hc He Hn.
  - inversion He; subst; auto.
  - apply andb_true_iff in Hc. destruct Hc. destruct (edit o T) as [T1|] eqn:E; [|discriminate].
    apply (IH T1); auto. apply (edit_keys_nodup o T); auto. Qed.

(* ------------------------------------------------------------------ the CAST list of every transfer (model level) *)
(* T0: the table the batch started from.  `seen`: the columns whose type has been altered so far. *)
Definition CS (T0:tbl) (seen:list key) (s:bstate) : Prop :=
  forall k tr c, aget k (b_tr s) = Some tr -> aget k (b_cols s) = Some c ->
    exists cs c0, tr_expr tr = Some (k, cs) /\ aget k (tb_cols T0) = Some c0 /\
      (if mem_name k seen then cs = (if N.eqb (affinity (c_ty c0)) (affinity (c_ty c)) then [] else [c_ty c])
       else cs = [] /\ c_ty c = c_ty c0).

Lemma CS_init T0 : NoDup (akeys (tb_cols T0)) -> CS T0 [] (init T0).
Proof.
  intros Hn k tr c Ht Hc. cbn in *. exists [], c. split; [|split; auto].
  clear Hc Hn. induction (tb_cols T0) as [|[k1 c1] l IH]; simpl in *; [discriminate|].
  destruct (name_eqb k k1) eqn:E; [|auto]. apply name_eqb_eq in E. subst. inversion Ht; auto.
Qed.

Lemma CS_step T0 o : forall s s' seen, in_class o = true -> CS T0 seen s -> apply_batch_op o s = BOk s' ->
  types_once seen [o] = true ->
  CS T0 (match o with OAlterColumn k a => match al_type a with Some _ => k :: seen | None => seen end | _ => seen end) s'.
Proof.
  intros s s' seen Hc HCS Hm Hty.
  destruct o as [k0 c0 b a|k0|k0 a|c0|n|x|n]; cbn [in_class] in Hc; try discriminate; cbn [apply_batch_op] in Hm.
  - (* drop *)
    destruct (aget k0 (b_cols s)); [|discriminate]. destruct (mem_name k0 (b_existing s)); [|discriminate].
    inversion Hm; subst s'; clear Hm. intros k tr c Ht Hcc. cbn in Ht, Hcc.
    destruct (name_eqb k k0) eqn:E.
    + apply name_eqb_eq in E. subst. rewrite aget_adel_same in Ht. discriminate.
    + apply name_eqb_neq in E. rewrite aget_adel_other in Ht, Hcc; auto.
  - (* alter *)
    destruct (aget k0 (b_cols s)) as [c|] eqn:G; [|discriminate]. destruct (aget k0 (b_tr s)) as [t|] eqn:Gt; [|discriminate].
    inversion Hm; subst s'; clear Hm. intros k tr c' Ht Hcc. cbn in Ht, Hcc.
    destruct (name_eqb k k0) eqn:E.
    + apply name_eqb_eq in E. subst k0. rewrite aget_aset_same in Ht, Hcc. inversion Ht; inversion Hcc; subst tr c'; clear Ht Hcc.
      destruct (HCS k t c Gt G) as [cs [c1 [H1 [H2 H3]]]].
      cbn [types_once] in Hty. destruct a as [an aty anl adf]; cbn in *.
      destruct aty as [nt|].
      * rewrite andb_true_r in Hty. apply negb_true_iff in Hty. rewrite Hty in H3. destruct H3 as [-> H3].
        rewrite name_eqb_refl. cbn.
        assert (Hty1 : c_ty (if match an with Some n => negb (name_eqb n (c_name c)) | None => false end
                             then mkCol (match an with Some n => n | None => c_name c end) (c_ty c) (c_nullable c) (c_default c) else c) = c_ty c)
          by (destruct (match an with Some n => negb (name_eqb n (c_name c)) | None => false end); auto).
        rewrite Hty1.
        exists (if N.eqb (affinity (c_ty c)) (affinity nt) then [] else [nt]), c1. split; [|split; auto].
        { destruct (match an with Some n => negb (name_eqb n (c_name c)) | None => false end); cbn; rewrite H1;
            destruct (N.eqb (affinity (c_ty c)) (affinity nt)); cbn; rewrite ?H1; auto. }
        { destruct anl, adf; cbn; rewrite H3; auto. }
      * exists cs, c1. split; [|split; auto].
        { destruct (match an with Some n => negb (name_eqb n (c_name c)) | None => false end); cbn; auto. }
        { assert (Hty1 : forall X, c_ty (match adf with Some d => mkCol (c_name X) (c_ty X) (c_nullable X) d | None => X end) = c_ty X)
            by (intros; destruct adf; auto).
          destruct (match an with Some n => negb (name_eqb n (c_name c)) | None => false end); destruct anl, adf; cbn; auto. }
    + apply name_eqb_neq in E. rewrite aget_aset_other in Ht, Hcc; auto.
      destruct (HCS k tr c' Ht Hcc) as [cs [c1 [H1 [H2 H3]]]]. exists cs, c1. split; [|split]; auto.
      destruct (al_type a); auto. cbn. destruct (name_eqb k k0) eqn:E2; [apply name_eqb_eq in E2; congruence|]. auto.
  - inversion Hm; subst s'; auto.
  - destruct (con_get n (b_named s)); [|discriminate]. inversion Hm; subst s'; auto.
  - inversion Hm; subst s'; auto.
  - destruct (idx_get n (b_idx s)); [|discriminate]. inversion Hm; subst s'; auto.
Qed.
