(* C10 main theorem: on inclass_C10_noadd the model's output satisfies the property (Spec/C10.v C10_holds). *)
From AV Require Import Base.ListSet Model.BatchFail Model.Batch Spec.C11 Spec.C10 Proofs.BatchFailProof Proofs.BatchProof.

(* ------------------------------------------------------------------ small facts *)
Lemma aget_adel_same {V} k (l:list (key * V)) : aget k (adel k l) = None.
Proof. unfold adel. induction l as [|[k1 v1] l IH]; simpl; auto. destruct (name_eqb k k1) eqn:E; simpl; [|rewrite E]; auto. Qed.
Lemma aget_in {V} k (l:list (key * V)) v : aget k l = Some v -> In (k, v) l.
Proof. induction l as [|[k1 v1] l IH]; simpl; [congruence|]. destruct (name_eqb k k1) eqn:E.
  - apply name_eqb_eq in E. subst. inversion 1; auto.
  - auto. Qed.
Lemma in_aget {V} k (l:list (key * V)) v : NoDup (akeys l) -> In (k, v) l -> aget k l = Some v.
Proof. unfold akeys. induction l as [|[k1 v1] l IH]; simpl; [tauto|]. intros Hn [E|H].
  - inversion E; subst. rewrite name_eqb_refl. auto.
  - inversion Hn; subst. destruct (name_eqb k k1) eqn:E; [|auto]. apply name_eqb_eq in E. subst k1.
    exfalso. match goal with Hx : ~ In _ _ |- _ => apply Hx end. change k with (fst (k, v)). apply in_map; auto. Qed.

Lemma in_class2_in_class o : in_class2 o = true -> in_class o = true.
Proof. unfold in_class2. rewrite andb_true_iff. tauto. Qed.
Lemma forall_class2 ops : forallb in_class2 ops = true -> forallb in_class ops = true.
Proof. rewrite !forallb_forall. intros H x Hx. apply in_class2_in_class; auto. Qed.

(* ------------------------------------------------------------------ where a column ends up (specification level) *)
Lemma edit_absent o T T' k : in_class o = true -> edit o T = BOk T' -> aget k (tb_cols T) = None -> aget k (tb_cols T') = None.
Proof.
  intros Hc He Hk. destruct o as [k0 c b a|k0|k0 a|c|n|x|n]; cbn [in_class edit] in *; try discriminate.
  - destruct (negb (has_key k0 T)); [discriminate|]. destruct (existsb _ (tb_idx T)); [discriminate|]. destruct (existsb _ (tb_cons T)); [discriminate|].
    inversion He; subst T'; cbn. destruct (name_eqb k k0) eqn:E.
    + apply name_eqb_eq in E. subst. apply aget_adel_same.
    + rewrite aget_adel_other; auto. apply name_eqb_neq; auto.
  - destruct (aget k0 (tb_cols T)) eqn:G; [|discriminate]. destruct (mem_name _ _); [discriminate|].
    inversion He; subst T'; cbn. rewrite aget_aset_other; auto. intro; subst. congruence.
  - destruct (_ || _); [discriminate|]. inversion He; subst T'; auto.
  - destruct (is_some _); [|discriminate]. inversion He; subst T'; auto.
  - destruct (_ || _); [discriminate|]. inversion He; subst T'; auto.
  - destruct (is_some _); [|discriminate]. inversion He; subst T'; auto.
Qed.
Lemma edit_all_absent ops : forall T T' k, forallb in_class ops = true -> edit_all ops T = BOk T' ->
  aget k (tb_cols T) = None -> aget k (tb_cols T') = None.
Proof. induction ops as [|o ops IH]; cbn [edit_all forallb]; intros T T' k Hc He Hk.
  - inversion He; subst; auto.
  - apply andb_true_iff in Hc. destruct Hc. destruct (edit o T) as [T1|] eqn:E; [|discriminate].
    apply (IH T1); auto. apply (edit_absent o T); auto. Qed.

Lemma final_name_spec ops : forall T T' k c, forallb in_class ops = true -> edit_all ops T = BOk T' ->
  aget k (tb_cols T) = Some c -> final_name ops k (c_name c) = option_map c_name (aget k (tb_cols T')).
Proof.
  induction ops as [|o ops IH]; cbn [edit_all forallb final_name]; intros T T' k c Hc He Hk.
  - inversion He; subst. rewrite Hk. auto.
  - apply andb_true_iff in Hc. destruct Hc as [Hc1 Hc2]. destruct (edit o T) as [T1|] eqn:E; [|discriminate].
    destruct o as [k0 c0 b a|k0|k0 a|c0|n|x|n]; cbn [in_class] in Hc1; try discriminate; cbn [edit] in E.
    + destruct (negb (has_key k0 T)); [discriminate|]. destruct (existsb _ (tb_idx T)); [discriminate|]. destruct (existsb _ (tb_cons T)); [discriminate|].
      inversion E; subst T1; clear E. destruct (name_eqb k k0) eqn:Ek.
      * apply name_eqb_eq in Ek. subst k0. rewrite (edit_all_absent ops _ T' k Hc2 He); auto. cbn. apply aget_adel_same.
      * eapply IH; [exact Hc2|exact He|]. cbn. rewrite aget_adel_other; auto. apply name_eqb_neq; auto.
    + destruct (aget k0 (tb_cols T)) as [c1|] eqn:G; [|discriminate]. destruct (mem_name _ _); [discriminate|].
      inversion E; subst T1; clear E. destruct (name_eqb k k0) eqn:Ek.
      * apply name_eqb_eq in Ek. subst k0. rewrite Hk in G. inversion G; subst c1.
        match goal with |- final_name ops k ?nm = _ =>
          change nm with (c_name (mkCol nm (match al_type a with Some t => t | None => c_ty c end)
                                     (match al_nullable a with Some b => b | None => c_nullable c end)
                                     (match al_default a with Some d => d | None => c_default c end))) end.
        eapply IH; [exact Hc2|exact He|]. cbn. apply aget_aset_same.
      * eapply IH; [exact Hc2|exact He|]. cbn. rewrite aget_aset_other; auto. apply name_eqb_neq; auto.
    + destruct (_ || _); [discriminate|]. inversion E; subst T1. eapply IH; [exact Hc2|exact He|]; auto.
    + destruct (is_some _); [|discriminate]. inversion E; subst T1. eapply IH; [exact Hc2|exact He|]; auto.
    + destruct (_ || _); [discriminate|]. inversion E; subst T1. eapply IH; [exact Hc2|exact He|]; auto.
    + destruct (is_some _); [|discriminate]. inversion E; subst T1. eapply IH; [exact Hc2|exact He|]; auto.
Qed.

Lemma final_name_mentioned ops : forall k cur n, final_name ops k cur = Some n -> n = cur \/ In n (mentioned ops).
Proof.
  induction ops as [|o ops IH]; cbn [final_name mentioned flat_map]; intros k cur n H.
  - inversion H; auto.
  - destruct o as [k0 c0 b a|k0|k0 a|c0|m|x|m]; try (destruct (IH _ _ _ H); [auto|right; apply in_or_app; auto]).
    + destruct (name_eqb k k0); [discriminate|]. destruct (IH _ _ _ H); [auto|right; apply in_or_app; auto].
    + destruct (name_eqb k k0).
      * destruct (IH _ _ _ H) as [E|E]; [|right; apply in_or_app; auto].
        destruct (al_name a) as [nn|] eqn:Ea; [|auto]. right. apply in_or_app. left. cbn. rewrite Ea. subst; simpl; auto.
      * destruct (IH _ _ _ H); [auto|right; apply in_or_app; auto].
Qed.

(* ------------------------------------------------------------------ keys stay distinct *)
Lemma NoDup_filter' {A} (f:A -> bool) l : NoDup l -> NoDup (filter f l).
Proof. induction l as [|x l IH]; simpl; auto. intros H. inversion H; subst. destruct (f x); auto.
  constructor; auto. rewrite filter_In. tauto. Qed.
Lemma edit_keys_nodup o T T' : in_class o = true -> edit o T = BOk T' -> NoDup (akeys (tb_cols T)) -> NoDup (akeys (tb_cols T')).
Proof.
  intros Hc He Hn. destruct o as [k0 c b a|k0|k0 a|c|n|x|n]; cbn [in_class edit] in *; try discriminate.
  - destruct (negb (has_key k0 T)); [discriminate|]. destruct (existsb _ (tb_idx T)); [discriminate|]. destruct (existsb _ (tb_cons T)); [discriminate|].
    inversion He; subst T'; cbn [tb_cols]. rewrite akeys_adel. apply NoDup_filter'; auto.
  - destruct (aget k0 (tb_cols T)) eqn:G; [|discriminate]. destruct (mem_name _ _); [discriminate|].
    inversion He; subst T'; cbn [tb_cols]. rewrite akeys_aset; auto. congruence.
  - destruct (_ || _); [discriminate|]. inversion He; subst T'; auto.
  - destruct (is_some _); [|discriminate]. inversion He; subst T'; auto.
  - destruct (_ || _); [discriminate|]. inversion He; subst T'; auto.
  - destruct (is_some _); [|discriminate]. inversion He; subst T'; auto.
Qed.
Lemma edit_all_keys_nodup ops : forall T T', forallb in_class ops = true -> edit_all ops T = BOk T' ->
  NoDup (akeys (tb_cols T)) -> NoDup (akeys (tb_cols T')).
Proof. induction ops as [|o ops IH]; cbn [edit_all forallb]; intros T T' Hc He Hn.
  - inversion He; subst; auto.
  - apply andb_true_iff in Hc. destruct Hc. destruct (edit o T) as [T1|] eqn:E; [|discriminate].
    apply (IH T1); auto. apply (edit_keys_nodup o T); auto. Qed.

(* ------------------------------------------------------------------ the CAST list of every transfer (model level) *)
(* T0: the table the batch started from.  `seen`: the columns whose type has been altered so far. *)
Definition CS (T0:tbl) (seen:list key) (s:bstate) : Prop :=
  forall k tr c, aget k (b_tr s) = Some tr -> aget k (b_cols s) = Some c ->
    exists cs c0, tr_expr tr = Some (k, cs) /\ aget k (tb_cols T0) = Some c0 /\
      (if mem_name k seen then cs = (if N.eqb (affinity (c_ty c0)) (affinity (c_ty c)) then [] else [c_ty c])
       else cs = [] /\ c_ty c = c_ty c0).

Lemma CS_init T0 : NoDup (akeys (tb_cols T0)) -> CS T0 [] (init T0).
Proof.
  intros Hn k tr c Ht Hc. cbn in *. exists [], c. split; [|split; auto].
  clear Hc Hn. induction (tb_cols T0) as [|[k1 c1] l IH]; simpl in *; [discriminate|].
  destruct (name_eqb k k1) eqn:E; [|auto]. apply name_eqb_eq in E. subst. inversion Ht; auto.
Qed.

Lemma CS_step T0 o : forall s s' seen, in_class o = true -> CS T0 seen s -> apply_batch_op o s = BOk s' ->
  types_once seen [o] = true ->
  CS T0 (match o with OAlterColumn k a => match al_type a with Some _ => k :: seen | None => seen end | _ => seen end) s'.
Proof.
  intros s s' seen Hc HCS Hm Hty.
  destruct o as [k0 c0 b a|k0|k0 a|c0|n|x|n]; cbn [in_class] in Hc; try discriminate; cbn [apply_batch_op] in Hm.
  - (* drop *)
    destruct (aget k0 (b_cols s)) as [cx|]; [|discriminate]. destruct (mem_name k0 (b_existing s)); [|discriminate].
    inversion Hm; subst s'; clear Hm. intros k tr c Ht Hcc. cbn [b_tr b_cols] in Ht, Hcc.
    destruct (name_eqb k k0) eqn:E.
    + apply name_eqb_eq in E. subst. rewrite aget_adel_same in Ht. discriminate.
    + apply name_eqb_neq in E. rewrite aget_adel_other in Ht; auto. rewrite aget_adel_other in Hcc; auto.
  - (* alter *)
    destruct (aget k0 (b_cols s)) as [c|] eqn:G; [|discriminate]. destruct (aget k0 (b_tr s)) as [t|] eqn:Gt; [|discriminate].
    inversion Hm; subst s'; clear Hm. intros k tr c' Ht Hcc. cbn [b_tr b_cols] in Ht, Hcc.
    destruct (name_eqb k k0) eqn:E.
    + apply name_eqb_eq in E. subst k0. rewrite aget_aset_same in Ht. rewrite aget_aset_same in Hcc. inversion Ht; inversion Hcc; subst tr c'; clear Ht Hcc.
      destruct (HCS k t c Gt G) as [cs [c1 [H1 [H2 H3]]]].
      cbn [types_once] in Hty. destruct a as [an aty anl adf]; cbn [al_name al_type al_nullable al_default] in *.
      assert (Hmem : mem_name k (k :: seen) = true) by (cbn; rewrite name_eqb_refl; auto).
      destruct aty as [nt|].
      * rewrite andb_true_r in Hty. apply negb_true_iff in Hty. rewrite Hty in H3. destruct H3 as [-> H3].
        exists (if N.eqb (affinity (c_ty c)) (affinity nt) then [] else [nt]), c1. split; [|split; auto].
        { destruct an as [n|]; [destruct (negb (name_eqb n (c_name c)))|]; cbn;
            destruct (N.eqb (affinity (c_ty c)) (affinity nt)); cbn; rewrite ?H1; auto. }
        { rewrite Hmem. rewrite <- H3.
          destruct an as [n|]; [destruct (negb (name_eqb n (c_name c)))|]; destruct anl, adf; cbn; auto. }
      * exists cs, c1. split; [|split; auto].
        { destruct an as [n|]; [destruct (negb (name_eqb n (c_name c)))|]; cbn; auto. }
        { destruct an as [n|]; [destruct (negb (name_eqb n (c_name c)))|]; destruct anl, adf; cbn; auto. }
    + apply name_eqb_neq in E. rewrite aget_aset_other in Ht; auto. rewrite aget_aset_other in Hcc; auto.
      destruct (HCS k tr c' Ht Hcc) as [cs [c1 [H1 [H2 H3]]]]. exists cs, c1. split; [|split]; auto.
      destruct (al_type a); auto. cbn. destruct (name_eqb k k0) eqn:E2; [apply name_eqb_eq in E2; congruence|]. auto.
  - inversion Hm; subst s'; auto.
  - destruct (con_get n (b_named s)); [|discriminate]. inversion Hm; subst s'; auto.
  - inversion Hm; subst s'; auto.
  - destruct (idx_get n (b_idx s)); [|discriminate]. inversion Hm; subst s'; auto.
Qed.

Lemma CS_ops T0 ops : forall s s' seen, forallb in_class ops = true -> types_once seen ops = true -> CS T0 seen s ->
  apply_ops ops s = BOk s' -> exists seen', CS T0 seen' s'.
Proof.
  induction ops as [|o ops IH]; cbn [apply_ops forallb]; intros s s' seen Hc Hty HCS Hm.
  - inversion Hm; subst. eauto.
  - apply andb_true_iff in Hc. destruct Hc as [Hc1 Hc2]. destruct (apply_batch_op o s) as [s1|] eqn:A; [|discriminate].
    assert (H1 : types_once seen [o] = true /\
                 types_once (match o with OAlterColumn k a => match al_type a with Some _ => k :: seen | None => seen end | _ => seen end) ops = true).
    { destruct o as [k0 c0 b a|k0|k0 a|c0|n|x|n]; cbn [types_once] in *; auto.
      destruct (al_type a); auto. apply andb_true_iff in Hty. destruct Hty as [Ha Hb]. rewrite Ha. auto. }
    destruct H1 as [H1 H2]. eapply IH; [exact Hc2|exact H2| |exact Hm]. apply (CS_step T0 o s s1 seen); auto.
Qed.

(* ------------------------------------------------------------------ one cell of the copied table *)
Lemma cols_name_unique (l:list (key * col)) k c k' c' :
  NoDup (map (fun p => c_name (snd p)) l) -> In (k, c) l -> In (k', c') l -> c_name c = c_name c' -> k = k' /\ c = c'.
Proof. induction l as [|[k1 c1] l IH]; simpl; [tauto|]. intros Hn H1 H2 E. inversion Hn as [|? ? Hx Hl]; subst.
  destruct H1 as [H1|H1], H2 as [H2|H2].
  - inversion H1; inversion H2; subst; auto.
  - inversion H1; subst. exfalso. apply Hx. rewrite E. change (c_name c') with ((fun p : key * col => c_name (snd p)) (k', c')). apply in_map; auto.
  - inversion H2; subst. exfalso. apply Hx. rewrite <- E. change (c_name c) with ((fun p : key * col => c_name (snd p)) (k, c)). apply in_map; auto.
  - auto. Qed.

Lemma finish_names_nodup tsort s x : b_order s = [] -> b_partial s = [] -> finish tsort s = BOk x -> NoDup (map (fun p => c_name (snd p)) (b_cols s)).
Proof. intros Ho Hp. unfold finish, reorder. rewrite Ho, Hp. destruct (has_dup _) eqn:E; [discriminate|]. intros _. apply has_dup_false_NoDup; auto. Qed.

Lemma finish_cm tsort s nd cm : b_order s = [] -> b_partial s = [] -> finish tsort s = BOk (nd, cm) ->
  cm = flat_map (fun p => match tr_expr (snd p) with Some (src, cast) => [(cur_name (b_cols s) (fst p), src, cast)] | None => [] end) (b_tr s).
Proof. intros Ho Hp. unfold finish, reorder. rewrite Ho, Hp. destruct (has_dup _); [discriminate|]. destruct (no_transfer _); [discriminate|].
  match goal with |- context [existsb ?g (flat_map x_cols (b_idx s))] => destruct (existsb g (flat_map x_cols (b_idx s))); [discriminate|] end.
  destruct (negb (forallb _ (b_newidx s))); [discriminate|]. destruct (negb (forallb _ (b_idx s ++ b_newidx s))); [discriminate|]. destruct (negb (forallb _ (b_idx s ++ b_newidx s))); [discriminate|].
  intros E. inversion E; auto. Qed.

Section Cell.
  Variable cast : ty -> val -> val.
  Variable dflt : col -> val.

  Lemma copy_cell tsort s T0 T' nd cm r k' c' tr cs :
    Inv s T' -> finish tsort s = BOk (nd, cm) -> NoDup (akeys (tb_cols T')) ->
    In (k', c') (tb_cols T') -> aget k' (b_tr s) = Some tr -> tr_expr tr = Some (k', cs) ->
    copy_val cast dflt T0 cm r c' = fold_left (fun v t => cast t v) cs (src_val T0 r k').
  Proof.
    intros HI Hf Hnd Hin Htr Hcs.
    pose proof (finish_names_nodup _ _ _ (inv_ord _ _ HI) (inv_part _ _ HI) Hf) as Hnn.
    pose proof (finish_cm _ _ _ _ (inv_ord _ _ HI) (inv_part _ _ HI) Hf) as Hcm.
    rewrite (inv_cols _ _ HI) in Hnn, Hcm.
    assert (Hk' : aget k' (tb_cols T') = Some c') by (apply in_aget; auto).
    assert (Hrn : cur_name (tb_cols T') k' = c_name c') by (unfold cur_name; rewrite Hk'; auto).
    assert (Hent : In (c_name c', k', cs) cm).
    { rewrite Hcm. apply in_flat_map. exists (k', tr). split; [apply aget_in; auto|]. cbn. rewrite Hcs, Hrn. simpl; auto. }
    unfold copy_val. destruct (find _ cm) as [[[dst src] cs2]|] eqn:F.
    - apply find_some in F. destruct F as [Fin Fn]. cbn in Fn. apply name_eqb_eq in Fn.
      rewrite Hcm in Fin. apply in_flat_map in Fin. destruct Fin as [[k2 tr2] [Hp He]]. cbn in He.
      destruct (tr_expr tr2) as [[src2 cs3]|] eqn:Et; [|destruct He]. destruct He as [He|[]]. inversion He; subst dst src cs2; clear He.
      pose proof (inv_src _ _ HI) as Hsrc. rewrite Forall_forall in Hsrc. destruct (Hsrc _ Hp) as [cs4 Hs4]. cbn in Hs4.
      rewrite Et in Hs4. inversion Hs4; subst src2 cs4; clear Hs4.
      assert (Hk2 : In k2 (akeys (tb_cols T'))).
      { rewrite <- (inv_cols _ _ HI), <- (inv_trk _ _ HI). change k2 with (fst (k2, tr2)). apply in_map; auto. }
      unfold akeys in Hk2. apply in_map_iff in Hk2. destruct Hk2 as [[k3 c2] [E3 H3]]. cbn in E3. subst k3.
      assert (Hc2 : cur_name (tb_cols T') k2 = c_name c2) by (unfold cur_name; rewrite (in_aget _ _ _ Hnd H3); auto).
      destruct (cols_name_unique _ _ _ _ _ Hnn H3 Hin) as [Ek _]; [congruence|]. subst k2.
      assert (Etr : tr2 = tr).
      { assert (Hn2 : NoDup (akeys (b_tr s))) by (rewrite (inv_trk _ _ HI), (inv_cols _ _ HI); auto).
        rewrite (in_aget _ _ _ Hn2 Hp) in Htr. congruence. }
      subst tr2. rewrite Et in Hcs. inversion Hcs; subst. auto.
    - exfalso. pose proof (find_none _ _ F _ Hent) as Hn. cbn in Hn. rewrite name_eqb_refl in Hn. discriminate.
  Qed.
End Cell.

(* ------------------------------------------------------------------ what the property expects in that cell *)
Lemma expected_cell i T' r k' c' :
  NoDup (akeys (tb_cols (j_tbl i))) -> forallb in_class (j_ops i) = true -> edit_all (j_ops i) (j_tbl i) = BOk T' ->
  NoDup (akeys (tb_cols T')) -> NoDup (map (fun p => c_name (snd p)) (tb_cols T')) -> In (k', c') (tb_cols T') ->
  exists c0, aget k' (tb_cols (j_tbl i)) = Some c0 /\
    expected_val i r c' = (if N.eqb (affinity (c_ty c0)) (affinity (c_ty c')) then src_val (j_tbl i) r k'
                           else cast_of i (c_ty c') (src_val (j_tbl i) r k')).
Proof.
  intros Hn Hc He Hn' Hnn Hin.
  assert (Hk' : aget k' (tb_cols T') = Some c') by (apply in_aget; auto).
  destruct (aget k' (tb_cols (j_tbl i))) as [c0|] eqn:G0.
  2:{ rewrite (edit_all_absent _ _ _ _ Hc He G0) in Hk'. discriminate. }
  exists c0. split; auto. unfold expected_val.
  destruct (find _ (tb_cols (j_tbl i))) as [[k c1]|] eqn:F.
  - apply find_some in F. destruct F as [Fin Fp]. cbn in Fp.
    rewrite (final_name_spec _ _ _ _ _ Hc He (in_aget _ _ _ Hn Fin)) in Fp.
    destruct (aget k (tb_cols T')) as [c2|] eqn:G2; cbn in Fp; [|discriminate]. apply name_eqb_eq in Fp.
    destruct (cols_name_unique _ _ _ _ _ Hnn (aget_in _ _ _ G2) Hin Fp) as [Ek _]. subst k.
    rewrite (in_aget _ _ _ Hn Fin) in G0. inversion G0; subst. auto.
  - exfalso. pose proof (find_none _ _ F _ (aget_in _ _ _ G0)) as Hf. cbn in Hf.
    rewrite (final_name_spec _ _ _ _ _ Hc He G0), Hk' in Hf. cbn in Hf. rewrite name_eqb_refl in Hf. discriminate.
Qed.

(* C10_rows, per cell: the model's cell = the expected cell *)
Lemma cell_agrees tsort i s seen T' nd cm r k' c' :
  NoDup (akeys (tb_cols (j_tbl i))) -> forallb in_class (j_ops i) = true -> edit_all (j_ops i) (j_tbl i) = BOk T' ->
  Inv s T' -> CS (j_tbl i) seen s -> finish tsort s = BOk (nd, cm) -> In (k', c') (tb_cols T') ->
  copy_val (cast_of i) (dflt_of i) (j_tbl i) cm r c' = expected_val i r c'.
Proof.
  intros Hn Hc He HI HCS Hf Hin.
  pose proof (edit_all_keys_nodup _ _ _ Hc He Hn) as Hn'.
  pose proof (finish_names_nodup _ _ _ (inv_ord _ _ HI) (inv_part _ _ HI) Hf) as Hnn. rewrite (inv_cols _ _ HI) in Hnn.
  destruct (expected_cell i T' r k' c' Hn Hc He Hn' Hnn Hin) as [c0 [G0 Ex]]. rewrite Ex.
  assert (Hk' : aget k' (b_cols s) = Some c') by (rewrite (inv_cols _ _ HI); apply in_aget; auto).
  destruct (aget k' (b_tr s)) as [tr|] eqn:Gt.
  2:{ pose proof (aget_keys_none k' (b_tr s) (b_cols s) (inv_trk _ _ HI) Gt). congruence. }
  destruct (HCS k' tr c' Gt Hk') as [cs [c1 [H1 [H2 H3]]]]. rewrite G0 in H2. inversion H2; subst c1.
  rewrite (copy_cell (cast_of i) (dflt_of i) tsort s (j_tbl i) T' nd cm r k' c' tr cs HI Hf Hn' Hin Gt H1).
  destruct (mem_name k' seen).
  - subst cs. destruct (N.eqb (affinity (c_ty c0)) (affinity (c_ty c'))); reflexivity.
  - destruct H3 as [-> H3]. rewrite H3, N.eqb_refl. reflexivity.
Qed.

(* ------------------------------------------------------------------ the remaining clauses, on nd = describe T' *)
Lemma survivors_ok i T' : NoDup (akeys (tb_cols (j_tbl i))) -> forallb in_class (j_ops i) = true ->
  edit_all (j_ops i) (j_tbl i) = BOk T' -> survivors_present i (describe T') = true.
Proof.
  intros Hn Hc He. unfold survivors_present. apply forallb_forall. intros [k c] Hin. cbn [fst snd].
  rewrite (final_name_spec _ _ _ _ _ Hc He (in_aget _ _ _ Hn Hin)).
  destruct (aget k (tb_cols T')) as [c2|] eqn:G; cbn; auto. apply mem_name_In. cbn. rewrite map_map.
  change (c_name c2) with ((fun p : key * col => c_name (snd p)) (k, c2)). apply in_map. apply aget_in; auto.
Qed.

Lemma side_ok_noadd all ops nd : forallb in_class ops = true -> side_ok_from all ops nd = true.
Proof. induction ops as [|o ops IH]; cbn [forallb side_ok_from]; auto. intros H. apply andb_true_iff in H. destruct H as [H1 H2].
  destruct o; cbn in H1; try discriminate; auto. Qed.

Lemma desc_equiv_w_refl ad a : desc_equiv_w ad a a.
Proof. unfold desc_equiv_w, set_equiv, same_gaps. repeat split; auto. Qed.

Lemma nonprimary_kept ops : forall T T' c, forallb in_class ops = true -> edit_all ops T = BOk T' ->
  In c (tb_cons T) -> is_primary c = false -> existsb (is_drop_con (k_name c)) ops = false -> In c (tb_cons T').
Proof.
  induction ops as [|o ops IH]; cbn [edit_all forallb existsb]; intros T T' c Hc He Hin Hp Hd.
  - inversion He; subst; auto.
  - apply andb_true_iff in Hc. destruct Hc as [Hc1 Hc2]. apply orb_false_iff in Hd. destruct Hd as [Hd1 Hd2].
    destruct (edit o T) as [T1|] eqn:E; [|discriminate]. eapply IH; [exact Hc2|exact He| |exact Hp|exact Hd2].
    destruct o as [k0 c0 b a|k0|k0 a|c0|n|x|n]; cbn [in_class] in Hc1; try discriminate; cbn [edit] in E.
    + destruct (negb (has_key k0 T)); [discriminate|]. destruct (existsb _ (tb_idx T)); [discriminate|]. destruct (existsb _ (tb_cons T)); [discriminate|].
      inversion E; subst T1; cbn. apply in_map_iff. exists c. split; auto. unfold pk_drop_col. rewrite Hp. auto.
    + destruct (aget k0 (tb_cols T)); [|discriminate]. destruct (mem_name _ _); [discriminate|]. inversion E; subst T1; auto.
    + destruct (_ || _); [discriminate|]. inversion E; subst T1; cbn. apply in_or_app; auto.
    + destruct (is_some _); [|discriminate]. inversion E; subst T1; cbn. unfold con_del. apply filter_In. split; auto.
      cbn in Hd1. rewrite name_eqb_sym. rewrite Hd1. auto.
    + destruct (_ || _); [discriminate|]. inversion E; subst T1; auto.
    + destruct (is_some _); [|discriminate]. inversion E; subst T1; auto.
Qed.

Lemma requested_ok_spec all ops : forall T T', forallb in_class2 ops = true -> edit_all ops T = BOk T' ->
  requested_ok_from all ops (describe T') = true.
Proof.
  induction ops as [|o ops IH]; cbn [edit_all forallb requested_ok_from]; intros T T' Hc He; auto.
  apply andb_true_iff in Hc. destruct Hc as [Hc1 Hc2]. destruct (edit o T) as [T1|] eqn:E; [|discriminate].
  pose proof (IH T1 T' Hc2 He) as Hr.
  destruct o as [k0 c0 b a|k0|k0 a|c0|n|x|n]; auto.
  rewrite Hr, andb_true_r.
  destruct (existsb (is_drop_con (k_name c0)) ops) eqn:Ed; [reflexivity|].
  unfold in_class2 in Hc1. cbn in Hc1. apply negb_true_iff in Hc1.
  cbn [edit] in E. destruct (_ || _); [discriminate|]. inversion E; subst T1; clear E.
  assert (Hin : In c0 (tb_cons T')).
  { eapply nonprimary_kept; [apply forall_class2; exact Hc2|exact He| |exact Hc1|exact Ed]. cbn. apply in_or_app; simpl; auto. }
  rewrite !orb_true_iff. right. apply mem_name_In. cbn [describe n_cons]. rewrite map_map. cbn.
  change (k_name c0) with ((fun c => k_name c) c0). apply in_map. apply filter_In. split; auto.
  unfold con_visible. rewrite Hc1. auto.
Qed.

(* ------------------------------------------------------------------ untouched columns keep definition and relative order *)
Section Untouched.
  Variable M : list name.
  Let f (c:col) : bool := negb (mem_name (c_name c) M).
  (* a column's name is its key, unless an operation renamed it (the new name is then mentioned) *)
  Definition JM (T:tbl) : Prop := forall k c, In (k, c) (tb_cols T) -> c_name c = k \/ In (c_name c) M.

  Lemma filter_adel_irrel k0 (l:list (key * col)) :
    (forall c, In (k0, c) l -> f c = false) -> filter f (map snd (adel k0 l)) = filter f (map snd l).
  Proof. unfold adel. induction l as [|[k1 c1] l IH]; simpl; auto. intros H.
    destruct (name_eqb k0 k1) eqn:E; simpl.
    - apply name_eqb_eq in E. subst k1. rewrite (H c1) by auto. apply IH. intros; apply H; auto.
    - rewrite IH; auto. Qed.
  Lemma filter_aset_irrel k0 c c1 (l:list (key * col)) :
    aget k0 l = Some c -> f c = false -> f c1 = false -> filter f (map snd (aset k0 c1 l)) = filter f (map snd l).
  Proof. induction l as [|[k1 c2] l IH]; simpl; [discriminate|]. intros H Hc Hc1.
    destruct (name_eqb k0 k1) eqn:E; simpl.
    - inversion H; subst. rewrite Hc, Hc1. auto.
    - rewrite IH; auto. Qed.
  Lemma in_aset {V} k (v:V) l p : In p (aset k v l) -> In p l \/ p = (k, v) \/ (exists k', name_eqb k k' = true /\ p = (k', v)).
  Proof. induction l as [|[k1 v1] l IH]; simpl.
    - intros [<-|[]]; auto.
    - destruct (name_eqb k k1) eqn:E; simpl.
      + intros [<-|H]; auto. right; right. exists k1; auto.
      + intros [<-|H]; auto. destruct (IH H) as [?|[?|?]]; auto. Qed.

  Lemma untouched_cols ops : forall T T', forallb in_class ops = true -> edit_all ops T = BOk T' ->
    incl (mentioned ops) M -> JM T ->
    filter f (map snd (tb_cols T)) = filter f (map snd (tb_cols T')).
  Proof.
    induction ops as [|o ops IH]; cbn [edit_all forallb mentioned flat_map]; intros T T' Hc He Hm HJ.
    - inversion He; subst; auto.
    - apply andb_true_iff in Hc. destruct Hc as [Hc1 Hc2]. destruct (edit o T) as [T1|] eqn:E; [|discriminate].
      assert (Hm1 : incl (op_mentions o) M) by (intros x Hx; apply Hm; apply in_or_app; auto).
      assert (Hm2 : incl (mentioned ops) M) by (intros x Hx; apply Hm; apply in_or_app; auto).
      assert (Hbad : forall k c, In k M -> In (k, c) (tb_cols T) -> f c = false).
      { intros k c Hk Hin. unfold f. apply negb_false_iff. apply mem_name_In. destruct (HJ k c Hin) as [->|?]; auto. }
      destruct o as [k0 c0 b a|k0|k0 a|c0|n|x|n]; cbn [in_class] in Hc1; try discriminate; cbn [edit] in E.
      + destruct (negb (has_key k0 T)); [discriminate|]. destruct (existsb _ (tb_idx T)); [discriminate|]. destruct (existsb _ (tb_cons T)); [discriminate|].
        inversion E; subst T1; clear E. rewrite <- (IH _ T' Hc2 He Hm2).
        * cbn [tb_cols]. symmetry. apply filter_adel_irrel. intros c Hin. apply (Hbad k0); auto. apply Hm1. simpl; auto.
        * intros k c Hin. cbn [tb_cols] in Hin. unfold adel in Hin. apply filter_In in Hin. apply HJ; tauto.
      + destruct (aget k0 (tb_cols T)) as [c|] eqn:G; [|discriminate]. destruct (mem_name _ _); [discriminate|].
        inversion E; subst T1; clear E.
        assert (Hk0 : In k0 M) by (apply Hm1; simpl; auto).
        assert (Hfc : f c = false) by (apply (Hbad k0); auto; apply aget_in; auto).
        match goal with He : edit_all ops (mkTbl (aset k0 ?c1 _) _ _ _) = _ |- _ => set (cn := c1) in * end.
        assert (Hcn : c_name cn = c_name c \/ In (c_name cn) M).
        { unfold cn; cbn. destruct (al_name a) as [nn|] eqn:Ea; auto. right. apply Hm1. cbn. rewrite Ea. simpl; auto. }
        assert (Hfn : f cn = false).
        { destruct Hcn as [Ec|Hi]; [unfold f in *; rewrite Ec; auto|]. unfold f. apply negb_false_iff. apply mem_name_In; auto. }
        rewrite <- (IH _ T' Hc2 He Hm2).
        * cbn [tb_cols]. symmetry. apply (filter_aset_irrel k0 c cn); auto.
        * intros k c2 Hin. cbn [tb_cols] in Hin. apply in_aset in Hin. destruct Hin as [Hin|[Ein|[k' [Ek Ein]]]].
          -- apply HJ; auto.
          -- inversion Ein; subst. destruct Hcn as [Ec|Hi]; auto. rewrite Ec. apply (HJ k0 c). apply aget_in; auto.
          -- inversion Ein; subst. apply name_eqb_eq in Ek. subst k'. destruct Hcn as [Ec|Hi]; auto. rewrite Ec. apply (HJ k0 c). apply aget_in; auto.
      + destruct (_ || _); [discriminate|]. inversion E; subst T1. apply (IH _ T' Hc2 He Hm2); auto.
      + destruct (is_some _); [|discriminate]. inversion E; subst T1. apply (IH _ T' Hc2 He Hm2); auto.
      + destruct (_ || _); [discriminate|]. inversion E; subst T1. apply (IH _ T' Hc2 He Hm2); auto.
      + destruct (is_some _); [|discriminate]. inversion E; subst T1. apply (IH _ T' Hc2 He Hm2); auto.
  Qed.
End Untouched.

Lemma list_eqb_col_refl l : list_eqb col_eqb l l = true.
Proof. apply (list_eqb_spec col_eqb col_eqb_eq). auto. Qed.
Lemma filter_ext_in' {A} (f g:A -> bool) l : (forall x, In x l -> f x = g x) -> filter f l = filter g l.
Proof. induction l as [|x l IH]; simpl; auto. intros H. rewrite (H x) by auto. rewrite IH; auto. Qed.
Lemma untouched_names_spec i l : untouched_names i l = true -> forall k, In k l -> ~ In k (mentioned (j_ops i)).
Proof. unfold untouched_names, untouched_name. rewrite forallb_forall. intros H k Hk. specialize (H k Hk).
  apply negb_true_iff in H. apply mem_name_false; auto. Qed.

Lemma is_nil_true {A} (l:list A) : is_nil l = true -> l = [].
Proof. destruct l; auto; discriminate. Qed.

Lemma untouched_ok_spec i T' : j_partial i = [] ->
  wf_tbl2 (j_tbl i) = true -> forallb in_class (j_ops i) = true -> edit_all (j_ops i) (j_tbl i) = BOk T' ->
  untouched_ok i (describe T') = true.
Proof.
  intros Hpart Hwf Hc He. unfold wf_tbl2, wf_tbl in Hwf. rewrite !andb_true_iff in Hwf.
  destruct Hwf as [[[[[W1 W2] W3] W4] W5] W6]. apply negb_true_iff in W4. apply has_dup_false_NoDup in W4.
  rewrite forallb_forall in W5, W6, W1.
  assert (Hkn : forall k c, In (k, c) (tb_cols (j_tbl i)) -> c_name c = k) by (intros k c H; apply name_eqb_eq; apply (W5 (k, c) H)).
  assert (Hcur : forall k, cur_name (tb_cols (j_tbl i)) k = k).
  { intros k. unfold cur_name. destruct (aget k (tb_cols (j_tbl i))) eqn:G; auto. apply Hkn. apply aget_in; auto. }
  pose proof (edit_all_keys_nodup _ _ _ Hc He W4) as Hn'.
  destruct (untouched_spec _ _ _ Hc He) as [B0 [B1 [B2 B3]]].
  assert (Hcur' : forall k, ~ In k (mentioned (j_ops i)) -> cur_name (tb_cols T') k = k).
  { intros k Hk. unfold cur_name. rewrite (B1 k Hk). apply Hcur. }
  unfold untouched_ok. rewrite Hpart. cbn [is_nil]. rewrite !andb_true_iff. repeat split.
  - (* columns *)
    match goal with |- list_eqb col_eqb ?a ?b = true => assert (E : a = b); [|rewrite E; apply list_eqb_col_refl] end.
    cbn [describe n_cols].
    rewrite (filter_ext_in' (fun c => untouched_name i (c_name c) && mem_name (c_name c) (names_of (j_tbl i)))
                            (fun c => negb (mem_name (c_name c) (mentioned (j_ops i)))) (map snd (tb_cols T'))).
    + apply (untouched_cols (mentioned (j_ops i)) (j_ops i) (j_tbl i) T' Hc He); [intros x; auto|]. intros k c H. left. apply Hkn; auto.
    + intros c Hin. unfold untouched_name. destruct (mem_name (c_name c) (mentioned (j_ops i))) eqn:Em; cbn; auto.
      apply mem_name_In. apply in_map_iff in Hin. destruct Hin as [[k' c'] [Es Hin]]. cbn in Es. subst c'.
      destruct (aget k' (tb_cols (j_tbl i))) as [c0|] eqn:G0.
      2:{ pose proof (edit_all_absent _ _ _ _ Hc He G0) as Habs. rewrite (in_aget _ _ _ Hn' Hin) in Habs. discriminate. }
      pose proof (final_name_spec _ _ _ _ _ Hc He G0) as Hf. rewrite (in_aget _ _ _ Hn' Hin) in Hf. cbn in Hf.
      destruct (final_name_mentioned _ _ _ _ Hf) as [En|Hm].
      * rewrite En. unfold names_of. change (c_name c0) with ((fun p : key * col => c_name (snd p)) (k', c0)). apply in_map. apply aget_in; auto.
      * exfalso. apply mem_name_false in Em. auto.
  - (* primary key *)
    destruct (untouched_names i (tb_pk (j_tbl i))) eqn:Eu; auto. apply names_eqb_eq.
    pose proof (untouched_names_spec i _ Eu) as Hpk.
    rewrite (untouched_pk _ _ _ Hc He Hpk). cbn [describe n_pk]. rewrite (map_ext _ (fun k => k) Hcur). apply map_id.
  - (* named constraints *)
    apply forallb_forall. intros c Hin. destruct (untouched_name i (k_name c) && untouched_names i (k_cols c)) eqn:Eu; auto.
    apply andb_true_iff in Eu. destruct Eu as [Eu1 Eu2]. apply negb_true_iff, mem_name_false in Eu1.
    pose proof (untouched_names_spec i _ Eu2) as Hcols.
    apply existsb_exists. exists c. split; [|apply con_eqb_eq; auto].
    cbn [describe n_cons]. apply in_map_iff. exists c. split.
    + destruct c as [n kd cs]. cbn in *. f_equal. rewrite (map_ext_in _ (fun k => k)); [apply map_id|]. intros k Hk. apply Hcur'. auto.
    + apply filter_In. split; [apply B2; auto|apply W6; auto].
  - (* indexes *)
    apply forallb_forall. intros x Hin. destruct (untouched_name i (x_name x) && untouched_names i (x_cols x)) eqn:Eu; auto.
    apply andb_true_iff in Eu. destruct Eu as [Eu1 Eu2]. apply negb_true_iff, mem_name_false in Eu1.
    pose proof (untouched_names_spec i _ Eu2) as Hcols.
    apply existsb_exists. exists x. split; [|apply index_eqb_eq; auto].
    cbn [describe n_idx]. apply in_map_iff. exists x. split; [|apply B3; auto].
    destruct x as [n cs u]. cbn in *. f_equal. rewrite (map_ext_in _ (fun k => k)); [apply map_id|]. intros k Hk. apply Hcur'. auto.
Qed.

(* ------------------------------------------------------------------ the main theorem *)
Lemma command_error_always seen ops : command_error true seen ops = false.
Proof. revert seen. induction ops as [|o ops IH]; intros seen; cbn [command_error]; auto. rewrite IH.
  destruct o; cbn; auto. rewrite andb_false_r. auto. Qed.



(* ------------------------------------------------------------------ C10_rows per cell, for every CAST / DEFAULT behaviour *)
Theorem cell_value cast dflt i T' nd cm r k' c' :
  inclass_C10_noadd i = true -> edit_all (j_ops i) (j_tbl i) = BOk T' -> batch sa_tsort (j_tbl i) (j_ops i) = BOk (nd, cm) ->
  In (k', c') (tb_cols T') ->
  In c' (n_cols nd) /\
  exists c0, aget k' (tb_cols (j_tbl i)) = Some c0 /\
    copy_val cast dflt (j_tbl i) cm r c' =
      (if N.eqb (affinity (c_ty c0)) (affinity (c_ty c')) then src_val (j_tbl i) r k' else cast (c_ty c') (src_val (j_tbl i) r k')).
Proof.
  unfold inclass_C10_noadd. rewrite !andb_true_iff. intros [[[[[[[[Ha Hnv] Hp] Hta] Huc] Hwf] Hc2] Hty] _] He Hb Hin.
  pose proof (forall_class2 _ Hc2) as Hc.
  assert (Hwf1 : wf_tbl (j_tbl i) = true /\ NoDup (akeys (tb_cols (j_tbl i)))).
  { unfold wf_tbl2 in Hwf. rewrite !andb_true_iff in Hwf. destruct Hwf as [[[W1 W2] _] _]. split; auto.
    apply has_dup_false_NoDup. apply negb_true_iff; auto. }
  destruct Hwf1 as [Hwf1 Hn].
  unfold batch, batch_with in Hb. change (init_with [] []) with init in Hb. destruct (apply_ops (j_ops i) (init (j_tbl i))) as [s|] eqn:Hm; [|discriminate].
  pose proof (ops_refine _ _ _ _ _ Hc (init_inv _ Hwf1) Hm He) as HI.
  destruct (CS_ops (j_tbl i) _ _ _ [] Hc Hty (CS_init _ Hn) Hm) as [seen HCS].
  destruct (finish_inv sa_tsort s T' nd cm HI Hb) as [End _].
  split. { rewrite End. cbn. change c' with (snd (k', c')). apply in_map; auto. }
  pose proof (edit_all_keys_nodup _ _ _ Hc He Hn) as Hn'.
  assert (Hk' : aget k' (b_cols s) = Some c') by (rewrite (inv_cols _ _ HI); apply in_aget; auto).
  destruct (aget k' (b_tr s)) as [tr|] eqn:Gt.
  2:{ pose proof (aget_keys_none k' (b_tr s) (b_cols s) (inv_trk _ _ HI) Gt). congruence. }
  destruct (HCS k' tr c' Gt Hk') as [cs [c0 [H1 [H2 H3]]]]. exists c0. split; auto.
  rewrite (copy_cell cast dflt sa_tsort s (j_tbl i) T' nd cm r k' c' tr cs HI Hb Hn' Hin Gt H1).
  destruct (mem_name k' seen).
  - subst cs. destruct (N.eqb (affinity (c_ty c0)) (affinity (c_ty c'))); reflexivity.
  - destruct H3 as [-> H3]. rewrite H3, N.eqb_refl. reflexivity.
Qed.

(* a column that is not the destination of any transfer (an added column) holds what the database fills in *)
Lemma cell_default cast dflt T cm r c : (forall e, In e cm -> fst (fst e) <> c_name c) -> copy_val cast dflt T cm r c = dflt c.
Proof. intros H. unfold copy_val. destruct (find _ cm) as [[[dst src] cs]|] eqn:F; auto.
  apply find_some in F. destruct F as [Fin Fn]. cbn in Fn. apply name_eqb_eq in Fn. exfalso. apply (H _ Fin). cbn. auto. Qed.

(* ------------------------------------------------------------------ the decider is complete as well *)
Lemma desc_eqb_w_complete ad a b : desc_equiv_w ad a b -> desc_eqb_w ad a b = true.
Proof.
  unfold desc_equiv_w, desc_eqb_w. intros [H1 [H2 [H3 [H4 [H5 H6]]]]]. rewrite !andb_true_iff. repeat split.
  - apply (seteqb_complete col_eqb col_eqb_eq); auto.
  - apply (list_eqb_spec col_eqb col_eqb_eq); auto.
  - unfold same_gaps_b. apply forallb_forall. intros c Hc. destruct (mem_name (c_name c) ad) eqn:E; auto.
    apply ooname_eqb_eq. apply H3; auto.
  - apply names_eqb_eq; auto.
  - apply (seteqb_complete con_eqb con_eqb_eq); auto.
  - apply (seteqb_complete index_eqb index_eqb_eq); auto.
Qed.
Lemma desc_eqb_p_complete a b : desc_equiv_p a b -> desc_eqb_p a b = true.
Proof.
  unfold desc_equiv_p, desc_eqb_p. intros [H1 [H2 [H3 H4]]]. rewrite !andb_true_iff. repeat split.
  - apply (seteqb_complete col_eqb col_eqb_eq); auto.
  - apply names_eqb_eq; auto.
  - apply (seteqb_complete con_eqb con_eqb_eq); auto.
  - apply (seteqb_complete index_eqb index_eqb_eq); auto.
Qed.

Theorem decider_complete10 i o : C10_holds i o -> check_C10 i o = true.
Proof.
  unfold check_C10, C10_holds. destruct (j_never i); auto.
  destruct o as [nd rows tl|e]; cbn [check_C10_r C10_holds_r]; auto.
  intros [H1 [H2 [H3 [H4 [H5 [H6 [H7 [H8 [H9 H10]]]]]]]]].
  rewrite H1, H2, Nat.eqb_refl, H3, (mseqb_complete _ _ H4), H5, H6, H7, H8, H9. cbn.
  destruct (edit_all (j_ops i) (j_tbl i)) as [T'|] eqn:He; auto. specialize (H10 T' eq_refl).
  destruct (is_nil (j_partial i)); [apply desc_eqb_w_complete|apply desc_eqb_p_complete]; auto.
Qed.
