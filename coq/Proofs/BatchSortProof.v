(* C10 — facts about the transcription of sqlalchemy.util.topological.sort (Model/Batch.v sa_rounds / sa_tsort):
   whatever it returns is a permutation of the items that puts the first component of every recorded pair before the
   second (a linear extension); rounds emit in `allitems` order. *)
From AV Require Import Base.ListSet Model.BatchFail Model.Batch Spec.C11 Spec.C10 Proofs.BatchFailProof Proofs.BatchProof.

Definition precedes (a b:key) (l:list key) : Prop :=
  exists i j, index_of a l = Some i /\ index_of b l = Some j /\ (i < j)%nat.

Lemma index_of_some_in a l i : index_of a l = Some i -> In a l.
Proof. revert i. induction l as [|x l IH]; simpl; [discriminate|]. intros i. destruct (name_eqb a x) eqn:E.
  - apply name_eqb_eq in E. auto.
  - destruct (index_of a l); simpl; [|discriminate]. intros _. right. eapply IH; eauto. Qed.
Lemma index_of_in a l : In a l -> exists i, index_of a l = Some i.
Proof. induction l as [|x l IH]; simpl; [tauto|]. intros H. destruct (name_eqb a x) eqn:E; [eauto|].
  destruct H as [->|H]; [rewrite name_eqb_refl in E; discriminate|]. destruct (IH H) as [i Hi]. rewrite Hi. simpl. eauto. Qed.
Lemma index_of_notin a l : ~ In a l -> index_of a l = None.
Proof. intros H. destruct (index_of a l) eqn:E; auto. exfalso. apply H. eapply index_of_some_in; eauto. Qed.
Lemma index_of_app_l a l1 l2 i : index_of a l1 = Some i -> index_of a (l1 ++ l2) = Some i.
Proof. revert i. induction l1 as [|x l IH]; simpl; [discriminate|]. intros i. destruct (name_eqb a x); auto.
  destruct (index_of a l) eqn:E; simpl; [|discriminate]. intros H. rewrite (IH _ eq_refl). auto. Qed.
Lemma index_of_app_r a l1 l2 : ~ In a l1 -> index_of a (l1 ++ l2) = option_map (fun j => (length l1 + j)%nat) (index_of a l2).
Proof. induction l1 as [|x l IH]; simpl; intros H.
  - destruct (index_of a l2); auto.
  - destruct (name_eqb a x) eqn:E. { apply name_eqb_eq in E. subst. tauto. }
    rewrite IH by tauto. destruct (index_of a l2); auto. Qed.
Lemma index_of_lt a l i : index_of a l = Some i -> (i < length l)%nat.
Proof. revert i. induction l as [|x l IH]; simpl; [discriminate|]. intros i. destruct (name_eqb a x).
  - inversion 1. lia.
  - destruct (index_of a l) eqn:E; simpl; [|discriminate]. inversion 1. specialize (IH _ eq_refl). lia. Qed.

Lemma precedes_app_lr a b l1 l2 : In a l1 -> ~ In b l1 -> In b l2 -> precedes a b (l1 ++ l2).
Proof. intros Ha Hb Hb2. destruct (index_of_in _ _ Ha) as [i Hi]. destruct (index_of_in _ _ Hb2) as [j Hj].
  exists i, (length l1 + j)%nat. split; [apply index_of_app_l; auto|]. split.
  - rewrite index_of_app_r; auto. rewrite Hj. auto.
  - pose proof (index_of_lt _ _ _ Hi). lia. Qed.
Lemma precedes_app_r a b l1 l2 : ~ In a l1 -> ~ In b l1 -> precedes a b l2 -> precedes a b (l1 ++ l2).
Proof. intros Ha Hb [i [j [Hi [Hj Hlt]]]]. exists (length l1 + i)%nat, (length l1 + j)%nat.
  rewrite !index_of_app_r; auto. rewrite Hi, Hj. cbn. repeat split; auto. lia. Qed.

Lemma NoDup_filter_s {A} (f:A -> bool) l : NoDup l -> NoDup (filter f l).
Proof. induction l as [|x l IH]; simpl; auto. intros H. inversion H; subst. destruct (f x); auto.
  constructor; auto. rewrite filter_In. tauto. Qed.
Lemma NoDup_app_intro {A} (l1 l2:list A) : NoDup l1 -> NoDup l2 -> (forall x, In x l1 -> In x l2 -> False) -> NoDup (l1 ++ l2).
Proof. induction l1 as [|x l IH]; simpl; auto. intros H1 H2 Hd. inversion H1; subst. constructor.
  - rewrite in_app_iff. intros [?|?]; auto. eapply Hd; eauto.
  - apply IH; auto. intros y Hy. apply Hd; auto. Qed.
Lemma sa_nil_spec pairs : (forall x : key, In x (@nil key) <-> In x (@nil key)) /\ NoDup (@nil key) /\
  (forall a b, In (a, b) pairs -> In a (@nil key) -> In b (@nil key) -> a <> b -> precedes a b []).
Proof. split; [tauto|]. split; [constructor|]. intros a b _ []. Qed.

Lemma has_parent_in_true pairs todo a b : In (a, b) pairs -> In a todo -> has_parent_in pairs todo b = true.
Proof. intros Hp Ha. unfold has_parent_in. apply existsb_exists. exists (a, b). split; auto. cbn.
  rewrite name_eqb_refl. apply mem_name_In; auto. Qed.

Theorem sa_rounds_spec fuel pairs : forall todo out, NoDup todo -> sa_rounds fuel pairs todo = Some out ->
  (forall x, In x out <-> In x todo) /\ NoDup out /\
  (forall a b, In (a, b) pairs -> In a todo -> In b todo -> a <> b -> precedes a b out).
Proof.
  induction fuel as [|f IH]; intros todo out Hn H.
  - destruct todo; cbn in H; [|discriminate]. inversion H; subst. apply sa_nil_spec.
  - destruct todo as [|t0 todo0]; [cbn in H; inversion H; subst; apply sa_nil_spec|].
    cbn [sa_rounds] in H. remember (t0 :: todo0) as todo eqn:Etodo. clear Etodo t0 todo0.
    remember (filter (fun n => negb (has_parent_in pairs todo n)) todo) as o eqn:Eo.
    destruct o as [|o0 o'] eqn:Eo2; [discriminate|]. rewrite <- Eo2 in *. clear Eo2 o0 o'.
    destruct (sa_rounds f pairs (filter (fun n => negb (mem_name n o)) todo)) as [out'|] eqn:R; [|discriminate].
    cbn in H. inversion H; subst out; clear H.
    assert (Hn' : NoDup (filter (fun n => negb (mem_name n o)) todo)) by (apply NoDup_filter_s; auto).
    destruct (IH _ _ Hn' R) as [M [N P]].
    assert (Ho : forall x, In x o -> In x todo /\ has_parent_in pairs todo x = false).
    { intros x Hx. rewrite Eo in Hx. apply filter_In in Hx. destruct Hx as [H1 H2]. apply negb_true_iff in H2. auto. }
    assert (Hrest : forall x, In x out' <-> In x todo /\ ~ In x o).
    { intros x. rewrite M, filter_In, negb_true_iff. rewrite mem_name_false. tauto. }
    split; [|split].
    + intros x. rewrite in_app_iff, Hrest. split.
      * intros [Hx|[Hx _]]; auto. apply Ho; auto.
      * intros Hx. destruct (mem_name x o) eqn:E; [left; apply mem_name_In; auto|right; split; auto; apply mem_name_false; auto].
    + apply NoDup_app_intro; auto. { rewrite Eo. apply NoDup_filter_s; auto. } intros x Hx Hx'. apply Hrest in Hx'. tauto.
    + intros a b Hp Ha Hb Hab.
      assert (Hbo : ~ In b o). { intros Hbo. destruct (Ho _ Hbo) as [_ Hf]. rewrite (has_parent_in_true _ _ _ _ Hp Ha) in Hf. discriminate. }
      assert (Hb' : In b out') by (apply Hrest; auto).
      destruct (mem_name a o) eqn:Ea.
      * apply mem_name_In in Ea. apply precedes_app_lr; auto.
      * apply mem_name_false in Ea. apply precedes_app_r; auto. apply P; auto; apply filter_In; split; auto; apply negb_true_iff; apply mem_name_false; auto.
Qed.
