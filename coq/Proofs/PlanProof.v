(* C01/C02: the collect functions compute the documented sets, their results satisfy the
   hypotheses of the topological-sort theorem, normalisation of dependencies does not change
   ancestry, fuel is always sufficient. *)
From AV Require Import Model.Plan Proofs.GraphProof Proofs.CycleProof Proofs.TopoProof Proofs.TopoTerm.
From Coq Require Import Permutation.

(* ---------- dfs_p = dfs + popped log ---------- *)
Lemma dfs_p_dfs succ fuel : forall todo seen popped s p,
  dfs_p succ fuel todo seen popped = Some (s, p) -> dfs succ fuel todo seen = Some s.
Proof. induction fuel as [|f IH]; intros todo seen popped s p H; [discriminate|]. cbn [dfs_p dfs] in *.
  destruct todo as [|x rest]. { inversion H; auto. } destruct (memN x seen); eauto. Qed.
Lemma dfs_p_total succ fuel : forall todo seen popped, dfs succ fuel todo seen <> None -> dfs_p succ fuel todo seen popped <> None.
Proof. induction fuel as [|f IH]; intros todo seen popped H; [intros _; apply H; reflexivity|]. cbn [dfs_p dfs] in *.
  destruct todo as [|x rest]; [discriminate|]. destruct (memN x seen); apply IH; auto. Qed.
Lemma dfs_p_popped succ fuel : forall todo seen popped s p,
  dfs_p succ fuel todo seen popped = Some (s, p) ->
  forall z, In z p -> In z popped \/ exists t, In t todo /\ path succ t z.
Proof. induction fuel as [|f IH]; intros todo seen popped s p H z Hz; [discriminate|]. cbn [dfs_p] in H.
  destruct todo as [|x rest]. { inversion H; subst; auto. }
  destruct (memN x seen).
  - destruct (IH _ _ _ _ _ H z Hz) as [[->|Hp]|[t [Ht P]]]; auto.
    + right. exists z. split; [left; auto|constructor].
    + right. exists t. split; [right; auto|auto].
  - destruct (IH _ _ _ _ _ H z Hz) as [[->|Hp]|[t [Ht P]]]; auto.
    + right. exists z. split; [left; auto|constructor].
    + apply in_app_or in Ht. destruct Ht as [Ht|Ht].
      * apply in_rev in Ht. right. exists x. split; [left; auto|]. eapply path_step; eauto.
      * right. exists t. split; [right; auto|auto]. Qed.

(* one sequential DFS from a closed seen set *)
Lemma dfs_from_closed succ fuel t seen out : closed succ seen [] -> dfs succ fuel [t] seen = Some out ->
  closed succ out [] /\ (forall z, In z out <-> In z seen \/ path succ t z).
Proof. intros C H. destruct (dfs_closed succ fuel [t] seen out H) as [C' I'].
  { intros a b Ha Hb. destruct (C a b Ha Hb) as [|[]]; auto. }
  split; auto. intros z. split.
  - intros Hz. destruct (dfs_sound succ fuel _ _ _ H z Hz) as [|[t' [[<-|[]] P]]]; auto.
  - intros [Hs|P]. { eapply dfs_mono; eauto. } eapply closed_path; eauto. apply I'. left; auto. Qed.

Section ITER.
  Variable succ : N -> list N.
  Variable U : list N.
  Hypothesis NDU : NoDup U.
  Hypothesis outside : forall x, ~ In x U -> succ x = [].
  Variable fuel : nat.
  Hypothesis fuel_ok : 1 + edge_count succ U < fuel.

  Lemma one_dfs_total t seen : dfs succ fuel [t] seen <> None.
  Proof. apply (dfs_fuel_ok succ U outside NDU). pose proof (weight_le succ seen U). simpl. lia. Qed.

  Lemma iterate_check_spec : forall targets all_targets seen,
    closed succ seen [] -> NoDup seen ->
    match iterate_check succ fuel targets all_targets seen with
    | POk out => closed succ out [] /\ NoDup out /\ (forall z, In z out <-> In z seen \/ exists t, In t targets /\ path succ t z)
    | PErr PEOverlap => exists t p, In t targets /\ In p all_targets /\ p <> t /\ path succ t p
    | PErr _ => False
    end.
  Proof. induction targets as [|t ts IH]; intros all_targets seen C ND; cbn [iterate_check].
    - split; auto. split; auto. intros z. split; auto. intros [|[t [[] _]]]; auto.
    - destruct (dfs_p succ fuel [t] seen []) as [[seen' popped]|] eqn:E.
      2:{ eapply dfs_p_total; [|exact E]. apply one_dfs_total. }
      pose proof (dfs_p_dfs _ _ _ _ _ _ _ E) as Ed.
      destruct (dfs_from_closed succ fuel t seen seen' C Ed) as [C' Hin].
      pose proof (dfs_NoDup succ fuel _ _ _ Ed ND) as ND'.
      destruct (existsb _ popped) eqn:Eo.
      + apply existsb_exists in Eo. destruct Eo as [p [Hp Hc]]. apply andb_true_iff in Hc. destruct Hc as [H1 H2].
        apply memN_In in H1. apply negb_true_iff, N.eqb_neq in H2.
        exists t, p. split; [left; auto|]. split; auto. split; auto.
        destruct (dfs_p_popped _ _ _ _ _ _ _ E p Hp) as [[]|[t' [[<-|[]] P]]]. exact P.
      + specialize (IH all_targets seen' C' ND').
        destruct (iterate_check succ fuel ts all_targets seen') as [out|e].
        * destruct IH as [Co [NDo Ho]]. split; auto. split; auto.
          intros z. rewrite Ho, Hin. split.
          { intros [[Hs|P]|[t' [Ht' P]]]; auto; right; [exists t|exists t']; split; auto; [left|right]; auto. }
          { intros [Hs|[t' [[<-|Ht'] P]]]; auto. right. exists t'; auto. }
        * destruct e; auto. destruct IH as [t' [p [H1 [H2 [H3 H4]]]]]. exists t', p. split; [right; auto|auto].
  Qed.
End ITER.

(* ---------- sortN ---------- *)
Lemma insertN_In x l y : In y (insertN x l) <-> y = x \/ In y l.
Proof. induction l as [|a l IH]; simpl; [intuition|]. destruct (N.leb x a); simpl; [intuition|]. rewrite IH. intuition. Qed.
Lemma sortN_In l y : In y (sortN l) <-> In y l.
Proof. induction l as [|a l IH]; simpl; [tauto|]. rewrite insertN_In, IH. intuition. Qed.
Lemma insertN_NoDup x l : NoDup l -> ~ In x l -> NoDup (insertN x l).
Proof. induction l as [|a l IH]; simpl; intros ND Hn. { constructor; auto. }
  inversion ND; subst. destruct (N.leb x a). { constructor; auto. }
  constructor. { rewrite insertN_In. intuition. } apply IH; auto. Qed.
Lemma sortN_NoDup l : NoDup l -> NoDup (sortN l).
Proof. induction l as [|a l IH]; simpl; intros ND; [constructor|]. inversion ND; subst.
  apply insertN_NoDup; auto. rewrite sortN_In; auto. Qed.

(* Topo's own ancestor relation is `path` *)
Lemma Anc_path parents x y : Anc parents x y <-> path parents x y.
Proof. split; induction 1; try constructor; econstructor; eauto. Qed.

Lemma NoDup_diffN a b : NoDup a -> NoDup (diffN a b).
Proof. apply NoDup_filter. Qed.
Lemma NoDup_interN a b : NoDup a -> NoDup (interN a b).
Proof. apply NoDup_filter. Qed.

(* ---------- facts about a graph in the proved class ---------- *)
Definition ndeps_ok (G:graph) : Prop :=
  forall r, In r G -> (forall d, In d (r_ndeps r) <-> In d (normalize G r)) /\ NoDup (r_ndeps r).
Lemma ndeps_okb_spec G : ndeps_okb G = true <-> ndeps_ok G.
Proof. unfold ndeps_okb, ndeps_ok. rewrite forallb_forall. split; intros H r Hr; specialize (H r Hr).
  - rewrite andb_true_iff, seteqN_spec, nodupb_NoDup in H. exact H.
  - rewrite andb_true_iff, seteqN_spec, nodupb_NoDup. exact H. Qed.

Section GRAPH.
  Variable G : graph.
  Hypothesis WF : wf_refs G.
  Hypothesis AC : ~ cyclic (all_down G).
  Hypothesis NOK : ndeps_ok G.

  Let ND : NoDup (ids G) := proj1 WF.

  Lemma reach_or_nil_spec succ targets : (forall x, ~ In x (ids G) -> succ x = []) ->
    NoDup (reach_or_nil succ G targets) /\
    forall z, In z (reach_or_nil succ G targets) <-> exists t, In t targets /\ path succ t z.
  Proof. intros Ho. unfold reach_or_nil. destruct (reach_set succ G targets) as [l|] eqn:E.
    - split; [|apply (reach_set_correct _ _ _ _ E)]. unfold reach_set in E. eapply dfs_NoDup; eauto. constructor.
    - exfalso. eapply reach_set_total; eauto. Qed.

  Lemma ndeps_sub_deps r d : In r G -> In d (r_ndeps r) -> In d (r_deps r).
  Proof. intros Hr Hd. apply (proj1 (NOK r Hr)) in Hd. unfold normalize in Hd. apply diffN_In in Hd. tauto. Qed.

  Lemma norm_sub_all x y : In y (norm_down G x) -> In y (all_down G x).
  Proof. unfold norm_down, all_down, of_rev. destruct (find_rev G x) as [r|] eqn:E; auto.
    apply find_rev_In in E. destruct E as [Hr _]. unfold norm_down_r, all_down_r. rewrite !dedupe_In, !in_app_iff.
    intros [H|H]; auto. right. apply ndeps_sub_deps; auto. Qed.
  Lemma down_sub_norm x y : In y (down G x) -> In y (norm_down G x).
  Proof. unfold norm_down, down, of_rev. destruct (find_rev G x) as [r|]; auto. unfold norm_down_r. rewrite dedupe_In, in_app_iff. auto. Qed.
  Lemma all_down_closed x y : In y (all_down G x) -> In y (ids G).
  Proof. intros H. apply of_rev_In in H. destruct H as [r [Hr [_ Hy]]]. eapply wf_all_down; eauto. Qed.
  Lemma norm_closed x y : In y (norm_down G x) -> In y (ids G).
  Proof. intros H. eapply all_down_closed, norm_sub_all; eauto. Qed.
  Lemma norm_outside x : ~ In x (ids G) -> norm_down G x = [].
  Proof. apply of_rev_notin. Qed.
  Lemma acyclic_norm : ~ cyclic (norm_down G).
  Proof. intros C. apply AC. eapply cyclic_mono; [|exact C]. apply norm_sub_all. Qed.
  Lemma norm_NoDup x : NoDup (norm_down G x).
  Proof. unfold norm_down, of_rev. destruct (find_rev G x); [apply dedupe_NoDup|constructor]. Qed.

  Lemma anc_of_spec x y : In y (anc_of G x) <-> path (norm_down G) x y.
  Proof. unfold anc_of. fold (reach_or_nil (norm_down G) G [x]).
    rewrite (proj2 (reach_or_nil_spec (norm_down G) [x] norm_outside)). split.
    - intros [t [[<-|[]] P]]; auto.
    - intros P. exists x; split; [left|]; auto. Qed.

  Lemma linear_of_spec c : linear_of G c = true -> exists p, norm_down G c = [p].
  Proof. unfold linear_of, norm_down, of_rev. destruct (find_rev G c) as [r|]; [|discriminate].
    unfold norm_down_r. destruct (r_ndeps r); [|discriminate]. destruct (r_down r) as [|p [|q l]]; try discriminate.
    intros _. exists p. reflexivity. Qed.

  (* well-founded induction along an acyclic relation that lives inside the graph *)
  Lemma acyclic_ind succ (P : N -> Prop) : (forall x, ~ In x (ids G) -> succ x = []) -> ~ cyclic succ ->
    (forall x, (forall a, path1 succ x a -> P a) -> P x) -> forall x, P x.
  Proof. intros Ho AS Hstep.
    assert (forall n x, length (reach_or_nil succ G [x]) <= n -> P x) as H.
    { induction n as [|n IH]; intros x Hl.
      - exfalso. destruct (reach_or_nil_spec succ [x] Ho) as [_ Hs].
        assert (In x (reach_or_nil succ G [x])) as Hx by (apply Hs; exists x; split; [left|constructor]; auto).
        destruct (reach_or_nil succ G [x]); [destruct Hx|simpl in Hl; lia].
      - apply Hstep. intros a Pa. apply IH.
        destruct (reach_or_nil_spec succ [x] Ho) as [NDx Hx]. destruct (reach_or_nil_spec succ [a] Ho) as [NDa Ha].
        assert (NoDup (x :: reach_or_nil succ G [a])) as ND'.
        { constructor; auto. intros Hin. apply Ha in Hin. destruct Hin as [t [[<-|[]] Pt]]. apply AS. exists x. eapply path1_trans_l; eauto. }
        assert (incl (x :: reach_or_nil succ G [a]) (reach_or_nil succ G [x])) as Hi.
        { intros z [<-|Hz]; apply Hx; exists x; (split; [left; auto|]); [constructor|].
          apply Ha in Hz. destruct Hz as [t [[<-|[]] Pt]]. eapply path_trans; [apply path1_path|]; eauto. }
        pose proof (NoDup_incl_length ND' Hi). simpl in *. lia. }
    intros x. eapply H. apply Nat.le_refl. Qed.

  (* normalisation of depends_on does not change ancestry *)
  Lemma all_edge_norm_path : forall x d, In d (all_down G x) -> path (norm_down G) x d.
  Proof. apply (acyclic_ind (down G) (fun x => forall d, In d (all_down G x) -> path (norm_down G) x d)).
    - apply of_rev_notin.
    - apply acyclic_down; auto.
    - intros x IH d Hd. pose proof Hd as Hd0. unfold all_down, of_rev in Hd. destruct (find_rev G x) as [r|] eqn:E; [|destruct Hd].
      pose proof (find_rev_In _ _ _ E) as [Hr Hid]. unfold all_down_r in Hd. rewrite dedupe_In, in_app_iff in Hd.
      assert (forall y, In y (norm_down_r r) -> path (norm_down G) x y) as Hedge.
      { intros y Hy. eapply path_step; [|constructor]. unfold norm_down, of_rev. rewrite E. exact Hy. }
      destruct Hd as [Hd|Hd]. { apply Hedge. unfold norm_down_r. rewrite dedupe_In, in_app_iff. auto. }
      destruct (in_dec N.eq_dec d (r_ndeps r)) as [Hn|Hn]. { apply Hedge. unfold norm_down_r. rewrite dedupe_In, in_app_iff. auto. }
      assert (~ In d (normalize G r)) as Hnn by (intros H; apply Hn, (proj1 (NOK r Hr)); auto).
      unfold normalize in Hnn. rewrite diffN_In in Hnn.
      assert (In d (flat_map (fun a => of_rev r_deps G a) (removeN (r_id r) (reach_or_nil (down G) G [r_id r])))) as Hf.
      { destruct (in_dec N.eq_dec d (flat_map (fun a => of_rev r_deps G a) (removeN (r_id r) (reach_or_nil (down G) G [r_id r])))); auto.
        exfalso; apply Hnn; auto. }
      apply in_flat_map in Hf. destruct Hf as [a [Ha Hda]]. apply removeN_In in Ha. destruct Ha as [Ha Hne].
      apply (proj2 (reach_or_nil_spec (down G) [r_id r] (of_rev_notin r_down G))) in Ha.
      destruct Ha as [t [[<-|[]] Pa]]. rewrite Hid in *.
      assert (path1 (down G) x a) as P1. { destruct (path_inv _ _ _ Pa) as [->|]; [congruence|auto]. }
      eapply path_trans.
      + eapply path_mono; [|exact Pa]. apply down_sub_norm.
      + apply (IH a P1). apply of_rev_In in Hda. destruct Hda as [ra [Hra [Hida Hdd]]].
        rewrite <- Hida. apply of_rev_intro; auto. unfold all_down_r. rewrite dedupe_In, in_app_iff. auto. Qed.

  Lemma norm_path_iff x y : path (norm_down G) x y <-> path (all_down G) x y.
  Proof. split.
    - apply path_mono. apply norm_sub_all.
    - induction 1; [constructor|]. eapply path_trans; [apply all_edge_norm_path|]; eauto. Qed.

  (* ---------- the sort on any convex, covered todo set ---------- *)
  Lemma topo_hyps :
    (forall x y, In y (anc_of G x) <-> Anc (norm_down G) x y) /\
    (forall x p, In p (norm_down G x) -> ~ Anc (norm_down G) p x) /\
    (forall c, linear_of G c = true -> exists p, norm_down G c = [p]) /\
    (forall x, NoDup (norm_down G x)).
  Proof. split; [|split; [|split]].
    - intros x y. rewrite Anc_path. apply anc_of_spec.
    - intros x p Hp A. apply Anc_path in A. apply acyclic_norm. exists x, p. auto.
    - apply linear_of_spec.
    - apply norm_NoDup. Qed.

  Definition PAnc (x y : N) : Prop := path (all_down G) x y.

  Lemma topological_sort_correct todo heads :
    NoDup todo ->
    (forall x y p, In x todo -> In y todo -> PAnc x p -> PAnc p y -> In p todo) ->
    (forall y, In y todo -> exists h, In h heads /\ In h todo /\ PAnc h y) ->
    exists o, topological_sort G todo heads = POk o /\ NoDup o /\ (forall x, In x o <-> In x todo) /\
      (forall pre x post, o = pre ++ x :: post -> forall y, In y post -> ~ PAnc y x).
  Proof. intros NDt Hconv Hcov. destruct topo_hyps as [H1 [H2 [H3 H4]]].
    set (hs := sortN (dedupe (filter (fun h => memN h todo) heads))).
    assert (forall h, In h hs <-> In h heads /\ In h todo) as Hhs.
    { intros h. unfold hs. rewrite sortN_In, dedupe_In, filter_In, memN_In. tauto. }
    assert (NoDup hs) as NDh by (apply sortN_NoDup, dedupe_NoDup).
    assert (incl hs todo) as Hi by (intros h Hh; apply Hhs in Hh; tauto).
    assert (forall x y p, In x todo -> In y todo -> Anc (norm_down G) x p -> Anc (norm_down G) p y -> In p todo) as Hconv'.
    { intros x y p Hx Hy A1 A2. apply (proj1 (Anc_path _ _ _)) in A1. apply (proj1 (norm_path_iff _ _)) in A1. apply (proj1 (Anc_path _ _ _)) in A2. apply (proj1 (norm_path_iff _ _)) in A2. exact (Hconv x y p Hx Hy A1 A2). }
    assert (forall y, In y todo -> exists h, In h hs /\ Anc (norm_down G) h y) as Hcov'.
    { intros y Hy. destruct (Hcov y Hy) as [h [Hh [Ht P]]]. exists h. split; [apply Hhs; auto|]. apply (proj2 (Anc_path _ _ _)). apply (proj2 (norm_path_iff _ _)). exact P. }
    pose proof (init_Inv (norm_down G) (anc_of G) H1 todo NDt hs NDh Hi Hcov') as I0.
    destruct (run_terminates (norm_down G) (anc_of G) (linear_of G) H1 H2 H3 H4 todo Hconv' (topo_fuel todo) _ I0) as [o Ho].
    { pose proof (blockers_le _ _ _ I0) as Hb. unfold phi, topo_fuel, B in *. unfold init at 1. cbn [Topo.todo]. nia. }
    destruct (topo_sort_correct (norm_down G) (anc_of G) (linear_of G) H1 H2 H3 H4 todo NDt Hconv' (topo_fuel todo) hs o NDh Hi Hcov' Ho)
      as [NDo [Hin Hord]].
    exists o. unfold topological_sort. fold hs. rewrite Ho.
    assert (subsetN todo o = true) as -> by (apply subsetN_incl; intros x Hx; apply Hin; auto).
    split; auto. split; auto. split; auto.
    intros pre x post E y Hy A. eapply Hord; eauto. apply (proj2 (Anc_path _ _ _)). apply (proj2 (norm_path_iff _ _)). exact A. Qed.
End GRAPH.
