(* C16: the model's observable satisfies the property (as the decider states it) on the whole proved class. *)
From AV Require Import Model.Resolve Spec.C16 Proofs.ResolveProof Proofs.ResolveMain Proofs.ResolveLabels.
From Coq Require Import Lia.

Lemma bool_iff_eq (a b:bool) : (a = true <-> b = true) -> a = b.
Proof. destruct a, b; intros [H1 H2]; try reflexivity; [symmetry; apply H1; reflexivity | apply H2; reflexivity]. Qed.
Lemma filter_filter {A} (f g:A -> bool) l : filter f (filter g l) = filter (fun x => g x && f x) l.
Proof. induction l as [|a l IH]; cbn; auto. destruct (g a); cbn; [destruct (f a); rewrite IH; auto | auto]. Qed.
Lemma filterM_err {A} (f:A -> res bool) e a l : f a = Err e -> filterM f (a :: l) = Err e.
Proof. intros H. cbn. rewrite H. reflexivity. Qed.

Lemma nonempty_children (f:srev -> bool) l : nonempty (map s_id (filter f l)) = existsb f l.
Proof. induction l as [|a l IH]; cbn; auto. destruct (f a); cbn; auto. Qed.
Lemma existsb_ext {A} (f g:A -> bool) l : (forall a, f a = g a) -> existsb f l = existsb g l.
Proof. intros H. induction l as [|a l IH]; cbn; auto. rewrite H, IH. reflexivity. Qed.
Lemma mems_all_down x r : mems x (all_down_r r) = mems x (s_down r) || mems x (s_deps r).
Proof.
  unfold all_down_r. rewrite mems_dedupes.
  destruct (mems x (s_down r ++ s_deps r)) eqn:E; symmetry.
  - apply mems_In in E. apply in_app_or in E. apply orb_true_iff. destruct E; [left|right]; apply mems_In; auto.
  - apply orb_false_iff. apply mems_nIn in E. split; apply mems_nIn; intros H; apply E; apply in_or_app; auto.
Qed.

Section All.
Variables (G:list srev) (rk:str -> nat) (oracle:list (str*str)) (M:rmap).
Hypothesis LOAD : load G oracle = Ok M.
Hypothesis WF : wfG G.
Hypothesis RK : ranked G rk.
Let ND : NoDup (ids G) := proj1 WF.
Let LD : loaded G M := load_loaded _ _ _ LOAD.
Let RO : refs_ok G := proj1 (proj2 WF).

(* ------------------------------------------------------------------ heads, bases *)
Lemma heads_eq : m_heads M = r_heads G.
Proof.
  rewrite (ld_heads _ _ LD). unfold r_heads. apply filter_ext. intros x. unfold nextrev. rewrite nonempty_children. reflexivity.
Qed.
Lemma real_heads_eq : m_real_heads M = r_real_heads G.
Proof.
  rewrite (ld_real_heads _ _ LD). unfold r_real_heads. apply filter_ext. intros x. unfold all_nextrev.
  rewrite nonempty_children. f_equal. apply existsb_ext. intros r. apply mems_all_down.
Qed.
Lemma bases_eq : m_bases M = r_bases G.
Proof.
  rewrite (ld_bases _ _ LD). unfold r_bases. f_equal. apply filter_ext. intros r. destruct (s_down r); reflexivity.
Qed.
Lemma nextrev_eq x : nextrev G x = r_children G x.
Proof. reflexivity. Qed.

(* ------------------------------------------------------------------ names *)
Definition name_ok (n:str) : Prop :=
  n <> [] /\ (mems n (ids G) = true \/ r_label_owner G n <> None \/ (ids_len_ge4 G /\ labels_prefix_free G n)).

Lemma owner_Some n x : r_label_owner G n = Some x -> exists r, In r G /\ s_id r = x /\ In n (s_labels r).
Proof.
  unfold r_label_owner. destruct (filter (fun r => mems n (s_labels r)) G) as [|r t] eqn:F; [discriminate|].
  intros H; inversion H; subst. assert (Hr : In r (filter (fun r => mems n (s_labels r)) G)) by (rewrite F; left; auto).
  apply filter_In in Hr as [Hr Hm]. apply mems_In in Hm. eauto.
Qed.
Lemma owner_None n : r_label_owner G n = None -> forall r, In r G -> ~ In n (s_labels r).
Proof.
  unfold r_label_owner. destruct (filter (fun r => mems n (s_labels r)) G) as [|r t] eqn:F; [|discriminate].
  intros _ r Hr Hn. assert (In r (filter (fun r => mems n (s_labels r)) G)) by (apply filter_In; split; auto; apply mems_In; auto).
  rewrite F in H. destruct H.
Qed.

Lemma rev_of_find x r : find_rev G x = Some r -> rev_of M x = Ok r.
Proof. intros H. unfold rev_of. rewrite (ld_revs _ _ LD), H. reflexivity. Qed.

Lemma cands_class n : mems n (ids G) = false -> r_label_owner G n = None -> ids_len_ge4 G -> labels_prefix_free G n ->
  lookup n (m_keys M) = None /\
  filter (fun k => (3 <? length k) && startswith k n) (map fst (m_keys M)) = filter (fun x => startswith x n) (ids G).
Proof.
  intros Hid Hown L4 LPF. destruct (ld_keys _ _ LD) as (extra & EK & H1 & H2). split.
  - destruct (lookup n (m_keys M)) as [v|] eqn:E; auto. exfalso.
    apply (key_hit G M LD) in E as [[-> Hv]|(_ & r & F & Hl)].
    + apply mems_nIn in Hid. tauto.
    + apply find_rev_In in F as [F _]. eapply owner_None; eauto.
  - rewrite EK, map_app, base_keys_fst, filter_app.
    assert (E2 : filter (fun k => (3 <? length k) && startswith k n) (map fst extra) = []).
    { destruct (filter _ (map fst extra)) as [|k t] eqn:F; auto. exfalso.
      assert (Hk : In k (filter (fun k => (3 <? length k) && startswith k n) (map fst extra))) by (rewrite F; left; auto).
      apply filter_In in Hk as [Hk Hs]. apply andb_true_iff in Hs as [_ Hs]. apply startswith_app in Hs.
      apply in_map_iff in Hk as ([k' v] & <- & Hin). apply H1 in Hin as (r & Fr & Hl). apply find_rev_In in Fr as [Fr _].
      eapply LPF; eauto. }
    rewrite E2, app_nil_r. apply filter_ext_in. intros k Hk. specialize (L4 k Hk).
    assert (E3 : (3 <? length k) = true) by (apply Nat.ltb_lt; lia). rewrite E3. reflexivity.
Qed.

Lemma rfi0_name n : name_ok n ->
  revision_for_ident0 M (Some n) = match r_name G n with Some x => Ok (find_rev G x) | None => Err EResolution end
  /\ (forall x, r_name G n = Some x -> exists r, In r G /\ s_id r = x /\ find_rev G x = Some r).
Proof.
  intros [NE H]. unfold r_name, r_name_in, revision_for_ident0.
  destruct (mems n (ids G)) eqn:Hid.
  { apply mems_In in Hid. rewrite (key_id G M LD n Hid). apply in_map_iff in Hid as (r & <- & Hr).
    rewrite (rev_of_id G M LD ND r Hr). cbn [bind]. rewrite (find_rev_NoDup G r ND Hr). split; auto.
    intros x E; inversion E; subst. exists r. split; auto. split; auto. apply find_rev_NoDup; auto. }
  destruct (r_label_owner G n) as [o|] eqn:Hown.
  { apply owner_Some in Hown as (r & Hr & <- & Hl).
    rewrite (label_key G oracle M ND LOAD r n Hr Hl). rewrite (rev_of_id G M LD ND r Hr). cbn [bind].
    rewrite (find_rev_NoDup G r ND Hr). split; auto.
    intros x E; inversion E; subst. exists r. split; auto. split; auto. apply find_rev_NoDup; auto. }
  destruct H as [H|[H|[L4 LPF]]]; [discriminate|congruence|].
  destruct (cands_class n Hid Hown L4 LPF) as [E1 E2]. rewrite E1, E2.
  destruct n as [|c n']; [congruence|].
  assert (E3 : filter (fun x => startswith x (c :: n') && true) (ids G) = filter (fun x => startswith x (c :: n')) (ids G))
    by (apply filter_ext; intros; apply andb_true_r).
  rewrite E3. destruct (filter (fun x => startswith x (c :: n')) (ids G)) as [|k [|k2 t]] eqn:F; split; auto; try discriminate.
  - assert (Hk : In k (filter (fun x => startswith x (c :: n')) (ids G))) by (rewrite F; left; auto).
    apply filter_In in Hk as [Hk _]. rewrite (key_id G M LD k Hk). apply in_map_iff in Hk as (r & <- & Hr).
    rewrite (rev_of_id G M LD ND r Hr). cbn [bind]. rewrite (find_rev_NoDup G r ND Hr). reflexivity.
  - intros x E; inversion E; subst.
    assert (Hk : In x (filter (fun x => startswith x (c :: n')) (ids G))) by (rewrite F; left; auto).
    apply filter_In in Hk as [Hk _]. apply in_map_iff in Hk as (r & <- & Hr). exists r. split; auto. split; auto.
    apply find_rev_NoDup; auto.
Qed.

(* ------------------------------------------------------------------ lineage filters *)
Lemma r_name_id n x : name_ok n -> r_name G n = Some x -> exists r, In r G /\ s_id r = x /\ find_rev G x = Some r.
Proof. intros H. apply (proj2 (rfi0_name n H)). Qed.

Lemma sl_name t s : In t G -> name_ok s ->
  shares_lineage M (s_id t) [s] = match r_name G s with Some b => Ok (r_lineage G b (s_id t)) | None => Err EResolution end.
Proof.
  intros Ht Hs. unfold shares_lineage. rewrite (rfi0_id G M LD ND t Ht). cbn [bind mapM].
  rewrite (proj1 (rfi0_name s Hs)). destruct (r_name G s) as [b|] eqn:E; [|reflexivity].
  destruct (r_name_id s b Hs E) as (rb & Hrb & <- & F). rewrite F. cbn [bind existsb]. f_equal. rewrite orb_false_r.
  apply bool_iff_eq. rewrite (line_spec G M rk LD ND RK t rb Ht), (r_lineage_spec G rk) by auto. tauto.
Qed.

Definition ffl_ref (targets:list str) (L:str) : res (list str) :=
  match targets with
  | [] => Ok []
  | _ => match r_name G L with Some b => Ok (filter (r_lineage G b) targets) | None => Err EResolution end
  end.
Lemma filterM_sl targets L : name_ok L -> (forall t, In t targets -> In t (ids G)) ->
  filterM (fun t => shares_lineage M t [L]) targets = ffl_ref targets L.
Proof.
  intros HL HT. unfold ffl_ref. destruct targets as [|a l]; [reflexivity|].
  destruct (r_name G L) as [b|] eqn:E.
  - apply filterM_all. intros t Ht. apply HT in Ht. apply in_map_iff in Ht as (r & <- & Hr).
    rewrite (sl_name r L Hr HL), E. reflexivity.
  - apply filterM_err. assert (Ha : In a (ids G)) by (apply HT; left; auto). apply in_map_iff in Ha as (r & <- & Hr).
    rewrite (sl_name r L Hr HL), E. reflexivity.
Qed.
Lemma ffl_name targets L : plain L -> name_ok L -> (forall t, In t targets -> In t (ids G)) ->
  filter_for_lineage M targets L = ffl_ref targets L.
Proof.
  intros PL HL HT. unfold filter_for_lineage. rewrite (rrn_plain M L PL). cbn [bind fst snd app]. apply filterM_sl; auto.
Qed.
Lemma ffl0_name targets L : plain L -> name_ok L -> (forall t, In t targets -> In t (ids G)) ->
  filter_for_lineage0 M targets L = ffl_ref targets L.
Proof.
  intros PL HL HT. unfold filter_for_lineage0, resolve_revision_number0. destruct PL as (_ & N1 & N2 & N3).
  apply streqb_neq in N1, N2, N3. rewrite N1, N2, N3. cbn [bind]. apply filterM_sl; auto.
Qed.

(* _revision_for_ident with a branch, against the reference *)
Lemma rfi_name n L : name_ok n -> name_ok L -> plain L ->
  revision_for_ident M (Some n) (Some L) =
  match r_abs G (Some L) (RName n) with Some [x] => Ok (find_rev G x) | _ => Err EResolution end
  /\ (forall l, r_abs G (Some L) (RName n) = Some l -> exists x, l = [x] /\ In x (ids G)).
Proof.
  intros Hn HL PL. unfold revision_for_ident, r_abs, r_branch.
  destruct HL as [NEL HL']. assert (HL : name_ok L) by (split; auto). destruct L as [|c0 L0]; [congruence|]. cbn [nonempty].
  set (L := c0 :: L0) in *.
  rewrite (proj1 (rfi0_name L HL)). destruct (r_name G L) as [b|] eqn:EL; [|split; [reflexivity|discriminate]].
  destruct (r_name_id L b HL EL) as (rb & Hrb & <- & Fb). rewrite Fb. cbn [bind].
  assert (SLid : forall r, In r G -> shares_lineage M (s_id r) [s_id rb] = Ok (r_lineage G (s_id rb) (s_id r))).
  { intros r Hr. destruct (shares_lineage_ids G M rk LD WF RK r rb Hr Hrb) as (v & -> & Hv). f_equal.
    apply bool_iff_eq. rewrite (r_lineage_spec G rk) by auto. exact Hv. }
  assert (Key : forall r, In r G ->
     (ok <- shares_lineage M (s_id r) [s_id rb];; (if ok then Ok (Some r) else Err EResolution)) =
     match (if r_lineage G (s_id rb) (s_id r) then Some [s_id r] else None) with Some [x] => Ok (find_rev G x) | _ => Err EResolution end).
  { intros r Hr. rewrite (SLid r Hr). cbn [bind]. destruct (r_lineage G (s_id rb) (s_id r)); auto.
    rewrite (find_rev_NoDup G r ND Hr). reflexivity. }
  destruct Hn as [NE H]. unfold r_name_in.
  destruct (mems n (ids G)) eqn:Hid.
  { apply mems_In in Hid. rewrite (key_id G M LD n Hid). apply in_map_iff in Hid as (r & <- & Hr).
    rewrite (rev_of_id G M LD ND r Hr). cbn [bind]. split; [apply Key; auto|].
    intros l. destruct (r_lineage G (s_id rb) (s_id r)); [|discriminate]. intros E; inversion E; subst.
    eexists; split; eauto. apply in_map; auto. }
  destruct (r_label_owner G n) as [o|] eqn:Hown.
  { apply owner_Some in Hown as (r & Hr & <- & Hl).
    rewrite (label_key G oracle M ND LOAD r n Hr Hl). rewrite (rev_of_id G M LD ND r Hr). cbn [bind]. split; [apply Key; auto|].
    intros l. destruct (r_lineage G (s_id rb) (s_id r)); [|discriminate]. intros E; inversion E; subst.
    eexists; split; eauto. apply in_map; auto. }
  destruct H as [H|[H|[L4 LPF]]]; [discriminate|congruence|].
  destruct (cands_class n Hid Hown L4 LPF) as [E1 E2]. rewrite E1, E2.
  destruct n as [|c n']; [congruence|]. set (n := c :: n') in *.
  rewrite (ffl_name (filter (fun x => startswith x n) (ids G)) L PL HL) by (intros t Ht; apply filter_In in Ht; tauto).
  unfold ffl_ref. rewrite EL.
  assert (EF : filter (fun x => startswith x n && r_lineage G (s_id rb) x) (ids G) =
               filter (r_lineage G (s_id rb)) (filter (fun x => startswith x n) (ids G))) by (rewrite filter_filter; reflexivity).
  rewrite EF.
  destruct (filter (fun x => startswith x n) (ids G)) as [|a0 l0] eqn:F0.
  { cbn [bind filter]. split; [reflexivity|discriminate]. }
  rewrite <- F0 in *. cbn [bind].
  destruct (filter (r_lineage G (s_id rb)) (filter (fun x => startswith x n) (ids G))) as [|k [|k2 t]] eqn:F; (split; [|try discriminate]); auto.
  - assert (Hk : In k (filter (r_lineage G (s_id rb)) (filter (fun x => startswith x n) (ids G)))) by (rewrite F; left; auto).
    apply filter_In in Hk as [Hk Hf]. apply filter_In in Hk as [Hk _]. rewrite (key_id G M LD k Hk).
    apply in_map_iff in Hk as (r & <- & Hr). rewrite (rev_of_id G M LD ND r Hr). cbn [bind].
    rewrite (Key r Hr), Hf. reflexivity.
  - intros l. assert (Hk : In k (filter (r_lineage G (s_id rb)) (filter (fun x => startswith x n) (ids G)))) by (rewrite F; left; auto).
    apply filter_In in Hk as [Hk Hf]. apply filter_In in Hk as [Hk _]. rewrite Hf. intros E; inversion E; subst. eauto.
Qed.

(* ------------------------------------------------------------------ _resolve_revision_number on the absolute forms *)
Definition qstr (lbl:option str) (t:str) : str := match lbl with None => t | Some L => at_join L t end.
Definition lbl_ok (lbl:option str) : Prop := match lbl with None => True | Some L => plain L /\ name_ok L /\ word L end.

Definition rrn_ref (lbl:option str) (s:rsym) : res (list str) :=
  match s with
  | RBase => Ok []
  | RName n => Ok [n]
  | RHeads => match lbl with None => Ok (r_real_heads G) | Some L => ffl_ref (r_heads G) L end
  | RHead => hs <- (match lbl with None => Ok (r_heads G) | Some L => ffl_ref (r_heads G) L end) ;; current_head_of hs
  end.

Lemma word_noat w : word w -> has_at w = false.
Proof.
  intros H. unfold has_at. destruct (existsb (N.eqb c_at) w) eqn:E; auto. apply existsb_exists in E as (c & Hc & E).
  apply N.eqb_eq in E. subst c. destruct (word_chars w H c_at Hc) as [H0 _]. congruence.
Qed.
Lemma r_heads_ids h : In h (r_heads G) -> In h (ids G).
Proof. unfold r_heads. intros H. apply filter_In in H; tauto. Qed.
Lemma r_real_heads_ids h : In h (r_real_heads G) -> In h (ids G).
Proof. unfold r_real_heads. intros H. apply filter_In in H; tauto. Qed.

Lemma classify_cases w :
  (w = s_head /\ classify_word w = RHead) \/ (w = s_heads /\ classify_word w = RHeads) \/ (w = s_base /\ classify_word w = RBase)
  \/ (w <> s_head /\ w <> s_heads /\ w <> s_base /\ classify_word w = RName w).
Proof.
  unfold classify_word. destruct (streqb w s_head) eqn:E1; [apply streqb_eq in E1; auto|].
  destruct (streqb w s_heads) eqn:E2; [apply streqb_eq in E2; auto|].
  destruct (streqb w s_base) eqn:E3; [apply streqb_eq in E3; auto 6|].
  apply streqb_neq in E1, E2, E3. auto 8.
Qed.

Lemma rrn_abs lbl w : word w -> w <> [] -> lbl_ok lbl ->
  resolve_revision_number M (qstr lbl w) = (l <- rrn_ref lbl (classify_word w) ;; Ok (l, lbl)).
Proof.
  intros Hw NE HL. unfold resolve_revision_number, qstr. destruct lbl as [L|].
  - destruct HL as (PL & NL & WL). pose proof PL as (NA & _). rewrite split_at_join by auto.
    assert (NEL : nonempty L = true) by (destruct NL as [NEL _]; destruct L; [congruence|reflexivity]).
    rewrite NEL.
    destruct (classify_cases w) as [[-> ->]|[[-> ->]|[[-> ->]|(N1 & N2 & N3 & ->)]]]; cbn [rrn_ref streqb].
    + change (streqb s_head s_heads) with false. change (streqb s_head s_head) with true. cbn iota.
      rewrite heads_eq, (ffl0_name (r_heads G) L PL NL r_heads_ids). destruct (ffl_ref (r_heads G) L) as [a|]; cbn [bind]; [destruct (current_head_of a)|]; reflexivity.
    + change (streqb s_heads s_heads) with true. cbn iota.
      rewrite heads_eq, (ffl0_name (r_heads G) L PL NL r_heads_ids). destruct (ffl_ref (r_heads G) L); reflexivity.
    + change (streqb s_base s_heads) with false. change (streqb s_base s_head) with false. change (streqb s_base s_base) with true. reflexivity.
    + apply streqb_neq in N1, N2, N3. rewrite N1, N2, N3. reflexivity.
  - rewrite split_at_None by (apply word_noat; auto). unfold resolve_revision_number0.
    destruct (classify_cases w) as [[-> ->]|[[-> ->]|[[-> ->]|(N1 & N2 & N3 & ->)]]]; cbn [rrn_ref].
    + change (streqb s_head s_heads) with false. change (streqb s_head s_head) with true. cbn iota.
      rewrite heads_eq. cbn [bind]. destruct (current_head_of (r_heads G)); reflexivity.
    + change (streqb s_heads s_heads) with true. cbn iota. rewrite real_heads_eq. reflexivity.
    + reflexivity.
    + apply streqb_neq in N1, N2, N3. rewrite N1, N2, N3. reflexivity.
Qed.

(* ------------------------------------------------------------------ the absolute forms against r_abs *)
Definition doc_err (e:err) : Prop := e = EResolution \/ e = EMultipleHeads \/ e = ERevision.
Definition not_name (s:rsym) : Prop := match s with RName _ => False | _ => True end.

Lemma filter_true {A} (l:list A) : filter (fun _ => true) l = l.
Proof. induction l; cbn; congruence. Qed.

Lemma ffl_ref_spec hs L : hs <> [] ->
  match ffl_ref hs L with
  | Ok l => exists b, r_name G L = Some b /\ l = filter (r_lineage G b) hs
  | Err e => r_name G L = None /\ e = EResolution
  end.
Proof.
  intros NE. unfold ffl_ref. destruct hs; [congruence|]. destruct (r_name G L) as [b|]; eauto.
Qed.

Lemma rrn_ref_abs lbl s : not_name s ->
  match rrn_ref lbl s with
  | Ok l => r_abs G lbl s = Some l
  | Err e => r_abs G lbl s = None /\ doc_err e
  end.
Proof.
  intros NN. destruct s as [n| | |]; [destruct NN| | |]; cbn [rrn_ref r_abs].
  - (* head *)
    destruct (r_heads G) as [|h0 t0] eqn:EH.
    { destruct lbl; reflexivity. }
    assert (NE : h0 :: t0 <> []) by discriminate.
    destruct lbl as [L|]; cbn [r_branch].
    + pose proof (ffl_ref_spec (h0 :: t0) L NE) as SP. destruct (ffl_ref (h0 :: t0) L) as [l|e].
      * destruct SP as (b & -> & ->). cbn [bind].
        destruct (filter (r_lineage G b) (h0 :: t0)) as [|h [|h' t]]; cbn; auto. split; auto. right; left; auto.
      * destruct SP as [-> ->]. cbn [bind]. split; auto. left; auto.
    + cbn [bind]. rewrite filter_true.
      destruct t0 as [|h1 t1]; cbn; auto. split; auto. right; left; auto.
  - (* heads *)
    destruct lbl as [L|]; [|reflexivity].
    destruct (r_heads G) as [|h0 t0] eqn:EH; [reflexivity|].
    assert (NE : h0 :: t0 <> []) by discriminate. cbn [r_branch].
    pose proof (ffl_ref_spec (h0 :: t0) L NE) as SP. destruct (ffl_ref (h0 :: t0) L) as [l|e].
    + destruct SP as (b & -> & ->). reflexivity.
    + destruct SP as [-> ->]. split; auto. left; auto.
  - reflexivity.
Qed.

Lemma rrn_ref_elems lbl s l : not_name s -> lbl_ok lbl -> rrn_ref lbl s = Ok l ->
  forall h, In h l -> In h (ids G) /\ revision_for_ident M (Some h) lbl = Ok (find_rev G h).
Proof.
  intros NN HL E h Hh.
  assert (Base : forall hs, (forall x, In x hs -> In x (ids G)) ->
            forall l0, (match lbl with None => Ok hs | Some L => ffl_ref hs L end) = Ok l0 ->
            forall x, In x l0 -> In x (ids G) /\ revision_for_ident M (Some x) lbl = Ok (find_rev G x)).
  { intros hs Hhs l0 E0 x Hx. destruct lbl as [L|].
    - destruct HL as (PL & NL & WL).
      assert (NE : hs <> []) by (intros ->; cbn in E0; inversion E0; subst; destruct Hx).
      pose proof (ffl_ref_spec hs L NE) as SP. rewrite E0 in SP. destruct SP as (b & EL & ->).
      apply filter_In in Hx as [Hx Hf]. split; [auto|]. apply Hhs in Hx. apply in_map_iff in Hx as (r & <- & Hr).
      destruct (r_name_id L b NL EL) as (rb & Hrb & <- & Fb).
      assert (B : revision_for_ident0 M (Some L) = Ok (Some rb)) by (rewrite (proj1 (rfi0_name L NL)), EL, Fb; reflexivity).
      destruct (rfi_full_id G M rk LD WF RK L rb r) as (v & -> & Hv); auto; [destruct NL; auto|].
      assert (v = true) by (apply Hv; apply (r_lineage_spec G rk); auto). subst v.
      rewrite (find_rev_NoDup G r ND Hr). reflexivity.
    - inversion E0; subst. split; auto. apply Hhs in Hx. apply in_map_iff in Hx as (r & <- & Hr).
      unfold revision_for_ident. rewrite (rfi0_id G M LD ND r Hr), (find_rev_NoDup G r ND Hr). reflexivity. }
  destruct s as [n| | |]; [destruct NN| | |]; cbn [rrn_ref] in E.
  - destruct (match lbl with None => Ok (r_heads G) | Some L => ffl_ref (r_heads G) L end) as [hs|] eqn:E0; cbn [bind] in E; [|discriminate].
    apply current_head_of_In in E. eapply (Base (r_heads G) r_heads_ids hs E0); eauto.
  - destruct lbl as [L|].
    + eapply (Base (r_heads G) r_heads_ids l E); eauto.
    + inversion E; subst. split; [apply r_real_heads_ids; auto|]. apply r_real_heads_ids in Hh.
      apply in_map_iff in Hh as (r & <- & Hr).
      unfold revision_for_ident. rewrite (rfi0_id G M LD ND r Hr), (find_rev_NoDup G r ND Hr). reflexivity.
  - inversion E; subst. destruct Hh.
Qed.

(* ------------------------------------------------------------------ the lookups on the absolute forms *)
Lemma word_not_neg n z : word n -> py_int n = Some z -> (z <? 0)%Z = false.
Proof.
  intros Hw P. destruct (z <? 0)%Z eqn:E; auto. destruct (py_int_neg _ _ P E) as (r & ->).
  destruct (word_chars _ Hw c_minus (or_introl eq_refl)) as [_ _].
  unfold word in Hw. cbn in Hw. discriminate.
Qed.

Lemma get_revisions_unfold q l lbl : resolve_revision_number M q = Ok (l, lbl) ->
  (forall one z, l = [one] -> py_int one = Some z -> (z <? 0)%Z = false) ->
  get_revisions M q = (rs <- mapM (fun x => revision_for_ident M (Some x) lbl) l ;; Ok (map elem_of_opt rs)).
Proof.
  intros E NN. unfold get_revisions. rewrite E. cbn [bind fst snd].
  destruct l as [|one [|two t]]; auto. destruct (py_int one) as [z|] eqn:P; auto. rewrite (NN one z eq_refl P). reflexivity.
Qed.

Definition abs_res (lbl:option str) (s:rsym) : res (list str) :=
  match s with
  | RName n => match r_abs G lbl (RName n) with Some l => Ok l | None => Err EResolution end
  | _ => rrn_ref lbl s
  end.
Lemma abs_res_spec lbl s :
  match abs_res lbl s with Ok l => r_abs G lbl s = Some l | Err e => r_abs G lbl s = None /\ doc_err e end.
Proof.
  destruct s as [n| | |]; try (apply rrn_ref_abs; exact I).
  unfold abs_res. destruct (r_abs G lbl (RName n)); auto. split; auto. left; auto.
Qed.

Lemma name_elem lbl n : lbl_ok lbl -> name_ok n ->
  revision_for_ident M (Some n) lbl = match r_abs G lbl (RName n) with Some [x] => Ok (find_rev G x) | _ => Err EResolution end
  /\ (forall l, r_abs G lbl (RName n) = Some l -> exists x, l = [x] /\ In x (ids G)).
Proof.
  intros HL Hn. destruct lbl as [L|].
  - destruct HL as (PL & NL & WL). apply rfi_name; auto.
  - unfold revision_for_ident, r_abs, r_branch. fold (r_name G n). rewrite (proj1 (rfi0_name n Hn)).
    destruct (r_name G n) as [x|] eqn:E; split; auto; try discriminate.
    intros l El; inversion El; subst. destruct (r_name_id n x Hn E) as (r & Hr & <- & _). eexists; split; eauto. apply in_map; auto.
Qed.

Lemma find_elem l : (forall h, In h l -> In h (ids G)) -> map elem_of_opt (map (find_rev G) l) = xids l.
Proof.
  intros H. unfold xids. rewrite map_map. apply map_ext_in. intros h Hh. apply H in Hh.
  apply in_map_iff in Hh as (r & <- & Hr). rewrite (find_rev_NoDup G r ND Hr). reflexivity.
Qed.

Definition sym_ok (s:rsym) : Prop := match s with RName n => name_ok n | _ => True end.

Lemma get_revisions_notname q lbl s : not_name s -> lbl_ok lbl ->
  resolve_revision_number M q = (l <- rrn_ref lbl s ;; Ok (l, lbl)) ->
  get_revisions M q = (l <- rrn_ref lbl s ;; Ok (xids l)).
Proof.
  intros NN HL RR. destruct (rrn_ref lbl s) as [l|e] eqn:ER; cbn [bind] in RR |- *.
  - pose proof (rrn_ref_elems lbl s l NN HL ER) as EL.
    rewrite (get_revisions_unfold _ l lbl RR).
    + rewrite (mapM_all _ (find_rev G)) by (intros h Hh; apply EL; auto). cbn [bind].
      rewrite find_elem by (intros h Hh; apply EL; auto). reflexivity.
    + intros one z -> P. destruct (EL one (or_introl eq_refl)) as [Hin _].
      pose proof WF as (_ & _ & LG). apply (legal_not_neg _ _ (LG _ Hin) P).
  - unfold get_revisions. rewrite RR. reflexivity.
Qed.

Lemma get_revisions_abs lbl w : word w -> w <> [] -> lbl_ok lbl -> sym_ok (classify_word w) ->
  get_revisions M (qstr lbl w) = (l <- abs_res lbl (classify_word w) ;; Ok (xids l)).
Proof.
  intros Hw NE HL HS. pose proof (rrn_abs lbl w Hw NE HL) as RR.
  destruct (classify_cases w) as [[Ew Ec]|[[Ew Ec]|[[Ew Ec]|(N1 & N2 & N3 & Ec)]]]; rewrite Ec in *.
  1-3: (apply get_revisions_notname; auto; exact I).
  (* a name *)
  cbn [rrn_ref bind] in RR. rewrite (get_revisions_unfold _ [w] lbl RR) by (intros one z E P; inversion E; subst; eapply word_not_neg; eauto).
  cbn [mapM]. destruct (name_elem lbl w HL HS) as [E1 E2]. rewrite E1. unfold abs_res.
  destruct (r_abs G lbl (RName w)) as [l|] eqn:EA; [|reflexivity].
  destruct (E2 l eq_refl) as (x & -> & Hx). cbn [bind]. apply in_map_iff in Hx as (r & <- & Hr).
  rewrite (find_rev_NoDup G r ND Hr). reflexivity.
Qed.

Definition branch_res (lbl:option str) : res unit :=
  match lbl with None => Ok tt | Some L => match r_name G L with Some _ => Ok tt | None => Err EResolution end end.
Definition one_res (lbl:option str) (s:rsym) : res (option str) :=
  l <- abs_res lbl s ;;
  match l with
  | [] => _ <- branch_res lbl ;; Ok None
  | [x] => Ok (Some x)
  | _ => Err EMultipleHeads
  end.
Definition find_opt (o:option str) : option srev := match o with Some x => find_rev G x | None => None end.

Lemma one_res_spec lbl s :
  match one_res lbl s with Ok o => r_one G lbl s = Some o | Err e => r_one G lbl s = None /\ doc_err e end.
Proof.
  unfold one_res, r_one. pose proof (abs_res_spec lbl s) as SP. destruct (abs_res lbl s) as [l|e]; cbn [bind].
  - rewrite SP. destruct l as [|x [|y t]]; auto.
    + unfold branch_res, r_branch. destruct lbl as [L|]; cbn [bind]; auto. destruct (r_name G L); cbn [bind]; auto.
      split; auto. left; auto.
    + split; auto. right; left; auto.
  - destruct SP as [-> D]. auto.
Qed.

Lemma rfi_none lbl : lbl_ok lbl -> revision_for_ident M None lbl = (_ <- branch_res lbl ;; Ok None).
Proof.
  intros HL. destruct lbl as [L|]; [|reflexivity]. destruct HL as (PL & NL & WL).
  unfold revision_for_ident, branch_res. destruct NL as [NE NL']. assert (NL : name_ok L) by (split; auto).
  destruct L as [|c L0]; [congruence|]. cbn [nonempty]. rewrite (proj1 (rfi0_name _ NL)).
  destruct (r_name G (c :: L0)) as [b|] eqn:E; [|reflexivity].
  destruct (r_name_id _ b NL E) as (rb & _ & _ & F). rewrite F. reflexivity.
Qed.

Lemma get_revision_notname q lbl s : not_name s -> lbl_ok lbl ->
  resolve_revision_number M q = (l <- rrn_ref lbl s ;; Ok (l, lbl)) ->
  get_revision M q = (o <- (l <- rrn_ref lbl s ;; match l with [] => _ <- branch_res lbl ;; Ok None | [x] => Ok (Some x) | _ => Err EMultipleHeads end) ;; Ok (find_opt o)).
Proof.
  intros NN HL RR. unfold get_revision. destruct (rrn_ref lbl s) as [l|e] eqn:ER; cbn [bind] in RR |- *; rewrite RR; cbn [bind fst snd]; [|reflexivity].
  pose proof (rrn_ref_elems lbl s l NN HL ER) as EL.
  destruct l as [|x [|y t]]; [|  | reflexivity].
  - rewrite rfi_none by auto. destruct (branch_res lbl) as [[]|]; reflexivity.
  - destruct (EL x (or_introl eq_refl)) as [_ ->]. reflexivity.
Qed.

Lemma get_revision_abs lbl w : word w -> w <> [] -> lbl_ok lbl -> sym_ok (classify_word w) ->
  get_revision M (qstr lbl w) = (o <- one_res lbl (classify_word w) ;; Ok (find_opt o)).
Proof.
  intros Hw NE HL HS. pose proof (rrn_abs lbl w Hw NE HL) as RR. unfold one_res.
  destruct (classify_cases w) as [[Ew Ec]|[[Ew Ec]|[[Ew Ec]|(N1 & N2 & N3 & Ec)]]]; rewrite Ec in *.
  1-3: (apply get_revision_notname; auto; exact I).
  unfold get_revision. cbn [rrn_ref bind] in RR. rewrite RR. cbn [bind fst snd].
  destruct (name_elem lbl w HL HS) as [E1 E2]. rewrite E1. unfold abs_res.
  destruct (r_abs G lbl (RName w)) as [l|] eqn:EA; [|reflexivity].
  destruct (E2 l eq_refl) as (x & -> & Hx). reflexivity.
Qed.

(* ------------------------------------------------------------------ agreement helpers *)
Lemma list_eqb_refl l : list_eqb' elem_eqb l l = true.
Proof. induction l as [|a l IH]; cbn; auto. rewrite elem_eqb_refl; auto. Qed.
Lemma optstr_eqb_refl o : optstr_eqb o o = true.
Proof. destruct o; cbn; auto using streqb_refl. Qed.
Lemma agree_ok lbl l : agree (XOK lbl l) (OK lbl l) = true.
Proof. cbn. rewrite optstr_eqb_refl, list_eqb_refl. reflexivity. Qed.
Lemma elem_in_refl l e : In e l -> elem_in l e = true.
Proof. intros H. unfold elem_in. apply existsb_exists. exists e. split; auto. apply elem_eqb_refl. Qed.
Lemma agree_set l : agree (XSet l) (OK None l) = true.
Proof.
  cbn. rewrite Nat.eqb_refl, andb_true_r. apply andb_true_iff; split; apply forallb_forall; intros e He; apply elem_in_refl; auto.
Qed.
Lemma doc_documented e : doc_err e -> documented (catch_revision_errors e) = true.
Proof. intros [-> | [-> | ->]]; reflexivity. Qed.
Lemma agree_fail e : doc_err e -> agree XFail (Fail (catch_revision_errors e)) = true.
Proof. intros H. cbn. apply doc_documented; auto. Qed.
Lemma agree_loose_fail e : doc_err e -> agree XLoose (Fail (catch_revision_errors e)) = true.
Proof. intros H. cbn. apply doc_documented; auto. Qed.

Lemma abs_res_ids lbl s l : lbl_ok lbl -> sym_ok s -> abs_res lbl s = Ok l -> forall x, In x l -> In x (ids G).
Proof.
  intros HL HS E x Hx. destruct s as [n| | |].
  - unfold abs_res in E. destruct (r_abs G lbl (RName n)) as [l'|] eqn:EA; [|discriminate]. inversion E; subst.
    destruct (proj2 (name_elem lbl n HL HS) l EA) as (y & -> & Hy). destruct Hx as [<-|[]]; auto.
  - eapply (rrn_ref_elems lbl RHead l I HL E); eauto.
  - eapply (rrn_ref_elems lbl RHeads l I HL E); eauto.
  - eapply (rrn_ref_elems lbl RBase l I HL E); eauto.
Qed.
Lemma find_opt_elem o : (forall x, o = Some x -> In x (ids G)) -> [elem_of_opt (find_opt o)] = xopt o.
Proof.
  intros H. destruct o as [x|]; [|reflexivity]. cbn. specialize (H x eq_refl).
  apply in_map_iff in H as (r & <- & Hr). rewrite (find_rev_NoDup G r ND Hr). reflexivity.
Qed.
Lemma one_res_ids lbl s o : lbl_ok lbl -> sym_ok s -> one_res lbl s = Ok o -> forall x, o = Some x -> In x (ids G).
Proof.
  intros HL HS E x ->. unfold one_res in E. destruct (abs_res lbl s) as [l|] eqn:EA; cbn [bind] in E; [|discriminate].
  destruct l as [|y [|z t]]; try discriminate.
  - destruct (branch_res lbl); cbn in E; discriminate.
  - inversion E; subst. eapply abs_res_ids; eauto. left; auto.
Qed.

(* ------------------------------------------------------------------ an absolute identifier: all five entry points *)
Definition dg_ok (lbl:option str) (s:rsym) : Prop :=
  match lbl, s with Some _, RName _ => r_one G lbl s = r_one G None s | _, _ => True end.

Lemma rpartition_join L w : has_at w = false -> rpartition_at (at_join L w) = (L, w).
Proof.
  intros Hw. unfold rpartition_at, at_join.
  match goal with |- context [match ?f (L ++ c_at :: w) with _ => _ end] =>
    assert (E0 : f w = None);
    [| assert (E : forall l, f (l ++ c_at :: w) = Some (l, w)) ] end.
  { clear - Hw. unfold has_at in Hw. induction w as [|c w IH]; cbn -[N.eqb] in *; auto.
    rewrite (N.eqb_sym c_at c) in Hw. destruct (N.eqb c c_at) eqn:Ec; cbn -[N.eqb] in Hw; [discriminate|].
    rewrite IH by auto. reflexivity. }
  { induction l as [|c l IH]; cbn -[N.eqb].
    - rewrite E0, N.eqb_refl. reflexivity.
    - rewrite IH. reflexivity. }
  rewrite E. reflexivity.
Qed.

Lemma abs_query lbl w cur : word w -> w <> [] -> lbl_ok lbl -> sym_ok (classify_word w) -> dg_ok lbl (classify_word w) ->
  let i := mkIdent lbl (Some (classify_word w)) None in
  let ob := run_query (Ok M) cur (qstr lbl w) in
  agree (ref_revs G i) (o_revs ob) = true /\ agree (ref_rev G i) (o_rev ob) = true /\ agree (ref_num G i) (o_num ob) = true /\
  agree (ref_up G cur i) (o_up ob) = true /\ agree (ref_down G cur i) (o_down ob) = true.
Proof.
  intros Hw NE HL HS DG i ob. set (s := classify_word w) in *.
  assert (RD : relative_destination (qstr lbl w) = None).
  { destruct regex_char as (R1 & R2 & _). unfold qstr. destruct lbl as [L|]; [|apply R1; auto].
    destruct HL as (_ & _ & WL). apply R2; auto. }
  assert (GR : get_revisions M (qstr lbl w) = (l <- abs_res lbl s ;; Ok (xids l))) by (apply get_revisions_abs; auto).
  assert (RevsOK : agree (ref_revs G i) (observe (get_revisions M (qstr lbl w)) (OK None)) = true).
  { rewrite GR. unfold ref_revs. cbn [i_rel i_sym i_lbl i]. pose proof (abs_res_spec lbl s) as SP.
    destruct (abs_res lbl s) as [l|e]; cbn [bind observe].
    - rewrite SP. destruct s; auto using agree_ok, agree_set.
    - destruct SP as [-> D]. apply agree_fail; auto. }
  assert (OR : forall lbl', lbl_ok lbl' -> get_revision M (qstr lbl' w) = (o <- one_res lbl' s ;; Ok (find_opt o)))
    by (intros; apply get_revision_abs; auto).
  unfold ob, run_query. cbn [bind o_revs o_rev o_num o_up o_down]. repeat split.
  - exact RevsOK.
  - rewrite (OR lbl HL). unfold ref_rev. cbn [i_rel i_sym i_lbl i]. pose proof (one_res_spec lbl s) as SP.
    destruct (one_res lbl s) as [o|e] eqn:EO; cbn [bind observe].
    + rewrite SP. rewrite (find_opt_elem o) by (eapply one_res_ids; eauto). apply agree_ok.
    + destruct SP as [-> D]. apply agree_fail; auto.
  - (* as_revision_number *)
    unfold as_revision_number. rewrite (rrn_abs lbl w Hw NE HL). fold s. unfold ref_num. cbn [i_rel i_sym i_lbl i].
    assert (QH : forall n, s = RName n -> streqb (qstr lbl w) s_heads = false).
    { intros n En. apply streqb_neq. intros Eq. unfold qstr in Eq. destruct lbl as [L|].
      - assert (has_at (at_join L w) = true).
        { unfold has_at, at_join. apply existsb_exists. exists c_at. split; [apply in_or_app; right; left; auto|apply N.eqb_refl]. }
        rewrite Eq in H. discriminate.
      - unfold s, classify_word in En. rewrite Eq in En. discriminate. }
    destruct s as [n| | |] eqn:Es.
    + cbn [rrn_ref bind fst snd]. rewrite (QH n eq_refl).
      assert (n = w). { destruct (classify_cases w) as [[_ E]|[[_ E]|[[_ E]|(_ & _ & _ & E)]]]; fold s in E; rewrite Es in E; try discriminate. inversion E; auto. }
      subst n. apply agree_ok.
    + pose proof (rrn_ref_abs lbl RHead I) as SP. destruct (rrn_ref lbl RHead) as [l|e] eqn:ER; cbn [bind fst snd observe].
      * rewrite SP.
        assert (QN : streqb (qstr lbl w) s_heads = false).
        { apply streqb_neq. intros Eq. unfold qstr in Eq. destruct lbl as [L|].
          - assert (has_at (at_join L w) = true).
            { unfold has_at, at_join. apply existsb_exists. exists c_at. split; [apply in_or_app; right; left; auto|apply N.eqb_refl]. }
            rewrite Eq in H. discriminate.
          - unfold s, classify_word in Es. rewrite Eq in Es. discriminate. }
        rewrite QN. destruct l as [|x [|y t]]; try apply agree_ok.
        exfalso. cbn [rrn_ref] in ER. destruct (match lbl with None => _ | Some L => _ end) as [hs|]; cbn [bind] in ER; [|discriminate].
        destruct hs as [|h1 [|h2 t2]]; cbn in ER; discriminate.
      * destruct SP as [-> D]. apply agree_fail; auto.
    + destruct lbl as [L|].
      * destruct (rrn_ref (Some L) RHeads) as [l|e] eqn:ER; cbn [bind fst snd observe].
        -- destruct l; [reflexivity|]. destruct (streqb (qstr (Some L) w) s_heads); reflexivity.
        -- pose proof (rrn_ref_abs (Some L) RHeads I) as SP. rewrite ER in SP. destruct SP as [_ D]. apply agree_loose_fail; auto.
      * cbn [rrn_ref bind fst snd observe].
        assert (qstr None w = s_heads).
        { destruct (classify_cases w) as [[_ E]|[[Ew E]|[[_ E]|(_ & _ & _ & E)]]]; fold s in E; rewrite Es in E; try discriminate. exact Ew. }
        rewrite H. destruct (r_real_heads G) as [|x t] eqn:ERH; [reflexivity|]. change (streqb s_heads s_heads) with true. cbn iota.
        apply agree_set.
    + cbn [rrn_ref bind fst snd observe]. reflexivity.
  - (* upgrade target *)
    unfold parse_upgrade_target. rewrite RD. unfold ref_up. cbn [i_rel i]. exact RevsOK.
  - (* downgrade target *)
    unfold parse_downgrade_target. rewrite RD. unfold ref_down. cbn [i_rel i_sym i_lbl i].
    assert (NAw : has_at w = false) by (apply word_noat; auto).
    assert (RP : rpartition_at (qstr lbl w) = (match lbl with Some L => L | None => [] end, w)).
    { unfold qstr. destruct lbl as [L|]; [apply rpartition_join; auto | apply rpartition_noat; auto]. }
    pose proof (OR None I) as ORN. change (qstr None w) with w in ORN. rewrite RP. cbv iota beta. rewrite ORN.
    assert (LB : (match (match lbl with Some L => L | None => [] end) with [] => None | _ => Some (match lbl with Some L => L | None => [] end) end) = lbl).
    { destruct lbl as [L|]; auto. destruct HL as (_ & [NEL _] & _). destruct L; [congruence|reflexivity]. }
    assert (RO1 : (match s, lbl with RName _, Some _ => r_one G lbl s | _, _ => r_one G None s end) = r_one G None s).
    { unfold dg_ok in DG. destruct s, lbl; auto. }
    rewrite RO1. pose proof (one_res_spec None s) as SP.
    destruct (one_res None s) as [o|e] eqn:EO; cbn [bind observe fst snd].
    + rewrite SP, LB. rewrite (find_opt_elem o) by (apply (one_res_ids None s o I HS EO)). apply agree_ok.
    + destruct SP as [-> D]. apply agree_fail; auto.
Qed.

(* ------------------------------------------------------------------ walks against r_up / r_down *)
Definition fin (r:res wpos) : res wpos := match r with Ok WNone => Err ERevision | x => x end.
Definition wfind (y:str) : wpos := wpos_of_opt (find_rev G y).

Lemma r_bases_ids x : In x (r_bases G) -> In x (ids G).
Proof. unfold r_bases. intros H. apply in_map_iff in H as (r & <- & Hr). apply filter_In in Hr as [Hr _]. apply in_map; auto. Qed.
Lemma map_find_wrev xs : (forall x, In x xs -> In x (ids G)) ->
  exists rs, map (find_rev G) xs = map Some rs /\ map s_id rs = xs /\ (forall r, In r rs -> In r G).
Proof.
  induction xs as [|x xs IH]; intros H; [exists []; repeat split; auto; intros r []|].
  destruct IH as (rs & E1 & E2 & E3); [intros; apply H; right; auto|].
  assert (Hx : In x (ids G)) by (apply H; left; auto). apply in_map_iff in Hx as (r & <- & Hr).
  exists (r :: rs). cbn. rewrite (find_rev_NoDup G r ND Hr), E1, E2. repeat split; auto. intros r' [<-|Hr']; auto.
Qed.

Lemma walk_down_eq bl n : forall r, In r G ->
  fin (walk_n M n false (WRev r) bl true) =
  match r_down G n (DRev (s_id r)) with
  | Some (DRev y) => Ok (wfind y)
  | Some DBase => Ok WBase
  | None => Err ERevision
  end.
Proof.
  induction n as [|n IH]; intros r Hr.
  - cbn. unfold wfind. rewrite (find_rev_NoDup G r ND Hr). reflexivity.
  - cbn [walk_n r_down]. rewrite (get_ids_ids G M LD WF (s_down r) (down_refs G WF r Hr)). cbn [bind].
    unfold r_parents, down_of. rewrite (find_rev_NoDup G r ND Hr).
    destruct (s_down r) as [|p [|p2 t]] eqn:D; cbn [map].
    + destruct n as [|n']; reflexivity.
    + assert (Hp : In p (ids G)) by (apply (down_refs G WF r Hr); rewrite D; left; auto).
      apply in_map_iff in Hp as (rp & <- & Hrp). rewrite (find_rev_NoDup G rp ND Hrp). cbn [wpos_of_opt]. apply IH; auto.
    + reflexivity.
Qed.

Definition wstart (p:option str) : wpos := match p with Some x => wfind x | None => WNone end.

Lemma walk_up_eq bl f n : lbl_ok bl -> r_branch G bl = Some f -> forall p, (forall x, p = Some x -> In x (ids G)) ->
  fin (walk_n M n true (wstart p) bl true) =
  match r_up G n p f with Some (Some y) => Ok (wfind y) | _ => Err ERevision end.
Proof.
  intros HL HB. induction n as [|n IH]; intros p Hp.
  - cbn. destruct p as [x|]; [|reflexivity]. cbn [wstart]. specialize (Hp x eq_refl).
    apply in_map_iff in Hp as (r & <- & Hr). unfold wfind. rewrite (find_rev_NoDup G r ND Hr). reflexivity.
  - set (kids := match p with Some x => r_children G x | None => r_bases G end).
    assert (Hk : forall x, In x kids -> In x (ids G)).
    { intros x Hx. unfold kids in Hx. destruct p; [eapply nextrev_ids; eauto | apply r_bases_ids; auto]. }
    assert (ST : exists w, wstart p = w /\ w <> WBase /\
              (match w with WRev r => nextrev (m_revs M) (s_id r) | _ => m_bases M end) = kids).
    { destruct p as [x|]; cbn [wstart].
      - specialize (Hp x eq_refl). apply in_map_iff in Hp as (r & <- & Hr). unfold wfind. rewrite (find_rev_NoDup G r ND Hr).
        eexists; split; [reflexivity|]. split; [discriminate|]. cbn. rewrite (ld_revs _ _ LD). reflexivity.
      - eexists; split; [reflexivity|]. split; [discriminate|]. cbn. apply bases_eq. }
    destruct ST as (w0 & -> & NB & EK).
    cbn [walk_n r_up]. fold kids.
    assert (STEP : (match w0 with
                    | WBase => Err EAssertion
                    | _ => ups <- get_ids M (match w0 with WRev r => nextrev (m_revs M) (s_id r) | _ => m_bases M end) ;;
                           upids <- mapM opt_id ups ;;
                           sel <- (match bl with Some b => if nonempty b then filter_for_lineage M upids b else Ok upids | None => Ok upids end) ;;
                           rs <- mapM (rev_of M) sel ;; Ok (map WRev rs)
                    end) = Ok (map wfind (filter f kids))).
    { destruct w0 as [r0| |]; [| |congruence]; rewrite EK.
      all: rewrite (get_ids_ids G M LD WF kids Hk); cbn [bind];
           rewrite (mapM_opt_id_find G WF kids Hk); cbn [bind].
      all: assert (SEL : (match bl with Some b => if nonempty b then filter_for_lineage M kids b else Ok kids | None => Ok kids end) = Ok (filter f kids));
           [ destruct bl as [L|];
             [ destruct HL as (PL & NL & WL); assert (NEL : nonempty L = true) by (destruct NL as [NEL _]; destruct L; [congruence|reflexivity]);
               rewrite NEL, (ffl_name kids L PL NL Hk); unfold r_branch in HB; unfold ffl_ref;
               destruct (r_name G L) as [b|]; [|discriminate]; inversion HB; subst; destruct kids; reflexivity
             | unfold r_branch in HB; inversion HB; subst; rewrite filter_true; reflexivity ]
           | rewrite SEL; cbn [bind] ].
      all: destruct (mapM_rev_of G M LD WF (filter f kids)) as (rs & -> & E2 & E3);
           [ intros x Hx; apply filter_In in Hx as [Hx _]; auto | ];
           cbn [bind]; f_equal; rewrite <- E2, map_map; apply map_ext_in; intros r Hr; unfold wfind;
           rewrite (find_rev_NoDup G r ND (E3 r Hr)); reflexivity. }
    rewrite STEP. cbn [bind].
    destruct (filter f kids) as [|c [|c2 t]] eqn:FK; cbn [map].
    + reflexivity.
    + assert (Hc : In c (ids G)).
      { apply Hk. assert (In c (filter f kids)) by (rewrite FK; left; auto). apply filter_In in H; tauto. }
      specialize (IH (Some c)). cbn [wstart] in IH. apply IH. intros x E; inversion E; subst; auto.
    + reflexivity.
Qed.

(* ------------------------------------------------------------------ "only documented errors" *)
Definition doc_res {A} (r:res A) : Prop := match r with Ok _ => True | Err e => doc_err e end.

Lemma lookup_key_some {A} k (l:list (str*A)) : In k (map fst l) -> lookup k l <> None.
Proof. intros H E. apply lookup_None in E. tauto. Qed.
Lemma rev_of_key k x : lookup k (m_keys M) = Some x -> exists r, rev_of M x = Ok r /\ In r G.
Proof.
  intros E. apply (key_hit G M LD) in E as [[-> Hx]|(_ & r & F & _)].
  - apply in_map_iff in Hx as (r & <- & Hr). exists r. split; auto. apply (rev_of_id G M LD ND r Hr).
  - exists r. split; [apply rev_of_find; auto | apply find_rev_In in F; tauto].
Qed.
Lemma rfi0_doc t : t <> [] -> doc_res (revision_for_ident0 M (Some t)) /\
  (forall o, revision_for_ident0 M (Some t) = Ok o -> exists r, o = Some r /\ In r G).
Proof.
  intros NE. unfold revision_for_ident0. destruct (lookup t (m_keys M)) as [x|] eqn:E.
  - destruct (rev_of_key t x E) as (r & -> & Hr). cbn. split; auto. intros o Eo; inversion Eo; eauto.
  - destruct t as [|c t']; [congruence|].
    destruct (filter _ (map fst (m_keys M))) as [|k [|k2 tl]] eqn:F; cbn; try (split; [left; auto|discriminate]).
    assert (Hk : In k (map fst (m_keys M))).
    { assert (In k (filter (fun k => (3 <? length k) && startswith k (c :: t')) (map fst (m_keys M)))) by (rewrite F; left; auto).
      apply filter_In in H; tauto. }
    destruct (lookup k (m_keys M)) as [x|] eqn:Ek; [|exfalso; eapply lookup_key_some; eauto].
    destruct (rev_of_key k x Ek) as (r & -> & Hr). cbn. split; auto. intros o Eo; inversion Eo; eauto.
Qed.
Lemma key_nonempty k : (forall r l, In r G -> In l (s_labels r) -> l <> []) -> In k (map fst (m_keys M)) -> k <> [].
Proof.
  intros LN Hk. apply (keys_fst G M LD) in Hk as [Hk|(_ & r & Hr & Hl)]; [|eauto].
  pose proof WF as (_ & _ & LG). destruct (LG k Hk); auto.
Qed.
Lemma filterM_doc {A} (f:A -> res bool) l : (forall a, In a l -> doc_res (f a)) -> doc_res (filterM f l).
Proof.
  induction l as [|a l IH]; intros H; cbn; auto.
  pose proof (H a (or_introl eq_refl)) as Ha. destruct (f a); cbn; auto.
  assert (IH' : doc_res (filterM f l)) by (apply IH; intros; apply H; right; auto). destruct (filterM f l); cbn; auto.
Qed.
Lemma mapM_doc {A B} (f:A -> res B) l : (forall a, In a l -> doc_res (f a)) -> doc_res (mapM f l).
Proof.
  induction l as [|a l IH]; intros H; cbn; auto.
  pose proof (H a (or_introl eq_refl)) as Ha. destruct (f a); cbn; auto.
  assert (IH' : doc_res (mapM f l)) by (apply IH; intros; apply H; right; auto). destruct (mapM f l); cbn; auto.
Qed.

Hypothesis LN : forall r l, In r G -> In l (s_labels r) -> l <> [].

Lemma sl_doc t L : t <> [] -> L <> [] -> doc_res (shares_lineage M t [L]).
Proof.
  intros Nt NL. unfold shares_lineage. destruct (rfi0_doc t Nt) as [D1 S1].
  destruct (revision_for_ident0 M (Some t)) as [o|e]; cbn [bind]; auto.
  destruct (S1 o eq_refl) as (r & -> & Hr). cbn [mapM].
  destruct (rfi0_doc L NL) as [D2 S2]. destruct (revision_for_ident0 M (Some L)) as [o2|e2]; cbn; auto.
Qed.
Lemma rfi_doc t lbl : t <> [] -> lbl_ok lbl -> doc_res (revision_for_ident M (Some t) lbl).
Proof.
  intros Nt HL. destruct lbl as [L|]; [|apply rfi0_doc; auto].
  destruct HL as (PL & NL & WL). unfold revision_for_ident. destruct NL as [NEL NL'].
  destruct L as [|c0 L0]; [congruence|]. cbn [nonempty]. set (L := c0 :: L0) in *.
  destruct (rfi0_doc L NEL) as [D1 S1]. destruct (revision_for_ident0 M (Some L)) as [o|e]; cbn [bind]; auto.
  destruct (S1 o eq_refl) as (br & -> & Hbr).
  assert (Fin : forall k x, lookup k (m_keys M) = Some x ->
           doc_res (revision <- (r <- rev_of M x ;; Ok (Some r)) ;;
                    match revision with
                    | Some r => ok <- shares_lineage M (s_id r) [s_id br] ;; (if ok then Ok (Some r) else Err EResolution)
                    | None => Ok None end)).
  { intros k x Ek. destruct (rev_of_key k x Ek) as (r & -> & Hr). cbn [bind].
    destruct (shares_lineage_ids G M rk LD WF RK r br Hr Hbr) as (v & -> & _). cbn [bind]. destruct v; cbn; auto. left; auto. }
  destruct (lookup t (m_keys M)) as [x|] eqn:E; [eapply Fin; eauto|].
  destruct t as [|c t']; [congruence|].
  set (cs := filter (fun k => (3 <? length k) && startswith k (c :: t')) (map fst (m_keys M))).
  assert (DF : doc_res (filter_for_lineage M cs L)).
  { unfold filter_for_lineage. rewrite (rrn_plain M L PL). cbn [bind fst snd app]. apply filterM_doc.
    intros k Hk. apply sl_doc; auto. apply key_nonempty; auto. unfold cs in Hk. apply filter_In in Hk; tauto. }
  pose proof (fun revs => filterM_In (fun t0 => shares_lineage M t0 [L]) cs revs) as FI.
  unfold filter_for_lineage in DF |- *. rewrite (rrn_plain M L PL) in DF |- *. cbn [bind fst snd app] in DF |- *.
  destruct (filterM (fun t0 => shares_lineage M t0 [L]) cs) as [revs|e] eqn:EF; cbn [bind]; auto.
  destruct revs as [|k [|k2 tl]]; cbn; try (left; reflexivity).
  assert (Hk : In k (map fst (m_keys M))).
  { destruct (FI _ eq_refl k (or_introl eq_refl)) as [Hk _]. unfold cs in Hk. apply filter_In in Hk; tauto. }
  destruct (lookup k (m_keys M)) as [x|] eqn:Ek; [|exfalso; eapply lookup_key_some; eauto].
  eapply Fin; eauto.
Qed.

(* ------------------------------------------------------------------ a string with a sign is never an identifier *)
Hypothesis LWd : forall r l, In r G -> In l (s_labels r) -> word l.

Lemma key_nosign k c : In k (map fst (m_keys M)) -> In c k -> is_sign c = false.
Proof.
  intros Hk Hc. apply (keys_fst G M LD) in Hk as [Hk|(_ & r & Hr & Hl)].
  - pose proof WF as (_ & _ & LG). destruct (LG k Hk) as (_ & H & _). destruct (H c Hc) as (_ & H2 & H3).
    unfold is_sign. apply N.eqb_neq in H2, H3. rewrite H2, H3. reflexivity.
  - pose proof (LWd r k Hr Hl) as W. unfold word in W. rewrite forallb_forall in W. apply word_not_special. auto.
Qed.
Lemma sign_miss t c : In c t -> is_sign c = true ->
  lookup t (m_keys M) = None /\ filter (fun k => (3 <? length k) && startswith k t) (map fst (m_keys M)) = [].
Proof.
  intros Hc Hs. split.
  - destruct (lookup t (m_keys M)) as [v|] eqn:E; auto. exfalso. apply lookup_In in E.
    assert (Hk : In t (map fst (m_keys M))) by (apply in_map_iff; exists (t, v); auto).
    rewrite (key_nosign t c Hk Hc) in Hs. discriminate.
  - destruct (filter _ (map fst (m_keys M))) as [|k tl] eqn:F; auto. exfalso.
    assert (Hk : In k (filter (fun k => (3 <? length k) && startswith k t) (map fst (m_keys M)))) by (rewrite F; left; auto).
    apply filter_In in Hk as [Hk Hsw]. apply andb_true_iff in Hsw as [_ Hsw]. apply startswith_app in Hsw as (r & ->).
    rewrite (key_nosign (t ++ r) c Hk (in_or_app _ _ _ (or_introl Hc))) in Hs. discriminate.
Qed.
Lemma rfi_sign t lbl c : In c t -> is_sign c = true -> lbl_ok lbl ->
  exists e, doc_err e /\ revision_for_ident M (Some t) lbl = Err e.
Proof.
  intros Hc Hs HL. destruct (sign_miss t c Hc Hs) as [E1 E2].
  assert (Nt : t <> []) by (intros ->; destruct Hc).
  destruct lbl as [L|].
  - destruct HL as (PL & NL & WL). unfold revision_for_ident. destruct NL as [NEL NL'].
    destruct L as [|c0 L0]; [congruence|]. cbn [nonempty]. set (L := c0 :: L0) in *.
    destruct (rfi0_doc L NEL) as [D1 S1]. destruct (revision_for_ident0 M (Some L)) as [o|e]; cbn [bind]; [|eauto].
    destruct (S1 o eq_refl) as (br & -> & Hbr). rewrite E1. destruct t as [|c1 t1]; [congruence|]. rewrite E2.
    unfold filter_for_lineage. rewrite (rrn_plain M L PL). cbn. exists EResolution. split; [left; auto|reflexivity].
  - unfold revision_for_ident, revision_for_ident0. rewrite E1. destruct t as [|c1 t1]; [congruence|]. rewrite E2.
    exists EResolution. split; [left; auto|reflexivity].
Qed.

Lemma digits_val_all ds : forall acc, forallb is_digit ds = true -> digits_val acc ds true = Some (digits_num acc ds).
Proof.
  induction ds as [|c r IH]; intros acc H; cbn [digits_val digits_num forallb] in *; [reflexivity|].
  apply andb_true_iff in H as [Hc Hr]. rewrite Hc. apply IH; auto.
Qed.
Lemma py_int_minus ds : digits ds -> py_int (c_minus :: ds) = Some (- digits_num 0 ds)%Z.
Proof.
  intros [NE Hd]. unfold py_int. rewrite N.eqb_refl. destruct ds as [|c r]; [congruence|].
  cbn [digits_val forallb] in *. apply andb_true_iff in Hd as [Hc Hr]. rewrite Hc. rewrite digits_val_all by auto. reflexivity.
Qed.
Lemma digits_num_nonneg ds : forall acc, (0 <= acc)%Z -> (0 <= digits_num acc ds)%Z.
Proof.
  induction ds as [|c r IH]; cbn [digits_num]; intros acc Ha; auto. apply IH. pose proof (N2Z.is_nonneg (c - 48)). lia.
Qed.

(* ------------------------------------------------------------------ helpers for the relative forms *)
Lemma dec_digits ds : forall a, dec_val a ds = digits_num a ds.
Proof. induction ds as [|c ds IH]; intros a; cbn [dec_val digits_num]; auto. rewrite IH. f_equal. lia. Qed.

Lemma sign_in_not_reserved t c : In c t -> is_sign c = true -> t <> s_head /\ t <> s_heads /\ t <> s_base.
Proof.
  intros Hc Hs. repeat split; intros ->; cbn in Hc;
    repeat (destruct Hc as [<-|Hc]; [vm_compute in Hs; discriminate|]); destruct Hc.
Qed.
Lemma rrn_rel lbl t c : has_at t = false -> In c t -> is_sign c = true -> lbl_ok lbl ->
  resolve_revision_number M (qstr lbl t) = Ok ([t], lbl).
Proof.
  intros NA Hc Hs HL. destruct (sign_in_not_reserved t c Hc Hs) as (N1 & N2 & N3). unfold qstr. destruct lbl as [L|].
  - destruct HL as (PL & _). pose proof PL as (NAL & _). unfold resolve_revision_number. rewrite split_at_join by auto.
    apply streqb_neq in N1, N2, N3. rewrite N1, N2, N3. reflexivity.
  - apply rrn_plain. repeat split; auto.
Qed.

Lemma r_up_ids f n : forall p y, (forall x, p = Some x -> In x (ids G)) -> r_up G n p f = Some (Some y) -> In y (ids G).
Proof.
  induction n as [|n IH]; intros p y Hp; cbn [r_up].
  - intros E; inversion E; subst. auto.
  - set (kids := match p with Some x => r_children G x | None => r_bases G end).
    destruct (filter f kids) as [|c [|c2 t]] eqn:FK; try discriminate.
    apply IH. intros x E; inversion E; subst.
    assert (H : In x (filter f kids)) by (rewrite FK; left; auto). apply filter_In in H as [H _].
    unfold kids in H. destruct p; [eapply nextrev_ids; eauto | apply r_bases_ids; auto].
Qed.
Lemma r_down_ids n : forall x y, In x (ids G) -> r_down G n (DRev x) = Some (DRev y) -> In y (ids G).
Proof.
  induction n as [|n IH]; intros x y Hx; cbn [r_down].
  - intros E; inversion E; subst; auto.
  - destruct (r_parents G x) as [|p [|p2 t]] eqn:P; try discriminate.
    + destruct n; cbn; discriminate.
    + apply IH. apply in_map_iff in Hx as (r & <- & Hr). apply (down_refs G WF r Hr).
      unfold r_parents, down_of in P. rewrite (find_rev_NoDup G r ND Hr) in P. rewrite P. left; auto.
Qed.
Lemma wfind_elem y : In y (ids G) -> elem_of_wpos (wfind y) = EId y /\ wfind y <> WNone /\ wfind y <> WBase.
Proof.
  intros Hy. apply in_map_iff in Hy as (r & <- & Hr). unfold wfind. rewrite (find_rev_NoDup G r ND Hr). cbn. repeat split; discriminate.
Qed.

Lemma walk_up_nobranch L n p : lbl_ok (Some L) -> r_name G L = None -> (forall x, p = Some x -> In x (ids G)) ->
  exists e, doc_err e /\ fin (walk_n M (S n) true (wstart p) (Some L) true) = Err e.
Proof.
  intros HL EN Hp. destruct HL as (PL & NL & WL).
  assert (NEL : nonempty L = true) by (destruct NL as [NEL _]; destruct L; [congruence|reflexivity]).
  set (kids := match p with Some x => r_children G x | None => r_bases G end).
  assert (Hk : forall x, In x kids -> In x (ids G)).
  { intros x Hx. unfold kids in Hx. destruct p; [eapply nextrev_ids; eauto | apply r_bases_ids; auto]. }
  assert (ST : exists w, wstart p = w /\ w <> WBase /\
            (match w with WRev r => nextrev (m_revs M) (s_id r) | _ => m_bases M end) = kids).
  { destruct p as [x|]; cbn [wstart].
    - specialize (Hp x eq_refl). apply in_map_iff in Hp as (r & <- & Hr). unfold wfind. rewrite (find_rev_NoDup G r ND Hr).
      eexists; split; [reflexivity|]. split; [discriminate|]. cbn. rewrite (ld_revs _ _ LD). reflexivity.
    - eexists; split; [reflexivity|]. split; [discriminate|]. cbn. apply bases_eq. }
  destruct ST as (w0 & -> & NB & EK). cbn [walk_n].
  destruct w0 as [r0| |]; [| |congruence]; rewrite EK.
  all: rewrite (get_ids_ids G M LD WF kids Hk); cbn [bind]; rewrite (mapM_opt_id_find G WF kids Hk); cbn [bind];
       rewrite NEL, (ffl_name kids L PL NL Hk); unfold ffl_ref; rewrite EN; destruct kids; cbn;
       [exists ERevision; split; [right; right; auto|reflexivity] | exists EResolution; split; [left; auto|reflexivity]].
Qed.

Lemma walk_down_raw bl n r : In r G -> doc_res (walk_n M n false (WRev r) bl true).
Proof.
  intros Hr. pose proof (walk_down_eq bl n r Hr) as E. destruct (walk_n M n false (WRev r) bl true) as [w|e]; cbn; auto.
  cbn in E. destruct (r_down G n (DRev (s_id r))) as [[y|]|]; inversion E. right; right; auto.
Qed.
Lemma walk_down_base_doc bl n : doc_res (walk_n M n false WNone bl true).
Proof.
  destruct n as [|n]; cbn [walk_n]; [exact I|].
  rewrite (get_ids_ids G M LD WF (m_heads M)) by (intros x Hx; eapply heads_ids; eauto). cbn [bind].
  destruct (map_find_wrev (m_heads M)) as (rs & -> & E2 & E3); [intros x Hx; eapply heads_ids; eauto|].
  destruct rs as [|r [|r2 t]]; cbn [map].
  - destruct n; cbn; exact I.
  - cbn [wpos_of_opt]. apply walk_down_raw. apply E3; left; auto.
  - cbn. right; right; auto.
Qed.

Lemma bind_fin {B} (r:res wpos) (k:wpos -> res B) :
  (w <- r ;; match w with WNone => Err ERevision | _ => k w end) = (w <- fin r ;; match w with WNone => Err ERevision | _ => k w end).
Proof. destruct r as [[| |]|]; reflexivity. Qed.

Lemma bind_fin3 {B} (r:res wpos) (kb:res B) (k:wpos -> res B) :
  (w <- r ;; match w with WNone => Err ERevision | WBase => kb | _ => k w end) =
  (w <- fin r ;; match w with WNone => Err ERevision | WBase => kb | _ => k w end).
Proof. destruct r as [[| |]|]; reflexivity. Qed.

Lemma agree_weaken x o : agree x o = true -> x <> XFree -> agree XLoose o = true.
Proof.
  destruct x, o; cbn; intros H N; auto; try discriminate; try congruence.
Qed.
Lemma agree_loose_obs {A} (r:res A) (f:A -> outcome) : (forall a, exists l e, f a = OK l e) -> doc_res r -> agree XLoose (observe r f) = true.
Proof.
  intros Hf D. destruct r as [a|e]; cbn [observe].
  - destruct (Hf a) as (l & e & ->). reflexivity.
  - apply agree_loose_fail; auto.
Qed.

(* ------------------------------------------------------------------ kernels: a walk from a resolved start *)
Definition up_body (lbl:option str) (st:res (option srev)) (n:nat) : res (list elem) :=
  s0 <- st ;; w <- walk_n M n true (wpos_of_opt s0) lbl true ;;
  match w with WNone => Err ERevision | _ => Ok [elem_of_wpos w] end.
Definition down_body (kb:list elem) (st:res (option srev)) (n:nat) : res (list elem) :=
  s0 <- st ;; w <- walk_n M n false (wpos_of_opt s0) None true ;;
  match w with WNone => Err ERevision | WBase => Ok kb | _ => Ok [elem_of_wpos w] end.

Lemma wstart_find o : wpos_of_opt (find_opt o) = wstart o.
Proof. destruct o; reflexivity. Qed.

Lemma up_kernel lbl lb0 s n outl : lbl_ok lbl -> lbl_ok lb0 -> sym_ok s -> n >= 1 ->
  agree (walk_up_from G (r_one G lb0 s) lbl n outl)
        (observe (up_body lbl (o <- one_res lb0 s ;; Ok (find_opt o)) n) (OK outl)) = true.
Proof.
  intros HL HL0 HS Hn. unfold up_body, walk_up_from. pose proof (one_res_spec lb0 s) as SP.
  destruct (one_res lb0 s) as [o|e] eqn:EO; cbn [bind observe].
  2:{ destruct SP as [-> D]. apply agree_fail; auto. }
  rewrite SP, wstart_find.
  assert (Ho : forall x, o = Some x -> In x (ids G)) by (eapply one_res_ids; eauto).
  rewrite (bind_fin (walk_n M n true (wstart o) lbl true) (fun w => Ok [elem_of_wpos w])).
  destruct (r_branch G lbl) as [f|] eqn:EB.
  - rewrite (walk_up_eq lbl f n HL EB o Ho).
    destruct (r_up G n o f) as [[y|]|] eqn:EU; cbn [bind observe up_result]; try (apply agree_fail; right; right; auto).
    destruct (wfind_elem y (r_up_ids f n o y Ho EU)) as (E1 & E2 & E3). rewrite E1.
    destruct (wfind y); try congruence. apply agree_ok.
  - destruct lbl as [L|]; [|discriminate]. unfold r_branch in EB. destruct (r_name G L) eqn:EN; [discriminate|].
    destruct n as [|n']; [lia|]. destruct (walk_up_nobranch L n' o HL EN Ho) as (e & D & ->). cbn [bind observe]. apply agree_fail; auto.
Qed.

Lemma down_kernel lbl s n (as_up:bool) outl : lbl_ok lbl -> sym_ok s ->
  agree (walk_down_from G (r_one G lbl s) n as_up outl)
        (observe (down_body (if as_up then [] else [EBaseS]) (o <- one_res lbl s ;; Ok (find_opt o)) n) (OK outl)) = true.
Proof.
  intros HL HS. unfold down_body, walk_down_from. pose proof (one_res_spec lbl s) as SP.
  destruct (one_res lbl s) as [o|e] eqn:EO; cbn [bind observe].
  2:{ destruct SP as [-> D]. apply agree_fail; auto. }
  rewrite SP, wstart_find.
  assert (Ho : forall x, o = Some x -> In x (ids G)) by (eapply one_res_ids; eauto).
  destruct o as [x|]; cbn [wstart].
  - specialize (Ho x eq_refl). apply in_map_iff in Ho as (r & <- & Hr). unfold wfind at 1. rewrite (find_rev_NoDup G r ND Hr). cbn [wpos_of_opt].
    rewrite (bind_fin3 (walk_n M n false (WRev r) None true) (Ok (if as_up then [] else [EBaseS])) (fun w => Ok [elem_of_wpos w])).
    rewrite (walk_down_eq None n r Hr).
    destruct (r_down G n (DRev (s_id r))) as [[y|]|] eqn:ED; cbn [bind observe].
    + destruct (wfind_elem y (r_down_ids n (s_id r) y (in_map s_id _ _ Hr) ED)) as (E1 & E2 & E3). rewrite E1.
      destruct (wfind y); try congruence. apply agree_ok.
    + destruct as_up; apply agree_ok.
    + apply agree_fail. right; right; auto.
  - destruct n as [|n'].
    + cbn. reflexivity.
    + apply agree_loose_obs; [intros a; eauto|].
      pose proof (walk_down_base_doc None (S n')) as D. destruct (walk_n M (S n') false WNone None true) as [w|e]; cbn [bind]; auto.
      destruct w; cbn; auto. right; right; auto.
Qed.

(* ------------------------------------------------------------------ a relative identifier with a symbol *)
Lemma has_at_false t : (forall c, In c t -> c <> c_at) -> has_at t = false.
Proof.
  intros H. unfold has_at. destruct (existsb (N.eqb c_at) t) eqn:E; auto. apply existsb_exists in E as (c & Hc & E).
  apply N.eqb_eq in E. subst c. exfalso. eapply H; eauto.
Qed.
Lemma rel_noat w sg ds : word w -> is_sign sg = true -> digits ds -> has_at (w ++ sg :: ds) = false.
Proof.
  intros Hw Hs [_ Hd]. apply has_at_false. intros c Hc. apply in_app_or in Hc as [Hc|[<-|Hc]].
  - apply (word_chars w Hw c Hc).
  - intros ->. vm_compute in Hs. discriminate.
  - rewrite forallb_forall in Hd. specialize (Hd c Hc). intros ->. vm_compute in Hd. discriminate.
Qed.

Lemma revs_doc q t lbl : resolve_revision_number M q = Ok ([t], lbl) -> t <> [] -> lbl_ok lbl -> doc_res (get_revisions M q).
Proof.
  intros RR Nt HL. unfold get_revisions. rewrite RR. cbn [bind fst snd].
  assert (Normal : doc_res (rs <- mapM (fun x => revision_for_ident M (Some x) lbl) [t] ;; Ok (map elem_of_opt rs))).
  { cbn [mapM]. pose proof (rfi_doc t lbl Nt HL) as D. destruct (revision_for_ident M (Some t) lbl); cbn; auto. }
  destruct (py_int t) as [z|] eqn:P; [|exact Normal]. destruct (z <? 0)%Z eqn:Z0; [|exact Normal].
  assert (HR : forall h, In h (m_real_heads M) -> In h (ids G)) by (intros h Hh; eapply real_heads_ids; eauto).
  destruct (rfi_ids G M LD WF (m_real_heads M) HR) as [E1 _]. rewrite E1. cbn [bind].
  rewrite (mapM_opt_id_find G WF (m_real_heads M) HR). cbn [bind].
  set (sel := match lbl with Some b => filter (fun h => mems b (labels_get (m_blabels M) h)) (m_real_heads M) | None => m_real_heads M end).
  assert (HS : forall h, In h sel -> In h (ids G)).
  { intros h Hh. unfold sel in Hh. destruct lbl; [apply filter_In in Hh as [Hh _]|]; auto. }
  assert (D : doc_res (mapM (fun h => r <- rev_of M h ;; walk M (WRev r) z None true) sel)).
  { apply mapM_doc. intros h Hh. apply HS in Hh. apply in_map_iff in Hh as (r & <- & Hr).
    rewrite (rev_of_id G M LD ND r Hr). cbn [bind]. unfold walk. apply Z.ltb_lt in Z0.
    assert (E : (0 <? z)%Z = false) by (apply Z.ltb_ge; lia). rewrite E. apply walk_down_raw; auto. }
  destruct (mapM _ sel); cbn; auto.
Qed.

Lemma obs_pair_up (r:res wpos) l :
  observe (w <- r ;; match w with WNone => Err ERevision | _ => Ok (l, elem_of_wpos w) end) (fun p => OK (fst p) [snd p]) =
  observe (w <- r ;; match w with WNone => Err ERevision | _ => Ok [elem_of_wpos w] end) (OK l).
Proof. destruct r as [[| |]|]; reflexivity. Qed.
Lemma obs_pair_down (r:res wpos) l :
  observe (w <- r ;; match w with WNone => Err ERevision | _ => Ok (l, elem_of_wpos w) end) (fun p => OK (fst p) [snd p]) =
  observe (w <- r ;; match w with WNone => Err ERevision | WBase => Ok [EBaseS] | _ => Ok [elem_of_wpos w] end) (OK l).
Proof. destruct r as [[| |]|]; reflexivity. Qed.

Definition rel_z (sg:N) (ds:str) : Z := if N.eqb sg c_minus then (- dec_val 0 ds)%Z else dec_val 0 ds.
Lemma rel_z_val sg ds : rel_val sg ds = rel_z sg ds.
Proof. unfold rel_val, rel_z. rewrite dec_digits. reflexivity. Qed.

Lemma rel_common lbl w sg ds cur : word w -> is_sign sg = true -> digits ds -> lbl_ok lbl ->
  let i := mkIdent lbl (match w with [] => None | _ => Some (classify_word w) end) (Some (rel_z sg ds)) in
  let ob := run_query (Ok M) cur (qstr lbl (w ++ sg :: ds)) in
  agree (ref_revs G i) (o_revs ob) = true /\ agree (ref_rev G i) (o_rev ob) = true /\ agree (ref_num G i) (o_num ob) = true.
Proof.
  intros Hw Hs Hd HL i ob. set (t := w ++ sg :: ds).
  assert (NA : has_at t = false) by (apply rel_noat; auto).
  assert (Hc : In sg t) by (apply in_or_app; right; left; auto).
  assert (Nt : t <> []) by (unfold t; destruct w; discriminate).
  pose proof (rrn_rel lbl t sg NA Hc Hs HL) as RR.
  destruct (rfi_sign t lbl sg Hc Hs HL) as (e & De & Ee).
  assert (X3 : ref_num G i = XLoose) by reflexivity.
  assert (X2 : ref_rev G i = XFail) by (unfold ref_rev, i; cbn [i_rel i_sym]; destruct w; reflexivity).
  rewrite X2, X3. unfold ob, run_query. cbn [bind o_revs o_rev o_num]. fold t. repeat split.
  - (* get_revisions *)
    destruct (match w with [] => (rel_z sg ds <? 0)%Z | _ => false end) eqn:NEG.
    + assert (X1 : ref_revs G i = XLoose) by (unfold ref_revs, i; cbn [i_rel i_sym]; destruct w; [rewrite NEG; reflexivity|discriminate]).
      rewrite X1. apply agree_loose_obs; [intros a; eauto|]. eapply revs_doc; eauto.
    + assert (X1 : ref_revs G i = XFail) by (unfold ref_revs, i; cbn [i_rel i_sym]; destruct w; [rewrite NEG; reflexivity|reflexivity]).
      rewrite X1.
      assert (NN : forall z, py_int t = Some z -> (z <? 0)%Z = false).
      { intros z P. destruct (z <? 0)%Z eqn:Z0; auto. exfalso. destruct (py_int_neg _ _ P Z0) as (r & Et).
        unfold t in Et, P. destruct w as [|c0 w0]; cbn [app] in Et, P.
        - inversion Et; subst sg r. rewrite (py_int_minus ds Hd) in P. inversion P; subst z.
          unfold rel_z in NEG. change (N.eqb c_minus c_minus) with true in NEG. rewrite dec_digits in NEG. congruence.
        - inversion Et; subst c0. unfold word in Hw. cbn in Hw. discriminate. }
      unfold get_revisions. rewrite RR. cbn [bind fst snd].
      assert (Normal : (rs <- mapM (fun x => revision_for_ident M (Some x) lbl) [t] ;; Ok (map elem_of_opt rs)) = Err e)
        by (cbn [mapM]; rewrite Ee; reflexivity).
      destruct (py_int t) as [z|] eqn:P; [rewrite (NN z eq_refl)|]; rewrite Normal; cbn [observe]; apply agree_fail; auto.
  - unfold get_revision. rewrite RR. cbn [bind fst snd]. rewrite Ee. cbn [observe]. apply agree_fail; auto.
  - unfold as_revision_number. rewrite RR. cbn [bind fst snd observe]. destruct (streqb (qstr lbl t) s_heads); reflexivity.
Qed.

Lemma rel_sym_query lbl w sg ds cur : word w -> w <> [] -> is_sign sg = true -> digits ds -> lbl_ok lbl ->
  sym_ok (classify_word w) ->
  let i := mkIdent lbl (Some (classify_word w)) (Some (rel_z sg ds)) in
  let ob := run_query (Ok M) cur (qstr lbl (w ++ sg :: ds)) in
  agree (ref_up G cur i) (o_up ob) = true /\ agree (ref_down G cur i) (o_down ob) = true.
Proof.
  intros Hw NE Hs Hd HL HS i ob. set (s := classify_word w) in *. set (z := rel_z sg ds) in *.
  assert (RD : relative_destination (qstr lbl (w ++ sg :: ds)) = Some (lbl, Some w, z)).
  { destruct regex_char as (_ & _ & R3 & R4). unfold qstr, z. rewrite <- rel_z_val.
    assert (OW : opt_word w = Some w) by (destruct w; [congruence|reflexivity]).
    destruct lbl as [L|].
    - destruct HL as (_ & [NEL _] & WL). unfold at_join. rewrite R4, OW; auto.
    - rewrite R3, OW; auto. }
  assert (OR : forall lbl', lbl_ok lbl' -> get_revision M (qstr lbl' w) = (o <- one_res lbl' s ;; Ok (find_opt o)))
    by (intros; apply get_revision_abs; auto).
  pose proof (OR None I) as ORN. change (qstr None w) with w in ORN.
  assert (ORL : get_revision M (match lbl with None => w | Some b => at_join b w end) = (o <- one_res lbl s ;; Ok (find_opt o))).
  { rewrite <- (OR lbl HL). destruct lbl; reflexivity. }
  unfold ob, run_query. cbn [bind o_up o_down]. split.
  - (* upgrade *)
    unfold parse_upgrade_target. rewrite RD. unfold ref_up. cbn [i_rel i_sym i_lbl i]. fold s. fold z.
    destruct (0 <? z)%Z eqn:Zp.
    + assert (Hn : Z.abs_nat z >= 1) by (apply Z.ltb_lt in Zp; lia).
      assert (K := up_kernel lbl None s (Z.abs_nat z) None HL I HS Hn). unfold up_body in K.
      unfold walk. rewrite Zp, ORN.
      destruct s; try exact K. eapply agree_weaken; [exact K|]. unfold walk_up_from.
      destruct (r_one G None RHeads) as [o|]; [|discriminate]. destruct (r_branch G lbl); [|discriminate].
      unfold up_result. destruct (r_up G (Z.abs_nat z) o b) as [[y|]|]; discriminate.
    + assert (K := down_kernel lbl s (Z.abs_nat z) true None HL HS). unfold down_body in K.
      unfold walk. rewrite Zp, ORL.
      destruct s; try exact K. eapply agree_weaken; [exact K|]. unfold walk_down_from.
      destruct (r_one G lbl RHeads) as [[x|]|]; try discriminate.
      * destruct (r_down G (Z.abs_nat z) (DRev x)) as [[y|]|]; discriminate.
      * destruct (Z.abs_nat z); discriminate.
  - (* downgrade *)
    unfold parse_downgrade_target. rewrite RD. unfold ref_down. cbn [i_rel i_sym i_lbl i]. fold s. fold z.
    destruct (0 <=? z)%Z eqn:Zn.
    + unfold walk. rewrite ORN.
      destruct (0 <? z)%Z eqn:Zp.
      * assert (Hn : Z.abs_nat z >= 1) by (apply Z.ltb_lt in Zp; lia).
        assert (K := up_kernel lbl None s (Z.abs_nat z) lbl HL I HS Hn). unfold up_body in K.
        assert (E : observe (st <- (o <- one_res None s ;; Ok (find_opt o)) ;;
                            w0 <- walk_n M (Z.abs_nat z) true (wpos_of_opt st) lbl true ;;
                            match w0 with WNone => Err ERevision | _ => Ok (lbl, elem_of_wpos w0) end) (fun p => OK (fst p) [snd p]) =
                   observe (s0 <- (o <- one_res None s ;; Ok (find_opt o)) ;;
                            w0 <- walk_n M (Z.abs_nat z) true (wpos_of_opt s0) lbl true ;;
                            match w0 with WNone => Err ERevision | _ => Ok [elem_of_wpos w0] end) (OK lbl)).
        { destruct (one_res None s) as [o|e]; cbn [bind]; [apply obs_pair_up | reflexivity]. }
        rewrite E. destruct s; try exact K. eapply agree_weaken; [exact K|]. unfold walk_up_from.
        destruct (r_one G None RHeads) as [o|]; [|discriminate]. destruct (r_branch G lbl); [|discriminate].
        unfold up_result. destruct (r_up G (Z.abs_nat z) o b) as [[y|]|]; discriminate.
      * assert (Z0 : z = 0%Z) by (apply Z.leb_le in Zn; apply Z.ltb_ge in Zp; lia). rewrite Z0. cbn [Z.abs_nat walk_n Z.eqb].
        assert (X : agree (match r_one G None s with Some (Some x) => XOK lbl [EId x] | _ => XFail end)
                      (observe (st <- (o <- one_res None s ;; Ok (find_opt o)) ;; w0 <- Ok (wpos_of_opt st) ;;
                                match w0 with WNone => Err ERevision | _ => Ok (lbl, elem_of_wpos w0) end) (fun p => OK (fst p) [snd p])) = true).
        { pose proof (one_res_spec None s) as SP. destruct (one_res None s) as [o|e] eqn:EO; cbn [bind].
          - rewrite SP. destruct o as [x|]; cbn [find_opt].
            + assert (Hx : In x (ids G)) by (eapply (one_res_ids None s); eauto; exact I).
              apply in_map_iff in Hx as (r & <- & Hr). rewrite (find_rev_NoDup G r ND Hr).
              cbn [bind wpos_of_opt observe elem_of_wpos fst snd]. apply agree_ok.
            + cbn [bind wpos_of_opt observe]. reflexivity.
          - destruct SP as [-> D]. cbn [observe]. apply agree_fail; auto. }
        destruct s; try exact X. eapply agree_weaken; [exact X|]. destruct (r_one G None RHeads) as [[x|]|]; discriminate.
    + assert (Zp : (0 <? z)%Z = false) by (apply Z.leb_gt in Zn; apply Z.ltb_ge; lia).
      assert (Zz : (z =? 0)%Z = false) by (apply Z.leb_gt in Zn; apply Z.eqb_neq; lia).
      rewrite Zp, Zz. cbn [bind fst snd]. unfold walk. rewrite Zp, ORL.
      assert (K := down_kernel lbl s (Z.abs_nat z) false lbl HL HS). unfold down_body in K.
      assert (E : observe (st <- (o <- one_res lbl s ;; Ok (find_opt o)) ;;
                          w0 <- walk_n M (Z.abs_nat z) false (wpos_of_opt st) None true ;;
                          match w0 with WNone => Err ERevision | _ => Ok (lbl, elem_of_wpos w0) end) (fun p => OK (fst p) [snd p]) =
                 observe (s0 <- (o <- one_res lbl s ;; Ok (find_opt o)) ;;
                          w0 <- walk_n M (Z.abs_nat z) false (wpos_of_opt s0) None true ;;
                          match w0 with WNone => Err ERevision | WBase => Ok [EBaseS] | _ => Ok [elem_of_wpos w0] end) (OK lbl)).
      { destruct (one_res lbl s) as [o|e]; cbn [bind]; [apply obs_pair_down | reflexivity]. }
      rewrite E. destruct s; try exact K. eapply agree_weaken; [exact K|]. unfold walk_down_from.
      destruct (r_one G lbl RHeads) as [[x|]|]; try discriminate.
      * destruct (r_down G (Z.abs_nat z) (DRev x)) as [[y|]|]; discriminate.
      * destruct (Z.abs_nat z); discriminate.
Qed.

(* ------------------------------------------------------------------ relative to the current revisions *)
Lemma up_kernel_p lbl p n outl : lbl_ok lbl -> (forall x, p = Some x -> In x (ids G)) -> n >= 1 ->
  agree (walk_up_from G (Some p) lbl n outl)
        (observe (w <- walk_n M n true (wstart p) lbl true ;; match w with WNone => Err ERevision | _ => Ok [elem_of_wpos w] end) (OK outl)) = true.
Proof.
  intros HL Ho Hn. unfold walk_up_from.
  rewrite (bind_fin (walk_n M n true (wstart p) lbl true) (fun w => Ok [elem_of_wpos w])).
  destruct (r_branch G lbl) as [f|] eqn:EB.
  - rewrite (walk_up_eq lbl f n HL EB p Ho).
    destruct (r_up G n p f) as [[y|]|] eqn:EU; cbn [bind observe up_result]; try (apply agree_fail; right; right; auto).
    destruct (wfind_elem y (r_up_ids f n p y Ho EU)) as (E1 & E2 & E3). rewrite E1.
    destruct (wfind y); try congruence. apply agree_ok.
  - destruct lbl as [L|]; [|discriminate]. unfold r_branch in EB. destruct (r_name G L) eqn:EN; [discriminate|].
    destruct n as [|n']; [lia|]. destruct (walk_up_nobranch L n' p HL EN Ho) as (e & D & ->). cbn [bind observe]. apply agree_fail; auto.
Qed.

Definition cur_ok (cur:list str) : Prop := forall c, In c cur -> In c (ids G) /\ word c.
Lemma cur_name c : In c (ids G) -> word c ->
  name_ok c /\ plain c /\ classify_word c = RName c /\ c <> [] /\ r_one G None (RName c) = Some (Some c).
Proof.
  intros Hc Hw. pose proof WF as (_ & _ & LG). pose proof (LG c Hc) as L. pose proof (legal_plain c L) as PL.
  destruct L as (NE & _ & N1 & N2 & N3).
  assert (Hm : mems c (ids G) = true) by (apply mems_In; auto).
  split; [split; [exact NE | left; exact Hm]|]. split; [exact PL|].
  split; [unfold classify_word; apply streqb_neq in N1, N2, N3; rewrite N1, N2, N3; reflexivity|].
  split; [exact NE|]. unfold r_one, r_abs, r_branch, r_name_in. rewrite Hm. reflexivity.
Qed.

Lemma get_all_current_nil : get_all_current M [] = Ok [].
Proof. reflexivity. Qed.

Lemma nosym_query lbl sg ds cur : is_sign sg = true -> digits ds -> lbl_ok lbl -> cur_ok cur ->
  (forall L, lbl = Some L -> (0 < rel_z sg ds)%Z -> cur = []) ->
  (forall L b, lbl = Some L -> (rel_z sg ds < 0)%Z -> r_name G L = Some b -> cur = [] \/ filter (r_lineage G b) cur <> []) ->
  let i := mkIdent lbl None (Some (rel_z sg ds)) in
  let ob := run_query (Ok M) cur (qstr lbl (sg :: ds)) in
  agree (ref_up G cur i) (o_up ob) = true /\ agree (ref_down G cur i) (o_down ob) = true.
Proof.
  intros Hs Hd HL HC CU CD i ob. set (z := rel_z sg ds) in *.
  assert (RD : relative_destination (qstr lbl (sg :: ds)) = Some (lbl, None, z)).
  { destruct regex_char as (_ & _ & R3 & R4). unfold qstr, z. rewrite <- rel_z_val. destruct lbl as [L|].
    - destruct HL as (_ & [NEL _] & WL). unfold at_join. apply (R4 L [] sg ds); auto. reflexivity.
    - apply (R3 [] sg ds); auto. reflexivity. }
  unfold ob, run_query. cbn [bind o_up o_down]. split.
  - (* upgrade *)
    unfold parse_upgrade_target. rewrite RD. unfold ref_up. cbn [i_rel i_sym i_lbl i]. fold z.
    destruct (0 <? z)%Z eqn:Zp; [|cbn; reflexivity].
    assert (Hn : Z.abs_nat z >= 1) by (apply Z.ltb_lt in Zp; lia).
    destruct lbl as [L|].
    + assert (Ec : cur = []) by (apply (CU L eq_refl); apply Z.ltb_lt; auto). subst cur.
      destruct HL as (PL & NL & WL).
      assert (F0 : filter_for_lineage M [] L = Ok []) by (unfold filter_for_lineage; rewrite (rrn_plain M L PL); reflexivity).
      cbn [get_ids mapM bind concat]. rewrite F0. cbn [bind].
      assert (A0 : dedupes (ancestors_dep M []) = []) by reflexivity. rewrite A0, F0. cbn [bind flat_map filter].
      unfold walk. rewrite Zp.
      assert (K := up_kernel_p (Some L) None (Z.abs_nat z) None (conj PL (conj NL WL)) (fun x E => ltac:(discriminate)) Hn).
      cbn [wstart] in K.
      destruct (r_name G L) as [b|] eqn:EN.
      * assert (RC : r_consistent G [] = true) by reflexivity. rewrite RC.
        assert (RT : r_branch_tips G b [] = []) by reflexivity. rewrite RT. exact K.
      * unfold walk_up_from, r_branch in K. rewrite EN in K. exact K.
    + destruct cur as [|c [|c2 t]].
      * unfold walk. rewrite Zp.
        exact (up_kernel_p None None (Z.abs_nat z) None I (fun x E => ltac:(discriminate)) Hn).
      * destruct (HC c (or_introl eq_refl)) as [Hc Hwc]. destruct (cur_name c Hc Hwc) as (NC & PC & CC & NEc & RO1).
        apply in_map_iff in Hc as (rc & <- & Hrc).
        pose proof WF as (_ & _ & LG). rewrite (full_id G M LD ND rc Hrc (LG _ (in_map s_id _ _ Hrc))). cbn [bind wpos_of_opt].
        unfold walk. rewrite Zp. rewrite CC, RO1.
        assert (K := up_kernel_p None (Some (s_id rc)) (Z.abs_nat z) None I
                       (fun x E => ltac:(inversion E; subst; apply in_map; auto)) Hn).
        cbn [wstart] in K. unfold wfind in K. rewrite (find_rev_NoDup G rc ND Hrc) in K. exact K.
      * cbn. reflexivity.
  - (* downgrade *)
    unfold parse_downgrade_target. rewrite RD. unfold ref_down. cbn [i_rel i_sym i_lbl i]. fold z.
    destruct (0 <=? z)%Z eqn:Zn.
    { assert (Zl : (z <? 0)%Z = false) by (apply Z.leb_le in Zn; apply Z.ltb_ge; lia). rewrite Zl. cbn. reflexivity. }
    assert (Zl : (z <? 0)%Z = true) by (apply Z.leb_gt in Zn; apply Z.ltb_lt; lia). rewrite Zl.
    assert (Zp : (0 <? z)%Z = false) by (apply Z.leb_gt in Zn; apply Z.ltb_ge; lia).
    assert (Finish : forall (Lb c:str), lbl_ok (Some Lb) -> In c (ids G) -> word c ->
              agree (walk_down_from G (r_one G (Some Lb) (classify_word c)) (Z.abs_nat z) false (Some Lb))
                (observe (st <- get_revision M (at_join Lb c) ;; w <- walk M (wpos_of_opt st) z None true ;;
                          match w with WNone => Err ERevision | _ => Ok (Some Lb, elem_of_wpos w) end) (fun p => OK (fst p) [snd p])) = true).
    { intros Lb c HLb Hc Hwc. destruct (cur_name c Hc Hwc) as (NC & PC & CC & NEc & _).
      assert (HSc : sym_ok (classify_word c)) by (rewrite CC; exact NC).
      pose proof (get_revision_abs (Some Lb) c Hwc NEc HLb HSc) as OR. cbn [qstr] in OR. rewrite OR.
      unfold walk. rewrite Zp.
      assert (K := down_kernel (Some Lb) (classify_word c) (Z.abs_nat z) false (Some Lb) HLb HSc). unfold down_body in K.
      destruct (one_res (Some Lb) (classify_word c)) as [o|e]; cbn [bind] in K |- *; [rewrite obs_pair_down; exact K | exact K]. }
    destruct lbl as [L|].
    + destruct HL as (PL & NL & WL).
      assert (HCi : forall t0, In t0 cur -> In t0 (ids G)) by (intros t0 Ht; apply HC; auto).
      rewrite (ffl_name cur L PL NL HCi). unfold ffl_ref.
      destruct (r_name G L) as [b|] eqn:EN.
      * assert (SL : (match cur with [] => Ok [] | _ :: _ => Ok (filter (r_lineage G b) cur) end) = Ok (filter (r_lineage G b) cur))
          by (destruct cur; reflexivity).
        rewrite SL. cbn [bind].
        destruct (filter (r_lineage G b) cur) as [|c [|c2 t]] eqn:FC.
        -- destruct (CD L b eq_refl ltac:(apply Z.ltb_lt; auto) EN) as [->|NEf]; [|congruence].
           rewrite get_all_current_nil. cbn [bind].
           assert (F0 : filter_for_lineage M [] L = Ok []) by (unfold filter_for_lineage; rewrite (rrn_plain M L PL); reflexivity).
           rewrite F0. cbn. reflexivity.
        -- cbn [bind fst snd].
           assert (Hc : In c (filter (r_lineage G b) cur)) by (rewrite FC; left; auto). apply filter_In in Hc as [Hc _].
           destruct (HC c Hc) as [Hci Hwc]. apply (Finish L c (conj PL (conj NL WL)) Hci Hwc).
        -- cbn. reflexivity.
      * destruct cur as [|c t]; cbn [bind].
        -- rewrite get_all_current_nil. cbn [bind].
           assert (F0 : filter_for_lineage M [] L = Ok []) by (unfold filter_for_lineage; rewrite (rrn_plain M L PL); reflexivity).
           rewrite F0. cbn. reflexivity.
        -- cbn. reflexivity.
    + destruct cur as [|c t]; [cbn; reflexivity|]. cbn [bind fst snd].
      destruct (HC c (or_introl eq_refl)) as [Hci Hwc]. destruct (cur_name c Hci Hwc) as (NC & PC & CC & NEc & _).
      apply (Finish c c (conj PC (conj NC Hwc)) Hci Hwc).
Qed.
End All.

(* ====================================================================== the booleans of the class *)
Lemma nodups_NoDup l : nodups l = true -> NoDup l.
Proof.
  induction l as [|a l IH]; cbn; [constructor|]. intros H. apply andb_true_iff in H as [H1 H2].
  constructor; auto. apply negb_true_iff in H1. apply mems_nIn in H1. exact H1.
Qed.
Lemma legalb_legal x : legalb x = true -> legal_id x.
Proof.
  unfold legalb. rewrite !andb_true_iff. intros [[H1 H2] H3]. repeat split.
  - destruct x; [discriminate|discriminate].
  - rewrite forallb_forall in H2. specialize (H2 c H). apply negb_true_iff in H2. apply orb_false_iff in H2 as [H2 _].
    apply orb_false_iff in H2 as [H2 _]. apply N.eqb_neq in H2. exact H2.
  - rewrite forallb_forall in H2. specialize (H2 c H). apply negb_true_iff in H2. apply orb_false_iff in H2 as [H2 _].
    apply orb_false_iff in H2 as [_ H2]. apply N.eqb_neq in H2. exact H2.
  - rewrite forallb_forall in H2. specialize (H2 c H). apply negb_true_iff in H2. apply orb_false_iff in H2 as [_ H2].
    apply N.eqb_neq in H2. exact H2.
  - apply negb_true_iff in H3. apply orb_false_iff in H3 as [H3 _]. apply orb_false_iff in H3 as [H3 _]. apply streqb_neq; auto.
  - apply negb_true_iff in H3. apply orb_false_iff in H3 as [H3 _]. apply orb_false_iff in H3 as [_ H3]. apply streqb_neq; auto.
  - apply negb_true_iff in H3. apply orb_false_iff in H3 as [_ H3]. apply streqb_neq; auto.
Qed.
Lemma wfGb_wfG G : wfGb G = true -> wfG G.
Proof.
  unfold wfGb. rewrite !andb_true_iff. intros [[H1 H2] H3]. split; [apply nodups_NoDup; auto|]. split.
  - intros r d Hr Hd. rewrite forallb_forall in H2. specialize (H2 r Hr). rewrite forallb_forall in H2.
    apply mems_In. apply H2; auto.
  - intros x Hx. rewrite forallb_forall in H3. apply legalb_legal. apply H3; auto.
Qed.
Lemma fold_max_le (f:str -> nat) l n : (forall p, In p l -> f p <= n) -> fold_right (fun p acc => Nat.max (f p) acc) 0 l <= n.
Proof. induction l as [|a l IH]; cbn; intros H; [lia|]. apply Nat.max_lub; [apply H; auto | apply IH; intros; apply H; auto]. Qed.
Lemma rank_fuel_le G f x : rank_fuel G f x <= f.
Proof.
  revert x; induction f as [|f IH]; intros x; cbn [rank_fuel]; [lia|]. destruct (down_of G x) as [|p ps]; [lia|].
  apply le_n_S. apply (fold_max_le (rank_fuel G f) (p :: ps)). intros; apply IH.
Qed.
Lemma rankedb_ranked G : rankedb G = true -> ranked G (rank_fuel G (length G)).
Proof.
  intros H. split; [|intros; apply rank_fuel_le]. intros r d Hr Hd. unfold rankedb in H. rewrite forallb_forall in H.
  specialize (H r Hr). rewrite forallb_forall in H. specialize (H d Hd). apply Nat.ltb_lt in H. exact H.
Qed.
Lemma all_word_word w : all_word w = true -> word w.
Proof. auto. Qed.

Lemma name_okb_ok G n : name_okb G n = true -> name_ok G n.
Proof.
  unfold name_okb, name_ok. rewrite andb_true_iff, !orb_true_iff. intros [H1 H2]. split; [destruct n; [discriminate|discriminate]|].
  destruct H2 as [[H2|H2]|H2]; [left; auto | right; left | right; right].
  - destruct (r_label_owner G n); [discriminate|discriminate].
  - apply andb_true_iff in H2 as [H2 H3]. split.
    + intros x Hx. rewrite forallb_forall in H2. specialize (H2 x Hx). apply Nat.leb_le in H2. exact H2.
    + intros r l Hr Hl P. rewrite forallb_forall in H3.
      assert (In l (all_labels G)) by (apply in_flat_map; eauto). specialize (H3 l H). apply negb_true_iff in H3.
      apply startswith_app in P. congruence.
Qed.

(* ====================================================================== reading an identifier string *)
Lemma cut_word_spec t : forall w rest, cut_word t = (w, rest) -> t = w ++ rest /\ word w.
Proof.
  induction t as [|c t IH]; cbn; intros w rest E.
  - inversion E; subst. split; reflexivity.
  - destruct (is_word c) eqn:Ec.
    + destruct (cut_word t) as [a b]. inversion E; subst. destruct (IH a rest eq_refl) as [-> Hw]. split; auto.
      unfold word. cbn. rewrite Ec. exact Hw.
    + inversion E; subst. split; reflexivity.
Qed.
Lemma cut_at_spec q : forall l t, has_at q = true -> cut_at q = (l, t) -> q = l ++ c_at :: t.
Proof.
  induction q as [|c q IH]; cbn -[N.eqb]; intros l t H E; [discriminate|].
  destruct (N.eqb c c_at) eqn:Ec.
  - apply N.eqb_eq in Ec. inversion E; subst. reflexivity.
  - destruct (cut_at q) as [a b]. inversion E; subst. cbn. f_equal. apply IH; auto.
    unfold has_at in H. cbn -[N.eqb] in H. rewrite (N.eqb_sym c_at c), Ec in H. exact H.
Qed.

Inductive shape (q:str) (i:ident) : Prop :=
| sh_abs lbl w : q = qstr lbl w -> word w -> w <> [] -> i = mkIdent lbl (Some (classify_word w)) None -> shape q i
| sh_rel lbl w sg ds : q = qstr lbl (w ++ sg :: ds) -> word w -> is_sign sg = true -> digits ds ->
    i = mkIdent lbl (match w with [] => None | _ => Some (classify_word w) end) (Some (rel_z sg ds)) -> shape q i.

Lemma parse_tail_shape lbl t i : parse_tail lbl t = Some i ->
  (exists w, t = w /\ word w /\ w <> [] /\ i = mkIdent lbl (Some (classify_word w)) None) \/
  (exists w sg ds, t = w ++ sg :: ds /\ word w /\ is_sign sg = true /\ digits ds /\
     i = mkIdent lbl (match w with [] => None | _ => Some (classify_word w) end) (Some (rel_z sg ds))).
Proof.
  unfold parse_tail. destruct (cut_word t) as [w rest] eqn:E. destruct (cut_word_spec t w rest E) as [-> Hw].
  destruct rest as [|sg ds].
  - destruct w as [|c w']; [discriminate|]. intros H; inversion H; subst. left. exists (c :: w'). rewrite app_nil_r.
    repeat split; auto. discriminate.
  - destruct (is_sign sg && nonempty ds && all_digit ds) eqn:C; [|discriminate].
    apply andb_true_iff in C as [C C3]. apply andb_true_iff in C as [C1 C2].
    intros H; inversion H; subst. right. exists w, sg, ds. repeat split; auto.
    destruct ds; [discriminate|discriminate].
Qed.

Lemma parse_shape q i : parse_ident q = Some i ->
  shape q i /\ (forall L, i_lbl i = Some L -> L <> [] /\ word L /\ plain L).
Proof.
  unfold parse_ident. destruct (has_at q) eqn:HA.
  - destruct (cut_at q) as [l t] eqn:EC.
    destruct (nonempty l && all_word l && negb (has_at t) && negb (streqb l s_head || streqb l s_heads || streqb l s_base)) eqn:C; [|discriminate].
    apply andb_true_iff in C as [C C4]. apply andb_true_iff in C as [C C3]. apply andb_true_iff in C as [C1 C2].
    pose proof (cut_at_spec q l t HA EC) as ->.
    assert (LP : l <> [] /\ word l /\ plain l).
    { split; [destruct l; [discriminate|discriminate]|]. split; [exact C2|].
      apply negb_true_iff in C4. apply orb_false_iff in C4 as [C4 C4c]. apply orb_false_iff in C4 as [C4a C4b].
      repeat split; try (apply streqb_neq; auto). apply word_noat. exact C2. }
    intros H. apply parse_tail_shape in H as [(w & -> & Hw & NE & ->)|(w & sg & ds & -> & Hw & Hs & Hd & ->)].
    + split; [eapply (sh_abs _ _ (Some l) w); eauto|]. cbn. intros L E; inversion E; subst; auto.
    + split; [eapply (sh_rel _ _ (Some l) w sg ds); eauto|]. cbn. intros L E; inversion E; subst; auto.
  - intros H. apply parse_tail_shape in H as [(w & -> & Hw & NE & ->)|(w & sg & ds & -> & Hw & Hs & Hd & ->)].
    + split; [eapply (sh_abs _ _ None w); eauto|]. cbn. discriminate.
    + split; [eapply (sh_rel _ _ None w sg ds); eauto|]. cbn. discriminate.
Qed.

(* ====================================================================== the main theorem *)
Lemma optstr_eqb_eq a b : optstr_eqb a b = true -> a = b.
Proof. destruct a, b; cbn; try discriminate; auto. intros H; apply streqb_eq in H; subst; auto. Qed.
Lemma optopt_eqb_eq a b : optopt_eqb a b = true -> a = b.
Proof. destruct a, b; cbn; try discriminate; auto. intros H; apply optstr_eqb_eq in H; subst; auto. Qed.
Lemma Forall2_map_r {A B} (P:A -> B -> Prop) (f:A -> B) l : (forall a, In a l -> P a (f a)) -> Forall2 P l (map f l).
Proof. induction l as [|a l IH]; intros H; cbn; constructor; [apply H; left; auto | apply IH; intros; apply H; right; auto]. Qed.
Lemma load_in_load i M : load_in i = Ok M -> load (i_revs i) (i_oracle i) = Ok M.
Proof.
  unfold load_in. destruct (load (i_revs i) (i_oracle i)) as [M'|e]; auto.
  destruct e; try discriminate. destruct (i_oracle i); [|discriminate]. destruct (map_branch_labels _ _ _); discriminate.
Qed.

Section Query.
Variables (G:list srev) (oracle:list (str*str)) (M:rmap) (cur:list str).
Hypothesis LOAD : load G oracle = Ok M.
Hypothesis WFb : wfGb G = true.
Hypothesis RKb : rankedb G = true.
Hypothesis LOK : load_ok G = true.
Hypothesis LNb : forallb (fun l => nonempty l && all_word l) (all_labels G) = true.
Hypothesis CURb : forallb (fun c => mems c (ids G) && all_word c) cur = true.
Let rk := rank_fuel G (length G).
Let WF : wfG G := wfGb_wfG G WFb.
Let RK : ranked G rk := rankedb_ranked G RKb.

Lemma LN : forall r l, In r G -> In l (s_labels r) -> l <> [].
Proof.
  intros r l Hr Hl. rewrite forallb_forall in LNb. assert (H : In l (all_labels G)) by (apply in_flat_map; eauto).
  specialize (LNb l H). apply andb_true_iff in LNb as [H1 _]. destruct l; [discriminate|discriminate].
Qed.
Lemma LW : forall r l, In r G -> In l (s_labels r) -> word l.
Proof.
  intros r l Hr Hl. rewrite forallb_forall in LNb. assert (H : In l (all_labels G)) by (apply in_flat_map; eauto).
  specialize (LNb l H). apply andb_true_iff in LNb as [_ H2]. exact H2.
Qed.
Lemma CUR : cur_ok G cur.
Proof.
  intros c Hc. rewrite forallb_forall in CURb. specialize (CURb c Hc). apply andb_true_iff in CURb as [H1 H2].
  split; [apply mems_In; auto | exact H2].
Qed.

Lemma query_in_class q : qclassb G cur q = true -> query_okb G cur q (run_query (Ok M) cur q) = true.
Proof.
  intros HQ. unfold query_okb. rewrite LOK. unfold qclassb in HQ. destruct (parse_ident q) as [i|] eqn:PI; [|reflexivity].
  destruct (parse_shape q i PI) as [SH LBL].
  apply andb_true_iff in HQ as [HQ HQ3]. apply andb_true_iff in HQ as [HQ1 HQ2].
  assert (HL : lbl_ok G (i_lbl i)).
  { destruct (i_lbl i) as [L|] eqn:EL; [|exact I]. destruct (LBL L eq_refl) as (NE & WL & PL).
    split; [exact PL|]. split; [apply name_okb_ok; auto | exact WL]. }
  destruct SH as [lbl w -> Hw NE ->|lbl w sg ds -> Hw Hs Hd ->]; cbn [i_lbl i_sym i_rel] in *.
  - (* absolute *)
    assert (HS : sym_ok G (classify_word w)).
    { destruct (classify_word w); try exact I. apply name_okb_ok; auto. }
    assert (DG : dg_ok G lbl (classify_word w)).
    { unfold dg_ok. destruct lbl as [L|]; [|exact I]. destruct (classify_word w); try exact I. apply optopt_eqb_eq; auto. }
    destruct (abs_query G rk oracle M LOAD WF RK lbl w cur Hw NE HL HS DG) as (A1 & A2 & A3 & A4 & A5).
    rewrite A1, A2, A3, A4, A5. reflexivity.
  - (* relative *)
    destruct (rel_common G rk oracle M LOAD WF RK LN LW lbl w sg ds cur Hw Hs Hd HL) as (A1 & A2 & A3).
    rewrite A1, A2, A3. cbn [andb].
    destruct w as [|c0 w0].
    + (* relative to the current revisions *)
      assert (CU : forall L, lbl = Some L -> (0 < rel_z sg ds)%Z -> cur = []).
      { intros L -> Hz. apply Z.ltb_lt in Hz. rewrite Hz in HQ3. apply negb_true_iff in HQ3. destruct cur; [auto|discriminate]. }
      assert (CD : forall L b, lbl = Some L -> (rel_z sg ds < 0)%Z -> r_name G L = Some b -> cur = [] \/ filter (r_lineage G b) cur <> []).
      { intros L b -> Hz EN. assert (E : (0 <? rel_z sg ds)%Z = false) by (apply Z.ltb_ge; lia). rewrite E, EN in HQ3.
        apply orb_true_iff in HQ3 as [H|H].
        - left. apply negb_true_iff in H. destruct cur; [auto|discriminate].
        - right. destruct (filter (r_lineage G b) cur); [discriminate|discriminate]. }
      destruct (nosym_query G rk oracle M LOAD WF RK lbl sg ds cur Hs Hd HL CUR CU CD) as (A4 & A5).
      cbn [app] in *. rewrite A4, A5. reflexivity.
    + assert (HS : sym_ok G (classify_word (c0 :: w0))).
      { destruct (classify_word (c0 :: w0)); try exact I. apply name_okb_ok; auto. }
      destruct (rel_sym_query G rk oracle M LOAD WF RK lbl (c0 :: w0) sg ds cur Hw ltac:(discriminate) Hs Hd HL HS) as (A4 & A5).
      rewrite A4, A5. reflexivity.
Qed.
End Query.

Theorem model_holds i : inclass_C16 i = true -> C16_holds i (run i).
Proof.
  unfold inclass_C16. rewrite !andb_true_iff. intros [[[[[[H1 H2] H3] H4] H5] H6] H7].
  destruct (load_in i) as [M|] eqn:LI; [|discriminate]. pose proof (load_in_load i M LI) as LOAD.
  pose proof (wfGb_wfG _ H1) as WF. pose proof (rankedb_ranked _ H2) as RK.
  split.
  - unfold run. cbn [c_labels]. rewrite LI.
    apply (labels_ok_model (i_revs i) _ (i_oracle i) M (proj1 WF) RK (proj1 (proj2 WF)) LOAD).
  - unfold run. cbn [c_obs]. rewrite LI. apply Forall2_map_r. intros q Hq.
    rewrite forallb_forall in H7. apply (query_in_class (i_revs i) (i_oracle i) M (i_cur i) LOAD H1 H2 H3 H5 H6 q (H7 q Hq)).
Qed.
