(* C16: the model's observable satisfies the decider-level property on full revision ids and `base`. *)
From AV Require Import Model.Resolve Spec.C16 Proofs.ResolveProof.
From Coq Require Import Lia.

Lemma rpartition_noat q : has_at q = false -> rpartition_at q = ([], q).
Proof.
  intros H. unfold rpartition_at.
  match goal with |- context [match ?f q with _ => _ end] =>
    assert (E : forall s, has_at s = false -> f s = None) end.
  { clear. unfold has_at. induction s as [|c s IH]; cbn -[N.eqb]; auto.
    rewrite (N.eqb_sym c_at c). destruct (N.eqb c c_at) eqn:Ec; cbn -[N.eqb]; [discriminate|]. intros H.
    rewrite IH by auto. reflexivity. }
  rewrite E; auto.
Qed.

Lemma cut_word_all w : forallb is_word w = true -> cut_word w = (w, []).
Proof. induction w as [|c w IH]; cbn; auto. intros H. apply andb_true_iff in H as [-> H]. rewrite IH; auto. Qed.

Lemma elem_eqb_refl e : elem_eqb e e = true.
Proof. destruct e; cbn; auto using streqb_refl. Qed.

Section FullIds.
Variables (G:list srev) (M:rmap).
Hypothesis LD : loaded G M.
Hypothesis WF : wfG G.
Hypothesis LOK : load_ok G = true.
Let ND : NoDup (ids G) := proj1 WF.

Lemma get_revisions_full r : In r G -> get_revisions M (s_id r) = Ok [EId (s_id r)].
Proof.
  intros Hr. pose proof WF as (_ & _ & LG). pose proof (LG _ (in_map s_id _ _ Hr)) as L.
  unfold get_revisions. rewrite rrn_plain by (apply legal_plain; auto). cbn [bind fst snd mapM].
  unfold revision_for_ident. rewrite (rfi0_id G M LD ND r Hr). cbn [bind map elem_of_opt].
  destruct (py_int (s_id r)) as [z|] eqn:PI; auto.
  rewrite (legal_not_neg _ _ L PI). reflexivity.
Qed.

Lemma full_id_query cur r : In r G -> word (s_id r) -> query_okb G cur (s_id r) (run_query (Ok M) cur (s_id r)) = true.
Proof.
  intros Hr Hw. pose proof WF as (_ & _ & LG). pose proof (LG _ (in_map s_id _ _ Hr)) as L.
  pose proof (legal_plain _ L) as (NA & N1 & N2 & N3).
  set (q := s_id r) in *.
  assert (PI : parse_ident q = Some (mkIdent None (Some (RName q)) None)).
  { unfold parse_ident. rewrite NA. unfold parse_tail. rewrite cut_word_all by exact Hw.
    destruct L as (L0 & _). destruct q as [|c q']; [congruence|].
    unfold classify_word. apply streqb_neq in N1, N2, N3. rewrite N1, N2, N3. reflexivity. }
  assert (Hq : mems q (ids G) = true) by (apply mems_In; apply in_map; auto).
  assert (RA : r_abs G None (RName q) = Some [q]).
  { unfold r_abs, r_branch, r_name_in. rewrite Hq. reflexivity. }
  unfold query_okb. rewrite LOK, PI.
  assert (AG : agree (XOK None [EId q]) (OK None [EId q]) = true) by (cbn; rewrite streqb_refl; reflexivity).
  unfold run_query. cbn [bind observe].
  (* the five entry points *)
  pose proof (get_revisions_full r Hr) as E1. fold q in E1.
  pose proof (full_id G M LD ND r Hr L) as E2. fold q in E2.
  assert (E3 : as_revision_number M q = Ok [EId q]).
  { unfold as_revision_number. rewrite rrn_plain by (repeat split; auto). cbn [bind fst].
    apply streqb_neq in N2. rewrite N2. reflexivity. }
  assert (E4 : parse_upgrade_target M cur q true = Ok [EId q]).
  { unfold parse_upgrade_target. destruct regex_char as (RC & _). rewrite RC by exact Hw. exact E1. }
  assert (E5 : parse_downgrade_target M cur q true = Ok (None, EId q)).
  { unfold parse_downgrade_target. destruct regex_char as (RC & _). rewrite RC by exact Hw.
    rewrite rpartition_noat by auto. rewrite E2. reflexivity. }
  rewrite E1, E2, E3, E4, E5. cbn [observe o_revs o_rev o_num o_up o_down elem_of_opt fst snd].
  unfold ref_revs, ref_rev, ref_num, ref_up, ref_down, r_one. cbn [i_rel i_sym i_lbl]. unfold ref_revs. cbn [i_rel i_sym i_lbl].
  rewrite RA. cbn [r_branch xids xopt map]. fold q. rewrite AG. reflexivity.
Qed.
End FullIds.

(* the decider-level property holds of the model on every batch of full revision ids; the branch-label clause of the
   property (labels_okb) is taken as a hypothesis on the input: the propagation invariant of _add_branches is not proved *)
Theorem model_holds_full_ids i M :
  load_in i = Ok M -> wfG (i_revs i) -> load_ok (i_revs i) = true ->
  labels_okb (i_revs i) (c_labels (run i)) = true ->
  Forall (fun q => exists r, In r (i_revs i) /\ q = s_id r /\ word q) (i_queries i) ->
  C16_holds i (run i).
Proof.
  intros HL WF LOK LAB HQ. split; [exact LAB|]. unfold run. cbn [c_obs]. rewrite HL.
  assert (LD : loaded (i_revs i) M).
  { unfold load_in in HL. destruct (load (i_revs i) (i_oracle i)) as [M'|e] eqn:E.
    - inversion HL; subst. eapply load_loaded; eauto.
    - destruct e; try discriminate. destruct (i_oracle i); [|discriminate]. destruct (map_branch_labels _ _ _); discriminate. }
  induction HQ as [|q qs (r & Hr & -> & Hw) _ IH]; cbn [map]; constructor; auto.
  apply full_id_query; auto.
Qed.

(* ------------------------------------------------------------------ what the reference's boolean notions mean *)
Lemma r_is_anc_spec G rk x y : ranked G rk -> (r_is_anc G x y = true <-> anc G x y).
Proof.
  intros R. unfold r_is_anc, r_parents, anc. rewrite mems_In. split; [apply reach_sound|].
  intros P. eapply reach_complete with (rk:=rk); eauto using ranked_down. apply R.
Qed.
Lemma r_lineage_spec G rk x y : ranked G rk -> (r_lineage G x y = true <-> lineage G x y).
Proof.
  intros R. unfold r_lineage, lineage. rewrite orb_true_iff, !(r_is_anc_spec G rk) by auto. tauto.
Qed.
Lemma r_heads_spec G x : In x (r_heads G) <-> is_head G x.
Proof.
  unfold r_heads, is_head. rewrite filter_In, negb_true_iff. split; intros [Hx H]; split; auto.
  - intros r Hr Hin. assert (existsb (fun r => mems x (s_down r)) G = true); [|congruence].
    apply existsb_exists. exists r. split; auto. apply mems_In; auto.
  - destruct (existsb (fun r => mems x (s_down r)) G) eqn:E; auto. exfalso.
    apply existsb_exists in E as (r & Hr & Hm). apply mems_In in Hm. eapply H; eauto.
Qed.
Lemma r_real_heads_spec G x : In x (r_real_heads G) <-> is_real_head G x.
Proof.
  unfold r_real_heads, is_real_head. rewrite filter_In, negb_true_iff. split; intros [Hx H]; split; auto.
  - intros r Hr. split; intros Hin;
      (assert (existsb (fun r => mems x (s_down r) || mems x (s_deps r)) G = true); [|congruence]);
      apply existsb_exists; exists r; split; auto; apply orb_true_iff; [left|right]; apply mems_In; auto.
  - destruct (existsb (fun r => mems x (s_down r) || mems x (s_deps r)) G) eqn:E; auto. exfalso.
    apply existsb_exists in E as (r & Hr & Hm). apply orb_true_iff in Hm as [Hm|Hm]; apply mems_In in Hm;
      destruct (H r Hr); tauto.
Qed.
Lemma r_name_spec G n x : NoDup (ids G) -> r_name G n = Some x ->
  (n = x /\ In x (ids G)) \/ (exists r, In r G /\ s_id r = x /\ In n (s_labels r)) \/
  (In x (ids G) /\ prefix_of n x /\ forall y, In y (ids G) -> prefix_of n y -> y = x).
Proof.
  intros ND. unfold r_name, r_name_in. destruct (mems n (ids G)) eqn:E.
  - intros H; inversion H; subst. left. split; auto. apply mems_In; auto.
  - unfold r_label_owner. destruct (filter (fun r => mems n (s_labels r)) G) as [|r l] eqn:F.
    + destruct (filter _ (ids G)) as [|z [|z' l']] eqn:F2; try discriminate.
      intros H; inversion H; subst. right; right.
      assert (Hz : In x (filter (fun x0 => startswith x0 n && true) (ids G))) by (rewrite F2; left; auto).
      apply filter_In in Hz as (Hz & Hs). rewrite andb_true_r in Hs. apply startswith_app in Hs.
      repeat split; auto. intros y Hy Py.
      assert (Hy' : In y (filter (fun x0 => startswith x0 n && true) (ids G))).
      { apply filter_In. split; auto. rewrite andb_true_r. apply startswith_app; auto. }
      rewrite F2 in Hy'. destruct Hy' as [<-|[]]; auto.
    + intros H; inversion H; subst. right; left.
      assert (Hr : In r (filter (fun r => mems n (s_labels r)) G)) by (rewrite F; left; auto).
      apply filter_In in Hr as (Hr & Hm). apply mems_In in Hm. eauto.
Qed.

(* ------------------------------------------------------------------ downgrade targets with a label *)
(* after the repair 965a10e: `label@-N` with no current revision is the documented RevisionError, for every history *)
Theorem downgrade_label_relative_empty M l ds : plain l -> l <> [] -> word l -> digits ds ->
  parse_downgrade_target M [] (l ++ c_at :: c_minus :: ds) true = Err ERevision.
Proof.
  intros PL NE Hw Hd. unfold parse_downgrade_target.
  destruct regex_char as (_ & _ & _ & RC).
  specialize (RC l [] c_minus ds NE Hw eq_refl eq_refl Hd). cbn [app] in RC. rewrite RC. cbn [opt_word].
  destruct (0 <=? rel_val c_minus ds)%Z; [reflexivity|].
  assert (F : filter_for_lineage M [] l = Ok []).
  { unfold filter_for_lineage. rewrite (rrn_plain M l PL). reflexivity. }
  rewrite F. cbn [bind].
  assert (A : get_all_current M [] = Ok []) by reflexivity.
  rewrite A. cbn [bind]. rewrite F. reflexivity.
Qed.

(* the absolute downgrade target label@rev does not check the label: a(lab0), b unrelated *)
Definition s_aaaa := [97;97;97;97]%N.
Definition s_bbbb := [98;98;98;98]%N.
Definition s_lab0 := [108;97;98;48]%N.
Definition G_unrel : list srev := [mkS s_aaaa [] [] [s_lab0]; mkS s_bbbb [] [] []].
Theorem downgrade_label_unchecked :
  exists M, load G_unrel [(s_aaaa, s_aaaa)] = Ok M /\
    parse_downgrade_target M [] (at_join s_lab0 s_bbbb) true = Ok (Some s_lab0, EId s_bbbb) /\
    get_revision M (at_join s_lab0 s_bbbb) = Err EResolution /\
    revision_for_ident0 M (Some s_lab0) = Ok (Some (mkS s_aaaa [] [] [s_lab0])) /\
    ~ lineage G_unrel s_aaaa s_bbbb.
Proof.
  destruct (load G_unrel [(s_aaaa, s_aaaa)]) as [M|] eqn:E; [|vm_compute in E; discriminate].
  exists M. split; [reflexivity|]. vm_compute in E. inversion E; subst; clear E.
  split; [vm_compute; reflexivity|]. split; [vm_compute; reflexivity|]. split; [vm_compute; reflexivity|].
  assert (D : forall x, down_of G_unrel x = []).
  { intros x. unfold down_of, G_unrel. cbn [find_rev s_id]. destruct (streqb s_aaaa x); [reflexivity|]. destruct (streqb s_bbbb x); reflexivity. }
  assert (P : forall x y, path (down_of G_unrel) x y -> x = y).
  { intros x y H. destruct H as [|x c z Hc _]; auto. rewrite D in Hc. destruct Hc. }
  intros [H|H]; apply P in H; discriminate.
Qed.
