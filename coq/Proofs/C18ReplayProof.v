(* C18 — replaying a well-bracketed script executes each of its statements exactly once, durably; hence the script of
   a plan has the effect of the online run of the same plan (schema and version rows: the granularity of C12). *)
From AV Require Import Spec.C18 Model.C18Replay Proofs.OfflineProof.
From AV Require Spec.C04 Proofs.TxnProof.
From Coq Require Import Lia.

(* ------------------------------------------------------------------ A. the generic replay theorem *)
Section Generic.
  Variable den : event -> dbstate -> dbstate.

  Definition shape (ins:bool) (d:db) : Prop := if ins then pending d <> None else pending d = None.

  Lemma replay_view evs : forall ins d ins',
    shape ins d -> run_depth ins (strip_sep evs) = Some ins' ->
    view (replay den evs d) = exec_all den (filter content evs) (view d) /\ shape ins' (replay den evs d).
  Proof.
    induction evs as [|e evs IH]; intros ins d ins' Hs Hr.
    - simpl in *. injection Hr as <-. auto.
    - assert (Other : is_marker e = false -> is_sep_ev e = false ->
                view (replay den (e :: evs) d) = exec_all den (filter content (e :: evs)) (view d) /\
                shape ins' (replay den (e :: evs) d)).
      { intros Hm Hp.
        assert (Hr' : run_depth ins (strip_sep evs) = Some ins').
        { destruct e; simpl in Hm, Hp; try discriminate; exact Hr. }
        assert (Ev : replay_ev den d e = match pending d with
                                         | Some p => mkDB (committed d) (Some (den e p))
                                         | None => mkDB (den e (committed d)) None end).
        { destruct e; simpl in Hm, Hp; try discriminate; reflexivity. }
        assert (Hs' : shape ins (replay_ev den d e)).
        { rewrite Ev. unfold shape in *. destruct ins; destruct (pending d) eqn:Ep; simpl; try congruence; try discriminate. }
        destruct (IH ins (replay_ev den d e) ins' Hs' Hr') as [I1 I2]. split; [|exact I2].
        change (replay den (e :: evs) d) with (replay den evs (replay_ev den d e)). rewrite I1.
        assert (Ec : content e = true) by (unfold content; rewrite Hm, Hp; reflexivity).
        cbn [filter]. rewrite Ec. cbn [exec_all fold_left]. f_equal. rewrite Ev. unfold view. destruct (pending d); reflexivity. }
      destruct e; try (apply Other; reflexivity).
      + (* Begin *) simpl in Hr. destruct ins; [discriminate|]. simpl in Hs.
        assert (Hs' : shape true (replay_ev den d Begin)).
        { simpl. unfold db_begin. rewrite Hs. simpl. discriminate. }
        destruct (IH true (replay_ev den d Begin) ins' Hs' Hr) as [I1 I2]. split; [|exact I2].
        change (replay den (Begin :: evs) d) with (replay den evs (replay_ev den d Begin)). rewrite I1. cbn [filter content is_marker negb andb]. f_equal.
        simpl. unfold db_begin, view. rewrite Hs. reflexivity.
      + (* Commit *) simpl in Hr. destruct ins; [|discriminate].
        assert (Hs' : shape false (replay_ev den d Commit)) by reflexivity.
        destruct (IH false (replay_ev den d Commit) ins' Hs' Hr) as [I1 I2]. split; [|exact I2].
        change (replay den (Commit :: evs) d) with (replay den evs (replay_ev den d Commit)). rewrite I1. reflexivity.
      + (* Sep *) destruct (IH ins (replay_ev den d Sep) ins' Hs Hr) as [I1 I2]. split; auto.
  Qed.

  (* a well-bracketed script: afterwards no transaction is open and the database is what executing every statement of
     the script once, in order, makes of the initial one *)
  Theorem replay_well_framed evs s : well_framed (strip_sep evs) ->
    replay den evs (mkDB s None) = mkDB (exec_all den (filter content evs) s) None.
  Proof. intros H. destruct (replay_view evs false (mkDB s None) false eq_refl H) as [V S].
    simpl in S. destruct (replay den evs (mkDB s None)) as [c p]. simpl in *. subst p. unfold view in V. simpl in V.
    rewrite V. reflexivity. Qed.

  (* a script cut short: nothing is lost or duplicated either, only the last block may still be open *)
  Theorem replay_cut evs s dp : run_depth false (strip_sep evs) = Some dp ->
    view (replay den evs (mkDB s None)) = exec_all den (filter content evs) s.
  Proof. intros H. destruct (replay_view evs false (mkDB s None) dp eq_refl H) as [V _]. exact V. Qed.
End Generic.

(* ------------------------------------------------------------------ B. the script of a plan vs the online run of the plan *)
Lemma dec_enc x : dec (enc x) = stmt_eff x.
Proof. unfold dec, enc. destruct (stmt_eff x) as [v|v]; destruct v; reflexivity. Qed.

Lemma exec_all_app den a b s : exec_all den (a ++ b) s = exec_all den b (exec_all den a s).
Proof. unfold exec_all. apply fold_left_app. Qed.

Lemma exec_all_cons den e l s : exec_all den (e :: l) s = exec_all den l (den e s).
Proof. reflexivity. Qed.

Section Plan.
  Variable plan : list pstep.
  Notation D := (den plan).

  Lemma autos_effs k xs : forall t,
    effs (exec_all D (map (fun p => Stmt k p true) (map enc xs)) t)
    = fold_left (fun l x => apply_eff (stmt_eff x) l)
        (flat_map (fun a => match a with AStmt x => [x] | ARaise => [] end) (map AStmt xs)) (effs t) /\
    vrows (exec_all D (map (fun p => Stmt k p true) (map enc xs)) t) = vrows t.
  Proof. induction xs as [|x xs IHx]; intros t; [simpl; auto|].
    unfold exec_all in *. cbn [map fold_left].
    change (D (Stmt k (enc x) true) t) with (apply_act (AEff (dec (enc x))) t). rewrite dec_enc.
    destruct (IHx (apply_act (AEff (stmt_eff x)) t)) as [J1 J2]. rewrite J1, J2. simpl. auto. Qed.

  (* effects and version rows of what the statements of a step do *)
  Lemma items_effs k body : forall s,
    effs (exec_all D (flat_map (item_events k) (map item_of body)) s)
    = fold_left (fun l x => apply_eff (stmt_eff x) l) (Spec.C04.body_stmts (map bitem_of body)) (effs s) /\
    vrows (exec_all D (flat_map (item_events k) (map item_of body)) s) = vrows s.
  Proof.
    induction body as [|it body IH]; intros s; [simpl; auto|].
    cbn [map flat_map]. rewrite exec_all_app. unfold Spec.C04.body_stmts. cbn [flat_map]. rewrite fold_left_app.
    destruct (IH (exec_all D (item_events k (item_of it)) s)) as [I1 I2]. unfold Spec.C04.body_stmts in I1. rewrite I1, I2.
    destruct it as [x|xs]; simpl.
    - rewrite dec_enc. auto.
    - destruct (autos_effs k xs s) as [A1 A2]. rewrite A1, A2. auto.
  Qed.

  Lemma versions_rows k st : nth_error plan (N.to_nat k) = Some st -> forall done l s,
    p_ver st = done ++ l ->
    vrows (exec_all D (map (VersionStmt k) (map N.of_nat (seq (length done) (length l)))) s)
    = fold_left (fun r v => apply_vop v r) l (vrows s) /\
    effs (exec_all D (map (VersionStmt k) (map N.of_nat (seq (length done) (length l)))) s) = effs s.
  Proof.
    intros Hk done l. revert done. induction l as [|v l IH]; intros done s Hp; [simpl; auto|].
    unfold exec_all in *. cbn [length seq map fold_left].
    assert (Hd : D (VersionStmt k (N.of_nat (length done))) s = apply_act (AVop v) s).
    { unfold den. rewrite Hk, Nat2N.id, Hp, nth_error_app2, Nat.sub_diag by lia. reflexivity. }
    rewrite Hd.
    assert (Hp' : p_ver st = (done ++ [v]) ++ l) by (rewrite <- app_assoc; exact Hp).
    destruct (IH (done ++ [v]) (apply_act (AVop v) s) Hp') as [I1 I2].
    rewrite app_length in I1, I2. cbn [length] in I1, I2. rewrite Nat.add_1_r in I1, I2.
    rewrite I1, I2. split; reflexivity.
  Qed.

  Lemma script_effect : forall pre rest rows s, plan = pre ++ rest -> forall empty,
    effs (exec_all D (expected_steps (N.of_nat (length pre)) empty (osteps_of rest rows)) s)
      = Spec.C04.effs_after (steps_of rest) (effs s) /\
    vrows (exec_all D (expected_steps (N.of_nat (length pre)) empty (osteps_of rest rows)) s)
      = Spec.C04.rows_after (steps_of rest) (vrows s).
  Proof.
    intros pre rest. revert pre. induction rest as [|st rest IH]; intros pre rows s Hp empty.
    - simpl. destruct empty; simpl; auto.
    - cbn [osteps_of expected_steps os_body os_nver os_empty_after os_hooks steps_of map]. cbn [app]. unfold vidx.
      set (k := N.of_nat (length pre)).
      assert (Hk : nth_error plan (N.to_nat k) = Some st).
      { unfold k. rewrite Nat2N.id, Hp, nth_error_app2, Nat.sub_diag by lia. reflexivity. }
      rewrite exec_all_app.
      set (s1 := exec_all D (if empty then [CreateVT k] else []) s).
      assert (E1 : effs s1 = effs s /\ vrows s1 = vrows s) by (unfold s1; destruct empty; simpl; auto).
      rewrite exec_all_cons. replace (D (Running k) s1) with s1 by reflexivity.
      rewrite !exec_all_app.
      destruct (items_effs k (p_body st) s1) as [B1 B2].
      set (s2 := exec_all D (flat_map (item_events k) (map item_of (p_body st))) s1) in *.
      destruct (versions_rows k st Hk [] (p_ver st) s2 eq_refl) as [V1 V2]. cbn [length] in V1, V2.
      set (s3 := exec_all D (map (VersionStmt k) (map N.of_nat (seq 0 (length (p_ver st))))) s2) in *.
      assert (Hp' : plan = (pre ++ [st]) ++ rest) by (rewrite <- app_assoc; exact Hp).
      pose proof (IH (pre ++ [st]) (fold_left (fun l v => apply_vop v l) (p_ver st) rows) s3 Hp'
                    (match fold_left (fun l v => apply_vop v l) (p_ver st) rows with [] => true | _ => false end)) as I.
      rewrite app_length in I. cbn [length] in I. rewrite Nat.add_1_r, Nat2N.inj_succ in I. fold k in I.
      destruct I as [I1 I2]. rewrite I1, I2.
      unfold Spec.C04.effs_after, Spec.C04.rows_after. cbn [fold_left].
      unfold Spec.C04.body_effs, Spec.C04.ver_rows. cbn [s_body s_ver].
      destruct E1 as [E1 E1']. rewrite V2, B1, E1, V1, B2, E1'. auto.
  Qed.
End Plan.

(* ------------------------------------------------------------------ C. the equivalence *)
Lemma autos_raise_plan xs : Spec.C04.autos_raise (map AStmt xs) = false.
Proof. induction xs; simpl; auto. Qed.
Lemma items_raise_plan body : Spec.C04.items_raise false (map bitem_of body) = false.
Proof. induction body as [|[x|xs] body IH]; simpl; auto. rewrite autos_raise_plan. auto. Qed.
Lemma fidx_plan plan : Spec.C04.fidx false (steps_of plan) = None.
Proof. induction plan as [|st plan IH]; simpl; auto. unfold Spec.C04.step_raises. simpl.
  rewrite items_raise_plan. simpl. rewrite IH. reflexivity. Qed.

Lemma online_effect plan d0 t p exc :
  let i := mkIn TxDDL t p false (steps_of plan) d0 exc in
  effs (o_db (txn_run i)) = Spec.C04.effs_after (steps_of plan) (effs d0) /\
  vrows (o_db (txn_run i)) = Spec.C04.rows_after (steps_of plan) (vrows d0).
Proof.
  intros i. assert (Hf : Spec.C04.fail_index i = None) by apply fidx_plan.
  pose proof (TxnProof.consistent_tx i eq_refl) as Hc.
  destruct (TxnProof.success_thm i Hc Hf) as [_ R]. split; [|exact R].
  assert (Hn : Spec.C04.no_partial_commit i = true) by (unfold Spec.C04.no_partial_commit; rewrite Hf; reflexivity).
  rewrite (TxnProof.tx_thm i eq_refl Hn). unfold Spec.C04.committed_count. rewrite Hf. simpl.
  destruct (Spec.C04.one_txn i).
  - rewrite TxnProof.effs_state_after. reflexivity.
  - destruct (length (steps_of plan)) eqn:El.
    + destruct (steps_of plan); [reflexivity|discriminate].
    + rewrite <- El, firstn_all, TxnProof.effs_state_after. reflexivity.
Qed.

Theorem replay_equals_online d c plan d0 t p exc : table_wf d = true ->
  let script := offline_events d c (run_of plan (vrows d0)) in
  let D' := replay (den plan) script (mkDB d0 None) in
  let i := mkIn TxDDL t p false (steps_of plan) d0 exc in
  pending D' = None /\
  effs (committed D') = effs (o_db (txn_run i)) /\ vrows (committed D') = vrows (o_db (txn_run i)).
Proof.
  intros Hwf script D' i.
  assert (WF : well_framed (strip_sep script)).
  { destruct (effective_tddl d c) eqn:Ht.
    - apply (main_tddl d c _ Hwf Ht).
    - unfold well_framed. apply mf_run_depth. intros e He. unfold strip_sep in He. apply filter_In in He as [He _].
      eapply no_markers_thm; eauto. }
  unfold D'. rewrite (replay_well_framed _ _ _ WF). simpl. split; [reflexivity|].
  unfold script. rewrite (content_thm d c _ Hwf). unfold expected_content, run_of. cbn [r_init_empty r_steps].
  destruct (script_effect plan [] plan (vrows d0) d0 eq_refl (match vrows d0 with [] => true | _ => false end)) as [E1 E2].
  simpl in E1, E2. rewrite E1, E2. destruct (online_effect plan d0 t p exc) as [O1 O2]. unfold i. rewrite O1, O2. auto.
Qed.
