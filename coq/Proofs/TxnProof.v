(* C04 — proofs.  A generic development over a projection `pi` of the database state (instantiated with the version
   rows for every behaviour, and with the whole state for real transactional DDL), then the decider soundness and the
   main theorem by case analysis on which level opens the transaction and induction on the step list. *)
From AV Require Import Spec.C04.
From Coq Require Import Lia.

Definition set_vt (d:dbstate) : dbstate := mkDb (effs d) true (vrows d).

Section Proj.
  Variable X : Type.
  Variable pi : dbstate -> X.
  Variable f : act -> X -> X.
  Variable k : kind.
  Hypothesis Hpi : forall a d, pi (apply_act a d) = f a (pi d).
  (* a statement that is executed as DDL outside real transactional DDL is invisible through pi *)
  Hypothesis Hddl : k <> TxDDL -> forall x, (forall e, f (AEff e) x = x) /\ f AVt x = x.

  Definition pC (s:st) : X := pi (committed (s_db s)).
  Definition pV (s:st) : X := pi (view (s_db s)).
  Definition G (s:st) : Prop := k = TxDDL -> s_sa s = true -> pending (s_db s) <> None.
  Definition Q (s:st) : Prop := k = ImplicitCommitDDL -> pC s = pV s.

  Definition ddl_like (a:act) : Prop := match a with AVop _ => False | _ => True end.

  Lemma f_ddl a x : k <> TxDDL -> ddl_like a -> f a x = x.
  Proof. intros Hk Ha. destruct (Hddl Hk x) as [H1 H2]. destruct a; simpl in Ha; auto. contradiction. Qed.

  (* executing AEff / AVt, as DDL or as DML *)
  Opaque apply_act.
  Ltac unf := unfold G, Q, pC, pV, sa_exec, sa_autobegin, db_exec, db_join, db_open, db_begin, view in *; simpl in *.
  Lemma kind_cases : k = TxDDL \/ k = ImplicitCommitDDL \/ k = Pysqlite.
  Proof. destruct k; auto. Qed.

  Lemma exec_ddl_like isddl a s : ddl_like a -> G s -> Q s ->
    let s' := sa_exec k isddl a s in
    pC s' = pC s /\ pV s' = f a (pV s) /\ G s' /\ Q s' /\ s_sa s' = true /\ s_al s' = s_al s.
  Proof.
    intros Ha HG HQ. destruct s as [[C [p|]] sa al]; unf.
    - (* a transaction is open at the database *)
      destruct kind_cases as [Ek|[Ek|Ek]]; destruct isddl, sa; rewrite Ek; unf; rewrite ?Hpi;
        repeat split; auto; try congruence; try discriminate; intros;
        rewrite ?(f_ddl a (pi p)) by (try (rewrite Ek; discriminate); auto); auto;
        try (symmetry; apply HQ; auto; fail); try (apply HQ; auto; fail).
    - destruct kind_cases as [Ek|[Ek|Ek]]; destruct isddl, sa; rewrite Ek; unf; rewrite ?Hpi;
        repeat split; auto; try congruence; try discriminate; intros;
        try (exfalso; apply HG; auto; fail);
        rewrite ?(f_ddl a (pi C)) by (try (rewrite Ek; discriminate); auto); auto.
  Qed.

  (* executing a bookkeeping statement *)
  Lemma exec_vop v s : G s ->
    let s' := sa_exec k false (AVop v) s in
    pC s' = pC s /\ pV s' = f (AVop v) (pV s) /\ G s' /\ s_sa s' = true /\ s_al s' = s_al s.
  Proof.
    intros HG. destruct s as [[C [p|]] sa al]; unf.
    - destruct kind_cases as [Ek|[Ek|Ek]]; destruct sa; rewrite Ek; unf; rewrite ?Hpi;
        repeat split; auto; try congruence; try discriminate.
    - destruct kind_cases as [Ek|[Ek|Ek]]; destruct sa; rewrite Ek; unf; rewrite ?Hpi;
        repeat split; auto; try congruence; try discriminate;
        intros; exfalso; apply HG; auto.
  Qed.

  Transparent apply_act.

  Definition body_f (body:list stmt) (x:X) : X := fold_left (fun x st => f (AEff (stmt_eff st)) x) body x.
  Definition vops_f (vs:list vop) (x:X) : X := fold_left (fun x v => f (AVop v) x) vs x.
  Definition step_f (sp:step) (x:X) : X := vops_f (s_ver sp) (body_f (s_body sp) x).
  Definition steps_f (steps:list step) (x:X) : X := fold_left (fun x sp => step_f sp x) steps x.

  Definition body_raises (body:list stmt) (fail:option nat) : bool :=
    match fail with Some j => Nat.leb j (length body) | None => false end.

  Lemma run_body_spec body : forall fail s, G s -> Q s ->
    let '(s', r) := run_body k body fail s in
    r = body_raises body fail /\ pC s' = pC s /\ (r = false -> pV s' = body_f body (pV s)) /\
    G s' /\ Q s' /\ (s_sa s = true -> s_sa s' = true) /\ s_al s' = s_al s.
  Proof.
    induction body as [|x body IH]; intros fail s HG HQ.
    - destruct fail as [[|j]|]; simpl; repeat split; auto; discriminate.
    - destruct fail as [[|j]|].
      + simpl. repeat split; auto; discriminate.
      + cbn [run_body option_map pred].
        destruct (exec_ddl_like (stmt_isddl x) (AEff (stmt_eff x)) s I HG HQ) as (E1 & E2 & E3 & E4 & E5 & E6).
        specialize (IH (Some j) _ E3 E4). destruct (run_body k body (Some j) _) as [s' r].
        destruct IH as (I1 & I2 & I3 & I4 & I5 & I6 & I7). simpl.
        repeat split; auto; try congruence. intros Hr. rewrite (I3 Hr), E2. reflexivity.
      + cbn [run_body option_map].
        destruct (exec_ddl_like (stmt_isddl x) (AEff (stmt_eff x)) s I HG HQ) as (E1 & E2 & E3 & E4 & E5 & E6).
        specialize (IH None _ E3 E4). destruct (run_body k body None _) as [s' r].
        destruct IH as (I1 & I2 & I3 & I4 & I5 & I6 & I7). simpl.
        repeat split; auto; try congruence. intros Hr. rewrite (I3 Hr), E2. reflexivity.
  Qed.

  Lemma run_vops_spec vs : forall s, G s ->
    pC (run_vops k vs s) = pC s /\ pV (run_vops k vs s) = vops_f vs (pV s) /\ G (run_vops k vs s) /\
    (s_sa s = true -> s_sa (run_vops k vs s) = true) /\ s_al (run_vops k vs s) = s_al s.
  Proof.
    unfold run_vops, vops_f. induction vs as [|v vs IH]; intros s HG; cbn [fold_left].
    - repeat split; auto.
    - destruct (exec_vop v s HG) as (E1 & E2 & E3 & E4 & E5).
      destruct (IH _ E3) as (I1 & I2 & I3 & I4 & I5).
      repeat split; auto; try congruence.
  Qed.

  Definition step_raises (sp:step) (fail:option fpos) : bool :=
    match fail with Some p => valid_fpos sp p | None => false end.

  (* body + bookkeeping + callback, without the enclosing context manager *)
  Definition inner (sp:step) (fail:option fpos) (s:st) : st * bool :=
    let '(s2, r2) := run_body k (s_body sp) (match fail with Some (FBody j) => Some j | _ => None end) s in
    if r2 then (s2, true)
    else (run_vops k (s_ver sp) s2, match fail with Some FCallback => true | _ => false end).

  Lemma inner_spec sp fail s : G s -> Q s ->
    let '(s', r) := inner sp fail s in
    r = step_raises sp fail /\ pC s' = pC s /\ (r = false -> pV s' = step_f sp (pV s)) /\ G s' /\
    (s_sa s = true -> s_sa s' = true) /\ s_al s' = s_al s.
  Proof.
    intros HG HQ. unfold inner.
    pose proof (run_body_spec (s_body sp) (match fail with Some (FBody j) => Some j | _ => None end) s HG HQ) as B.
    destruct (run_body k (s_body sp) _ s) as [s2 r2]. destruct B as (B1 & B2 & B3 & B4 & B5 & B6 & B7).
    destruct r2.
    - repeat split; auto; try discriminate. destruct fail as [[j|]|]; simpl in *; auto; discriminate.
    - destruct (run_vops_spec (s_ver sp) s2 B4) as (V1 & V2 & V3 & V4 & V5).
      repeat split; auto; try congruence.
      + destruct fail as [[j|]|]; simpl in *; auto.
      + intros _. unfold step_f. rewrite V2, B3; auto.
  Qed.

  Lemma run_step_inner c sp fail s :
    run_step k c sp fail s =
    let '(b, s1) := bt_enter k c true s in let '(s3, r3) := inner sp fail s1 in (bt_exit b r3 s3, r3).
  Proof. unfold run_step, inner. destruct (bt_enter k c true s) as [b s1].
    destruct (run_body k (s_body sp) _ s1) as [s2 r2]. destruct r2; reflexivity. Qed.

  (* a step under nullcontext() *)
  Lemma step_null c sp fail s : begin_transaction c (s_al s) true = BtNull -> G s -> Q s ->
    let '(s', r) := run_step k c sp fail s in
    r = step_raises sp fail /\ pC s' = pC s /\ (r = false -> pV s' = step_f sp (pV s)) /\ G s' /\
    (s_sa s = true -> s_sa s' = true) /\ s_al s' = s_al s.
  Proof.
    intros Hb HG HQ. rewrite run_step_inner. unfold bt_enter. rewrite Hb.
    pose proof (inner_spec sp fail s HG HQ) as H. destruct (inner sp fail s) as [s3 r3]. simpl. exact H.
  Qed.

  (* a step under a _ProxyTransaction *)
  Lemma step_proxy c sp fail s : begin_transaction c (s_al s) true = BtProxy -> G s -> Q s ->
    let '(s', r) := run_step k c sp fail s in
    r = step_raises sp fail /\ s_sa s' = false /\ s_al s' = false /\ pC s' = pV s' /\
    pC s' = (if r then pC s else step_f sp (pV s)) /\ pending (s_db s') = None.
  Proof.
    intros Hb HG HQ. rewrite run_step_inner. unfold bt_enter. rewrite Hb.
    set (s1 := mkSt (s_db (sa_autobegin k s)) true true).
    assert (G1 : G s1).
    { unfold G, s1, sa_autobegin in *. simpl. intros Ek _. rewrite Ek. destruct s as [[C [p|]] sa al]; simpl in *.
      - destruct sa; simpl; intros H; discriminate.
      - destruct sa; simpl; [apply HG; auto|]. intros H; discriminate. }
    assert (E1 : pC s1 = pC s /\ pV s1 = pV s).
    { unfold pC, pV, s1, sa_autobegin. destruct s as [[C [p|]] sa al]; simpl;
        destruct kind_cases as [E|[E|E]]; rewrite E; destruct sa; simpl; auto. }
    assert (Q1 : Q s1). { unfold Q in *. destruct E1 as [-> ->]. auto. }
    pose proof (inner_spec sp fail s1 G1 Q1) as H. destruct (inner sp fail s1) as [s3 r3].
    destruct H as (H1 & H2 & H3 & H4 & H5 & H6). destruct E1 as [E1 E2].
    unfold bt_exit. replace (s_al s3) with true by (rewrite H6; reflexivity).
    destruct r3; unfold pC, pV, sa_rollback, sa_commit, db_rollback, db_commit in *; simpl;
      repeat split; auto; try congruence.
    rewrite <- E2. apply H3; auto.
  Qed.

  Definition next_fail (fail:option (nat*fpos)) : option (nat*fpos) :=
    match fail with Some (S n, p) => Some (n, p) | _ => None end.
  Definition here_fail (fail:option (nat*fpos)) : option fpos :=
    match fail with Some (O, p) => Some p | _ => None end.

  Lemma fidx_cons sp r fail :
    fidx (sp :: r) fail = if step_raises sp (here_fail fail) then Some O else option_map S (fidx r (next_fail fail)).
  Proof. destruct fail as [[[|n] p]|]; simpl; auto.
    - destruct (valid_fpos sp p); auto. destruct r; reflexivity.
    - destruct r; reflexivity. Qed.

  (* all steps under nullcontext(): one transaction, opened by somebody else, encloses the run *)
  Lemma steps_null c steps : (forall h, begin_transaction c h true = BtNull) -> k <> ImplicitCommitDDL ->
    forall fail s, G s ->
    let '(s', r) := run_steps k c steps fail s in
    (r = true <-> fidx steps fail <> None) /\ pC s' = pC s /\ (r = false -> pV s' = steps_f steps (pV s)) /\ G s' /\
    (s_sa s = true -> s_sa s' = true) /\ s_al s' = s_al s.
  Proof.
    intros Hb Hk. induction steps as [|sp steps IH]; intros fail s HG.
    - simpl. repeat split; auto; try discriminate; try (intros H; contradiction H; auto; fail).
    - cbn [run_steps]. fold (here_fail fail). fold (next_fail fail).
      assert (HQ : Q s) by (intros E; congruence).
      pose proof (step_null c sp (here_fail fail) s (Hb _) HG HQ) as S.
      destruct (run_step k c sp (here_fail fail) s) as [s1 r1]. destruct S as (S1 & S2 & S3 & S4 & S5 & S6).
      rewrite fidx_cons, <- S1. destruct r1.
      + repeat split; auto; try discriminate.
      + specialize (IH (next_fail fail) s1 S4). destruct (run_steps k c steps (next_fail fail) s1) as [s' r].
        destruct IH as (I1 & I2 & I3 & I4 & I5 & I6). repeat split; auto; try congruence.
        * intros Hr. apply I1 in Hr. destruct (fidx steps (next_fail fail)); simpl; congruence.
        * intros Hn. apply I1. destruct (fidx steps (next_fail fail)); simpl in *; congruence.
        * intros Hr. simpl. rewrite (I3 Hr), S3; auto.
  Qed.

  Definition count_done (steps:list step) (fail:option (nat*fpos)) : nat :=
    match fidx steps fail with Some j => j | None => length steps end.

  (* every step under its own _ProxyTransaction *)
  Lemma steps_proxy c steps : begin_transaction c false true = BtProxy ->
    forall fail s, G s -> Q s -> s_al s = false ->
    let '(s', r) := run_steps k c steps fail s in
    (r = true <-> fidx steps fail <> None) /\ s_al s' = false /\
    match count_done steps fail with
    | O => pC s' = pC s /\ (steps <> [] -> pending (s_db s') = None) /\ (steps = [] -> s' = s)
    | S _ => pC s' = steps_f (firstn (count_done steps fail) steps) (pV s) /\ pending (s_db s') = None
    end.
  Proof.
    intros Hb. induction steps as [|sp steps IH]; intros fail s HG HQ Hal.
    - simpl. unfold count_done. simpl. repeat split; auto; try discriminate; try (intros H; contradiction H; auto; fail).
    - cbn [run_steps]. fold (here_fail fail). fold (next_fail fail).
      assert (Hb' : begin_transaction c (s_al s) true = BtProxy) by (rewrite Hal; auto).
      pose proof (step_proxy c sp (here_fail fail) s Hb' HG HQ) as S.
      destruct (run_step k c sp (here_fail fail) s) as [s1 r1]. destruct S as (S1 & S2 & S3 & S4 & S5 & S6).
      unfold count_done. rewrite fidx_cons, <- S1. destruct r1.
      + repeat split; auto; try discriminate.
      + assert (G1 : G s1) by (intros _ E; congruence).
        assert (Q1 : Q s1) by (intros _; auto).
        specialize (IH (next_fail fail) s1 G1 Q1 S3). destruct (run_steps k c steps (next_fail fail) s1) as [s' r].
        destruct IH as (I1 & I2 & I3). unfold count_done in I3.
        assert (V1 : pV s1 = step_f sp (pV s)) by (rewrite <- S4; auto).
        destruct (fidx steps (next_fail fail)) as [j|] eqn:Ef; simpl.
        * split; [|split; auto]. { split; intros; [discriminate|apply I1; discriminate]. }
          destruct j as [|j]; simpl in I3 |- *.
          -- destruct I3 as (I3 & I4 & I5). split; [rewrite I3, S5; reflexivity|].
             destruct steps; [discriminate|apply I4; discriminate].
          -- destruct I3 as [I3 I4]. rewrite V1 in I3. split; auto.
        * split; [|split; auto]. { split; intros H; [apply I1 in H; exact H|contradiction H; reflexivity]. }
          destruct steps as [|sp2 steps]; simpl in I3 |- *.
          -- destruct I3 as (I3 & _ & I5). split; [rewrite I3, S5; reflexivity|].
             rewrite (I5 eq_refl). auto.
          -- destruct I3 as [I3 I4]. rewrite V1 in I3. split; auto.
  Qed.

  (* ---------------- run_migrations: get_current_heads + _ensure_version_table, then the steps *)
  Lemma set_vt_id d : vt d = true -> set_vt d = d.
  Proof. destruct d; simpl. intros ->. reflexivity. Qed.

  Lemma autobegin_spec s : G s ->
    let s1 := sa_autobegin k s in
    view (s_db s1) = view (s_db s) /\ committed (s_db s1) = committed (s_db s) /\ G s1 /\ s_sa s1 = true /\ s_al s1 = s_al s.
  Proof. intros HG. destruct s as [[C [p|]] sa al]; unfold G, sa_autobegin, db_begin, view in *; simpl in *;
    destruct kind_cases as [E|[E|E]]; rewrite E; destruct sa; simpl; repeat split; auto; try discriminate;
    intros; try (apply HG; auto). Qed.

  Definition prelude (s:st) : st :=
    let s1 := sa_autobegin k s in
    let v := view (s_db s1) in
    match (if vt v then vrows v else []) with [] => ensure_version_table k s1 | _ => s1 end.

  Lemma run_migrations_prelude c steps fail s : run_migrations k c steps fail s = run_steps k c steps fail (prelude s).
  Proof. reflexivity. Qed.

  Lemma prelude_spec s : G s -> Q s ->
    pC (prelude s) = pC s /\ pV (prelude s) = pi (set_vt (view (s_db s))) /\ G (prelude s) /\ Q (prelude s) /\
    s_sa (prelude s) = true /\ s_al (prelude s) = s_al s.
  Proof.
    intros HG HQ. unfold prelude. destruct (autobegin_spec s HG) as (A1 & A2 & A3 & A4 & A5).
    set (s1 := sa_autobegin k s) in *.
    assert (Q1 : Q s1). { unfold Q, pC, pV in *. rewrite A1, A2. auto. }
    assert (Same : vt (view (s_db s)) = true ->
              pC s1 = pC s /\ pV s1 = pi (set_vt (view (s_db s))) /\ G s1 /\ Q s1 /\ s_sa s1 = true /\ s_al s1 = s_al s).
    { intros Hv. unfold pC, pV. rewrite A1, A2, (set_vt_id _ Hv). repeat split; auto. }
    assert (Ens : ensure_version_table k s1 = if vt (view (s_db s1)) then s1 else sa_exec k true AVt s1).
    { unfold ensure_version_table. rewrite A4. simpl. unfold sa_autobegin. rewrite A4. reflexivity. }
    rewrite A1 in *. destruct (vt (view (s_db s))) eqn:Hv.
    - destruct (vrows (view (s_db s))); [rewrite Ens|]; auto.
    - rewrite Ens. destruct (exec_ddl_like true AVt s1 I A3 Q1) as (E1 & E2 & E3 & E4 & E5 & E6).
      unfold pC, pV in *. rewrite A1, A2 in *. repeat split; auto; try congruence.
      rewrite E2, <- Hpi. reflexivity.
  Qed.

  (* ---------------- the whole command *)
  Definition expected (i:input) : X :=
    let d0 := i_db0 i in
    if one_txn i
    then (if is_some (fail_index i) then pi d0 else steps_f (i_steps i) (pi (set_vt d0)))
    else match committed_count i with
         | O => pi d0
         | S _ => steps_f (firstn (committed_count i) (i_steps i)) (pi (set_vt d0))
         end.

  Lemma is_some_iff {A} (o:option A) : is_some o = true <-> o <> None.
  Proof. destruct o; simpl; split; congruence. Qed.

  Lemma iff_is_some {A} (r:bool) (o:option A) : (r = true <-> o <> None) -> r = is_some o.
  Proof. destruct r, o; simpl; intros [H1 H2]; auto; [exfalso; apply (H1 eq_refl); auto|apply H2; discriminate]. Qed.

  Lemma txn_run_proj i : i_kind i = k -> consistent i = true ->
    (o_raised (txn_run i) = true <-> fail_index i <> None) /\ pi (o_db (txn_run i)) = expected i.
  Proof.
    intros Hk Hc. unfold txn_run, expected, committed_count, fail_index, one_txn, consistent in *. unfold one_txn in *. cbv zeta. rewrite Hk in *.
    set (d0 := i_db0 i) in *. set (s0 := mkSt (mkDB d0 None) false false).
    assert (G0 : G s0) by (intros _ E; discriminate).
    assert (Q0 : Q s0) by (intros _; reflexivity).
    destruct (i_external i) eqn:Hext.
    - (* the caller holds a transaction *)
      simpl in Hc. cbv iota. assert (Hki : k <> ImplicitCommitDDL). { intros E. rewrite E in Hc. simpl in Hc. discriminate. }
      destruct (autobegin_spec s0 G0) as (A1 & A2 & A3 & A4 & A5). set (s1 := sa_autobegin k s0) in *.
      rewrite A4. set (c := mkMcfg (i_tddl i) (i_per_mig i) true false).
      assert (Hb : forall h p, begin_transaction c h p = BtNull) by reflexivity.
      unfold bt_enter. rewrite Hb. rewrite run_migrations_prelude.
      assert (Q1 : Q s1) by (intros E; congruence).
      destruct (prelude_spec s1 A3 Q1) as (P1 & P2 & P3 & P4 & P5 & P6).
      pose proof (steps_null c (i_steps i) (fun h => Hb h true) Hki (i_fail i) (prelude s1) P3) as S.
      destruct (run_steps k c (i_steps i) (i_fail i) (prelude s1)) as [s3 r]. destruct S as (S1 & S2 & S3 & S4 & S5 & S6).
      simpl. split; [exact S1|].
      assert (Er : r = is_some (fidx (i_steps i) (i_fail i))) by (apply iff_is_some; exact S1).
      rewrite <- Er. destruct r; simpl.
      + unfold pC in *. rewrite S2, P1, A2. reflexivity.
      + unfold pC, pV in *. rewrite (S3 eq_refl), P2, A1. reflexivity.
    - simpl in Hc. cbv iota. cbn [orb]. destruct (i_tddl i && negb (i_per_mig i)) eqn:Hone.
      + (* env.py's begin_transaction() opens the one transaction *)
        simpl in Hc. assert (Hki : k <> ImplicitCommitDDL). { intros E. rewrite E in Hc. simpl in Hc. discriminate. }
        apply andb_true_iff in Hone as [Ht Hp]. apply negb_true_iff in Hp. rewrite Ht, Hp.
        change (s_sa s0) with false.
        set (c := mkMcfg true false false false).
        assert (Hb : forall h, begin_transaction c h true = BtNull) by reflexivity.
        unfold bt_enter. change (begin_transaction c (s_al s0) false) with BtProxy. cbv iota.
        destruct (autobegin_spec s0 G0) as (A1 & A2 & A3 & A4 & A5).
        set (s1 := mkSt (s_db (sa_autobegin k s0)) true true).
        assert (G1 : G s1) by (exact A3).
        assert (Q1 : Q s1) by (intros E; congruence).
        rewrite run_migrations_prelude.
        destruct (prelude_spec s1 G1 Q1) as (P1 & P2 & P3 & P4 & P5 & P6).
        pose proof (steps_null c (i_steps i) Hb Hki (i_fail i) (prelude s1) P3) as S.
        destruct (run_steps k c (i_steps i) (i_fail i) (prelude s1)) as [s3 r]. destruct S as (S1 & S2 & S3 & S4 & S5 & S6).
        simpl. split; [exact S1|].
        assert (Er : r = is_some (fidx (i_steps i) (i_fail i))) by (apply iff_is_some; exact S1).
        rewrite <- Er. unfold bt_exit. replace (s_al s3) with true by (rewrite S6, P6; reflexivity).
        destruct r; simpl.
        * unfold pC in *. rewrite S2, P1. simpl. exact (f_equal pi A2).
        * unfold pC, pV in *. rewrite (S3 eq_refl), P2. simpl in A1 |- *. rewrite A1. reflexivity.
      + (* every migration in its own transaction *)
        change (s_sa s0) with false.
        set (c := mkMcfg (i_tddl i) (i_per_mig i) false false).
        assert (Hb0 : begin_transaction c false false = BtNull).
        { unfold c, begin_transaction. simpl. destruct (i_tddl i), (i_per_mig i); simpl in *; auto; discriminate. }
        assert (Hb : begin_transaction c false true = BtProxy).
        { unfold c, begin_transaction. simpl. destruct (i_tddl i), (i_per_mig i); simpl in *; auto; discriminate. }
        unfold bt_enter. change (s_al s0) with false. rewrite Hb0. rewrite run_migrations_prelude.
        destruct (prelude_spec s0 G0 Q0) as (P1 & P2 & P3 & P4 & P5 & P6).
        pose proof (steps_proxy c (i_steps i) Hb (i_fail i) (prelude s0) P3 P4 P6) as S.
        destruct (run_steps k c (i_steps i) (i_fail i) (prelude s0)) as [s3 r]. destruct S as (S1 & S2 & S3).
        simpl. split; [exact S1|]. unfold count_done in S3.
        destruct (fidx (i_steps i) (i_fail i)) as [j|]; simpl.
        * destruct j; [destruct S3 as (S3 & _)|destruct S3 as (S3 & _)]; unfold pC, pV in *; rewrite S3; auto.
          rewrite P2. reflexivity.
        * destruct (length (i_steps i)); [destruct S3 as (S3 & _)|destruct S3 as (S3 & _)]; unfold pC, pV in *; rewrite S3; auto.
          rewrite P2. reflexivity.
  Qed.
End Proj.

(* ------------------------------------------------------------------ instance 1: the version rows, every behaviour *)
Definition f_rows (a:act) (x:list N) : list N := match a with AVop v => apply_vop v x | _ => x end.
Lemma rows_Hpi a d : vrows (apply_act a d) = f_rows a (vrows d).
Proof. destruct a; reflexivity. Qed.
Lemma rows_Hddl k : k <> TxDDL -> forall x, (forall e, f_rows (AEff e) x = x) /\ f_rows AVt x = x.
Proof. intros _ x. split; reflexivity. Qed.

Lemma rows_body body x : body_f _ f_rows body x = x.
Proof. unfold body_f. induction body; simpl; auto. Qed.
Lemma rows_step sp x : step_f _ f_rows sp x = ver_rows sp x.
Proof. unfold step_f. rewrite rows_body. reflexivity. Qed.
Lemma rows_steps steps : forall x, steps_f _ f_rows steps x = rows_after steps x.
Proof. unfold steps_f, rows_after. induction steps as [|sp steps IH]; intros x; simpl; auto. rewrite rows_step. apply IH. Qed.

Lemma fidx_lt steps : forall fail j, fidx steps fail = Some j -> j < length steps.
Proof. induction steps as [|sp steps IH]; intros fail j; simpl.
  - destruct fail as [[[|n] p]|]; discriminate.
  - destruct fail as [[[|n] p]|]; try discriminate.
    + destruct (valid_fpos sp p); [|discriminate]. intros [= <-]. lia.
    + destruct (fidx steps (Some (n, p))) eqn:E; simpl; [|discriminate]. intros [= <-]. apply IH in E. lia. Qed.

Lemma rows_thm i : consistent i = true ->
  (o_raised (txn_run i) = true <-> fail_index i <> None) /\
  vrows (o_db (txn_run i)) = rows_after (firstn (committed_count i) (i_steps i)) (vrows (i_db0 i)).
Proof.
  intros Hc. destruct (txn_run_proj _ vrows f_rows (i_kind i) rows_Hpi (rows_Hddl _) i eq_refl Hc) as [H1 H2].
  split; auto. rewrite H2. unfold expected, committed_count. simpl.
  destruct (one_txn i).
  - destruct (fail_index i); simpl; auto. rewrite firstn_all, rows_steps. reflexivity.
  - destruct (fail_index i) as [[|j]|]; simpl; auto.
    + rewrite rows_steps. reflexivity.
    + destruct (i_steps i) as [|sp steps]; simpl; auto. rewrite firstn_all. apply (rows_steps (sp :: steps)).
Qed.

(* ------------------------------------------------------------------ instance 2: the whole state, real transactional DDL *)
Lemma tx_Hpi a d : id (apply_act a d) = apply_act a (id d). Proof. reflexivity. Qed.
Lemma tx_Hddl : TxDDL <> TxDDL -> forall x:dbstate, (forall e, apply_act (AEff e) x = x) /\ apply_act AVt x = x.
Proof. intros H; contradiction H; reflexivity. Qed.

Lemma tx_steps steps x : steps_f _ apply_act steps x = state_after steps x.
Proof. reflexivity. Qed.

Lemma tx_thm i : i_kind i = TxDDL ->
  o_db (txn_run i) =
    if one_txn i
    then (if is_some (fail_index i) then i_db0 i else state_after (i_steps i) (with_version_table (i_db0 i)))
    else match committed_count i with
         | O => i_db0 i
         | S _ => state_after (firstn (committed_count i) (i_steps i)) (with_version_table (i_db0 i))
         end.
Proof.
  intros Hk. assert (Hc : consistent i = true).
  { unfold consistent. rewrite Hk. simpl. rewrite andb_false_r. reflexivity. }
  destruct (txn_run_proj _ id apply_act TxDDL tx_Hpi tx_Hddl i Hk Hc) as [_ H]. exact H.
Qed.

(* projections of state_after *)
Lemma effs_fold_vops vs d : effs (fold_left (fun d v => apply_act (AVop v) d) vs d) = effs d.
Proof. revert d; induction vs; intros; simpl; auto. rewrite IHvs. reflexivity. Qed.
Lemma vt_fold_vops vs d : vt (fold_left (fun d v => apply_act (AVop v) d) vs d) = vt d.
Proof. revert d; induction vs; intros; simpl; auto. rewrite IHvs. reflexivity. Qed.
Lemma effs_fold_body body d :
  effs (fold_left (fun d x => apply_act (AEff (stmt_eff x)) d) body d) = fold_left (fun l x => apply_eff (stmt_eff x) l) body (effs d).
Proof. revert d; induction body; intros; simpl; auto. rewrite IHbody. reflexivity. Qed.
Lemma vt_fold_body body d : vt (fold_left (fun d x => apply_act (AEff (stmt_eff x)) d) body d) = vt d.
Proof. revert d; induction body; intros; simpl; auto. rewrite IHbody. reflexivity. Qed.
Lemma effs_state_after steps : forall d, effs (state_after steps d) = effs_after steps (effs d).
Proof. unfold state_after, effs_after. induction steps as [|sp steps IH]; intros d; simpl; auto.
  rewrite IH. unfold apply_step, body_effs. rewrite effs_fold_vops, effs_fold_body. reflexivity. Qed.
Lemma vt_state_after steps : forall d, vt (state_after steps d) = vt d.
Proof. unfold state_after. induction steps as [|sp steps IH]; intros d; simpl; auto.
  rewrite IH. unfold apply_step. rewrite vt_fold_vops, vt_fold_body. reflexivity. Qed.

(* ------------------------------------------------------------------ main theorem and decider soundness *)
Theorem C04_main_thm i : consistent i = true -> C04_holds i (txn_run i).
Proof.
  intros Hc. destruct (rows_thm i Hc) as [R1 R2]. unfold C04_holds. split; [exact R1|]. split.
  - intros x. rewrite R2. tauto.
  - intros Hk. rewrite (tx_thm i Hk). unfold committed_count.
    destruct (one_txn i).
    + destruct (fail_index i) as [j|]; simpl.
      * split; [tauto|]. intros _. destruct (vt (i_db0 i)); reflexivity.
      * rewrite firstn_all, effs_state_after, vt_state_after. simpl. split; [tauto|].
        intros Hn. destruct (i_steps i); [contradiction Hn; auto|]. simpl. destruct (vt (i_db0 i)); reflexivity.
    + destruct (fail_index i) as [[|j]|]; simpl.
      * split; [tauto|]. intros _. destruct (vt (i_db0 i)); reflexivity.
      * rewrite effs_state_after, vt_state_after. simpl. split; [tauto|]. intros _. destruct (vt (i_db0 i)); reflexivity.
      * rewrite !firstn_all. destruct (length (i_steps i)) eqn:El.
        -- destruct (i_steps i); [|discriminate]. simpl. split; [tauto|]. intros Hn. contradiction Hn; auto.
        -- rewrite effs_state_after, vt_state_after. simpl. split; [tauto|].
           intros _. destruct (vt (i_db0 i)); reflexivity.
Qed.

Lemma kind_eqb_eq a b : kind_eqb a b = true <-> a = b.
Proof. destruct a, b; simpl; split; congruence. Qed.

Theorem check_C04_sound i o : check_C04 i o = true -> C04_holds i o.
Proof.
  unfold check_C04, C04_holds. intros H.
  apply andb_true_iff in H as [H H3]. apply andb_true_iff in H as [H1 H2].
  split; [|split].
  - apply Bool.eqb_prop in H1. rewrite H1. apply is_some_iff.
  - apply seteqN_spec; auto.
  - intros Hk. rewrite Hk in H3. simpl in H3. apply andb_true_iff in H3 as [H3 H4]. split.
    + apply seteqN_spec; auto.
    + intros Hn. destruct (i_steps i); [contradiction Hn; auto|]. apply Bool.eqb_prop in H4. exact H4.
Qed.

(* ------------------------------------------------------------------ the clauses of the property, one by one *)
Lemma consistent_tx i : i_kind i = TxDDL -> consistent i = true.
Proof. intros Hk. unfold consistent. rewrite Hk. simpl. rewrite andb_false_r. reflexivity. Qed.
Lemma consistent_per_step i : one_txn i = false -> consistent i = true.
Proof. intros H. unfold consistent. rewrite H. reflexivity. Qed.

Lemma version_rows_thm i : consistent i = true ->
  vrows (o_db (txn_run i)) = rows_after (firstn (committed_count i) (i_steps i)) (vrows (i_db0 i)).
Proof. intros Hc. apply (rows_thm i Hc). Qed.

Lemma failed_not_recorded_thm i j : consistent i = true -> fail_index i = Some j ->
  o_raised (txn_run i) = true /\
  exists c, c <= j /\ j < length (i_steps i) /\
    vrows (o_db (txn_run i)) = rows_after (firstn c (i_steps i)) (vrows (i_db0 i)).
Proof. intros Hc Hf. destruct (rows_thm i Hc) as [R1 R2]. split. { apply R1. rewrite Hf. discriminate. }
  exists (committed_count i). unfold committed_count in *. rewrite Hf in *. unfold fail_index in Hf. apply fidx_lt in Hf.
  destruct (one_txn i); repeat split; auto; lia. Qed.

Lemma all_or_nothing_thm i : i_kind i = TxDDL -> one_txn i = true -> fail_index i <> None ->
  o_db (txn_run i) = i_db0 i.
Proof. intros Hk H1 Hf. rewrite (tx_thm i Hk), H1. destruct (fail_index i); [reflexivity|contradiction Hf; auto]. Qed.

Lemma per_migration_thm i j : i_kind i = TxDDL -> one_txn i = false -> fail_index i = Some j ->
  o_db (txn_run i) = match j with
                     | O => i_db0 i
                     | S _ => state_after (firstn j (i_steps i)) (with_version_table (i_db0 i))
                     end.
Proof. intros Hk H1 Hf. rewrite (tx_thm i Hk), H1. unfold committed_count. rewrite Hf, H1. reflexivity. Qed.

Lemma nontransactional_thm i j : one_txn i = false -> fail_index i = Some j ->
  vrows (o_db (txn_run i)) = rows_after (firstn j (i_steps i)) (vrows (i_db0 i)).
Proof. intros H1 Hf. rewrite (version_rows_thm i (consistent_per_step i H1)). unfold committed_count. rewrite Hf, H1. reflexivity. Qed.

Lemma success_thm i : consistent i = true -> fail_index i = None ->
  o_raised (txn_run i) = false /\ vrows (o_db (txn_run i)) = rows_after (i_steps i) (vrows (i_db0 i)).
Proof. intros Hc Hf. destruct (rows_thm i Hc) as [R1 R2]. split.
  - destruct (o_raised (txn_run i)); auto. exfalso. apply (proj1 R1 eq_refl). exact Hf.
  - rewrite R2. unfold committed_count. rewrite Hf, firstn_all. reflexivity. Qed.
