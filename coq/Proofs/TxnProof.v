(* C04 — proofs.  A generic development over a projection `pi` of the database state (instantiated with the version
   rows for every behaviour, and with the whole state for real transactional DDL), then the decider soundness and the
   main theorem by case analysis on which level opens the transaction and induction on the step list. *)
From AV Require Import Spec.C04.
From Coq Require Import Lia.

Definition set_vt (d:dbstate) : dbstate := mkDb (effs d) true (vrows d).

Section Proj.
  Variable X : Type.
  Variable pi : dbstate -> X.
  Variable f : act -> X -> X.
  Variable k : kind.
  Hypothesis Hpi : forall a d, pi (apply_act a d) = f a (pi d).
  (* a statement that is executed as DDL outside real transactional DDL is invisible through pi *)
  Hypothesis Hddl : k <> TxDDL -> forall x, (forall e, f (AEff e) x = x) /\ f AVt x = x.

  Definition pC (s:st) : X := pi (committed (s_db s)).
  Definition pV (s:st) : X := pi (view (s_db s)).
  Definition G (s:st) : Prop := k = TxDDL -> s_sa s = true -> pending (s_db s) <> None.
  Definition Q (s:st) : Prop := k = ImplicitCommitDDL -> pC s = pV s.

  Definition ddl_like (a:act) : Prop := match a with AVop _ => False | _ => True end.

  Lemma f_ddl a x : k <> TxDDL -> ddl_like a -> f a x = x.
  Proof. intros Hk Ha. destruct (Hddl Hk x) as [H1 H2]. destruct a; simpl in Ha; auto. contradiction. Qed.

  (* executing AEff / AVt, as DDL or as DML *)
  Opaque apply_act.
  Ltac unf := unfold G, Q, pC, pV, sa_exec, sa_autobegin, db_exec, db_join, db_open, db_begin, view in *; simpl in *.
  Lemma kind_cases : k = TxDDL \/ k = ImplicitCommitDDL \/ k = Pysqlite.
  Proof. destruct k; auto. Qed.

  Lemma exec_ddl_like isddl a s : ddl_like a -> G s -> Q s ->
    let s' := sa_exec k isddl a s in
    pC s' = pC s /\ pV s' = f a (pV s) /\ G s' /\ Q s' /\ s_sa s' = true /\ s_al s' = s_al s.
  Proof.
    intros Ha HG HQ. destruct s as [[C [p|]] sa al]; unf.
    - (* a transaction is open at the database *)
      destruct kind_cases as [Ek|[Ek|Ek]]; destruct isddl, sa; rewrite Ek; unf; rewrite ?Hpi;
        repeat split; auto; try congruence; try discriminate; intros;
        rewrite ?(f_ddl a (pi p)) by (try (rewrite Ek; discriminate); auto); auto;
        try (symmetry; apply HQ; auto; fail); try (apply HQ; auto; fail).
    - destruct kind_cases as [Ek|[Ek|Ek]]; destruct isddl, sa; rewrite Ek; unf; rewrite ?Hpi;
        repeat split; auto; try congruence; try discriminate; intros;
        try (exfalso; apply HG; auto; fail);
        rewrite ?(f_ddl a (pi C)) by (try (rewrite Ek; discriminate); auto); auto.
  Qed.

  (* executing a bookkeeping statement *)
  Lemma exec_vop v s : G s ->
    let s' := sa_exec k false (AVop v) s in
    pC s' = pC s /\ pV s' = f (AVop v) (pV s) /\ G s' /\ s_sa s' = true /\ s_al s' = s_al s.
  Proof.
    intros HG. destruct s as [[C [p|]] sa al]; unf.
    - destruct kind_cases as [Ek|[Ek|Ek]]; destruct sa; rewrite Ek; unf; rewrite ?Hpi;
        repeat split; auto; try congruence; try discriminate.
    - destruct kind_cases as [Ek|[Ek|Ek]]; destruct sa; rewrite Ek; unf; rewrite ?Hpi;
        repeat split; auto; try congruence; try discriminate;
        intros; exfalso; apply HG; auto.
  Qed.

  Transparent apply_act.


  Definition body_f (body:list bitem) (x:X) : X := fold_left (fun x st => f (AEff (stmt_eff st)) x) (body_stmts body) x.
  Definition vops_f (vs:list vop) (x:X) : X := fold_left (fun x v => f (AVop v) x) vs x.
  Definition step_f (sp:step) (x:X) : X := vops_f (s_ver sp) (body_f (s_body sp) x).
  Definition steps_f (steps:list step) (x:X) : X := fold_left (fun x sp => step_f sp x) steps x.

  Lemma run_vops_spec vs : forall s, G s ->
    pC (run_vops k vs s) = pC s /\ pV (run_vops k vs s) = vops_f vs (pV s) /\ G (run_vops k vs s) /\
    (s_sa s = true -> s_sa (run_vops k vs s) = true) /\ s_al (run_vops k vs s) = s_al s.
  Proof.
    unfold run_vops, vops_f. induction vs as [|v vs IH]; intros s HG; cbn [fold_left].
    - repeat split; auto.
    - destruct (exec_vop v s HG) as (E1 & E2 & E3 & E4 & E5).
      destruct (IH _ E3) as (I1 & I2 & I3 & I4 & I5).
      repeat split; auto; try congruence.
  Qed.

  (* ---------------- run_migrations: get_current_heads + _ensure_version_table, then the steps *)
  Lemma set_vt_id d : vt d = true -> set_vt d = d.
  Proof. destruct d; simpl. intros ->. reflexivity. Qed.

  Lemma autobegin_spec s : G s ->
    let s1 := sa_autobegin k s in
    view (s_db s1) = view (s_db s) /\ committed (s_db s1) = committed (s_db s) /\ G s1 /\ s_sa s1 = true /\ s_al s1 = s_al s.
  Proof. intros HG. destruct s as [[C [p|]] sa al]; unfold G, sa_autobegin, db_begin, view in *; simpl in *;
    destruct kind_cases as [E|[E|E]]; rewrite E; destruct sa; simpl; repeat split; auto; try discriminate;
    intros; try (apply HG; auto). Qed.


  (* ---------------- the effect of bodies, steps and step lists on the pair (pC, pV), abstractly *)
  Fixpoint autos_cv (xs:list aitem) (v:X) : X * bool :=
    match xs with
    | [] => (v, false)
    | ARaise :: _ => (v, true)
    | AStmt x :: r => autos_cv r (f (AEff (stmt_eff x)) v)
    end.
  Fixpoint items_cv (ext:bool) (items:list bitem) (c v:X) : X * X * bool :=
    match items with
    | [] => (c, v, false)
    | BRaise :: _ => (c, v, true)
    | BStmt x :: r => items_cv ext r c (f (AEff (stmt_eff x)) v)
    | BAuto xs :: r => if ext then (c, v, true)
                       else let '(v', rr) := autos_cv xs v in
                            if rr then (v', v', true) else items_cv ext r v' v'
    | BTry xs :: r => if ext then items_cv ext r c v
                      else let '(v', _) := autos_cv xs v in items_cv ext r v' v'
    end.
  Definition step_cv (ext:bool) (sp:step) (c v:X) : X * X * bool :=
    let '(c1, v1, r2) := items_cv ext (s_body sp) c v in
    if r2 then (c1, v1, true) else (c1, vops_f (s_ver sp) v1, s_cb_raises sp).
  Fixpoint null_cv (ext:bool) (steps:list step) (c v:X) : X * X * bool :=
    match steps with
    | [] => (c, v, false)
    | sp :: r => let '(c1, v1, r1) := step_cv ext sp c v in
                 if r1 then (c1, v1, true) else null_cv ext r c1 v1
    end.
  Fixpoint proxy_cv (steps:list step) (c v:X) : X * X * bool :=
    match steps with
    | [] => (c, v, false)
    | sp :: r => let '(c1, v1, r1) := step_cv false sp c v in
                 if r1 then (c1, c1, true) else proxy_cv r v1 v1
    end.

  Lemma exec_auto_pV a s : pV (sa_exec_auto a s) = f a (pV s).
  Proof. unfold pV. exact (Hpi a (view (s_db s))). Qed.

  Lemma run_autos_spec xs : forall s, pending (s_db s) = None ->
    let '(s', r) := run_autos xs s in
    (pV s', r) = autos_cv xs (pV s) /\ pending (s_db s') = None /\ s_sa s' = s_sa s /\ s_al s' = s_al s.
  Proof.
    induction xs as [|[x|] xs IH]; intros s Hp; simpl; auto.
    specialize (IH (sa_exec_auto (AEff (stmt_eff x)) s) eq_refl).
    destruct (run_autos xs (sa_exec_auto (AEff (stmt_eff x)) s)) as [s' r].
    destruct IH as (I1 & I2 & I3 & I4). repeat split; auto.
    rewrite I1, exec_auto_pV. reflexivity.
  Qed.

  Lemma block_spec xs s : G s -> s_sa s = true ->
    let '(s', r) := autocommit_block k xs s in
    (if s_al s
     then (let '(v', rr) := autos_cv xs (pV s) in pC s' = v' /\ pV s' = v' /\ r = rr)
     else (s' = s /\ r = true)) /\
    G s' /\ s_sa s' = true /\ s_al s' = s_al s.
  Proof.
    intros HG Hsa. unfold autocommit_block. rewrite Hsa. destruct (s_al s) eqn:Hal; simpl.
    2:{ repeat split; auto. }
    set (s2 := mkSt (db_commit (s_db s)) true false).
    pose proof (run_autos_spec xs s2 eq_refl) as R. destruct (run_autos xs s2) as [s3 r].
    destruct R as (R1 & R2 & R3 & R4).
    assert (V2 : pV s2 = pV s). { unfold pV, s2, db_commit, view. simpl. reflexivity. }
    rewrite V2 in R1. destruct (autos_cv xs (pV s)) as [v' rr]. injection R1 as R1 Rr.
    set (s4 := mkSt (s_db s3) false (s_al s3)).
    assert (G4 : G s4) by (intros _ E; discriminate).
    destruct (autobegin_spec s4 G4) as (A1 & A2 & A3 & A4 & A5).
    assert (E3 : committed (s_db s3) = view (s_db s3)). { unfold view. rewrite R2. reflexivity. }
    split; [|split; [|split]]; auto.
    unfold pC, pV in *. simpl in A1, A2 |- *. rewrite A1, A2, E3. auto.
  Qed.

  Lemma run_items_spec items : forall s, G s -> Q s -> s_sa s = true ->
    let '(s', r) := run_items k items s in
    (pC s', pV s', r) = items_cv (negb (s_al s)) items (pC s) (pV s) /\
    G s' /\ Q s' /\ s_sa s' = true /\ s_al s' = s_al s.
  Proof.
    induction items as [|[x|xs| |ys] items IH]; intros s HG HQ Hsa; simpl; auto.
    - destruct (exec_ddl_like (stmt_isddl x) (AEff (stmt_eff x)) s I HG HQ) as (E1 & E2 & E3 & E4 & E5 & E6).
      specialize (IH _ E3 E4 E5). destruct (run_items k items _) as [s' r].
      destruct IH as (I1 & I2 & I3 & I4 & I5). rewrite E1, E2, E6 in I1. repeat split; auto; congruence.
    - pose proof (block_spec xs s HG Hsa) as B. destruct (autocommit_block k xs s) as [s1 r1].
      destruct B as (B1 & B2 & B3 & B4). destruct (s_al s) eqn:Hal; simpl.
      + destruct (autos_cv xs (pV s)) as [v' rr]. destruct B1 as (B1 & B1' & ->). destruct rr.
        * repeat split; auto; try congruence; try (intros _; congruence).
        * assert (Q1 : Q s1) by (intros _; congruence).
          specialize (IH s1 B2 Q1 B3). destruct (run_items k items s1) as [s' r].
          destruct IH as (I1 & I2 & I3 & I4 & I5). rewrite B1, B1', B4 in I1. simpl in I1.
          repeat split; auto; congruence.
      + destruct B1 as [-> ->]. repeat split; auto.
    - pose proof (block_spec ys s HG Hsa) as B. destruct (autocommit_block k ys s) as [s1 r1].
      destruct B as (B1 & B2 & B3 & B4). destruct (s_al s) eqn:Hal; simpl.
      + destruct (autos_cv ys (pV s)) as [v' rr]. destruct B1 as (B1 & B1' & _).
        assert (Q1 : Q s1) by (intros _; congruence).
        specialize (IH s1 B2 Q1 B3). destruct (run_items k items s1) as [s' r].
        destruct IH as (I1 & I2 & I3 & I4 & I5). rewrite B1, B1', B4 in I1. simpl in I1.
        repeat split; auto; congruence.
      + destruct B1 as [-> _]. specialize (IH s HG HQ Hsa). rewrite Hal in IH. simpl in IH. exact IH.
  Qed.

  Lemma inner_spec sp s : G s -> Q s -> s_sa s = true ->
    let '(s2, r2) := run_items k (s_body sp) s in
    let '(s3, r3) := if r2 then (s2, true) else (run_vops k (s_ver sp) s2, s_cb_raises sp) in
    (pC s3, pV s3, r3) = step_cv (negb (s_al s)) sp (pC s) (pV s) /\ G s3 /\ s_sa s3 = true /\ s_al s3 = s_al s.
  Proof.
    intros HG HQ Hsa. pose proof (run_items_spec (s_body sp) s HG HQ Hsa) as B.
    destruct (run_items k (s_body sp) s) as [s2 r2]. destruct B as (B1 & B2 & B3 & B4 & B5).
    unfold step_cv. destruct (items_cv (negb (s_al s)) (s_body sp) (pC s) (pV s)) as [[c1 v1] rr].
    injection B1 as B1 B1' ->. destruct rr.
    - repeat split; auto; congruence.
    - destruct (run_vops_spec (s_ver sp) s2 B2) as (V1 & V2 & V3 & V4 & V5).
      repeat split; auto; congruence.
  Qed.

  (* a step under nullcontext() *)
  Lemma step_null c sp s : begin_transaction c (s_al s) true = BtNull -> G s -> Q s -> s_sa s = true ->
    let '(s', r) := run_step k c sp s in
    (pC s', pV s', r) = step_cv (negb (s_al s)) sp (pC s) (pV s) /\ G s' /\ s_sa s' = true /\ s_al s' = s_al s.
  Proof.
    intros Hb HG HQ Hsa. unfold run_step, bt_enter. rewrite Hb.
    pose proof (inner_spec sp s HG HQ Hsa) as H. destruct (run_items k (s_body sp) s) as [s2 r2].
    destruct (if r2 then (s2, true) else (run_vops k (s_ver sp) s2, s_cb_raises sp)) as [s3 r3]. simpl. exact H.
  Qed.

  (* a step under a _ProxyTransaction *)
  Lemma step_proxy c sp s : begin_transaction c (s_al s) true = BtProxy -> G s -> Q s -> s_al s = false ->
    let '(s', r) := run_step k c sp s in
    let '(c1, v1, r1) := step_cv false sp (pC s) (pV s) in
    r = r1 /\ pC s' = (if r1 then c1 else v1) /\ pV s' = pC s' /\ s_sa s' = false /\ s_al s' = false.
  Proof.
    intros Hb HG HQ Hal. unfold run_step, bt_enter. rewrite Hb.
    set (s1 := mkSt (s_db (sa_autobegin k s)) true true).
    destruct (autobegin_spec s HG) as (A1 & A2 & A3 & A4 & A5).
    assert (G1 : G s1). { intros Ek _. unfold s1. simpl. apply (A3 Ek A4). }
    assert (E1 : pC s1 = pC s /\ pV s1 = pV s). { unfold pC, pV, s1. simpl. rewrite A1, A2. auto. }
    assert (Q1 : Q s1). { unfold Q in *. destruct E1 as [-> ->]. auto. }
    pose proof (inner_spec sp s1 G1 Q1 eq_refl) as H. destruct (run_items k (s_body sp) s1) as [s2 r2].
    destruct (if r2 then (s2, true) else (run_vops k (s_ver sp) s2, s_cb_raises sp)) as [s3 r3].
    destruct H as (H1 & H2 & H3 & H4). destruct E1 as [E1 E2]. rewrite E1, E2 in H1. simpl in H1.
    destruct (step_cv false sp (pC s) (pV s)) as [[c1 v1] r1]. injection H1 as H1 H1' ->.
    unfold bt_exit. replace (s_al s3) with true by (rewrite H4; reflexivity).
    destruct r1; unfold pC, pV, sa_rollback, sa_commit, db_rollback, db_commit, view in *; simpl; repeat split; auto.
  Qed.

  Lemma steps_null c steps : (forall h, begin_transaction c h true = BtNull) -> k <> ImplicitCommitDDL ->
    forall s, G s -> s_sa s = true ->
    let '(s', r) := run_steps k c steps s in
    (pC s', pV s', r) = null_cv (negb (s_al s)) steps (pC s) (pV s) /\ G s' /\ s_sa s' = true /\ s_al s' = s_al s.
  Proof.
    intros Hb Hk. induction steps as [|sp steps IH]; intros s HG Hsa; simpl; auto.
    assert (HQ : Q s) by (intros E; congruence).
    pose proof (step_null c sp s (Hb _) HG HQ Hsa) as S. destruct (run_step k c sp s) as [s1 r1].
    destruct S as (S1 & S2 & S3 & S4). destruct (step_cv (negb (s_al s)) sp (pC s) (pV s)) as [[c1 v1] rr].
    injection S1 as S1 S1' ->. destruct rr.
    - repeat split; auto; congruence.
    - specialize (IH s1 S2 S3). destruct (run_steps k c steps s1) as [s' r]. destruct IH as (I1 & I2 & I3 & I4).
      rewrite S1, S1', S4 in I1. repeat split; auto; congruence.
  Qed.

  Lemma steps_proxy c steps : begin_transaction c false true = BtProxy ->
    forall s, G s -> Q s -> s_al s = false ->
    let '(s', r) := run_steps k c steps s in
    (pC s', pV s', r) = proxy_cv steps (pC s) (pV s).
  Proof.
    intros Hb. induction steps as [|sp steps IH]; intros s HG HQ Hal; simpl; auto.
    assert (Hb' : begin_transaction c (s_al s) true = BtProxy) by (rewrite Hal; auto).
    pose proof (step_proxy c sp s Hb' HG HQ Hal) as S. destruct (run_step k c sp s) as [s1 r1].
    destruct (step_cv false sp (pC s) (pV s)) as [[c1 v1] rr]. destruct S as (-> & S2 & S3 & S4 & S5). destruct rr.
    - rewrite S3, S2. reflexivity.
    - assert (G1 : G s1) by (intros _ E; congruence).
      assert (Q1 : Q s1) by (intros _; auto).
      specialize (IH s1 G1 Q1 S5). destruct (run_steps k c steps s1) as [s' r]. rewrite S3, S2 in IH. exact IH.
  Qed.

  Definition prelude (s:st) : st :=
    let s1 := sa_autobegin k s in
    let v := view (s_db s1) in
    match (if vt v then vrows v else []) with [] => ensure_version_table k s1 | _ => s1 end.

  Lemma run_migrations_prelude c steps s : run_migrations k c steps s = run_steps k c steps (prelude s).
  Proof. reflexivity. Qed.

  Lemma prelude_spec s : G s -> Q s ->
    pC (prelude s) = pC s /\ pV (prelude s) = pi (set_vt (view (s_db s))) /\ G (prelude s) /\ Q (prelude s) /\
    s_sa (prelude s) = true /\ s_al (prelude s) = s_al s.
  Proof.
    intros HG HQ. unfold prelude. destruct (autobegin_spec s HG) as (A1 & A2 & A3 & A4 & A5).
    set (s1 := sa_autobegin k s) in *.
    assert (Q1 : Q s1). { unfold Q, pC, pV in *. rewrite A1, A2. auto. }
    assert (Same : vt (view (s_db s)) = true ->
              pC s1 = pC s /\ pV s1 = pi (set_vt (view (s_db s))) /\ G s1 /\ Q s1 /\ s_sa s1 = true /\ s_al s1 = s_al s).
    { intros Hv. unfold pC, pV. rewrite A1, A2, (set_vt_id _ Hv). repeat split; auto. }
    assert (Ens : ensure_version_table k s1 = if vt (view (s_db s1)) then s1 else sa_exec k true AVt s1).
    { unfold ensure_version_table. rewrite A4. simpl. unfold sa_autobegin. rewrite A4. reflexivity. }
    rewrite A1 in *. destruct (vt (view (s_db s))) eqn:Hv.
    - destruct (vrows (view (s_db s))); [rewrite Ens|]; auto.
    - rewrite Ens. destruct (exec_ddl_like true AVt s1 I A3 Q1) as (E1 & E2 & E3 & E4 & E5 & E6).
      unfold pC, pV in *. rewrite A1, A2 in *. repeat split; auto; try congruence.
      rewrite E2, <- Hpi. reflexivity.
  Qed.


  (* ---------------- the whole command *)
  Definition abs_run (i:input) : X * bool :=
    let c0 := pi (i_db0 i) in
    let v0 := pi (set_vt (i_db0 i)) in
    if one_txn i
    then (let '(c, v, r) := null_cv (i_external i) (i_steps i) c0 v0 in (if r then c else v, r))
    else (let '(c, v, r) := proxy_cv (i_steps i) c0 v0 in (c, r)).

  Lemma is_some_iff {A} (o:option A) : is_some o = true <-> o <> None.
  Proof. destruct o; simpl; split; congruence. Qed.

  Lemma txn_run_proj i : i_kind i = k -> consistent i = true ->
    (pi (o_db (txn_run i)), o_raised (txn_run i)) = abs_run i.
  Proof.
    intros Hk Hc. unfold txn_run, abs_run, one_txn, consistent in *. unfold one_txn in *. cbv zeta. rewrite Hk in *.
    set (d0 := i_db0 i) in *. set (s0 := mkSt (mkDB d0 None) false false).
    assert (G0 : G s0) by (intros _ E; discriminate).
    assert (Q0 : Q s0) by (intros _; reflexivity).
    destruct (i_external i) eqn:Hext.
    - (* the caller holds a transaction *)
      simpl in Hc. cbv iota. cbn [orb].
      assert (Hki : k <> ImplicitCommitDDL). { intros E. rewrite E in Hc. simpl in Hc. discriminate. }
      destruct (autobegin_spec s0 G0) as (A1 & A2 & A3 & A4 & A5). set (s1 := sa_autobegin k s0) in *.
      rewrite A4. set (c := mkMcfg (i_tddl i) (i_per_mig i) true false).
      assert (Hb : forall h p, begin_transaction c h p = BtNull) by reflexivity.
      unfold bt_enter. rewrite Hb. rewrite run_migrations_prelude.
      assert (Q1 : Q s1) by (intros E; congruence).
      destruct (prelude_spec s1 A3 Q1) as (P1 & P2 & P3 & P4 & P5 & P6).
      pose proof (steps_null c (i_steps i) (fun h => Hb h true) Hki (prelude s1) P3 P5) as S.
      destruct (run_steps k c (i_steps i) (prelude s1)) as [s3 r]. destruct S as (S1 & S2 & S3 & S4).
      assert (Eal : s_al (prelude s1) = false) by (rewrite P6; exact A5).
      rewrite Eal, P1, P2 in S1. cbn [negb] in S1. unfold pC, pV in *. rewrite A1, A2 in S1. change (view (s_db s0)) with d0 in S1. change (committed (s_db s0)) with d0 in S1.
      destruct (null_cv true (i_steps i) (pi d0) (pi (set_vt d0))) as [[cc vv] rr]. injection S1 as S1 S1' ->.
      destruct rr; simpl; congruence.
    - simpl in Hc. cbv iota. cbn [orb]. destruct (i_tddl i && negb (i_per_mig i)) eqn:Hone.
      + (* env.py's begin_transaction() opens the one transaction *)
        simpl in Hc. assert (Hki : k <> ImplicitCommitDDL). { intros E. rewrite E in Hc. simpl in Hc. discriminate. }
        apply andb_true_iff in Hone as [Ht Hp]. apply negb_true_iff in Hp. rewrite Ht, Hp.
        change (s_sa s0) with false.
        set (c := mkMcfg true false false false).
        assert (Hb : forall h, begin_transaction c h true = BtNull) by reflexivity.
        unfold bt_enter. change (begin_transaction c (s_al s0) false) with BtProxy. cbv iota.
        destruct (autobegin_spec s0 G0) as (A1 & A2 & A3 & A4 & A5).
        set (s1 := mkSt (s_db (sa_autobegin k s0)) true true).
        assert (G1 : G s1). { intros Ek _. unfold s1. simpl. apply (A3 Ek A4). }
        assert (Q1 : Q s1) by (intros E; congruence).
        rewrite run_migrations_prelude.
        destruct (prelude_spec s1 G1 Q1) as (P1 & P2 & P3 & P4 & P5 & P6).
        pose proof (steps_null c (i_steps i) Hb Hki (prelude s1) P3 P5) as S.
        destruct (run_steps k c (i_steps i) (prelude s1)) as [s3 r]. destruct S as (S1 & S2 & S3 & S4).
        assert (Eal : s_al (prelude s1) = true) by (rewrite P6; reflexivity).
        rewrite Eal, P1, P2 in S1. cbn [negb] in S1. unfold pC, pV in *. cbn [s_db s1] in S1. rewrite A1, A2 in S1. change (view (s_db s0)) with d0 in S1. change (committed (s_db s0)) with d0 in S1.
        destruct (null_cv false (i_steps i) (pi d0) (pi (set_vt d0))) as [[cc vv] rr]. injection S1 as S1 S1' ->.
        unfold bt_exit. replace (s_al s3) with true by (rewrite S4, Eal; reflexivity).
        destruct rr; simpl; congruence.
      + (* every migration in its own transaction *)
        change (s_sa s0) with false.
        set (c := mkMcfg (i_tddl i) (i_per_mig i) false false).
        assert (Hb0 : begin_transaction c false false = BtNull).
        { unfold c, begin_transaction. simpl. destruct (i_tddl i), (i_per_mig i); simpl in *; auto; discriminate. }
        assert (Hb : begin_transaction c false true = BtProxy).
        { unfold c, begin_transaction. simpl. destruct (i_tddl i), (i_per_mig i); simpl in *; auto; discriminate. }
        unfold bt_enter. change (s_al s0) with false. rewrite Hb0. rewrite run_migrations_prelude.
        destruct (prelude_spec s0 G0 Q0) as (P1 & P2 & P3 & P4 & P5 & P6).
        pose proof (steps_proxy c (i_steps i) Hb (prelude s0) P3 P4 P6) as S.
        destruct (run_steps k c (i_steps i) (prelude s0)) as [s3 r].
        rewrite P1, P2 in S. unfold pC, pV in *. change (view (s_db s0)) with d0 in S. change (committed (s_db s0)) with d0 in S.
        destruct (proxy_cv (i_steps i) (pi d0) (pi (set_vt d0))) as [[cc vv] rr]. injection S as S S' ->.
        simpl. congruence.
  Qed.
End Proj.

(* ------------------------------------------------------------------ pure facts about the abstract pair semantics *)
Section Abs.
  Variable X : Type.
  Variable f : act -> X -> X.
  Notation autos_cv := (autos_cv X f).
  Notation items_cv := (items_cv X f).
  Notation step_cv := (step_cv X f).
  Notation null_cv := (null_cv X f).
  Notation proxy_cv := (proxy_cv X f).
  Notation body_f := (body_f X f).
  Notation step_f := (step_f X f).
  Notation steps_f := (steps_f X f).

  Definition astmts (xs:list aitem) : list stmt := flat_map (fun a => match a with AStmt x => [x] | ARaise => [] end) xs.
  Definition fold_stmts (l:list stmt) (v:X) : X := fold_left (fun x st => f (AEff (stmt_eff st)) x) l v.

  Lemma autos_cv_spec xs : forall v,
    snd (autos_cv xs v) = autos_raise xs /\ (autos_raise xs = false -> fst (autos_cv xs v) = fold_stmts (astmts xs) v).
  Proof. induction xs as [|[x|] xs IH]; intros v; simpl; auto. split; [reflexivity|discriminate]. Qed.

  Lemma autos_cv_run xs : forall v, fst (autos_cv xs v) = fold_stmts (autos_run xs) v.
  Proof. induction xs as [|[x|] xs IH]; intros v; simpl; auto. Qed.

  Lemma items_cv_spec ext items : forall c v,
    let '(c1, v1, r) := items_cv ext items c v in
    r = items_raise ext items /\
    (r = false -> ext = false \/ try_free items = true -> v1 = body_f items v) /\
    (enters_auto ext items = false -> c1 = c).
  Proof.
    induction items as [|[x|xs| |ys] items IH]; intros c v; simpl; auto.
    - specialize (IH c (f (AEff (stmt_eff x)) v)). destruct (items_cv ext items c _) as [[c1 v1] r]. exact IH.
    - destruct ext; simpl.
      + repeat split; auto; discriminate.
      + destruct (autos_cv_spec xs v) as [A1 A2]. destruct (autos_cv xs v) as [v' rr]. simpl in A1, A2. subst rr.
        destruct (autos_raise xs) eqn:Ea; simpl.
        * repeat split; auto; discriminate.
        * specialize (IH v' v'). destruct (items_cv false items v' v') as [[c1 v1] r]. destruct IH as (I1 & I2 & I3).
          repeat split; auto; try discriminate. intros Hr _. rewrite (I2 Hr (or_introl eq_refl)), (A2 eq_refl).
          unfold body_f, body_stmts, fold_stmts. cbn [flat_map item_stmts]. rewrite fold_left_app. reflexivity.
    - repeat split; auto; discriminate.
    - destruct ext; simpl.
      + specialize (IH c v). destruct (items_cv true items c v) as [[c1 v1] r]. destruct IH as (I1 & I2 & I3).
        repeat split; auto. intros _ [H|H]; discriminate.
      + pose proof (autos_cv_run ys v) as A. destruct (autos_cv ys v) as [v' rr]. simpl in A.
        specialize (IH v' v'). destruct (items_cv false items v' v') as [[c1 v1] r]. destruct IH as (I1 & I2 & I3).
        repeat split; auto; try discriminate. intros Hr _. rewrite (I2 Hr (or_introl eq_refl)), A.
        unfold body_f, body_stmts, fold_stmts. cbn [flat_map item_stmts]. rewrite fold_left_app. reflexivity.
  Qed.

  Lemma step_cv_spec ext sp c v :
    let '(c1, v1, r) := step_cv ext sp c v in
    r = step_raises ext sp /\ (r = false -> ext = false \/ try_free (s_body sp) = true -> v1 = step_f sp v) /\
    (enters_auto ext (s_body sp) = false -> c1 = c).
  Proof.
    unfold step_cv, step_raises. pose proof (items_cv_spec ext (s_body sp) c v) as H.
    destruct (items_cv ext (s_body sp) c v) as [[c1 v1] r2]. destruct H as (H1 & H2 & H3). subst r2.
    destruct (items_raise ext (s_body sp)); simpl.
    - repeat split; auto; discriminate.
    - repeat split; auto. intros _ Ht. unfold step_f. rewrite (H2 eq_refl Ht). reflexivity.
  Qed.

  Lemma enters_auto_ext items : enters_auto true items = false.
  Proof. induction items as [|[x|xs| |ys] items IH]; simpl; auto. Qed.

  Definition cnt (ext:bool) (steps:list step) : nat := match fidx ext steps with Some j => j | None => length steps end.

  (* one transaction per migration *)
  Lemma proxy_cv_spec steps : forall c v,
    (forall j sp, fidx false steps = Some j -> nth_error steps j = Some sp -> enters_auto false (s_body sp) = false) ->
    let '(c', _, r) := proxy_cv steps c v in
    r = is_some (fidx false steps) /\
    c' = match cnt false steps with O => c | S _ => steps_f (firstn (cnt false steps) steps) v end.
  Proof.
    unfold cnt. induction steps as [|sp steps IH]; intros c v Hne; simpl; auto.
    pose proof (step_cv_spec false sp c v) as S. destruct (step_cv false sp c v) as [[c1 v1] r1].
    destruct S as (S1 & S2 & S3). subst r1. destruct (step_raises false sp) eqn:Er.
    - split; auto. apply S3. apply (Hne 0%nat sp); simpl; rewrite ?Er; auto.
    - assert (Hne' : forall j sp0, fidx false steps = Some j -> nth_error steps j = Some sp0 ->
                        enters_auto false (s_body sp0) = false).
      { intros j sp0 Hj Hn. apply (Hne (S j) sp0); simpl; rewrite ?Er, ?Hj; auto. }
      specialize (IH v1 v1 Hne'). destruct (proxy_cv steps v1 v1) as [[c' v'] r]. destruct IH as (I1 & I2).
      rewrite (S2 eq_refl (or_introl eq_refl)) in I2.
      destruct (fidx false steps) as [j|]; simpl in *; split; auto.
      + destruct j; simpl; auto.
      + destruct (length steps) eqn:El; simpl; auto; try (destruct steps; [reflexivity|discriminate]).
  Qed.

  (* one enclosing transaction *)
  Lemma null_cv_spec ext steps : forall c v,
    let '(c', v', r) := null_cv ext steps c v in
    r = is_some (fidx ext steps) /\
    (r = false -> ext = false \/ forallb (fun sp => try_free (s_body sp)) steps = true -> v' = steps_f steps v) /\
    ((ext = true \/ none_enters steps = true) -> c' = c).
  Proof.
    induction steps as [|sp steps IH]; intros c v; simpl; auto.
    pose proof (step_cv_spec ext sp c v) as S. destruct (step_cv ext sp c v) as [[c1 v1] r1].
    destruct S as (S1 & S2 & S3). subst r1.
    assert (Hc1 : (ext = true \/ negb (enters_auto false (s_body sp)) = true) -> c1 = c).
    { intros [->|H]; apply S3; [apply enters_auto_ext|]. destruct ext; [apply enters_auto_ext|].
      apply negb_true_iff in H; auto. }
    destruct (step_raises ext sp) eqn:Er.
    - repeat split; auto; try discriminate. intros [H|H]; apply Hc1; auto.
      apply andb_true_iff in H as [H _]. auto.
    - specialize (IH c1 v1). destruct (null_cv ext steps c1 v1) as [[c' v'] r]. destruct IH as (I1 & I2 & I3).
      repeat split.
      + destruct (fidx ext steps); auto.
      + intros Hr Ht.
        assert (T1 : ext = false \/ try_free (s_body sp) = true).
        { destruct Ht as [Ht|Ht]; auto. apply andb_true_iff in Ht as [Ht _]. auto. }
        assert (T2 : ext = false \/ forallb (fun sp => try_free (s_body sp)) steps = true).
        { destruct Ht as [Ht|Ht]; auto. apply andb_true_iff in Ht as [_ Ht]. auto. }
        rewrite (I2 Hr T2), (S2 eq_refl T1). reflexivity.
      + intros H. rewrite I3, Hc1; auto.
        * destruct H as [H|H]; auto. apply andb_true_iff in H as [H _]. auto.
        * destruct H as [H|H]; auto. apply andb_true_iff in H as [_ H].
          destruct ext; [left; reflexivity|right; rewrite Er in H; exact H].
  Qed.
End Abs.

(* ------------------------------------------------------------------ instance 1: the version rows, every behaviour *)
Definition f_rows (a:act) (x:list N) : list N := match a with AVop v => apply_vop v x | _ => x end.
Lemma rows_Hpi a d : vrows (apply_act a d) = f_rows a (vrows d).
Proof. destruct a; reflexivity. Qed.
Lemma rows_Hddl k : k <> TxDDL -> forall x, (forall e, f_rows (AEff e) x = x) /\ f_rows AVt x = x.
Proof. intros _ x. split; reflexivity. Qed.

Lemma rows_autos xs v : autos_cv _ f_rows xs v = (v, autos_raise xs).
Proof. induction xs as [|[x|] xs IH]; simpl; auto. Qed.
Lemma rows_items ext items : forall c v,
  items_cv _ f_rows ext items c v = (if enters_auto ext items then v else c, v, items_raise ext items).
Proof. induction items as [|[x|xs| |ys] items IH]; intros c v; simpl; auto.
  - destruct ext; simpl; auto. rewrite rows_autos. destruct (autos_raise xs); simpl; auto.
    rewrite IH. destruct (enters_auto false items); reflexivity.
  - destruct ext; simpl; auto. rewrite rows_autos, IH. destruct (enters_auto false items); reflexivity. Qed.
Lemma rows_vops vs x : vops_f _ f_rows vs x = fold_left (fun l v => apply_vop v l) vs x.
Proof. reflexivity. Qed.
Lemma rows_step ext sp c v :
  step_cv _ f_rows ext sp c v =
  (if enters_auto ext (s_body sp) then v else c, if items_raise ext (s_body sp) then v else ver_rows sp v, step_raises ext sp).
Proof. unfold step_cv, step_raises. rewrite rows_items. destruct (items_raise ext (s_body sp)); reflexivity. Qed.

Lemma rows_after_app l1 l2 x : rows_after (l1 ++ l2) x = rows_after l2 (rows_after l1 x).
Proof. unfold rows_after. apply fold_left_app. Qed.
Lemma firstn_le_app {A} (l1 l2:list A) a : a <= length l1 -> firstn a (l1 ++ l2) = firstn a l1.
Proof. intros H. rewrite firstn_app. replace (a - length l1) with 0 by lia. simpl. apply app_nil_r. Qed.

(* one transaction per migration: autocommit sections never change which migrations are recorded *)
Lemma rows_proxy steps : forall c,
  let '(c', _, r) := proxy_cv _ f_rows steps c c in
  r = is_some (fidx false steps) /\ c' = rows_after (firstn (cnt false steps) steps) c.
Proof.
  unfold cnt. induction steps as [|sp steps IH]; intros c; simpl; auto.
  rewrite rows_step. assert (E : (if enters_auto false (s_body sp) then c else c) = c) by (destruct (enters_auto _ _); auto).
  rewrite E. destruct (step_raises false sp) eqn:Er; simpl; auto.
  assert (Ei : items_raise false (s_body sp) = false).
  { unfold step_raises in Er. apply orb_false_iff in Er as [Er _]. exact Er. }
  rewrite Ei. specialize (IH (ver_rows sp c)). destruct (proxy_cv _ f_rows steps _ _) as [[c' v'] r].
  destruct IH as (I1 & I2). destruct (fidx false steps); simpl in *; auto.
Qed.

(* one enclosing transaction held by the caller: nothing is committed before the end *)
Lemma rows_null_ext steps : forall c v,
  let '(c', v', r) := null_cv _ f_rows true steps c v in
  r = is_some (fidx true steps) /\ c' = c /\ (r = false -> v' = rows_after steps v).
Proof.
  induction steps as [|sp steps IH]; intros c v; simpl; auto.
  rewrite rows_step, enters_auto_ext. destruct (step_raises true sp) eqn:Er; simpl.
  - repeat split; auto; discriminate.
  - assert (Ei : items_raise true (s_body sp) = false).
    { unfold step_raises in Er. apply orb_false_iff in Er as [Er _]. exact Er. }
    rewrite Ei. specialize (IH c (ver_rows sp v)). destruct (null_cv _ f_rows true steps _ _) as [[c' v'] r].
    destruct IH as (I1 & I2 & I3). destruct (fidx true steps); simpl in *; auto.
Qed.

(* one enclosing transaction opened by env.py's begin_transaction(): committed up to the last autocommit section *)
Lemma rows_null steps : forall pre a r0 c v,
  a <= length pre -> c = rows_after (firstn a pre) r0 -> v = rows_after pre r0 ->
  let '(c', v', r) := null_cv _ f_rows false steps c v in
  r = is_some (fidx false steps) /\
  (r = true -> c' = rows_after (firstn (last_autocommit steps (length pre) a) (pre ++ steps)) r0) /\
  (r = false -> v' = rows_after (pre ++ steps) r0).
Proof.
  induction steps as [|sp steps IH]; intros pre a r0 c v Ha Hc Hv; simpl.
  - repeat split; auto; try discriminate. intros _. rewrite app_nil_r. auto.
  - rewrite rows_step.
    set (a' := if enters_auto false (s_body sp) then length pre else a).
    assert (Ha' : a' <= length pre) by (unfold a'; destruct (enters_auto _ _); lia).
    assert (Hc1 : (if enters_auto false (s_body sp) then v else c) = rows_after (firstn a' pre) r0).
    { unfold a'. destruct (enters_auto _ _); auto. rewrite firstn_all. auto. }
    rewrite Hc1. destruct (step_raises false sp) eqn:Er; simpl.
    + repeat split; auto; try discriminate. intros _. rewrite firstn_le_app; auto.
    + assert (Ei : items_raise false (s_body sp) = false).
      { unfold step_raises in Er. apply orb_false_iff in Er as [Er _]. exact Er. }
      rewrite Ei.
      assert (Hlen : length (pre ++ [sp]) = S (length pre)) by (rewrite app_length; simpl; lia).
      specialize (IH (pre ++ [sp]) a' r0 (rows_after (firstn a' pre) r0) (ver_rows sp v)).
      rewrite Hlen in IH. replace ((pre ++ [sp]) ++ steps) with (pre ++ sp :: steps) in IH by (rewrite <- app_assoc; reflexivity).
      assert (H1 : a' <= S (length pre)) by lia.
      assert (H2 : rows_after (firstn a' pre) r0 = rows_after (firstn a' (pre ++ [sp])) r0) by (rewrite firstn_le_app; auto).
      assert (H3 : ver_rows sp v = rows_after (pre ++ [sp]) r0) by (rewrite rows_after_app, <- Hv; reflexivity).
      specialize (IH H1 H2 H3). destruct (null_cv _ f_rows false steps _ _) as [[c' v'] r].
      destruct IH as (I1 & I2 & I3). destruct (fidx false steps); simpl in *; auto.
Qed.

Lemma last_autocommit_le steps : forall idx acc k, acc <= idx -> fidx false steps = Some k ->
  last_autocommit steps idx acc <= idx + k.
Proof.
  induction steps as [|sp steps IH]; intros idx acc k Ha; simpl; [discriminate|].
  destruct (step_raises false sp).
  - intros [= <-]. destruct (enters_auto _ _); lia.
  - destruct (fidx false steps) as [j|] eqn:Ef; simpl; [|discriminate]. intros [= <-].
    specialize (IH (S idx) (if enters_auto false (s_body sp) then idx else acc) j).
    assert (H : (if enters_auto false (s_body sp) then idx else acc) <= S idx) by (destruct (enters_auto _ _); lia).
    specialize (IH H eq_refl). lia.
Qed.

Lemma fidx_lt ext steps : forall j, fidx ext steps = Some j -> j < length steps.
Proof. induction steps as [|sp steps IH]; intros j; simpl; [discriminate|].
  destruct (step_raises ext sp); [intros [= <-]; lia|].
  destruct (fidx ext steps) eqn:E; simpl; [|discriminate]. intros [= <-]. specialize (IH _ eq_refl). lia. Qed.

Lemma count_le i k : fail_index i = Some k -> committed_count i <= k.
Proof. unfold committed_count. intros H. rewrite H. destruct (i_external i) eqn:He; [lia|].
  destruct (i_tddl i && negb (i_per_mig i)); [|lia]. unfold fail_index in H. rewrite He in H.
  apply (last_autocommit_le _ 0 0 k); auto. Qed.

Lemma rows_thm i : consistent i = true ->
  (o_raised (txn_run i) = true <-> fail_index i <> None) /\
  vrows (o_db (txn_run i)) = rows_after (firstn (committed_count i) (i_steps i)) (vrows (i_db0 i)).
Proof.
  intros Hc. pose proof (txn_run_proj _ vrows f_rows (i_kind i) rows_Hpi (rows_Hddl _) i eq_refl Hc) as H.
  unfold abs_run, committed_count, fail_index, one_txn in *. simpl in H.
  destruct (i_external i) eqn:He; simpl in H.
  - pose proof (rows_null_ext (i_steps i) (vrows (i_db0 i)) (vrows (i_db0 i))) as R.
    destruct (null_cv _ f_rows true (i_steps i) _ _) as [[c v] r]. destruct R as (R1 & R2 & R3).
    injection H as H1 H2. rewrite H1, H2, R1. split; [apply is_some_iff|].
    destruct (fidx true (i_steps i)); simpl in *; subst; auto. rewrite firstn_all. auto.
  - destruct (i_tddl i && negb (i_per_mig i)); simpl in H.
    + pose proof (rows_null (i_steps i) [] 0 (vrows (i_db0 i)) (vrows (i_db0 i)) (vrows (i_db0 i))
                    (Nat.le_refl _) eq_refl eq_refl) as R.
      destruct (null_cv _ f_rows false (i_steps i) _ _) as [[c v] r]. destruct R as (R1 & R2 & R3).
      injection H as H1 H2. rewrite H1, H2. clear H1 H2. split; [rewrite R1; apply is_some_iff|].
      simpl in R2, R3. destruct (fidx false (i_steps i)); simpl in R1; rewrite R1 in *; simpl.
      * apply R2; auto.
      * rewrite firstn_all. apply R3; auto.
    + pose proof (rows_proxy (i_steps i) (vrows (i_db0 i))) as R.
      destruct (proxy_cv _ f_rows (i_steps i) _ _) as [[c v] r]. destruct R as (R1 & R2).
      injection H as H1 H2. rewrite H1, H2, R1. split; [apply is_some_iff|].
      rewrite R2. unfold cnt. destruct (fidx false (i_steps i)); reflexivity.
Qed.

(* ------------------------------------------------------------------ instance 2: the whole state, real transactional DDL *)
Lemma tx_Hpi a d : id (apply_act a d) = apply_act a (id d). Proof. reflexivity. Qed.
Lemma tx_Hddl : TxDDL <> TxDDL -> forall x:dbstate, (forall e, apply_act (AEff e) x = x) /\ apply_act AVt x = x.
Proof. intros H; contradiction H; reflexivity. Qed.

Lemma consistent_tx i : i_kind i = TxDDL -> consistent i = true.
Proof. intros Hk. unfold consistent. rewrite Hk. simpl. rewrite andb_false_r. reflexivity. Qed.

Lemma nth_fidx ext steps : forall j, fidx ext steps = Some j -> exists sp, nth_error steps j = Some sp.
Proof. intros j H. apply fidx_lt in H. destruct (nth_error steps j) eqn:E; eauto.
  apply nth_error_None in E. lia. Qed.

Lemma tx_thm i : i_kind i = TxDDL -> no_partial_commit i = true ->
  o_db (txn_run i) =
    if one_txn i
    then (if is_some (fail_index i) then i_db0 i else state_after (i_steps i) (with_version_table (i_db0 i)))
    else match committed_count i with
         | O => i_db0 i
         | S _ => state_after (firstn (committed_count i) (i_steps i)) (with_version_table (i_db0 i))
         end.
Proof.
  intros Hk Hn. unfold no_partial_commit in Hn. apply andb_true_iff in Hn as [Hx Hn].
  pose proof (txn_run_proj _ id apply_act TxDDL tx_Hpi tx_Hddl i Hk (consistent_tx i Hk)) as H.
  unfold abs_run, committed_count, fail_index, one_txn in *. unfold id in H.
  destruct (i_external i) eqn:He; simpl in H |- *.
  - pose proof (null_cv_spec _ apply_act true (i_steps i) (i_db0 i) (set_vt (i_db0 i))) as R.
    destruct (null_cv _ apply_act true (i_steps i) _ _) as [[c v] r]. destruct R as (R1 & R2 & R3).
    injection H as H1 H2. rewrite H1. clear H1 H2. rewrite R1 in *.
    destruct (fidx true (i_steps i)); simpl in *.
    + apply R3; auto.
    + apply R2; auto. right. apply negb_true_iff in Hx. apply negb_false_iff in Hx. exact Hx.
  - destruct (i_tddl i && negb (i_per_mig i)); simpl in H |- *.
    + pose proof (null_cv_spec _ apply_act false (i_steps i) (i_db0 i) (set_vt (i_db0 i))) as R.
      destruct (null_cv _ apply_act false (i_steps i) _ _) as [[c v] r]. destruct R as (R1 & R2 & R3).
      injection H as H1 H2. rewrite H1. clear H1 H2. rewrite R1 in *.
      destruct (fidx false (i_steps i)); simpl in *.
      * apply R3; auto.
      * apply R2; auto.
    + assert (Hne : forall j sp, fidx false (i_steps i) = Some j -> nth_error (i_steps i) j = Some sp ->
                       enters_auto false (s_body sp) = false).
      { intros j sp Hj Hs. rewrite Hj, Hs in Hn. apply negb_true_iff in Hn. exact Hn. }
      pose proof (proxy_cv_spec _ apply_act (i_steps i) (i_db0 i) (set_vt (i_db0 i)) Hne) as R.
      destruct (proxy_cv _ apply_act (i_steps i) _ _) as [[c v] r]. destruct R as (R1 & R2).
      injection H as H1 H2. rewrite H1, R2. unfold cnt. destruct (fidx false (i_steps i)); reflexivity.
Qed.

(* projections of state_after *)
Lemma effs_fold_vops vs d : effs (fold_left (fun d v => apply_act (AVop v) d) vs d) = effs d.
Proof. revert d; induction vs; intros; simpl; auto. rewrite IHvs. reflexivity. Qed.
Lemma vt_fold_vops vs d : vt (fold_left (fun d v => apply_act (AVop v) d) vs d) = vt d.
Proof. revert d; induction vs; intros; simpl; auto. rewrite IHvs. reflexivity. Qed.
Lemma effs_fold_body (body:list stmt) d :
  effs (fold_left (fun d x => apply_act (AEff (stmt_eff x)) d) body d) = fold_left (fun l x => apply_eff (stmt_eff x) l) body (effs d).
Proof. revert d; induction body; intros; simpl; auto. rewrite IHbody. reflexivity. Qed.
Lemma vt_fold_body (body:list stmt) d : vt (fold_left (fun d x => apply_act (AEff (stmt_eff x)) d) body d) = vt d.
Proof. revert d; induction body; intros; simpl; auto. rewrite IHbody. reflexivity. Qed.
Lemma effs_state_after steps : forall d, effs (state_after steps d) = effs_after steps (effs d).
Proof. unfold state_after, effs_after. induction steps as [|sp steps IH]; intros d; simpl; auto.
  rewrite IH. unfold apply_step, body_effs. rewrite effs_fold_vops, effs_fold_body. reflexivity. Qed.
Lemma vt_state_after steps : forall d, vt (state_after steps d) = vt d.
Proof. unfold state_after. induction steps as [|sp steps IH]; intros d; simpl; auto.
  rewrite IH. unfold apply_step. rewrite vt_fold_vops, vt_fold_body. reflexivity. Qed.

(* ------------------------------------------------------------------ main theorem and decider soundness *)
Theorem C04_main_thm i : consistent i = true -> C04_holds i (txn_run i).
Proof.
  intros Hc. destruct (rows_thm i Hc) as [R1 R2]. unfold C04_holds. split; [exact R1|]. split; [apply count_le|]. split.
  - intros x. rewrite R2. tauto.
  - intros Hk Hn. rewrite (tx_thm i Hk Hn). unfold no_partial_commit in Hn. apply andb_true_iff in Hn as [_ Hn].
    destruct (one_txn i) eqn:Hone.
    + destruct (fail_index i) as [j|] eqn:Hf; simpl.
      * assert (Hz : committed_count i = 0).
        { unfold committed_count, one_txn in *. rewrite Hf in *.
          destruct (i_external i) eqn:He; auto. simpl in Hone. rewrite Hone in *.
          unfold fail_index in Hf. rewrite He in Hf. clear - Hn Hf.
          assert (G : forall steps idx acc k, none_enters steps = true -> fidx false steps = Some k ->
                        last_autocommit steps idx acc = acc).
          { induction steps as [|sp steps IH]; intros idx acc k; simpl; [discriminate|].
            intros H. apply andb_true_iff in H as [H1 H2]. apply negb_true_iff in H1. rewrite H1.
            destruct (step_raises false sp); auto. simpl in H2.
            destruct (fidx false steps) eqn:E; simpl; [|discriminate]. intros _. eapply IH; eauto. }
          eapply G; eauto. }
        rewrite Hz. simpl. split; [tauto|]. intros _. destruct (vt (i_db0 i)); reflexivity.
      * unfold committed_count. rewrite Hf. rewrite firstn_all, effs_state_after, vt_state_after. simpl. split; [tauto|].
        intros Hne. destruct (i_steps i); [contradiction Hne; auto|]. simpl. destruct (vt (i_db0 i)); reflexivity.
    + destruct (committed_count i) eqn:Ec; simpl.
      * split; [tauto|]. intros _. destruct (vt (i_db0 i)); reflexivity.
      * rewrite effs_state_after, vt_state_after. simpl. split; [tauto|]. intros _. destruct (vt (i_db0 i)); reflexivity.
Qed.

Lemma kind_eqb_eq a b : kind_eqb a b = true <-> a = b.
Proof. destruct a, b; simpl; split; congruence. Qed.
Lemma is_some_iff' {A} (o:option A) : is_some o = true <-> o <> None.
Proof. destruct o; simpl; split; congruence. Qed.

Theorem check_C04_sound i o : check_C04 i o = true -> C04_holds i o.
Proof.
  unfold check_C04, C04_holds. intros H.
  apply andb_true_iff in H as [H H4]. apply andb_true_iff in H as [H H3]. apply andb_true_iff in H as [H1 H2].
  split; [|split; [|split]].
  - apply Bool.eqb_prop in H1. rewrite H1. apply is_some_iff'.
  - intros k Hk. rewrite Hk in H2. apply Nat.leb_le in H2. exact H2.
  - apply seteqN_spec; auto.
  - intros Hk Hn. rewrite Hk, Hn in H4. simpl in H4. apply andb_true_iff in H4 as [H4 H5]. split.
    + apply seteqN_spec; auto.
    + intros Hne. destruct (i_steps i); [contradiction Hne; auto|]. apply Bool.eqb_prop in H5. exact H5.
Qed.

(* ------------------------------------------------------------------ the clauses of the property, one by one *)
Lemma consistent_per_step i : one_txn i = false -> consistent i = true.
Proof. intros H. unfold consistent. rewrite H. reflexivity. Qed.

Lemma version_rows_thm i : consistent i = true ->
  vrows (o_db (txn_run i)) = rows_after (firstn (committed_count i) (i_steps i)) (vrows (i_db0 i)).
Proof. intros Hc. apply (rows_thm i Hc). Qed.

Lemma failed_not_recorded_thm i j : consistent i = true -> fail_index i = Some j ->
  o_raised (txn_run i) = true /\
  exists c, c <= j /\ j < length (i_steps i) /\
    vrows (o_db (txn_run i)) = rows_after (firstn c (i_steps i)) (vrows (i_db0 i)).
Proof. intros Hc Hf. destruct (rows_thm i Hc) as [R1 R2]. split. { apply R1. rewrite Hf. discriminate. }
  exists (committed_count i). split; [apply count_le; auto|]. split; auto. unfold fail_index in Hf. apply fidx_lt in Hf. auto. Qed.

Lemma all_or_nothing_thm i : i_kind i = TxDDL -> one_txn i = true -> fail_index i <> None -> no_partial_commit i = true ->
  o_db (txn_run i) = i_db0 i.
Proof. intros Hk H1 Hf Hn. rewrite (tx_thm i Hk Hn), H1. destruct (fail_index i); [reflexivity|contradiction Hf; auto]. Qed.

Lemma per_migration_thm i j : i_kind i = TxDDL -> one_txn i = false -> fail_index i = Some j -> no_partial_commit i = true ->
  o_db (txn_run i) = match j with
                     | O => i_db0 i
                     | S _ => state_after (firstn j (i_steps i)) (with_version_table (i_db0 i))
                     end.
Proof. intros Hk H1 Hf Hn. rewrite (tx_thm i Hk Hn), H1. unfold committed_count. rewrite Hf.
  unfold one_txn in H1. apply orb_false_iff in H1 as [-> ->]. reflexivity. Qed.

Lemma nontransactional_thm i j : one_txn i = false -> fail_index i = Some j ->
  vrows (o_db (txn_run i)) = rows_after (firstn j (i_steps i)) (vrows (i_db0 i)).
Proof. intros H1 Hf. rewrite (version_rows_thm i (consistent_per_step i H1)). unfold committed_count. rewrite Hf.
  unfold one_txn in H1. apply orb_false_iff in H1 as [-> ->]. reflexivity. Qed.

Lemma success_thm i : consistent i = true -> fail_index i = None ->
  o_raised (txn_run i) = false /\ vrows (o_db (txn_run i)) = rows_after (i_steps i) (vrows (i_db0 i)).
Proof. intros Hc Hf. destruct (rows_thm i Hc) as [R1 R2]. split.
  - destruct (o_raised (txn_run i)); auto. exfalso. apply (proj1 R1 eq_refl). exact Hf.
  - rewrite R2. unfold committed_count. rewrite Hf, firstn_all. reflexivity. Qed.

Lemma exc_kind_thm k t p e st d x y : txn_run (mkIn k t p e st d x) = txn_run (mkIn k t p e st d y).
Proof. reflexivity. Qed.
