(* C06: decider soundness and "the model satisfies the property". *)
From AV Require Import Model.Schema Model.Diff Spec.C06 Proofs.SchemaProof.

Lemma is_nil_eq {A} (l:list A) : is_nil l = true -> l = [].
Proof. destruct l; simpl; congruence. Qed.
Lemma cfg_eqb_eq a b : cfg_eqb a b = true -> a = b.
Proof. destruct a, b. unfold cfg_eqb. simpl. rewrite andb_true_iff. intros [H1 H2].
  apply eqb_prop in H1. apply eqb_prop in H2. congruence. Qed.
Lemma list_eqb_sound {A} (e:A->A->bool) : (forall a b, e a b = true -> a = b) -> forall a b, list_eqb e a b = true -> a = b.
Proof. intros He. induction a as [|x a IH]; destruct b as [|y b]; simpl; try congruence.
  rewrite andb_true_iff. intros [H1 H2]. f_equal; auto. Qed.

Lemma convergedb_sound r : convergedb r = true -> converged r.
Proof. destruct r as [post s|]; simpl; [|congruence]. intros H. apply is_nil_eq in H. subst. exists post; auto. Qed.

Lemma run_holdsb_sound r : run_holdsb r = true -> run_holds r.
Proof. unfold run_holdsb, run_holds. rewrite !andb_true_iff. intros [[H1 H2] H3]. split; [apply is_nil_eq; auto|].
  split; [apply convergedb_sound; auto|].
  destruct (r_plain r) as [post s|] eqn:E.
  - left. apply is_nil_eq in H3. subst. exists post; auto.
  - right. split; auto. apply existsb_exists in H3. exact H3. Qed.

Theorem check_C06_sound i o : check_C06 i o = true -> C06_holds i o.
Proof. unfold check_C06, C06_holds. rewrite andb_true_iff, forallb_forall. intros [H1 H2]. split.
  - apply (list_eqb_sound cfg_eqb cfg_eqb_eq); auto.
  - intros r Hr. apply run_holdsb_sound; auto. Qed.

Theorem model_C06_holds i : wf_schemab (fst i) = true -> wf_schemab (snd i) = true ->
  defaults_ok (fst i) = true -> defaults_ok (snd i) = true -> fk_names_ok (fst i) (snd i) = true ->
  no_unnamed_uq (fst i) = true -> no_unnamed_uq (snd i) = true -> C06_holds i (model_C06 i).
Proof. destruct i as [A B]. simpl. intros HA HB HdA HdB Hnm HuA HuB. unfold C06_holds, model_C06. simpl. split; [reflexivity|].
  intros r Hr.
  assert (Hg: exists g, r = model_run A B g) by (repeat (destruct Hr as [<-|Hr]; [eexists; reflexivity|]); inversion Hr).
  destruct Hg as [g ->]. unfold run_holds, model_run, model_apply. simpl. split; [apply diff_quiet; auto|].
  split; [|left]; eexists; rewrite diff_converge_rendered; auto. Qed.

Lemma inclass_C06_wf i : inclass_C06 i = true ->
  wf_schemab (fst i) = true /\ wf_schemab (snd i) = true /\ defaults_ok (fst i) = true /\ defaults_ok (snd i) = true
  /\ fk_names_ok (fst i) (snd i) = true /\ no_unnamed_uq (fst i) = true /\ no_unnamed_uq (snd i) = true.
Proof. unfold inclass_C06, inclass_C06_core. rewrite !andb_true_iff. tauto. Qed.
Lemma inclass_C06_core_wf i : inclass_C06_core i = true -> wf_schemab (fst i) = true /\ wf_schemab (snd i) = true.
Proof. unfold inclass_C06_core. rewrite !andb_true_iff. tauto. Qed.
