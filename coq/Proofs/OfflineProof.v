(* C18 — proofs: decider soundness, the grammar as an inductive predicate, refinement of the chunk-level model to an
   abstract event sequence under table_wf, and the framing theorems by induction on the step list. *)
From AV Require Import Spec.C18.
From Coq Require Import Lia.

(* ------------------------------------------------------------------ generic *)
Lemma list_eqb_sound {A} (eqb:A->A->bool) (H:forall x y, eqb x y = true -> x = y) a b :
  list_eqb eqb a b = true -> a = b.
Proof. revert b; induction a as [|x a IH]; destruct b as [|y b]; simpl; try congruence.
  intros E. apply andb_true_iff in E as [E1 E2]. apply H in E1. apply IH in E2. congruence. Qed.
Lemma list_eqb_refl {A} (eqb:A->A->bool) (H:forall x, eqb x x = true) a : list_eqb eqb a a = true.
Proof. induction a; simpl; auto. rewrite H, IHa; auto. Qed.
Lemma str_eqb_eq a b : str_eqb a b = true -> a = b.
Proof. apply list_eqbN_eq. Qed.
Lemma str_eqb_refl a : str_eqb a a = true.
Proof. apply list_eqbN_eq; auto. Qed.
Lemma event_eqb_sound x y : event_eqb x y = true -> x = y.
Proof. destruct x, y; simpl; try congruence; intros E;
  repeat (apply andb_true_iff in E; destruct E as [E ?]);
  repeat match goal with
         | H : N.eqb _ _ = true |- _ => apply N.eqb_eq in H; subst
         | H : Bool.eqb _ _ = true |- _ => apply Bool.eqb_prop in H; subst
         | H : str_eqb _ _ = true |- _ => apply str_eqb_eq in H; subst
         end; auto. Qed.
Lemma optN_eqb_eq a b : optN_eqb a b = true <-> a = b.
Proof. destruct a, b; simpl; try (split; congruence). rewrite N.eqb_eq. split; congruence. Qed.

Lemma all_pairs_spec {A} (f:A->A->bool) l : all_pairs f l = true -> forall x y, In x l -> In y l -> f x y = true.
Proof. unfold all_pairs. intros H x y Hx Hy. rewrite forallb_forall in H. specialize (H x Hx).
  rewrite forallb_forall in H. auto. Qed.

Lemma nth_error_combine_seq {A} (l:list A) j s k :
  nth_error l j = Some s -> In ((k + j)%nat, s) (combine (seq k (length l)) l).
Proof. revert j k; induction l as [|a l IH]; intros [|j] k; simpl; try congruence.
  - intros [= ->]. left. f_equal. lia.
  - intros H. right. replace (k + S j)%nat with (S k + j)%nat by lia. apply IH; auto. Qed.

(* ------------------------------------------------------------------ A. decider soundness *)
Lemma check_events_sound tddl pm r evs : check_events tddl pm r evs = true -> C18_events_hold tddl pm r evs.
Proof.
  unfold check_events, C18_events_hold. intros H.
  apply andb_true_iff in H as [Hc H]. split. { apply (list_eqb_sound _ event_eqb_sound); auto. }
  destruct tddl.
  - repeat (apply andb_true_iff in H; destruct H as [H ?]).
    rename H0 into Hpm, H1 into Hauto, H2 into Hplace.
    split; [|split; [|split]].
    + unfold well_framed. destruct (run_depth false (strip_sep evs)) as [[|]|]; congruence.
    + intros e b i Hin. rewrite forallb_forall in Hplace. specialize (Hplace _ Hin). simpl in Hplace.
      apply Bool.eqb_prop in Hplace; auto.
    + intros e b i Hin Ha. rewrite forallb_forall in Hauto. specialize (Hauto _ Hin). cbv beta iota in Hauto.
      rewrite Ha in Hauto. cbn [negb orb] in Hauto. apply andb_true_iff in Hauto as [H1 H2].
      apply Nat.leb_le in H1. apply Nat.ltb_lt in H2. auto.
    + destruct pm.
      * apply andb_true_iff in Hpm as [H1 H2]. split.
        -- intros e e' b i i' Hi Hi' -> ->. pose proof (all_pairs_spec _ _ H1 _ _ Hi Hi') as Hp. simpl in Hp.
           rewrite Nat.eqb_refl in Hp. simpl in Hp. apply optN_eqb_eq; auto.
        -- intros j s Hn Hna e e' b b' i i' Hi Hi' He He'.
           rewrite forallb_forall in H2. specialize (H2 (j, s)).
           pose proof (nth_error_combine_seq _ _ _ 0 Hn) as Hc'. simpl in Hc'. specialize (H2 Hc'). simpl in H2.
           rewrite Hna in H2. simpl in H2.
           pose proof (all_pairs_spec _ _ H2 _ _ Hi Hi') as Hp. simpl in Hp.
           rewrite He, He' in Hp. simpl in Hp. rewrite N.eqb_refl in Hp. simpl in Hp.
           apply andb_true_iff in Hp as [Hp Hp3]. apply andb_true_iff in Hp as [Hp1 Hp2].
           apply Nat.eqb_eq in Hp1. auto.
      * intros Hna e e' b b' i i' Hi Hi'. rewrite Hna in Hpm. simpl in Hpm.
        pose proof (all_pairs_spec _ _ Hpm _ _ Hi Hi') as Hp. simpl in Hp.
        apply andb_true_iff in Hp as [Hp Hp3]. apply andb_true_iff in Hp as [Hp1 Hp2].
        apply Nat.eqb_eq in Hp1. auto.
  - intros e He. rewrite forallb_forall in H. specialize (H e He). apply negb_true_iff in H; auto.
Qed.

Lemma check_cut_sound tddl r evs : check_cut tddl r evs = true -> C18_cut_hold tddl r evs.
Proof. unfold check_cut, C18_cut_hold. intros H. apply andb_true_iff in H as [Hc H].
  split. { apply (list_eqb_sound _ event_eqb_sound); auto. }
  destruct tddl.
  - apply andb_true_iff in H as [H1 H2]. split.
    + destruct (run_depth false (strip_sep evs)) as [dp|]; [exists dp; auto|discriminate].
    + intros e b i Hin. rewrite forallb_forall in H2. specialize (H2 _ Hin). simpl in H2. apply Bool.eqb_prop in H2; auto.
  - intros e He. rewrite forallb_forall in H. specialize (H e He). apply negb_true_iff in H; auto. Qed.

Lemma check_C18_sound i o : check_C18 i o = true -> C18_holds i o.
Proof. destruct i as [[d c] r]. unfold check_C18, C18_holds. destruct (r_cut r); [apply check_cut_sound|apply check_events_sound]. Qed.

(* ------------------------------------------------------------------ B. the grammar, inductively *)
Lemma framed_iff b l : framed b l <-> run_depth b l = Some false.
Proof. split.
  - induction 1; simpl; auto. destruct e; simpl in *; try discriminate; auto.
  - revert b; induction l as [|e l IH]; intros b; simpl.
    + intros [= ->]. constructor.
    + destruct e; try (intros H; apply fr_other; [reflexivity|apply IH; exact H]).
      * destruct b; [discriminate|]. intros H. apply fr_begin. apply IH; auto.
      * destruct b; [|discriminate]. intros H. apply fr_commit. apply IH; auto.
Qed.

(* ------------------------------------------------------------------ automaton: composition *)
Fixpoint st_after (b:nat) (ins:bool) (l:list event) : nat * bool :=
  match l with
  | [] => (b, ins)
  | Begin :: r => st_after (S b) true r
  | Commit :: r => st_after b false r
  | _ :: r => st_after b ins r
  end.

Lemma ann_app l1 : forall b i l2,
  ann b i (l1 ++ l2) = ann b i l1 ++ ann (fst (st_after b i l1)) (snd (st_after b i l1)) l2.
Proof. induction l1 as [|e l1 IH]; intros; simpl; auto. destruct e; simpl; rewrite IH; auto. Qed.
Lemma st_after_app l1 : forall b i l2,
  st_after b i (l1 ++ l2) = st_after (fst (st_after b i l1)) (snd (st_after b i l1)) l2.
Proof. induction l1 as [|e l1 IH]; intros; simpl; auto. destruct e; simpl; rewrite IH; auto. Qed.
Lemma run_depth_app l1 : forall i l2,
  run_depth i (l1 ++ l2) = match run_depth i l1 with Some i' => run_depth i' l2 | None => None end.
Proof. induction l1 as [|e l1 IH]; intros; simpl; auto. destruct e; simpl; try rewrite IH; auto; destruct i; auto. Qed.
Lemma count_begin_app l1 l2 : count_begin (l1 ++ l2) = (count_begin l1 + count_begin l2)%nat.
Proof. unfold count_begin. rewrite filter_app, app_length; auto. Qed.
Lemma st_after_fst l : forall b i, fst (st_after b i l) = (b + count_begin l)%nat.
Proof. induction l as [|e l IH]; intros; [unfold count_begin; simpl; lia|].
  change (e :: l) with ([e] ++ l). rewrite count_begin_app.
  destruct e; simpl; rewrite IH; unfold count_begin; simpl; lia. Qed.

Definition marker_free (l:list event) : Prop := forall e, In e l -> is_marker e = false.
Lemma mf_nil : marker_free []. Proof. intros e []. Qed.
Lemma mf_cons e l : is_marker e = false -> marker_free l -> marker_free (e :: l).
Proof. intros H1 H2 x [<-|Hx]; auto. Qed.
Lemma mf_app l1 l2 : marker_free l1 -> marker_free l2 -> marker_free (l1 ++ l2).
Proof. intros H1 H2 x Hx. apply in_app_or in Hx as [?|?]; auto. Qed.
Lemma mf_inv e l : marker_free (e :: l) -> is_marker e = false /\ marker_free l.
Proof. intros H. split; [apply H; left; auto|intros x Hx; apply H; right; auto]. Qed.

Lemma mf_ann l : marker_free l -> forall b i, ann b i l = map (fun e => (e, b, i)) l.
Proof. induction l as [|e l IH]; intros H b i; simpl; auto. apply mf_inv in H as [H1 H2].
  destruct e; simpl in H1; try discriminate; rewrite IH; auto. Qed.
Lemma mf_st_after l : marker_free l -> forall b i, st_after b i l = (b, i).
Proof. induction l as [|e l IH]; intros H b i; simpl; auto. apply mf_inv in H as [H1 H2].
  destruct e; simpl in H1; try discriminate; rewrite IH; auto. Qed.
Lemma mf_run_depth l : marker_free l -> forall i, run_depth i l = Some i.
Proof. induction l as [|e l IH]; intros H i; simpl; auto. apply mf_inv in H as [H1 H2].
  destruct e; simpl in H1; try discriminate; rewrite IH; auto. Qed.
Lemma mf_hooks k l : marker_free (map (fun p => Stmt k p false) l).
Proof. intros x Hx. apply in_map_iff in Hx as (j & <- & _). reflexivity. Qed.
Lemma mf_versions k l : marker_free (map (VersionStmt k) l).
Proof. intros x Hx. apply in_map_iff in Hx as (j & <- & _). reflexivity. Qed.

(* ------------------------------------------------------------------ C. the abstract event sequence *)
Definition wrap (b:bool) (l:list event) : list event := if b then Begin :: l ++ [Commit] else l.
Definition abs_item (tddl:bool) (k:N) (it:item) : list event :=
  match it with
  | IStmt p => [Stmt k p false]
  | IAuto ps => (if tddl then [Commit] else []) ++ map (fun p => Stmt k p true) ps ++ (if tddl then [Begin] else [])
  end.
Definition abs_core (tddl:bool) (k:N) (empty:bool) (s:ostep) : list event :=
  (if empty then [CreateVT k] else []) ++ Running k :: flat_map (abs_item tddl k) (os_body s)
  ++ (map (VersionStmt k) (vidx (os_nver s)) ++ map (fun p => Stmt k p false) (os_hooks s)).
Fixpoint abs_steps (tddl inner:bool) (k:N) (empty:bool) (steps:list ostep) : list event :=
  match steps with
  | [] => if empty then wrap inner [DropVT] else []
  | s :: r => wrap inner (abs_core tddl k empty s) ++ abs_steps tddl inner (N.succ k) (os_empty_after s) r
  end.
Definition abs (tddl pm:bool) (r:run) : list event :=
  wrap (tddl && negb pm) (abs_steps tddl (tddl && pm) 0 (r_init_empty r) (r_steps r)).

Section Refine.
  Variable d : dialect.
  Hypothesis Hwf : table_wf d = true.

  Definition T (l:list rchunk) : list event := strip_sep (tokenize d l).
  Lemma T_app l1 l2 : T (l1 ++ l2) = T l1 ++ T l2.
  Proof. unfold T, tokenize, strip_sep. rewrite map_app, filter_app; auto. Qed.

  Lemma all_sep_T l : all_sep d l = true -> T l = [].
  Proof. induction l as [|c l IH]; simpl; auto. intros H. apply andb_true_iff in H as [H1 H2].
    unfold T in *. simpl. destruct (tok d c); try discriminate. simpl. auto. Qed.

  Lemma wf_parts : exists bt rb ct rc, d_begin d = RRaw bt :: rb /\ d_commit d = RRaw ct :: rc /\
      str_eqb bt ct = false /\ all_sep d rb = true /\ all_sep d rc = true /\ all_sep d (d_sep_chunks d) = true.
  Proof. pose proof Hwf as W. unfold table_wf in W. destruct (d_begin d) as [|[bt| | | | |] rb]; try discriminate.
    destruct (d_commit d) as [|[ct| | | | |] rc]; try discriminate.
    repeat (apply andb_true_iff in W; destruct W as [W ?]).
    repeat match goal with H : negb _ = true |- _ => apply negb_true_iff in H end.
    exists bt, rb, ct, rc. repeat split; auto. Qed.

  Lemma T_begin : T (d_begin d) = [Begin].
  Proof. destruct wf_parts as (bt & rb & ct & rc & Hb & Hc & Hne & Hrb & Hrc & Hs).
    rewrite Hb. change (RRaw bt :: rb) with ([RRaw bt] ++ rb). rewrite T_app, (all_sep_T rb Hrb).
    unfold T. simpl. unfold begin_text. rewrite Hb. simpl. rewrite str_eqb_refl. reflexivity. Qed.
  Lemma T_commit : T (d_commit d) = [Commit].
  Proof. destruct wf_parts as (bt & rb & ct & rc & Hb & Hc & Hne & Hrb & Hrc & Hs).
    rewrite Hc. change (RRaw ct :: rc) with ([RRaw ct] ++ rc). rewrite T_app, (all_sep_T rc Hrc).
    unfold T. simpl. unfold begin_text, commit_text. rewrite Hb, Hc. simpl. rewrite Hne, str_eqb_refl. reflexivity. Qed.
  Lemma T_sep : T (d_sep_chunks d) = [].
  Proof. destruct wf_parts as (bt & rb & ct & rc & Hb & Hc & Hne & Hrb & Hrc & Hs). apply all_sep_T; auto. Qed.

  Definition structured (c:rchunk) : bool := match c with RRaw _ => false | _ => true end.
  Lemma T_exec c : structured c = true -> T (exec_chunk d c) = [tok d c].
  Proof. intros H. unfold exec_chunk. change (c :: d_sep_chunks d) with ([c] ++ d_sep_chunks d).
    rewrite T_app, T_sep. destruct c; try discriminate; reflexivity. Qed.

  Lemma T_with_ctx b body : T (with_ctx d b body) = wrap (match b with BtBeginCommit => true | _ => false end) (T body).
  Proof. destruct b; simpl; auto. rewrite !T_app, T_begin, T_commit. reflexivity. Qed.

  Lemma bt_as_sql tddl pm per :
    begin_transaction (mkMcfg tddl pm false true) false per
    = if tddl && Bool.eqb per pm then BtBeginCommit else BtNull.
  Proof. destruct tddl, pm, per; reflexivity. Qed.

  Lemma T_autos k ps : T (flat_map (fun p => exec_chunk d (RStmt k p true)) ps) = map (fun p => Stmt k p true) ps.
  Proof. induction ps as [|p ps IH]; cbn [flat_map map]; auto. rewrite T_app, IH, T_exec; auto. Qed.

  Lemma T_item tddl k it : T (item_chunks d tddl k it) = abs_item tddl k it.
  Proof. destruct it as [p|ps]; simpl.
    - apply T_exec; auto.
    - unfold autocommit_block. rewrite !T_app, T_autos. destruct tddl; simpl; rewrite ?T_commit, ?T_begin; reflexivity. Qed.

  Lemma T_items tddl k body : T (flat_map (item_chunks d tddl k) body) = flat_map (abs_item tddl k) body.
  Proof. induction body as [|it body IH]; cbn [flat_map]; auto. rewrite T_app, IH, T_item; auto. Qed.

  Lemma T_hooks k ps : T (flat_map (fun p => exec_chunk d (RStmt k p false)) ps) = map (fun p => Stmt k p false) ps.
  Proof. induction ps as [|p ps IH]; cbn [flat_map map]; auto. rewrite T_app, IH, T_exec; auto. Qed.

  Lemma T_versions k l : T (flat_map (fun j => exec_chunk d (RVersion k j)) l) = map (VersionStmt k) l.
  Proof. induction l as [|j l IH]; cbn [flat_map map]; auto. rewrite T_app, IH, T_exec; auto. Qed.

  Lemma T_steps tddl pm steps : forall k empty,
    T (steps_chunks d (mkMcfg tddl pm false true) k empty steps) = abs_steps tddl (tddl && pm) k empty steps.
  Proof. induction steps as [|s steps IH]; intros k empty; simpl.
    - destruct empty; auto. rewrite T_with_ctx, bt_as_sql, T_exec; auto. simpl.
      destruct tddl, pm; reflexivity.
    - rewrite T_app, IH. f_equal. unfold step_chunks. rewrite T_with_ctx, bt_as_sql. cbn [m_tddl].
      rewrite !T_app, T_items, T_versions, T_hooks. unfold abs_core.
      replace (T (if empty then exec_chunk d (RCreate k) else [])) with (if empty then [CreateVT k] else []).
      2:{ destruct empty; auto. rewrite T_exec; auto. }
      destruct tddl, pm; reflexivity. Qed.

  Lemma T_offline c r : T (offline_chunks d c r) = abs (effective_tddl d c) (c_per_mig c) r.
  Proof. unfold offline_chunks, abs. change (init_external true (c_conn_in_txn c)) with false.
    rewrite T_with_ctx, bt_as_sql, T_steps.
    destruct (effective_tddl d c), (c_per_mig c); reflexivity. Qed.
End Refine.

(* ------------------------------------------------------------------ D. segments of the abstract sequence *)
Definition Seg (m:bool) (b:nat) (l:list event) (n:nat) (Q:event*nat*bool -> Prop) : Prop :=
  run_depth m l = Some m /\ st_after b m l = ((b + n)%nat, m) /\ Forall Q (ann b m l).

Lemma Seg_app m b l1 n1 (Q1:event*nat*bool -> Prop) l2 n2 (Q2 Q:event*nat*bool -> Prop) :
  Seg m b l1 n1 Q1 -> Seg m (b + n1) l2 n2 Q2 -> (forall t, Q1 t -> Q t) -> (forall t, Q2 t -> Q t) ->
  Seg m b (l1 ++ l2) (n1 + n2) Q.
Proof. intros (A1 & A2 & A3) (B1 & B2 & B3) H1 H2. unfold Seg. split; [|split].
  - rewrite run_depth_app, A1; auto.
  - rewrite st_after_app, A2. simpl. rewrite B2. f_equal. lia.
  - rewrite ann_app, A2. simpl. apply Forall_app. split; [eapply Forall_impl; [exact H1|exact A3]|eapply Forall_impl; [exact H2|exact B3]]. Qed.

Lemma Seg_mf m b l (Q:event*nat*bool -> Prop) : marker_free l -> (forall e, In e l -> Q (e, b, m)) -> Seg m b l 0 Q.
Proof. intros H1 H2. unfold Seg. split; [|split].
  - apply mf_run_depth; auto.
  - rewrite mf_st_after; auto. f_equal; lia.
  - rewrite mf_ann; auto. apply Forall_forall. intros t Ht. apply in_map_iff in Ht as (e & <- & He). auto. Qed.

Lemma Seg_wrap b X n (Q:event*nat*bool -> Prop) : Seg true (S b) X n Q -> Seg false b (wrap true X) (S n) Q.
Proof. intros (A1 & A2 & A3). unfold wrap, Seg. split; [|split].
  - simpl. rewrite run_depth_app, A1. reflexivity.
  - simpl. rewrite st_after_app, A2. simpl. f_equal. lia.
  - simpl. rewrite ann_app, A2. simpl. rewrite app_nil_r. auto. Qed.

Definition P (lo hi:nat) (sk:option N) (t:event*nat*bool) : Prop :=
  let '(e, b, i) := t in
  i = negb (is_auto e) /\ lo <= b <= hi /\ (is_auto e = true -> b < hi) /\ step_of e = sk.
Definition R (lo hi:nat) (t:event*nat*bool) : Prop :=
  let '(e, b, i) := t in i = negb (is_auto e) /\ lo <= b <= hi /\ (is_auto e = true -> b < hi).
Lemma P_widen lo hi sk lo' hi' t : lo' <= lo -> hi <= hi' -> P lo hi sk t -> P lo' hi' sk t.
Proof. destruct t as [[e b] i]. unfold P. intros ? ? (H1 & H2 & H3 & H4). repeat split; auto; try lia.
  intros Ha. specialize (H3 Ha). lia. Qed.
Lemma P_R lo hi sk lo' hi' t : lo' <= lo -> hi <= hi' -> P lo hi sk t -> R lo' hi' t.
Proof. destruct t as [[e b] i]. unfold P, R. intros ? ? (H1 & H2 & H3 & H4). repeat split; auto; try lia.
  intros Ha. specialize (H3 Ha). lia. Qed.
Lemma R_widen lo hi lo' hi' t : lo' <= lo -> hi <= hi' -> R lo hi t -> R lo' hi' t.
Proof. destruct t as [[e b] i]. unfold R. intros ? ? (H1 & H2 & H3). repeat split; auto; try lia.
  intros Ha. specialize (H3 Ha). lia. Qed.

Definition is_iauto (it:item) : bool := match it with IAuto _ => true | IStmt _ => false end.
Definition nauto (body:list item) : nat := length (filter is_iauto body).

Lemma item_seg k it b :
  Seg true b (abs_item true k it) (if is_iauto it then 1 else 0) (P b (b + (if is_iauto it then 1 else 0)) (Some k)).
Proof. destruct it as [p|ps]; simpl.
  - apply Seg_mf.
    + apply mf_cons; [reflexivity|apply mf_nil].
    + intros e [<-|[]]. simpl. repeat split; auto; try lia; try discriminate.
  - assert (Hmf : marker_free (map (fun p => Stmt k p true) ps)).
    { intros e He. apply in_map_iff in He as (p & <- & _). reflexivity. }
    unfold Seg. split; [|split].
    + simpl. rewrite run_depth_app, (mf_run_depth _ Hmf); auto.
    + simpl. rewrite st_after_app, (mf_st_after _ Hmf). simpl. f_equal. lia.
    + simpl. rewrite ann_app, (mf_st_after _ Hmf), (mf_ann _ Hmf). simpl. rewrite app_nil_r.
      apply Forall_forall. intros t Ht. apply in_map_iff in Ht as (e & <- & He).
      apply in_map_iff in He as (p & <- & _). simpl. repeat split; auto; lia. Qed.

Lemma body_seg k body : forall b,
  Seg true b (flat_map (abs_item true k) body) (nauto body) (P b (b + nauto body) (Some k)).
Proof. induction body as [|it body IH]; intros b.
  - apply Seg_mf; [apply mf_nil|intros e []].
  - cbn [flat_map]. unfold nauto. cbn [filter]. fold (nauto body).
    replace (length (if is_iauto it then it :: filter is_iauto body else filter is_iauto body))
      with ((if is_iauto it then 1 else 0) + nauto body)%nat by (destruct (is_iauto it); reflexivity).
    eapply Seg_app; [apply item_seg|apply IH| |]; intros t; apply P_widen; lia. Qed.

Lemma Seg_app' m b l1 n1 l2 n2 (Q:event*nat*bool -> Prop) :
  Seg m b l1 n1 Q -> Seg m (b + n1) l2 n2 Q -> Seg m b (l1 ++ l2) (n1 + n2) Q.
Proof. intros H1 H2. eapply Seg_app; eauto. Qed.

Lemma core_seg k empty s b :
  Seg true b (abs_core true k empty s) (nauto (os_body s)) (P b (b + nauto (os_body s)) (Some k)).
Proof. unfold abs_core. set (n := nauto (os_body s)). set (Q := P b (b + n) (Some k)).
  assert (S1 : Seg true b (if empty then [CreateVT k] else []) 0 Q).
  { apply Seg_mf.
    - destruct empty; [apply mf_cons; [reflexivity|apply mf_nil]|apply mf_nil].
    - destruct empty; intros e He; [destruct He as [<-|[]]|destruct He].
      unfold Q. simpl. repeat split; auto; try lia; try discriminate. }
  assert (S2 : Seg true b [Running k] 0 Q).
  { apply Seg_mf.
    - apply mf_cons; [reflexivity|apply mf_nil].
    - intros e [<-|[]]. unfold Q. simpl. repeat split; auto; try lia; try discriminate. }
  assert (S3 : Seg true b (flat_map (abs_item true k) (os_body s)) n Q) by apply body_seg.
  assert (S4 : Seg true (b + n) (map (VersionStmt k) (vidx (os_nver s)) ++ map (fun p => Stmt k p false) (os_hooks s)) 0 Q).
  { apply Seg_mf.
    - apply mf_app; [apply mf_versions|apply mf_hooks].
    - intros e He. apply in_app_or in He as [He|He]; apply in_map_iff in He as (j & <- & _); unfold Q; simpl;
        repeat split; auto; try lia; try discriminate. }
  change (Running k :: flat_map (abs_item true k) (os_body s) ++ (map (VersionStmt k) (vidx (os_nver s)) ++ map (fun p => Stmt k p false) (os_hooks s)))
    with ([Running k] ++ flat_map (abs_item true k) (os_body s) ++ (map (VersionStmt k) (vidx (os_nver s)) ++ map (fun p => Stmt k p false) (os_hooks s))).
  replace n with (0 + (0 + (n + 0)))%nat at 1 by lia.
  apply Seg_app'; [exact S1|]. rewrite Nat.add_0_r.
  apply Seg_app'; [exact S2|]. rewrite Nat.add_0_r.
  apply Seg_app'; [exact S3|exact S4].
Qed.

Lemma no_auto_nauto s : no_auto s = true -> nauto (os_body s) = 0%nat.
Proof. unfold no_auto, nauto. induction (os_body s) as [|it body IH]; simpl; auto.
  intros H. apply andb_true_iff in H as [H1 H2]. destruct it; try discriminate. simpl. auto. Qed.

(* ------------------------------------------------------------------ E. the step list, one transaction per migration *)
Definition step_ge (k:N) (t:event*nat*bool) : Prop :=
  match step_of (fst (fst t)) with Some k' => (k <= k')%N | None => True end.

Lemma steps_inner steps : forall k empty b,
  exists n, Seg false b (abs_steps true true k empty steps) n (R (S b) (b + n)) /\
    Forall (step_ge k) (ann b false (abs_steps true true k empty steps)) /\
    (forall e e' b1 i i', In (e, b1, i) (ann b false (abs_steps true true k empty steps)) ->
       In (e', b1, i') (ann b false (abs_steps true true k empty steps)) ->
       i = true -> i' = true -> step_of e = step_of e') /\
    (forall j s, nth_error steps j = Some s -> no_auto s = true ->
       forall e e' b1 b2 i i', In (e, b1, i) (ann b false (abs_steps true true k empty steps)) ->
         In (e', b2, i') (ann b false (abs_steps true true k empty steps)) ->
         step_of e = Some (k + N.of_nat j)%N -> step_of e' = Some (k + N.of_nat j)%N -> b1 = b2 /\ i = true /\ i' = true).
Proof.
  induction steps as [|s steps IH]; intros k empty b.
  - destruct empty; simpl.
    + exists 1%nat. split; [|split; [|split]].
      * unfold Seg. split; [reflexivity|split; [simpl; f_equal; lia|]]. simpl. constructor; [|constructor].
        simpl. repeat split; auto; try lia; try discriminate.
      * constructor; [exact I|constructor].
      * intros e e' b1 i i' [H|[]] [H'|[]] _ _. congruence.
      * intros [|j] s0; simpl; discriminate.
    + exists 0%nat. split; [|split; [|split]].
      * unfold Seg. split; [reflexivity|split; [simpl; f_equal; lia|constructor]].
      * constructor.
      * intros e e' b1 i i' [].
      * intros [|j] s0; simpl; discriminate.
  - cbn [abs_steps].
    pose proof (Seg_wrap _ _ _ _ (core_seg k empty s (S b))) as C.
    set (n1 := nauto (os_body s)) in *.
    destruct (IH (N.succ k) (os_empty_after s) (b + S n1)%nat) as (n2 & D & G2 & H3a & H3b).
    set (chunk := wrap true (abs_core true k empty s)) in *.
    set (rest := abs_steps true true (N.succ k) (os_empty_after s) steps) in *.
    assert (EA : ann b false (chunk ++ rest) = ann b false chunk ++ ann (b + S n1) false rest).
    { rewrite ann_app. destruct C as (_ & C2 & _). rewrite C2. reflexivity. }
    destruct C as (C1 & C2 & C3). destruct D as (D1 & D2 & D3).
    assert (F1 : forall t, In t (ann b false chunk) -> P (S b) (S b + n1) (Some k) t) by (apply Forall_forall; exact C3).
    assert (F2 : forall t, In t (ann (b + S n1) false rest) -> R (S (b + S n1)) (b + S n1 + n2) t) by (apply Forall_forall; exact D3).
    assert (F3 : forall t, In t (ann (b + S n1) false rest) -> step_ge (N.succ k) t) by (apply Forall_forall; exact G2).
    exists (S n1 + n2)%nat. rewrite EA. split; [|split; [|split]].
    + eapply Seg_app; [exact (conj C1 (conj C2 C3))|exact (conj D1 (conj D2 D3))| |].
      * intros t. apply P_R; lia.
      * intros t. apply R_widen; lia.
    + apply Forall_app. split; apply Forall_forall; intros [[e b1] i] Ht.
      * apply F1 in Ht. destruct Ht as (_ & _ & _ & Hs). unfold step_ge. simpl. rewrite Hs. lia.
      * apply F3 in Ht. unfold step_ge in *. simpl in *. destruct (step_of e); auto. lia.
    + intros e e' b1 i i' Hi Hi' -> ->. apply in_app_or in Hi. apply in_app_or in Hi'.
      destruct Hi as [Hi|Hi], Hi' as [Hi'|Hi'].
      * apply F1 in Hi. apply F1 in Hi'. destruct Hi as (_ & _ & _ & ->). destruct Hi' as (_ & _ & _ & ->). reflexivity.
      * apply F1 in Hi. apply F2 in Hi'. destruct Hi as (_ & ? & _). destruct Hi' as (_ & ? & _). lia.
      * apply F2 in Hi. apply F1 in Hi'. destruct Hi as (_ & ? & _). destruct Hi' as (_ & ? & _). lia.
      * eapply H3a; eauto.
    + intros j s0 Hn Hna e e' b1 b2 i i' Hi Hi' He He'.
      apply in_app_or in Hi. apply in_app_or in Hi'.
      destruct j as [|j]; simpl in Hn.
      * injection Hn as <-. rewrite N.add_0_r in *.
        assert (Z : n1 = 0%nat) by (apply no_auto_nauto; auto).
        assert (Hin : forall x bx ix, In (x, bx, ix) (ann b false chunk) -> bx = S b /\ ix = true).
        { intros x bx ix Hx. apply F1 in Hx. destruct Hx as (Hx1 & Hx2 & Hx3 & _). rewrite Z in *.
          destruct (is_auto x); [specialize (Hx3 eq_refl); lia|]. simpl in Hx1. split; [lia|auto]. }
        assert (Hout : forall x bx ix, In (x, bx, ix) (ann (b + S n1) false rest) -> step_of x = Some k -> False).
        { intros x bx ix Hx Hk. apply F3 in Hx. unfold step_ge in Hx. simpl in Hx. rewrite Hk in Hx. lia. }
        destruct Hi as [Hi|Hi]; [|exfalso; eapply Hout; eauto].
        destruct Hi' as [Hi'|Hi']; [|exfalso; eapply Hout; eauto].
        apply Hin in Hi. apply Hin in Hi'. destruct Hi, Hi'. subst. auto.
      * assert (Hno : forall x bx ix, In (x, bx, ix) (ann b false chunk) -> step_of x = Some (k + N.of_nat (S j))%N -> False).
        { intros x bx ix Hx Hk. apply F1 in Hx. destruct Hx as (_ & _ & _ & Hs). rewrite Hs in Hk. injection Hk. lia. }
        destruct Hi as [Hi|Hi]; [exfalso; eapply Hno; eauto|].
        destruct Hi' as [Hi'|Hi']; [exfalso; eapply Hno; eauto|].
        replace (k + N.of_nat (S j))%N with (N.succ k + N.of_nat j)%N in * by lia.
        eapply (H3b j s0); eauto.
Qed.

(* ------------------------------------------------------------------ F. the step list inside one enclosing block *)
Lemma item_mf tddl k it : is_iauto it = false \/ tddl = false -> marker_free (abs_item tddl k it).
Proof. intros H. destruct it as [p|ps]; simpl.
  - apply mf_cons; [reflexivity|apply mf_nil].
  - destruct H as [H| ->]; [discriminate|]. simpl. rewrite app_nil_r.
    intros e He. apply in_map_iff in He as (p & <- & _). reflexivity. Qed.
Lemma body_mf tddl k body : forallb (fun it => negb (is_iauto it)) body = true \/ tddl = false ->
  marker_free (flat_map (abs_item tddl k) body).
Proof. induction body as [|it body IH]; intros H; simpl; [apply mf_nil|]. apply mf_app.
  - apply item_mf. destruct H as [H|H]; auto. simpl in H. apply andb_true_iff in H as [H _].
    left. apply negb_true_iff; auto.
  - apply IH. destruct H as [H|H]; auto. simpl in H. apply andb_true_iff in H as [_ H]. auto. Qed.
Lemma no_auto_forallb s : no_auto s = true -> forallb (fun it => negb (is_iauto it)) (os_body s) = true.
Proof. unfold no_auto. intros H. rewrite forallb_forall in *. intros it Hit. specialize (H it Hit).
  destruct it; simpl; auto. Qed.
Lemma core_mf tddl k empty s : no_auto s = true \/ tddl = false -> marker_free (abs_core tddl k empty s).
Proof. intros H. unfold abs_core. apply mf_app; [destruct empty; [apply mf_cons; [reflexivity|apply mf_nil]|apply mf_nil]|].
  apply mf_cons; [reflexivity|]. apply mf_app; [|apply mf_app; [apply mf_versions|apply mf_hooks]].
  apply body_mf. destruct H as [H|H]; auto. left. apply no_auto_forallb; auto. Qed.
Lemma steps_mf tddl steps : forall k empty, forallb no_auto steps = true \/ tddl = false ->
  marker_free (abs_steps tddl false k empty steps).
Proof. induction steps as [|s steps IH]; intros k empty H; simpl.
  - destruct empty; [apply mf_cons; [reflexivity|apply mf_nil]|apply mf_nil].
  - apply mf_app.
    + apply core_mf. destruct H as [H|H]; auto. simpl in H. apply andb_true_iff in H as [H _]. auto.
    + apply IH. destruct H as [H|H]; auto. simpl in H. apply andb_true_iff in H as [_ H]. auto. Qed.

Lemma steps_outer steps : forall k empty b,
  exists n, Seg true b (abs_steps true false k empty steps) n (R b (b + n)).
Proof. induction steps as [|s steps IH]; intros k empty b.
  - exists 0%nat. simpl. apply Seg_mf.
    + destruct empty; [apply mf_cons; [reflexivity|apply mf_nil]|apply mf_nil].
    + destruct empty; intros e He; [destruct He as [<-|[]]|destruct He]. simpl. repeat split; auto; lia.
  - cbn [abs_steps wrap]. pose proof (core_seg k empty s b) as C. set (n1 := nauto (os_body s)) in *.
    destruct (IH (N.succ k) (os_empty_after s) (b + n1)%nat) as (n2 & D).
    exists (n1 + n2)%nat. eapply Seg_app; [exact C|exact D| |].
    + intros t. apply P_R; lia.
    + intros t. apply R_widen; lia. Qed.

(* ------------------------------------------------------------------ G. content *)
Lemma content_strip l : filter content (strip_sep l) = filter content l.
Proof. unfold strip_sep. induction l as [|e l IH]; simpl; auto.
  destruct e; simpl; rewrite ?IH; auto. Qed.
Lemma content_wrap b l : filter content (wrap b l) = filter content l.
Proof. destruct b; simpl; auto. rewrite filter_app. simpl. rewrite app_nil_r. auto. Qed.
Lemma content_all l : (forall e, In e l -> content e = true) -> filter content l = l.
Proof. induction l as [|e l IH]; intros H; simpl; auto. rewrite (H e (or_introl eq_refl)). f_equal. apply IH.
  intros x Hx. apply H. right; auto. Qed.
Lemma content_item tddl k it : filter content (abs_item tddl k it) = item_events k it.
Proof. destruct it as [p|ps]; simpl; auto. rewrite !filter_app.
  replace (filter content (if tddl then [Commit] else [])) with (@nil event) by (destruct tddl; reflexivity).
  replace (filter content (if tddl then [Begin] else [])) with (@nil event) by (destruct tddl; reflexivity).
  simpl. rewrite app_nil_r. apply content_all. intros e He. apply in_map_iff in He as (p & <- & _). reflexivity. Qed.
Lemma content_body tddl k body : filter content (flat_map (abs_item tddl k) body) = flat_map (item_events k) body.
Proof. induction body as [|it body IH]; simpl; auto. rewrite filter_app, content_item, IH. auto. Qed.
Lemma content_steps tddl inner steps : forall k empty,
  filter content (abs_steps tddl inner k empty steps) = expected_steps k empty steps.
Proof. induction steps as [|s steps IH]; intros k empty; simpl.
  - destruct empty; auto. rewrite content_wrap. reflexivity.
  - rewrite filter_app, content_wrap, IH. unfold abs_core. rewrite filter_app. simpl. rewrite filter_app, content_body.
    rewrite (content_all (map _ _ ++ map _ _)).
    2:{ intros e He. apply in_app_or in He as [He|He]; apply in_map_iff in He as (j & <- & _); reflexivity. }
    destruct empty; simpl; rewrite <- ?app_assoc; reflexivity. Qed.
Lemma content_abs tddl pm r : filter content (abs tddl pm r) = expected_content r.
Proof. unfold abs, expected_content. rewrite content_wrap. apply content_steps. Qed.

(* ------------------------------------------------------------------ H. the theorems on the abstract sequence *)
Lemma count_begin_Seg m b l n Q : Seg m b l n Q -> count_begin l = n.
Proof. intros (_ & H & _). pose proof (st_after_fst l b m) as F. rewrite H in F. simpl in F. lia. Qed.

Lemma abs_holds tddl pm r evs : strip_sep evs = abs tddl pm r -> C18_events_hold tddl pm r evs.
Proof.
  intros HE. unfold C18_events_hold. rewrite HE. split.
  { rewrite <- content_strip, HE. apply content_abs. }
  destruct tddl.
  - destruct pm; unfold abs; cbn [andb negb wrap].
    + (* one transaction per migration *)
      destruct (steps_inner (r_steps r) 0%N (r_init_empty r) 0%nat) as (n & S & _ & H3a & H3b).
      pose proof (count_begin_Seg _ _ _ _ _ S) as Hc. destruct S as (S1 & S2 & S3).
      assert (F : forall t, In t (ann 0 false (abs_steps true true 0 (r_init_empty r) (r_steps r))) -> R 1 n t)
        by (apply Forall_forall; exact S3).
      split; [exact S1|]. split; [|split; [|split]].
      * intros e b i Hi. apply F in Hi. destruct Hi as (H & _). exact H.
      * intros e b i Hi Ha. apply F in Hi. destruct Hi as (_ & H1 & H2). specialize (H2 Ha). rewrite Hc. lia.
      * exact H3a.
      * intros j s Hn Hna e e' b b' i i' Hi Hi' He He'. eapply (H3b j s Hn Hna); eauto.
    + (* one enclosing block *)
      destruct (steps_outer (r_steps r) 0%N (r_init_empty r) 1%nat) as (n & S).
      pose proof (Seg_wrap _ _ _ _ S) as W. pose proof (count_begin_Seg _ _ _ _ _ W) as Hc.
      destruct W as (W1 & W2 & W3). unfold wrap in *.
      assert (F : forall t, In t (ann 0 false (Begin :: abs_steps true false 0 (r_init_empty r) (r_steps r) ++ [Commit]))
                  -> R 1 (1 + n) t) by (apply Forall_forall; exact W3).
      split; [exact W1|]. split; [|split; [|]].
      * intros e b i Hi. apply F in Hi. destruct Hi as (H & _). exact H.
      * intros e b i Hi Ha. apply F in Hi. destruct Hi as (_ & H1 & H2). specialize (H2 Ha). rewrite Hc. lia.
      * intros Hna. pose proof (steps_mf true (r_steps r) 0%N (r_init_empty r) (or_introl Hna)) as M.
        assert (EA : ann 0 false (Begin :: abs_steps true false 0 (r_init_empty r) (r_steps r) ++ [Commit])
                     = map (fun e => (e, 1%nat, true)) (abs_steps true false 0 (r_init_empty r) (r_steps r))).
        { simpl. rewrite ann_app, (mf_st_after _ M), (mf_ann _ M). simpl. apply app_nil_r. }
        rewrite EA. intros e e' b b' i i' Hi Hi'.
        apply in_map_iff in Hi as (x & Hx & _). apply in_map_iff in Hi' as (x' & Hx' & _).
        injection Hx as _ <- <-. injection Hx' as _ <- <-. auto.
  - (* no transactional DDL: no markers *)
    intros e He. destruct (is_marker e) eqn:Hm; auto. exfalso.
    assert (Hin : In e (strip_sep evs)).
    { unfold strip_sep. apply filter_In. split; auto. destruct e; simpl in *; try discriminate; auto. }
    rewrite HE in Hin. unfold abs in Hin. cbn [andb wrap] in Hin.
    pose proof (steps_mf false (r_steps r) 0%N (r_init_empty r) (or_intror eq_refl) e Hin). congruence.
Qed.

Theorem complete_thm d c r : table_wf d = true ->
  C18_events_hold (effective_tddl d c) (c_per_mig c) r (tokenize d (offline_chunks d c r)).
Proof. intros Hwf. apply abs_holds. apply (T_offline d Hwf). Qed.

(* ------------------------------------------------------------------ H'. a run cut short by an exception *)
Definition wrap_open (b:bool) (l:list event) : list event := if b then Begin :: l else l.
Fixpoint abs_steps_cut (tddl inner:bool) (k:N) (empty:bool) (steps:list ostep) : list event :=
  match steps with
  | [] => []
  | [s] => wrap_open inner (abs_core tddl k empty s)
  | s :: r => wrap inner (abs_core tddl k empty s) ++ abs_steps_cut tddl inner (N.succ k) (os_empty_after s) r
  end.
Definition abs_cut (tddl pm:bool) (r:run) : list event :=
  wrap_open (tddl && negb pm) (abs_steps_cut tddl (tddl && pm) 0 (r_init_empty r) (r_steps r)).

Section RefineCut.
  Variable d : dialect.
  Hypothesis Hwf : table_wf d = true.
  Notation T := (T d).

  Lemma T_open b body : T (open_ctx d b body) = wrap_open (match b with BtBeginCommit => true | _ => false end) (T body).
  Proof. destruct b; simpl; auto. rewrite (T_app d), (T_begin d Hwf). reflexivity. Qed.

  Lemma T_core tddl pm k empty s : T (step_core d (mkMcfg tddl pm false true) k empty s) = abs_core tddl k empty s.
  Proof. unfold step_core. cbn [m_tddl]. rewrite !(T_app d), (T_items d Hwf), (T_versions d Hwf), (T_hooks d Hwf). unfold abs_core.
    replace (T (if empty then exec_chunk d (RCreate k) else [])) with (if empty then [CreateVT k] else []).
    2:{ destruct empty; auto. rewrite (T_exec d Hwf); auto. }
    reflexivity. Qed.

  Lemma T_step tddl pm k empty s :
    T (step_chunks d (mkMcfg tddl pm false true) k empty s) = wrap (tddl && pm) (abs_core tddl k empty s).
  Proof. pose proof (T_steps d Hwf tddl pm [s] k empty) as H. cbn [steps_chunks abs_steps] in H.
    rewrite (T_app d) in H. destruct (os_empty_after s).
    - (* the trailing DROP of the one-step run: peel it off *)
      unfold step_chunks. rewrite (T_with_ctx d Hwf), bt_as_sql. cbn [m_tddl].
      change (T (_ ++ _)) with (T (step_core d (mkMcfg tddl pm false true) k empty s)). rewrite T_core.
      destruct tddl, pm; reflexivity.
    - simpl in H. rewrite !app_nil_r in H. exact H. Qed.

  Lemma T_steps_cut tddl pm steps : forall k empty,
    T (steps_chunks_cut d (mkMcfg tddl pm false true) k empty steps) = abs_steps_cut tddl (tddl && pm) k empty steps.
  Proof. induction steps as [|s steps IH]; intros k empty; [reflexivity|].
    destruct steps as [|s2 steps].
    - cbn [steps_chunks_cut abs_steps_cut]. rewrite T_open, bt_as_sql, T_core. destruct tddl, pm; reflexivity.
    - change (steps_chunks_cut d (mkMcfg tddl pm false true) k empty (s :: s2 :: steps))
        with (step_chunks d (mkMcfg tddl pm false true) k empty s ++
              steps_chunks_cut d (mkMcfg tddl pm false true) (N.succ k) (os_empty_after s) (s2 :: steps)).
      change (abs_steps_cut tddl (tddl && pm) k empty (s :: s2 :: steps))
        with (wrap (tddl && pm) (abs_core tddl k empty s) ++
              abs_steps_cut tddl (tddl && pm) (N.succ k) (os_empty_after s) (s2 :: steps)).
      rewrite (T_app d), IH, T_step. reflexivity. Qed.

  Lemma T_offline_cut c r : T (offline_chunks_cut d c r) = abs_cut (effective_tddl d c) (c_per_mig c) r.
  Proof. unfold offline_chunks_cut, abs_cut. change (init_external true (c_conn_in_txn c)) with false.
    rewrite T_open, bt_as_sql, T_steps_cut. destruct (effective_tddl d c), (c_per_mig c); reflexivity. Qed.
End RefineCut.

Definition Pl (t:event*nat*bool) : Prop := snd t = negb (is_auto (fst (fst t))).
Lemma P_Pl lo hi sk t : P lo hi sk t -> Pl t.
Proof. destruct t as [[e b] i]. unfold P, Pl. simpl. tauto. Qed.

Lemma chunk_seg inner k empty s b : exists n, Seg (negb inner) b (wrap inner (abs_core true k empty s)) n Pl.
Proof. destruct inner; simpl.
  - exists (S (nauto (os_body s))). pose proof (Seg_wrap _ _ _ _ (core_seg k empty s (S b))) as (A1 & A2 & A3).
    split; [|split]; auto. eapply Forall_impl; [|exact A3]. intros t. apply P_Pl.
  - exists (nauto (os_body s)). destruct (core_seg k empty s b) as (A1 & A2 & A3).
    split; [|split]; auto. eapply Forall_impl; [|exact A3]. intros t. apply P_Pl. Qed.

Lemma cut_steps inner steps : forall k empty b,
  (exists dp, run_depth (negb inner) (abs_steps_cut true inner k empty steps) = Some dp) /\
  Forall Pl (ann b (negb inner) (abs_steps_cut true inner k empty steps)).
Proof. induction steps as [|s steps IH]; intros k empty b.
  - simpl. split; [eexists; reflexivity|constructor].
  - destruct steps as [|s2 steps].
    + cbn [abs_steps_cut]. destruct inner; simpl.
      * destruct (core_seg k empty s (S b)) as (A1 & A2 & A3). split; [exists true; auto|].
        eapply Forall_impl; [|exact A3]. intros t. apply P_Pl.
      * destruct (core_seg k empty s b) as (A1 & A2 & A3). split; [exists true; auto|].
        eapply Forall_impl; [|exact A3]. intros t. apply P_Pl.
    + change (abs_steps_cut true inner k empty (s :: s2 :: steps))
        with (wrap inner (abs_core true k empty s) ++ abs_steps_cut true inner (N.succ k) (os_empty_after s) (s2 :: steps)).
      destruct (chunk_seg inner k empty s b) as (n & C1 & C2 & C3).
      destruct (IH (N.succ k) (os_empty_after s) (b + n)%nat) as ((dp & I1) & I2).
      split.
      * exists dp. rewrite run_depth_app, C1. exact I1.
      * rewrite ann_app, C2. simpl. apply Forall_app. split; auto. Qed.

Lemma steps_cut_mf steps : forall k empty, marker_free (abs_steps_cut false false k empty steps).
Proof. induction steps as [|s steps IH]; intros k empty; [apply mf_nil|]. destruct steps as [|s2 steps].
  - simpl. apply core_mf. right; reflexivity.
  - change (abs_steps_cut false false k empty (s :: s2 :: steps))
      with (wrap false (abs_core false k empty s) ++ abs_steps_cut false false (N.succ k) (os_empty_after s) (s2 :: steps)).
    apply mf_app; [apply core_mf; right; reflexivity|apply IH]. Qed.

Lemma content_open b l : filter content (wrap_open b l) = filter content l.
Proof. destruct b; reflexivity. Qed.
Lemma content_core tddl k empty s : filter content (abs_core tddl k empty s) = step_content k empty s.
Proof. unfold abs_core, step_content. rewrite filter_app. simpl. rewrite filter_app, content_body.
  rewrite (content_all (map _ _ ++ map _ _)).
  2:{ intros e He. apply in_app_or in He as [He|He]; apply in_map_iff in He as (j & <- & _); reflexivity. }
  destruct empty; reflexivity. Qed.
Lemma content_steps_cut tddl inner steps : forall k empty,
  filter content (abs_steps_cut tddl inner k empty steps) = expected_cut k empty steps.
Proof. induction steps as [|s steps IH]; intros k empty; [reflexivity|]. destruct steps as [|s2 steps].
  - cbn [abs_steps_cut expected_cut]. rewrite content_open, content_core, app_nil_r. reflexivity.
  - change (abs_steps_cut tddl inner k empty (s :: s2 :: steps))
      with (wrap inner (abs_core tddl k empty s) ++ abs_steps_cut tddl inner (N.succ k) (os_empty_after s) (s2 :: steps)).
    rewrite filter_app, content_wrap, content_core, IH. reflexivity. Qed.

Lemma abs_cut_holds tddl pm r evs : strip_sep evs = abs_cut tddl pm r -> C18_cut_hold tddl r evs.
Proof.
  intros HE. unfold C18_cut_hold. rewrite HE. split.
  { rewrite <- content_strip, HE. unfold abs_cut. rewrite content_open. apply content_steps_cut. }
  destruct tddl.
  - unfold abs_cut. cbn [andb]. destruct pm; cbn [negb wrap_open].
    + destruct (cut_steps true (r_steps r) 0%N (r_init_empty r) 0%nat) as (E & F). split; auto.
      intros e b i Hin. rewrite Forall_forall in F. apply (F _ Hin).
    + destruct (cut_steps false (r_steps r) 0%N (r_init_empty r) 1%nat) as (E & F). split; auto.
      intros e b i Hin. rewrite Forall_forall in F. apply (F _ Hin).
  - intros e He. destruct (is_marker e) eqn:Hm; auto. exfalso.
    assert (Hin : In e (strip_sep evs)).
    { unfold strip_sep. apply filter_In. split; auto. destruct e; simpl in *; try discriminate; auto. }
    rewrite HE in Hin. unfold abs_cut in Hin. cbn [andb wrap_open] in Hin.
    pose proof (steps_cut_mf (r_steps r) 0%N (r_init_empty r) e Hin). congruence.
Qed.

Theorem cut_thm d c r : table_wf d = true -> C18_cut_hold (effective_tddl d c) r (tokenize d (offline_chunks_cut d c r)).
Proof. intros Hwf. apply (abs_cut_holds _ (c_per_mig c)). apply (T_offline_cut d Hwf). Qed.

Theorem C18_main_thm d c r : table_wf d = true -> C18_holds (d, c, r) (offline_out d c r).
Proof. intros Hwf. unfold C18_holds, offline_out. destruct (r_cut r); [apply cut_thm|apply complete_thm]; auto. Qed.

(* ------------------------------------------------------------------ I. the clauses one by one (statements of Properties/C18.v) *)
Lemma main_tddl d c r : table_wf d = true -> effective_tddl d c = true ->
  C18_events_hold true (c_per_mig c) r (offline_events d c r).
Proof. intros Hwf Ht. pose proof (complete_thm d c r Hwf) as H. rewrite Ht in H. exact H. Qed.

Lemma grammar_thm d c r : table_wf d = true -> effective_tddl d c = true ->
  framed false (strip_sep (offline_events d c r)).
Proof. intros Hwf Ht. apply framed_iff. apply (main_tddl d c r Hwf Ht). Qed.

Lemma per_migration_thm d c r : table_wf d = true -> effective_tddl d c = true -> c_per_mig c = true ->
  let A := ann 0 false (strip_sep (offline_events d c r)) in
  (forall e e' b i i', In (e, b, i) A -> In (e', b, i') A -> i = true -> i' = true -> step_of e = step_of e') /\
  (forall j s, nth_error (r_steps r) j = Some s -> no_auto s = true ->
     forall e e' b b' i i', In (e, b, i) A -> In (e', b', i') A ->
       step_of e = Some (N.of_nat j) -> step_of e' = Some (N.of_nat j) -> b = b' /\ i = true /\ i' = true).
Proof. intros Hwf Ht Hp. pose proof (main_tddl d c r Hwf Ht) as H. rewrite Hp in H.
  destruct H as (_ & _ & _ & _ & H). exact H. Qed.

Lemma single_block_thm d c r : table_wf d = true -> effective_tddl d c = true -> c_per_mig c = false ->
  forallb no_auto (r_steps r) = true ->
  forall e e' b b' i i', In (e, b, i) (ann 0 false (strip_sep (offline_events d c r))) ->
    In (e', b', i') (ann 0 false (strip_sep (offline_events d c r))) -> b = b' /\ i = true /\ i' = true.
Proof. intros Hwf Ht Hp. pose proof (main_tddl d c r Hwf Ht) as H. rewrite Hp in H.
  destruct H as (_ & _ & _ & _ & H). exact H. Qed.

Lemma autocommit_thm d c r : table_wf d = true -> effective_tddl d c = true ->
  forall e b i, In (e, b, i) (ann 0 false (strip_sep (offline_events d c r))) ->
    i = negb (is_auto e) /\
    (is_auto e = true -> 1 <= b /\ b < count_begin (strip_sep (offline_events d c r))).
Proof. intros Hwf Ht e b i Hi. pose proof (main_tddl d c r Hwf Ht) as H.
  destruct H as (_ & _ & H1 & H2 & _). split; [eapply H1; eauto|eapply H2; eauto]. Qed.

Lemma no_markers_thm d c r : table_wf d = true -> effective_tddl d c = false ->
  forall e, In e (offline_events d c r) -> is_marker e = false.
Proof. intros Hwf Ht. pose proof (complete_thm d c r Hwf) as H. rewrite Ht in H.
  destruct H as (_ & H). exact H. Qed.

Lemma content_thm d c r : table_wf d = true -> filter content (offline_events d c r) = expected_content r.
Proof. intros Hwf. pose proof (complete_thm d c r Hwf) as H. unfold C18_events_hold in H. apply H. Qed.

Lemma table_thm (ds:list (option dialect)) : forallb table_wf_opt ds = true ->
  forall d c r, In (Some d) ds -> C18_holds (d, c, r) (offline_out d c r).
Proof. intros H d c r Hin. rewrite forallb_forall in H. apply C18_main_thm. apply (H (Some d) Hin). Qed.

Lemma conn_state_thm d tddl pm b e r :
  offline_chunks d (mkOcfg tddl pm b e) r = offline_chunks d (mkOcfg tddl pm false e) r.
Proof. reflexivity. Qed.

Lemma override_routes_thm d pm b x r :
  offline_chunks d (mkOcfg (Some x) pm b None) r = offline_chunks d (mkOcfg None pm b (Some x)) r /\
  (forall y, offline_chunks d (mkOcfg (Some x) pm b (Some y)) r = offline_chunks d (mkOcfg (Some x) pm b None) r).
Proof. split; reflexivity. Qed.

(* ------------------------------------------------------------------ J. one statement of well-bracketedness *)
Lemma well_bracketed_thm d c r : table_wf d = true ->
  let E := strip_sep (offline_events d c r) in
  (effective_tddl d c = true ->
     framed false E /\
     (forall e b i, In (e, b, i) (ann 0 false E) -> i = negb (is_auto e)) /\
     (forall e b i, In (e, b, i) (ann 0 false E) -> is_auto e = true -> 1 <= b /\ b < count_begin E)) /\
  (effective_tddl d c = false -> forall e, In e (offline_events d c r) -> is_marker e = false).
Proof. intros Hwf E. split.
  - intros Ht. split; [apply grammar_thm; auto|]. split; intros e b i Hin.
    + apply (autocommit_thm d c r Hwf Ht e b i Hin).
    + apply (autocommit_thm d c r Hwf Ht e b i Hin).
  - intros Ht. apply no_markers_thm; auto. Qed.

(* ------------------------------------------------------------------ K. several databases through one EnvironmentContext *)
Lemma multi_nth_thm : forall calls env k c, nth_error calls k = Some c ->
  nth_error (multi_out env calls) k =
  Some (offline_out (dc_dialect c)
          (mkOcfg (acc_of env (map dc_tddl (firstn (S k) calls))) (dc_per_mig c) (dc_conn_in_txn c) None) (dc_run c)).
Proof. induction calls as [|c0 calls IH]; intros env k c; [destruct k; discriminate|].
  destruct k as [|k]; simpl.
  - intros [= <-]. reflexivity.
  - intros H. rewrite (IH _ _ _ H). reflexivity. Qed.

(* the script of database k is a function of call k and of the explicit options given up to it; the dialects (and
   runs, and other settings) of the other calls do not matter *)
Lemma multi_independent_thm calls calls' env k c : nth_error calls k = Some c -> nth_error calls' k = Some c ->
  map dc_tddl (firstn k calls) = map dc_tddl (firstn k calls') ->
  nth_error (multi_out env calls) k = nth_error (multi_out env calls') k.
Proof. intros H H' E. rewrite (multi_nth_thm _ _ _ _ H), (multi_nth_thm _ _ _ _ H').
  assert (F : forall l j, nth_error l j = Some c -> map dc_tddl (firstn (S j) l) = map dc_tddl (firstn j l) ++ [dc_tddl c]).
  { clear. induction l as [|x l IH]; intros [|j]; cbn [nth_error]; try discriminate.
    - intros [= ->]. reflexivity.
    - intros H. change (firstn (S (S j)) (x :: l)) with (x :: firstn (S j) l).
      change (firstn (S j) (x :: l)) with (x :: firstn j l). cbn [map app]. rewrite (IH j H). reflexivity. }
  rewrite (F _ _ H), (F _ _ H'), E. reflexivity. Qed.
