(* Proofs about Model/PyRepr.v: str.__repr__ followed by the lexer is the identity on every string. *)
From AV Require Import Model.PyRepr.
Open Scope N_scope.

Lemma lex_run_app s a b : lex_run s (a ++ b) = lex_run (lex_run s a) b.
Proof. unfold lex_run. apply fold_left_app. Qed.

Lemma lex_run_cons s c r : lex_run s (c :: r) = lex_run (lex_step s c) r.
Proof. reflexivity. Qed.

Lemma lex_run_err e out l : lex_run (LErr e, out) l = (LErr e, out).
Proof. induction l; simpl; auto. Qed.

(* ------------------------------------------------------------------ hex digits *)
Lemma hexval_hexdigit d : d < 16 -> hexval (hexdigit d) = Some d.
Proof.
  intros H.
  assert (E: d = 0 \/ d = 1 \/ d = 2 \/ d = 3 \/ d = 4 \/ d = 5 \/ d = 6 \/ d = 7 \/ d = 8 \/ d = 9 \/
             d = 10 \/ d = 11 \/ d = 12 \/ d = 13 \/ d = 14 \/ d = 15) by lia.
  repeat (destruct E as [->|E]; [reflexivity|]). subst; reflexivity.
Qed.

Definition p16 (k:nat) : N := 16 ^ (N.of_nat k).
Lemma p16_0 : p16 0 = 1. Proof. reflexivity. Qed.
Lemma p16_S k : p16 (S k) = 16 * p16 k.
Proof. unfold p16. rewrite Nat2N.inj_succ, N.pow_succ_r'. reflexivity. Qed.

Lemma hex_partial q acc out : forall k j x v, x < p16 k -> (1 <= j)%nat ->
  lex_run (LHex q acc (k + j) v, out) (hexn k x) = (LHex q acc j (v * p16 k + x), out).
Proof.
  induction k as [|k IH]; intros j x v Hx Hj.
  - rewrite p16_0 in *. assert (x = 0) by lia. subst. simpl. f_equal. f_equal. lia.
  - cbn [hexn]. rewrite lex_run_app. rewrite p16_S in Hx.
    assert (Hq: x / 16 < p16 k) by (apply N.div_lt_upper_bound; lia).
    replace (S k + j)%nat with (k + S j)%nat by lia.
    rewrite (IH (S j) (x / 16) v Hq) by lia.
    cbn [lex_run fold_left lex_step].
    rewrite hexval_hexdigit by (apply N.mod_lt; lia).
    destruct j as [|j]; [lia|].
    f_equal. f_equal. rewrite p16_S.
    pose proof (N.div_mod x 16). lia.
Qed.

Lemma hex_final q acc out k x v : x < p16 (S k) -> v * p16 (S k) + x <= max_cp ->
  lex_run (LHex q acc (S k) v, out) (hexn (S k) x) = (LStr q ((v * p16 (S k) + x) :: acc), out).
Proof.
  intros Hx Hm. cbn [hexn]. rewrite lex_run_app. rewrite p16_S in Hx.
  assert (Hq: x / 16 < p16 k) by (apply N.div_lt_upper_bound; lia).
  replace (S k) with (k + 1)%nat at 1 by lia.
  rewrite (hex_partial q acc out k 1 (x / 16) v Hq) by lia.
  cbn [lex_run fold_left lex_step].
  rewrite hexval_hexdigit by (apply N.mod_lt; lia).
  assert (E: 16 * (v * p16 k + x / 16) + x mod 16 = v * p16 (S k) + x).
  { rewrite p16_S. pose proof (N.div_mod x 16). lia. }
  rewrite E. apply N.leb_le in Hm. rewrite Hm. reflexivity.
Qed.

(* ------------------------------------------------------------------ one character *)
Definition quote_ok (q:N) : Prop := q = c_sq \/ q = c_dq.

Section Roundtrip.
  Variable printable : N -> bool.

  Lemma raw_char q acc out c : c <> q -> c <> c_bs -> 32 <= c ->
    lex_run (LStr q acc, out) [c] = (LStr q (c :: acc), out).
  Proof.
    intros H1 H2 H3. cbn [lex_run fold_left lex_step]. unfold str_step.
    apply N.eqb_neq in H1, H2. rewrite H1, H2.
    replace ((c =? 10) || (c =? 13) || (c =? 0)) with false; [reflexivity|].
    symmetry. rewrite !orb_false_iff, !N.eqb_neq. lia.
  Qed.

  Lemma bs_step q acc out : quote_ok q -> lex_step (LStr q acc, out) c_bs = (LEsc q acc, out).
  Proof. intros [-> | ->]; reflexivity. Qed.

  Lemma hex_escape q acc out c (k:nat) (e:N) : quote_ok q ->
    (k = 1%nat /\ e = 120) \/ (k = 3%nat /\ e = 117) \/ (k = 7%nat /\ e = 85) ->
    c < p16 (S k) -> c <= max_cp ->
    lex_run (LStr q acc, out) (c_bs :: e :: hexn (S k) c) = (LStr q (c :: acc), out).
  Proof.
    intros Hq Hk Hc Hm.
    rewrite lex_run_cons, bs_step by assumption. rewrite lex_run_cons.
    assert (S2: lex_step (LEsc q acc, out) e = (LHex q acc (S k) 0, out)).
    { destruct Hk as [[-> ->]|[[-> ->]|[-> ->]]]; reflexivity. }
    rewrite S2. rewrite hex_final; [|assumption|lia]. replace (0 * p16 (S k) + c) with c by lia. reflexivity.
  Qed.

  Lemma escape_char_lex q acc out c : quote_ok q -> c <= max_cp ->
    lex_run (LStr q acc, out) (escape_char printable q c) = (LStr q (c :: acc), out).
  Proof.
    intros Hq Hm. unfold escape_char.
    destruct ((c =? q) || (c =? c_bs)) eqn:E1.
    { rewrite lex_run_cons, bs_step by assumption.
      apply orb_true_iff in E1. destruct E1 as [E|E]; apply N.eqb_eq in E; subst c.
      - destruct Hq as [-> | ->]; reflexivity.
      - reflexivity. }
    apply orb_false_iff in E1. destruct E1 as [E1 E2]. apply N.eqb_neq in E1, E2.
    destruct (N.eqb_spec c 9) as [->|N9]. { rewrite lex_run_cons, bs_step by assumption. reflexivity. }
    destruct (N.eqb_spec c 10) as [->|N10]. { rewrite lex_run_cons, bs_step by assumption. reflexivity. }
    destruct (N.eqb_spec c 13) as [->|N13]. { rewrite lex_run_cons, bs_step by assumption. reflexivity. }
    destruct ((c <? 32) || (c =? 127)) eqn:E3.
    { apply (hex_escape q acc out c 1 120); auto.
      apply orb_true_iff in E3. destruct E3 as [E|E]; [apply N.ltb_lt in E|apply N.eqb_eq in E]; unfold p16; simpl; lia. }
    apply orb_false_iff in E3. destruct E3 as [E3 E4]. apply N.ltb_ge in E3. apply N.eqb_neq in E4.
    destruct (N.ltb_spec c 127) as [L|L]. { apply raw_char; auto. }
    destruct (printable c). { apply raw_char; auto. }
    destruct (N.ltb_spec c 256) as [L2|L2].
    { apply (hex_escape q acc out c 1 120); auto. }
    destruct (N.ltb_spec c 65536) as [L3|L3].
    { apply (hex_escape q acc out c 3 117); auto. }
    apply (hex_escape q acc out c 7 85); auto. unfold max_cp in Hm. unfold p16; simpl; lia.
  Qed.

  Lemma escape_all_lex q out : quote_ok q -> forall s acc, valid_str s ->
    lex_run (LStr q acc, out) (flat_map (escape_char printable q) s) = (LStr q (rev s ++ acc), out).
  Proof.
    intros Hq. induction s as [|c s IH]; intros acc Hv; [reflexivity|].
    inversion Hv; subst. cbn [flat_map]. rewrite lex_run_app, escape_char_lex by assumption.
    rewrite IH by assumption. cbn [rev]. rewrite <- app_assoc. reflexivity.
  Qed.

  Lemma choose_quote_ok s : quote_ok (choose_quote s).
  Proof. unfold choose_quote, quote_ok. destruct (memN c_sq s && negb (memN c_dq s)); auto. Qed.

  (* the state after lexing a whole repr, from any boundary state that hands the first character to idle_step *)
  Definition after_str (s:str) (q:N) : lstate := match s with [] => LClosedEmpty q | _ => LIdle end.

  Lemma repr_lex_from out s : valid_str s ->
    lex_run (idle_step out (choose_quote s)) (flat_map (escape_char printable (choose_quote s)) s ++ [choose_quote s])
    = (after_str s (choose_quote s), StrTok s :: out).
  Proof.
    intros Hv. pose proof (choose_quote_ok s) as Hq. set (q := choose_quote s) in *.
    assert (I: idle_step out q = (LStr q [], out)) by (destruct Hq as [-> | ->]; reflexivity).
    rewrite I, lex_run_app, escape_all_lex by assumption. rewrite app_nil_r.
    cbn [lex_run fold_left lex_step]. unfold str_step. rewrite N.eqb_refl.
    destruct s as [|c s]; [reflexivity|].
    destruct (rev (c :: s)) eqn:R.
    - exfalso. apply (f_equal (@length N)) in R. rewrite rev_length in R. discriminate.
    - rewrite <- R, rev_involutive. reflexivity.
  Qed.

  Theorem py_repr_roundtrip s : valid_str s -> py_lex (py_repr printable s) = Ok [StrTok s].
  Proof.
    intros Hv. unfold py_lex, py_repr. rewrite lex_run_cons.
    change (lex_step (LIdle, []) (choose_quote s)) with (idle_step [] (choose_quote s)).
    rewrite repr_lex_from by assumption. destruct s; reflexivity.
  Qed.

  (* pasting text between quote characters does not survive a quote inside the text *)
  Lemma str_body_no_quote q out : forall s acc r,
    lex_run (LStr q acc, out) s = (LStr q r, out) -> True.
  Proof. auto. Qed.
End Roundtrip.
