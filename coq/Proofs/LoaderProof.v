(* C19 — proofs about Model/Loader.v against Spec/C19.v *)
From AV Require Import Base.ListSet Model.Loader Spec.C19.
From Coq Require Import Permutation.
Open Scope N_scope.

(* ------------------------------------------------------------------ equality tests *)
Lemma str_eqb_eq a b : str_eqb a b = true <-> a = b.
Proof. apply list_eqbN_eq. Qed.
Lemma str_eqb_refl a : str_eqb a a = true.
Proof. apply str_eqb_eq; reflexivity. Qed.
Lemma str_eqb_neq a b : str_eqb a b = false <-> a <> b.
Proof. rewrite <- str_eqb_eq. destruct (str_eqb a b); split; congruence. Qed.
Lemma path_eqb_eq a b : path_eqb a b = true <-> a = b.
Proof. unfold path_eqb. revert b; induction a as [|x a IH]; destruct b as [|y b]; simpl; try (split; congruence).
  rewrite andb_true_iff, str_eqb_eq, IH. split; [intros [-> ->]; auto|inversion 1; auto]. Qed.
Lemma path_eqb_refl a : path_eqb a a = true.
Proof. apply path_eqb_eq; reflexivity. Qed.
Lemma mem_str_In s l : mem_str s l = true <-> In s l.
Proof. unfold mem_str. rewrite existsb_exists. split.
  - intros [y [Hy He]]. apply str_eqb_eq in He. subst; auto.
  - intros H. exists s. split; auto. apply str_eqb_refl. Qed.
Lemma mem_path_In s l : mem_path s l = true <-> In s l.
Proof. unfold mem_path. rewrite existsb_exists. split.
  - intros [y [Hy He]]. apply path_eqb_eq in He. subst; auto.
  - intros H. exists s. split; auto. apply path_eqb_refl. Qed.
Lemma nodup_str_NoDup l : nodup_str l = true -> NoDup l.
Proof. induction l as [|x r IH]; simpl; [constructor|]. rewrite andb_true_iff, negb_true_iff. intros [Hm Hr].
  constructor; auto. intro Hin. apply mem_str_In in Hin. congruence. Qed.

Lemma is_prefix_app p q : is_prefix p q = true <-> exists r, q = p ++ r.
Proof. revert q; induction p as [|a p IH]; intros q; simpl.
  - split; eauto.
  - destruct q as [|b q].
    + split; [discriminate|]. intros [r Hr]. discriminate.
    + rewrite andb_true_iff, str_eqb_eq, IH. split.
      * intros [-> [r ->]]. eauto.
      * intros [r Hr]. inversion Hr; subst. eauto. Qed.

(* ------------------------------------------------------------------ induction over the nested tree *)
Lemma node_ind' (P : node -> Prop) :
  (forall c, P (File c)) -> (forall t, P (Link t)) ->
  (forall es, Forall (fun e : entry => P (snd e)) es -> P (Dir es)) -> forall n, P n.
Proof. intros HF HL HD. fix IH 1. intros [c|es|t]; [apply HF| |apply HL].
  apply HD. induction es as [|[nm c] r IHr]; constructor; [apply IH|apply IHr]. Qed.

(* names are unique and non-empty everywhere *)
Fixpoint good_names (n:node) : Prop :=
  match n with
  | Dir es => NoDup (map fst es) /\ ~ In [] (map fst es) /\
              (fix all (l:list entry) : Prop := match l with [] => True | e :: r => good_names (snd e) /\ all r end) es
  | _ => True
  end.
Lemma good_names_Dir es : good_names (Dir es) <->
  NoDup (map fst es) /\ ~ In [] (map fst es) /\ Forall (fun e : entry => good_names (snd e)) es.
Proof. cbn [good_names].
  assert (H : forall l : list entry, (fix all (l:list entry) : Prop := match l with [] => True | e :: r => good_names (snd e) /\ all r end) l
                     <-> Forall (fun e : entry => good_names (snd e)) l).
  { induction l as [|e r IH]; split; intros H.
    - constructor.
    - exact I.
    - destruct H as [H1 H2]. constructor; [exact H1|apply IH, H2].
    - inversion H; subst. split; [assumption|apply IH; assumption]. }
  rewrite H. tauto. Qed.

Lemma find_entry_In nm es c : find_entry nm es = Some c -> In (nm, c) es.
Proof. induction es as [|[n c'] r IH]; simpl; [discriminate|]. destruct (str_eqb nm n) eqn:E.
  - intros [= ->]. apply str_eqb_eq in E. subst. auto.
  - auto. Qed.
Lemma find_entry_None nm es : find_entry nm es = None -> ~ In nm (map fst es).
Proof. induction es as [|[n c'] r IH]; simpl; [tauto|]. destruct (str_eqb nm n) eqn:E; [discriminate|].
  intros H [Hn|Hn]; [subst; rewrite str_eqb_refl in E; discriminate|]. apply IH; auto. Qed.
Lemma In_find_entry nm c es : NoDup (map fst es) -> In (nm, c) es -> find_entry nm es = Some c.
Proof. induction es as [|[n c'] r IH]; simpl; [tauto|]. intros Hnd [H|H].
  - inversion H; subst. rewrite str_eqb_refl. reflexivity.
  - inversion Hnd; subst. destruct (str_eqb nm n) eqn:E.
    + apply str_eqb_eq in E. subst. exfalso. apply H2. apply in_map_iff. exists (n, c). auto.
    + apply IH; auto. Qed.

Lemma lookup_app n p q : lookup n (p ++ q) = match lookup n p with Some m => lookup m q | None => None end.
Proof. revert n; induction p as [|a p IH]; intros n; simpl; [reflexivity|].
  destruct n as [c|es|t]; try reflexivity. destruct (find_entry a es); [apply IH|reflexivity]. Qed.
Lemma lookup_snoc_inv n p x m : lookup n (p ++ [x]) = Some m ->
  exists es, lookup n p = Some (Dir es) /\ find_entry x es = Some m.
Proof. rewrite lookup_app. destruct (lookup n p) as [k|]; [|discriminate]. simpl.
  destruct k as [c|es|t]; try discriminate. destruct (find_entry x es) eqn:E; [|discriminate].
  intros [= ->]. eauto. Qed.

(* ------------------------------------------------------------------ all_dirs / walk_dirs *)
Lemma all_dirs_Dir d es : all_dirs d (Dir es) = (d, es) :: flat_map (fun e : entry => all_dirs (d ++ [fst e]) (snd e)) es.
Proof. cbn [all_dirs]. f_equal. induction es as [|[nm c] r IH]; [reflexivity|]. cbn [flat_map fst snd]. rewrite <- IH. reflexivity. Qed.

Lemma walk_dirs_nondir skip d c : (match c with Dir _ => walk_dirs skip d c | _ => [] end) = walk_dirs skip d c.
Proof. destruct c; reflexivity. Qed.
Lemma insert_by_perm {A} (key:A -> str) x l : Permutation (insert_by key x l) (x :: l).
Proof. induction l as [|y r IH]; cbn [insert_by]; [apply Permutation_refl|]. destruct (str_leb (key x) (key y)); [apply Permutation_refl|].
  eapply Permutation_trans; [apply perm_skip; exact IH|apply perm_swap]. Qed.
Lemma sort_by_perm {A} (key:A -> str) l : Permutation (sort_by key l) l.
Proof. induction l as [|x r IH]; cbn [sort_by fold_right]; [constructor|]. eapply Permutation_trans; [apply insert_by_perm|].
  apply perm_skip. exact IH. Qed.
Lemma sort_by_In {A} (key:A -> str) l x : In x (sort_by key l) <-> In x l.
Proof. split; apply Permutation_in; [|apply Permutation_sym]; apply sort_by_perm. Qed.

Lemma walk_dirs_Dir skip d es x : In x (walk_dirs skip d (Dir es)) <->
  In x ((if skip then [] else [(d, es)]) ++ flat_map (fun e : entry => walk_dirs (ends_pycache (fst e)) (d ++ [fst e]) (snd e)) es).
Proof. cbn [walk_dirs]. rewrite !in_app_iff.
  set (sub := (fix sub (l:list entry) : list (str * list (path * list entry)) :=
               match l with
               | [] => []
               | (nm, c) :: r =>
                   (nm, match c with Dir _ => walk_dirs (ends_pycache nm) (d ++ [nm]) c | _ => [] end) :: sub r
               end)).
  assert (Hsub : forall l, sub l = map (fun e : entry => (fst e, walk_dirs (ends_pycache (fst e)) (d ++ [fst e]) (snd e))) l).
  { induction l as [|[nm c] r IH]; [reflexivity|]. cbn [map fst snd]. rewrite <- IH. cbn. rewrite walk_dirs_nondir. reflexivity. }
  assert (Hin : In x (flat_map snd ((if skip then (fun l => l) else sort_by fst) (sub es))) <-> In x (flat_map snd (sub es))).
  { destruct skip; [tauto|]. rewrite !in_flat_map. split; intros [y [Hy Hx]]; exists y; split; auto; apply (sort_by_In fst); auto. }
  rewrite Hin, Hsub. rewrite !in_flat_map. split.
  - intros [H|[y [Hy Hx]]]; [tauto|]. right. apply in_map_iff in Hy. destruct Hy as [e [<- He]]. eauto.
  - intros [H|[e [He Hx]]]; [tauto|]. right. eexists. split; [apply in_map_iff; exists e; split; [reflexivity|exact He]|exact Hx]. Qed.

Lemma all_dirs_complete n : forall d0 q es, lookup n q = Some (Dir es) -> In (d0 ++ q, es) (all_dirs d0 n).
Proof. induction n as [c|t|es0 IH] using node_ind'; intros d0 q es Hl.
  - destruct q; simpl in Hl; discriminate.
  - destruct q; simpl in Hl; discriminate.
  - rewrite all_dirs_Dir. destruct q as [|nm q].
    + simpl in Hl. inversion Hl; subst. rewrite app_nil_r. left; reflexivity.
    + right. simpl in Hl. destruct (find_entry nm es0) as [c|] eqn:E; [|discriminate].
      apply find_entry_In in E. apply in_flat_map. exists (nm, c). split; auto.
      rewrite Forall_forall in IH. specialize (IH _ E (d0 ++ [nm]) q es Hl). simpl in *.
      rewrite <- app_assoc in IH. exact IH. Qed.

Lemma all_dirs_sound n : good_names n -> forall d0 d es, In (d, es) (all_dirs d0 n) ->
  exists q, d = d0 ++ q /\ lookup n q = Some (Dir es).
Proof. induction n as [c|t|es0 IH] using node_ind'; intros Hg d0 d es Hin; try (simpl in Hin; tauto).
  rewrite all_dirs_Dir in Hin. apply good_names_Dir in Hg. destruct Hg as (Hnd & _ & Hall). destruct Hin as [Hin|Hin].
  - inversion Hin; subst. exists []. rewrite app_nil_r. auto.
  - apply in_flat_map in Hin. destruct Hin as [[nm c] [He Hin]]. rewrite Forall_forall in IH, Hall.
    destruct (IH _ He (Hall _ He) _ _ _ Hin) as [q [-> Hq]]. exists (nm :: q). simpl. rewrite <- app_assoc. split; auto.
    rewrite (In_find_entry _ _ _ Hnd He). exact Hq. Qed.

Definition skipped (skip:bool) (q:path) : bool := match q with [] => skip | _ => ends_pycache (last q []) end.

Lemma walk_dirs_complete n : forall skip d0 q es, lookup n q = Some (Dir es) -> skipped skip q = false ->
  In (d0 ++ q, es) (walk_dirs skip d0 n).
Proof. induction n as [c|t|es0 IH] using node_ind'; intros skip d0 q es Hl Hs.
  - destruct q; simpl in Hl; discriminate.
  - destruct q; simpl in Hl; discriminate.
  - apply walk_dirs_Dir. apply in_or_app. destruct q as [|nm q].
    + simpl in Hl, Hs. inversion Hl; subst. rewrite app_nil_r. left. left. reflexivity.
    + right. simpl in Hl. destruct (find_entry nm es0) as [c|] eqn:E; [|discriminate].
      apply find_entry_In in E. apply in_flat_map. exists (nm, c). split; auto.
      rewrite Forall_forall in IH. cbn [fst snd].
      assert (Hs' : skipped (ends_pycache nm) q = false).
      { destruct q as [|b q]; [exact Hs|]. exact Hs. }
      specialize (IH _ E (ends_pycache nm) (d0 ++ [nm]) q es Hl Hs'). rewrite <- app_assoc in IH. exact IH. Qed.

Lemma walk_dirs_sound n : good_names n -> forall skip d0 d es, In (d, es) (walk_dirs skip d0 n) ->
  exists q, d = d0 ++ q /\ lookup n q = Some (Dir es) /\ skipped skip q = false.
Proof. induction n as [c|t|es0 IH] using node_ind'; intros Hg skip d0 d es Hin; try (simpl in Hin; tauto).
  apply walk_dirs_Dir in Hin. apply good_names_Dir in Hg. destruct Hg as (Hnd & _ & Hall).
  apply in_app_or in Hin. destruct Hin as [Hin|Hin].
  - destruct skip; [simpl in Hin; tauto|]. destruct Hin as [Hin|[]]. inversion Hin; subst. exists []. rewrite app_nil_r. auto.
  - apply in_flat_map in Hin. destruct Hin as [[nm c] [He Hin]]. rewrite Forall_forall in IH, Hall. cbn [fst snd] in Hin.
    destruct (IH _ He (Hall _ He) _ _ _ _ Hin) as [q (-> & Hq & Hs)]. exists (nm :: q). simpl lookup. rewrite <- app_assoc.
    split; auto. rewrite (In_find_entry _ _ _ Hnd He). split; [exact Hq|].
    destruct q as [|b q]; exact Hs. Qed.

(* ------------------------------------------------------------------ all_entries *)
Lemma all_entries_In T d nm c : In (d, nm, c) (all_entries T) <->
  exists es, In (d, es) (all_dirs [] T) /\ In (nm, c) es.
Proof. unfold all_entries. rewrite in_flat_map. split.
  - intros [[d' es] [Hd Hin]]. cbn [fst snd] in Hin. apply in_map_iff in Hin. destruct Hin as [[nm' c'] [Heq He]].
    inversion Heq; subst. eauto.
  - intros [es [Hd He]]. exists (d, es). split; auto. cbn [fst snd]. apply in_map_iff. exists (nm, c). auto. Qed.
Lemma all_entries_complete T d nm c es : lookup T d = Some (Dir es) -> In (nm, c) es -> In (d, nm, c) (all_entries T).
Proof. intros Hl He. apply all_entries_In. exists es. split; auto. apply (all_dirs_complete T [] d es Hl). Qed.
Lemma all_entries_sound T d nm c : good_names T -> In (d, nm, c) (all_entries T) ->
  exists es, lookup T d = Some (Dir es) /\ In (nm, c) es /\ find_entry nm es = Some c.
Proof. intros Hg Hin. apply all_entries_In in Hin. destruct Hin as [es [Hd He]].
  destruct (all_dirs_sound T Hg [] d es Hd) as [q [-> Hq]]. simpl. exists es. repeat split; auto.
  assert (Hg' : good_names (Dir es)).
  { clear He Hd. revert T Hg es Hq. induction q as [|a q IH]; intros T Hg es Hq; simpl in Hq.
    - inversion Hq; subst; auto.
    - destruct T as [c0|es0|t0]; try discriminate. destruct (find_entry a es0) eqn:E; [|discriminate].
      apply find_entry_In in E. apply good_names_Dir in Hg. destruct Hg as (_ & _ & Hall). rewrite Forall_forall in Hall.
      apply (IH n (Hall _ E) es Hq). }
  apply good_names_Dir in Hg'. destruct Hg' as (Hnd & _). apply In_find_entry; auto. Qed.
Lemma all_entries_lookup T d nm c : good_names T -> In (d, nm, c) (all_entries T) -> lookup T (d ++ [nm]) = Some c.
Proof. intros Hg Hin. destruct (all_entries_sound T d nm c Hg Hin) as [es (Hl & _ & Hf)].
  rewrite lookup_app, Hl. simpl. rewrite Hf. reflexivity. Qed.
Lemma all_entries_name_nonempty T d nm c : good_names T -> In (d, nm, c) (all_entries T) -> nm <> [].
Proof. intros Hg Hin. apply all_entries_In in Hin. destruct Hin as [es [Hd He]].
  destruct (all_dirs_sound T Hg [] d es Hd) as [q [-> Hq]].
  assert (Hg' : good_names (Dir es)).
  { clear He Hd. revert T Hg es Hq. induction q as [|a q IH]; intros T Hg es Hq; simpl in Hq.
    - inversion Hq; subst; auto.
    - destruct T as [c0|es0|t0]; try discriminate. destruct (find_entry a es0) eqn:E; [|discriminate].
      apply find_entry_In in E. apply good_names_Dir in Hg. destruct Hg as (_ & _ & Hall). rewrite Forall_forall in Hall.
      apply (IH n (Hall _ E) es Hq). }
  apply good_names_Dir in Hg'. destruct Hg' as (_ & Hne & _). intros ->. apply Hne. apply in_map_iff. exists ([], c). auto. Qed.

(* ------------------------------------------------------------------ every real entry is enumerated once *)
Lemma NoDup_app' {A} (l1 l2 : list A) : NoDup l1 -> NoDup l2 -> (forall x, In x l1 -> ~ In x l2) -> NoDup (l1 ++ l2).
Proof. induction l1 as [|a l1 IH]; simpl; intros H1 H2 Hd; [exact H2|]. inversion H1; subst. constructor.
  - intro Hin. apply in_app_or in Hin. destruct Hin as [Hin|Hin]; [tauto|]. apply (Hd a); auto.
  - apply IH; auto. Qed.
Lemma NoDup_flat_map {A B} (f : A -> list B) l : NoDup l -> (forall x, In x l -> NoDup (f x)) ->
  (forall x y b, In x l -> In y l -> In b (f x) -> In b (f y) -> x = y) -> NoDup (flat_map f l).
Proof. induction l as [|a l IH]; simpl; intros Hl Hf Hd; [constructor|]. inversion Hl; subst. apply NoDup_app'.
  - apply Hf; auto.
  - apply IH; auto. intros x y b Hx Hy. apply Hd; auto.
  - intros b Hb Hin. apply in_flat_map in Hin. destruct Hin as [y [Hy Hby]].
    assert (a = y) by (apply (Hd a y b); auto). subst. tauto. Qed.

Lemma good_names_lookup T : good_names T -> forall q n, lookup T q = Some n -> good_names n.
Proof. intros Hg q. revert T Hg. induction q as [|a q IH]; intros T Hg n Hq; simpl in Hq.
  - inversion Hq; subst; auto.
  - destruct T as [c0|es0|t0]; try discriminate. destruct (find_entry a es0) eqn:E; [|discriminate].
    apply find_entry_In in E. apply good_names_Dir in Hg. destruct Hg as (_ & _ & Hall). rewrite Forall_forall in Hall.
    apply (IH n0 (Hall _ E) n Hq). Qed.

Lemma NoDup_entries es : NoDup (map fst es) -> NoDup (A:=entry) es.
Proof. apply NoDup_map_inv. Qed.

Lemma all_dirs_NoDup n : good_names n -> forall d0, NoDup (all_dirs d0 n).
Proof. induction n as [c|t|es0 IH] using node_ind'; intros Hg d0; [simpl; constructor|simpl; constructor|].
  rewrite all_dirs_Dir. pose proof Hg as Hg0. apply good_names_Dir in Hg. destruct Hg as (Hnd & _ & Hall).
  rewrite Forall_forall in IH, Hall. constructor.
  - intro Hin. apply in_flat_map in Hin. destruct Hin as [[nm c] [He Hin]]. cbn [fst snd] in Hin.
    destruct (all_dirs_sound c (Hall _ He) _ _ _ Hin) as [q [Hq _]]. rewrite <- app_assoc in Hq.
    rewrite <- (app_nil_r d0) in Hq at 1. apply app_inv_head in Hq. discriminate.
  - apply NoDup_flat_map.
    + apply NoDup_entries; auto.
    + intros [nm c] He. apply (IH _ He (Hall _ He)).
    + intros [nm c] [nm' c'] [d es] He He' Hb Hb'. cbn [fst snd] in *.
      destruct (all_dirs_sound c (Hall _ He) _ _ _ Hb) as [q [Hq _]].
      destruct (all_dirs_sound c' (Hall _ He') _ _ _ Hb') as [q' [Hq' _]]. rewrite Hq in Hq'.
      rewrite <- !app_assoc in Hq'. apply app_inv_head in Hq'. simpl in Hq'. inversion Hq'; subst.
      pose proof (In_find_entry _ _ _ Hnd He) as F1. pose proof (In_find_entry _ _ _ Hnd He') as F2. congruence. Qed.

Lemma all_entries_NoDup T : good_names T -> NoDup (all_entries T).
Proof. intros Hg. unfold all_entries. apply NoDup_flat_map.
  - apply all_dirs_NoDup; auto.
  - intros [d es] Hd. cbn [fst snd]. destruct (all_dirs_sound T Hg _ _ _ Hd) as [q [-> Hq]].
    pose proof (good_names_lookup T Hg q _ Hq) as Hg'. apply good_names_Dir in Hg'. destruct Hg' as (Hnd & _).
    apply NoDup_entries in Hnd. clear - Hnd. induction es as [|e r IH]; simpl; [constructor|]. inversion Hnd; subst.
    constructor; auto. intro Hin. apply in_map_iff in Hin. destruct Hin as [e' [Heq He']].
    destruct e as [a b], e' as [a' b']. simpl in Heq. inversion Heq; subst. tauto.
  - intros [d es] [d' es'] b Hd Hd' Hb Hb'. cbn [fst snd] in *. apply in_map_iff in Hb, Hb'.
    destruct Hb as [e [<- He]]. destruct Hb' as [e' [Heq He']]. inversion Heq; subst.
    destruct (all_dirs_sound T Hg _ _ _ Hd) as [q [-> Hq]]. destruct (all_dirs_sound T Hg _ _ _ Hd') as [q' [E Hq']].
    simpl in E. subst. congruence. Qed.

(* two enumerated entries with the same path are the same entry *)
Lemma all_entries_path_inj T f g : good_names T -> In f (all_entries T) -> In g (all_entries T) ->
  le_path f = le_path g -> f = g.
Proof. intros Hg Hf Hgg Hp. destruct f as [[d nm] c], g as [[d' nm'] c']. unfold le_path in Hp. cbn [fst snd] in Hp.
  apply app_inj_tail in Hp. destruct Hp as [-> ->].
  pose proof (all_entries_lookup T _ _ _ Hg Hf) as L1. pose proof (all_entries_lookup T _ _ _ Hg Hgg) as L2. congruence. Qed.

(* ------------------------------------------------------------------ what one location lists *)
Definition good_loc (T:node) (l:rloc) : Prop := lookup T (fst (fst l)) = Some (snd (fst l)).

Lemma last_app_ne {A} (p q : list A) d : q <> [] -> last (p ++ q) d = last q d.
Proof. intros Hq. induction p as [|a p IH]; [reflexivity|]. simpl. destruct (p ++ q) eqn:E.
  - apply app_eq_nil in E. tauto.
  - exact IH. Qed.

Lemma listed_dirs_spec T rec (l:rloc) d es : good_names T -> good_loc T l ->
  (In (d, es) (listed_dirs rec (snd l) (fst (fst l)) (snd (fst l))) <->
   lookup T d = Some (Dir es) /\ loc_covers rec l d = true).
Proof. destruct l as [[R n] ts]. unfold good_loc, loc_covers. cbn [fst snd]. intros Hg Hl.
  pose proof (good_names_lookup T Hg R n Hl) as Hgn. split.
  - intros Hin. unfold listed_dirs in Hin. destruct rec.
    + destruct (walk_dirs_sound n Hgn _ _ _ _ Hin) as [q (-> & Hq & Hs)]. split.
      * rewrite lookup_app, Hl. exact Hq.
      * destruct (path_eqb (R ++ q) R) eqn:E.
        { apply path_eqb_eq in E. rewrite <- (app_nil_r R) in E at 2. apply app_inv_head in E. subst. simpl in Hs. rewrite Hs. reflexivity. }
        { destruct q as [|b q]; [rewrite app_nil_r, path_eqb_refl in E; discriminate|].
          simpl andb. rewrite last_app_ne by discriminate. cbn [skipped] in Hs. rewrite Hs.
          assert (is_prefix R (R ++ b :: q) = true) by (apply is_prefix_app; eauto). rewrite H. reflexivity. }
    + destruct n as [c|es0|t]; try (simpl in Hin; tauto). destruct ts; [simpl in Hin; tauto|].
      destruct Hin as [Hin|[]]. inversion Hin; subst. rewrite path_eqb_refl. auto.
  - intros [Hd Hc]. unfold listed_dirs. destruct (path_eqb d R) eqn:E.
    + apply path_eqb_eq in E. subst. rewrite Hl in Hd. inversion Hd; subst. apply negb_true_iff in Hc. subst. destruct rec.
      * rewrite <- (app_nil_r R) at 1. apply walk_dirs_complete; auto.
      * left; reflexivity.
    + apply andb_true_iff in Hc. destruct Hc as [Hc Hp]. apply andb_true_iff in Hc. destruct Hc as [-> Hpre].
      apply is_prefix_app in Hpre. destruct Hpre as [r ->]. destruct r as [|b r]; [rewrite app_nil_r, path_eqb_refl in E; discriminate|].
      rewrite lookup_app, Hl in Hd. apply walk_dirs_complete; auto. cbn [skipped].
      rewrite last_app_ne in Hp by discriminate. apply negb_true_iff in Hp. exact Hp. Qed.

Definition all_stems (T:node) (es:list entry) : list str :=
  map (fun e : entry => stem (fst e)) (filter (fun e : entry => py_suffixed (fst e)) (file_entries T es)).

Lemma here_In T sl d es le : In le (here T sl (d, es)) <->
  (exists nm c, le = (d, nm, c) /\ In (nm, c) es /\ is_dirlike T c = false)
  \/ (sl = true /\ exists ces nm c, find_entry s_pycache es = Some (Dir ces) /\ le = (d ++ [s_pycache], nm, c)
                                    /\ In (nm, c) ces /\ mem_str (stem nm) (all_stems T es) = false).
Proof. unfold here, files_here, pycache_here, all_stems. cbn [fst snd]. rewrite in_app_iff. split.
  - intros [H|H].
    + left. apply in_map_iff in H. destruct H as [[nm c] [<- H]]. apply -> (sort_by_In (A:=entry) fst) in H. unfold file_entries in H. apply filter_In in H.
      destruct H as [H1 H2]. apply negb_true_iff in H2. exists nm, c. auto.
    + right. destruct sl; [|simpl in H; tauto]. split; auto. destruct (find_entry s_pycache es) as [[c0|ces|t0]|]; try (simpl in H; tauto).
      apply in_map_iff in H. destruct H as [[nm c] [<- H]]. apply filter_In in H. destruct H as [H1 H2].
      apply negb_true_iff in H2. exists ces, nm, c. auto.
  - intros [(nm & c & -> & H1 & H2)|(-> & ces & nm & c & Hf & -> & H1 & H2)].
    + left. apply in_map_iff. exists (nm, c). split; auto. apply <- (sort_by_In (A:=entry) fst). unfold file_entries. apply filter_In. split; auto.
      cbn [snd]. rewrite H2. reflexivity.
    + right. rewrite Hf. cbv zeta. apply in_map_iff. exists (nm, c). split; auto. apply filter_In. split; auto.
      cbv beta. cbn [fst]. apply negb_true_iff. exact H2. Qed.

Lemma version_stems_sub T D es s : lookup T D = Some (Dir es) ->
  mem_str s (version_file_stems T D) = true -> mem_str s (all_stems T es) = true.
Proof. intros Hl. unfold version_file_stems, all_stems, file_entries. rewrite Hl. rewrite !mem_str_In, !in_map_iff.
  intros [e [He Hin]]. exists e. split; auto. apply filter_In in Hin. destruct Hin as [H1 H2].
  rewrite !andb_true_iff in H2. destruct H2 as [[H2 H3] _]. apply filter_In. split; auto. apply filter_In. auto. Qed.

Lemma removelast_snoc {A} (l:list A) x : removelast (l ++ [x]) = l.
Proof. rewrite removelast_app by discriminate. simpl. apply app_nil_r. Qed.

Lemma list_sound T sl rec (l:rloc) le : good_names T -> good_loc T l ->
  In le (list_py_dir T sl rec (snd l) (fst (fst l)) (snd (fst l))) ->
  In le (all_entries T) /\ listed_by T sl rec le l = true.
Proof. intros Hg Hl Hin. unfold list_py_dir in Hin. apply in_flat_map in Hin. destruct Hin as [[d es] [Hd Hh]].
  apply (listed_dirs_spec T rec l d es Hg Hl) in Hd. destruct Hd as [Hd Hc]. apply here_In in Hh.
  destruct Hh as [(nm & c & -> & H1 & H2)|(-> & ces & nm & c & Hf & -> & H1 & H2)].
  - split; [eapply all_entries_complete; eauto|]. unfold listed_by. rewrite H2, Hc. reflexivity.
  - assert (Hl2 : lookup T (d ++ [s_pycache]) = Some (Dir ces)) by (rewrite lookup_app, Hd; simpl; rewrite Hf; reflexivity).
    split; [eapply all_entries_complete; eauto|]. unfold listed_by. apply orb_true_iff. right. simpl andb.
    destruct (d ++ [s_pycache]) eqn:E; [destruct d; discriminate|]. rewrite <- E. rewrite last_last, removelast_snoc, str_eqb_refl, Hc.
    simpl. apply negb_true_iff. destruct (mem_str (stem nm) (version_file_stems T d)) eqn:M; auto.
    rewrite (version_stems_sub T d es _ Hd M) in H2. discriminate. Qed.

(* names inside __pycache__ are not hidden, so their first dot-component is not empty *)
Definition pyc_names_ok (T:node) : Prop := forall D es ces nm c, lookup T D = Some (Dir es) ->
  find_entry s_pycache es = Some (Dir ces) -> In (nm, c) ces -> stem nm <> [].
Lemma lock_stem nm : prefixb s_lock nm = true -> stem nm = [].
Proof. destruct nm as [|a r]; [reflexivity|]. unfold s_lock. cbn [prefixb stem]. destruct (N.eqb_spec 46 a) as [<-|]; [reflexivity|discriminate]. Qed.
Lemma pyc_stems_agree T D es ces nm c : pyc_names_ok T -> lookup T D = Some (Dir es) ->
  find_entry s_pycache es = Some (Dir ces) -> In (nm, c) ces ->
  mem_str (stem nm) (version_file_stems T D) = false -> mem_str (stem nm) (all_stems T es) = false.
Proof. intros Hp Hl Hf Hin Hv. destruct (mem_str (stem nm) (all_stems T es)) eqn:M; [|reflexivity]. exfalso.
  unfold all_stems, file_entries in M. apply mem_str_In in M. apply in_map_iff in M. destruct M as [e [He M]].
  apply filter_In in M. destruct M as [M H2]. apply filter_In in M. destruct M as [M H1].
  assert (Hv' : mem_str (stem nm) (version_file_stems T D) = true); [|congruence].
  unfold version_file_stems. rewrite Hl. apply mem_str_In. apply in_map_iff. exists e. split; auto. apply filter_In. split; auto.
  rewrite H1, H2. cbn [andb]. destruct (prefixb s_lock (fst e)) eqn:L; [|reflexivity]. exfalso.
  apply lock_stem in L. rewrite L in He. apply (Hp D es ces nm c Hl Hf Hin). auto. Qed.

Lemma list_complete T sl rec (l:rloc) le : good_names T -> good_loc T l -> pyc_names_ok T ->
  In le (all_entries T) -> listed_by T sl rec le l = true ->
  In le (list_py_dir T sl rec (snd l) (fst (fst l)) (snd (fst l))).
Proof. intros Hg Hl Hns Hin Hlb. destruct le as [[d nm] c]. destruct (all_entries_sound T d nm c Hg Hin) as [es (Hd & He & _)].
  unfold list_py_dir. apply in_flat_map. unfold listed_by in Hlb. apply orb_true_iff in Hlb. destruct Hlb as [Hlb|Hlb].
  - apply andb_true_iff in Hlb. destruct Hlb as [H1 H2]. apply negb_true_iff in H1. exists (d, es). split.
    + apply (listed_dirs_spec T rec l d es Hg Hl). auto.
    + apply here_In. left. exists nm, c. auto.
  - apply andb_true_iff in Hlb. destruct Hlb as [-> Hlb]. destruct d as [|a d0]; [discriminate|]. cbv beta iota in Hlb.
    remember (a :: d0) as d eqn:Ed. assert (Hne : d <> []) by (subst; discriminate). clear Ed a d0.
    apply andb_true_iff in Hlb. destruct Hlb as [Hlb H3]. apply andb_true_iff in Hlb. destruct Hlb as [H1 H2].
    apply str_eqb_eq in H1. apply negb_true_iff in H3.
    assert (Ed : d = removelast d ++ [s_pycache]). { rewrite <- H1. apply app_removelast_last; auto. }
    rewrite Ed in Hd. apply lookup_snoc_inv in Hd. destruct Hd as [es0 [Hd0 Hf]].
    exists (removelast d, es0). split.
    + apply (listed_dirs_spec T rec l _ es0 Hg Hl). auto.
    + apply here_In. right. split; auto. exists es, nm, c. repeat split; auto.
      * rewrite Ed at 1. reflexivity.
      * eapply pyc_stems_agree; eauto. Qed.

(* ------------------------------------------------------------------ configured locations resolve to real directories *)
Lemma resolve_from_good T : forall p cur n R m, lookup T cur = Some n -> resolve_from T cur n p = Some (R, m) -> lookup T R = Some m.
Proof. induction p as [|a p IH]; intros cur n R m Hc Hr; simpl in Hr.
  - inversion Hr; subst; auto.
  - destruct n as [c|es|t]; try discriminate. destruct (find_entry a es) as [k|] eqn:E; [|discriminate].
    assert (Hk : lookup T (cur ++ [a]) = Some k) by (rewrite lookup_app, Hc; simpl; rewrite E; reflexivity).
    destruct k as [c|es'|t].
    + apply (IH _ _ _ _ Hk Hr).
    + apply (IH _ _ _ _ Hk Hr).
    + destruct (lookup T t) as [k'|] eqn:Et; [|discriminate]. destruct k' as [c|es'|t']; try discriminate.
      * apply (IH _ _ _ _ Et Hr).
      * apply (IH _ _ _ _ Et Hr). Qed.
Lemma resolve_loc_good T p l : In l (resolve_loc T p) -> good_loc T l.
Proof. unfold resolve_loc. destruct p as [p|]; [|simpl; tauto]. destruct (resolve T p) as [[R n]|] eqn:E; [|simpl; tauto].
  intros [<-|[]]. unfold good_loc. cbn [fst snd]. unfold resolve in E. apply (resolve_from_good T p [] T R n); auto. Qed.
Lemma resolve_locs_good T ps l : In l (flat_map (resolve_loc T) ps) -> good_loc T l.
Proof. intros H. apply in_flat_map in H. destruct H as [p [_ H]]. eapply resolve_loc_good; eauto. Qed.

(* ------------------------------------------------------------------ the whole listing *)
Lemma listing_sound T sl rec locs le : good_names T -> (forall l, In l locs -> good_loc T l) ->
  In le (listing T sl rec locs) -> In le (all_entries T) /\ entry_listed T sl rec locs le = true.
Proof. intros Hg Hl Hin. unfold listing in Hin. apply in_flat_map in Hin. destruct Hin as [l [Hlin Hin]].
  destruct (list_sound T sl rec l le Hg (Hl _ Hlin) Hin) as [H1 H2]. split; auto.
  unfold entry_listed. apply existsb_exists. eauto. Qed.
Lemma listing_complete T sl rec locs le : good_names T -> (forall l, In l locs -> good_loc T l) ->
  pyc_names_ok T ->
  In le (all_entries T) -> entry_listed T sl rec locs le = true -> In le (listing T sl rec locs).
Proof. intros Hg Hl Hns Hin He. unfold entry_listed in He. apply existsb_exists in He. destruct He as [l [Hlin He]].
  unfold listing. apply in_flat_map. exists l. split; auto. apply list_complete; auto. Qed.

(* ------------------------------------------------------------------ realpath *)
Lemma real_of_file T le f : good_names T -> In le (all_entries T) -> real_of T le = f -> is_file f = true ->
  In f (all_entries T) /\ (f = le \/ exists t, snd le = Link t /\ t = le_path f).
Proof. intros Hg Hin Hr Hf. destruct le as [[d nm] c]. unfold real_of in Hr. cbn [snd] in Hr. destruct c as [c0|es|t].
  - subst. auto.
  - subst. discriminate.
  - destruct (lookup T t) as [c'|] eqn:Et; [|subst; discriminate]. subst f. unfold is_file in Hf. cbn [snd] in Hf.
    destruct c' as [c0|es|t']; try discriminate.
    destruct t as [|a t0].
    { simpl in Et. inversion Et; subst. apply all_entries_In in Hin. destruct Hin as [es [Hin _]]. simpl in Hin. tauto. }
    assert (Hne : a :: t0 <> []) by discriminate. remember (a :: t0) as t. clear Heqt a t0.
    pose proof (app_removelast_last [] Hne) as Et2. rewrite Et2 in Et. apply lookup_snoc_inv in Et. destruct Et as [es [E1 E2]].
    split.
    + eapply all_entries_complete; eauto. apply find_entry_In; auto.
    + right. exists t. split; auto. Qed.

Lemma real_of_link T le t f : good_names T -> snd le = Link t -> In f (all_entries T) -> t = le_path f -> real_of T le = f.
Proof. intros Hg Hs Hf Ht. destruct f as [[d nm] c]. unfold real_of. rewrite Hs. subst t. unfold le_path. cbn [fst snd].
  rewrite (all_entries_lookup T d nm c Hg Hf). rewrite removelast_snoc, last_last. reflexivity. Qed.

Lemma reals_file_iff T sl rec locs f : good_names T -> (forall l, In l locs -> good_loc T l) ->
  pyc_names_ok T -> is_file f = true ->
  (In f (map (real_of T) (listing T sl rec locs)) <-> In f (all_entries T) /\ reached T sl rec locs f = true).
Proof. intros Hg Hl Hns Hf. split.
  - intros Hin. apply in_map_iff in Hin. destruct Hin as [le [Hr Hin]].
    destruct (listing_sound T sl rec locs le Hg Hl Hin) as [Ha He].
    destruct (real_of_file T le f Hg Ha Hr Hf) as [Hfa [->|[t [Hs Ht]]]].
    + split; auto. unfold reached. rewrite He. reflexivity.
    + split; auto. unfold reached. apply orb_true_iff. right. apply existsb_exists. exists le. split; auto.
      rewrite Hs. subst t. rewrite path_eqb_refl, He. reflexivity.
  - intros [Ha Hr]. unfold reached in Hr. apply orb_true_iff in Hr. destruct Hr as [Hr|Hr].
    + apply in_map_iff. exists f. split; [|apply listing_complete; auto]. unfold real_of. destruct f as [[d nm] c].
      unfold is_file in Hf. cbn [snd] in *. destruct c; try discriminate. reflexivity.
    + apply existsb_exists in Hr. destruct Hr as [le [Hla Hr]]. destruct (snd le) as [c0|es|t] eqn:Hs; try discriminate.
      apply andb_true_iff in Hr. destruct Hr as [Hp He]. apply path_eqb_eq in Hp.
      apply in_map_iff. exists le. split; [|apply listing_complete; auto]. eapply real_of_link; eauto. Qed.

(* the soundness half needs no hypothesis about __pycache__ shadowing *)
Lemma reals_file_sound T sl rec locs f : good_names T -> (forall l, In l locs -> good_loc T l) -> is_file f = true ->
  In f (map (real_of T) (listing T sl rec locs)) -> In f (all_entries T) /\ reached T sl rec locs f = true.
Proof. intros Hg Hl Hf Hin. apply in_map_iff in Hin. destruct Hin as [le [Hr Hin]].
  destruct (listing_sound T sl rec locs le Hg Hl Hin) as [Ha He].
  destruct (real_of_file T le f Hg Ha Hr Hf) as [Hfa [->|[t [Hs Ht]]]].
  - split; auto. unfold reached. rewrite He. reflexivity.
  - split; auto. unfold reached. apply orb_true_iff. right. apply existsb_exists. exists le. split; auto.
    rewrite Hs. subst t. rewrite path_eqb_refl, He. reflexivity. Qed.

(* ------------------------------------------------------------------ dupes *)
Lemma dedupe_paths_In seen l x : In x (dedupe_paths seen l) -> In x l /\ ~ In (le_path x) seen.
Proof. revert seen; induction l as [|a r IH]; intros seen; cbn [dedupe_paths]; [simpl; tauto|].
  destruct (mem_path (le_path a) seen) eqn:E.
  - intros H. apply IH in H. simpl. tauto.
  - intros [->|H].
    + split; [left; auto|]. intro Hin. apply mem_path_In in Hin. congruence.
    + apply IH in H. simpl in *. tauto. Qed.
Lemma dedupe_paths_NoDup seen l : NoDup (map le_path (dedupe_paths seen l)).
Proof. revert seen; induction l as [|a r IH]; intros seen; cbn [dedupe_paths]; [constructor|].
  destruct (mem_path (le_path a) seen) eqn:E; [apply IH|]. simpl. constructor; [|apply IH].
  intro Hin. apply in_map_iff in Hin. destruct Hin as [y [Hy Hin]]. apply dedupe_paths_In in Hin. destruct Hin as [_ Hn].
  apply Hn. rewrite Hy. left; reflexivity. Qed.
(* an element whose path identifies it among the elements of l survives *)
Lemma dedupe_paths_keep seen l x : In x l -> ~ In (le_path x) seen -> (forall y, In y l -> le_path y = le_path x -> y = x) ->
  In x (dedupe_paths seen l).
Proof. revert seen; induction l as [|a r IH]; intros seen Hin Hs Hu; [simpl in Hin; tauto|]. cbn [dedupe_paths].
  destruct (mem_path (le_path a) seen) eqn:E.
  - destruct Hin as [->|Hin]; [apply mem_path_In in E; tauto|]. apply IH; auto. intros y Hy. apply Hu. right; auto.
  - destruct Hin as [->|Hin]; [left; auto|]. destruct (path_eqb (le_path a) (le_path x)) eqn:Ep.
    + apply path_eqb_eq in Ep. left. apply Hu; auto. left; auto.
    + right. apply IH; auto.
      * intros [H|H]; [rewrite H, path_eqb_refl in Ep; discriminate|tauto].
      * intros y Hy. apply Hu. right; auto. Qed.

(* ------------------------------------------------------------------ the two file-name patterns *)
Lemma pyc_not_pyo nm : suffixb s_pyc nm = true -> suffixb s_pyo nm = false.
Proof. unfold suffixb, s_pyc, s_pyo. cbn [rev app]. destruct (rev nm) as [|a r]; cbn [prefixb]; [discriminate|].
  destruct (N.eqb_spec 99 a) as [<-|Hne]; [reflexivity|]. simpl. discriminate. Qed.
Lemma py_not_pyc nm : suffixb s_py nm = true -> suffixb s_pyc nm = false.
Proof. unfold suffixb, s_py, s_pyc. cbn [rev app]. destruct (rev nm) as [|a r]; cbn [prefixb]; [discriminate|].
  destruct (N.eqb_spec 121 a) as [<-|Hne]; [reflexivity|]. simpl. discriminate. Qed.
Lemma py_not_pyo nm : suffixb s_py nm = true -> suffixb s_pyo nm = false.
Proof. unfold suffixb, s_py, s_pyo. cbn [rev app]. destruct (rev nm) as [|a r]; cbn [prefixb]; [discriminate|].
  destruct (N.eqb_spec 121 a) as [<-|Hne]; [reflexivity|]. simpl. discriminate. Qed.

Definition kind_of (nm:str) : fkind := if suffixb s_py nm then KSrc else if suffixb s_pyc nm then KC else KO.

(* characterisation of _only_source_rev_file / _sourceless_rev_file as modelled *)
Lemma match_rev_file_spec sl nm :
  match_rev_file sl nm = if is_rev_name sl nm then Some (match kind_of nm with KSrc => nm | _ => removelast nm end, kind_of nm) else None.
Proof. unfold match_rev_file, is_rev_name, rev_prefix_ok, kind_of.
  destruct (prefixb s_lock nm), (prefixb s_init nm); simpl; try reflexivity.
  destruct (suffixb s_py nm) eqn:Hp; simpl; [reflexivity|]. destruct sl; simpl; [|reflexivity].
  destruct (suffixb s_pyc nm) eqn:Hc; simpl; [reflexivity|]. destruct (suffixb s_pyo nm); reflexivity. Qed.

Lemma from_filename_spec T sl d nm c :
  from_filename T sl (d, nm, c) =
  if is_rev_name sl nm && negb (superseded T d nm) then load_python_file nm (kind_of nm) c else Skip.
Proof. unfold from_filename. rewrite match_rev_file_spec. destruct (is_rev_name sl nm) eqn:Hr; simpl; [|reflexivity].
  unfold superseded, kind_of. destruct (suffixb s_py nm) eqn:Hp; simpl; [reflexivity|].
  destruct (suffixb s_pyc nm) eqn:Hc.
  - rewrite (pyc_not_pyo _ Hc). simpl. rewrite orb_false_r. destruct (exists_in T d (removelast nm)); reflexivity.
  - unfold is_rev_name in Hr. rewrite Hp, Hc in Hr. simpl in Hr. destruct (suffixb s_pyo nm) eqn:Ho.
    + simpl. destruct (exists_in T d (removelast nm) || exists_in T d (removelast nm ++ [99])); reflexivity.
    + rewrite !andb_false_r in Hr. discriminate. Qed.

Lemma load_python_file_not_skip nm k c : load_python_file nm k c <> Skip.
Proof. unfold load_python_file. destruct (ext_lost nm k); [discriminate|]. destruct c as [[i|]|es|t]; try discriminate.
  destruct (module_revision nm i); discriminate. Qed.
Lemma load_python_file_loaded nm k c id : load_python_file nm k c = Loaded id ->
  exists code, c = File (Some code) /\ module_revision nm code = Some id.
Proof. unfold load_python_file. destruct (ext_lost nm k); [discriminate|]. destruct c as [[i|]|es|t]; try discriminate.
  destruct (module_revision nm i) eqn:E; [|discriminate]. intros [= ->]. eauto. Qed.

Definition is_loaded (r:fres) : bool := match r with Loaded _ => true | _ => false end.
Definition idN (f:lentry) : N := match file_id f with Some i => i | None => 0 end.
Definition loaded_files (T:node) (sl:bool) (uniq:list lentry) : list lentry :=
  filter (fun f => is_loaded (from_filename T sl f)) uniq.

Lemma from_filename_loaded T sl f id : from_filename T sl f = Loaded id ->
  (is_file f = true /\ file_id f = Some id) /\ is_rev_name sl (snd (fst f)) = true /\ superseded T (fst (fst f)) (snd (fst f)) = false.
Proof. destruct f as [[d nm] c]. rewrite from_filename_spec. cbn [fst snd].
  destruct (is_rev_name sl nm); simpl; [|discriminate]. destruct (superseded T d nm); simpl; [discriminate|].
  intros H. apply load_python_file_loaded in H. destruct H as [code [-> H]]. unfold is_file, file_id. cbn [fst snd]. auto. Qed.

Lemma loaded_files_cons T sl a r : loaded_files T sl (a :: r) =
  if is_loaded (from_filename T sl a) then a :: loaded_files T sl r else loaded_files T sl r.
Proof. reflexivity. Qed.
Lemma collect_ok T sl l ids : collect (map (from_filename T sl) l) = Some ids ->
  ids = map idN (loaded_files T sl l) /\ forall f, In f l -> from_filename T sl f <> Fail.
Proof. revert ids; induction l as [|a r IH]; intros ids; cbn [map collect].
  - intros [= <-]. split; [reflexivity|intros f []].
  - rewrite loaded_files_cons. destruct (from_filename T sl a) as [|id|] eqn:E; cbn [is_loaded].
    + intros H. destruct (IH _ H) as [-> Hf]. split; auto.
      intros f [<-|Hin]; [congruence|auto].
    + destruct (collect (map (from_filename T sl) r)) as [ids'|] eqn:Ec; cbn [option_map]; [|discriminate]. intros [= <-].
      destruct (IH _ eq_refl) as [-> Hf]. split.
      * cbn [map]. f_equal. unfold idN. apply from_filename_loaded in E. destruct E as [[_ E] _]. rewrite E. reflexivity.
      * intros f [<-|Hin]; [congruence|auto].
    + discriminate. Qed.
Lemma collect_total T sl l : (forall f, In f l -> from_filename T sl f <> Fail) ->
  exists ids, collect (map (from_filename T sl) l) = Some ids.
Proof. induction l as [|a r IH]; intros H; cbn [map collect]; [eauto|]. destruct IH as [ids Hids]; [intros f Hf; apply H; right; auto|].
  destruct (from_filename T sl a) eqn:E; rewrite ?Hids; cbn [option_map]; eauto. exfalso. apply (H a); auto. left; auto. Qed.

Lemma ids_of_spec l ids : ids_of l = Some ids -> ids = map idN l /\ forall f, In f l -> file_id f <> None.
Proof. revert ids; induction l as [|a r IH]; intros ids; cbn [ids_of map].
  - intros [= <-]. split; [reflexivity|intros f []].
  - unfold idN at 1. destruct (file_id a) as [i|] eqn:E; [|discriminate]. destruct (ids_of r) as [ids'|]; [|discriminate]. intros [= <-].
    destruct (IH _ eq_refl) as [-> Hf]. split; [reflexivity|].
    intros f [<-|Hin]; [congruence|auto]. Qed.
Lemma ids_of_total l : (forall f, In f l -> file_id f <> None) -> ids_of l = Some (map idN l).
Proof. induction l as [|a r IH]; intros H; cbn [ids_of map]; [reflexivity|]. rewrite IH by (intros f Hf; apply H; right; auto).
  destruct (file_id a) eqn:E; [|exfalso; apply (H a); auto; left; auto].
  assert (Hi : idN a = n) by (unfold idN; rewrite E; reflexivity). rewrite Hi. reflexivity. Qed.

(* ------------------------------------------------------------------ a real path names one entry *)
Lemma real_of_path_inj T le f : good_names T -> In le (all_entries T) -> In f (all_entries T) ->
  le_path (real_of T le) = le_path f -> real_of T le = f.
Proof. intros Hg Hle Hf Hp. destruct le as [[d nm] c]. unfold real_of in *. cbn [snd] in *.
  destruct c as [c0|es|t]; try (apply (all_entries_path_inj T _ _ Hg Hle Hf Hp)).
  destruct (lookup T t) as [c'|] eqn:Et; [|apply (all_entries_path_inj T _ _ Hg Hle Hf Hp)].
  destruct f as [[df nmf] cf]. unfold le_path in Hp. cbn [fst snd] in Hp. destruct t as [|a t0].
  - simpl in Hp. destruct df; simpl in Hp; inversion Hp; subst.
    + exfalso. eapply all_entries_name_nonempty; eauto.
    + destruct df; discriminate.
  - assert (Hne : a :: t0 <> []) by discriminate. remember (a :: t0) as t. clear Heqt a t0.
    pose proof (app_removelast_last [] Hne) as Et2.
    assert (Hp' : t = df ++ [nmf]) by (rewrite Et2; exact Hp). clear Hp Et2. subst t. rewrite (all_entries_lookup T df nmf cf Hg Hf) in Et.
    inversion Et; subst. rewrite removelast_snoc, last_last. reflexivity. Qed.

(* ------------------------------------------------------------------ exactly once, as files *)
Section ExactlyOnce.
Variables (T:node) (sl rec:bool) (locs:list rloc).
Hypothesis Hg : good_names T.
Hypothesis Hl : forall l, In l locs -> good_loc T l.
Let reals := map (real_of T) (listing T sl rec locs).
Let uniq := dedupe_paths [] reals.

Lemma uniq_NoDup : NoDup uniq.
Proof. apply (NoDup_map_inv le_path). apply dedupe_paths_NoDup. Qed.

Lemma loaded_in_expected f : In f (loaded_files T sl uniq) -> In f (expected_files T sl rec locs).
Proof. unfold loaded_files, expected_files. rewrite !filter_In. intros [Hu Hld].
  destruct (from_filename T sl f) as [|id|] eqn:E; try discriminate.
  apply from_filename_loaded in E. destruct E as ([Hfile _] & Hn & Hs).
  apply dedupe_paths_In in Hu. destruct Hu as [Hu _].
  destruct (reals_file_sound T sl rec locs f Hg Hl Hfile Hu) as [Ha Hr]. split; auto.
  unfold wanted. rewrite Hfile, Hn, Hs, Hr. reflexivity. Qed.

Lemma reals_in_entries y : In y reals -> exists le, In le (all_entries T) /\ y = real_of T le.
Proof. intros Hy. apply in_map_iff in Hy. destruct Hy as [le [<- Hin]].
  destruct (listing_sound T sl rec locs le Hg Hl Hin) as [Ha _]. eauto. Qed.

Lemma expected_in_uniq f : pyc_names_ok T ->
  In f (expected_files T sl rec locs) -> In f uniq /\ exists k, from_filename T sl f = load_python_file (snd (fst f)) k (snd f).
Proof. intros Hns. unfold expected_files. rewrite filter_In. intros [Ha Hw]. unfold wanted in Hw.
  apply andb_true_iff in Hw. destruct Hw as [Hw Hr]. apply andb_true_iff in Hw. destruct Hw as [Hw Hs].
  apply andb_true_iff in Hw. destruct Hw as [Hfile Hn]. apply negb_true_iff in Hs. split.
  - apply dedupe_paths_keep; [|simpl; tauto|].
    + apply (reals_file_iff T sl rec locs f Hg Hl Hns Hfile). auto.
    + intros y Hy Hp. destruct (reals_in_entries y Hy) as [le [Hle ->]]. apply real_of_path_inj; auto.
  - destruct f as [[d nm] c]. cbn [fst snd] in *. rewrite from_filename_spec, Hn, Hs. simpl. eauto. Qed.

Lemma exactly_once_files : pyc_names_ok T ->
  (forall f, In f uniq -> from_filename T sl f <> Fail) ->
  Permutation (loaded_files T sl uniq) (expected_files T sl rec locs).
Proof. intros Hns Hnf. apply NoDup_Permutation.
  - apply NoDup_filter. apply uniq_NoDup.
  - apply NoDup_filter. apply all_entries_NoDup; auto.
  - intros f. split; [apply loaded_in_expected|]. intros He. destruct (expected_in_uniq f Hns He) as [Hu [k Hk]].
    unfold loaded_files. apply filter_In. split; auto. specialize (Hnf f Hu). rewrite Hk in *.
    pose proof (load_python_file_not_skip (snd (fst f)) k (snd f)). destruct (load_python_file (snd (fst f)) k (snd f)); tauto. Qed.

(* without the shadowing hypothesis: nothing is loaded that is not expected, and nothing twice *)
Lemma nothing_else_files : NoDup (loaded_files T sl uniq) /\ incl (loaded_files T sl uniq) (expected_files T sl rec locs).
Proof. split; [apply NoDup_filter, uniq_NoDup|]. intros f. apply loaded_in_expected. Qed.
End ExactlyOnce.

(* ------------------------------------------------------------------ what wf_tree gives *)
Definition entry_ok (T:node) (inpyc:bool) (e:entry) : bool :=
  nonempty (fst e) && negb (weird_name (fst e)) && (negb inpyc || negb (prefixb [46] (fst e)))
  && (if str_eqb (fst e) s_pycache then is_dir (snd e) else true)
  && match snd e with
     | File _ => true
     | Link t => match lookup T t with Some (File _) => true | Some (Dir _) => negb inpyc | _ => false end
     | Dir _ => negb inpyc
     end.

Lemma wf_node_Dir T inpyc ispyc es : wf_node T inpyc ispyc (Dir es) =
  negb inpyc && nodup_str (map fst es) &&
  forallb (fun e : entry => nonempty (fst e) && negb (weird_name (fst e)) && (negb ispyc || negb (prefixb [46] (fst e)))
                            && (if str_eqb (fst e) s_pycache then is_dir (snd e) else true)
                            && wf_node T ispyc (str_eqb (fst e) s_pycache) (snd e)) es.
Proof. cbn [wf_node]. f_equal. induction es as [|[nm c] r IH]; [reflexivity|]. cbn [forallb fst snd]. rewrite <- IH. reflexivity. Qed.

Lemma wf_node_good T n : forall a b, wf_node T a b n = true -> good_names n.
Proof. induction n as [c|t|es IH] using node_ind'; intros a b H; try exact I.
  rewrite wf_node_Dir in H. apply andb_true_iff in H. destruct H as [H H3]. apply andb_true_iff in H. destruct H as [_ H2].
  apply good_names_Dir. rewrite forallb_forall in H3. rewrite Forall_forall in IH. repeat split.
  - apply nodup_str_NoDup; auto.
  - intro Hin. apply in_map_iff in Hin. destruct Hin as [e [He Hin]]. specialize (H3 _ Hin). rewrite He in H3. discriminate.
  - apply Forall_forall. intros e He. specialize (H3 _ He). apply andb_true_iff in H3. destruct H3 as [_ H3].
    apply (IH _ He _ _ H3). Qed.
Lemma wf_tree_good T : wf_tree T = true -> good_names T.
Proof. apply wf_node_good. Qed.

Lemma wf_node_entries T n : forall a d0, wf_node T a (str_eqb (last d0 []) s_pycache) n = true ->
  forall d es e, In (d, es) (all_dirs d0 n) -> In e es -> entry_ok T (str_eqb (last d []) s_pycache) e = true.
Proof. induction n as [c|t|es0 IH] using node_ind'; intros a d0 H d es e Hd He; try (simpl in Hd; tauto).
  rewrite wf_node_Dir in H. apply andb_true_iff in H. destruct H as [_ H3]. rewrite forallb_forall in H3.
  rewrite all_dirs_Dir in Hd. destruct Hd as [Hd|Hd].
  - inversion Hd; subst. specialize (H3 _ He). unfold entry_ok.
    apply andb_true_iff in H3. destruct H3 as [H3 H4]. apply andb_true_iff. split; [exact H3|]. destruct e as [nm c]. cbn [fst snd] in *.
    destruct c as [c0|es'|t]; auto.
    + rewrite wf_node_Dir in H4. apply andb_true_iff in H4. destruct H4 as [H4 _]. apply andb_true_iff in H4. tauto.
  - apply in_flat_map in Hd. destruct Hd as [[nm c] [Hc Hd]]. cbn [fst snd] in Hd. specialize (H3 _ Hc). cbn [fst snd] in H3.
    apply andb_true_iff in H3. destruct H3 as [_ H4]. rewrite Forall_forall in IH.
    assert (H4' : wf_node T (str_eqb (last d0 []) s_pycache) (str_eqb (last (d0 ++ [nm]) []) s_pycache) c = true)
      by (rewrite last_last; exact H4).
    exact (IH _ Hc _ (d0 ++ [nm]) H4' d es e Hd He). Qed.

Lemma wf_tree_entries T d nm c : wf_tree T = true -> In (d, nm, c) (all_entries T) ->
  entry_ok T (str_eqb (last d []) s_pycache) (nm, c) = true.
Proof. intros H Hin. apply all_entries_In in Hin. destruct Hin as [es [Hd He]].
  apply (wf_node_entries T T false [] H d es (nm, c) Hd He). Qed.

Lemma wf_tree_pyc_names T : wf_tree T = true -> pyc_names_ok T.
Proof. intros Hwf D es ces nm c Hl Hf Hin Hs.
  assert (Hl2 : lookup T (D ++ [s_pycache]) = Some (Dir ces)) by (rewrite lookup_app, Hl; simpl; rewrite Hf; reflexivity).
  pose proof (all_entries_complete T _ nm c ces Hl2 Hin) as Ha.
  pose proof (wf_tree_entries T _ _ _ Hwf Ha) as Hok. unfold entry_ok in Hok. cbn [fst snd] in Hok.
  rewrite last_last, str_eqb_refl in Hok. rewrite !andb_true_iff in Hok. destruct Hok as [[[[Hne _] Hh] _] _].
  simpl in Hh. apply negb_true_iff in Hh. destruct nm as [|a r]; [discriminate|]. cbn [stem] in Hs. cbn [prefixb] in Hh.
  destruct (N.eqb_spec a 46) as [->|Hn]; [discriminate|discriminate]. Qed.

(* ------------------------------------------------------------------ load_from: exactly once *)
Lemma load_from_Ok T sl rec locs ob : load_from T sl rec locs = Ok ob ->
  listing_bad sl rec locs = false /\
  let uniq := dedupe_paths [] (map (real_of T) (listing T sl rec locs)) in
  collect (map (from_filename T sl) uniq) = Some (o_ids ob) /\ o_dups ob = dup_ids [] (map rid_of (o_ids ob)) /\
  o_twice ob = N.of_nat (length (map (real_of T) (listing T sl rec locs)) - length uniq) /\
  o_map ob = rev_map (o_ids ob).
Proof. unfold load_from, load_listing. destruct (listing_bad sl rec locs); [discriminate|].
  destruct (collect _) as [ids|] eqn:E; [|discriminate]. intros [= <-]. cbn [o_ids o_dups o_twice o_map]. auto. Qed.

Theorem exactly_once T sl rec ps ob :
  wf_tree T = true ->
  load_from T sl rec (flat_map (resolve_loc T) ps) = Ok ob ->
  exists ids, expected_from T sl rec (flat_map (resolve_loc T) ps) = Ok ids /\ Permutation (o_ids ob) ids.
Proof. intros Hwf Hld. pose proof (wf_tree_pyc_names T Hwf) as Hns. apply wf_tree_good in Hwf. apply load_from_Ok in Hld. destruct Hld as (_ & Hc & _).
  apply collect_ok in Hc. destruct Hc as [Hids Hnf].
  pose proof (exactly_once_files T sl rec _ Hwf (resolve_locs_good T ps) Hns Hnf) as HP.
  exists (map idN (expected_files T sl rec (flat_map (resolve_loc T) ps))). split.
  - unfold expected_from. rewrite ids_of_total; [reflexivity|]. intros f Hf.
    apply (Permutation_in _ (Permutation_sym HP)) in Hf. unfold loaded_files in Hf. apply filter_In in Hf. destruct Hf as [_ Hf].
    destruct (from_filename T sl f) eqn:E; try discriminate. apply from_filename_loaded in E. destruct E as [[_ E] _].
    rewrite E. discriminate.
  - rewrite Hids. apply Permutation_map. exact HP. Qed.

Theorem nothing_else T sl rec ps ob :
  wf_tree T = true -> load_from T sl rec (flat_map (resolve_loc T) ps) = Ok ob ->
  exists files, o_ids ob = map idN files /\ NoDup files /\ incl files (expected_files T sl rec (flat_map (resolve_loc T) ps)).
Proof. intros Hwf Hld. apply wf_tree_good in Hwf. apply load_from_Ok in Hld. destruct Hld as (_ & Hc & _).
  apply collect_ok in Hc. destruct Hc as [Hids _].
  destruct (nothing_else_files T sl rec _ Hwf (resolve_locs_good T ps)) as [H1 H2]. eauto. Qed.

(* ------------------------------------------------------------------ the revision map: the last Script with an id stays *)
Lemma rev_map_incl l x : In x (rev_map l) -> In x l.
Proof. induction l as [|a r IH]; cbn [rev_map]; [tauto|]. destruct (memN (rid_of a) (map rid_of r)); simpl; intuition. Qed.
Lemma rev_map_rids l r : In r (map rid_of l) -> In r (map rid_of (rev_map l)).
Proof. induction l as [|a l IH]; cbn [rev_map map]; [tauto|]. destruct (memN (rid_of a) (map rid_of l)) eqn:E.
  - intros [<-|H]; [apply IH; apply memN_In; exact E|auto].
  - cbn [map]. intros [<-|H]; [left; auto|right; auto]. Qed.
Lemma rev_map_NoDup l : NoDup (map rid_of (rev_map l)).
Proof. induction l as [|a l IH]; cbn [rev_map]; [constructor|]. destruct (memN (rid_of a) (map rid_of l)) eqn:E; [exact IH|].
  cbn [map]. constructor; [|exact IH]. intro Hin. apply memN_nIn in E. apply E. apply in_map_iff in Hin.
  destruct Hin as [y [Hy Hin]]. apply in_map_iff. exists y. split; auto. apply rev_map_incl; auto. Qed.
Lemma rev_map_id l : NoDup (map rid_of l) -> rev_map l = l.
Proof. induction l as [|a l IH]; cbn [rev_map map]; [reflexivity|]. intros H. inversion H; subst.
  destruct (memN (rid_of a) (map rid_of l)) eqn:E; [apply memN_In in E; tauto|]. rewrite IH; auto. Qed.

(* ------------------------------------------------------------------ duplicate ids *)
Lemma count_cons x y l : count x (y :: l) = if N.eq_dec y x then S (count x l) else count x l.
Proof. unfold count. simpl. destruct (N.eq_dec y x); reflexivity. Qed.
Lemma dup_ids_count seen ids x : NoDup seen ->
  count x (dup_ids seen ids) = if memN x seen then count x ids else pred (count x ids).
Proof. revert seen; induction ids as [|y r IH]; intros seen Hs; cbn [dup_ids].
  - unfold count. simpl. destruct (memN x seen); reflexivity.
  - destruct (memN y seen) eqn:Ey.
    + rewrite !count_cons, IH by auto. destruct (N.eq_dec y x) as [->|Hne]; [rewrite Ey; reflexivity|reflexivity].
    + assert (Hs' : NoDup (y :: seen)) by (constructor; auto; apply memN_nIn; auto).
      rewrite IH by auto. rewrite count_cons. destruct (N.eq_dec y x) as [->|Hne].
      * simpl. rewrite N.eqb_refl. simpl. rewrite Ey. reflexivity.
      * simpl. destruct (N.eqb_spec x y) as [->|_]; [congruence|]. simpl. reflexivity. Qed.
Theorem duplicate_id ids x : count x (dup_ids [] ids) = pred (count x ids).
Proof. rewrite dup_ids_count by constructor. reflexivity. Qed.

(* ------------------------------------------------------------------ decider soundness *)
Lemma countb_count x l : countb x l = count x l.
Proof. unfold countb, count. induction l as [|y r IH]; simpl; [reflexivity|].
  destruct (N.eqb_spec x y) as [Heq|Hne]; destruct (N.eq_dec y x) as [E|E]; simpl; congruence. Qed.
Lemma count_notin x l : ~ In x l -> count x l = 0%nat.
Proof. intros H. unfold count. apply count_occ_not_In. exact H. Qed.
Lemma same_counts_perm a b : same_counts a b = true -> Permutation a b.
Proof. unfold same_counts. rewrite forallb_forall. intros H. apply (Permutation_count_occ N.eq_dec). intros x.
  fold (count x a). fold (count x b). destruct (in_dec N.eq_dec x (a ++ b)) as [Hin|Hn].
  - specialize (H _ Hin). apply Nat.eqb_eq in H. rewrite !countb_count in H. exact H.
  - rewrite !count_notin; auto; intro; apply Hn; apply in_or_app; auto. Qed.

Lemma perm_same_counts a b : Permutation a b -> same_counts a b = true.
Proof. intros H. unfold same_counts. apply forallb_forall. intros x _. apply Nat.eqb_eq. rewrite !countb_count.
  unfold count. apply (Permutation_count_occ N.eq_dec); auto. Qed.
Lemma dups_check_iff d l :
  forallb (fun x => Nat.eqb (countb x d) (pred (countb x l))) (d ++ l) = true <-> (forall x, count x d = pred (count x l)).
Proof. rewrite forallb_forall. split.
  - intros H x. destruct (in_dec N.eq_dec x (d ++ l)) as [Hin|Hn].
    + specialize (H _ Hin). apply Nat.eqb_eq in H. rewrite !countb_count in H. exact H.
    + rewrite !count_notin; auto; intro; apply Hn; apply in_or_app; auto.
  - intros H x _. apply Nat.eqb_eq. rewrite !countb_count. apply H. Qed.

Theorem check_iff i o : check_C19 i o = true <-> C19_holds i o.
Proof. unfold check_C19, C19_holds. destruct o as [ob|e], (expected i) as [ids|e']; try (split; [discriminate|tauto]).
  - rewrite !andb_true_iff, dups_check_iff, nodupb_NoDup, !subsetN_incl. split.
    + intros [[[[H1 H2] H3] H4] H5]. repeat split; auto. apply same_counts_perm; auto.
    + intros (H1 & H2 & H3 & H4 & H5). repeat split; auto. apply perm_same_counts; auto.
  - destruct e, e'; simpl; split; try discriminate; auto. Qed.
Theorem check_sound i o : check_C19 i o = true -> C19_holds i o.
Proof. apply check_iff. Qed.
Theorem check_complete i o : C19_holds i o -> check_C19 i o = true.
Proof. apply check_iff. Qed.

(* ------------------------------------------------------------------ no error on loadable trees *)
Lemma listing_bad_false T sl rec locs : wf_tree T = true -> (forall l, In l locs -> good_loc T l) ->
  listing_bad sl rec locs = false.
Proof. intros Hwf Hl. destruct (listing_bad sl rec locs) eqn:E; [|reflexivity]. exfalso.
  unfold listing_bad in E. apply existsb_exists in E. destruct E as [l [Hlin E]]. unfold list_py_dir_bad in E.
  apply andb_true_iff in E. destruct E as [_ E]. apply existsb_exists in E. destruct E as [[d es] [Hd E]]. cbn [snd] in E.
  apply (listed_dirs_spec T rec l d es (wf_tree_good T Hwf) (Hl _ Hlin)) in Hd. destruct Hd as [Hd _].
  unfold pycache_bad in E. destruct (find_entry s_pycache es) as [c|] eqn:Ef; [|discriminate].
  pose proof (all_entries_complete T d s_pycache c es Hd (find_entry_In _ _ _ Ef)) as Hin.
  pose proof (wf_tree_entries T _ _ _ Hwf Hin) as Hok. unfold entry_ok in Hok. cbn [fst snd] in Hok.
  rewrite str_eqb_refl in Hok. destruct c as [c0|es'|t]; try discriminate;
  rewrite !andb_true_iff in Hok; simpl in Hok; destruct Hok as [[[[_ _] _] Hok] _]; discriminate. Qed.

Lemma listed_not_dirlike_or_pyc T sl rec locs d nm c : entry_listed T sl rec locs (d, nm, c) = true ->
  is_dirlike T c = false \/ str_eqb (last d []) s_pycache = true.
Proof. unfold entry_listed. intros H. apply existsb_exists in H. destruct H as [l [_ H]]. unfold listed_by in H.
  apply orb_true_iff in H. destruct H as [H|H].
  - apply andb_true_iff in H. destruct H as [H _]. apply negb_true_iff in H. auto.
  - apply andb_true_iff in H. destruct H as [_ H]. destruct d as [|a d0]; [discriminate|].
    rewrite !andb_true_iff in H. tauto. Qed.

Lemma listed_real_is_file T sl rec locs le : wf_tree T = true -> In le (all_entries T) ->
  entry_listed T sl rec locs le = true -> is_file (real_of T le) = true.
Proof. intros Hwf Hin He. destruct le as [[d nm] c]. pose proof (wf_tree_entries T _ _ _ Hwf Hin) as Hok.
  apply listed_not_dirlike_or_pyc in He. unfold entry_ok in Hok. cbn [fst snd] in Hok.
  apply andb_true_iff in Hok. destruct Hok as [_ Hok]. unfold real_of, is_file. cbn [snd].
  destruct c as [c0|es|t].
  - reflexivity.
  - exfalso. apply negb_true_iff in Hok. destruct He as [He|He]; [discriminate|congruence].
  - unfold is_dirlike, real_node in He. destruct (lookup T t) as [[c0|es|t']|] eqn:Et; try discriminate.
    + reflexivity.
    + exfalso. apply negb_true_iff in Hok. destruct He as [He|He]; [discriminate|congruence]. Qed.

Lemma weird_false_ext nm : weird_name nm = false -> is_rev_name true nm = true ->
  ext_lost nm (kind_of nm) = false.
Proof. unfold weird_name, kind_of. intros Hw Hr. apply orb_false_iff in Hw. destruct Hw as [H1 H2].
  destruct (suffixb s_py nm) eqn:Hp; [simpl in H1; exact H1|]. destruct (suffixb s_pyc nm) eqn:Hc; [simpl in H2; exact H2|].
  unfold is_rev_name in Hr. rewrite Hp, Hc in Hr. cbn [orb andb] in Hr. apply andb_true_iff in Hr. destruct Hr as [_ Ho].
  rewrite Ho in H2. simpl in H2. exact H2. Qed.
Lemma is_rev_name_mono sl nm : is_rev_name sl nm = true -> is_rev_name true nm = true.
Proof. unfold is_rev_name. destruct sl; [auto|]. rewrite !andb_true_iff, !orb_true_iff. simpl. intuition. Qed.

Lemma reals_not_fail T sl rec ps f :
  let locs := flat_map (resolve_loc T) ps in
  wf_tree T = true ->
  (forall g, In g (expected_files T sl rec locs) -> file_id g <> None) ->
  In f (map (real_of T) (listing T sl rec locs)) -> from_filename T sl f <> Fail.
Proof. intros locs Hwf Hids Hin. pose proof (wf_tree_good T Hwf) as Hg.
  assert (Hl : forall l, In l locs -> good_loc T l) by apply resolve_locs_good.
  assert (Hfile : is_file f = true).
  { apply in_map_iff in Hin. destruct Hin as [le [<- Hle]]. destruct (listing_sound T sl rec locs le Hg Hl Hle) as [Ha He].
    eapply listed_real_is_file; eauto. }
  destruct (reals_file_sound T sl rec locs f Hg Hl Hfile Hin) as [Ha Hr].
  destruct f as [[d nm] c]. rewrite from_filename_spec. destruct (is_rev_name sl nm) eqn:Hn; [|simpl; discriminate].
  destruct (superseded T d nm) eqn:Hs; [simpl; discriminate|]. simpl andb. cbv iota.
  assert (Hexp : In (d, nm, c) (expected_files T sl rec locs)).
  { unfold expected_files. apply filter_In. split; auto. unfold wanted. cbn [fst snd]. rewrite Hfile, Hn, Hs, Hr. reflexivity. }
  specialize (Hids _ Hexp). unfold file_id in Hids. cbn [fst snd] in Hids. unfold is_file in Hfile. cbn [snd] in Hfile.
  destruct c as [[id|]|es|t]; try discriminate; try congruence.
  pose proof (wf_tree_entries T _ _ _ Hwf Ha) as Hok. unfold entry_ok in Hok. cbn [fst snd] in Hok.
  rewrite !andb_true_iff in Hok. destruct Hok as [[[[_ Hw] _] _] _]. apply negb_true_iff in Hw.
  unfold load_python_file. rewrite (weird_false_ext nm Hw (is_rev_name_mono _ _ Hn)).
  destruct (module_revision nm id); [discriminate|congruence]. Qed.

Theorem no_error T sl rec ps ids :
  wf_tree T = true ->
  expected_from T sl rec (flat_map (resolve_loc T) ps) = Ok ids ->
  exists ob, load_from T sl rec (flat_map (resolve_loc T) ps) = Ok ob.
Proof. intros Hwf He. unfold expected_from in He.
  destruct (ids_of (expected_files T sl rec (flat_map (resolve_loc T) ps))) as [ids'|] eqn:Ei; [|discriminate].
  apply ids_of_spec in Ei. destruct Ei as [_ Hids].
  unfold load_from, load_listing. rewrite (listing_bad_false T sl rec _ Hwf (resolve_locs_good T ps)).
  destruct (collect_total T sl (dedupe_paths [] (map (real_of T) (listing T sl rec (flat_map (resolve_loc T) ps))))) as [ids0 H0].
  - intros f Hf. apply dedupe_paths_In in Hf. destruct Hf as [Hf _]. eapply reals_not_fail; eauto.
  - rewrite H0. eauto. Qed.

Lemma load_from_cases T sl rec locs : (exists ob, load_from T sl rec locs = Ok ob) \/ load_from T sl rec locs = Err ELoad.
Proof. unfold load_from, load_listing. destruct (listing_bad sl rec locs); auto. destruct (collect _); eauto. Qed.

(* ------------------------------------------------------------------ the listing order does not matter *)
Lemma real_of_cases T le : In le (all_entries T) -> In (real_of T le) (all_entries T) \/ real_of T le = ([], [], T).
Proof. intros Hin. destruct le as [[d nm] c]. unfold real_of. cbn [snd]. destruct c as [c0|es|t]; auto.
  destruct (lookup T t) as [c'|] eqn:Et; auto. destruct t as [|a t0].
  - simpl in Et. inversion Et; subst. right. reflexivity.
  - left. assert (Hne : a :: t0 <> []) by discriminate. remember (a :: t0) as t. clear Heqt a t0.
    pose proof (app_removelast_last [] Hne) as Et2. rewrite Et2 in Et. apply lookup_snoc_inv in Et. destruct Et as [es [E1 E2]].
    eapply all_entries_complete; eauto. apply find_entry_In; auto. Qed.
Lemma reals_path_inj T le le' : good_names T -> In le (all_entries T) -> In le' (all_entries T) ->
  le_path (real_of T le) = le_path (real_of T le') -> real_of T le = real_of T le'.
Proof. intros Hg H1 H2 Hp. destruct (real_of_cases T le' H2) as [Hz|Hz].
  - apply real_of_path_inj; auto.
  - destruct (real_of_cases T le H1) as [Hy|Hy]; [|congruence]. symmetry. apply real_of_path_inj; auto. Qed.

Lemma dedupe_paths_iff l x : (forall y z, In y l -> In z l -> le_path y = le_path z -> y = z) ->
  (In x (dedupe_paths [] l) <-> In x l).
Proof. intros Hf. split; [intros H; apply dedupe_paths_In in H; tauto|]. intros H. apply dedupe_paths_keep; [exact H|simpl; tauto|].
  intros y Hy Hp. apply Hf; auto. Qed.
Lemma dedupe_paths_perm l l' : (forall y z, In y l -> In z l -> le_path y = le_path z -> y = z) ->
  Permutation l l' -> Permutation (dedupe_paths [] l) (dedupe_paths [] l').
Proof. intros Hf HP.
  assert (Hf' : forall y z, In y l' -> In z l' -> le_path y = le_path z -> y = z).
  { intros y z Hy Hz. apply Hf; eapply Permutation_in; try apply Permutation_sym; eauto. }
  apply NoDup_Permutation; try (apply (NoDup_map_inv le_path); apply dedupe_paths_NoDup).
  intros x. rewrite (dedupe_paths_iff l x Hf), (dedupe_paths_iff l' x Hf'). split; apply Permutation_in; auto.
  apply Permutation_sym; auto. Qed.

Definition collect_rel (a b : option (list N)) : Prop :=
  match a, b with Some x, Some y => Permutation x y | None, None => True | _, _ => False end.
Lemma collect_perm (F : lentry -> fres) u u' : Permutation u u' -> collect_rel (collect (map F u)) (collect (map F u')).
Proof. unfold collect_rel. induction 1 as [|x l l' HP IH|x y l|l l' l'' HP1 IH1 HP2 IH2]; cbn [map collect].
  - constructor.
  - destruct (F x); [exact IH| |exact I].
    destruct (collect (map F l)), (collect (map F l')); cbn [option_map]; try tauto. constructor; auto.
  - destruct (F y), (F x); cbn [option_map]; destruct (collect (map F l)); cbn [option_map]; auto; try apply Permutation_refl.
    apply perm_swap.
  - destruct (collect (map F l)), (collect (map F l')), (collect (map F l'')); try tauto. eapply Permutation_trans; eauto. Qed.

Lemma dup_ids_perm a b : Permutation a b -> Permutation (dup_ids [] a) (dup_ids [] b).
Proof. intros H. apply (Permutation_count_occ N.eq_dec). intros x. fold (count x (dup_ids [] a)). fold (count x (dup_ids [] b)).
  rewrite !duplicate_id. f_equal. unfold count. apply (Permutation_count_occ N.eq_dec); auto. Qed.

Theorem order_invariant T sl L L' : good_names T -> incl L (all_entries T) -> Permutation L L' ->
  obs_equiv (load_listing T sl L) (load_listing T sl L').
Proof. intros Hg Hi HP. unfold load_listing.
  assert (HPr : Permutation (map (real_of T) L) (map (real_of T) L')) by (apply Permutation_map; auto).
  assert (Hf : forall y z, In y (map (real_of T) L) -> In z (map (real_of T) L) -> le_path y = le_path z -> y = z).
  { intros y z Hy Hz Hp. apply in_map_iff in Hy, Hz. destruct Hy as [le [<- Hle]]. destruct Hz as [le' [<- Hle']].
    apply reals_path_inj; auto. }
  pose proof (dedupe_paths_perm _ _ Hf HPr) as HPu.
  pose proof (collect_perm (from_filename T sl) _ _ HPu) as Hc. unfold collect_rel in Hc.
  destruct (collect (map (from_filename T sl) (dedupe_paths [] (map (real_of T) L)))) as [ids|];
  destruct (collect (map (from_filename T sl) (dedupe_paths [] (map (real_of T) L')))) as [ids'|]; try tauto; [|reflexivity].
  unfold obs_equiv. cbn [o_ids o_twice o_dups o_map]. repeat split.
  - exact Hc.
  - rewrite (Permutation_length HPr), (Permutation_length HPu). reflexivity.
  - apply dup_ids_perm. apply Permutation_map. exact Hc.
  - intros Hnd. rewrite (rev_map_id ids Hnd). rewrite (rev_map_id ids'); [exact Hc|].
    eapply Permutation_NoDup; [apply Permutation_map; exact Hc|exact Hnd]. Qed.

(* the same at the level of load_from: the configured locations in another order *)
Theorem location_order_invariant T sl rec ps ps' : wf_tree T = true -> Permutation ps ps' ->
  obs_equiv (load_from T sl rec (flat_map (resolve_loc T) ps)) (load_from T sl rec (flat_map (resolve_loc T) ps')).
Proof. intros Hwf HP. pose proof (wf_tree_good T Hwf) as Hg. unfold load_from.
  rewrite !(listing_bad_false T sl rec _ Hwf (resolve_locs_good T _)).
  apply order_invariant; auto.
  - intros le Hle. apply (listing_sound T sl rec _ le Hg (resolve_locs_good T ps) Hle).
  - unfold listing. apply Permutation_flat_map. apply Permutation_flat_map. exact HP. Qed.

(* ------------------------------------------------------------------ the property on the proved class *)


(* ------------------------------------------------------------------ a source wins over its compiled forms *)
Theorem source_wins T sl rec ps ob :
  wf_tree T = true -> load_from T sl rec (flat_map (resolve_loc T) ps) = Ok ob ->
  exists files, o_ids ob = map idN files /\
    forall d nm c, In (d, nm, c) files -> suffixb s_py nm = false ->
      exists_in T d (removelast nm) = false /\ (suffixb s_pyo nm = true -> exists_in T d (removelast nm ++ [99]) = false).
Proof. intros Hwf Hld. destruct (nothing_else T sl rec ps ob Hwf Hld) as [files (Hids & _ & Hincl)]. exists files. split; auto.
  intros d nm c Hin Hp. apply Hincl in Hin. unfold expected_files in Hin. apply filter_In in Hin. destruct Hin as [_ Hw].
  unfold wanted in Hw. cbn [fst snd] in Hw. rewrite !andb_true_iff in Hw. destruct Hw as [[[_ _] Hs] _].
  apply negb_true_iff in Hs. unfold superseded in Hs. rewrite Hp in Hs. apply orb_false_iff in Hs. destruct Hs as [H1 H2].
  split; auto. intros Ho. rewrite Ho in H2. exact H2. Qed.

(* ------------------------------------------------------------------ repeated / overlapping locations *)
Lemma existsb_ext' {A} (f g : A -> bool) l : (forall x, f x = g x) -> existsb f l = existsb g l.
Proof. intros H. induction l as [|a l IH]; simpl; [reflexivity|]. rewrite H, IH. reflexivity. Qed.
Lemma entry_listed_app T sl rec l1 l2 le : incl l2 l1 ->
  entry_listed T sl rec (l1 ++ l2) le = entry_listed T sl rec l1 le.
Proof. intros Hi. unfold entry_listed. rewrite existsb_app. destruct (existsb (listed_by T sl rec le) l2) eqn:E; [|apply orb_false_r].
  apply existsb_exists in E. destruct E as [l [Hl E]]. rewrite orb_true_r. symmetry. apply existsb_exists. exists l. split; auto. Qed.
Lemma expected_files_app T sl rec l1 l2 : incl l2 l1 -> expected_files T sl rec (l1 ++ l2) = expected_files T sl rec l1.
Proof. intros Hi. unfold expected_files. apply filter_ext. intros f. unfold wanted, reached. rewrite (entry_listed_app _ _ _ _ _ _ Hi).
  f_equal. f_equal. apply existsb_ext'. intros l. destruct (snd l); auto. rewrite (entry_listed_app _ _ _ _ _ _ Hi). reflexivity. Qed.

Lemma listing_app T sl rec l1 l2 : listing T sl rec (l1 ++ l2) = listing T sl rec l1 ++ listing T sl rec l2.
Proof. unfold listing. apply flat_map_app. Qed.
Lemma listing_incl T sl rec l1 l2 : incl l2 l1 -> incl (listing T sl rec l2) (listing T sl rec l1).
Proof. intros Hi x Hx. unfold listing in *. apply in_flat_map in Hx. destruct Hx as [l [Hl Hx]]. apply in_flat_map. exists l. split; auto. Qed.

Theorem dedupe_locations T sl rec ps ps2 ob ob' :
  wf_tree T = true -> incl ps2 ps ->
  load_from T sl rec (flat_map (resolve_loc T) ps) = Ok ob ->
  load_from T sl rec (flat_map (resolve_loc T) (ps ++ ps2)) = Ok ob' ->
  Permutation (o_ids ob) (o_ids ob')
  /\ (length (listing T sl rec (flat_map (resolve_loc T) ps2)) <= N.to_nat (o_twice ob'))%nat.
Proof. intros Hwf Hi H1 H2.
  assert (Hi' : incl (flat_map (resolve_loc T) ps2) (flat_map (resolve_loc T) ps)).
  { intros x Hx. apply in_flat_map in Hx. destruct Hx as [p [Hp Hx]]. apply in_flat_map. exists p. split; auto. }
  split.
  - destruct (exactly_once T sl rec ps ob Hwf H1) as [ids [E1 P1]].
    destruct (exactly_once T sl rec (ps ++ ps2) ob' Hwf H2) as [ids' [E2 P2]].
    rewrite flat_map_app in E2. unfold expected_from in E1, E2. rewrite (expected_files_app _ _ _ _ _ Hi') in E2.
    rewrite E2 in E1. inversion E1; subst. eapply Permutation_trans; [exact P1|apply Permutation_sym; exact P2].
  - apply load_from_Ok in H2. destruct H2 as (_ & _ & _ & Ht & _). rewrite Ht, Nat2N.id. rewrite flat_map_app, listing_app, map_app, !app_length, !map_length.
    set (L1 := listing T sl rec (flat_map (resolve_loc T) ps)). set (L2 := listing T sl rec (flat_map (resolve_loc T) ps2)).
    assert (Hle : (length (dedupe_paths [] (map (real_of T) L1 ++ map (real_of T) L2)) <= length (map le_path (map (real_of T) L1)))%nat).
    { rewrite <- (map_length le_path (dedupe_paths _ _)). apply NoDup_incl_length; [apply dedupe_paths_NoDup|].
      intros p Hp. apply in_map_iff in Hp. destruct Hp as [x [<- Hx]]. apply dedupe_paths_In in Hx. destruct Hx as [Hx _].
      apply in_app_or in Hx. destruct Hx as [Hx|Hx]; [apply in_map; auto|]. apply in_map.
      apply in_map_iff in Hx. destruct Hx as [y [<- Hy]]. apply in_map. apply (listing_incl T sl rec _ _ Hi'). exact Hy. }
    rewrite !map_length in Hle. lia. Qed.

(* ------------------------------------------------------------------ version_locations splitting *)
Lemma split_on_fields c s : split_on c s = fields (fun x => N.eqb x c) s.
Proof. induction s as [|x r IH]; simpl; [reflexivity|]. rewrite IH. reflexivity. Qed.
Lemma fields_ext f g s : (forall x, f x = g x) -> fields f s = fields g s.
Proof. intros H. induction s as [|x r IH]; simpl; [reflexivity|]. rewrite H, IH. reflexivity. Qed.
Lemma filter_strip (L:list str) :
  filter nonempty (map strip L) = map strip (filter (fun x => nonempty (strip x)) L).
Proof. induction L as [|x r IH]; cbn [map filter]; [reflexivity|]. destruct (nonempty (strip x)); cbn [map]; rewrite IH; reflexivity. Qed.

Definition is_legacy_delim (c:N) : bool := N.eqb c 32 || N.eqb c 44.
Lemma split_legacy_fields s :
  (exists p ps ps', split_legacy false s = p :: ps /\ fields is_legacy_delim s = p :: ps' /\ filter nonempty ps = filter nonempty ps')
  /\ filter nonempty (split_legacy true s) = filter nonempty (fields is_legacy_delim s).
Proof. induction s as [|x r [(p & ps & ps' & E1 & E2 & E3) IH2]]; cbn [split_legacy fields].
  - split; [exists [], [], []; auto|reflexivity].
  - destruct (N.eqb x 32) eqn:Es.
    + assert (Hd : is_legacy_delim x = true) by (unfold is_legacy_delim; rewrite Es; reflexivity). rewrite Hd.
      split; [exists [], (split_legacy true r), (fields is_legacy_delim r); auto|]. simpl. exact IH2.
    + destruct (N.eqb x 44) eqn:Ec.
      * assert (Hd : is_legacy_delim x = true) by (unfold is_legacy_delim; rewrite Es, Ec; reflexivity). rewrite Hd.
        split; [exists [], (split_legacy true r), (fields is_legacy_delim r); auto|]. simpl. exact IH2.
      * assert (Hd : is_legacy_delim x = false) by (unfold is_legacy_delim; rewrite Es, Ec; reflexivity). rewrite Hd.
        rewrite E1, E2. cbn [cons_head]. split; [exists (x :: p), ps, ps'; auto|]. simpl. rewrite E3. reflexivity. Qed.

Lemma split_char_eq c s :
  filter nonempty (map strip (fields (N.eqb c) s)) = map strip (filter (fun x => nonempty (strip x)) (split_on c s)).
Proof. rewrite split_on_fields. rewrite (fields_ext (N.eqb c) (fun x => N.eqb x c)) by (intros; apply N.eqb_sym).
  apply filter_strip. Qed.
Lemma split_legacy_eq s :
  filter nonempty (fields (fun c : N => N.eqb c 32 || N.eqb c 44) s) = filter nonempty (split_legacy false s).
Proof. destruct (split_legacy_fields s) as [(p & ps & ps' & E1 & E2 & E3) _].
  change (fun c : N => N.eqb c 32 || N.eqb c 44) with is_legacy_delim. rewrite E1, E2. cbn [filter]. rewrite E3. reflexivity. Qed.

(* the code's splitting of version_locations is the documented one, for every separator and every string *)
Theorem split_full sp s :
  match split_locations sp s, spec_locations sp s with
  | Ok vl, Ok ps => version_locations vl = ps
  | Err a, Err b => a = b
  | _, _ => False
  end.
Proof. unfold split_locations, spec_locations. destruct s as [s|]; [|reflexivity]. destruct s as [|a s]; [reflexivity|].
  set (s' := a :: s). clearbody s'.
  destruct sp; try reflexivity; unfold spec_split; cbn [sep_char];
    try (rewrite split_char_eq; destruct (map strip _); reflexivity).
  rewrite split_legacy_eq. destruct (filter nonempty (split_legacy false s')); reflexivity. Qed.

(* ------------------------------------------------------------------ the property on the proved class *)
Theorem main i : wf_tree (i_tree i) = true -> C19_holds i (load_revisions i).
Proof. intros Hwf.
  unfold C19_holds, load_revisions, expected. pose proof (split_full (i_sep i) (i_locs i)) as Hsp.
  destruct (split_locations (i_sep i) (i_locs i)) as [vl|e]; destruct (spec_locations (i_sep i) (i_locs i)) as [ps|e']; try tauto.
  rewrite Hsp.
  destruct (expected_from (i_tree i) (i_sl i) (i_rec i) (flat_map (resolve_loc (i_tree i)) ps)) as [ids|e] eqn:He.
    + destruct (no_error _ _ _ _ _ Hwf He) as [ob Hob]. rewrite Hob.
      destruct (exactly_once _ _ _ _ _ Hwf Hob) as [ids' [He' HP]]. rewrite He in He'. inversion He'; subst ids'.
      apply load_from_Ok in Hob. destruct Hob as (_ & _ & Hd & _ & Hm). rewrite Hm. repeat split; auto.
      * intros x. rewrite Hd, duplicate_id. f_equal. unfold count. apply (Permutation_count_occ N.eq_dec).
        apply Permutation_map; auto.
      * apply rev_map_NoDup.
      * intros x Hx. apply (Permutation_in _ HP). apply rev_map_incl; auto.
      * intros r Hr. apply rev_map_rids. apply (Permutation_in _ (Permutation_map rid_of (Permutation_sym HP))). exact Hr.
    + destruct (load_from_cases (i_tree i) (i_sl i) (i_rec i) (flat_map (resolve_loc (i_tree i)) ps)) as [[ob Hob]|Herr].
      * destruct (exactly_once _ _ _ _ _ Hwf Hob) as [ids' [He' _]]. congruence.
      * rewrite Herr. unfold expected_from in He. destruct (ids_of _); [discriminate|]. congruence. Qed.
Corollary main_inclass i : inclass_C19 i = true -> C19_holds i (load_revisions i).
Proof. unfold inclass_C19. rewrite !andb_true_iff. intros [Hwf _]. apply main; auto. Qed.
