(* C12 — proofs about Model.OfflineEffect / Spec.C12. *)
From AV Require Import Base.ListSet Model.OfflineEffect Spec.C12.
From Coq Require Import ZArith Lia.
Import ListNotations.
Open Scope N_scope.

(* ================================================================ A. decider soundness *)
Lemma list_eqb_sound {A} (eqb : A -> A -> bool) :
  (forall x y, eqb x y = true -> x = y) -> forall a b, list_eqb eqb a b = true -> a = b.
Proof.
  intros H a; induction a as [|x a IH]; destruct b as [|y b]; simpl; try congruence.
  intros E. apply andb_true_iff in E as [E1 E2]. f_equal; auto.
Qed.
Lemma text_eqb_sound a b : list_eqb N.eqb a b = true -> a = b.
Proof. apply list_eqb_sound. intros x y; apply N.eqb_eq. Qed.
Lemma value_eqb_sound a b : value_eqb a b = true -> a = b.
Proof.
  destruct a, b; simpl; try congruence.
  - intros E; apply Z.eqb_eq in E; congruence.
  - intros E; apply text_eqb_sound in E; congruence.
  - intros E; apply text_eqb_sound in E; congruence.
Qed.
Lemma col_eqb_sound a b : col_eqb a b = true -> a = b.
Proof.
  destruct a as [n1 t1 d1 q1], b as [n2 t2 d2 q2]; unfold col_eqb; simpl. intros E.
  apply andb_true_iff in E as [E E4]. apply andb_true_iff in E as [E E3]. apply andb_true_iff in E as [E1 E2].
  apply N.eqb_eq in E1, E2. apply Bool.eqb_prop in E4. subst. f_equal.
  destruct d1, d2; simpl in E3; try discriminate; auto. apply value_eqb_sound in E3. congruence.
Qed.
Lemma table_eqb_sound a b : table_eqb a b = true -> a = b.
Proof.
  destruct a, b; unfold table_eqb; simpl. intros E.
  apply andb_true_iff in E as [E E4]. apply andb_true_iff in E as [E E3]. apply andb_true_iff in E as [E1 E2].
  apply N.eqb_eq in E1. apply (list_eqb_sound _ col_eqb_sound) in E2.
  apply (list_eqb_sound _ text_eqb_sound) in E3.
  apply (list_eqb_sound _ (list_eqb_sound _ value_eqb_sound)) in E4. congruence.
Qed.
Lemma index_eqb_sound a b : index_eqb a b = true -> a = b.
Proof.
  destruct a, b; unfold index_eqb; simpl. intros E.
  apply andb_true_iff in E as [E E4]. apply andb_true_iff in E as [E E3]. apply andb_true_iff in E as [E1 E2].
  apply N.eqb_eq in E1, E2. apply text_eqb_sound in E3. apply Bool.eqb_prop in E4. congruence.
Qed.
Lemma obs_eqb_sound a b : obs_eqb a b = true -> a = b.
Proof.
  destruct a, b; unfold obs_eqb; simpl. intros E.
  apply andb_true_iff in E as [E E4]. apply andb_true_iff in E as [E E3]. apply andb_true_iff in E as [E1 E2].
  apply (list_eqb_sound _ table_eqb_sound) in E1. apply (list_eqb_sound _ index_eqb_sound) in E2.
  apply text_eqb_sound in E3. apply (list_eqb_sound _ text_eqb_sound) in E4. congruence.
Qed.
Lemma check_C12_sound i o : check_C12 i o = true -> C12_holds i o.
Proof.
  unfold check_C12, C12_holds, robs_holdsb. destruct (o_on o), (o_off o); try congruence; auto.
  intros E; apply obs_eqb_sound in E; congruence.
Qed.

(* ================================================================ B. the text post-processing of _exec *)
Lemma replace_tab_app a b : replace_tab (a ++ b) = replace_tab a ++ replace_tab b.
Proof. induction a as [|c a IH]; simpl; auto. destruct (N.eqb c 9); simpl; rewrite IH; auto. Qed.
Lemma replace_tab_id s : no_tab s = true -> replace_tab s = s.
Proof.
  unfold no_tab, memN. induction s as [|c s IH]; cbn [existsb replace_tab]; auto.
  rewrite negb_true_iff, orb_false_iff. intros [E1 E2].
  rewrite N.eqb_sym in E1. rewrite E1. f_equal. apply IH. now rewrite negb_true_iff.
Qed.
Lemma post_identity (lit : value -> text) (parse_lit : text -> value) v :
  parse_lit (lit v) = v -> no_tab (lit v) = true -> parse_lit (post (lit v)) = v.
Proof. intros H T. unfold post. now rewrite replace_tab_id. Qed.

Lemma rstrip_last y b : is_ws b = false -> rstrip (y ++ [b]) = y ++ [b].
Proof. intros H. unfold rstrip. rewrite rev_app_distr. simpl. rewrite H. simpl. now rewrite rev_involutive. Qed.
(* a literal between non-blank text: only the tab replacement reaches it, strip does not *)
Lemma exec_post_literal term a pre l suf b :
  is_ws a = false -> is_ws b = false ->
  exec_post term ((a :: pre) ++ l ++ suf ++ [b]) = replace_tab (a :: pre) ++ post l ++ replace_tab (suf ++ [b]) ++ term.
Proof.
  intros Ha Hb. unfold exec_post, post, strip.
  assert (A9 : N.eqb a 9 = false). { destruct (N.eqb a 9) eqn:E; auto. apply N.eqb_eq in E; subst a. discriminate Ha. }
  assert (B9 : N.eqb b 9 = false). { destruct (N.eqb b 9) eqn:E; auto. apply N.eqb_eq in E; subst b. discriminate Hb. }
  assert (R1 : replace_tab (a :: pre) = a :: replace_tab pre) by (cbn [replace_tab]; now rewrite A9).
  assert (R2 : replace_tab [b] = [b]) by (cbn [replace_tab]; now rewrite B9).
  rewrite !replace_tab_app, !R2, R1.
  change ((a :: replace_tab pre) ++ replace_tab l ++ replace_tab suf ++ [b])
    with (a :: (replace_tab pre ++ replace_tab l ++ replace_tab suf ++ [b])).
  cbn [lstrip]. rewrite Ha.
  replace (a :: replace_tab pre ++ replace_tab l ++ replace_tab suf ++ [b])
     with ((a :: replace_tab pre ++ replace_tab l ++ replace_tab suf) ++ [b]).
  2:{ cbn [app]. f_equal. now rewrite <- !app_assoc. }
  rewrite rstrip_last by auto. cbn [app]. f_equal. now rewrite <- !app_assoc.
Qed.

(* ================================================================ C. replay of the offline stream = online run *)
Lemma run_app {A} (rd : A -> value) a b d :
  exec_run rd d (a ++ b) = let (d1, ok) := exec_run rd d a in if ok then exec_run rd d1 b else (d1, false).
Proof.
  revert d; induction a as [|s a IH]; intros d; simpl; auto.
  destruct (exec_stmt rd d s); auto.
Qed.
Lemma run_app_ok {A} (rd : A -> value) a b d d1 :
  exec_run rd d a = (d1, true) -> exec_run rd d (a ++ b) = exec_run rd d1 b.
Proof. intros E. now rewrite run_app, E. Qed.
Lemma run_app_fail {A} (rd : A -> value) a b d d1 :
  exec_run rd d a = (d1, false) -> exec_run rd d (a ++ b) = (d1, false).
Proof. intros E. now rewrite run_app, E. Qed.

(* a user-level statement leaves the version table alone *)
Lemma exec_stmt_user_snd {A} (rd : A -> value) d s d' :
  is_vstmt s = false -> exec_stmt rd d s = Some d' -> snd d' = snd d.
Proof.
  unfold exec_stmt. intros ->. destruct (is_frame s). { intros E; inversion E; auto. }
  destruct (exec_u rd (fst d) s); intros E; inversion E; auto.
Qed.
Lemma compile_op_user {A} (f g : value -> A) (e : text -> A) o : forallb (fun s => negb (is_vstmt s)) (compile_op f g e o) = true.
Proof.
  destruct o; simpl; auto.
  - induction rows; simpl; auto.
  - destruct r; reflexivity.
Qed.
Lemma run_user_snd {A} (rd : A -> value) l : forallb (fun s => negb (is_vstmt s)) l = true ->
  forall d d' ok, exec_run rd d l = (d', ok) -> snd d' = snd d.
Proof.
  induction l as [|s l IH]; simpl; intros H d d' ok E. { inversion E; auto. }
  apply andb_true_iff in H as [H1 H2]. apply negb_true_iff in H1.
  destruct (exec_stmt rd d s) as [d1|] eqn:E1.
  - rewrite (IH H2 _ _ _ E). eapply exec_stmt_user_snd; eauto.
  - inversion E; auto.
Qed.
Lemma body_user {A} (f g : value -> A) (e : text -> A) b : forallb (fun s => negb (is_vstmt s)) (flat_map (compile_op f g e) b) = true.
Proof. induction b as [|o b IH]; simpl; auto. rewrite forallb_app, compile_op_user, IH. reflexivity. Qed.

(* two readings of the literal positions that agree on the literals of an operation give the same execution,
   including where it stops and what it leaves behind *)
Lemma fill_row_ext {A B} (rdA : A -> value) (rdB : B -> value) {V} (fA : V -> A) (fB : V -> B) cols : forall cells,
  (forall v, In v (somes cells) -> rdA (fA v) = rdB (fB v)) ->
  fill_row rdA cols (map (option_map fA) cells) = fill_row rdB cols (map (option_map fB) cells).
Proof.
  induction cols as [|c cols IH]; intros [|x cells] H; simpl; auto.
  destruct x as [v|]; simpl in *.
  - rewrite (H v (or_introl eq_refl)). f_equal. apply IH. intros w Hw; apply H; auto.
  - f_equal. apply IH. auto.
Qed.
Lemma exec_insert_ext {A B} (rdA : A -> value) (rdB : B -> value) {V} (fA : V -> A) (fB : V -> B) d t row :
  (forall v, In v (somes row) -> rdA (fA v) = rdB (fB v)) ->
  exec_stmt rdA d (SInsert t (map (option_map fA) row)) = exec_stmt rdB d (SInsert t (map (option_map fB) row)).
Proof.
  intros H. unfold exec_stmt; simpl. rewrite !map_length.
  destruct (find_tab (u_tabs (fst d)) t) as [T|]; auto.
  rewrite (fill_row_ext rdA rdB fA fB (t_cols T) row H). reflexivity.
Qed.
Lemma read_col_ext {A B} (rdA : A -> value) (rdB : B -> value) (fA : value -> A) (fB : value -> B) c :
  (forall v, In v (col_values c) -> rdA (fA v) = rdB (fB v)) ->
  read_col rdA (compile_col fA c) = read_col rdB (compile_col fB c).
Proof.
  destruct c as [n t [v|] q]; unfold read_col, compile_col, col_values; simpl; intros H; auto.
  now rewrite (H v (or_introl eq_refl)).
Qed.
Lemma read_cols_ext {A B} (rdA : A -> value) (rdB : B -> value) (fA : value -> A) (fB : value -> B) cols :
  (forall v, In v (flat_map col_values cols) -> rdA (fA v) = rdB (fB v)) ->
  map (read_col rdA) (map (compile_col fA) cols) = map (read_col rdB) (map (compile_col fB) cols).
Proof.
  induction cols as [|c cols IH]; simpl; intros H; auto. f_equal.
  - apply read_col_ext. intros v Hv. apply H. apply in_or_app; auto.
  - apply IH. intros v Hv. apply H. apply in_or_app; auto.
Qed.
Lemma sc_names {A} (f : value -> A) cols : map sc_name (map (compile_col f) cols) = map c_name cols.
Proof. rewrite map_map. reflexivity. Qed.

Lemma run_one {A} (rd : A -> value) d s :
  exec_run rd d [s] = match exec_stmt rd d s with Some d' => (d', true) | None => (d, false) end.
Proof. reflexivity. Qed.

Lemma compile_op_ext {A B} (rdA : A -> value) (rdB : B -> value)
      (fA dA : value -> A) (eA : text -> A) (fB dB : value -> B) (eB : text -> B) o :
  (forall v, In v (op_values o) -> rdA (fA v) = rdB (fB v) /\ rdA (dA v) = rdB (dB v)) ->
  (forall w, In w (op_texts o) -> rdA (eA w) = rdB (eB w)) ->
  forall d, exec_run rdA d (compile_op fA dA eA o) = exec_run rdB d (compile_op fB dB eB o).
Proof.
  intros H HT d. destruct o; try reflexivity.
  - (* CreateTable *) cbn [compile_op]. rewrite !run_one.
    replace (exec_stmt rdA d (SCreateTable t (map (compile_col dA) cols) uniq))
       with (exec_stmt rdB d (SCreateTable t (map (compile_col dB) cols) uniq)); auto.
    unfold exec_stmt; simpl. rewrite !sc_names.
    rewrite (read_cols_ext rdA rdB dA dB cols) by (intros v Hv; apply H; auto).
    destruct cols; reflexivity.
  - (* AddColumn *) cbn [compile_op]. rewrite !run_one.
    replace (exec_stmt rdA d (SAddColumn t (compile_col dA c)))
       with (exec_stmt rdB d (SAddColumn t (compile_col dB c))); auto.
    unfold exec_stmt; simpl.
    rewrite (read_col_ext rdA rdB dA dB c) by (intros v Hv; apply H; auto). reflexivity.
  - (* BulkInsert *) simpl in *. revert d. induction rows as [|row rows IH]; intros d; simpl; auto.
    rewrite (exec_insert_ext rdA rdB fA fB d t row).
    2:{ intros v Hv. apply H. simpl. apply in_or_app; auto. }
    destruct (exec_stmt rdB d (SInsert t (map (option_map fB) row))); auto.
    apply IH. intros v Hv. apply H. simpl. apply in_or_app; auto.
  - (* Execute *) destruct r; cbn [compile_op compile_raw]; rewrite !run_one; simpl in *.
    + rewrite (exec_insert_ext rdA rdB eA eB d t cells); auto.
    + reflexivity.
    + replace (exec_stmt rdA d (SUpdateAll t c (eA w))) with (exec_stmt rdB d (SUpdateAll t c (eB w))); auto.
      unfold exec_stmt; simpl. rewrite (HT w (or_introl eq_refl)). reflexivity.
Qed.
Lemma body_ext {A B} (rdA : A -> value) (rdB : B -> value)
      (fA dA : value -> A) (eA : text -> A) (fB dB : value -> B) (eB : text -> B) b :
  (forall v, In v (flat_map op_values b) -> rdA (fA v) = rdB (fB v) /\ rdA (dA v) = rdB (dB v)) ->
  (forall w, In w (flat_map op_texts b) -> rdA (eA w) = rdB (eB w)) ->
  forall d, exec_run rdA d (flat_map (compile_op fA dA eA) b) = exec_run rdB d (flat_map (compile_op fB dB eB) b).
Proof.
  induction b as [|o b IH]; intros H HT d; simpl; auto.
  rewrite !run_app. rewrite (compile_op_ext rdA rdB fA dA eA fB dB eB o).
  2:{ intros v Hv. apply H. simpl. apply in_or_app; auto. }
  2:{ intros w Hw. apply HT. simpl. apply in_or_app; auto. }
  destruct (exec_run rdB d (compile_op fB dB eB o)) as [d1 [|]]; auto.
  apply IH. { intros v Hv. apply H. simpl. apply in_or_app; auto. } { intros w Hw. apply HT. simpl. apply in_or_app; auto. }
Qed.

(* ---- BEGIN / COMMIT: no effect on the contents; on a well-framed script they never fail *)
Definition nof {A} (s:stmt A) : bool := negb (is_frame s).
Lemma exec_run_filter {A} (rd : A -> value) l : forall d, exec_run rd d l = exec_run rd d (filter nof l).
Proof.
  induction l as [|s l IH]; intros d; simpl; auto. unfold nof at 1.
  destruct (is_frame s) eqn:F; simpl.
  - unfold exec_stmt. rewrite F. apply IH.
  - destruct (exec_stmt rd d s); auto.
Qed.
Lemma filter_nof_id {A} (l : list (stmt A)) : forallb nof l = true -> filter nof l = l.
Proof. induction l as [|s l IH]; simpl; auto. intros H. apply andb_true_iff in H as [H1 H2]. rewrite H1, IH; auto. Qed.
Lemma framed_app {A} (a b : list (stmt A)) : forall o,
  framed o (a ++ b) = match framed o a with Some o1 => framed o1 b | None => None end.
Proof. induction a as [|s a IH]; intros o; simpl; auto. destruct s; auto; destruct o; auto. Qed.
Lemma framed_nof {A} (l : list (stmt A)) : forallb nof l = true -> forall o, framed o l = Some o.
Proof.
  induction l as [|s l IH]; simpl; auto. intros H o. apply andb_true_iff in H as [H1 H2].
  destruct s; try discriminate; auto.
Qed.
Definition is_open (st:ostate) : bool := match o_snap st with Some _ => true | None => false end.
Lemma exec_tx_run {A} (rd : A -> value) l : forall st o', framed (is_open st) l = Some o' ->
  exec_run rd (o_cur st) l = (o_cur (fst (exec_tx rd st l)), snd (exec_tx rd st l)).
Proof.
  induction l as [|s l IH]; intros st o' F; [reflexivity|].
  destruct s; cbn [exec_tx exec_run framed] in *;
    try (destruct (exec_stmt rd (o_cur st) _) as [d'|] eqn:E; [apply (IH (mkO d' (o_snap st)) o'); exact F | reflexivity]).
  - (* BEGIN *) unfold is_open in F. destruct (o_snap st); [discriminate|].
    change (exec_stmt rd (o_cur st) SBegin) with (Some (o_cur st)). apply (IH (mkO (o_cur st) (Some (o_cur st))) o'). exact F.
  - (* COMMIT *) unfold is_open in F. destruct (o_snap st); [|discriminate].
    change (exec_stmt rd (o_cur st) SCommit) with (Some (o_cur st)). apply (IH (mkO (o_cur st) None) o'). exact F.
Qed.
Lemma compile_op_nof {A} (f g : value -> A) (e : text -> A) o : forallb nof (compile_op f g e o) = true.
Proof.
  destruct o; simpl; auto.
  - induction rows; simpl; auto.
  - destruct r; reflexivity.
Qed.
Lemma body_nof {A} (f g : value -> A) (e : text -> A) b : forallb nof (flat_map (compile_op f g e) b) = true.
Proof. induction b as [|o b IH]; simpl; auto. rewrite forallb_app, compile_op_nof, IH. reflexivity. Qed.
Lemma bk_nof {A} l : forallb (@nof A) (map vstmt_sql l) = true.
Proof. induction l as [|s l IH]; simpl; auto. rewrite IH. destruct s; reflexivity. Qed.
Lemma frame_excl c : frame_step c = true -> frame_outer c = false.
Proof. unfold frame_step, frame_outer. destruct (tddl_eff c), (g_tpm c); simpl; congruence. Qed.

(* ---- version-table bookkeeping *)
Lemma countN_notin r l : ~ In r l -> countN r l = 0%nat.
Proof.
  unfold countN. induction l as [|x l IH]; simpl; auto. intros H.
  destruct (N.eqb r x) eqn:E. { apply N.eqb_eq in E. subst. exfalso; auto. } apply IH; auto.
Qed.
Lemma countN_NoDup r l : NoDup l -> In r l -> countN r l = 1%nat.
Proof.
  unfold countN. induction 1 as [|x l Hx Hl IH]; simpl. { intros []. }
  intros [->|Hr].
  - rewrite N.eqb_refl. simpl. f_equal. apply (countN_notin r l Hx).
  - destruct (N.eqb r x) eqn:E. { apply N.eqb_eq in E. subst. contradiction. } auto.
Qed.
Lemma NoDup_removeN (r:N) (l:list N) : NoDup l -> NoDup (removeN r l).
Proof. apply NoDup_filter. Qed.
Lemma NoDup_app_one (l:list N) (r:N) : NoDup l -> ~ In r l -> NoDup (l ++ [r]).
Proof.
  induction 1 as [|x l Hx Hl IH]; simpl; intros Hr. { constructor; auto. constructor. }
  constructor.
  - rewrite in_app_iff. simpl. intros [?|[?|[]]]; auto.
  - apply IH. auto.
Qed.
Lemma NoDup_repl (a b : N) (l : list N) : ~ In b l -> NoDup l -> NoDup (map (repl a b) l).
Proof.
  intros Hb. induction 1 as [|x l Hx Hl IH]; simpl. { constructor. }
  constructor.
  - rewrite in_map_iff. intros [y [Ey Hy]]. unfold repl in Ey.
    destruct (N.eqb y a) eqn:Ya, (N.eqb x a) eqn:Xa.
    + apply N.eqb_eq in Ya, Xa. subst. auto.
    + subst x. apply Hb. left; auto.
    + subst y. apply Hb. right; auto.
    + subst y. auto.
  - apply IH. intros H; apply Hb; right; auto.
Qed.

Section Lit.
  Variable lit : value -> text.
  Variable parse_lit : text -> value.
  Variable untext : text -> text.
  Variable c : cfg.

  Lemma step_commit_cur st : o_cur (step_commit c st) = o_cur st.
  Proof. unfold step_commit. destruct (commit_per_step c); reflexivity. Qed.

  Lemma hm_apply_NoDup h s h' : NoDup h -> hm_apply h s = Some h' -> NoDup h'.
  Proof.
    intros ND. destruct s as [r|r|a b]; simpl.
    - destruct (memN r h) eqn:M; try discriminate. intros E; inversion E; subst.
      apply NoDup_app_one; auto. now apply memN_nIn.
    - destruct (memN r h); try discriminate. intros E; inversion E; subst. now apply NoDup_removeN.
    - destruct (memN b h) eqn:Mb; try discriminate. destruct (memN a h); try discriminate.
      intros E; inversion E; subst. apply NoDup_repl; auto. now apply memN_nIn.
  Qed.
  Lemma hm_list_NoDup l : forall h h', NoDup h -> hm_list h l = Some h' -> NoDup h'.
  Proof.
    induction l as [|s l IH]; simpl; intros h h' ND E. { inversion E; subst; auto. }
    destruct (hm_apply h s) as [h1|] eqn:E1; try discriminate.
    apply (IH h1 h'); auto. eapply hm_apply_NoDup; eauto.
  Qed.

  (* the online statement stream, seen without its transaction bookkeeping, is a plain run *)
  Lemma on_exec_run_cur l : forall st,
    exec_run (rd_on parse_lit) (o_cur st) l = (o_cur (fst (on_exec_run parse_lit st l)), snd (on_exec_run parse_lit st l)).
  Proof.
    induction l as [|s l IH]; intros st; simpl; auto.
    unfold on_exec. destruct (exec_stmt (rd_on parse_lit) (o_cur st) s) as [d'|]; simpl; auto.
    rewrite <- IH. reflexivity.
  Qed.

  (* one bookkeeping statement: what HeadMaintainer does to self.heads is what the statement does to the rows *)
  Lemma bk1_sim {A} (rd : A -> value) u h s h' :
    NoDup h -> hm_apply h s = Some h' ->
    exec_stmt rd (u, Some h) (vstmt_sql s) = Some (u, Some h') /\
    match s with VIns _ => True | VDel r => countN r h = 1%nat | VUpd a _ => countN a h = 1%nat end.
  Proof.
    intros ND. destruct s as [r|r|a b]; simpl; unfold exec_stmt; simpl.
    - destruct (memN r h) eqn:M; try discriminate. intros E; inversion E; subst. auto.
    - destruct (memN r h) eqn:M; try discriminate. intros E; inversion E; subst. split; auto.
      apply countN_NoDup; auto. now apply memN_In.
    - destruct (memN b h) eqn:Mb; try discriminate. destruct (memN a h) eqn:Ma; try discriminate.
      intros E; inversion E; subst. simpl. split; auto. apply countN_NoDup; auto. now apply memN_In.
  Qed.
  Lemma on_bk1_sim st h s h' :
    NoDup h -> snd (o_cur st) = Some h -> hm_apply h s = Some h' ->
    exists st', on_bk1 parse_lit st h s = Some (st', h') /\ o_cur st' = (fst (o_cur st), Some h').
  Proof.
    intros ND S E. unfold on_bk1, on_exec. rewrite E.
    destruct st as [[u v] sn]; simpl in *. subst v.
    destruct (bk1_sim (rd_on parse_lit) u h s h' ND E) as [-> C].
    unfold vers_rows; simpl.
    assert (RC : match s with VIns _ => true | VDel r => Nat.eqb (countN r h) 1 | VUpd a _ => Nat.eqb (countN a h) 1 end = true)
      by (destruct s; auto; rewrite C; reflexivity).
    rewrite RC. eexists. split; reflexivity.
  Qed.

  Lemma bk_sim l : forall st h, NoDup h -> snd (o_cur st) = Some h ->
    match hm_list h l with
    | None => snd (on_bk parse_lit st h l) = false
    | Some h' => exists st', on_bk parse_lit st h l = (st', h', true) /\ o_cur st' = (fst (o_cur st), Some h') /\
                 exec_run parse_lit (o_cur st) (map vstmt_sql l) = ((fst (o_cur st), Some h'), true)
    end.
  Proof.
    induction l as [|s l IH]; intros st h ND S; simpl.
    { assert (Ec : o_cur st = (fst (o_cur st), Some h)) by (destruct (o_cur st); simpl in *; congruence).
      exists st. split; [reflexivity|]. split; [exact Ec|]. now rewrite <- Ec. }
    destruct (hm_apply h s) as [h1|] eqn:E1.
    - destruct (on_bk1_sim st h s h1 ND S E1) as [st1 [B1 C1]]. rewrite B1.
      assert (ND1 : NoDup h1) by (eapply hm_apply_NoDup; eauto).
      assert (S1 : snd (o_cur st1) = Some h1) by (rewrite C1; reflexivity).
      specialize (IH st1 h1 ND1 S1).
      destruct st as [[u v] sn]; simpl in S; subst v. simpl in *.
      destruct (bk1_sim parse_lit u h s h1 ND E1) as [X _].
      destruct (hm_list h1 l) as [h'|]; auto.
      destruct IH as [st' [I1 [I2 I3]]]. rewrite C1 in I2, I3. simpl in I2, I3.
      exists st'. rewrite X. repeat split; auto.
    - unfold on_bk1. rewrite E1. reflexivity.
  Qed.

  (* ---- literals *)
  Definition lits_ok (vals : list value) (texts : list text) : Prop :=
    (forall v, In v vals -> parse_lit (lit v) = v /\ no_tab (lit v) = true) /\
    (forall w, In w texts -> no_tab (untext w) = true).

  Lemma body_sim b : lits_ok (flat_map op_values b) (flat_map op_texts b) ->
    forall d, exec_run parse_lit d (body_off lit untext b) = exec_run (rd_on parse_lit) d (body_on lit untext b).
  Proof.
    intros [H HT] d. unfold body_off, body_on, compile_off, compile_on. apply body_ext.
    - intros v Hv. destruct (H v Hv) as [R T]. unfold off_lit. simpl.
      rewrite (post_identity lit parse_lit v R T). auto.
    - intros w Hw. unfold off_text, post. simpl. now rewrite (replace_tab_id _ (HT w Hw)).
  Qed.
  Lemma body_on_snd b d d' ok : exec_run (rd_on parse_lit) d (body_on lit untext b) = (d', ok) -> snd d' = snd d.
  Proof. apply run_user_snd. apply body_user. Qed.

  (* ---- the step invariant: offline HeadMaintainer.heads = online version rows, user tables equal *)
  Definition off_pre (doff : db) (h : list N) : Prop :=
    (snd doff = Some h /\ h <> []) \/ (snd doff = None /\ h = []).

  Lemma pre_sim doff h : off_pre doff h ->
    exec_run parse_lit doff (match h with [] => [SVCreate] | _ => [] end) = ((fst doff, Some h), true).
  Proof.
    intros [[E NEh]|[E ->]].
    - destruct h as [|x h]; [now elim NEh|]. simpl. destruct doff as [u v]; simpl in *. now rewrite E.
    - simpl. unfold exec_stmt; simpl. rewrite E. reflexivity.
  Qed.

  Lemma mid_step st st2 r h h' : mid_nonempty h (st :: st2 :: r) = true -> hm_list h (s_bk st) = Some h' ->
    h' <> [] /\ mid_nonempty h' (st2 :: r) = true.
  Proof.
    cbn [mid_nonempty]. intros M E. rewrite E in M. destruct h'; try discriminate. split; auto. discriminate.
  Qed.

  (* how the offline replay (database reached, completed?) relates to the online run (state, heads, completed?) *)
  Definition sim_run (steps : list step) (doff : db) (hf : list N) (roff : db * bool) (ron : ostate * list N * bool) : Prop :=
    let '(p, ok1) := roff in
    let '(st, h2, ok2) := ron in
    ok1 = ok2 /\
    (ok1 = true -> fst p = fst (o_cur st) /\ h2 = hf /\ snd (o_cur st) = Some hf /\
                   snd p = match steps with [] => snd doff | _ => Some hf end) /\
    (ok1 = false -> p = o_cur st).                (* both stopped at the same statement *)

  Lemma steps_sim steps : forall h doff st,
    NoDup h -> off_pre doff h -> fst (o_cur st) = fst doff -> snd (o_cur st) = Some h ->
    mid_nonempty h steps = true -> lits_ok (steps_values steps) (steps_texts steps) ->
    match off_steps lit untext h steps with
    | None => snd (on_steps lit parse_lit untext c st h steps) = false
    | Some (s, hf) => sim_run steps doff hf (exec_run parse_lit doff s) (on_steps lit parse_lit untext c st h steps)
    end.
  Proof.
    induction steps as [|stp r IH]; intros h doff st ND P F S M L.
    { simpl. repeat split; auto; discriminate. }
    assert (Lb : lits_ok (flat_map op_values (s_body stp)) (flat_map op_texts (s_body stp))).
    { destruct L as [L1 L2]. split; [intros v Hv; apply L1|intros v Hv; apply L2];
        unfold steps_values, steps_texts; simpl; apply in_or_app; auto. }
    assert (Lr : lits_ok (steps_values r) (steps_texts r)).
    { destruct L as [L1 L2]. split; [intros v Hv; apply L1|intros v Hv; apply L2];
        unfold steps_values, steps_texts; simpl; apply in_or_app; auto. }
    cbn [off_steps on_steps].
    pose proof (pre_sim doff h P) as Hpre.
    assert (Ecur : o_cur st = (fst doff, Some h)) by (destruct (o_cur st); simpl in *; congruence).
    (* the body: the same run on both sides *)
    pose proof (on_exec_run_cur (body_on lit untext (s_body stp)) st) as Hb.
    rewrite <- (body_sim (s_body stp) Lb), Ecur in Hb.
    destruct (on_exec_run parse_lit st (body_on lit untext (s_body stp))) as [st1 ok1] eqn:Eon. simpl in Hb.
    assert (S1 : snd (o_cur st1) = Some h).
    { rewrite (body_sim (s_body stp) Lb) in Hb. now rewrite (body_on_snd _ _ _ _ Hb). }
    destruct (hm_list h (s_bk stp)) as [h'|] eqn:Ehm.
    2:{ (* the heads bookkeeping fails while the script is generated: online fails too *)
        destruct ok1; auto.
        pose proof (bk_sim (s_bk stp) st1 h ND S1) as B. rewrite Ehm in B.
        destruct (on_bk parse_lit st1 h (s_bk stp)) as [[st2 h2] [|]]; simpl in *; auto; discriminate. }
    assert (N' : NoDup h') by (eapply hm_list_NoDup; eauto).
    destruct ok1.
    2:{ (* the body fails: both stop there *)
        destruct (off_steps lit untext h' r) as [[s hf]|]; auto.
        unfold sim_run. rewrite (run_app_ok _ _ _ _ _ Hpre), (run_app_fail _ _ _ _ _ Hb).
        repeat split; auto; discriminate. }
    pose proof (bk_sim (s_bk stp) st1 h ND S1) as B. rewrite Ehm in B.
    destruct B as [st2 [B1 [B2 B3]]]. rewrite B1.
    destruct r as [|stp2 r2].
    - (* last step *)
      simpl. unfold sim_run.
      rewrite (run_app_ok _ _ _ _ _ Hpre), (run_app_ok _ _ _ _ _ Hb), (run_app_ok _ _ _ _ _ B3). simpl.
      rewrite !step_commit_cur, B2. simpl. repeat split; auto; discriminate.
    - destruct (mid_step _ _ _ _ _ M Ehm) as [Hne M'].
      assert (Pn : off_pre (fst (o_cur st1), Some h') h') by (left; split; auto).
      specialize (IH h' (fst (o_cur st1), Some h') (step_commit c st2) N' Pn).
      assert (F2 : fst (o_cur (step_commit c st2)) = fst (fst (o_cur st1), Some h')) by (rewrite step_commit_cur, B2; reflexivity).
      assert (S2 : snd (o_cur (step_commit c st2)) = Some h') by (rewrite step_commit_cur, B2; reflexivity).
      specialize (IH F2 S2 M' Lr).
      destruct (off_steps lit untext h' (stp2 :: r2)) as [[s hf]|]; auto.
      unfold sim_run in *.
      rewrite (run_app_ok _ _ _ _ _ Hpre), (run_app_ok _ _ _ _ _ Hb), (run_app_ok _ _ _ _ _ B3).
      destruct (exec_run parse_lit (fst (o_cur st1), Some h') s) as [p ok].
      destruct (on_steps lit parse_lit untext c (step_commit c st2) h' (stp2 :: r2)) as [[stf hf2] okf].
      destruct IH as [I1 [I2 I3]]. split; [exact I1|]. split; [|exact I3].
      intros Hok. destruct (I2 Hok) as [J1 [J2 [J3 J4]]]. repeat split; auto.
  Qed.

  Definition db_at (d : db) (start : list N) : Prop :=
    NoDup start /\ snd d = match start with [] => None | _ => Some start end.

  Lemma online_start d start : db_at d start ->
    (match vers_rows d with [] => ensure_version_table d | _ => d end) = (fst d, Some start) /\ vers_rows d = start.
  Proof.
    intros [_ S]. unfold vers_rows, ensure_version_table. rewrite S. destruct start; simpl; auto. split; auto.
    destruct d; simpl in *; congruence.
  Qed.

  Definition class_hyps (d:db) (start : list N) (steps : list step) : Prop :=
    db_at d start /\ mid_nonempty start steps = true /\ (start = [] -> steps <> []) /\
    lits_ok (steps_values steps) (steps_texts steps).

  Definition script_tail (hf : list N) : list sqlstmt := match hf with [] => [SVDrop] | _ => [] end.

  (* the whole command: script generation, replay, online run *)
  Lemma whole_sim d start steps : class_hyps d start steps ->
    match off_steps lit untext start steps with
    | None => snd (run_online_tx lit parse_lit untext c d steps) = false
    | Some (s, hf) =>
        let '(p, ok1) := exec_run parse_lit d (s ++ script_tail hf) in
        let '(st, _, ok2) := run_online_tx lit parse_lit untext c d steps in
        ok1 = ok2 /\ (ok1 = true -> observable p = observable (o_cur st)) /\ (ok1 = false -> p = o_cur st)
    end.
  Proof.
    intros [DA [M [NE L]]]. destruct (online_start d start DA) as [D1 D2]. destruct DA as [ND S].
    assert (P : off_pre d start). { destruct start; [right|left]; split; auto. discriminate. }
    unfold run_online_tx. rewrite D1, D2.
    destruct steps as [|stp r].
    { (* empty plan: start is not base, nothing is emitted, nothing is run *)
      destruct start as [|x start]; [exfalso; now apply NE|].
      simpl. repeat split; auto; try discriminate. intros _. unfold observable. simpl. now rewrite S. }
    pose proof (steps_sim (stp :: r) start d (mkO (fst d, Some start) None) ND P eq_refl eq_refl M L) as SS.
    destruct (off_steps lit untext start (stp :: r)) as [[s hf]|]; auto.
    unfold sim_run in SS. unfold sqlstmt in *. rewrite (run_app parse_lit s (script_tail hf) d).
    destruct (exec_run parse_lit d s) as [p ok].
    destruct (on_steps lit parse_lit untext c (mkO (fst d, Some start) None) start (stp :: r)) as [[st h2] ok2].
    destruct SS as [-> [I2 I3]]. destruct ok2.
    - destruct (I2 eq_refl) as [F [-> [S2 S1]]].
      destruct hf as [|x hf]; simpl.
      + (* the run ends at base: offline drops the version table, online leaves it empty *)
        unfold exec_stmt; simpl. rewrite S1. simpl. repeat split; auto; try discriminate.
        intros _. unfold observable; simpl. now rewrite F, S2.
      + repeat split; auto; try discriminate. intros _. unfold observable. now rewrite F, S2, S1.
    - repeat split; auto; discriminate.
  Qed.

  (* ---- the framed script: the same statements as the core script plus well-nested BEGIN / COMMIT *)
  Lemma chunk_framed (fs fo : bool) (X s : list sqlstmt) : (fs = true -> fo = false) -> forallb nof X = true ->
    framed fo s = Some fo ->
    framed fo (fr_begin fs ++ X ++ fr_commit fs ++ s) = Some fo /\
    filter nof (fr_begin fs ++ X ++ fr_commit fs ++ s) = X ++ filter nof s.
  Proof.
    intros EX HX HS. unfold fr_begin, fr_commit, sqlstmt in *. split.
    - destruct fs.
      + rewrite (EX eq_refl) in *. cbn [app framed].
        rewrite (framed_app X (SCommit :: s) true), (framed_nof X HX). cbn [framed]. exact HS.
      + cbn [app]. rewrite (framed_app X s fo), (framed_nof X HX). exact HS.
    - destruct fs; cbn [app filter nof is_frame negb]; rewrite filter_app, (filter_nof_id X HX); reflexivity.
  Qed.
  Lemma body_off_nof b : forallb nof (body_off lit untext b) = true.
  Proof.
    unfold body_off. induction b as [|o b IH]; cbn [flat_map]; auto.
    rewrite forallb_app. apply andb_true_iff. split; [unfold compile_off; apply compile_op_nof | exact IH].
  Qed.
  Lemma off_steps_f_core steps : forall h,
    match off_steps_f lit untext c h steps, off_steps lit untext h steps with
    | Some (sf, hf), Some (s, hf') => hf = hf' /\ filter nof sf = s /\ framed (frame_outer c) sf = Some (frame_outer c)
    | None, None => True
    | _, _ => False
    end.
  Proof.
    induction steps as [|st r IH]; intros h; simpl. { auto. }
    destruct (hm_list h (s_bk st)) as [h'|]; auto. specialize (IH h').
    destruct (off_steps_f lit untext c h' r) as [[sf hf]|], (off_steps lit untext h' r) as [[s hf']|]; auto.
    destruct IH as [-> [IF IW]].
    set (X := match h with [] => [SVCreate] | _ :: _ => [] end ++ body_off lit untext (s_body st) ++ map vstmt_sql (s_bk st)).
    assert (HX : forallb nof X = true).
    { unfold X. rewrite forallb_app. apply andb_true_iff. split; [destruct h; reflexivity|].
      rewrite forallb_app. apply andb_true_iff. split; [apply body_off_nof | apply bk_nof]. }
    destruct (chunk_framed (frame_step c) (frame_outer c) X sf (frame_excl c) HX IW) as [C1 C2].
    unfold X in C1, C2. rewrite <- !app_assoc in C1, C2. unfold sqlstmt in *. split; auto. split; auto.
    rewrite C2, IF. now rewrite <- !app_assoc.
  Qed.
  Lemma run_offline_f_core start steps :
    match run_offline_f lit untext c start steps, run_offline lit untext start steps with
    | Some sf, Some s => filter nof sf = s /\ framed false sf = Some false
    | None, None => True
    | _, _ => False
    end.
  Proof.
    unfold run_offline_f, run_offline. pose proof (off_steps_f_core steps start) as H.
    destruct (off_steps_f lit untext c start steps) as [[sf hf]|], (off_steps lit untext start steps) as [[s hf']|]; auto.
    destruct H as [-> [HF HW]].
    unfold fr_begin, fr_commit, sqlstmt in *.
    split.
    - rewrite !filter_app, HF.
      destruct (frame_outer c), (frame_step c), hf'; cbn [filter nof is_frame negb app]; rewrite ?app_nil_r; reflexivity.
    - destruct (frame_outer c) eqn:FO, (frame_step c) eqn:FS.
      + rewrite (frame_excl c FS) in FO. discriminate.
      + cbn [app framed]. rewrite framed_app, HW. destruct hf'; reflexivity.
      + cbn [app framed]. rewrite framed_app, HW. destruct hf'; reflexivity.
      + cbn [app framed]. rewrite framed_app, HW. destruct hf'; reflexivity.
  Qed.
  (* replaying the framed script on an autocommit connection reaches the contents, and stops where, the plain run of the
     core script does *)
  Lemma replay_tx_core d start steps sf s :
    run_offline_f lit untext c start steps = Some sf -> run_offline lit untext start steps = Some s ->
    exec_run parse_lit d s = (o_cur (fst (replay_tx parse_lit d sf)), snd (replay_tx parse_lit d sf)).
  Proof.
    intros E1 E2. pose proof (run_offline_f_core start steps) as H. rewrite E1, E2 in H. destruct H as [HF HW].
    rewrite <- HF, <- exec_run_filter. unfold replay_tx. apply (exec_tx_run parse_lit sf (mkO d None) false). exact HW.
  Qed.

  (* both runs complete with the same observable, or both are stopped by an error *)
  Theorem outcome_sim d start steps : class_hyps d start steps ->
    match offline_outcome lit parse_lit untext c d start steps, online_outcome lit parse_lit untext c d steps with
    | Done a, Done b => observable a = observable b
    | Aborted _, Aborted _ => True
    | _, _ => False
    end.
  Proof.
    intros H. pose proof (whole_sim d start steps H) as W.
    pose proof (run_offline_f_core start steps) as FC.
    unfold offline_outcome, online_outcome.
    destruct (run_offline_f lit untext c start steps) as [sf|] eqn:E1, (run_offline lit untext start steps) as [s|] eqn:E2;
      try contradiction.
    - pose proof (replay_tx_core d start steps sf s E1 E2) as R.
      unfold run_offline in E2. destruct (off_steps lit untext start steps) as [[s0 hf]|]; try discriminate.
      inversion E2; subst s; clear E2. fold (script_tail hf) in R. rewrite R in W.
      destruct (replay_tx parse_lit d sf) as [stf okf]. simpl in W.
      destruct (run_online_tx lit parse_lit untext c d steps) as [[st h2] ok2].
      destruct W as [-> [W1 W2]]. destruct ok2; auto.
    - unfold run_offline in E2. destruct (off_steps lit untext start steps) as [[s0 hf]|]; try discriminate.
      destruct (run_online_tx lit parse_lit untext c d steps) as [[st h2] ok2]. simpl in W. subst ok2. exact I.
  Qed.

  (* when the replay of the generated script is stopped by a failing statement, the online run is stopped too, having
     executed exactly the same statements: its contents before the rollback ARE the contents the replay had reached;
     what each side leaves behind is rolled_back of its own transaction state *)
  Theorem abort_same_statement d start steps script : class_hyps d start steps ->
    run_offline_f lit untext c start steps = Some script ->
    let '(sto, ok1) := replay_tx parse_lit d script in
    let '(st, _, ok2) := run_online_tx lit parse_lit untext c d steps in
    ok1 = ok2 /\ (ok1 = false -> o_cur sto = o_cur st /\
                               offline_outcome lit parse_lit untext c d start steps = Aborted (rolled_back sto) /\
                               online_outcome lit parse_lit untext c d steps = Aborted (rolled_back st)).
  Proof.
    intros H E1. pose proof (whole_sim d start steps H) as W.
    pose proof (run_offline_f_core start steps) as FC. rewrite E1 in FC.
    destruct (run_offline lit untext start steps) as [s|] eqn:E2; try contradiction.
    pose proof (replay_tx_core d start steps script s E1 E2) as R.
    unfold offline_outcome, online_outcome. rewrite E1.
    unfold run_offline in E2. destruct (off_steps lit untext start steps) as [[s0 hf]|]; try discriminate.
    inversion E2; subst s; clear E2. fold (script_tail hf) in R. rewrite R in W.
    destruct (replay_tx parse_lit d script) as [sto okf]. simpl in W.
    destruct (run_online_tx lit parse_lit untext c d steps) as [[st h2] ok2].
    destruct W as [-> [W1 W2]]. split; auto. intros ->. repeat split; auto.
  Qed.

  Theorem same_effect d start steps :
    db_at d start -> mid_nonempty start steps = true -> (start = [] -> steps <> []) ->
    (forall v, In v (steps_values steps) -> parse_lit (lit v) = v) ->
    (forall v, In v (steps_values steps) -> no_tab (lit v) = true) ->
    (forall w, In w (steps_texts steps) -> no_tab (untext w) = true) ->
    option_map observable (offline_effect_f lit parse_lit untext c d start steps) = option_map observable (run_online lit parse_lit untext c d steps).
  Proof.
    intros DA M NE R T TT.
    assert (H : class_hyps d start steps).
    { split; [exact DA|]. split; [exact M|]. split; [exact NE|]. split; [intros v Hv; split; auto|auto]. }
    pose proof (outcome_sim d start steps H) as O.
    unfold offline_effect_f, run_online.
    destruct (offline_outcome lit parse_lit untext c d start steps), (online_outcome lit parse_lit untext c d steps);
      simpl; try contradiction; auto. now rewrite O.
  Qed.
  (* the same for the core script without framing (the statement stream the text-level theorem is about) *)
  Lemma same_effect_core d start steps : class_hyps d start steps ->
    option_map observable (offline_effect lit parse_lit untext d start steps) = option_map observable (run_online lit parse_lit untext c d steps).
  Proof.
    intros H. pose proof (whole_sim d start steps H) as W.
    unfold offline_effect, replay, exec_list, run_online, online_outcome, run_offline.
    destruct (off_steps lit untext start steps) as [[s hf]|].
    - fold (script_tail hf).
      destruct (exec_run parse_lit d (s ++ script_tail hf)) as [p ok].
      destruct (run_online_tx lit parse_lit untext c d steps) as [[st h2] ok2].
      destruct W as [-> [W1 W2]]. destruct ok2; simpl; auto. now rewrite W1.
    - destruct (run_online_tx lit parse_lit untext c d steps) as [[st h2] ok2]. simpl in W. subst ok2. reflexivity.
  Qed.

  (* ---- offline heads = online rows, for every plan and independent of the literals *)
  Theorem heads_invariant steps : forall st h s hf st2 h2,
    snd (o_cur st) = Some h -> NoDup h ->
    off_steps lit untext h steps = Some (s, hf) -> on_steps lit parse_lit untext c st h steps = (st2, h2, true) ->
    h2 = hf /\ snd (o_cur st2) = Some hf /\ NoDup hf.
  Proof.
    induction steps as [|stp r IH]; intros st h s hf st2 h2 S ND Eoff Eon.
    { simpl in *. inversion Eoff; inversion Eon; subst. auto. }
    cbn [off_steps on_steps] in *.
    destruct (hm_list h (s_bk stp)) as [h'|] eqn:Ehm; try discriminate.
    destruct (off_steps lit untext h' r) as [[s' hf']|] eqn:Er; try discriminate. inversion Eoff; subst hf'. clear Eoff.
    pose proof (on_exec_run_cur (body_on lit untext (s_body stp)) st) as Hb.
    destruct (on_exec_run parse_lit st (body_on lit untext (s_body stp))) as [st1 [|]]; try discriminate. simpl in Hb.
    pose proof (body_on_snd _ _ _ _ Hb) as S1. rewrite S in S1.
    pose proof (bk_sim (s_bk stp) st1 h ND S1) as B. rewrite Ehm in B. destruct B as [st2' [B1 [B2 _]]].
    rewrite B1 in Eon.
    apply (IH (step_commit c st2') h' s' hf st2 h2); auto.
    - rewrite step_commit_cur, B2. reflexivity.
    - eapply hm_list_NoDup; eauto.
  Qed.
End Lit.

(* ================================================================ D. the offline script as text *)
Lemma lstrip_ws w x : forallb is_ws w = true -> lstrip (w ++ x) = lstrip x.
Proof. induction w as [|c w IH]; simpl; auto. intros H. apply andb_true_iff in H as [H1 H2]. rewrite H1. auto. Qed.
Lemma forallb_rev {A} (f : A -> bool) l : forallb f (rev l) = forallb f l.
Proof. induction l as [|x l IH]; simpl; auto. rewrite forallb_app, IH. simpl. rewrite andb_true_r. apply andb_comm. Qed.
Lemma rstrip_ws x w : forallb is_ws w = true -> rstrip (x ++ w) = rstrip x.
Proof. intros H. unfold rstrip. rewrite rev_app_distr, lstrip_ws; auto. now rewrite forallb_rev. Qed.
Lemma replace_tab_ws w : forallb is_ws w = true -> forallb is_ws (replace_tab w) = true.
Proof.
  induction w as [|c w IH]; simpl; auto. intros H. apply andb_true_iff in H as [H1 H2].
  destruct (N.eqb c 9); simpl; rewrite ?H1, IH; auto.
Qed.
Lemma replace_tab_nil s : replace_tab s = [] -> s = [].
Proof. destruct s as [|c s]; simpl; auto. destruct (N.eqb c 9); discriminate. Qed.
Lemma hd_last_split s : hd_last_ok s = true ->
  exists a m, s = a :: m /\ is_ws a = false /\ (m = [] \/ exists m' b, m = m' ++ [b] /\ is_ws b = false).
Proof.
  destruct s as [|a r]; [discriminate|]. unfold hd_last_ok. intros H.
  apply andb_true_iff in H as [H1 H2]. apply negb_true_iff in H1, H2.
  exists a, r. split; auto. split; auto.
  destruct r as [|x r']. { now left. }
  right. destruct (@exists_last _ (x :: r')) as [m' [b E]]; [discriminate|]. exists m', b. split; auto.
  rewrite E in H2. change (a :: m' ++ [b]) with ((a :: m') ++ [b]) in H2. now rewrite last_last in H2.
Qed.
Lemma not_ws_not_tab a : is_ws a = false -> N.eqb a 9 = false.
Proof. intros H. destruct (N.eqb a 9) eqn:E; auto. apply N.eqb_eq in E; subst a. discriminate H. Qed.
Lemma hd_last_replace s : hd_last_ok s = true -> hd_last_ok (replace_tab s) = true.
Proof.
  intros H. destruct (hd_last_split s H) as [a [m [-> [Ha Hm]]]].
  cbn [replace_tab]. rewrite (not_ws_not_tab a Ha). unfold hd_last_ok. rewrite Ha. simpl negb at 1. cbn [andb].
  destruct Hm as [->|[m' [b [-> Hb]]]].
  - simpl. now rewrite Ha.
  - rewrite replace_tab_app. cbn [replace_tab]. rewrite (not_ws_not_tab b Hb).
    change (a :: replace_tab m' ++ [b]) with ((a :: replace_tab m') ++ [b]). rewrite last_last. now rewrite Hb.
Qed.
Lemma strip_hd_last c t : hd_last_ok c = true -> forallb is_ws t = true -> strip (c ++ t) = c.
Proof.
  intros H T. destruct (hd_last_split c H) as [a [m [-> [Ha Hm]]]].
  unfold strip. cbn [app lstrip]. rewrite Ha.
  change (a :: m ++ t) with ((a :: m) ++ t). rewrite rstrip_ws by auto.
  destruct Hm as [->|[m' [b [-> Hb]]]].
  - unfold rstrip. simpl. now rewrite Ha.
  - change (a :: m' ++ [b]) with ((a :: m') ++ [b]). now apply rstrip_last.
Qed.
Lemma flat_post core : flat (map post_tok core) = replace_tab (flat core).
Proof.
  unfold flat. induction core as [|t core IH]; simpl; auto. rewrite replace_tab_app, IH.
  destruct t; reflexivity.
Qed.
(* DefaultImpl._exec on a whole statement text: the blanks around it go, every token gets its tabs replaced, the
   terminator is appended; nothing else *)
Theorem exec_post_stext term x : stext_wf x = true ->
  exec_post term (stext_text x) = flat (map post_tok (st_core x)) ++ term.
Proof.
  unfold stext_wf, stext_text, exec_post. intros H.
  apply andb_true_iff in H as [H _]. apply andb_true_iff in H as [H HC]. apply andb_true_iff in H as [HL HT].
  rewrite !replace_tab_app, flat_post. f_equal. unfold strip at 1.
  rewrite lstrip_ws by (now apply replace_tab_ws).
  fold (strip (replace_tab (flat (st_core x)) ++ replace_tab (st_trail x))).
  apply strip_hd_last. { now apply hd_last_replace. } now apply replace_tab_ws.
Qed.

(* reading a statement text token-wise: runs of blanks are interchangeable (a non-empty run stays non-empty), a literal
   token that still starts and ends with non-blank characters (its delimiters) is read as that literal *)
Inductive tok_sim (g : text -> text) : tok -> tok -> Prop :=
| sim_word s : tok_sim g (TWord s) (TWord s)
| sim_space s s' : forallb is_ws s' = true -> (s' = [] -> s = []) -> tok_sim g (TSpace s) (TSpace s')
| sim_lit s : hd_last_ok (g s) = true -> tok_sim g (TLit s) (TLit (g s)).

Lemma post_tok_sim core : forallb tok_ok core = true -> Forall2 (tok_sim post) core (map post_tok core).
Proof.
  induction core as [|t core IH]; simpl; intros H; constructor.
  - apply andb_true_iff in H as [H _]. destruct t; simpl in *.
    + rewrite (replace_tab_id _ H). constructor.
    + constructor. { now apply replace_tab_ws. } apply replace_tab_nil.
    + constructor. now apply hd_last_replace.
  - apply IH. now apply andb_true_iff in H as [_ H].
Qed.

Lemma map_stmt_vstmt {A B} (f : A -> B) s : map_stmt f (vstmt_sql s) = vstmt_sql s.
Proof. destruct s; reflexivity. Qed.

Section Text.
  Variable lit : value -> text.
  Variable parse_lit : text -> value.
  Variable untext : text -> text.
  (* SQLAlchemy's compiler (with the token structure of its output) and SQLite's reading of one chunk of the script *)
  Variable render : sqlstmt -> stext.
  Variable sqlite : text -> option sqlstmt.
  Variable term : text.
  Variable supported : sqlstmt -> bool.         (* the constructs the two hypotheses are assumed for *)
  Variable cf : cfg.
  Hypothesis render_wf : forall s, supported s = true -> stext_wf (render s) = true.
  Hypothesis sqlite_reads : forall s g core', supported s = true ->
    Forall2 (tok_sim g) (st_core (render s)) core' -> sqlite (flat core' ++ term) = Some (map_stmt g s).

  (* what SQLite reads from the text _exec wrote: the construct with post applied to its literals *)
  Theorem text_read s : supported s = true -> sqlite (exec_text render term s) = Some (map_stmt post s).
  Proof.
    intros S. unfold exec_text. rewrite (exec_post_stext term (render s) (render_wf s S)).
    apply sqlite_reads; auto. apply post_tok_sim.
    pose proof (render_wf s S) as W. unfold stext_wf in W. now apply andb_true_iff in W as [_ W].
  Qed.
  Lemma replay_text_sim l : forallb supported l = true -> forall d,
    replay_text_run parse_lit sqlite d (map (exec_text render term) l) = exec_run parse_lit d (map (map_stmt post) l).
  Proof.
    induction l as [|s l IH]; simpl; intros H d; auto. apply andb_true_iff in H as [H1 H2].
    rewrite (text_read s H1). destruct (exec_stmt parse_lit d (map_stmt post s)); auto.
  Qed.

  Lemma compile_post o : map (map_stmt post) (compile_plain lit untext o) = compile_off lit untext o.
  Proof.
    unfold compile_plain, compile_off. destruct o; simpl; auto.
    - f_equal. f_equal. rewrite map_map. apply map_ext. intros [n ty [v|] q]; reflexivity.
    - f_equal. destruct c as [n ty [v|] q]; reflexivity.
    - rewrite map_map. apply map_ext. intros row. simpl. f_equal. rewrite map_map. apply map_ext. intros [v|]; reflexivity.
    - destruct r; simpl; auto. f_equal. f_equal. rewrite map_map. apply map_ext. intros [v|]; reflexivity.
  Qed.
  Lemma body_post b : map (map_stmt post) (body_plain lit untext b) = body_off lit untext b.
  Proof.
    unfold body_plain, body_off. induction b as [|o b IH]; cbn [flat_map map]; auto. rewrite map_app, compile_post. f_equal. exact IH.
  Qed.
  Lemma off_steps_post steps : forall h,
    off_steps lit untext h steps =
    match off_steps_plain lit untext h steps with Some (s, hf) => Some (map (map_stmt post) s, hf) | None => None end.
  Proof.
    induction steps as [|st r IH]; intros h; simpl; auto.
    destruct (hm_list h (s_bk st)) as [h'|]; auto. rewrite IH.
    destruct (off_steps_plain lit untext h' r) as [[s hf]|]; auto.
    f_equal. f_equal. rewrite !map_app, body_post. f_equal; [destruct h; reflexivity|]. f_equal. f_equal.
    rewrite map_map. apply map_ext. intros x. symmetry. apply map_stmt_vstmt.
  Qed.
  Lemma run_offline_post start steps :
    run_offline lit untext start steps =
    match run_offline_plain lit untext start steps with Some l => Some (map (map_stmt post) l) | None => None end.
  Proof.
    unfold run_offline, run_offline_plain. rewrite off_steps_post.
    destruct (off_steps_plain lit untext start steps) as [[s hf]|]; auto.
    f_equal. rewrite map_app. f_equal. destruct hf; reflexivity.
  Qed.

  (* executing the TEXT of the offline script = executing the abstract offline statement stream *)
  Theorem text_effect d start steps :
    (forall l, run_offline_plain lit untext start steps = Some l -> forallb supported l = true) ->
    offline_text_effect lit parse_lit untext render sqlite term d start steps = offline_effect lit parse_lit untext d start steps.
  Proof.
    intros HS. unfold offline_text_effect, offline_text, offline_effect, replay, exec_list. rewrite run_offline_post.
    destruct (run_offline_plain lit untext start steps) as [l|] eqn:E; auto.
    rewrite (replay_text_sim l (HS l eq_refl)). reflexivity.
  Qed.

  Theorem same_effect_text d start steps :
    db_at d start -> mid_nonempty start steps = true -> (start = [] -> steps <> []) ->
    (forall v, In v (steps_values steps) -> parse_lit (lit v) = v) ->
    (forall v, In v (steps_values steps) -> no_tab (lit v) = true) ->
    (forall w, In w (steps_texts steps) -> no_tab (untext w) = true) ->
    (forall l, run_offline_plain lit untext start steps = Some l -> forallb supported l = true) ->
    option_map observable (offline_text_effect lit parse_lit untext render sqlite term d start steps)
    = option_map observable (run_online lit parse_lit untext cf d steps).
  Proof.
    intros DA M NE R T TT HS. rewrite text_effect by auto. apply same_effect_core.
    split; [exact DA|]. split; [exact M|]. split; [exact NE|]. split; [intros v Hv; split; auto|auto].
  Qed.
End Text.

(* ================================================================ E. the concrete literal syntax *)
Lemma text_uint_uint_text u : text_uint (uint_text u) = Some u.
Proof. induction u; cbn [uint_text text_uint]; try rewrite IHu; reflexivity. Qed.
Lemma undq_dq s : undq (dq s ++ [39]) = s.
Proof.
  induction s as [|c s IH]; [reflexivity|]. cbn [dq].
  destruct (N.eqb c 39) eqn:E.
  - apply N.eqb_eq in E; subst c. cbn. f_equal. apply IH.
  - cbn [app undq]. rewrite E. f_equal. apply IH.
Qed.
Lemma to_int_nonnil z u : Z.to_int z = Decimal.Pos u \/ Z.to_int z = Decimal.Neg u -> u <> Decimal.Nil.
Proof.
  destruct z; simpl; intros [E|E]; inversion E; subst; try discriminate; apply DecimalPos.Unsigned.to_uint_nonnil.
Qed.
Lemma parse_digits u : u <> Decimal.Nil -> parse_c (uint_text u) = VInt (Z.of_int (Decimal.Pos u)).
Proof.
  intros H. destruct u; [contradiction|..]; cbn [uint_text]; unfold parse_c;
    match goal with H : ?x <> Decimal.Nil |- _ => pose proof (text_uint_uint_text x) as T; cbn [uint_text] in T; rewrite T end;
    reflexivity.
Qed.
Lemma parse_neg_digits u : u <> Decimal.Nil -> parse_c (45 :: uint_text u) = VInt (Z.of_int (Decimal.Neg u)).
Proof.
  intros H. destruct u; [contradiction|..]; cbn [uint_text]; unfold parse_c;
    match goal with H : ?x <> Decimal.Nil |- _ => pose proof (text_uint_uint_text x) as T; cbn [uint_text] in T; rewrite T end;
    reflexivity.
Qed.
(* NULL, every integer and every string round-trip; a numeric token does iff it is read as a numeric token *)
Theorem lit_c_roundtrip v : (forall s, v = VNum s -> parse_c s = VNum s) -> parse_c (lit_c v) = v.
Proof.
  destruct v as [|z|s|s]; intros H.
  - reflexivity.
  - unfold lit_c. destruct (Z.to_int z) as [u|u] eqn:E.
    + rewrite parse_digits by (eapply to_int_nonnil; eauto). rewrite <- E. now rewrite DecimalZ.of_to.
    + rewrite parse_neg_digits by (eapply to_int_nonnil; eauto). rewrite <- E. now rewrite DecimalZ.of_to.
  - cbn [lit_c parse_c]. now rewrite undq_dq.
  - apply H. reflexivity.
Qed.

(* ================================================================ F. the concrete instance: C12_holds i (model_C12 i) on the class *)
Lemma db_atb_sound d start : db_atb d start = true -> nodupb start = true -> db_at d start.
Proof.
  unfold db_atb, db_at. intros D ND. split. { now apply nodupb_NoDup. }
  destruct start as [|x start], (snd d) as [l|]; try discriminate; auto.
  apply text_eqb_sound in D. congruence.
Qed.
Lemma inclass_hyps i : inclass_C12 i = true -> class_hyps lit_c parse_c untext_c (i_db i) (i_start i) (i_steps i).
Proof.
  unfold inclass_C12, start_okb. intros H.
  apply andb_true_iff in H as [H _]. apply andb_true_iff in H as [H H3]. apply andb_true_iff in H as [T R].
  apply andb_true_iff in H3 as [H3 NE]. apply andb_true_iff in H3 as [H3 M]. apply andb_true_iff in H3 as [D ND].
  unfold no_tab_in_literalsb in T. apply andb_true_iff in T as [T1 T2].
  unfold lits_roundtripb in R. rewrite forallb_forall in R, T1, T2.
  split; [now apply db_atb_sound|]. split; auto. split.
  - intros E. rewrite E in NE. destruct (i_steps i); discriminate.
  - split; [intros v Hv; split; [apply value_eqb_sound|]; auto|auto].
Qed.
Theorem main_concrete i : inclass_C12 i = true -> C12_holds i (model_C12 i).
Proof.
  intros H. pose proof (outcome_sim lit_c parse_c untext_c (i_cfg i) _ _ _ (inclass_hyps i H)) as O.
  assert (RS : resolvesb i = true) by (unfold inclass_C12 in H; now apply andb_true_iff in H as [_ H]).
  unfold C12_holds, model_C12; cbn [o_on o_off]. rewrite RS.
  destruct (offline_outcome lit_c parse_c untext_c (i_cfg i) (i_db i) (i_start i) (i_steps i)),
           (online_outcome lit_c parse_c untext_c (i_cfg i) (i_db i) (i_steps i)); simpl; try contradiction; auto.
Qed.

(* ================================================================ G. witnesses *)
(* create_table + bulk_insert of 'tab<TAB>here' from base *)
Definition wit_tab : c12_in :=
  mkIn (mkU [] [], None) SpBase [] [mkStep [CreateTable 0 [mkCol 0 2 None false] []; BulkInsert 0 [[Some (VText [116; 97; 98; 9; 104; 101; 114; 101])]]] [VIns 0]] [] (mkCfg None false).
(* `upgrade base:base --sql`: nothing to do, yet the script drops the version table *)
Definition wit_empty_plan : c12_in := mkIn (mkU [] [], None) SpBase [] [] [] (mkCfg None false).
(* a database at base whose (empty) version table is still there *)
Definition wit_empty_vt : c12_in :=
  mkIn (mkU [] [], Some []) SpBase [] [mkStep [CreateTable 0 [mkCol 0 0 None false] []; BulkInsert 0 [[Some (VInt 1)]]] [VIns 0]] [] (mkCfg None false).
(* a branched plan inside the class: r0 <- r1, r0 <- r2 applied from r0; defaults, NOT NULL, a primary key, a unique index,
   omitted / None cells, a backslash-colon escape *)
Definition wit_ok : c12_in :=
  mkIn (mkU [mkTable 0 [mkCol 0 1 None true; mkCol 1 0 (Some (VInt 3)) false] [[0]] [[VText [105; 116; 39; 115]; VNull]]] [], Some [0])
       (SpKey [109; 97; 105; 110]) [mkR 0 [97; 49; 98; 50; 99; 51] [[109; 97; 105; 110]] false; mkR 1 [97; 49; 98; 57; 100; 52] [] true; mkR 2 [98; 55; 99; 56; 100; 57] [] true]
       [mkStep [AddColumn 0 (mkCol 2 4 (Some (VNum [49; 46; 53])) true);
                BulkInsert 0 [[Some (VText [39; 39]); Some VNull; None]; [Some (VText [107]); None; Some (VNum [50; 46; 53])]]; CreateIndex 0 0 [2; 0] true] [VUpd 0 1];
        mkStep [CreateTable 1 [mkCol 3 2 (Some (VText [100])) false] [];
                Execute (RInsert 1 [Some [39; 49; 50; 92; 58; 51; 48; 39]]); Execute (RInsert 1 [None]);
                Execute (RUpdateAll 0 1 [55])] [VIns 2]] [32; 9; 120; 32] (mkCfg (Some true) true).
(* the same plan, but the second bulk row repeats the primary key of the first: both runs stop there *)
Definition wit_abort : c12_in :=
  mkIn (mkU [mkTable 0 [mkCol 0 1 None true; mkCol 1 0 None false] [[0]] []] [], Some [0])
       (SpPrefix [97; 49; 98; 50]) [mkR 0 [97; 49; 98; 50; 99; 51] [] false; mkR 1 [97; 49; 98; 57; 100; 52] [] true]
       [mkStep [CreateTable 1 [mkCol 2 0 None false] [];
                BulkInsert 0 [[Some (VText [97]); Some (VInt 1)]; [Some (VText [98]); None]; [Some (VText [97]); Some (VInt 2)]]] [VUpd 0 1]] [] (mkCfg None false).

Lemma refuted_tab : exists i, lits_roundtripb (i_steps i) = true /\ start_okb i = true /\ ~ C12_holds i (model_C12 i).
Proof. exists wit_tab. split; [vm_compute; reflexivity|]. split; [vm_compute; reflexivity|]. vm_compute. discriminate. Qed.
Lemma refuted_empty_plan : exists i, no_tab_in_literalsb (i_steps i) = true /\ lits_roundtripb (i_steps i) = true /\
  db_atb (i_db i) (i_start i) = true /\ i_start i = [] /\ i_steps i = [] /\ ~ C12_holds i (model_C12 i).
Proof. exists wit_empty_plan. repeat (split; [vm_compute; reflexivity|]). vm_compute. auto. Qed.
Lemma refuted_empty_vt : exists i, no_tab_in_literalsb (i_steps i) = true /\ lits_roundtripb (i_steps i) = true /\
  snd (i_db i) = Some [] /\ i_start i = [] /\ i_steps i <> [] /\ ~ C12_holds i (model_C12 i).
Proof. exists wit_empty_vt. repeat (split; [vm_compute; reflexivity|]). split; [discriminate|]. vm_compute. auto. Qed.
Lemma main_nonvacuous : exists i, inclass_C12 i = true /\ length (i_steps i) = 2%nat /\
  exists o, o_on (model_C12 i) = ROk o /\ ob_vers o = [1; 2] /\ length (ob_tabs o) = 2%nat.
Proof. exists wit_ok. split; [vm_compute; reflexivity|]. split; [reflexivity|]. eexists. split; [vm_compute; reflexivity|]. split; reflexivity. Qed.
(* an aborting run inside the class: the offline replay keeps the new table and two rows, the online run keeps the
   new table (DDL before the first DML) and rolls the rows back *)
Lemma abort_nonvacuous : exists i, inclass_C12 i = true /\
  exists a b, o_on (model_C12 i) = RErr a /\ o_off (model_C12 i) = RErr b /\
  length (ob_tabs a) = 2%nat /\ length (ob_tabs b) = 2%nat /\
  map (fun t => length (t_rows t)) (ob_tabs a) = [0; 0]%nat /\ map (fun t => length (t_rows t)) (ob_tabs b) = [2; 0]%nat.
Proof. exists wit_abort. split; [vm_compute; reflexivity|]. eexists. eexists. repeat (split; [vm_compute; reflexivity|]). vm_compute. reflexivity. Qed.

(* ================================================================ H. a toy compiler / reader pair satisfying the hypotheses of
   Section Text (code points stand for whole keywords and for ids): INSERT of one literal and the version-table statements *)
Definition supported_c (s:sqlstmt) : bool :=
  match s with
  | SInsert t [Some l] => negb (is_ws t) && hd_last_ok l
  | SVInsert r => negb (is_ws r)
  | SVUpdate a b => negb (is_ws a) && negb (is_ws b)
  | SVCreate | SVDrop => true
  | _ => false
  end.
Definition render_c (s:sqlstmt) : stext :=
  match s with
  | SInsert t [Some l] => mkSText [10] [TWord [1000; t]; TSpace [9]; TLit l] [10; 10]
  | SVInsert r => mkSText [] [TWord [1001; r]] [32]
  | SVUpdate a b => mkSText [] [TWord [1002; a; b]] []
  | SVCreate => mkSText [10] [TWord [1003]] [10]
  | SVDrop => mkSText [10] [TWord [1004]] [10]
  | _ => mkSText [] [] []
  end.
Definition sqlite_c (x:text) : option sqlstmt :=
  match x with
  | 1000 :: t :: rest => match lstrip rest with [] => None | r => Some (SInsert t [Some (removelast r)]) end
  | 1001 :: r :: [59] => Some (SVInsert r)
  | 1002 :: a :: b :: [59] => Some (SVUpdate a b)
  | 1003 :: [59] => Some SVCreate
  | 1004 :: [59] => Some SVDrop
  | _ => None
  end.
Lemma hd_last_pre a pre l : is_ws a = false -> hd_last_ok l = true -> hd_last_ok (a :: pre ++ l) = true.
Proof.
  intros Ha H. destruct (hd_last_split l H) as [x [m [-> [Hx Hm]]]]. unfold hd_last_ok. rewrite Ha. cbn [negb andb].
  destruct Hm as [->|[m' [y [-> Hy]]]].
  - change (a :: pre ++ [x]) with ((a :: pre) ++ [x]). rewrite last_last. now rewrite Hx.
  - replace (a :: pre ++ x :: m' ++ [y]) with ((a :: pre ++ x :: m') ++ [y]) by (simpl; now rewrite <- app_assoc).
    rewrite last_last. now rewrite Hy.
Qed.
Lemma toy_render_wf s : supported_c s = true -> stext_wf (render_c s) = true.
Proof.
  destruct s; try discriminate; try reflexivity.
  - destruct cells as [|[l|] [|]]; try discriminate. cbn [supported_c render_c]. intros H.
    apply andb_true_iff in H as [H1 H2]. apply negb_true_iff in H1.
    unfold stext_wf. cbn [st_lead st_trail st_core flat flat_map tok_text forallb tok_ok].
    rewrite app_nil_r. change ([1000; t] ++ [9] ++ l) with (1000 :: [t; 9] ++ l).
    rewrite (hd_last_pre 1000 [t; 9] l eq_refl H2), H2.
    unfold no_tab, memN. cbn [existsb]. rewrite (N.eqb_sym 9 t), (not_ws_not_tab t H1). reflexivity.
  - cbn [supported_c render_c]. intros H. apply negb_true_iff in H.
    unfold stext_wf. cbn. rewrite H. unfold no_tab, memN. cbn [existsb]. rewrite (N.eqb_sym 9 r), (not_ws_not_tab r H). reflexivity.
  - cbn [supported_c render_c]. intros H. apply andb_true_iff in H as [H1 H2]. apply negb_true_iff in H1, H2.
    unfold stext_wf. cbn. rewrite H2. unfold no_tab, memN. cbn [existsb].
    rewrite (N.eqb_sym 9 a), (not_ws_not_tab a H1), (N.eqb_sym 9 b), (not_ws_not_tab b H2). reflexivity.
Qed.
Lemma toy_reads s g core' : supported_c s = true ->
  Forall2 (tok_sim g) (st_core (render_c s)) core' -> sqlite_c (flat core' ++ [59]) = Some (map_stmt g s).
Proof.
  destruct s; try discriminate.
  - destruct cells as [|[l|] [|]]; try discriminate. cbn [supported_c render_c st_core]. intros _ F.
    inversion F as [|? ? ? ? T1 F1]; subst. inversion F1 as [|? ? ? ? T2 F2]; subst. inversion F2 as [|? ? ? ? T3 F3]; subst.
    inversion F3; subst. inversion T1; subst. inversion T2 as [|? s' W NE|]; subst. inversion T3 as [| |? HL]; subst.
    cbn [flat flat_map tok_text]. rewrite app_nil_r. cbn [app sqlite_c map_stmt map option_map].
    rewrite <- app_assoc, lstrip_ws by auto.
    destruct (hd_last_split (g l) HL) as [x [m [E [Hx _]]]]. rewrite E. cbn [app lstrip]. rewrite Hx.
    change (x :: m ++ [59]) with ((x :: m) ++ [59]). rewrite removelast_last. reflexivity.
  - cbn [supported_c render_c st_core]. intros _ F. inversion F as [|? ? ? ? T1 F1]; subst. inversion F1; subst. inversion T1; subst. reflexivity.
  - cbn [supported_c render_c st_core]. intros _ F. inversion F as [|? ? ? ? T1 F1]; subst. inversion F1; subst. inversion T1; subst. reflexivity.
  - cbn [supported_c render_c st_core]. intros _ F. inversion F as [|? ? ? ? T1 F1]; subst. inversion F1; subst. inversion T1; subst. reflexivity.
  - cbn [supported_c render_c st_core]. intros _ F. inversion F as [|? ? ? ? T1 F1]; subst. inversion F1; subst. inversion T1; subst. reflexivity.
Qed.
(* a one-step plan from base on a database that already has a table: every hypothesis of same_effect_text holds for the toy
   pair, and the text-level replay completes *)
Definition toy_db : db := (mkU [mkTable 0 [mkCol 0 2 None false] [] []] [], None).
Definition toy_steps : list step := [mkStep [BulkInsert 0 [[Some (VText [105; 116; 39; 115])]]] [VIns 5]].
Lemma text_nonvacuous :
  (forall s, supported_c s = true -> stext_wf (render_c s) = true) /\
  (forall s g core', supported_c s = true -> Forall2 (tok_sim g) (st_core (render_c s)) core' ->
                     sqlite_c (flat core' ++ [59]) = Some (map_stmt g s)) /\
  inclass_C12 (mkIn toy_db SpBase [] toy_steps [] (mkCfg None false)) = true /\
  (forall l, run_offline_plain lit_c untext_c [] toy_steps = Some l -> forallb supported_c l = true) /\
  exists d, offline_text_effect lit_c parse_c untext_c render_c sqlite_c [59] toy_db [] toy_steps = Some d /\
            ob_vers (observable d) = [5] /\ map (fun t => length (t_rows t)) (ob_tabs (observable d)) = [1%nat].
Proof.
  split; [exact toy_render_wf|]. split; [exact toy_reads|]. split; [vm_compute; reflexivity|]. split.
  - intros l E. vm_compute in E. inversion E; subst. vm_compute. reflexivity.
  - eexists. split; [vm_compute; reflexivity|]. split; reflexivity.
Qed.
