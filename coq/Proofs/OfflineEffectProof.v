(* C12 — proofs about Model.OfflineEffect / Spec.C12. *)
From AV Require Import Base.ListSet Model.OfflineEffect Spec.C12.
From Coq Require Import ZArith Lia.
Import ListNotations.
Open Scope N_scope.

(* ================================================================ A. decider soundness *)
Lemma list_eqb_sound {A} (eqb : A -> A -> bool) :
  (forall x y, eqb x y = true -> x = y) -> forall a b, list_eqb eqb a b = true -> a = b.
Proof.
  intros H a; induction a as [|x a IH]; destruct b as [|y b]; simpl; try congruence.
  intros E. apply andb_true_iff in E as [E1 E2]. f_equal; auto.
Qed.
Lemma text_eqb_sound a b : list_eqb N.eqb a b = true -> a = b.
Proof. apply list_eqb_sound. intros x y; apply N.eqb_eq. Qed.
Lemma value_eqb_sound a b : value_eqb a b = true -> a = b.
Proof.
  destruct a, b; simpl; try congruence.
  - intros E; apply Z.eqb_eq in E; congruence.
  - intros E; apply text_eqb_sound in E; congruence.
  - intros E; apply text_eqb_sound in E; congruence.
Qed.
Lemma col_eqb_sound a b : col_eqb a b = true -> a = b.
Proof.
  destruct a as [n1 t1 d1], b as [n2 t2 d2]; unfold col_eqb; simpl. intros E.
  apply andb_true_iff in E as [E E3]. apply andb_true_iff in E as [E1 E2].
  apply N.eqb_eq in E1, E2. subst. f_equal.
  destruct d1, d2; simpl in E3; try discriminate; auto. apply value_eqb_sound in E3. congruence.
Qed.
Lemma table_eqb_sound a b : table_eqb a b = true -> a = b.
Proof.
  destruct a, b; unfold table_eqb; simpl. intros E.
  apply andb_true_iff in E as [E E3]. apply andb_true_iff in E as [E1 E2].
  apply N.eqb_eq in E1. apply (list_eqb_sound _ col_eqb_sound) in E2.
  apply (list_eqb_sound _ (list_eqb_sound _ value_eqb_sound)) in E3. congruence.
Qed.
Lemma index_eqb_sound a b : index_eqb a b = true -> a = b.
Proof.
  destruct a, b; unfold index_eqb; simpl. intros E.
  apply andb_true_iff in E as [E E3]. apply andb_true_iff in E as [E1 E2].
  apply N.eqb_eq in E1, E2. apply text_eqb_sound in E3. congruence.
Qed.
Lemma obs_eqb_sound a b : obs_eqb a b = true -> a = b.
Proof.
  destruct a, b; unfold obs_eqb; simpl. intros E.
  apply andb_true_iff in E as [E E4]. apply andb_true_iff in E as [E E3]. apply andb_true_iff in E as [E1 E2].
  apply (list_eqb_sound _ table_eqb_sound) in E1. apply (list_eqb_sound _ index_eqb_sound) in E2.
  apply text_eqb_sound in E3. apply (list_eqb_sound _ text_eqb_sound) in E4. congruence.
Qed.
Lemma check_C12_sound i o : check_C12 i o = true -> C12_holds i o.
Proof.
  unfold check_C12, C12_holds, oobs_eqb. destruct (o_on o), (o_off o); try congruence.
  intros E; apply obs_eqb_sound in E; congruence.
Qed.

(* ================================================================ B. the text post-processing of _exec *)
Lemma replace_tab_app a b : replace_tab (a ++ b) = replace_tab a ++ replace_tab b.
Proof. induction a as [|c a IH]; simpl; auto. destruct (N.eqb c 9); simpl; rewrite IH; auto. Qed.
Lemma replace_tab_id s : no_tab s = true -> replace_tab s = s.
Proof.
  unfold no_tab, memN. induction s as [|c s IH]; cbn [existsb replace_tab]; auto.
  rewrite negb_true_iff, orb_false_iff. intros [E1 E2].
  rewrite N.eqb_sym in E1. rewrite E1. f_equal. apply IH. now rewrite negb_true_iff.
Qed.
Lemma post_identity (lit : value -> text) (parse_lit : text -> value) v :
  parse_lit (lit v) = v -> no_tab (lit v) = true -> parse_lit (post (lit v)) = v.
Proof. intros H T. unfold post. now rewrite replace_tab_id. Qed.

Lemma rstrip_last y b : is_ws b = false -> rstrip (y ++ [b]) = y ++ [b].
Proof. intros H. unfold rstrip. rewrite rev_app_distr. simpl. rewrite H. simpl. now rewrite rev_involutive. Qed.
(* a literal between non-blank text: only the tab replacement reaches it, strip does not *)
Lemma exec_post_literal term a pre l suf b :
  is_ws a = false -> is_ws b = false ->
  exec_post term ((a :: pre) ++ l ++ suf ++ [b]) = replace_tab (a :: pre) ++ post l ++ replace_tab (suf ++ [b]) ++ term.
Proof.
  intros Ha Hb. unfold exec_post, post, strip.
  assert (A9 : N.eqb a 9 = false). { destruct (N.eqb a 9) eqn:E; auto. apply N.eqb_eq in E; subst a. discriminate Ha. }
  assert (B9 : N.eqb b 9 = false). { destruct (N.eqb b 9) eqn:E; auto. apply N.eqb_eq in E; subst b. discriminate Hb. }
  assert (R1 : replace_tab (a :: pre) = a :: replace_tab pre) by (cbn [replace_tab]; now rewrite A9).
  assert (R2 : replace_tab [b] = [b]) by (cbn [replace_tab]; now rewrite B9).
  rewrite !replace_tab_app, !R2, R1.
  change ((a :: replace_tab pre) ++ replace_tab l ++ replace_tab suf ++ [b])
    with (a :: (replace_tab pre ++ replace_tab l ++ replace_tab suf ++ [b])).
  cbn [lstrip]. rewrite Ha.
  replace (a :: replace_tab pre ++ replace_tab l ++ replace_tab suf ++ [b])
     with ((a :: replace_tab pre ++ replace_tab l ++ replace_tab suf) ++ [b]).
  2:{ cbn [app]. f_equal. now rewrite <- !app_assoc. }
  rewrite rstrip_last by auto. cbn [app]. f_equal. now rewrite <- !app_assoc.
Qed.

(* ================================================================ C. replay of the offline stream = online run *)
Lemma exec_list_app {A} (rd : A -> value) a b d :
  exec_list rd d (a ++ b) = match exec_list rd d a with Some d' => exec_list rd d' b | None => None end.
Proof. revert d; induction a as [|s a IH]; intros d; simpl; auto. destruct (exec_stmt rd d s); auto. Qed.

Lemma app_some {A} (rd : A -> value) a b d d' :
  exec_list rd d a = Some d' -> exec_list rd d (a ++ b) = exec_list rd d' b.
Proof. intros E. now rewrite exec_list_app, E. Qed.
Lemma app_none {A} (rd : A -> value) a b d :
  exec_list rd d a = None -> exec_list rd d (a ++ b) = None.
Proof. intros E. now rewrite exec_list_app, E. Qed.

(* a user-level statement leaves the version table alone *)
Lemma exec_stmt_user_snd {A} (rd : A -> value) d s d' :
  is_vstmt s = false -> exec_stmt rd d s = Some d' -> snd d' = snd d.
Proof. unfold exec_stmt. intros ->. destruct (exec_u rd (fst d) s); intros E; inversion E; auto. Qed.
Lemma compile_op_user {A} (f g : value -> A) (e : text -> A) o : forallb (fun s => negb (is_vstmt s)) (compile_op f g e o) = true.
Proof.
  destruct o; simpl; auto.
  - induction rows; simpl; auto.
  - destruct r; reflexivity.
Qed.
Lemma exec_list_user_snd {A} (rd : A -> value) l : forallb (fun s => negb (is_vstmt s)) l = true ->
  forall d d', exec_list rd d l = Some d' -> snd d' = snd d.
Proof.
  induction l as [|s l IH]; simpl; intros H d d' E. { inversion E; auto. }
  apply andb_true_iff in H as [H1 H2]. apply negb_true_iff in H1.
  destruct (exec_stmt rd d s) as [d1|] eqn:E1; try discriminate.
  rewrite (IH H2 _ _ E). eapply exec_stmt_user_snd; eauto.
Qed.
Lemma body_user {A} (f g : value -> A) (e : text -> A) b : forallb (fun s => negb (is_vstmt s)) (flat_map (compile_op f g e) b) = true.
Proof. induction b as [|o b IH]; simpl; auto. rewrite forallb_app, compile_op_user, IH. reflexivity. Qed.

(* two readings of the literal positions that agree on the literals of an operation give the same execution *)
Lemma fill_row_ext {A B} (rdA : A -> value) (rdB : B -> value) {V} (fA : V -> A) (fB : V -> B) cols : forall cells,
  (forall v, In v (somes cells) -> rdA (fA v) = rdB (fB v)) ->
  fill_row rdA cols (map (option_map fA) cells) = fill_row rdB cols (map (option_map fB) cells).
Proof.
  induction cols as [|c cols IH]; intros [|x cells] H; simpl; auto.
  destruct x as [v|]; simpl in *.
  - rewrite (H v (or_introl eq_refl)). f_equal. apply IH. intros w Hw; apply H; auto.
  - f_equal. apply IH. auto.
Qed.
Lemma exec_insert_ext {A B} (rdA : A -> value) (rdB : B -> value) {V} (fA : V -> A) (fB : V -> B) d t row :
  (forall v, In v (somes row) -> rdA (fA v) = rdB (fB v)) ->
  exec_stmt rdA d (SInsert t (map (option_map fA) row)) = exec_stmt rdB d (SInsert t (map (option_map fB) row)).
Proof.
  intros H. unfold exec_stmt; simpl. rewrite !map_length.
  destruct (find_tab (u_tabs (fst d)) t) as [T|]; auto.
  rewrite (fill_row_ext rdA rdB fA fB (t_cols T) row H). reflexivity.
Qed.
Lemma read_col_ext {A B} (rdA : A -> value) (rdB : B -> value) (fA : value -> A) (fB : value -> B) c :
  (forall v, In v (col_values c) -> rdA (fA v) = rdB (fB v)) ->
  read_col rdA (compile_col fA c) = read_col rdB (compile_col fB c).
Proof.
  destruct c as [n t [v|]]; unfold read_col, compile_col, col_values; simpl; intros H; auto.
  now rewrite (H v (or_introl eq_refl)).
Qed.
Lemma read_cols_ext {A B} (rdA : A -> value) (rdB : B -> value) (fA : value -> A) (fB : value -> B) cols :
  (forall v, In v (flat_map col_values cols) -> rdA (fA v) = rdB (fB v)) ->
  map (read_col rdA) (map (compile_col fA) cols) = map (read_col rdB) (map (compile_col fB) cols).
Proof.
  induction cols as [|c cols IH]; simpl; intros H; auto. f_equal.
  - apply read_col_ext. intros v Hv. apply H. apply in_or_app; auto.
  - apply IH. intros v Hv. apply H. apply in_or_app; auto.
Qed.
Lemma sc_names {A} (f : value -> A) cols : map sc_name (map (compile_col f) cols) = map c_name cols.
Proof. rewrite map_map. reflexivity. Qed.

Lemma compile_op_ext {A B} (rdA : A -> value) (rdB : B -> value)
      (fA dA : value -> A) (eA : text -> A) (fB dB : value -> B) (eB : text -> B) o :
  (forall v, In v (op_values o) -> rdA (fA v) = rdB (fB v) /\ rdA (dA v) = rdB (dB v)) ->
  (forall w, In w (op_texts o) -> rdA (eA w) = rdB (eB w)) ->
  forall d, exec_list rdA d (compile_op fA dA eA o) = exec_list rdB d (compile_op fB dB eB o).
Proof.
  intros H HT d. destruct o; try reflexivity.
  - (* CreateTable *) simpl in *. unfold exec_stmt; simpl. rewrite !sc_names.
    rewrite (read_cols_ext rdA rdB dA dB cols) by (intros v Hv; apply H; auto).
    destruct cols; reflexivity.
  - (* AddColumn *) simpl in *. unfold exec_stmt; simpl.
    rewrite (read_col_ext rdA rdB dA dB c) by (intros v Hv; apply H; auto). reflexivity.
  - (* BulkInsert *) simpl in *. revert d. induction rows as [|row rows IH]; intros d; simpl; auto.
    rewrite (exec_insert_ext rdA rdB fA fB d t row).
    2:{ intros v Hv. apply H. simpl. apply in_or_app; auto. }
    destruct (exec_stmt rdB d (SInsert t (map (option_map fB) row))); auto.
    apply IH. intros v Hv. apply H. simpl. apply in_or_app; auto.
  - (* Execute *) destruct r; simpl in *.
    + rewrite (exec_insert_ext rdA rdB eA eB d t cells); auto.
    + reflexivity.
    + unfold exec_stmt; simpl. rewrite (HT w (or_introl eq_refl)). reflexivity.
Qed.
Lemma body_ext {A B} (rdA : A -> value) (rdB : B -> value)
      (fA dA : value -> A) (eA : text -> A) (fB dB : value -> B) (eB : text -> B) b :
  (forall v, In v (flat_map op_values b) -> rdA (fA v) = rdB (fB v) /\ rdA (dA v) = rdB (dB v)) ->
  (forall w, In w (flat_map op_texts b) -> rdA (eA w) = rdB (eB w)) ->
  forall d, exec_list rdA d (flat_map (compile_op fA dA eA) b) = exec_list rdB d (flat_map (compile_op fB dB eB) b).
Proof.
  induction b as [|o b IH]; intros H HT d; simpl; auto.
  rewrite !exec_list_app. rewrite (compile_op_ext rdA rdB fA dA eA fB dB eB o).
  2:{ intros v Hv. apply H. simpl. apply in_or_app; auto. }
  2:{ intros w Hw. apply HT. simpl. apply in_or_app; auto. }
  destruct (exec_list rdB d (compile_op fB dB eB o)); auto.
  apply IH. { intros v Hv. apply H. simpl. apply in_or_app; auto. } { intros w Hw. apply HT. simpl. apply in_or_app; auto. }
Qed.

(* ---- version-table bookkeeping *)
Lemma countN_notin r l : ~ In r l -> countN r l = 0%nat.
Proof.
  unfold countN. induction l as [|x l IH]; simpl; auto. intros H.
  destruct (N.eqb r x) eqn:E. { apply N.eqb_eq in E. subst. exfalso; auto. } apply IH; auto.
Qed.
Lemma countN_NoDup r l : NoDup l -> In r l -> countN r l = 1%nat.
Proof.
  unfold countN. induction 1 as [|x l Hx Hl IH]; simpl. { intros []. }
  intros [->|Hr].
  - rewrite N.eqb_refl. simpl. f_equal. apply (countN_notin r l Hx).
  - destruct (N.eqb r x) eqn:E. { apply N.eqb_eq in E. subst. contradiction. } auto.
Qed.
Lemma NoDup_removeN (r:N) (l:list N) : NoDup l -> NoDup (removeN r l).
Proof. apply NoDup_filter. Qed.
Lemma NoDup_app_one (l:list N) (r:N) : NoDup l -> ~ In r l -> NoDup (l ++ [r]).
Proof.
  induction 1 as [|x l Hx Hl IH]; simpl; intros Hr. { constructor; auto. constructor. }
  constructor.
  - rewrite in_app_iff. simpl. intros [?|[?|[]]]; auto.
  - apply IH. auto.
Qed.
Lemma NoDup_repl (a b : N) (l : list N) : ~ In b l -> NoDup l -> NoDup (map (repl a b) l).
Proof.
  intros Hb. induction 1 as [|x l Hx Hl IH]; simpl. { constructor. }
  constructor.
  - rewrite in_map_iff. intros [y [Ey Hy]]. unfold repl in Ey.
    destruct (N.eqb y a) eqn:Ya, (N.eqb x a) eqn:Xa.
    + apply N.eqb_eq in Ya, Xa. subst. auto.
    + subst x. apply Hb. left; auto.
    + subst y. apply Hb. right; auto.
    + subst y. auto.
  - apply IH. intros H; apply Hb; right; auto.
Qed.

Section Lit.
  Variable lit : value -> text.
  Variable parse_lit : text -> value.
  Variable untext : text -> text.

  Lemma hm_apply_NoDup h s h' : NoDup h -> hm_apply h s = Some h' -> NoDup h'.
  Proof.
    intros ND. destruct s as [r|r|a b]; simpl.
    - destruct (memN r h) eqn:M; try discriminate. intros E; inversion E; subst.
      apply NoDup_app_one; auto. now apply memN_nIn.
    - destruct (memN r h); try discriminate. intros E; inversion E; subst. now apply NoDup_removeN.
    - destruct (memN b h) eqn:Mb; try discriminate. destruct (memN a h); try discriminate.
      intros E; inversion E; subst. apply NoDup_repl; auto. now apply memN_nIn.
  Qed.
  Lemma hm_list_NoDup l : forall h h', NoDup h -> hm_list h l = Some h' -> NoDup h'.
  Proof.
    induction l as [|s l IH]; simpl; intros h h' ND E. { inversion E; subst; auto. }
    destruct (hm_apply h s) as [h1|] eqn:E1; try discriminate.
    apply (IH h1 h'); auto. eapply hm_apply_NoDup; eauto.
  Qed.

  (* one bookkeeping statement: what HeadMaintainer does to self.heads is what the statement does to the rows *)
  Lemma bk1_sim {A} (rd : A -> value) u h s h' :
    NoDup h -> hm_apply h s = Some h' ->
    exec_stmt rd (u, Some h) (vstmt_sql s) = Some (u, Some h') /\
    match s with VIns _ => True | VDel r => countN r h = 1%nat | VUpd a _ => countN a h = 1%nat end.
  Proof.
    intros ND. destruct s as [r|r|a b]; simpl; unfold exec_stmt; simpl.
    - destruct (memN r h) eqn:M; try discriminate. intros E; inversion E; subst. auto.
    - destruct (memN r h) eqn:M; try discriminate. intros E; inversion E; subst. split; auto.
      apply countN_NoDup; auto. now apply memN_In.
    - destruct (memN b h) eqn:Mb; try discriminate. destruct (memN a h) eqn:Ma; try discriminate.
      intros E; inversion E; subst. simpl. split; auto. apply countN_NoDup; auto. now apply memN_In.
  Qed.
  Lemma on_bk1_sim u h s h' :
    NoDup h -> hm_apply h s = Some h' -> on_bk1 parse_lit (u, Some h) h s = Some ((u, Some h'), h').
  Proof.
    intros ND E. unfold on_bk1. rewrite E. destruct (bk1_sim (rd_on parse_lit) u h s h' ND E) as [-> C].
    unfold vers_rows; simpl. destruct s; auto; rewrite C; reflexivity.
  Qed.
  Lemma on_bk1_fail d h s : hm_apply h s = None -> on_bk1 parse_lit d h s = None.
  Proof. intros E. unfold on_bk1. now rewrite E. Qed.

  Lemma bk_sim l : forall u h, NoDup h ->
    match hm_list h l with
    | None => on_bk parse_lit (u, Some h) h l = None
    | Some h' => on_bk parse_lit (u, Some h) h l = Some ((u, Some h'), h') /\
                 exec_list parse_lit (u, Some h) (map vstmt_sql l) = Some (u, Some h')
    end.
  Proof.
    induction l as [|s l IH]; intros u h ND; simpl. { auto. }
    destruct (hm_apply h s) as [h1|] eqn:E1.
    - rewrite (on_bk1_sim u h s h1 ND E1). destruct (bk1_sim parse_lit u h s h1 ND E1) as [-> _].
      apply IH. eapply hm_apply_NoDup; eauto.
    - now rewrite on_bk1_fail.
  Qed.

  (* ---- literals *)
  Definition lits_ok (vals : list value) (texts : list text) : Prop :=
    (forall v, In v vals -> parse_lit (lit v) = v /\ no_tab (lit v) = true) /\
    (forall w, In w texts -> no_tab (untext w) = true).

  Lemma body_sim b : lits_ok (flat_map op_values b) (flat_map op_texts b) ->
    forall d, exec_list parse_lit d (body_off lit untext b) = exec_list (rd_on parse_lit) d (body_on lit untext b).
  Proof.
    intros [H HT] d. unfold body_off, body_on, compile_off, compile_on. apply body_ext.
    - intros v Hv. destruct (H v Hv) as [R T]. unfold off_lit. simpl.
      rewrite (post_identity lit parse_lit v R T). auto.
    - intros w Hw. unfold off_text, post. simpl. now rewrite (replace_tab_id _ (HT w Hw)).
  Qed.
  Lemma body_on_snd b d d' : exec_list (rd_on parse_lit) d (body_on lit untext b) = Some d' -> snd d' = snd d.
  Proof. apply exec_list_user_snd. apply body_user. Qed.

  (* ---- the step invariant: offline HeadMaintainer.heads = online version rows, user tables equal *)
  Definition off_pre (doff : db) (h : list N) : Prop :=
    (snd doff = Some h /\ h <> []) \/ (snd doff = None /\ h = []).

  Lemma pre_sim doff h : off_pre doff h ->
    exec_list parse_lit doff (match h with [] => [SVCreate] | _ => [] end) = Some (fst doff, Some h).
  Proof.
    intros [[E NEh]|[E ->]].
    - destruct h as [|x h]; [now elim NEh|]. simpl. destruct doff as [u v]; simpl in *. now rewrite E.
    - simpl. unfold exec_stmt; simpl. rewrite E. reflexivity.
  Qed.

  Lemma mid_step st st2 r h h' : mid_nonempty h (st :: st2 :: r) = true -> hm_list h (s_bk st) = Some h' ->
    h' <> [] /\ mid_nonempty h' (st2 :: r) = true.
  Proof.
    cbn [mid_nonempty]. intros M E. rewrite E in M. destruct h'; try discriminate. split; auto. discriminate.
  Qed.

  Definition sim_result (steps : list step) (doff : db) (hf : list N) (roff : option db) (ron : option (db * list N)) : Prop :=
    match roff, ron with
    | None, None => True
    | Some d1, Some (d2, h2) => fst d1 = fst d2 /\ h2 = hf /\ snd d2 = Some hf /\
                                snd d1 = match steps with [] => snd doff | _ => Some hf end
    | _, _ => False
    end.

  Lemma steps_sim steps : forall h doff,
    NoDup h -> off_pre doff h -> mid_nonempty h steps = true -> lits_ok (steps_values steps) (steps_texts steps) ->
    match off_steps lit untext h steps with
    | None => on_steps lit parse_lit untext (fst doff, Some h) h steps = None
    | Some (s, hf) => sim_result steps doff hf (exec_list parse_lit doff s) (on_steps lit parse_lit untext (fst doff, Some h) h steps)
    end.
  Proof.
    induction steps as [|st r IH]; intros h doff ND P M L.
    { simpl. repeat split; auto. }
    assert (Lb : lits_ok (flat_map op_values (s_body st)) (flat_map op_texts (s_body st))).
    { destruct L as [L1 L2]. split; [intros v Hv; apply L1|intros v Hv; apply L2];
        unfold steps_values, steps_texts; simpl; apply in_or_app; auto. }
    assert (Lr : lits_ok (steps_values r) (steps_texts r)).
    { destruct L as [L1 L2]. split; [intros v Hv; apply L1|intros v Hv; apply L2];
        unfold steps_values, steps_texts; simpl; apply in_or_app; auto. }
    cbn [off_steps on_steps].
    rewrite <- (body_sim (s_body st) Lb).
    pose proof (pre_sim doff h P) as Hpre.
    destruct (hm_list h (s_bk st)) as [h'|] eqn:Ehm.
    2:{ (* the heads bookkeeping fails: online fails as well (in the body or in the bookkeeping) *)
        destruct (exec_list parse_lit (fst doff, Some h) (body_off lit untext (s_body st))) as [d1|] eqn:Eb; auto.
        assert (S1 : snd d1 = Some h).
        { rewrite (body_sim (s_body st) Lb) in Eb. now rewrite (body_on_snd _ _ _ Eb). }
        destruct d1 as [u1 v1]; simpl in S1; subst v1.
        pose proof (bk_sim (s_bk st) u1 h ND) as B. rewrite Ehm in B. now rewrite B. }
    assert (N' : NoDup h') by (eapply hm_list_NoDup; eauto).
    (* the common prefix of the two runs *)
    destruct (exec_list parse_lit (fst doff, Some h) (body_off lit untext (s_body st))) as [d1|] eqn:Eb.
    2:{ destruct (off_steps lit untext h' r) as [[s hf]|]; auto.
        unfold sim_result. rewrite (app_some _ _ _ _ _ Hpre), (app_none _ _ _ _ Eb). exact I. }
    assert (S1 : snd d1 = Some h).
    { rewrite (body_sim (s_body st) Lb) in Eb. now rewrite (body_on_snd _ _ _ Eb). }
    destruct d1 as [u1 v1]; simpl in S1; subst v1.
    pose proof (bk_sim (s_bk st) u1 h ND) as B. rewrite Ehm in B. destruct B as [B1 B2]. rewrite B1.
    destruct r as [|st2 r2].
    - (* last step *)
      simpl. unfold sim_result. rewrite (app_some _ _ _ _ _ Hpre), (app_some _ _ _ _ _ Eb), (app_some _ _ _ _ _ B2). simpl. auto.
    - destruct (mid_step _ _ _ _ _ M Ehm) as [Hne M'].
      specialize (IH h' (u1, Some h') N' (or_introl (conj eq_refl Hne)) M' Lr). simpl fst in IH.
      destruct (off_steps lit untext h' (st2 :: r2)) as [[s hf]|]; auto.
      unfold sim_result in *. rewrite (app_some _ _ _ _ _ Hpre), (app_some _ _ _ _ _ Eb), (app_some _ _ _ _ _ B2).
      destruct (exec_list parse_lit (u1, Some h') s) as [dd1|], (on_steps lit parse_lit untext (u1, Some h') h' (st2 :: r2)) as [[dd2 hh2]|]; auto.
  Qed.

  Definition db_at (d : db) (start : list N) : Prop :=
    NoDup start /\ snd d = match start with [] => None | _ => Some start end.

  Theorem same_effect d start steps :
    db_at d start -> mid_nonempty start steps = true -> (start = [] -> steps <> []) ->
    (forall v, In v (steps_values steps) -> parse_lit (lit v) = v) ->
    (forall v, In v (steps_values steps) -> no_tab (lit v) = true) ->
    (forall w, In w (steps_texts steps) -> no_tab (untext w) = true) ->
    option_map observable (offline_effect lit parse_lit untext d start steps) = option_map observable (run_online lit parse_lit untext d steps).
  Proof.
    intros [ND S] M NE R T TT.
    assert (L : lits_ok (steps_values steps) (steps_texts steps)) by (split; auto).
    assert (P : off_pre d start).
    { destruct start; [right|left]; split; auto. discriminate. }
    assert (D1 : (match vers_rows d with [] => ensure_version_table d | _ => d end) = (fst d, Some start) /\ vers_rows d = start).
    { unfold vers_rows, ensure_version_table. rewrite S. destruct start; simpl; auto. split; auto.
      destruct d; simpl in *; congruence. }
    destruct D1 as [D1 D2].
    destruct steps as [|st r].
    { (* empty plan: start is not base, nothing is emitted, nothing is run *)
      destruct start as [|x start]; [exfalso; now apply NE|].
      unfold offline_effect, run_online, run_offline, replay. rewrite D1, D2. simpl.
      unfold observable. simpl. rewrite S. reflexivity. }
    pose proof (steps_sim (st :: r) start d ND P M L) as SS.
    unfold offline_effect, run_online, run_offline, replay. rewrite D1, D2.
    destruct (off_steps lit untext start (st :: r)) as [[s hf]|].
    2:{ rewrite SS. reflexivity. }
    unfold sim_result in SS. cbv beta iota. rewrite (exec_list_app parse_lit s _ d).
    destruct (exec_list parse_lit d s) as [d1|], (on_steps lit parse_lit untext (fst d, Some start) start (st :: r)) as [[d2 h2]|];
      try contradiction; auto.
    destruct SS as [F [-> [S2 S1]]].
    destruct hf as [|x hf].
    - (* the run ends at base: offline drops the version table, online leaves it empty *)
      simpl. unfold exec_stmt; simpl. rewrite S1. simpl. unfold observable; simpl. rewrite F, S2. reflexivity.
    - simpl. unfold observable. rewrite F, S2, S1. reflexivity.
  Qed.
End Lit.

(* ================================================================ D. offline heads = online rows (independent of the literals) *)
Section Heads.
  Variable lit : value -> text.
  Variable parse_lit : text -> value.
  Variable untext : text -> text.
  Theorem heads_invariant steps : forall d h s hf d2 h2,
    snd d = Some h -> NoDup h ->
    off_steps lit untext h steps = Some (s, hf) -> on_steps lit parse_lit untext d h steps = Some (d2, h2) ->
    h2 = hf /\ snd d2 = Some hf /\ NoDup hf.
  Proof.
    induction steps as [|st r IH]; intros d h s hf d2 h2 S ND Eoff Eon.
    { simpl in *. inversion Eoff; inversion Eon; subst. auto. }
    cbn [off_steps on_steps] in *.
    destruct (hm_list h (s_bk st)) as [h'|] eqn:Ehm; try discriminate.
    destruct (off_steps lit untext h' r) as [[s' hf']|] eqn:Er; try discriminate. inversion Eoff; subst hf'. clear Eoff.
    destruct (exec_list (rd_on parse_lit) d (body_on lit untext (s_body st))) as [d1|] eqn:Eb; try discriminate.
    pose proof (body_on_snd lit parse_lit untext _ _ _ Eb) as S1. rewrite S in S1.
    destruct d1 as [u1 v1]; simpl in S1; subst v1.
    pose proof (bk_sim parse_lit (s_bk st) u1 h ND) as B. rewrite Ehm in B. destruct B as [B _]. rewrite B in Eon.
    eapply (IH (u1, Some h') h'); eauto. eapply hm_list_NoDup; eauto.
  Qed.
End Heads.

(* ================================================================ E. the concrete literal syntax *)
Lemma text_uint_uint_text u : text_uint (uint_text u) = Some u.
Proof. induction u; cbn [uint_text text_uint]; try rewrite IHu; reflexivity. Qed.
Lemma undq_dq s : undq (dq s ++ [39]) = s.
Proof.
  induction s as [|c s IH]; [reflexivity|]. cbn [dq].
  destruct (N.eqb c 39) eqn:E.
  - apply N.eqb_eq in E; subst c. cbn. f_equal. apply IH.
  - cbn [app undq]. rewrite E. f_equal. apply IH.
Qed.
Lemma to_int_nonnil z u : Z.to_int z = Decimal.Pos u \/ Z.to_int z = Decimal.Neg u -> u <> Decimal.Nil.
Proof.
  destruct z; simpl; intros [E|E]; inversion E; subst; try discriminate; apply DecimalPos.Unsigned.to_uint_nonnil.
Qed.
Lemma parse_digits u : u <> Decimal.Nil -> parse_c (uint_text u) = VInt (Z.of_int (Decimal.Pos u)).
Proof.
  intros H. destruct u; [contradiction|..]; cbn [uint_text]; unfold parse_c;
    match goal with H : ?x <> Decimal.Nil |- _ => pose proof (text_uint_uint_text x) as T; cbn [uint_text] in T; rewrite T end;
    reflexivity.
Qed.
Lemma parse_neg_digits u : u <> Decimal.Nil -> parse_c (45 :: uint_text u) = VInt (Z.of_int (Decimal.Neg u)).
Proof.
  intros H. destruct u; [contradiction|..]; cbn [uint_text]; unfold parse_c;
    match goal with H : ?x <> Decimal.Nil |- _ => pose proof (text_uint_uint_text x) as T; cbn [uint_text] in T; rewrite T end;
    reflexivity.
Qed.
(* NULL, every integer and every string round-trip; a numeric token does iff it is read as a numeric token *)
Theorem lit_c_roundtrip v : (forall s, v = VNum s -> parse_c s = VNum s) -> parse_c (lit_c v) = v.
Proof.
  destruct v as [|z|s|s]; intros H.
  - reflexivity.
  - unfold lit_c. destruct (Z.to_int z) as [u|u] eqn:E.
    + rewrite parse_digits by (eapply to_int_nonnil; eauto). rewrite <- E. now rewrite DecimalZ.of_to.
    + rewrite parse_neg_digits by (eapply to_int_nonnil; eauto). rewrite <- E. now rewrite DecimalZ.of_to.
  - cbn [lit_c parse_c]. now rewrite undq_dq.
  - apply H. reflexivity.
Qed.

(* ================================================================ F. the concrete instance: C12_holds i (model_C12 i) on the class *)
Lemma db_atb_sound d start : db_atb d start = true -> nodupb start = true -> db_at d start.
Proof.
  unfold db_atb, db_at. intros D ND. split. { now apply nodupb_NoDup. }
  destruct start as [|x start], (snd d) as [l|]; try discriminate; auto.
  apply text_eqb_sound in D. congruence.
Qed.
Theorem main_concrete i : inclass_C12 i = true -> C12_holds i (model_C12 i).
Proof.
  unfold inclass_C12, start_okb. intros H.
  apply andb_true_iff in H as [H H3]. apply andb_true_iff in H as [T R].
  apply andb_true_iff in H3 as [H3 NE]. apply andb_true_iff in H3 as [H3 M]. apply andb_true_iff in H3 as [D ND].
  unfold C12_holds, model_C12; cbn [o_on o_off]. symmetry.
  apply same_effect; auto.
  - now apply db_atb_sound.
  - intros E. rewrite E in NE. destruct (i_steps i); discriminate.
  - intros v Hv. unfold lits_roundtripb in R. rewrite forallb_forall in R. apply value_eqb_sound. auto.
  - intros v Hv. unfold no_tab_in_literalsb in T. apply andb_true_iff in T as [T _]. rewrite forallb_forall in T. auto.
  - intros v Hv. unfold no_tab_in_literalsb in T. apply andb_true_iff in T as [_ T]. rewrite forallb_forall in T. auto.
Qed.

(* ================================================================ G. witnesses *)
(* create_table + bulk_insert of 'tab<TAB>here' from base *)
Definition wit_tab : c12_in :=
  mkIn (mkU [] [], None) [] [mkStep [CreateTable 0 [mkCol 0 2 None]; BulkInsert 0 [[Some (VText [116; 97; 98; 9; 104; 101; 114; 101])]]] [VIns 0]] [].
(* `upgrade base:base --sql`: nothing to do, yet the script drops the version table *)
Definition wit_empty_plan : c12_in := mkIn (mkU [] [], None) [] [] [].
(* a database at base whose (empty) version table is still there *)
Definition wit_empty_vt : c12_in :=
  mkIn (mkU [] [], Some []) [] [mkStep [CreateTable 0 [mkCol 0 0 None]; BulkInsert 0 [[Some (VInt 1)]]] [VIns 0]] [].
(* a branched plan inside the class: r0 <- r1, r0 <- r2 applied from r0, quotes / NULL / numbers in the rows *)
Definition wit_ok : c12_in :=
  mkIn (mkU [mkTable 0 [mkCol 0 1 None; mkCol 1 0 (Some (VInt 3))] [[VText [105; 116; 39; 115]; VNull]]] [], Some [0]) [0]
       [mkStep [AddColumn 0 (mkCol 2 4 (Some (VNum [49; 46; 53])));
                BulkInsert 0 [[Some (VText [39; 39]); Some VNull; None]; [None; None; Some (VNum [50; 46; 53])]]; CreateIndex 0 0 [1]] [VUpd 0 1];
        mkStep [CreateTable 1 [mkCol 3 2 (Some (VText [100]))];
                Execute (RInsert 1 [Some [39; 49; 50; 92; 58; 51; 48; 39]]); Execute (RInsert 1 [None]);
                Execute (RUpdateAll 0 1 [55])] [VIns 2]] [32; 9; 120; 32].

Lemma refuted_tab : exists i, lits_roundtripb (i_steps i) = true /\ start_okb i = true /\ ~ C12_holds i (model_C12 i).
Proof. exists wit_tab. split; [vm_compute; reflexivity|]. split; [vm_compute; reflexivity|]. vm_compute. discriminate. Qed.
Lemma refuted_empty_plan : exists i, no_tab_in_literalsb (i_steps i) = true /\ lits_roundtripb (i_steps i) = true /\
  db_atb (i_db i) (i_start i) = true /\ i_start i = [] /\ i_steps i = [] /\ ~ C12_holds i (model_C12 i).
Proof. exists wit_empty_plan. repeat (split; [vm_compute; reflexivity|]). vm_compute. discriminate. Qed.
Lemma refuted_empty_vt : exists i, no_tab_in_literalsb (i_steps i) = true /\ lits_roundtripb (i_steps i) = true /\
  snd (i_db i) = Some [] /\ i_start i = [] /\ i_steps i <> [] /\ ~ C12_holds i (model_C12 i).
Proof. exists wit_empty_vt. repeat (split; [vm_compute; reflexivity|]). split; [discriminate|]. vm_compute. discriminate. Qed.
Lemma main_nonvacuous : exists i, inclass_C12 i = true /\ length (i_steps i) = 2%nat /\
  exists o, o_on (model_C12 i) = Some o /\ ob_vers o = [1; 2] /\ length (ob_tabs o) = 2%nat.
Proof. exists wit_ok. split; [vm_compute; reflexivity|]. split; [reflexivity|]. eexists. split; [vm_compute; reflexivity|]. split; reflexivity. Qed.
