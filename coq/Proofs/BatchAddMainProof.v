(* C10 main theorem with add_column inside (default placement: appended).  The clauses of C10_holds over the append
   specification edit_app, the model invariants that come with added columns, and the column order after SQLAlchemy's
   topological sort. *)
From AV Require Import Base.ListSet Model.BatchFail Model.Batch Spec.C11 Spec.C10 Proofs.BatchFailProof Proofs.BatchProof
  Proofs.BatchMainProof Proofs.BatchSortProof Proofs.BatchAddProof.

Definition is_addb (o:batch_op) : bool := match o with OAddColumn _ _ _ _ => true | _ => false end.
Lemma nonadd_edit o T : is_addb o = false -> edit_app o T = edit o T /\ in_class o = true.
Proof. destruct o; cbn; auto; discriminate. Qed.

Lemma aget_app_l {V} k (l l':list (key * V)) v : aget k l = Some v -> aget k (l ++ l') = Some v.
Proof. induction l as [|[k1 v1] l IH]; simpl; [discriminate|]. destruct (name_eqb k k1); auto. Qed.
Lemma aget_app_r {V} k (l l':list (key * V)) : aget k l = None -> aget k (l ++ l') = aget k l'.
Proof. induction l as [|[k1 v1] l IH]; simpl; auto. destruct (name_eqb k k1); [discriminate|auto]. Qed.

(* what edit_app does for an add *)
Lemma editA_add k c b a T T' : edit_app (OAddColumn k c b a) T = BOk T' ->
  aget k (tb_cols T) = None /\ ~ In (c_name c) (names_of T) /\ c_name c = k /\
  T' = mkTbl (tb_cols T ++ [(k, c)]) (tb_pk T) (tb_cons T) (tb_idx T).
Proof.
  cbn [edit_app]. unfold has_key. destruct (aget k (tb_cols T)) eqn:G; [discriminate|]. cbn.
  destruct (mem_name (c_name c) (names_of T)) eqn:M; [discriminate|]. cbn.
  destruct (name_eqb k (c_name c)) eqn:E; [|discriminate]. cbn. intros H. inversion H.
  apply name_eqb_eq in E. apply mem_name_false in M. auto.
Qed.

(* ------------------------------------------------------------------ where a column ends up *)
Lemma editA_absent o T T' k0 : in_class_a o = true -> edit_app o T = BOk T' -> aget k0 (tb_cols T) = None ->
  ~ In k0 (added_keys [o]) -> aget k0 (tb_cols T') = None.
Proof.
  intros Hc He Hk Hn. destruct (is_addb o) eqn:Ea.
  - destruct o as [k c b a| | | | | |]; try discriminate. destruct (editA_add _ _ _ _ _ _ He) as [_ [_ [_ ->]]]. cbn [tb_cols].
    rewrite aget_app_r; auto. cbn. destruct (name_eqb k0 k) eqn:E; auto. apply name_eqb_eq in E. subst. exfalso. apply Hn. simpl; auto.
  - destruct (nonadd_edit o T Ea) as [E1 E2]. rewrite E1 in He. apply (edit_absent o T T' k0); auto.
Qed.
Lemma added_keys_cons o ops k : ~ In k (added_keys (o :: ops)) -> ~ In k (added_keys [o]) /\ ~ In k (added_keys ops).
Proof. destruct o; cbn; intuition. Qed.
Lemma editA_all_absent ops : forall T T' k0, forallb in_class_a ops = true -> edit_app_all ops T = BOk T' ->
  aget k0 (tb_cols T) = None -> ~ In k0 (added_keys ops) -> aget k0 (tb_cols T') = None.
Proof. induction ops as [|o ops IH]; cbn [edit_app_all forallb]; intros T T' k0 Hc He Hk Hn.
  - inversion He; subst; auto.
  - apply andb_true_iff in Hc. destruct Hc. destruct (edit_app o T) as [T1|] eqn:E; [|discriminate].
    destruct (added_keys_cons _ _ _ Hn). apply (IH T1); auto. apply (editA_absent o T); auto. Qed.

(* one step of final_name against one step of the specification *)
Lemma final_name_step o T T1 k c : in_class_a o = true -> edit_app o T = BOk T1 -> aget k (tb_cols T) = Some c ->
  (exists c1, aget k (tb_cols T1) = Some c1 /\ forall r, final_name (o :: r) k (c_name c) = final_name r k (c_name c1))
  \/ (aget k (tb_cols T1) = None /\ ~ In k (added_keys [o]) /\ forall r, final_name (o :: r) k (c_name c) = None).
Proof.
  intros Hc E Hk. destruct o as [k0 c0 b a|k0|k0 a|c0|n|x|n]; cbn [edit_app] in E.
  - destruct (editA_add k0 c0 b a T T1 E) as [G [_ [_ ->]]]. left. exists c. split; [cbn [tb_cols]; apply aget_app_l; auto|reflexivity].
  - cbn [edit] in E. destruct (negb (has_key k0 T)); [discriminate|]. destruct (existsb _ (tb_idx T)); [discriminate|]. destruct (existsb _ (tb_cons T)); [discriminate|].
    inversion E; subst T1; clear E. cbn [tb_cols final_name]. destruct (name_eqb k k0) eqn:Ek.
    + right. apply name_eqb_eq in Ek. subst k0. split; [apply aget_adel_same|]. split; [cbn; tauto|reflexivity].
    + left. exists c. split; [rewrite aget_adel_other; auto; apply name_eqb_neq; auto|reflexivity].
  - cbn [edit] in E. destruct (aget k0 (tb_cols T)) as [c1|] eqn:G; [|discriminate]. destruct (mem_name _ _); [discriminate|].
    inversion E; subst T1; clear E. cbn [tb_cols final_name]. destruct (name_eqb k k0) eqn:Ek.
    + apply name_eqb_eq in Ek. subst k0. rewrite Hk in G. inversion G; subst c1. left. eexists. split; [apply aget_aset_same|]. reflexivity.
    + left. exists c. split; [rewrite aget_aset_other; auto; apply name_eqb_neq; auto|reflexivity].
  - cbn [edit] in E. destruct (_ || _); [discriminate|]. inversion E; subst T1. left. exists c. split; auto.
  - cbn [edit] in E. destruct (is_some _); [|discriminate]. inversion E; subst T1. left. exists c. split; auto.
  - cbn [edit] in E. destruct (_ || _); [discriminate|]. inversion E; subst T1. left. exists c. split; auto.
  - cbn [edit] in E. destruct (is_some _); [|discriminate]. inversion E; subst T1. left. exists c. split; auto.
Qed.

Lemma final_nameA ops : forall T T' k c, forallb in_class_a ops = true -> edit_app_all ops T = BOk T' ->
  aget k (tb_cols T) = Some c -> ~ In k (added_keys ops) ->
  final_name ops k (c_name c) = option_map c_name (aget k (tb_cols T')).
Proof.
  induction ops as [|o ops IH]; cbn [edit_app_all forallb]; intros T T' k c Hc He Hk Hn.
  - inversion He; subst. rewrite Hk. auto.
  - apply andb_true_iff in Hc. destruct Hc as [Hc1 Hc2]. destruct (edit_app o T) as [T1|] eqn:E; [|discriminate].
    destruct (added_keys_cons _ _ _ Hn) as [Hn1 Hn2].
    destruct (final_name_step o T T1 k c Hc1 E Hk) as [[c1 [G1 F1]]|[G1 [_ F1]]].
    + rewrite F1. apply (IH T1 T'); auto.
    + rewrite F1. rewrite (editA_all_absent ops T1 T' k Hc2 He G1 Hn2). auto.
Qed.

Lemma editA_keys_nodup o T T' : in_class_a o = true -> edit_app o T = BOk T' -> NoDup (akeys (tb_cols T)) -> NoDup (akeys (tb_cols T')).
Proof.
  intros Hc He Hn. destruct (is_addb o) eqn:Ea.
  - destruct o as [k c b a| | | | | |]; try discriminate. destruct (editA_add _ _ _ _ _ _ He) as [G [_ [_ ->]]]. cbn [tb_cols].
    unfold akeys. rewrite map_app. cbn. apply NoDup_snoc; auto. apply aget_none_notin; auto.
  - destruct (nonadd_edit o T Ea) as [E1 E2]. rewrite E1 in He. apply (edit_keys_nodup o T T'); auto.
Qed.
Lemma editA_all_keys_nodup ops : forall T T', forallb in_class_a ops = true -> edit_app_all ops T = BOk T' ->
  NoDup (akeys (tb_cols T)) -> NoDup (akeys (tb_cols T')).
Proof. induction ops as [|o ops IH]; cbn [edit_app_all forallb]; intros T T' Hc He Hn.
  - inversion He; subst; auto.
  - apply andb_true_iff in Hc. destruct Hc. destruct (edit_app o T) as [T1|] eqn:E; [|discriminate].
    apply (IH T1); auto. apply (editA_keys_nodup o T); auto. Qed.

(* ------------------------------------------------------------------ what the operations do not mention stays *)
Lemma aget_app_other {V} k k' (v:V) l : k <> k' -> aget k (l ++ [(k', v)]) = aget k l.
Proof. intros Hn. destruct (aget k l) eqn:G; [apply aget_app_l; auto|]. rewrite aget_app_r; auto. cbn.
  destruct (name_eqb k k') eqn:E; auto. apply name_eqb_eq in E. congruence. Qed.

Lemma editA_untouched o T T' : in_class_a o = true -> edit_app o T = BOk T' ->
  ((forall k, In k (tb_pk T) -> ~ In k (op_mentions o)) -> tb_pk T' = tb_pk T) /\
  (forall k, ~ In k (op_mentions o) -> aget k (tb_cols T') = aget k (tb_cols T)) /\
  (forall c, In c (tb_cons T) -> ~ In (k_name c) (op_mentions o) -> (forall x, In x (k_cols c) -> ~ In x (op_mentions o)) -> In c (tb_cons T')) /\
  (forall x, In x (tb_idx T) -> ~ In (x_name x) (op_mentions o) -> In x (tb_idx T')).
Proof.
  intros Hc He. destruct (is_addb o) eqn:Ea.
  - destruct o as [k c b a| | | | | |]; try discriminate. destruct (editA_add _ _ _ _ _ _ He) as [_ [_ [_ ->]]]. cbn [tb_cols tb_pk tb_cons tb_idx].
    repeat split; auto. intros k0 Hk. apply aget_app_other. intro; subst. apply Hk. cbn. auto.
  - destruct (nonadd_edit o T Ea) as [E1 E2]. rewrite E1 in He. apply (edit_untouched o T T'); auto.
Qed.

Theorem untouched_specA ops : forall T T', forallb in_class_a ops = true -> edit_app_all ops T = BOk T' ->
  ((forall k, In k (tb_pk T) -> ~ In k (mentioned ops)) -> tb_pk T' = tb_pk T) /\
  (forall k, ~ In k (mentioned ops) -> aget k (tb_cols T') = aget k (tb_cols T)) /\
  (forall c, In c (tb_cons T) -> ~ In (k_name c) (mentioned ops) -> (forall x, In x (k_cols c) -> ~ In x (mentioned ops)) -> In c (tb_cons T')) /\
  (forall x, In x (tb_idx T) -> ~ In (x_name x) (mentioned ops) -> In x (tb_idx T')).
Proof.
  induction ops as [|o ops IH]; cbn [edit_app_all forallb mentioned flat_map]; intros T T' Hc He.
  - inversion He; subst. repeat split; auto.
  - apply andb_true_iff in Hc. destruct Hc as [Hc1 Hc2]. destruct (edit_app o T) as [T1|] eqn:E; [|discriminate].
    destruct (editA_untouched o T T1 Hc1 E) as [A0 [A1 [A2 A3]]]. destruct (IH T1 T' Hc2 He) as [B0 [B1 [B2 B3]]].
    split; [|repeat split].
    + intros Hpk. assert (E1 : tb_pk T1 = tb_pk T) by (apply A0; intros k Hk Hm; apply (Hpk k Hk); apply in_or_app; auto).
      rewrite <- E1. apply B0. intros k Hk Hm. rewrite E1 in Hk. apply (Hpk k Hk). apply in_or_app; auto.
    + intros k Hk. rewrite B1, A1; auto; intro; apply Hk; apply in_or_app; auto.
    + intros c Hc Hn Hx. apply B2; [apply A2; auto| |]; try (intro; apply Hn; apply in_or_app; auto);
        intros x Hxc Hm; apply (Hx x Hxc); apply in_or_app; auto.
    + intros x Hx Hn. apply B3; [apply A3; auto|]; intro; apply Hn; apply in_or_app; auto.
Qed.

Theorem untouched_pkA ops T T' : forallb in_class_a ops = true -> edit_app_all ops T = BOk T' ->
  (forall k, In k (tb_pk T) -> ~ In k (mentioned ops)) -> n_pk (describe T') = n_pk (describe T).
Proof.
  intros Hc He Hpk. destruct (untouched_specA ops T T' Hc He) as [B0 [B1 _]].
  unfold describe; cbn [n_pk]. rewrite (B0 Hpk). apply map_ext_in. intros k Hk. unfold cur_name. rewrite B1; auto.
Qed.

(* a non-primary constraint stays until it is dropped by name *)
Lemma nonprimary_keptA ops : forall T T' c, forallb in_class_a ops = true -> edit_app_all ops T = BOk T' ->
  In c (tb_cons T) -> is_primary c = false -> existsb (is_drop_con (k_name c)) ops = false -> In c (tb_cons T').
Proof.
  induction ops as [|o ops IH]; cbn [edit_app_all forallb existsb]; intros T T' c Hc He Hin Hp Hd.
  - inversion He; subst; auto.
  - apply andb_true_iff in Hc. destruct Hc as [Hc1 Hc2]. apply orb_false_iff in Hd. destruct Hd as [Hd1 Hd2].
    destruct (edit_app o T) as [T1|] eqn:E; [|discriminate]. eapply IH; [exact Hc2|exact He| |exact Hp|exact Hd2].
    destruct o as [k0 c0 b a|k0|k0 a|c0|n|x|n]; cbn [edit_app] in E.
    + destruct (editA_add k0 c0 b a T T1 E) as [_ [_ [_ ->]]]. auto.
    + cbn [edit] in E. destruct (negb (has_key k0 T)); [discriminate|]. destruct (existsb _ (tb_idx T)); [discriminate|]. destruct (existsb _ (tb_cons T)); [discriminate|].
      inversion E; subst T1; cbn. apply in_map_iff. exists c. split; auto. unfold pk_drop_col. rewrite Hp. auto.
    + cbn [edit] in E. destruct (aget k0 (tb_cols T)); [|discriminate]. destruct (mem_name _ _); [discriminate|]. inversion E; subst T1; auto.
    + cbn [edit] in E. destruct (_ || _); [discriminate|]. inversion E; subst T1; cbn. apply in_or_app; auto.
    + cbn [edit] in E. destruct (is_some _); [|discriminate]. inversion E; subst T1; cbn. unfold con_del. apply filter_In. split; auto.
      cbn in Hd1. rewrite name_eqb_sym. rewrite Hd1. auto.
    + cbn [edit] in E. destruct (_ || _); [discriminate|]. inversion E; subst T1; auto.
    + cbn [edit] in E. destruct (is_some _); [|discriminate]. inversion E; subst T1; auto.
Qed.

Lemma requested_okA all ops : forall T T', forallb in_class_a ops = true -> edit_app_all ops T = BOk T' ->
  requested_ok_from all ops (describe T') = true.
Proof.
  induction ops as [|o ops IH]; cbn [edit_app_all forallb requested_ok_from]; intros T T' Hc He; auto.
  apply andb_true_iff in Hc. destruct Hc as [Hc1 Hc2]. destruct (edit_app o T) as [T1|] eqn:E; [|discriminate].
  pose proof (IH T1 T' Hc2 He) as Hr.
  destruct o as [k0 c0 b a|k0|k0 a|c0|n|x|n]; auto.
  rewrite Hr, andb_true_r.
  destruct (existsb (is_drop_con (k_name c0)) ops) eqn:Ed; [reflexivity|].
  cbn in Hc1. apply negb_true_iff in Hc1.
  cbn [edit_app edit] in E. destruct (_ || _); [discriminate|]. inversion E; subst T1; clear E.
  assert (Hin : In c0 (tb_cons T')).
  { eapply nonprimary_keptA; [exact Hc2|exact He| |exact Hc1|exact Ed]. cbn. apply in_or_app; simpl; auto. }
  rewrite !orb_true_iff. right. apply mem_name_In. cbn [describe n_cons]. rewrite map_map. cbn.
  change (k_name c0) with ((fun c => k_name c) c0). apply in_map. apply filter_In. split; auto.
  unfold con_visible. rewrite Hc1. auto.
Qed.

(* ------------------------------------------------------------------ untouched columns keep definition and relative order *)
Section UntouchedA.
  Variable M : list name.
  Let f (c:col) : bool := negb (mem_name (c_name c) M).
  Lemma untouched_colsA ops : forall T T', forallb in_class_a ops = true -> edit_app_all ops T = BOk T' ->
    incl (mentioned ops) M -> JM M T ->
    filter f (map snd (tb_cols T)) = filter f (map snd (tb_cols T')).
  Proof.
    induction ops as [|o ops IH]; cbn [edit_app_all forallb mentioned flat_map]; intros T T' Hc He Hm HJ.
    - inversion He; subst; auto.
    - apply andb_true_iff in Hc. destruct Hc as [Hc1 Hc2]. destruct (edit_app o T) as [T1|] eqn:E; [|discriminate].
      assert (Hm1 : incl (op_mentions o) M) by (intros x Hx; apply Hm; apply in_or_app; auto).
      assert (Hm2 : incl (mentioned ops) M) by (intros x Hx; apply Hm; apply in_or_app; auto).
      assert (Hbad : forall k c, In k M -> In (k, c) (tb_cols T) -> f c = false).
      { intros k c Hk Hin. unfold f. apply negb_false_iff. apply mem_name_In. destruct (HJ k c Hin) as [->|?]; auto. }
      destruct o as [k0 c0 b a|k0|k0 a|c0|n|x|n]; cbn [edit_app edit] in E.
      + destruct (editA_add k0 c0 b a T T1 E) as [G [_ [Hnm ->]]]. rewrite <- (IH _ T' Hc2 He Hm2).
        * cbn [tb_cols]. rewrite map_app, filter_app. cbn. unfold f at 3. rewrite Hnm.
          replace (mem_name k0 M) with true by (symmetry; apply mem_name_In; apply Hm1; cbn; auto). cbn. rewrite app_nil_r. auto.
        * intros k c Hin. cbn [tb_cols] in Hin. apply in_app_or in Hin. destruct Hin as [Hin|[E1|[]]]; [apply HJ; auto|]. inversion E1; subst. auto.
      + destruct (negb (has_key k0 T)); [discriminate|]. destruct (existsb _ (tb_idx T)); [discriminate|]. destruct (existsb _ (tb_cons T)); [discriminate|].
        inversion E; subst T1; clear E. rewrite <- (IH _ T' Hc2 He Hm2).
        * cbn [tb_cols]. symmetry. apply filter_adel_irrel. intros c Hin. apply (Hbad k0); auto. apply Hm1. simpl; auto.
        * intros k c Hin. cbn [tb_cols] in Hin. unfold adel in Hin. apply filter_In in Hin. apply HJ; tauto.
      + destruct (aget k0 (tb_cols T)) as [c|] eqn:G; [|discriminate]. destruct (mem_name _ _); [discriminate|].
        inversion E; subst T1; clear E.
        assert (Hk0 : In k0 M) by (apply Hm1; simpl; auto).
        assert (Hfc : f c = false) by (apply (Hbad k0); auto; apply aget_in; auto).
        match goal with He : edit_app_all ops (mkTbl (aset k0 ?c1 _) _ _ _) = _ |- _ => set (cn := c1) in * end.
        assert (Hcn : c_name cn = c_name c \/ In (c_name cn) M).
        { unfold cn; cbn. destruct (al_name a) as [nn|] eqn:Ea; auto. right. apply Hm1. cbn. rewrite Ea. simpl; auto. }
        assert (Hfn : f cn = false).
        { destruct Hcn as [Ec|Hi]; [unfold f in *; rewrite Ec; auto|]. unfold f. apply negb_false_iff. apply mem_name_In; auto. }
        rewrite <- (IH _ T' Hc2 He Hm2).
        * cbn [tb_cols]. symmetry. apply (filter_aset_irrel M k0 c cn); auto.
        * intros k c2 Hin. cbn [tb_cols] in Hin. apply in_aset in Hin. destruct Hin as [Hin|[Ein|[k' [Ek Ein]]]].
          -- apply HJ; auto.
          -- inversion Ein; subst. destruct Hcn as [Ec|Hi]; auto. rewrite Ec. apply (HJ k0 c). apply aget_in; auto.
          -- inversion Ein; subst. apply name_eqb_eq in Ek. subst k'. destruct Hcn as [Ec|Hi]; auto. rewrite Ec. apply (HJ k0 c). apply aget_in; auto.
      + destruct (_ || _); [discriminate|]. inversion E; subst T1. apply (IH _ T' Hc2 He Hm2); auto.
      + destruct (is_some _); [|discriminate]. inversion E; subst T1. apply (IH _ T' Hc2 He Hm2); auto.
      + destruct (_ || _); [discriminate|]. inversion E; subst T1. apply (IH _ T' Hc2 He Hm2); auto.
      + destruct (is_some _); [|discriminate]. inversion E; subst T1. apply (IH _ T' Hc2 He Hm2); auto.
  Qed.
End UntouchedA.

(* ------------------------------------------------------------------ the CAST list of every transfer, with added columns around *)
Definition CSA (T0:tbl) (seen:list key) (s:bstate) : Prop :=
  forall k tr c src cs, aget k (b_tr s) = Some tr -> aget k (b_cols s) = Some c -> tr_expr tr = Some (src, cs) ->
    src = k /\ exists c0, aget k (tb_cols T0) = Some c0 /\
      (if mem_name k seen then cs = (if N.eqb (affinity (c_ty c0)) (affinity (c_ty c)) then [] else [c_ty c])
       else cs = [] /\ c_ty c = c_ty c0).

Lemma CSA_init T0 : NoDup (akeys (tb_cols T0)) -> CSA T0 [] (init T0).
Proof.
  intros Hn k tr c src cs Ht Hc He. cbn in Ht, Hc.
  assert (Hx : tr = mkTr (Some (k, [])) None).
  { clear Hc Hn He. induction (tb_cols T0) as [|[k1 c1] l IH]; simpl in *; [discriminate|].
    destruct (name_eqb k k1) eqn:E; [|auto]. apply name_eqb_eq in E. subst. inversion Ht; auto. }
  subst tr. cbn in He. inversion He; subst. split; auto. exists c. split; [exact Hc|]. cbn. auto.
Qed.

Definition seen_after (o:batch_op) (seen:list key) : list key :=
  match o with OAlterColumn k a => match al_type a with Some _ => k :: seen | None => seen end | _ => seen end.

Lemma CSA_step T0 o : forall s s' seen, CSA T0 seen s -> apply_batch_op o s = BOk s' ->
  types_once seen [o] = true -> CSA T0 (seen_after o seen) s'.
Proof.
  intros s s' seen HCS Hm Hty.
  destruct o as [k0 c0 b a|k0|k0 a|c0|n|x|n]; cbn [apply_batch_op seen_after] in *.
  - (* add *)
    destruct (setup_dependencies s k0 b a); [|discriminate]. inversion Hm; subst s'; clear Hm.
    intros k tr c src cs Ht Hcc He. cbn [b_tr b_cols] in Ht, Hcc. destruct (name_eqb k k0) eqn:E.
    + apply name_eqb_eq in E. subst. rewrite aget_aset_same in Ht. inversion Ht; subst tr. cbn in He. discriminate.
    + apply name_eqb_neq in E. rewrite aget_aset_other in Ht; auto. rewrite aget_aset_other in Hcc; auto. eapply HCS; eauto.
  - (* drop *)
    destruct (aget k0 (b_cols s)) as [cx|]; [|discriminate]. destruct (mem_name k0 (b_existing s)); [|discriminate].
    inversion Hm; subst s'; clear Hm. intros k tr c src cs Ht Hcc He. cbn [b_tr b_cols] in Ht, Hcc.
    destruct (name_eqb k k0) eqn:E.
    + apply name_eqb_eq in E. subst. rewrite aget_adel_same in Ht. discriminate.
    + apply name_eqb_neq in E. rewrite aget_adel_other in Ht; auto. rewrite aget_adel_other in Hcc; auto. eapply HCS; eauto.
  - (* alter *)
    destruct (aget k0 (b_cols s)) as [c|] eqn:G; [|discriminate]. destruct (aget k0 (b_tr s)) as [t|] eqn:Gt; [|discriminate].
    inversion Hm; subst s'; clear Hm. intros k tr c' src cs' Ht Hcc He. cbn [b_tr b_cols] in Ht, Hcc.
    destruct (name_eqb k k0) eqn:E.
    + apply name_eqb_eq in E. subst k0. rewrite aget_aset_same in Ht. rewrite aget_aset_same in Hcc. inversion Ht; inversion Hcc; subst tr c'; clear Ht Hcc.
      destruct (tr_expr t) as [[src0 cs0]|] eqn:Et.
      2:{ exfalso. destruct a as [an aty anl adf]; cbn in He. destruct an as [n|]; [destruct (negb (name_eqb n (c_name c)))|];
            destruct aty as [nt|]; cbn in He; try (destruct (N.eqb _ _)); cbn in He; rewrite ?Et in He; discriminate. }
      destruct (HCS k t c src0 cs0 Gt G Et) as [Hs [c1 [H2 H3]]]. subst src0.
      cbn [types_once] in Hty. destruct a as [an aty anl adf]; cbn [al_name al_type al_nullable al_default] in *.
      assert (Hmem : mem_name k (k :: seen) = true) by (cbn; rewrite name_eqb_refl; auto).
      destruct aty as [nt|].
      * rewrite andb_true_r in Hty. apply negb_true_iff in Hty. rewrite Hty in H3. destruct H3 as [-> H3].
        assert (Hcs : src = k /\ cs' = (if N.eqb (affinity (c_ty c)) (affinity nt) then [] else [nt])).
        { destruct an as [n|]; [destruct (negb (name_eqb n (c_name c)))|]; cbn in He;
            destruct (N.eqb (affinity (c_ty c)) (affinity nt)); cbn in He; rewrite ?Et in He; inversion He; auto. }
        destruct Hcs as [-> ->]. split; auto. exists c1. split; auto. rewrite Hmem. rewrite <- H3.
        destruct an as [n|]; [destruct (negb (name_eqb n (c_name c)))|]; destruct anl, adf; cbn; auto.
      * assert (Hcs : src = k /\ cs' = cs0).
        { destruct an as [n|]; [destruct (negb (name_eqb n (c_name c)))|]; cbn in He; rewrite ?Et in He; inversion He; auto. }
        destruct Hcs as [-> ->]. split; auto. exists c1. split; auto.
        destruct an as [n|]; [destruct (negb (name_eqb n (c_name c)))|]; destruct anl, adf; cbn; auto.
    + apply name_eqb_neq in E. rewrite aget_aset_other in Ht; auto. rewrite aget_aset_other in Hcc; auto.
      destruct (HCS k tr c' src cs' Ht Hcc He) as [Hs [c1 [H2 H3]]]. split; auto. exists c1. split; auto.
      destruct (al_type a); auto. cbn. destruct (name_eqb k k0) eqn:E2; [apply name_eqb_eq in E2; congruence|]. auto.
  - inversion Hm; subst s'; auto.
  - destruct (con_get n (b_named s)); [|discriminate]. inversion Hm; subst s'; auto.
  - inversion Hm; subst s'; auto.
  - destruct (idx_get n (b_idx s)); [|discriminate]. inversion Hm; subst s'; auto.
Qed.

Lemma CSA_ops T0 ops : forall s s' seen, types_once seen ops = true -> CSA T0 seen s ->
  apply_ops ops s = BOk s' -> exists seen', CSA T0 seen' s'.
Proof.
  induction ops as [|o ops IH]; cbn [apply_ops]; intros s s' seen Hty HCS Hm.
  - inversion Hm; subst. eauto.
  - destruct (apply_batch_op o s) as [s1|] eqn:A; [|discriminate].
    assert (H1 : types_once seen [o] = true /\ types_once (seen_after o seen) ops = true).
    { destruct o as [k0 c0 b a|k0|k0 a|c0|n|x|n]; cbn [types_once seen_after] in *; auto.
      destruct (al_type a); auto. apply andb_true_iff in Hty. destruct Hty as [Ha Hb]. rewrite Ha. auto. }
    destruct H1 as [H1 H2]. eapply IH; [exact H2| |exact Hm]. apply (CSA_step T0 o s s1 seen); auto.
Qed.

(* ------------------------------------------------------------------ the class with add_column: default placement (appended) *)
Notation plain_op := in_class_p.
Lemma plain_class_a o : plain_op o = true -> in_class_a o = true.
Proof. unfold in_class_p. rewrite andb_true_iff. tauto. Qed.
Lemma plain_all_class_a ops : forallb plain_op ops = true -> forallb in_class_a ops = true.
Proof. rewrite !forallb_forall. intros H x Hx. apply plain_class_a; auto. Qed.
Lemma plain_edit o T : plain_op o = true -> edit o T = edit_app o T.
Proof. destruct o as [k c [b|] [a|]| | | | | |]; cbn; auto; try discriminate. Qed.
Lemma plain_edit_all ops : forall T, forallb plain_op ops = true -> edit_all ops T = edit_app_all ops T.
Proof. induction ops as [|o ops IH]; cbn; auto. intros T H. apply andb_true_iff in H. destruct H as [H1 H2].
  rewrite (plain_edit o T H1). destruct (edit_app o T); auto. Qed.

Lemma last_opt_snoc (l:list key) x : last_opt (l ++ [x]) = Some x.
Proof. unfold last_opt. rewrite rev_app_distr. reflexivity. Qed.
Lemma last_opt_some (l:list key) x : last_opt l = Some x -> exists l', l = l' ++ [x].
Proof. unfold last_opt. destruct (rev l) as [|y r] eqn:E; [discriminate|]. intros H. inversion H; subst.
  exists (rev r). rewrite <- (rev_involutive l), E. reflexivity. Qed.
Lemma last_opt_remove (l:list key) x k : last_opt l = Some x -> x <> k -> last_opt (remove_name k l) = Some x.
Proof. intros H Hn. destruct (last_opt_some _ _ H) as [l' ->]. rewrite remove_name_app. cbn.
  destruct (name_eqb k x) eqn:E; [apply name_eqb_eq in E; congruence|]. cbn. apply last_opt_snoc. Qed.
Lemma last_opt_in (l:list key) x : last_opt l = Some x -> In x l.
Proof. intros H. destruct (last_opt_some _ _ H) as [l' ->]. apply in_or_app; simpl; auto. Qed.

(* along the run: the surviving original columns are original; every other column was added; an added column is recorded
   right after the column that is last among the surviving originals *)
Record PL (T0:tbl) (A:list key) (s:bstate) : Prop := mkPL {
  pl_orig : incl (b_existing s) (akeys (tb_cols T0));
  pl_added : forall z, In z (akeys (b_cols s)) -> ~ In z (b_existing s) -> In z A;
  pl_pair : forall z l, In z (akeys (b_cols s)) -> ~ In z (b_existing s) -> last_opt (b_existing s) = Some l -> In (l, z) (b_order s) }.

Lemma PL_init T0 A : PL T0 A (init T0).
Proof. constructor; cbn; auto; try tauto. intros x; auto. Qed.

Definition drop_ok (o:batch_op) (s:bstate) : bool :=
  match o with ODropColumn k => negb (mem_name k (order_keys s)) | _ => true end.

Lemma PL_step T0 A o s s' T : plain_op o = true -> drop_ok o s = true -> incl (added_keys [o]) A -> InvA s T ->
  PL T0 A s -> apply_batch_op o s = BOk s' -> PL T0 A s'.
Proof.
  intros Hc Hd HA HI [P1 P2 P3] Hm.
  destruct o as [k c b a|k|k a|c|n|x|n]; cbn [apply_batch_op] in Hm.
  - (* add, default placement *)
    destruct b as [b|]; [unfold in_class_p in Hc; cbn in Hc; rewrite ?andb_false_r in Hc; discriminate|].
    destruct a as [a|]; [unfold in_class_p in Hc; cbn in Hc; rewrite ?andb_false_r in Hc; discriminate|].
    unfold setup_dependencies in Hm. rewrite (ia_part _ _ HI) in Hm. cbn in Hm.
    assert (Ho : forall z, In z (akeys (aset k c (b_cols s))) -> In z (akeys (b_cols s)) \/ z = k).
    { intros z Hz. unfold akeys in Hz. apply in_map_iff in Hz. destruct Hz as [[z' c'] [E Hin]]. cbn in E. subst z'.
      apply in_aset in Hin. destruct Hin as [Hin|[E|[k' [Ek E]]]].
      - left. unfold akeys. change z with (fst (z, c')). apply in_map; auto.
      - inversion E; auto.
      - inversion E; subst. apply name_eqb_eq in Ek. auto. }
    destruct (last_opt (b_existing s)) as [l|] eqn:El; inversion Hm; subst s'; clear Hm; constructor; cbn [b_existing b_cols b_order]; auto.
    + intros z Hz Hn. destruct (Ho z Hz) as [H | ->]; auto. apply HA. cbn. auto.
    + intros z l0 Hz Hn Hl. rewrite El in Hl. inversion Hl; subst l0. apply in_or_app. destruct (Ho z Hz) as [H | ->]; [left; apply P3; auto|right; simpl; auto].
    + intros z Hz Hn. destruct (Ho z Hz) as [H | ->]; auto. apply HA. cbn. auto.
    + intros z l0 Hz Hn Hl. rewrite El in Hl. discriminate.
  - (* drop *)
    destruct (aget k (b_cols s)) eqn:G; [|discriminate]. destruct (mem_name k (b_existing s)) eqn:Ek; [|discriminate].
    inversion Hm; subst s'; clear Hm. cbn in Hd. apply negb_true_iff, mem_name_false in Hd. apply mem_name_In in Ek.
    assert (Hz' : forall z, In z (akeys (adel k (b_cols s))) -> ~ In z (remove_name k (b_existing s)) -> In z (akeys (b_cols s)) /\ ~ In z (b_existing s)).
    { intros z Hz Hn. rewrite akeys_adel in Hz. apply remove_name_In in Hz. destruct Hz as [Hz Hne]. split; auto.
      intro He. apply Hn. apply remove_name_In. auto. }
    constructor; cbn [b_existing b_cols b_order].
    + intros x Hx. apply remove_name_In in Hx. apply P1. tauto.
    + intros z Hz Hn. destruct (Hz' z Hz Hn). auto.
    + intros z l Hz Hn Hl. destruct (Hz' z Hz Hn) as [H1 H2].
      destruct (last_opt (b_existing s)) as [l0|] eqn:El.
      * pose proof (P3 z l0 H1 H2 eq_refl) as Hp.
        assert (Hl0 : l0 <> k). { intro; subst. apply Hd. unfold order_keys. apply in_flat_map. exists (k, z). split; auto. simpl; auto. }
        rewrite (last_opt_remove _ _ _ El Hl0) in Hl. inversion Hl; subst. auto.
      * exfalso. unfold last_opt in El. destruct (rev (b_existing s)) eqn:Er; [|discriminate].
        assert (b_existing s = []) by (rewrite <- (rev_involutive (b_existing s)), Er; auto). rewrite H in Ek. destruct Ek.
  - (* alter *)
    destruct (aget k (b_cols s)) eqn:G; [|discriminate]. destruct (aget k (b_tr s)); [|discriminate].
    inversion Hm; subst s'; clear Hm. constructor; cbn [b_existing b_cols b_order]; auto; intros z; rewrite akeys_aset by congruence; auto.
  - inversion Hm; subst s'. constructor; auto.
  - destruct (con_get n (b_named s)); [|discriminate]. inversion Hm; subst s'. constructor; auto.
  - inversion Hm; subst s'. constructor; auto.
  - destruct (idx_get n (b_idx s)); [|discriminate]. inversion Hm; subst s'. constructor; auto.
Qed.

Lemma placement_drop_ok o ops s : placement_ok (o :: ops) s = true -> drop_ok o s = true.
Proof. cbn [placement_ok]. intros H. apply andb_true_iff in H. destruct H as [H _]. destruct o as [k c [b|] [a|]| | | | | |]; cbn; auto. Qed.
Lemma placement_tail o ops s s1 : placement_ok (o :: ops) s = true -> apply_batch_op o s = BOk s1 -> placement_ok ops s1 = true.
Proof. cbn [placement_ok]. intros H A. apply andb_true_iff in H. destruct H as [_ H]. rewrite A in H. auto. Qed.
Lemma added_keys_incl_cons o ops A : incl (added_keys (o :: ops)) A -> incl (added_keys [o]) A /\ incl (added_keys ops) A.
Proof. destruct o as [k c b a| | | | | |]; cbn; intros H; split; auto; try (intros y0 Hy0; inversion Hy0; fail).
  - intros y0 [<-|[]]. apply H. simpl; auto.
  - intros y0 Hy. apply H. simpl; auto. Qed.

Lemma PL_ops T0 A ops : forall s T s' T', forallb plain_op ops = true -> placement_ok ops s = true -> incl (added_keys ops) A ->
  InvA s T -> PL T0 A s -> apply_ops ops s = BOk s' -> edit_app_all ops T = BOk T' -> PL T0 A s' /\ InvA s' T'.
Proof.
  induction ops as [|o ops IH]; cbn [apply_ops edit_app_all forallb]; intros s T s' T' Hc Hp HA HI HP Hm He.
  - inversion Hm; inversion He; subst; auto.
  - apply andb_true_iff in Hc. destruct Hc as [Hc1 Hc2].
    destruct (apply_batch_op o s) as [s1|] eqn:Ao; [|discriminate]. destruct (edit_app o T) as [T1|] eqn:E; [|discriminate].
    destruct (added_keys_incl_cons _ _ _ HA) as [HA1 HA2].
    apply (IH s1 T1); auto.
    + apply (placement_tail o ops s); auto.
    + apply (stepA o s s1 T T1); auto. apply plain_class_a; auto.
    + apply (PL_step T0 A o s s1 T); auto. apply (placement_drop_ok o ops); auto.
Qed.

(* ------------------------------------------------------------------ the names of the added columns *)
Lemma added_names_spec ops : forall T T', forallb in_class_a ops = true -> edit_app_all ops T = BOk T' ->
  NoDup (added_keys ops) -> (forall a, In a (added_keys ops) -> aget a (tb_cols T) = None) ->
  forall n, In n (added_names ops) <-> exists k c', In k (added_keys ops) /\ aget k (tb_cols T') = Some c' /\ c_name c' = n.
Proof.
  induction ops as [|o ops IH]; cbn [edit_app_all forallb]; intros T T' Hc He Hn Hf n.
  - cbn. split; [tauto|]. intros [k [c' [[] _]]].
  - apply andb_true_iff in Hc. destruct Hc as [Hc1 Hc2]. destruct (edit_app o T) as [T1|] eqn:E; [|discriminate].
    destruct (is_addb o) eqn:Ea.
    + destruct o as [k c b a| | | | | |]; try discriminate. cbn [added_keys added_names] in *.
      inversion Hn as [|? ? Hk Hn']; subst.
      destruct (editA_add k c b a T T1 E) as [G [_ [Hnm ET1]]].
      assert (Hk1 : aget k (tb_cols T1) = Some c) by (rewrite ET1; cbn [tb_cols]; rewrite aget_app_r; auto; cbn; rewrite name_eqb_refl; auto).
      assert (Hf1 : forall a0, In a0 (added_keys ops) -> aget a0 (tb_cols T1) = None).
      { intros a0 Ha0. rewrite ET1. cbn [tb_cols]. rewrite aget_app_other; [apply Hf; simpl; auto|]. intro; subst. auto. }
      rewrite (final_nameA ops T1 T' k c Hc2 He Hk1 Hk). rewrite in_app_iff, (IH T1 T' Hc2 He Hn' Hf1 n). split.
      * intros [H|[k2 [c2 [H1 [H2 H3]]]]]; [|exists k2, c2; simpl; auto].
        destruct (aget k (tb_cols T')) as [c2|] eqn:G2; cbn in H; [|destruct H]. destruct H as [<-|[]]. exists k, c2. simpl; auto.
      * intros [k2 [c2 [[<-|H1] [H2 H3]]]]; [left; rewrite H2; cbn; auto|right; eauto].
    + assert (Hak : added_keys (o :: ops) = added_keys ops) by (destruct o; try discriminate; auto).
      assert (Han : added_names (o :: ops) = added_names ops) by (destruct o; try discriminate; auto).
      rewrite Hak in *. rewrite Han. apply (IH T1 T'); auto.
      intros a0 Ha0. apply (editA_absent o T T1 a0); auto. destruct o; try discriminate; cbn; tauto.
Qed.

Lemma added_names_mentioned ops : forall n, In n (added_names ops) -> In n (mentioned ops).
Proof.
  induction ops as [|o ops IH]; cbn [added_names mentioned flat_map]; intros n H; [destruct H|].
  destruct o as [k c b a| | | | | |]; try (apply in_or_app; right; apply IH; exact H).
  apply in_app_or in H. destruct H as [H|H]; [|apply in_or_app; right; apply IH; auto].
  destruct (final_name ops k (c_name c)) as [n0|] eqn:F; [|destruct H]. destruct H as [<-|[]].
  destruct (final_name_mentioned _ _ _ _ F) as [->|Hm]; apply in_or_app; [left; cbn; auto|right; auto].
Qed.

(* ------------------------------------------------------------------ anchors, at the level of keys *)
Fixpoint kanchor (isZ:key -> bool) (prev:option key) (l:list key) (z:key) : option (option key) :=
  match l with
  | [] => None
  | x :: r => if name_eqb x z then Some prev else kanchor isZ (if isZ x then prev else Some x) r z
  end.

Lemma kanchor_split isZ : forall S1 prev z S2, ~ In z S1 ->
  kanchor isZ prev (S1 ++ z :: S2) z = Some (match last_opt (filter (fun x => negb (isZ x)) S1) with Some e => Some e | None => prev end).
Proof.
  induction S1 as [|x S1 IH]; intros prev z S2 Hn; cbn [app kanchor].
  - rewrite name_eqb_refl. reflexivity.
  - destruct (name_eqb x z) eqn:E; [apply name_eqb_eq in E; subst; exfalso; apply Hn; simpl; auto|].
    rewrite IH by (intro; apply Hn; simpl; auto). cbn [filter]. destruct (isZ x); cbn [negb]; auto.
    f_equal. change (x :: filter (fun x0 => negb (isZ x0)) S1) with ([x] ++ filter (fun x0 => negb (isZ x0)) S1).
    destruct (last_opt (filter (fun x0 => negb (isZ x0)) S1)) as [e|] eqn:El.
    + destruct (last_opt_some _ _ El) as [l' ->]. rewrite app_assoc, last_opt_snoc. auto.
    + unfold last_opt in El. destruct (rev (filter (fun x0 => negb (isZ x0)) S1)) eqn:Er; [|discriminate].
      assert (Hnil : filter (fun x0 => negb (isZ x0)) S1 = []) by (rewrite <- (rev_involutive (filter _ S1)), Er; auto).
      rewrite Hnil. reflexivity.
Qed.

Section AnchorNames.
  Variable cols : list (key * col).
  Variable A : list name.
  Variable isZ : key -> bool.
  Let nm (k:key) : name := c_name (getc cols k).
  Variable S : list key.
  Hypothesis Hinj : forall x y, In x S -> In y S -> nm x = nm y -> x = y.
  Hypothesis HZ : forall x, In x S -> mem_name (nm x) A = isZ x.

  Lemma anchor_keys : forall l prev z, incl l S -> In z S ->
    anchor_from A (option_map nm prev) (map (getc cols) l) (nm z) = option_map (option_map nm) (kanchor isZ prev l z).
  Proof.
    induction l as [|x l IH]; intros prev z Hl Hz; cbn [map anchor_from kanchor]; auto.
    assert (Hx : In x S) by (apply Hl; simpl; auto).
    fold (nm x). destruct (name_eqb x z) eqn:E.
    - apply name_eqb_eq in E. subst. rewrite name_eqb_refl. reflexivity.
    - assert (En : name_eqb (nm x) (nm z) = false).
      { apply name_eqb_neq. intro H. apply Hinj in H; auto. subst. rewrite name_eqb_refl in E. discriminate. }
      rewrite En, (HZ x Hx). rewrite <- IH; [|intros y Hy; apply Hl; simpl; auto|auto].
      destruct (isZ x); reflexivity.
  Qed.
End AnchorNames.

Lemma precedes_in_prefix a z S1 S2 : NoDup (S1 ++ z :: S2) -> precedes a z (S1 ++ z :: S2) -> In a S1.
Proof.
  intros Hn [i [j [Hi [Hj Hl]]]]. destruct (mem_name a S1) eqn:E; [apply mem_name_In; auto|]. apply mem_name_false in E.
  assert (Hz : ~ In z S1) by (intro Hz; apply (NoDup_app_notin S1 (z :: S2) z Hn Hz); simpl; auto).
  rewrite index_of_app_r in Hi, Hj; auto. cbn in Hj. rewrite name_eqb_refl in Hj. cbn in Hj. inversion Hj; subst j.
  destruct (index_of a (z :: S2)) eqn:Ei; cbn in Hi; inversion Hi; subst. lia.
Qed.

Lemma prefix_with_last (P Q:list key) l : NoDup (P ++ Q) -> last_opt (P ++ Q) = Some l -> In l P -> Q = [].
Proof.
  intros Hn Hl Hp. destruct Q as [|q Q]; auto. exfalso.
  assert (Hq : In l (q :: Q)).
  { destruct (last_opt_some _ _ Hl) as [l' E]. assert (Hr : rev (P ++ q :: Q) = rev (l' ++ [l])) by congruence.
    rewrite !rev_app_distr in Hr. cbn in Hr. destruct (rev Q) as [|r0 R] eqn:ER; cbn in Hr.
    - inversion Hr. simpl; auto.
    - inversion Hr. subst r0. right. apply in_rev. rewrite ER. simpl; auto. }
  apply (NoDup_app_notin P (q :: Q) l Hn Hp Hq).
Qed.

Lemma last_opt_none (l:list key) : last_opt l = None -> l = [].
Proof. unfold last_opt. destruct (rev l) eqn:Er; [|discriminate]. intros _. rewrite <- (rev_involutive l), Er. auto. Qed.

Lemma gaps_keys E zs sorted z :
  NoDup (E ++ zs) -> NoDup sorted -> (forall x, In x sorted <-> In x (E ++ zs)) ->
  filter (fun k => mem_name k E) sorted = E -> In z zs ->
  (forall l, last_opt E = Some l -> precedes l z sorted) ->
  kanchor (fun x => negb (mem_name x E)) None sorted z = kanchor (fun x => negb (mem_name x E)) None (E ++ zs) z.
Proof.
  intros Hn Hns Hm Hf Hz Hp.
  assert (HzE : ~ In z E) by (intro H; apply (NoDup_app_notin E zs z Hn H Hz)).
  assert (Hfe : forall l, filter (fun x => negb (negb (mem_name x E))) l = filter (fun k => mem_name k E) l).
  { intros l. apply filter_ext_in'. intros x _. destruct (mem_name x E); auto. }
  (* in the specification's order *)
  destruct (in_split z zs Hz) as [z1 [z2 Ez]].
  assert (Hn1 : NoDup ((E ++ z1) ++ z :: z2)) by (rewrite <- app_assoc; rewrite <- Ez; auto).
  assert (Hz1 : ~ In z (E ++ z1)) by (intro H; apply (NoDup_app_notin (E ++ z1) (z :: z2) z Hn1 H); simpl; auto).
  replace (E ++ zs) with ((E ++ z1) ++ z :: z2) by (rewrite <- app_assoc, Ez; auto).
  rewrite (kanchor_split _ (E ++ z1) None z z2 Hz1), Hfe.
  rewrite (filter_in_app_l E z1) by (apply (NoDup_app_l _ (z :: z2)); auto).
  (* in the sorted order *)
  assert (Hzs : In z sorted) by (apply Hm; apply in_or_app; auto).
  destruct (in_split z sorted Hzs) as [S1 [S2 Es]]. subst sorted.
  assert (HzS : ~ In z S1) by (intro H; apply (NoDup_app_notin S1 (z :: S2) z Hns H); simpl; auto).
  rewrite (kanchor_split _ S1 None z S2 HzS), Hfe. f_equal.
  rewrite filter_app in Hf. cbn [filter] in Hf. destruct (mem_name z E) eqn:Emz; [apply mem_name_In in Emz; tauto|].
  destruct (last_opt E) as [l|] eqn:El.
  - assert (Hl1 : In l S1) by (apply (precedes_in_prefix l z S1 S2); auto).
    assert (HlP : In l (filter (fun k => mem_name k E) S1)) by (apply filter_In; split; auto; apply mem_name_In; apply last_opt_in; auto).
    assert (HQ : filter (fun k => mem_name k E) S2 = []).
    { pose proof (NoDup_app_l _ zs Hn) as HnE. pose proof El as El'. rewrite <- Hf in HnE, El'.
      apply (prefix_with_last _ _ l HnE El' HlP). }
    rewrite HQ, app_nil_r in Hf. rewrite Hf, El. auto.
  - apply last_opt_none in El. subst E. apply app_eq_nil in Hf. destruct Hf as [Hf _].
    match goal with |- context [last_opt (filter ?g S1)] => replace (filter g S1) with (@nil key) by (symmetry; exact Hf) end. reflexivity.
Qed.

(* ------------------------------------------------------------------ small facts for the assembly *)
Lemma NoDup_map_inj {A B} (f:A -> B) l x y : NoDup (map f l) -> In x l -> In y l -> f x = f y -> x = y.
Proof. induction l as [|a l IH]; simpl; [tauto|]. intros Hn Hx Hy E. inversion Hn as [|? ? Ha Hl]; subst.
  destruct Hx as [->|Hx], Hy as [->|Hy]; auto.
  - exfalso. apply Ha. rewrite E. apply in_map; auto.
  - exfalso. apply Ha. rewrite <- E. apply in_map; auto. Qed.
Lemma requested_ok_cons all ops nd nd' : n_cons nd = n_cons nd' -> requested_ok_from all ops nd = requested_ok_from all ops nd'.
Proof. intros H. induction ops as [|o ops IH]; cbn [requested_ok_from]; auto. destruct o; auto. rewrite IH, H. auto. Qed.
Lemma side_ok_plain all ops nd : forallb plain_op ops = true -> side_ok_from all ops nd = true.
Proof. induction ops as [|o ops IH]; cbn [forallb side_ok_from]; auto. intros H. apply andb_true_iff in H. destruct H as [H1 H2].
  destruct o as [k c [b|] [a|]| | | | | |]; auto; unfold in_class_p in H1; cbn in H1; rewrite ?andb_false_r in H1; discriminate. Qed.
Lemma filter_filter_sub {A} (p q:A -> bool) l : (forall x, In x l -> p x = true -> q x = true) -> filter p l = filter p (filter q l).
Proof. induction l as [|x l IH]; simpl; auto. intros H. destruct (p x) eqn:Ep.
  - rewrite (H x) by auto. simpl. rewrite Ep. f_equal. apply IH. intros; apply H; auto.
  - destruct (q x); simpl; rewrite ?Ep; apply IH; intros; apply H; auto. Qed.
Lemma filter_map_comm {A B} (p:B -> bool) (g:A -> B) l : filter p (map g l) = map g (filter (fun x => p (g x)) l).
Proof. induction l as [|x l IH]; simpl; auto. destruct (p (g x)); simpl; rewrite IH; auto. Qed.
Lemma getc_some cols k c : aget k cols = Some c -> getc cols k = c.
Proof. unfold getc. intros ->. auto. Qed.
Lemma map_snd_getc cols : NoDup (akeys cols) -> map snd cols = map (getc cols) (akeys cols).
Proof. intros Hn. rewrite <- (pick_id (mkCol [] 0%N true None) cols Hn) at 1. rewrite map_map. cbn. reflexivity. Qed.
Lemma NoDup_same_length {A} (l1 l2:list A) : NoDup l1 -> NoDup l2 -> (forall x, In x l1 <-> In x l2) -> length l1 = length l2.
Proof. intros H1 H2 H. apply Nat.le_antisymm; apply NoDup_incl_length; auto; intros x Hx; apply H; auto. Qed.

Lemma find_app' {A} (f:A -> bool) l1 l2 : find f (l1 ++ l2) = match find f l1 with Some x => Some x | None => find f l2 end.
Proof. induction l1 as [|x l IH]; simpl; auto. destruct (f x); auto. Qed.

(* ------------------------------------------------------------------ the clauses of C10_holds at the end of a run with added columns *)
Section Final.
  Variables (i:input10) (T':tbl) (s:bstate) (nd:ndesc) (cm:copymap) (sorted:list key) (seen:list key).
  Hypothesis Hwf2 : wf_tbl2 (j_tbl i) = true.
  Hypothesis Hca : forallb in_class_a (j_ops i) = true.
  Hypothesis Hfresh : NoDup (akeys (tb_cols (j_tbl i)) ++ added_keys (j_ops i)).
  Hypothesis He : edit_app_all (j_ops i) (j_tbl i) = BOk T'.
  Hypothesis HI : InvA s T'.
  Hypothesis HP1 : incl (b_existing s) (akeys (tb_cols (j_tbl i))).
  Hypothesis HP2 : forall z, In z (akeys (b_cols s)) -> ~ In z (b_existing s) -> In z (added_keys (j_ops i)).
  Hypothesis HF : FinA s T' nd cm sorted.
  Hypothesis HEO : filter (fun k => mem_name k (b_existing s)) sorted = b_existing s.
  Hypothesis HCS : CSA (j_tbl i) seen s.

  Let nm (k:key) : name := c_name (getc (tb_cols T') k).

  Lemma F_n0 : NoDup (akeys (tb_cols (j_tbl i))).
  Proof. apply (NoDup_app_l _ _ Hfresh). Qed.
  Lemma F_nk : NoDup (akeys (tb_cols T')).
  Proof. rewrite <- (ia_cols _ _ HI). apply (ia_nk _ _ HI). Qed.
  Lemma F_orig_not_added k : In k (akeys (tb_cols (j_tbl i))) -> ~ In k (added_keys (j_ops i)).
  Proof. intros H. apply (NoDup_app_notin _ _ k Hfresh H). Qed.
  Lemma F_sorted k : In k sorted <-> In k (akeys (tb_cols T')).
  Proof. apply (fa_mem _ _ _ _ _ HF). Qed.
  Lemma F_getc k : In k (akeys (tb_cols T')) -> aget k (tb_cols T') = Some (getc (tb_cols T') k).
  Proof. intros H. destruct (in_keys_aget _ _ H) as [v Hv]. rewrite Hv. f_equal. symmetry. apply getc_some; auto. Qed.
  Lemma F_inj x y : In x (akeys (tb_cols T')) -> In y (akeys (tb_cols T')) -> nm x = nm y -> x = y.
  Proof.
    intros Hx Hy E. pose proof (fa_names _ _ _ _ _ HF) as Hn. rewrite (fa_cols _ _ _ _ _ HF), map_map in Hn.
    apply (NoDup_map_inj (fun k => c_name (getc (tb_cols T') k)) sorted); auto; apply F_sorted; auto.
  Qed.
  Lemma F_ex_keys : exists zs, akeys (tb_cols T') = b_existing s ++ zs.
  Proof. destruct (ia_ex _ _ HI) as [zs H]. exists zs. rewrite <- (ia_cols _ _ HI). auto. Qed.
  Lemma F_E_orig k : In k (b_existing s) -> In k (akeys (tb_cols (j_tbl i))) /\ In k (akeys (tb_cols T')).
  Proof. intros H. split; [apply HP1; auto|]. destruct F_ex_keys as [zs Hz]. rewrite Hz. apply in_or_app; auto. Qed.
  Lemma F_Z_added k : In k (akeys (tb_cols T')) -> ~ In k (b_existing s) -> In k (added_keys (j_ops i)).
  Proof. intros H1 H2. apply HP2; auto. rewrite (ia_cols _ _ HI). auto. Qed.

  (* a column's name is among the names of the added columns iff the column was added *)
  Lemma F_HZ k : In k (akeys (tb_cols T')) -> mem_name (nm k) (added_names (j_ops i)) = negb (mem_name k (b_existing s)).
  Proof.
    intros Hk.
    assert (Hspec := added_names_spec (j_ops i) (j_tbl i) T' Hca He (NoDup_app_r' _ _ Hfresh)).
    assert (Hf0 : forall a, In a (added_keys (j_ops i)) -> aget a (tb_cols (j_tbl i)) = None).
    { intros a Ha. apply notin_aget_none. intro H. apply (F_orig_not_added a H Ha). }
    specialize (Hspec Hf0).
    destruct (mem_name k (b_existing s)) eqn:Ee; cbn [negb].
    - apply mem_name_In in Ee. apply mem_name_false. intro Hin. apply Hspec in Hin. destruct Hin as [k2 [c2 [H1 [H2 H3]]]].
      assert (Hk2 : In k2 (akeys (tb_cols T'))) by (eapply aget_some_in; eauto).
      assert (k2 = k). { apply F_inj; auto. unfold nm. rewrite (getc_some _ _ _ H2). auto. }
      subst k2. apply (F_orig_not_added k); auto; apply F_E_orig; auto.
    - apply mem_name_false in Ee. apply mem_name_In. apply Hspec. exists k, (getc (tb_cols T') k).
      split; [apply F_Z_added; auto|]. split; [apply F_getc; auto|reflexivity].
  Qed.

  Lemma F_in_tr k : In k (akeys (tb_cols T')) -> exists tr, aget k (b_tr s) = Some tr /\ In (k, tr) (b_tr s) /\ gett (b_tr s) k = tr.
  Proof.
    intros Hk. assert (Hk' : In k (akeys (b_tr s))) by (rewrite (ia_trk _ _ HI), (ia_cols _ _ HI); auto).
    destruct (in_keys_aget _ _ Hk') as [tr Htr]. exists tr. split; auto. split; [apply aget_some_tr; auto|]. unfold gett. rewrite Htr. auto.
  Qed.
  Lemma F_curname k : In k (akeys (tb_cols T')) -> cur_name (tb_cols T') k = nm k.
  Proof. intros Hk. unfold cur_name. rewrite (F_getc k Hk). reflexivity. Qed.

  (* the entry of the copy map that feeds a given column *)
  Lemma F_find k' : In k' (akeys (tb_cols T')) ->
    find (fun e => name_eqb (nm k') (fst (fst e))) cm =
      match tr_expr (gett (b_tr s) k') with Some (src, cs) => Some (nm k', src, cs) | None => None end.
  Proof.
    intros Hk'. rewrite (fa_cm _ _ _ _ _ HF).
    assert (Hk's : In k' sorted) by (apply F_sorted; auto).
    assert (G : forall l, incl l (akeys (tb_cols T')) -> NoDup l ->
      find (fun e => name_eqb (nm k') (fst (fst e)))
           (flat_map (fun k => match tr_expr (gett (b_tr s) k) with Some (src, cs) => [(cur_name (tb_cols T') k, src, cs)] | None => [] end) l)
      = if mem_name k' l then match tr_expr (gett (b_tr s) k') with Some (src, cs) => Some (nm k', src, cs) | None => None end else None).
    { induction l as [|x l IH]; intros Hl Hn; cbn [flat_map mem_name existsb]; auto.
      inversion Hn as [|? ? Hx Hnl]; subst.
      assert (Hxk : In x (akeys (tb_cols T'))) by (apply Hl; simpl; auto).
      rewrite find_app'. destruct (name_eqb k' x) eqn:E.
      - apply name_eqb_eq in E. subst x. cbn [orb]. destruct (tr_expr (gett (b_tr s) k')) as [[src cs]|]; cbn [find fst].
        + rewrite (F_curname k' Hk'), name_eqb_refl. auto.
        + rewrite IH; [|intros y Hy; apply Hl; simpl; auto|auto].
          replace (mem_name k' l) with false by (symmetry; apply mem_name_false; auto). auto.
      - cbn [orb]. assert (Hne : name_eqb (nm k') (nm x) = false).
        { apply name_eqb_neq. intro H. apply F_inj in H; auto. subst. rewrite name_eqb_refl in E. discriminate. }
        destruct (tr_expr (gett (b_tr s) x)) as [[src cs]|]; cbn [find fst]; rewrite ?(F_curname x Hxk), ?Hne;
          (rewrite IH; [|intros y Hy; apply Hl; simpl; auto|auto]); reflexivity. }
    rewrite (G sorted); [|intros y Hy; apply F_sorted; auto|apply (fa_nd _ _ _ _ _ HF)].
    replace (mem_name k' sorted) with true by (symmetry; apply mem_name_In; auto). auto.
  Qed.

  (* which original column the property looks at for a given new column *)
  Lemma F_orig_final k c0 : aget k (tb_cols (j_tbl i)) = Some c0 ->
    final_name (j_ops i) k (c_name c0) = option_map c_name (aget k (tb_cols T')).
  Proof. intros H. apply (final_nameA _ _ _ _ _ Hca He H). apply F_orig_not_added. eapply aget_some_in; eauto. Qed.

  Lemma F_expfind k' : In k' (akeys (tb_cols T')) ->
    find (fun p => match final_name (j_ops i) (fst p) (c_name (snd p)) with Some n => name_eqb n (nm k') | None => false end) (tb_cols (j_tbl i))
    = match aget k' (tb_cols (j_tbl i)) with Some c0 => if mem_name k' (b_existing s) then Some (k', c0) else None | None => None end.
  Proof.
    intros Hk'.
    destruct (find _ (tb_cols (j_tbl i))) as [[k c1]|] eqn:F.
    - apply find_some in F. destruct F as [Fin Fp]. cbn [fst snd] in Fp.
      pose proof (in_aget _ _ _ F_n0 Fin) as Gk. rewrite (F_orig_final k c1 Gk) in Fp.
      destruct (aget k (tb_cols T')) as [c2|] eqn:G2; cbn in Fp; [|discriminate]. apply name_eqb_eq in Fp.
      assert (Hk2 : In k (akeys (tb_cols T'))) by (eapply aget_some_in; eauto).
      assert (k = k'). { apply F_inj; auto. unfold nm at 1. rewrite (getc_some _ _ _ G2). auto. }
      subst k'. rewrite Gk.
      replace (mem_name k (b_existing s)) with true; auto. symmetry. apply mem_name_In.
      destruct (mem_name k (b_existing s)) eqn:Em; [apply mem_name_In; auto|]. apply mem_name_false in Em. exfalso.
      apply (F_orig_not_added k); [eapply aget_some_in; eauto|apply F_Z_added; auto].
    - destruct (aget k' (tb_cols (j_tbl i))) as [c0|] eqn:G0; auto.
      destruct (mem_name k' (b_existing s)) eqn:Em; auto. exfalso.
      pose proof (find_none _ _ F _ (aget_in _ _ _ G0)) as Hf. cbn [fst snd] in Hf.
      rewrite (F_orig_final k' c0 G0), (F_getc k' Hk') in Hf. cbn in Hf. fold (nm k') in Hf. rewrite name_eqb_refl in Hf. discriminate.
  Qed.

  (* one cell: what the model copies is what the property expects *)
  Lemma F_cell r k' : In k' (akeys (tb_cols T')) ->
    copy_val (cast_of i) (dflt_of i) (j_tbl i) cm r (getc (tb_cols T') k') = expected_val i r (getc (tb_cols T') k').
  Proof.
    intros Hk'. unfold copy_val, expected_val. fold (nm k'). rewrite (F_find k' Hk'), (F_expfind k' Hk').
    destruct (F_in_tr k' Hk') as [tr [Gt [Hin Hg]]]. rewrite Hg. destruct (ia_src _ _ HI _ _ Hin) as [S1 S2].
    destruct (mem_name k' (b_existing s)) eqn:Em.
    - apply mem_name_In in Em. destruct (S1 Em) as [cs Hcs]. rewrite Hcs.
      assert (Hc' : aget k' (b_cols s) = Some (getc (tb_cols T') k')) by (rewrite (ia_cols _ _ HI); apply F_getc; auto).
      destruct (HCS k' tr _ k' cs Gt Hc' Hcs) as [_ [c0 [H2 H3]]]. rewrite H2.
      destruct (mem_name k' seen).
      + subst cs. destruct (N.eqb (affinity (c_ty c0)) (affinity (c_ty (getc (tb_cols T') k')))); reflexivity.
      + destruct H3 as [-> H3]. rewrite H3, N.eqb_refl. reflexivity.
    - apply mem_name_false in Em. rewrite (S2 Em). destruct (aget k' (tb_cols (j_tbl i))); reflexivity.
  Qed.

  Lemma F_cols_in c' : In c' (n_cols nd) -> exists k', In k' (akeys (tb_cols T')) /\ c' = getc (tb_cols T') k'.
  Proof. rewrite (fa_cols _ _ _ _ _ HF). intros H. apply in_map_iff in H. destruct H as [k' [E Hk]]. exists k'. split; auto. apply F_sorted; auto. Qed.

  Lemma F_rows : copy_rows (cast_of i) (dflt_of i) (j_tbl i) nd cm (j_rows i) = expected_rows i nd.
  Proof.
    unfold copy_rows, expected_rows. apply map_ext. intros r. apply map_ext_in. intros c' Hin.
    destruct (F_cols_in c' Hin) as [k' [Hk ->]]. apply F_cell; auto.
  Qed.

  Lemma F_survivors : survivors_present i nd = true.
  Proof.
    unfold survivors_present. apply forallb_forall. intros [k c] Hin. cbn [fst snd].
    rewrite (F_orig_final k c (in_aget _ _ _ F_n0 Hin)).
    destruct (aget k (tb_cols T')) as [c2|] eqn:G; cbn; auto. apply mem_name_In.
    rewrite (fa_cols _ _ _ _ _ HF), map_map.
    assert (Hk : In k (akeys (tb_cols T'))) by (eapply aget_some_in; eauto).
    apply in_map_iff. exists k. split; [rewrite (getc_some _ _ _ G); auto|apply F_sorted; auto].
  Qed.

  Lemma F_wf : (forall k c, In (k, c) (tb_cols (j_tbl i)) -> c_name c = k) /\
               (forall c, In c (tb_cons (j_tbl i)) -> con_visible c = true).
  Proof.
    unfold wf_tbl2 in Hwf2. rewrite !andb_true_iff in Hwf2. destruct Hwf2 as [[_ W5] W6].
    rewrite forallb_forall in W5, W6. split; auto. intros k c H. apply name_eqb_eq. apply (W5 (k, c) H).
  Qed.
  Lemma F_cur0 k : cur_name (tb_cols (j_tbl i)) k = k.
  Proof. unfold cur_name. destruct (aget k (tb_cols (j_tbl i))) eqn:G; auto. apply (proj1 F_wf). apply aget_in; auto. Qed.

  (* an unmentioned name in the new table belongs to an original, untouched column *)
  Lemma F_unmentioned_is_orig k : In k (akeys (tb_cols T')) -> ~ In (nm k) (mentioned (j_ops i)) ->
    In k (b_existing s) /\ In (nm k) (names_of (j_tbl i)).
  Proof.
    intros Hk Hn.
    assert (HE : In k (b_existing s)).
    { destruct (mem_name k (b_existing s)) eqn:Em; [apply mem_name_In; auto|]. exfalso.
      pose proof (F_HZ k Hk) as Hz. rewrite Em in Hz. cbn in Hz. apply mem_name_In in Hz.
      apply Hn. apply (added_names_mentioned _ _ Hz). }
    split; auto. destruct (F_E_orig k HE) as [H0 _]. destruct (in_keys_aget _ _ H0) as [c0 G0].
    pose proof (F_orig_final k c0 G0) as Hf. rewrite (F_getc k Hk) in Hf. cbn in Hf. fold (nm k) in Hf.
    destruct (final_name_mentioned _ _ _ _ Hf) as [En|Hm]; [|tauto].
    rewrite En. unfold names_of. change (c_name c0) with ((fun p : key * col => c_name (snd p)) (k, c0)). apply in_map. apply aget_in; auto.
  Qed.

  Lemma F_untouched : j_partial i = [] -> untouched_ok i nd = true.
  Proof.
    intros Hpart. destruct F_wf as [Hkn Hvis]. destruct (untouched_specA _ _ _ Hca He) as [B0 [B1 [B2 B3]]].
    assert (Hcur' : forall k, ~ In k (mentioned (j_ops i)) -> cur_name (tb_cols T') k = k).
    { intros k Hk. unfold cur_name. rewrite (B1 k Hk). apply F_cur0. }
    unfold untouched_ok. rewrite Hpart. cbn [is_nil]. rewrite !andb_true_iff. repeat split.
    - (* columns *)
      match goal with |- list_eqb col_eqb ?a ?b = true => assert (E : a = b); [|rewrite E; apply list_eqb_col_refl] end.
      set (f := fun c : col => negb (mem_name (c_name c) (mentioned (j_ops i)))).
      destruct F_ex_keys as [zs Hks].
      assert (Hnk : NoDup (b_existing s ++ zs)) by (rewrite <- Hks; apply F_nk).
      transitivity (map (getc (tb_cols T')) (filter (fun k => f (getc (tb_cols T') k)) (b_existing s))).
      + change (filter (fun c => untouched_name i (c_name c)) (map snd (tb_cols (j_tbl i)))) with (filter f (map snd (tb_cols (j_tbl i)))).
        unfold f. rewrite (untouched_colsA (mentioned (j_ops i)) (j_ops i) (j_tbl i) T' Hca He); [|intros x; auto|intros k c H; left; apply Hkn; auto].
        rewrite (map_snd_getc _ F_nk), filter_map_comm. f_equal. rewrite Hks.
        rewrite (filter_filter_sub _ (fun k => mem_name k (b_existing s))).
        * f_equal. apply filter_in_app_l; auto.
        * intros k Hk Hf. apply mem_name_In. apply F_unmentioned_is_orig; [rewrite Hks; auto|]. unfold f in Hf. apply negb_true_iff, mem_name_false in Hf. auto.
      + rewrite (fa_cols _ _ _ _ _ HF), filter_map_comm. f_equal. symmetry.
        rewrite (filter_filter_sub (fun k => untouched_name i (c_name (getc (tb_cols T') k)) && mem_name (c_name (getc (tb_cols T') k)) (names_of (j_tbl i)))
                                   (fun k => mem_name k (b_existing s)) sorted).
        * etransitivity; [apply f_equal; exact HEO|]. apply filter_ext_in'. intros k Hk. unfold f, untouched_name.
          destruct (mem_name (c_name (getc (tb_cols T') k)) (mentioned (j_ops i))) eqn:Em; cbn; auto.
          apply mem_name_In. apply mem_name_false in Em. apply F_unmentioned_is_orig; auto. apply F_E_orig; auto.
        * intros k Hk Hf. apply andb_true_iff in Hf. destruct Hf as [Hf _]. unfold untouched_name in Hf. apply negb_true_iff, mem_name_false in Hf.
          apply mem_name_In. apply F_unmentioned_is_orig; auto. apply F_sorted; auto.
    - (* primary key *)
      destruct (untouched_names i (tb_pk (j_tbl i))) eqn:Eu; auto. apply names_eqb_eq.
      pose proof (untouched_names_spec i _ Eu) as Hpk.
      rewrite (fa_pk _ _ _ _ _ HF), (untouched_pkA _ _ _ Hca He Hpk). cbn [describe n_pk]. rewrite (map_ext _ (fun k => k) F_cur0). apply map_id.
    - (* named constraints *)
      rewrite (fa_cons _ _ _ _ _ HF).
      apply forallb_forall. intros c Hin. destruct (untouched_name i (k_name c) && untouched_names i (k_cols c)) eqn:Eu; auto.
      apply andb_true_iff in Eu. destruct Eu as [Eu1 Eu2]. apply negb_true_iff, mem_name_false in Eu1.
      pose proof (untouched_names_spec i _ Eu2) as Hcols.
      apply existsb_exists. exists c. split; [|apply con_eqb_eq; auto].
      cbn [describe n_cons]. apply in_map_iff. exists c. split.
      + destruct c as [n kd cs]. cbn in *. f_equal. rewrite (map_ext_in _ (fun k => k)); [apply map_id|]. intros k Hk. apply Hcur'. auto.
      + apply filter_In. split; [apply B2; auto|apply Hvis; auto].
    - (* indexes *)
      rewrite (fa_idx _ _ _ _ _ HF).
      apply forallb_forall. intros x Hin. destruct (untouched_name i (x_name x) && untouched_names i (x_cols x)) eqn:Eu; auto.
      apply andb_true_iff in Eu. destruct Eu as [Eu1 Eu2]. apply negb_true_iff, mem_name_false in Eu1.
      pose proof (untouched_names_spec i _ Eu2) as Hcols.
      apply existsb_exists. exists x. split; [|apply index_eqb_eq; auto].
      cbn [describe n_idx]. apply in_map_iff. exists x. split; [|apply B3; auto].
      destruct x as [n cs u]. cbn in *. f_equal. rewrite (map_ext_in _ (fun k => k)); [apply map_id|]. intros k Hk. apply Hcur'. auto.
  Qed.

  Lemma set_equiv_refl {X} (l:list X) : set_equiv l l.
  Proof. split; [tauto|auto]. Qed.

  (* the table is the edited description, up to where the added columns sit inside their gap *)
  Hypothesis HP3 : forall z l, In z (akeys (b_cols s)) -> ~ In z (b_existing s) -> last_opt (b_existing s) = Some l -> In (l, z) (b_order s).
  Lemma F_equiv : desc_equiv_w (added_names (j_ops i)) nd (describe T').
  Proof.
    destruct F_ex_keys as [zs Hks].
    assert (Hnk : NoDup (b_existing s ++ zs)) by (rewrite <- Hks; apply F_nk).
    assert (HnotA : forall k, In k (akeys (tb_cols T')) -> not_in (added_names (j_ops i)) (getc (tb_cols T') k) = mem_name k (b_existing s)).
    { intros k Hk. unfold not_in. fold (nm k). rewrite (F_HZ k Hk). destruct (mem_name k (b_existing s)); auto. }
    unfold desc_equiv_w. cbn [describe n_cols n_pk n_cons n_idx].
    rewrite (fa_cols _ _ _ _ _ HF), (fa_pk _ _ _ _ _ HF), (fa_cons _ _ _ _ _ HF), (fa_idx _ _ _ _ _ HF), (map_snd_getc _ F_nk).
    cbn [describe n_pk n_cons n_idx].
    split; [|split; [|split; [|split; [reflexivity|split; apply set_equiv_refl]]]].
    - (* same columns *)
      split.
      + intros c. rewrite !in_map_iff. split; intros [k [E Hk]]; exists k; split; auto; apply F_sorted; auto.
      + rewrite !map_length. apply NoDup_same_length; [apply (fa_nd _ _ _ _ _ HF)|apply F_nk|apply F_sorted].
    - (* the pre-existing columns in the same order *)
      rewrite !filter_map_comm. f_equal.
      transitivity (b_existing s).
      + etransitivity; [|exact HEO]. apply filter_ext_in'. intros k Hk. apply HnotA. apply F_sorted; auto.
      + symmetry. etransitivity; [|apply (filter_in_app_l _ _ Hnk)]. rewrite Hks. apply filter_ext_in'. intros k Hk. apply HnotA. rewrite Hks; auto.
    - (* every added column in the same gap *)
      intros c Hc' Hm. apply in_map_iff in Hc'. destruct Hc' as [z [<- Hz]]. apply F_sorted in Hz. fold (nm z) in Hm |- *.
      rewrite (F_HZ z Hz) in Hm. apply negb_true_iff, mem_name_false in Hm.
      assert (Hzz : In z zs) by (rewrite Hks in Hz; apply in_app_or in Hz; tauto).
      pose (isZ := fun x : key => negb (mem_name x (b_existing s))).
      assert (HA : forall l, incl l (akeys (tb_cols T')) ->
                 anchor (added_names (j_ops i)) (map (getc (tb_cols T')) l) (nm z) = option_map (option_map nm) (kanchor isZ None l z)).
      { intros l Hl. unfold anchor. apply (anchor_keys (tb_cols T') (added_names (j_ops i)) isZ (akeys (tb_cols T')) F_inj F_HZ l None z Hl Hz). }
      rewrite (HA sorted) by (intros x Hx; apply F_sorted; auto). rewrite (HA (akeys (tb_cols T'))) by (intros x; auto).
      f_equal. rewrite Hks. apply gaps_keys; auto.
      + apply (fa_nd _ _ _ _ _ HF).
      + intros x. split; intros Hx; [apply F_sorted in Hx; rewrite Hks in Hx; auto|apply F_sorted; rewrite Hks; auto].
      + intros l Hl.
        assert (Hpair : In (l, z) (b_order s)).
        { apply HP3; auto. rewrite (ia_cols _ _ HI). auto. }
        apply (fa_prec _ _ _ _ _ HF).
        * intro E0. rewrite E0 in Hpair. destruct Hpair.
        * unfold rpairs. apply in_or_app; auto.
        * intro; subst. apply Hm. apply last_opt_in; auto.
        * rewrite Hks. apply in_or_app. left. apply last_opt_in; auto.
        * auto.
  Qed.
End Final.

(* ------------------------------------------------------------------ the main theorem, add_column (appended) inside *)

