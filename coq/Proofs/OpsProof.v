(* C09 — proofs about Model/Ops.v: kinds of the reversed list, the involution on the class
   roundtrip_safe, its refutation outside, decider soundness. *)
From AV Require Import Model.Ops Spec.C09.

(* ------------------------------------------------------------------ generic list / res lemmas *)

Lemma mapM_Forall2 {A B} (f : A -> res B) l l' :
  mapM f l = Ok l' -> Forall2 (fun x y => f x = Ok y) l l'.
Proof.
  revert l'; induction l as [|x r IH]; intros l' H; cbn [mapM] in H.
  - inversion H; constructor.
  - destruct (f x) as [y|e] eqn:Hx; cbn [bind] in H; [|discriminate].
    destruct (mapM f r) as [ys|e] eqn:Hr; cbn [bind] in H; [|discriminate].
    inversion H; subst. constructor; auto.
Qed.

Lemma Forall2_mapM {A B} (f : A -> res B) l l' :
  Forall2 (fun x y => f x = Ok y) l l' -> mapM f l = Ok l'.
Proof. induction 1 as [|x y r r' Hx _ IH]; cbn [mapM]; auto. rewrite Hx, IH. reflexivity. Qed.

Lemma Forall2_rev {A B} (R : A -> B -> Prop) l l' : Forall2 R l l' -> Forall2 R (rev l) (rev l').
Proof.
  induction 1 as [|x y r r' Hx _ IH]; cbn [rev]; [constructor|].
  apply Forall2_app; auto.
Qed.

Lemma Forall2_impl' {A B} (R R' : A -> B -> Prop) l l' :
  (forall a b, R a b -> R' a b) -> Forall2 R l l' -> Forall2 R' l l'.
Proof. intros H; induction 1; constructor; auto. Qed.

Lemma Forall2_map_eq {A B C} (f : A -> C) (g : B -> C) l l' :
  Forall2 (fun x y => g y = f x) l l' -> map g l' = map f l.
Proof. induction 1 as [|x y r r' Hx _ IH]; cbn [map]; congruence. Qed.

Lemma forall2b_Forall2 {A} (f : A -> A -> bool) (R : A -> A -> Prop) :
  (forall a b, f a b = true -> R a b) -> forall l l', forall2b f l l' = true -> Forall2 R l l'.
Proof.
  intros Hf l; induction l as [|x r IH]; intros [|y r'] H; cbn [forall2b] in H; try discriminate; [constructor|].
  apply andb_true_iff in H as [H1 H2]. constructor; auto.
Qed.

Lemma optstr_eqb_eq a b : optstr_eqb a b = true -> a = b.
Proof.
  destruct a, b; cbn [optstr_eqb]; intros H; try discriminate; auto.
  apply list_eqbN_eq in H. congruence.
Qed.

Lemma truthy_b_stable x : stable_b x = true -> truthy_b x = x.
Proof. destruct x as [[|]|]; cbn; congruence. Qed.
Lemma truthy_s_stable x : stable_s x = true -> truthy_s x = x.
Proof. destruct x as [[|]|]; cbn; congruence. Qed.
Lemma truthy_t_stable x : stable_t x = true -> truthy_b x = None.
Proof. destruct x as [[|]|]; cbn; congruence. Qed.

(* ------------------------------------------------------------------ kinds *)

Lemma constr_type_retarget n t s c : constr_type (retarget n t s c) = constr_type c.
Proof. destruct c; cbn [retarget constr_type]; auto. destruct (_ && _); reflexivity. Qed.
Lemma addcons_type_from_constraint c : addcons_type (from_constraint c) = constr_type c.
Proof. destruct c; reflexivity. Qed.

Lemma reverse_kind o o' : reverse o = Ok o' -> kind_of o' = inverse_kind (kind_of o).
Proof.
  destruct o; cbn [reverse]; intros H.
  - inversion H; subst. cbn. rewrite addcons_type_from_constraint. reflexivity.
  - destruct rev as [a0|]; [|discriminate]. inversion H; subst. cbn [kind_of inverse_kind].
    rewrite addcons_type_from_constraint, constr_type_retarget. reflexivity.
  - inversion H; reflexivity.
  - inversion H; reflexivity.
  - inversion H; reflexivity.
  - inversion H; reflexivity.
  - destruct existing_comment; inversion H; reflexivity.
  - inversion H; reflexivity.
  - inversion H; reflexivity.
  - inversion H; reflexivity.
  - destruct rev as [[[? ?] ?]|]; [|discriminate]. inversion H; reflexivity.
  - discriminate.
  - discriminate.
  - discriminate.
Qed.

Lemma reverse_list_kinds l l' :
  reverse_list l = Ok l' -> map kind_of l' = rev (map inverse_kind (map kind_of l)).
Proof.
  unfold reverse_list. destruct (mapM reverse l) as [r|e] eqn:Hm; cbn [bind]; [|discriminate].
  intros H; inversion H; subst. apply mapM_Forall2 in Hm.
  rewrite map_rev. f_equal. rewrite map_map.
  apply Forall2_map_eq. eapply Forall2_impl'; [|exact Hm]. intros a b Hab. apply reverse_kind; exact Hab.
Qed.

Lemma reverse_top_kind x x' : reverse_top x = Ok x' -> tkind_of x' = inverse_tkind (tkind_of x).
Proof.
  destruct x as [o|t s l]; cbn [reverse_top].
  - destruct (reverse o) as [o'|e] eqn:Ho; cbn [bind]; [|discriminate]. intros H; inversion H; subst.
    cbn. f_equal. apply reverse_kind; auto.
  - destruct (reverse_list l) as [r|e] eqn:Hl; cbn [bind]; [|discriminate]. intros H; inversion H; subst.
    cbn. f_equal. apply reverse_list_kinds; auto.
Qed.

Lemma reverse_ops_kinds up d : reverse_ops up = Ok d -> kinds d = rev (map inverse_tkind (kinds up)).
Proof.
  unfold reverse_ops, kinds. destruct (mapM reverse_top up) as [r|e] eqn:Hm; cbn [bind]; [|discriminate].
  intros H; inversion H; subst. apply mapM_Forall2 in Hm.
  rewrite map_rev. f_equal. rewrite map_map.
  apply Forall2_map_eq. eapply Forall2_impl'; [|exact Hm]. intros a b Hab. apply reverse_top_kind; exact Hab.
Qed.

(* ------------------------------------------------------------------ which operations cannot be reversed *)

Lemma reverse_error o e :
  reverse o = Err e <->
  match o with
  | DropConstraintOp _ _ _ _ None | DropColumnOp _ _ _ _ None => e = ValueError
  | RenameTableOp _ _ _ | ExecuteSQLOp _ | BulkInsertOp _ _ => e = NotImplementedError
  | _ => False
  end.
Proof.
  destruct o; cbn [reverse]; try (split; [discriminate|tauto]); try (split; congruence).
  - destruct rev; split; try discriminate; try tauto; congruence.
  - destruct existing_comment; split; try discriminate; tauto.
  - destruct rev as [[[? ?] ?]|]; split; try discriminate; try tauto; congruence.
Qed.

(* ------------------------------------------------------------------ involution on roundtrip_safe *)

Lemma onto_table_idem t s c : onto_table t s (onto_table t s c) = onto_table t s c.
Proof. destruct c; reflexivity. Qed.
Lemma map_onto_table_idem t s l : map (onto_table t s) (map (onto_table t s) l) = map (onto_table t s) l.
Proof. rewrite map_map. apply map_ext. intros; apply onto_table_idem. Qed.

Lemma clear_flags_idem c : clear_flags (clear_flags c) = clear_flags c.
Proof. reflexivity. Qed.
Lemma map_clear_flags_idem l : map clear_flags (map clear_flags l) = map clear_flags l.
Proof. rewrite map_map. apply map_ext. intros; apply clear_flags_idem. Qed.
Lemma map_clear_flags_off ci l : map clear_flags (flags_off ci l) = map clear_flags l.
Proof. destruct ci; cbn; [apply map_clear_flags_idem|reflexivity]. Qed.

Lemma alter_reverse_involutive a : alter_has_existing a = true -> alter_reverse (alter_reverse a) = a.
Proof.
  destruct a as [t c s et es en ec mn mc ms mname mt kw]. unfold alter_has_existing; cbn.
  intros H. apply andb_true_iff in H as [H H3]. apply andb_true_iff in H as [H1 H2].
  unfold alter_reverse; cbn.
  destruct mt as [mt|], et as [et|]; cbn in H1; try discriminate;
  destruct mn as [mn|], en as [en|]; cbn in H2; try discriminate;
  destruct ms as [|ms], es as [|es]; cbn in H3; try discriminate;
  destruct mc as [|mc]; destruct mname as [mname|]; reflexivity.
Qed.

Lemma from_to_constraint_stable a : addcons_stable a = true -> from_constraint (to_constraint a) = a.
Proof.
  destruct a as [n t cs s k|n t cs s d i k|n src ref lc rc ss rs o k|n t c s k]; cbn [addcons_stable to_constraint from_constraint]; intros Hs.
  - reflexivity.
  - rewrite truthy_s_stable; auto.
  - destruct o as [ou od oi om odf]. unfold fkopts_stable in Hs. cbn in Hs |- *.
    apply andb_true_iff in Hs as [Hs H4]. apply andb_true_iff in Hs as [Hs H3].
    apply andb_true_iff in Hs as [H1 H2].
    rewrite (truthy_s_stable _ H1), (truthy_s_stable _ H2), (truthy_s_stable _ H3), (truthy_s_stable _ H4).
    reflexivity.
  - reflexivity.
Qed.

Lemma retarget_self c : retarget (constr_name c) (constr_table c) (constr_schema c) c = c.
Proof.
  destruct c as [n t s cs k|n t s cs d i k|n t s cs rt rs rcs o k|n t s c k]; cbn; try reflexivity.
  destruct (list_eqb N.eqb t rt && optstr_eqb s rs) eqn:E; [|reflexivity].
  apply andb_true_iff in E as [E1 E2]. apply list_eqbN_eq in E1. apply optstr_eqb_eq in E2. subst. reflexivity.
Qed.

Lemma reverse_involutive o o' :
  roundtrip_safe o = true -> reverse o = Ok o' -> exists o'', reverse o' = Ok o'' /\ ddl_equiv o'' o.
Proof.
  unfold ddl_equiv. destruct o; cbn [reverse roundtrip_safe]; intros Hs H.
  - (* AddConstraintOp *)
    inversion H; subst; clear H. eexists; split; [reflexivity|].
    cbn [ddl_view]. unfold drop_from_constraint.
    rewrite (from_to_constraint_stable _ Hs), retarget_self, (from_to_constraint_stable _ Hs). reflexivity.
  - (* DropConstraintOp *)
    destruct rev as [a|]; [|discriminate]. inversion H; subst; clear H. eexists; split; [reflexivity|].
    apply decb_true in Hs. subst ty.
    destruct a as [n t cs s k|n t cs s d i k|n src ref lc rc ss rs o k|n t c s k]; cbn; try reflexivity.
    destruct (list_eqb N.eqb src ref && optstr_eqb ss rs); reflexivity.
  - (* CreateIndexOp *)
    inversion H; subst; clear H. eexists; split; [reflexivity|]. destruct c as [n t cs s u ine kw]; cbn in *.
    rewrite (truthy_t_stable _ Hs). unfold to_index, drop_to_index; cbn. destruct t; reflexivity.
  - (* DropIndexOp *)
    inversion H; subst; clear H. eexists; split; [reflexivity|]. cbn.
    rewrite (truthy_t_stable _ Hs). unfold to_index, drop_to_index; cbn.
    destruct table as [[|? ?]|]; reflexivity.
  - (* CreateTableOp *)
    apply andb_true_iff in Hs as [Hs Hi]. destruct (t_idx t) eqn:Ei; [|discriminate].
    inversion H; subst; clear H. eexists; split; [reflexivity|]. cbn.
    rewrite (truthy_t_stable _ Hs). unfold erase_flags, create_to_table, drop_to_table; cbn. rewrite Ei. cbn.
    rewrite !map_onto_table_idem. repeat (rewrite ?map_clear_flags_off, ?map_clear_flags_idem; cbn [flags_off]). reflexivity.
  - (* DropTableOp *)
    inversion H; subst; clear H. eexists; split; [reflexivity|]. cbn.
    rewrite (truthy_t_stable _ Hs). unfold erase_flags, create_to_table, drop_to_table; cbn.
    destruct rev as [r|]; cbn; rewrite ?map_onto_table_idem; repeat (rewrite ?map_clear_flags_off, ?map_clear_flags_idem; cbn [flags_off]); reflexivity.
  - (* CreateTableCommentOp *)
    destruct existing_comment as [e|]; inversion H; subst; clear H.
    + destruct comment as [c|]; [|discriminate]. eexists; split; reflexivity.
    + eexists; split; reflexivity.
  - (* DropTableCommentOp *)
    inversion H; subst; clear H. eexists; split; [|reflexivity]. reflexivity.
  - (* AlterColumnOp *)
    inversion H; subst; clear H. eexists; split; [reflexivity|]. cbn. rewrite alter_reverse_involutive; auto.
  - (* AddColumnOp *)
    inversion H; subst; clear H. eexists; split; reflexivity.
  - (* DropColumnOp *)
    destruct rev as [[[t0 c0] s0]|]; [|discriminate]. inversion H; subst; clear H. eexists; split; [reflexivity|].
    apply N.eqb_eq in Hs. subst. reflexivity.
  - discriminate.
  - discriminate.
  - discriminate.
Qed.

Lemma reverse_list_involutive l l' :
  forallb roundtrip_safe l = true -> reverse_list l = Ok l' ->
  exists l'', reverse_list l' = Ok l'' /\ Forall2 ddl_equiv l'' l.
Proof.
  unfold reverse_list. intros Hs. destruct (mapM reverse l) as [r|e] eqn:Hm; cbn [bind]; [|discriminate].
  intros H; inversion H; subst; clear H. apply mapM_Forall2 in Hm.
  assert (Hex : exists r2, Forall2 (fun x y => reverse x = Ok y) r r2 /\ Forall2 ddl_equiv r2 l).
  { clear - Hs Hm. induction Hm as [|x y l r Hx _ IH]; [exists []; split; constructor|].
    cbn [forallb] in Hs. apply andb_true_iff in Hs as [Hs1 Hs2].
    destruct (IH Hs2) as [r2 [Ha Hb]]. destruct (reverse_involutive _ _ Hs1 Hx) as [x2 [Hx2 He]].
    exists (x2 :: r2); split; constructor; auto. }
  destruct Hex as [r2 [Ha Hb]].
  exists (rev (rev r2)). split.
  - rewrite (Forall2_mapM _ _ _ (Forall2_rev _ _ _ Ha)). reflexivity.
  - rewrite rev_involutive. exact Hb.
Qed.

Lemma reverse_top_involutive x x' :
  roundtrip_safe_top x = true -> reverse_top x = Ok x' -> exists x'', reverse_top x' = Ok x'' /\ ddl_equiv_top x'' x.
Proof.
  destruct x as [o|t s l]; cbn [reverse_top roundtrip_safe_top]; intros Hs.
  - destruct (reverse o) as [o'|e] eqn:Ho; cbn [bind]; [|discriminate]. intros H; inversion H; subst; clear H.
    destruct (reverse_involutive _ _ Hs Ho) as [o2 [H2 He]]. exists (Leaf o2). cbn. rewrite H2. split; auto.
  - destruct (reverse_list l) as [r|e] eqn:Hl; cbn [bind]; [|discriminate]. intros H; inversion H; subst; clear H.
    destruct (reverse_list_involutive _ _ Hs Hl) as [l2 [H2 He]]. exists (ModifyTableOps t s l2). cbn. rewrite H2. split; auto.
Qed.

Lemma reverse_ops_involutive up d :
  forallb roundtrip_safe_top up = true -> reverse_ops up = Ok d ->
  exists u, reverse_ops d = Ok u /\ Forall2 ddl_equiv_top u up.
Proof.
  unfold reverse_ops. intros Hs. destruct (mapM reverse_top up) as [r|e] eqn:Hm; cbn [bind]; [|discriminate].
  intros H; inversion H; subst; clear H. apply mapM_Forall2 in Hm.
  assert (Hex : exists r2, Forall2 (fun x y => reverse_top x = Ok y) r r2 /\ Forall2 ddl_equiv_top r2 up).
  { clear - Hs Hm. induction Hm as [|x y l r Hx _ IH]; [exists []; split; constructor|].
    cbn [forallb] in Hs. apply andb_true_iff in Hs as [Hs1 Hs2].
    destruct (IH Hs2) as [r2 [Ha Hb]]. destruct (reverse_top_involutive _ _ Hs1 Hx) as [x2 [Hx2 He]].
    exists (x2 :: r2); split; constructor; auto. }
  destruct Hex as [r2 [Ha Hb]].
  exists (rev (rev r2)). split.
  - rewrite (Forall2_mapM _ _ _ (Forall2_rev _ _ _ Ha)). reflexivity.
  - rewrite rev_involutive. exact Hb.
Qed.

(* ------------------------------------------------------------------ decider soundness *)

Lemma ddl_equivb_sound a b : ddl_equivb a b = true -> ddl_equiv a b.
Proof. unfold ddl_equivb, ddl_equiv. apply decb_true. Qed.

Lemma ddl_equivb_top_sound a b : ddl_equivb_top a b = true -> ddl_equiv_top a b.
Proof.
  destruct a as [x|t s l], b as [y|t' s' l']; cbn [ddl_equivb_top ddl_equiv_top]; try discriminate.
  - apply ddl_equivb_sound.
  - intros H. apply andb_true_iff in H as [H H3]. apply andb_true_iff in H as [H1 H2].
    apply decb_true in H1. apply decb_true in H2. repeat split; auto.
    eapply forall2b_Forall2; [|exact H3]. apply ddl_equivb_sound.
Qed.

(* the kinds clause needs no class at all *)
Lemma model_C09_kinds_everywhere x x' : reverse_top x = Ok x' -> tkind_of x' = inverse_tkind (tkind_of x).
Proof. apply reverse_top_kind. Qed.

(* ------------------------------------------------------------------ outside the class: witnesses *)

Definition refutes (o : op) : Prop :=
  roundtrip_safe o = false /\ exists o' o'', reverse o = Ok o' /\ reverse o' = Ok o'' /\ ~ ddl_equiv o'' o.

Ltac refute := split; [reflexivity|]; eexists; eexists; split; [reflexivity|]; split; [reflexivity|];
               unfold ddl_equiv; vm_compute; discriminate.

(* CreateIndexOp('ix', 't', ['a'], if_not_exists=True) *)
Definition w_flag : op := CreateIndexOp (mkCI (Some [105; 120]%N) [116%N] [IxCol [97%N]] None false (Some true) 0%N).
Lemma refuted_flags : refutes w_flag. Proof. refute. Qed.
(* CreateTableOp('t', [Column('a', <type 1>, index=True)]): to_table() has Index('ix_t_a', 'a') *)
Definition w_index : op :=
  CreateTableOp (mkT [116%N] None [mkCol [97%N] 1%N true None None false true] []
                     [mkIdx (Some [105; 120; 95; 116; 95; 97]%N) [116%N] None [IxCol [97%N]] false 0%N] None [] 0%N) None false.
Lemma refuted_table_index : refutes w_index. Proof. refute. Qed.
(* repaired by ea71f11: CreateUniqueConstraintOp('uq', 't', ['a'], deferrable=False) is now inside the class *)
Definition w_deferrable : op := AddConstraintOp (CreateUniqueConstraintOp (Some [117; 113]%N) [116%N] [[97%N]] None (Some false) None 0%N).
Lemma deferrable_false_in_class : roundtrip_safe w_deferrable = true.
Proof. reflexivity. Qed.
(* AlterColumnOp('t', 'c', modify_nullable=False) *)
Definition w_alter : op := AlterColumnOp (mkAC [116%N] [99%N] None None Unset None None (Some false) Unset Unset None None 0%N).
Lemma refuted_alter : refutes w_alter. Proof. refute. Qed.
(* DropColumnOp('t', 'a', mssql_drop_check=True, _reverse=AddColumnOp('t', Column('a', <type 1>))) *)
Definition w_dropcol : op :=
  DropColumnOp [116%N] [97%N] None 1%N (Some ([116%N], mkCol [97%N] 1%N true None None false false, None)).
Lemma refuted_dropcol_kw : refutes w_dropcol. Proof. refute. Qed.
(* CreateTableCommentOp('t', None, existing_comment='o') *)
Definition w_comment : op := CreateTableCommentOp [116%N] None (Some [111%N]) None.
Lemma refuted_table_comment : refutes w_comment. Proof. refute. Qed.
(* DropConstraintOp('uq', 't', type_=None, _reverse=CreateUniqueConstraintOp('uq', 't', ['a'])) *)
Definition w_droptype : op :=
  DropConstraintOp (Some [117; 113]%N) [116%N] None None (Some (CreateUniqueConstraintOp (Some [117; 113]%N) [116%N] [[97%N]] None None None 0%N)).
Lemma refuted_drop_type : refutes w_droptype. Proof. refute. Qed.

(* non-vacuity: an operation of every reversible class is in roundtrip_safe and reverses *)
Definition nv_ops : list top :=
  [ Leaf (CreateTableOp (mkT [116%N] None [mkCol [97%N] 1%N false None None true false] [CPk None [116%N] None [[97%N]] 0%N; CUq None [116%N] None [[97%N]] (Some false) None 7%N] [] (Some [99%N]) [] 0%N) None false);
    ModifyTableOps [116%N] None
      [ AddColumnOp [116%N] (mkCol [98%N] 2%N true (Some 3%N) None true true) None;
        AlterColumnOp (mkAC [116%N] [98%N] None (Some 2%N) (SetTo (Some 3%N)) (Some true) None (Some false) (SetTo (Some [120%N])) (SetTo None) (Some [100%N]) (Some 4%N) 0%N);
        AddConstraintOp (CreateForeignKeyOp (Some [102%N]) [116%N] [116%N] [[98%N]] [[97%N]] None None (mkFkO (Some [67%N]) None None None (Some false)) 9%N);
        CreateIndexOp (mkCI (Some [105%N]) [116%N] [IxCol [98%N]; IxText 5%N] None true None 0%N);
        CreateTableCommentOp [116%N] (Some [110%N]) (Some [99%N]) None ];
    Leaf (DropTableOp [117%N] None None None [] 0%N (Some (mkTRev [mkCol [97%N] 1%N true None None false true] [] true))) ].
Lemma nv_ops_in_class : forallb roundtrip_safe_top nv_ops = true /\ exists d, reverse_ops nv_ops = Ok d.
Proof. split; [reflexivity|]. eexists. vm_compute. reflexivity. Qed.
