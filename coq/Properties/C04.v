(* C04 — A failing migration never leaves the version table out of step.   Statement-only file. *)
From AV Require Import Spec.C04 Proofs.TxnProof Proofs.C04HeadsProof Proofs.C04UnifiedProof.
From AV Require Proofs.HeadsProof.

(* the decider applied to what a fresh connection finds after the real command is sound for the property *)
Theorem C04_decider_sound : forall i o, check_C04 i o = true -> C04_holds i o.
Proof. exact check_C04_sound. Qed.
Print Assumptions C04_decider_sound.

(* main theorem: every number of migrations, every body, every failure position (before/between/after each statement,
   after the bookkeeping), every (transactional_ddl, transaction_per_migration, caller-held transaction) setting and
   each of the three database behaviours *)
Theorem C04_main : forall i, consistent i = true -> C04_holds i (txn_run i).
Proof. exact C04_main_thm. Qed.
Print Assumptions C04_main.

(* version rows == bookkeeping of exactly the migrations whose function returned and whose transaction committed *)
Theorem C04_version_rows : forall i, consistent i = true ->
  vrows (o_db (txn_run i)) = rows_after (firstn (committed_count i) (i_steps i)) (vrows (i_db0 i)).
Proof. exact version_rows_thm. Qed.
Print Assumptions C04_version_rows.

(* the command raises, and the table holds the bookkeeping of a prefix that ends before the failed migration: the failed
   revision is neither named (upgrade) nor dropped (downgrade) *)
Theorem C04_failed_not_recorded : forall i j, consistent i = true -> fail_index i = Some j ->
  o_raised (txn_run i) = true /\
  exists c, c <= j /\ j < length (i_steps i) /\
    vrows (o_db (txn_run i)) = rows_after (firstn c (i_steps i)) (vrows (i_db0 i)).
Proof. exact failed_not_recorded_thm. Qed.
Print Assumptions C04_failed_not_recorded.

(* transactional DDL and one enclosing transaction (no autocommit section having committed it): schema, version table
   and rows exactly as before the command *)
Theorem C04_all_or_nothing : forall i, i_kind i = TxDDL -> one_txn i = true -> fail_index i <> None ->
  no_partial_commit i = true -> o_db (txn_run i) = i_db0 i.
Proof. exact all_or_nothing_thm. Qed.
Print Assumptions C04_all_or_nothing.

(* transactional DDL, one transaction per migration: exactly the completed migrations are applied and recorded, the
   failed one (if it entered no autocommit section) leaves no trace *)
Theorem C04_per_migration : forall i j, i_kind i = TxDDL -> one_txn i = false -> fail_index i = Some j ->
  no_partial_commit i = true ->
  o_db (txn_run i) = match j with
                     | O => i_db0 i
                     | S _ => state_after (firstn j (i_steps i)) (with_version_table (i_db0 i))
                     end.
Proof. exact per_migration_thm. Qed.
Print Assumptions C04_per_migration.

(* one transaction per migration (any behaviour of the database, with or without autocommit sections, whatever the
   failing migration committed through one): the table records exactly the completed migrations; in particular a failed
   downgrade never drops its revision and a failed upgrade never names it *)
Theorem C04_nontransactional : forall i j, one_txn i = false -> fail_index i = Some j ->
  vrows (o_db (txn_run i)) = rows_after (firstn j (i_steps i)) (vrows (i_db0 i)).
Proof. exact nontransactional_thm. Qed.
Print Assumptions C04_nontransactional.

(* no failure: every migration is recorded *)
Theorem C04_success : forall i, consistent i = true -> fail_index i = None ->
  o_raised (txn_run i) = false /\ vrows (o_db (txn_run i)) = rows_after (i_steps i) (vrows (i_db0 i)).
Proof. exact success_thm. Qed.
Print Assumptions C04_success.

(* the class of the exception (Exception, KeyboardInterrupt, SystemExit) makes no difference *)
Theorem C04_exception_kind_irrelevant : forall k t p e st d x y,
  txn_run (mkIn k t p e st d x) = txn_run (mkIn k t p e st d y).
Proof. exact exc_kind_thm. Qed.
Print Assumptions C04_exception_kind_irrelevant.

(* the hypothesis `consistent` is needed: transactional_ddl=True on an implicit-commit database records a migration
   although the enclosing "transaction" failed *)
Definition ex_steps : list step :=
  [mkStep [BStmt (DDL (Txn.Add 10%N)); BStmt (DML (Txn.Add 11%N))] [VIns 1%N] false;
   mkStep [BStmt (DDL (Txn.Add 20%N)); BRaise; BStmt (DML (Txn.Add 21%N))] [VUpd 1%N 2%N] false].
Definition ex_db0 : dbstate := mkDb [] false [].
Theorem C04_inconsistent_refuted :
  exists i, consistent i = false /\ ~ C04_holds i (txn_run i).
Proof. exists (mkIn ImplicitCommitDDL true false false ex_steps ex_db0 ExcException). split; [reflexivity|].
  intros (_ & _ & H & _). specialize (H 1%N). vm_compute in H. destruct H as [H _]. destruct H; auto. Qed.
Print Assumptions C04_inconsistent_refuted.

(* ---- non-vacuity ---- *)
Example C04_all_or_nothing_nonvacuous :
  let i := mkIn TxDDL true false false ex_steps ex_db0 ExcKeyboardInterrupt in
  consistent i = true /\ one_txn i = true /\ fail_index i = Some 1%nat /\ no_partial_commit i = true /\
  o_db (txn_run i) = ex_db0.
Proof. vm_compute. repeat split. Qed.
Example C04_per_migration_nonvacuous :
  let i := mkIn TxDDL true true false
             [mkStep [BStmt (DDL (Txn.Add 10%N)); BStmt (DML (Txn.Add 11%N))] [VIns 1%N] false;
              mkStep [BStmt (DDL (Txn.Add 20%N))] [VUpd 1%N 2%N] true] ex_db0 ExcSystemExit in
  consistent i = true /\ one_txn i = false /\ fail_index i = Some 1%nat /\ no_partial_commit i = true /\
  o_db (txn_run i) = mkDb [11%N; 10%N] true [1%N].
Proof. vm_compute. repeat split. Qed.
Example C04_nontransactional_nonvacuous :
  let i := mkIn Pysqlite false false false
             [mkStep [BStmt (DDL (Txn.Add 10%N)); BStmt (DML (Txn.Add 11%N))] [VIns 1%N] false;
              mkStep [BStmt (DDL (Txn.Add 20%N)); BStmt (DML (Txn.Add 21%N)); BRaise] [VUpd 1%N 2%N] false] ex_db0 ExcException in
  consistent i = true /\ one_txn i = false /\ fail_index i = Some 1%nat /\
  o_db (txn_run i) = mkDb [20%N; 11%N; 10%N] true [1%N].
Proof. vm_compute. repeat split. Qed.
(* a downgrade of r2 that drops an object inside an autocommit section and then fails: r2 stays recorded, the section's
   effect is durable; one transaction per migration and one enclosing transaction alike *)
Example C04_autocommit_nonvacuous :
  let st := [mkStep [BStmt (DML (Txn.Del 21%N)); BAuto [AStmt (DDL (Txn.Del 20%N))]; BRaise] [VUpd 2%N 1%N] false;
             mkStep [BStmt (DDL (Txn.Del 10%N))] [VDel 1%N] false] in
  let d := mkDb [21%N; 20%N; 10%N] true [2%N] in
  let i := mkIn TxDDL true true false st d ExcException in
  let i' := mkIn TxDDL true false false st d ExcException in
  fail_index i = Some 0%nat /\ no_partial_commit i = false /\ o_db (txn_run i) = mkDb [10%N] true [2%N] /\
  fail_index i' = Some 0%nat /\ committed_count i' = 0%nat /\ o_db (txn_run i') = mkDb [10%N] true [2%N].
Proof. vm_compute. repeat split. Qed.

(* ================================================================== branched histories, through C03 *)
(* the decider on histories given as a graph and a plan *)
Theorem C04g_decider_sound : forall gi o, check_C04g gi o = true -> C04g_holds gi o.
Proof. exact check_C04g_sound. Qed.
Print Assumptions C04g_decider_sound.

(* every history (merge points, several roots, depends_on), every plan, bookkeeping by the C03 model of update_to_step *)
Theorem C04g_main : forall gi, consistent (to_input gi) = true -> C04g_holds gi (txn_run_g gi).
Proof. exact C04g_main_thm. Qed.
Print Assumptions C04g_main.

(* after the command — failed or not — the version rows are exactly the maximal applied revisions of the committed
   migrations: duplicate-free, an antichain, implying exactly the applied set (C03_invariant composed with C04) *)
Theorem C04_rows_are_heads : forall gi A0, consistent (to_input gi) = true -> gpre gi = true ->
  Spec.C03.closure (g_graph gi) (vrows (g_db0 gi)) = Some A0 ->
  wf_refs (g_graph gi) -> ~ cyclic (all_down (g_graph gi)) -> Spec.C03.ndeps_okb (g_graph gi) = true ->
  gvalid (g_graph gi) A0 (g_msteps gi) ->
  Spec.C03.rows_ok (g_graph gi) (gapplied (firstn (committed_count (to_input gi)) (g_msteps gi)) A0)
                   (vrows (o_db (txn_run_g gi))).
Proof. exact rows_are_heads_thm. Qed.
Print Assumptions C04_rows_are_heads.

(* a failed upgrade: the failed revision is not among the rows and no row implies it *)
Theorem C04_failed_upgrade_not_implied : forall gi A0, consistent (to_input gi) = true -> gpre gi = true ->
  Spec.C03.closure (g_graph gi) (vrows (g_db0 gi)) = Some A0 ->
  wf_refs (g_graph gi) -> ~ cyclic (all_down (g_graph gi)) -> Spec.C03.ndeps_okb (g_graph gi) = true ->
  gvalid (g_graph gi) A0 (g_msteps gi) ->
  forall k m, fail_index (to_input gi) = Some k -> nth_error (g_msteps gi) k = Some m ->
    forallb ms_up (g_msteps gi) = true ->
    ~ In (ms_rev m) (vrows (o_db (txn_run_g gi))) /\ ~ implied (g_graph gi) (vrows (o_db (txn_run_g gi))) (ms_rev m).
Proof. exact failed_upgrade_thm. Qed.
Print Assumptions C04_failed_upgrade_not_implied.

(* a failed downgrade: the failed revision is still implied by the rows (it is a row, or an ancestor/dependency of one) *)
Theorem C04_failed_downgrade_still_implied : forall gi A0, consistent (to_input gi) = true -> gpre gi = true ->
  Spec.C03.closure (g_graph gi) (vrows (g_db0 gi)) = Some A0 ->
  wf_refs (g_graph gi) -> ~ cyclic (all_down (g_graph gi)) -> Spec.C03.ndeps_okb (g_graph gi) = true ->
  gvalid (g_graph gi) A0 (g_msteps gi) ->
  forall k m, fail_index (to_input gi) = Some k -> nth_error (g_msteps gi) k = Some m ->
    forallb (fun x => negb (ms_up x)) (g_msteps gi) = true ->
    implied (g_graph gi) (vrows (o_db (txn_run_g gi))) (ms_rev m).
Proof. exact failed_downgrade_thm. Qed.
Print Assumptions C04_failed_downgrade_still_implied.

(* non-vacuity: b base; a<-b; c<-b; d merges (b,c,a) — upgrade heads fails in the merge revision d (one transaction per
   migration): rows = {a, c}, d neither a row nor implied *)
Definition G4 : graph := [mkRev 0 [] [] [] []; mkRev 1 [0] [] [] []; mkRev 2 [0] [] [] []; mkRev 3 [0;2;1] [] [] []]%N.
Definition gi4 : ginput :=
  mkGin G4 Pysqlite false false false
        [mkMstep 0%N true [BStmt (DDL (Txn.Add 10%N))] false; mkMstep 1%N true [BStmt (DDL (Txn.Add 11%N))] false;
         mkMstep 2%N true [BStmt (DDL (Txn.Add 12%N))] false; mkMstep 3%N true [BStmt (DDL (Txn.Add 13%N)); BRaise] false]
        (mkDb [] false []) ExcException.
Example C04g_nonvacuous :
  consistent (to_input gi4) = true /\ gpre gi4 = true /\ Spec.C03.closure G4 [] = Some [] /\
  wf_refs G4 /\ ~ cyclic (all_down G4) /\ Spec.C03.ndeps_okb G4 = true /\ gvalid G4 [] (g_msteps gi4) /\
  fail_index (to_input gi4) = Some 3%nat /\ forallb ms_up (g_msteps gi4) = true /\
  vrows (o_db (txn_run_g gi4)) = [1%N; 2%N].
Proof. split; [vm_compute; reflexivity|]. split; [vm_compute; reflexivity|]. split; [vm_compute; reflexivity|].
  split; [apply HeadsProof.wf_refsb_spec; vm_compute; reflexivity|].
  split; [apply (HeadsProof.rankedb_acyclic G4 N.to_nat); vm_compute; reflexivity|].
  split; [vm_compute; reflexivity|]. split; [apply gvalidb_spec; vm_compute; reflexivity|].
  vm_compute. repeat split. Qed.

(* ================================================================== the transaction state machine, online and --sql *)
(* the decision table of begin_transaction over all its inputs (rows: _in_external_transaction, transactional_ddl after
   the override, transaction_per_migration, as_sql; columns: env.py's call / the per-migration call) *)
Theorem C04_begin_transaction_table : forall tddl pm sql,
  (forall h per, begin_transaction (mkMcfg tddl pm true sql) h per = BtNull) /\
  begin_transaction (mkMcfg true false false sql) false false = (if sql then BtBeginCommit else BtProxy) /\
  (forall h, begin_transaction (mkMcfg true false false sql) h true = BtNull) /\
  (forall h, begin_transaction (mkMcfg true true false sql) h false = BtNull) /\
  begin_transaction (mkMcfg true true false sql) false true = (if sql then BtBeginCommit else BtProxy) /\
  (forall h, begin_transaction (mkMcfg false pm false sql) h false = BtNull) /\
  begin_transaction (mkMcfg false pm false sql) false true = (if sql then BtNull else BtProxy) /\
  begin_transaction (mkMcfg false pm false sql) true true = BtNull.
Proof. exact bt_table_thm. Qed.
Print Assumptions C04_begin_transaction_table.

(* the atomicity statement per combination: which migrations' version rows survive a failure in migration k
   (any body, autocommit sections included, exception in the script, in a callback or in the bookkeeping) *)
Theorem C04_atomicity_table : forall i k, consistent i = true -> fail_index i = Some k ->
  let rows := vrows (o_db (txn_run i)) in
  let rows0 := vrows (i_db0 i) in
  (* env.py already inside connection.begin(): nothing of the run *)
  (i_external i = true -> rows = rows0) /\
  (* transactional DDL, one enclosing transaction: the migrations before the last one that entered an autocommit section
     (none of the run if no section was entered) *)
  (i_external i = false -> i_tddl i = true -> i_per_mig i = false ->
     rows = rows_after (firstn (last_autocommit (i_steps i) 0 0) (i_steps i)) rows0 /\
     last_autocommit (i_steps i) 0 0 <= k /\
     (none_enters (i_steps i) = true -> rows = rows0)) /\
  (* transaction_per_migration: exactly the k completed migrations *)
  (i_external i = false -> i_per_mig i = true -> rows = rows_after (firstn k (i_steps i)) rows0) /\
  (* no transactional DDL: exactly the k completed migrations *)
  (i_external i = false -> i_tddl i = false -> rows = rows_after (firstn k (i_steps i)) rows0).
Proof. exact atomicity_table_thm. Qed.
Print Assumptions C04_atomicity_table.

(* --sql: whatever the settings and wherever the run fails, the database is untouched; online: C04g_holds *)
Theorem C04u_main : forall u, u_as_sql u = true \/ consistent (to_input (u_gi u)) = true -> C04u_holds u (run_u u).
Proof. exact C04u_main_thm. Qed.
Print Assumptions C04u_main.
Theorem C04u_decider_sound : forall u o, check_C04u u o = true -> C04u_holds u o.
Proof. exact check_C04u_sound. Qed.
Print Assumptions C04u_decider_sound.

(* the decider of the base statement is also complete *)
Theorem C04_decider_complete : forall i o, C04_holds i o -> check_C04 i o = true.
Proof. exact check_C04_complete. Qed.
Print Assumptions C04_decider_complete.

(* a query through the context (or on the connection) between configure() and begin_transaction() autobegins a
   transaction on the connection but does not change what Alembic does: _in_external_transaction is fixed when the
   MigrationContext is constructed *)
Theorem C04_query_irrelevant : forall q i, txn_run_q q i = txn_run i.
Proof. exact query_irrelevant_thm. Qed.
Print Assumptions C04_query_irrelevant.

(* several databases configured one after the other through ONE EnvironmentContext: the run on database k is the run of
   call k alone, under call k's transaction_per_migration and the last explicit transactional_ddl given up to call k *)
Theorem C04_multi_db : forall dflt calls prev k c, nth_error calls k = Some c ->
  nth_error (multi_run dflt prev calls) k =
  Some (txn_run_g (with_tddl (uc_in c)
          (match fold_left acc_opt (map uc_tddl (firstn (S k) calls)) prev with Some b => b | None => dflt end))).
Proof. exact multi_run_nth. Qed.
Print Assumptions C04_multi_db.
