(* C07 — Autogenerate detects every supported kind of model change.  Statements only. *)
From AV Require Import Model.Schema Model.Diff Spec.C06 Spec.C07 Proofs.SchemaProof Proofs.C07Proof.

(* each applicable mutation of the catalogue yields, under every setting that looks for it, an operation of the
   corresponding kind(s) on the mutated object (defaults_ok A is used by the "server default changed" kind only: the
   reflected form of the old default must normalise like the old default) *)
Theorem C07_detects : forall g A m, wf_schemab A = true -> defaults_ok A = true -> no_unnamed_uq A = true ->
  applicable m A = true -> enabled g m = true ->
  detects A m (diff g (reflect_sqlite A) (apply_mut m A)).
Proof. intros g A m HA Hd Hu Ha He. apply detects_catalogue; auto; [apply wf_nd_schema|apply dok_of_defaults_ok|apply named_of_no_unnamed]; auto. Qed.
Print Assumptions C07_detects.

(* ... and every emitted operation is about an object the mutation touches *)
Theorem C07_nothing_unrelated : forall g A m, wf_schemab A = true -> applicable m A = true ->
  wf_schemab (apply_mut m A) = true -> defaults_ok (apply_mut m A) = true -> no_unnamed_uq (apply_mut m A) = true ->
  nothing_else A m (diff g (reflect_sqlite A) (apply_mut m A)).
Proof. intros g A m HA Ha HB Hd Hu. apply nothing_else_catalogue; auto; try (apply wf_nd_schema; auto);
  [apply dok_of_defaults_ok|apply named_of_no_unnamed]; auto. Qed.
Print Assumptions C07_nothing_unrelated.

(* the general fact behind it, for ALL pairs of well-formed schemas: an operation is only ever emitted for an object
   whose lookup (table by name; column / constraint / index / foreign key by table and name) differs between database and model *)
Theorem C07_diff_local : forall g A B o, wf_schemab A = true -> wf_schemab B = true -> defaults_ok B = true -> no_unnamed_uq B = true ->
  In o (diff g (reflect_sqlite A) B) -> changed A B (op_target o).
Proof. intros g A B o HA HB Hd Hu. apply diff_local; try (apply wf_nd_schema; auto); [apply dok_of_defaults_ok|apply named_of_no_unnamed]; auto. Qed.
Print Assumptions C07_diff_local.

(* without defaults_ok the "nothing unrelated" half is false: a string default such as "(a)" is reported on every column
   that carries it, whatever the change was (same root cause as C06_quiet_refuted) *)
Open Scope N_scope.
Definition bad7_A : schema :=
  [mkTable 0 [mkCol 0 (mkTy 0 []) false true None true; mkCol 1 (mkTy 3 [20]) true false (Some (DLit [40;97;41])) true; mkCol 2 (mkTy 0 []) true false None true] [] [] []].
Theorem C07_nothing_unrelated_refuted : exists g A m, wf_schemab A = true /\ applicable m A = true /\ wf_schemab (apply_mut m A) = true /\
  ~ nothing_else A m (diff g (reflect_sqlite A) (apply_mut m A)).
Proof. exists (mkCfg true true), bad7_A, (MFlipNullable 0 2). repeat (split; [reflexivity|]).
  intros H. specialize (H (OpAlterColumn 0 1 true (mkTy 3 [20]) (Some (DExpr [39;40;97;41;39])) None None (Some (Some (DLit [40;97;41]))))).
  assert (Hin: In (OpAlterColumn 0 1 true (mkTy 3 [20]) (Some (DExpr [39;40;97;41;39])) None None (Some (Some (DLit [40;97;41]))))
                  (diff (mkCfg true true) (reflect_sqlite bad7_A) (apply_mut (MFlipNullable 0 2) bad7_A))) by (vm_compute; auto).
  apply H in Hin. vm_compute in Hin. destruct Hin as [Hin|[]]. discriminate. Qed.
Print Assumptions C07_nothing_unrelated_refuted.

Theorem C07_decider_sound : forall i out, check_C07 i out = true -> C07_holds i out.
Proof. exact check_C07_sound. Qed.
Print Assumptions C07_decider_sound.

Theorem C07_model_holds : forall i, inclass_C07 i = true -> C07_holds i (model_C07 i).
Proof. exact model_C07_holds. Qed.
Print Assumptions C07_model_holds.

(* non-vacuity: every mutation kind of the catalogue is applicable to a concrete well-formed schema, is detected, and the
   decider accepts the model's output *)
Definition ex7_A : schema :=
  [mkTable 0 [mkCol 0 (mkTy 0 []) false true None true; mkCol 1 (mkTy 3 [20]) true false (Some (DLit [53])) true; mkCol 2 (mkTy 5 [10;2]) true false None true]
             [Uq 1 [1]; Ix 2 [2;1] false] [mkFk 1 [2] 0 [0] no_opts true] [];
   mkTable 1 [mkCol 0 (mkTy 0 []) false true None true; mkCol 7 (mkTy 0 []) true false (Some (DComputed [99;48;32;43;32;49] None)) false] [] [] []].
Definition ex7_muts : list mut :=
  [MAddTable (mkTable 2 [mkCol 0 (mkTy 0 []) false true None true] [Ix 20 [0] false] [mkFk 20 [0] 0 [0] no_opts true] []); MDropTable 1;
   MAddColumn 1 (mkCol 5 (mkTy 4 []) true false (Some (DExpr [49])) true); MDropColumn 1 0; MFlipNullable 0 1; MFlipNullable 1 7 (* a generated column whose nullable was unset *); MChangeType 0 2 (mkTy 9 []);
   MChangeDefault 0 1 None; MChangeDefault 0 1 (Some (DExpr [39;54;39])); MChangeDefault 0 2 (Some (DLit [120]));
   MAddCons 0 (Uq 3 [2]); MAddCons 0 (Ix 4 [0] true); MDropCons 0 1; MDropCons 0 2; MChangeCons 0 (Uq 1 [2]); MChangeCons 0 (Ix 2 [2;1] true);
   MAddFk 0 (mkFk 2 [1;2] 0 [1;0] no_opts true); MAddFk 1 (mkFk 10 [0] 0 [0] no_opts true); MDropFk 0 1].
Example C07_nonvacuous :
  forallb (fun m => inclass_C07 (ex7_A, m) && check_C07 (ex7_A, m) (model_C07 (ex7_A, m))
                    && negb (is_nil (diff (mkCfg true true) (reflect_sqlite ex7_A) (apply_mut m ex7_A)))) ex7_muts = true.
Proof. vm_compute. reflexivity. Qed.

(* ---------------------------------------------------------------- several changes at once (Spec/C07.v, stages)
   for ALL lists of catalogue mutations, each applicable where it is applied: every emitted operation is about an object
   one of the changes touches *)
Theorem C07_seq_nothing_unrelated : forall g A ms o, wf_schemab A = true -> stages_applicable (stages ms A) = true ->
  wf_schemab (apply_muts ms A) = true -> defaults_ok (apply_muts ms A) = true -> no_unnamed_uq (apply_muts ms A) = true ->
  In o (diff g (reflect_sqlite A) (apply_muts ms A)) -> In (op_target o) (touched (stages ms A)).
Proof. intros g A ms o HA Ha HB Hd Hu. apply nothing_else_seq; auto; try (apply wf_nd_schema; auto);
  [apply dok_of_defaults_ok|apply named_of_no_unnamed]; auto. Qed.
Print Assumptions C07_seq_nothing_unrelated.

(* the "every change detected" half for several changes at once is checked case by case against the real comparison
   (decider below, exact correspondence); it is proved for single changes only (C07_detects) *)
Theorem C07_seq_decider_sound : forall i out, check_C07s i out = true -> C07s_holds i out.
Proof. exact check_C07s_sound. Qed.
Print Assumptions C07_seq_decider_sound.

(* non-vacuity: a column removed while two are added and a third retyped; a table removed together with the foreign key
   that pointed at it; a table added together with a foreign key to it -- all in the class, accepted on the model's output *)
Definition ex7_B : schema :=
  [mkTable 0 [mkCol 0 (mkTy 0 []) false true None true; mkCol 1 (mkTy 3 [20]) true false None true; mkCol 2 (mkTy 0 []) true false None true]
             [] [mkFk 1 [2] 1 [0] no_opts true] [];
   mkTable 1 [mkCol 0 (mkTy 0 []) false true None true; mkCol 1 (mkTy 0 []) true false None true] [] [] []].
Definition ex7_seqs : list (schema * list mut) :=
  [(ex7_A, [MDropCons 0 2; MDropFk 0 1; MDropColumn 0 2; MAddColumn 0 (mkCol 5 (mkTy 4 []) true false None true);
            MAddColumn 0 (mkCol 6 (mkTy 0 []) true false None true); MChangeType 0 1 (mkTy 9 []); MFlipNullable 0 1]);
   (ex7_B, [MDropFk 0 1; MDropTable 1; MDropColumn 0 1; MAddColumn 0 (mkCol 7 (mkTy 4 []) true false None true)]);
   (ex7_A, [MAddTable (mkTable 2 [mkCol 0 (mkTy 0 []) false true None true] [] [] []); MAddFk 1 (mkFk 10 [0] 2 [0] no_opts true);
            MChangeCons 0 (Ix 2 [2] false)])].
Example C07_seq_nonvacuous :
  forallb (fun i => inclass_C07s i && check_C07s i (model_C07s i) && Nat.leb 2 (length (snd (hd (mkCfg true true, []) (model_C07s i))))) ex7_seqs = true.
Proof. vm_compute. reflexivity. Qed.
