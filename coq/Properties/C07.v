(* C07 — Autogenerate detects every supported kind of model change.  Statements only. *)
From AV Require Import Model.Schema Model.Diff Spec.C06 Spec.C07 Proofs.SchemaProof Proofs.C07Proof.

(* each applicable mutation of the catalogue yields, under every setting that looks for it, an operation of the
   corresponding kind(s) on the mutated object *)
Theorem C07_detects : forall g A m, wf_schemab A = true -> applicable m A = true -> enabled g m = true ->
  detects A m (diff g (reflect_sqlite A) (apply_mut m A)).
Proof. intros g A m HA Ha He. rewrite reflect_sqlite_id. apply detects_catalogue; auto. apply wf_nd_schema; auto. Qed.
Print Assumptions C07_detects.

(* ... and every emitted operation is about an object the mutation touches *)
Theorem C07_nothing_unrelated : forall g A m, wf_schemab A = true -> applicable m A = true -> wf_schemab (apply_mut m A) = true ->
  nothing_else A m (diff g (reflect_sqlite A) (apply_mut m A)).
Proof. intros g A m HA Ha HB. rewrite reflect_sqlite_id. apply nothing_else_catalogue; auto; apply wf_nd_schema; auto. Qed.
Print Assumptions C07_nothing_unrelated.

(* the general fact behind it, for ALL pairs of well-formed schemas: an operation is only ever emitted for an object
   whose lookup (table by name, column / constraint / index by table and name) differs between database and model *)
Theorem C07_diff_local : forall g A B o, wf_schemab A = true -> wf_schemab B = true ->
  In o (diff g (reflect_sqlite A) B) -> changed A B (op_target o).
Proof. intros g A B o HA HB. rewrite reflect_sqlite_id. apply diff_local; apply wf_nd_schema; auto. Qed.
Print Assumptions C07_diff_local.

Theorem C07_decider_sound : forall i out, check_C07 i out = true -> C07_holds i out.
Proof. exact check_C07_sound. Qed.
Print Assumptions C07_decider_sound.

Theorem C07_model_holds : forall i, inclass_C07 i = true -> C07_holds i (model_C07 i).
Proof. exact model_C07_holds. Qed.
Print Assumptions C07_model_holds.

(* non-vacuity: every mutation kind of the catalogue is applicable to a concrete well-formed schema, is detected, and the
   decider accepts the model's output *)
Open Scope N_scope.
Definition ex7_A : schema :=
  [mkTable 0 [mkCol 0 (mkTy 0 []) false true; mkCol 1 (mkTy 3 [20]) true false; mkCol 2 (mkTy 5 [10;2]) true false]
             [Uq 1 [1]; Ix 2 [2;1] false];
   mkTable 1 [mkCol 0 (mkTy 0 []) false true] []].
Definition ex7_muts : list mut :=
  [MAddTable (mkTable 2 [mkCol 0 (mkTy 0 []) false true] [Ix 20 [0] false]); MDropTable 0;
   MAddColumn 1 (mkCol 5 (mkTy 4 []) true false); MDropColumn 1 0; MFlipNullable 0 1; MChangeType 0 2 (mkTy 9 []);
   MAddCons 0 (Uq 3 [2]); MAddCons 0 (Ix 4 [0] true); MDropCons 0 1; MDropCons 0 2; MChangeCons 0 (Uq 1 [2]); MChangeCons 0 (Ix 2 [2;1] true)].
Example C07_nonvacuous :
  forallb (fun m => inclass_C07 (ex7_A, m) && check_C07 (ex7_A, m) (model_C07 (ex7_A, m))
                    && negb (is_nil (diff (mkCfg true true) (reflect_sqlite ex7_A) (apply_mut m ex7_A)))) ex7_muts = true.
Proof. vm_compute. reflexivity. Qed.
