(* C08 — rendered migration code does exactly what the operation objects do.  Statements only. *)
From Coq Require Import String.
From AV Require Import Model.PyRepr Model.Render Spec.C08 Proofs.PyReprProof Proofs.RenderProof.
Open Scope N_scope.

(* repr() followed by the lexer is the identity, for every string and every printability oracle *)
Theorem py_repr_roundtrip : forall (printable : N -> bool) (s : str),
  valid_str s -> py_lex (py_repr printable s) = Ok [StrTok s].
Proof. exact PyReprProof.py_repr_roundtrip. Qed.
Print Assumptions py_repr_roundtrip.

(* any well-formed token list whose string tokens are all produced by repr lexes back to itself *)
Theorem C08_lex_tokens : forall (printable : N -> bool) (l : list ptok),
  forallb wf_tok l = true -> forallb via_repr_tok l = true -> py_lex (untok printable l) = Ok (map erase l).
Proof. exact RenderProof.lex_untok. Qed.
Print Assumptions C08_lex_tokens.

(* the table lemma: every renderer passes every string field through repr (table comments and table prefixes
   included, after their repairs): no exception is left *)
Theorem C08_all_leaves_via_repr : forall c ops,
  forallb top_ty_ok ops = true ->
  forallb (fun st => forallb all_leaves_via_repr (stmt_exprs st)) (render_ops c ops) = true.
Proof. exact RenderProof.render_all_via_repr. Qed.
Print Assumptions C08_all_leaves_via_repr.

(* rendered expressions are well-formed token sequences whenever the input is (identifiers of the configuration
   and of the opaque type trees are Python identifiers, strings are code point sequences) *)
Theorem C08_render_wf : forall c ops, wf_cfg c = true -> forallb wf_top ops = true ->
  forallb (fun st => forallb wf_expr (stmt_exprs st)) (render_ops c ops) = true.
Proof. intros c ops C W. exact (RenderProof.render_wf c C ops W). Qed.
Print Assumptions C08_render_wf.

(* hence the printed text of every rendered expression lexes to the intended token list *)
Theorem C08_tokens : forall (printable : N -> bool) c ops st e,
  wf_cfg c = true -> forallb wf_top ops = true -> forallb top_ty_ok ops = true ->
  In st (render_ops c ops) -> In e (stmt_exprs st) ->
  py_lex (print printable e) = Ok (tokens e).
Proof.
  intros printable c ops st e C W T Hst He.
  pose proof (RenderProof.render_all_via_repr c ops T) as A. rewrite forallb_forall in A.
  specialize (A st Hst). rewrite forallb_forall in A.
  pose proof (RenderProof.render_wf c C ops W) as B. rewrite forallb_forall in B.
  specialize (B st Hst). rewrite forallb_forall in B.
  apply RenderProof.print_lex; [exact (B e He)|exact (A e He)].
Qed.
Print Assumptions C08_tokens.

(* pasting text between quote characters (what the table-comment and prefix renderers used to do) cannot work
   for any text that contains the quote character *)
Theorem C08_raw_quote_breaks : forall s, In c_sq s -> py_lex (raw_quote s) <> Ok [StrTok s].
Proof. exact RenderProof.raw_quote_breaks. Qed.
Print Assumptions C08_raw_quote_breaks.

(* reading the rendered tree back as the Operations proxies do yields the operation objects *)
Theorem C08_eval : forall c ops, canonical (c, ops) = true -> eval_stmts c (render_ops c ops) = Some (expected c ops).
Proof. exact RenderProof.eval_render. Qed.
Print Assumptions C08_eval.

(* ... in the namespace of the generated file: the rendered body, evaluated where ONLY the two configured module names and
   the modules of the collected import lines are bound (eval_in), denotes the operations -- the text has no free names *)
Theorem C08_eval_closed : forall c ops, canonical (c, ops) = true ->
  eval_in c (render_imports ops) (render_ops c ops) = Some (expected c ops).
Proof. exact RenderProof.eval_in_render. Qed.
Print Assumptions C08_eval_closed.
(* and an import that is used but was not collected is noticed: whatever else the output says, the decider rejects a text
   that uses a type of a dialect module for which the output has no import line *)
Theorem C08_missing_import_rejected : forall c tn x d p a o st ops',
  c_type x = mkTy (TyDialect d) p a -> memb d (o_imports o) = false ->
  o_parsed o = Some st -> eval_stmts c st = Some (TOp tn None (OAddColumn x) :: ops') ->
  check_C08 (c, [TOp tn None (OAddColumn x)]) o = false.
Proof.
  intros c tn x d p a o st ops' T M P E. unfold check_C08, reads_back. rewrite P. cbn [fst snd existsb is_opaque orb].
  unfold eval_in. rewrite E. unfold dialects_of. cbn [flat_map top_dialects tbl_op_dialects]. rewrite T. cbn [ty_dialect ty_mod app forallb].
  rewrite M. cbn [andb]. rewrite !andb_false_r. reflexivity.
Qed.
Print Assumptions C08_missing_import_rejected.
(* the referred column of an inline foreign key keeps EVERY token of the referred table's name: a table in a dotted schema
   (otherdb.dbo) is rendered with both parts, and the referred column by its database name when the table was found *)
Theorem C08_fk_dotted_schema : forall a b t k n,
  ref_text (mkRef [a; b; t; k] None) = a ++ 46%N :: b ++ 46%N :: t ++ 46%N :: k /\
  ref_text (mkRef [a; b; t; k] (Some n)) = a ++ 46%N :: b ++ 46%N :: t ++ 46%N :: n.
Proof. intros. split; reflexivity. Qed.
Print Assumptions C08_fk_dotted_schema.

Theorem C08_decider_sound : forall i o, check_C08 i o = true -> C08_holds i o.
Proof. exact RenderProof.decider_sound. Qed.
Print Assumptions C08_decider_sound.

Theorem C08_decider_complete : forall i o, C08_holds i o -> check_C08 i o = true.
Proof. exact RenderProof.decider_complete. Qed.
Print Assumptions C08_decider_complete.

Theorem C08_main : forall i, inclass_C08 i = true -> C08_holds i (model_C08 i).
Proof. exact RenderProof.model_holds. Qed.
Print Assumptions C08_main.

(* under a naming convention with a constraint_name token, code that names a constraint with a plain string where the
   operation object had a conv() name does not pass the decider: the convention would be applied a second time *)
Theorem C08_plain_for_conv_rejected : forall tn s st,
  check_C08 (mkCfg (lit "op") (lit "sa") false true, [TOp tn None (ODropConstraint (Conv s) None)])
            (mkOut (Some st) (Some [TOp tn None (ODropConstraint (Plain (mkId s None)) None)]) true []) = false.
Proof. intros. unfold check_C08, exec_names_ok, names_agree. cbn [o_parsed o_sql_same o_exec fst snd andb]. reflexivity. Qed.
Print Assumptions C08_plain_for_conv_rejected.

(* a Column whose key differs from its database name (the ORM's uname = mapped_column("user_name")): every renderer addresses
   it by the NAME, and the operation read back from the rendered text has no key left (expected = nk_top of the input; this is
   what C08_eval states).  The column and index-column instances: *)
Theorem C08_column_read_back_by_name : forall c x, can_column c x = true -> eval_column c (render_column c x) = Some (nk_col x).
Proof. exact RenderProof.rt_column. Qed.
Print Assumptions C08_column_read_back_by_name.
Theorem C08_index_columns_read_back_by_name : forall c l, forallb can_ixexpr l = true ->
  mapM (as_ixexpr c) (map (render_ixexpr c) l) = Some (map nk_ix l).
Proof. exact RenderProof.rt_ixexprs. Qed.
Print Assumptions C08_index_columns_read_back_by_name.

(* ---------------------------------------------------------------- what is false of the faithful model *)

Definition cfg0 : cfg := mkCfg (lit "op") (lit "sa") false false.
Definition id0 (s:string) : ident := mkId (lit s) None.
Definition col0 (d:option sdefault) : column :=
  mkCol (id0 "c") (mkTy TySa [lit "String"] []) d None true false None None.

(* a string server default with a quote at either end loses it: _render_server_default strips them *)
Definition w_default : c08_in := (cfg0, [TOp (id0 "t") None (OAddColumn (col0 (Some (SdStr (lit "'x'")))))]).
Theorem C08_eval_refuted_default_quotes : ~ C08_holds w_default (model_C08 w_default).
Proof. intros [_ [H _]]. vm_compute in H. discriminate. Qed.
Print Assumptions C08_eval_refuted_default_quotes.

(* quoted_name(..., quote=True): _ident keeps the characters and drops the flag *)
Definition w_quote : c08_in := (cfg0, [TDropTable (mkId (lit "plain") (Some true)) None None false]).
Theorem C08_eval_refuted_quote_flag : ~ C08_holds w_quote (model_C08 w_quote).
Proof. intros [_ [H _]]. vm_compute in H. discriminate. Qed.
Print Assumptions C08_eval_refuted_quote_flag.

(* the rendered drop_table has no columns: the DROP TYPE of a native Enum column is lost *)
Definition w_droptype : c08_in := (cfg0, [TDropTable (id0 "t") None None true]).
Theorem C08_eval_refuted_drop_table_types : ~ C08_holds w_droptype (model_C08 w_droptype).
Proof. intros [_ [H _]]. vm_compute in H. discriminate. Qed.
Print Assumptions C08_eval_refuted_drop_table_types.

(* drop_index of an index without any table-bound column (a bare column() expression) under a convention with a
   constraint_name token: invoked directly, the index keeps its plain name; the rendered op.drop_index('ix1', ...) knows
   no expressions, DropIndexOp.to_index substitutes a dummy table column and the convention renames the index *)
Definition w_ixname : c08_in :=
  (mkCfg (lit "op") (lit "sa") false true, [TOp (id0 "t") None (ODropIndex (Plain (id0 "ix1")) None false (mkIxKw None None None))]).
Theorem C08_eval_refuted_unbound_index_name : ~ C08_holds w_ixname (model_C08 w_ixname).
Proof. intros [_ [H _]]. vm_compute in H. discriminate. Qed.
Print Assumptions C08_eval_refuted_unbound_index_name.

(* op.execute is rendered with the configured alembic prefix: it reads back whatever the prefix is *)
Theorem C08_execute_any_prefix : forall c sql, eval_stmts c (render_ops c [TExecute sql]) = Some [TExecute sql].
Proof. intros c sql. apply (RenderProof.eval_render c [TExecute sql]). reflexivity. Qed.
Print Assumptions C08_execute_any_prefix.

(* a plain FetchedValue() server default is rendered with the sqlalchemy prefix and reads back *)
Theorem C08_fetched_value_roundtrip : forall c tn,
  can_ident tn = true -> eval_stmts c (render_ops c [TOp tn None (OAddColumn (col0 (Some SdFetched)))])
  = Some [TOp tn None (OAddColumn (col0 (Some SdFetched)))].
Proof.
  intros c tn H. apply (RenderProof.eval_render c [TOp tn None (OAddColumn (col0 (Some SdFetched)))]).
  unfold canonical. cbn [fst snd forallb can_top]. unfold can_tbl_op. rewrite H. reflexivity.
Qed.
Print Assumptions C08_fetched_value_roundtrip.

(* an inline ForeignKey to a column whose key differs from its name: CreateTableOp.to_table builds the referred table from
   ForeignKey._get_colspec(), which carries the KEY, so direct invocation emits REFERENCES t2 (<key>); the rendered code has the
   name (translated by _fk_colspec) and emits REFERENCES t2 (<name>) *)
Definition w_fkkey : c08_in :=
  (cfg0, [TCreateTable (mkTable (id0 "t") None [col0 None]
            [CFk [id0 "c"] [mkRef [lit "t2"; lit "c_remkey"] (Some (lit "c_rem"))] NoName None None None None false None] None [] None)]).
Theorem C08_eval_refuted_fk_referred_key : ~ C08_holds w_fkkey (model_C08 w_fkkey).
Proof. intros [_ [H _]]. vm_compute in H. discriminate. Qed.
Print Assumptions C08_eval_refuted_fk_referred_key.

(* ---------------------------------------------------------------- non-vacuity *)
Definition ex_table : table :=
  mkTable (id0 "it's") (Some (id0 "My Schema"))
    [mkCol (id0 "na\""me") (mkTy TySa [lit "String"] [PKw (lit "length") (PInt false (lit "30"))]) (Some (SdStr (lit "d'f"))) None false false (Some (lit "c'm")) (Some (lit "uname"));
     mkCol (id0 "n") (mkTy (TyDialect (lit "mysql")) [lit "TINYINT"] []) (Some (SdComputed (lit "a + 1") (Some true))) (Some false) true false None None]
    [CPk [id0 "n"] (Conv (lit "pk_t")); CUq [id0 "n"] (Plain (id0 "uq'1")) (Some true) None; CCk (lit "n > 0") NoName;
     CFk [id0 "n"] [mkRef [lit "otherdb"; lit "dbo"; lit "parent"; lit "id"] None] NoName None (Some (lit "CASCADE")) None None false None]
    (Some (lit "tbl 'c'")) [lit "TEMPORARY"] (Some true).
Definition ex_input : c08_in :=
  (mkCfg (lit "op") (lit "sa") true true,
   [TCreateTable ex_table;
    TModify (id0 "t") (Some (id0 "s")) [(id0 "t", Some (id0 "s"), OCreateIndex (Conv (lit "ix")) [IxCol (id0 "a b") (Some (lit "ab_key")); IxExpr (lit "lower(x)")] (Some true) None
                                                                    (mkIxKw (Some (lit "gin")) (Some (lit "x > 'it''s'")) (Some true)));
                                        (id0 "t", Some (id0 "s"), OAddColumn (mkCol (id0 "i") (mkTy TySa [lit "Integer"] []) (Some (SdIdentity
                                           (mkIdn (Some true) None (Some (false, lit "3")) (Some (true, lit "2")) None None None None (Some false) None None)))
                                           None false false None None));
                                        (id0 "t", Some (id0 "s"), OCreateTableComment (Some (lit "it's")) None)];
    TExecute (lit "update t set c = 'it''s'")]).
Example C08_main_nonvacuous : inclass_C08 ex_input = true /\ length (render_ops (fst ex_input) (snd ex_input)) = 3%nat.
Proof. vm_compute. auto. Qed.
Example C08_tokens_nonvacuous :
  wf_cfg (fst ex_input) = true /\ forallb wf_top (snd ex_input) = true /\ forallb top_ty_ok (snd ex_input) = true.
Proof. vm_compute. auto. Qed.
(* a prefix with a quote and a module prefix other than op are inside the class now *)
Example C08_repaired_inside_class :
  inclass_C08 (mkCfg (lit "aop") (lit "sa") true false,
               [TCreateTable (mkTable (id0 "t") None [col0 None] [] None [lit "TEMP'ORARY"] None);
                TModify (id0 "t") None [(id0 "t", None, ODropColumn (id0 "c"))]]) = true.
Proof. vm_compute. reflexivity. Qed.
