(* C08 — statements only. *)
From AV Require Import Model.PyRepr Model.Render Spec.C08 Proofs.PyReprProof.

Theorem py_repr_roundtrip : forall (printable : N -> bool) (s : str),
  valid_str s -> py_lex (py_repr printable s) = Ok [StrTok s].
Proof. exact PyReprProof.py_repr_roundtrip. Qed.
Print Assumptions py_repr_roundtrip.
