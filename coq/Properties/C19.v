From AV Require Import Spec.C19.
Theorem C19_placeholder : True. Proof. exact I. Qed.
Print Assumptions C19_placeholder.
