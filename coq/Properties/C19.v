(* C19 — Every revision file in the configured locations is loaded exactly once.
   Statement-only file: every theorem is proved in Proofs/LoaderProof.v. *)
From AV Require Import Model.Loader Spec.C19 Proofs.LoaderProof.
Open Scope N_scope.

(* ---- decider soundness: what the harness evaluates on the implementation's output implies the property *)
Theorem C19_check_sound : forall i o, check_C19 i o = true -> C19_holds i o.
Proof. exact check_sound. Qed.
Print Assumptions C19_check_sound.
(* ---- decider completeness: the decider rejects nothing that satisfies the property *)
Theorem C19_check_complete : forall i o, C19_holds i o -> check_C19 i o = true.
Proof. exact check_complete. Qed.
Print Assumptions C19_check_complete.

(* ---- main theorem: for every well-formed tree and every configuration the model satisfies the property (ids each once and nothing else,
        duplicate ids reported k-1 times, errors exactly when a revision file cannot be imported / bad separator) *)
Theorem C19_main : forall i, wf_tree (i_tree i) = true -> C19_holds i (load_revisions i).
Proof. exact main. Qed.
Print Assumptions C19_main.
Theorem C19_main_inclass : forall i, inclass_C19 i = true -> C19_holds i (load_revisions i).
Proof. exact main_inclass. Qed.
Print Assumptions C19_main_inclass.

(* ---- exactly once: for every well-formed tree, every list of configured locations (existing or not, nested,
        repeated, symlinked), recursive or not, sourceless or not *)
Theorem C19_exactly_once : forall T sl rec ps ob,
  wf_tree T = true ->
  load_from T sl rec (flat_map (resolve_loc T) ps) = Ok ob ->
  exists ids, expected_from T sl rec (flat_map (resolve_loc T) ps) = Ok ids /\ Permutation (o_ids ob) ids.
Proof. exact exactly_once. Qed.
Print Assumptions C19_exactly_once.

(* as files: whatever is loaded is an expected revision file, and no file is loaded twice *)
Theorem C19_nothing_else : forall T sl rec ps ob,
  wf_tree T = true -> load_from T sl rec (flat_map (resolve_loc T) ps) = Ok ob ->
  exists files, o_ids ob = map idN files /\ NoDup files /\
                incl files (expected_files T sl rec (flat_map (resolve_loc T) ps)).
Proof. exact nothing_else. Qed.
Print Assumptions C19_nothing_else.

Definition R (rid tag:N) : option N := Some (mkcode rid tag).   (* a module defining revision = rid, identified by tag *)
Definition s_x_txt : str := [120;46;116;120;116].                                              (* x.txt *)
Definition s_x_cache : str := [120;46;99;112;121;116;104;111;110;45;51;49;50;46;112;121;99].   (* x.cpython-312.pyc *)
Definition s_x_pyo : str := [120;46;112;121;111].
Definition s_x_py : str := [120;46;112;121].
Definition s_x_pyc : str := [120;46;112;121;99].
Definition s_a_py : str := [97;46;112;121].
Definition s_v1 : str := [118;49].
Definition s_setup : str := [115;101;116;117;112;46;112;121].                                  (* setup.py *)
Definition dflt : list (option path) := [Some [s_sd; s_versions]].

(* ---- no error: if every expected revision file is importable the load succeeds *)
Theorem C19_no_error : forall T sl rec ps ids,
  wf_tree T = true ->
  expected_from T sl rec (flat_map (resolve_loc T) ps) = Ok ids ->
  exists ob, load_from T sl rec (flat_map (resolve_loc T) ps) = Ok ob.
Proof. exact no_error. Qed.
Print Assumptions C19_no_error.

(* ---- a source wins over its compiled forms; a .pyc wins over a .pyo *)
Theorem C19_source_wins : forall T sl rec ps ob,
  wf_tree T = true -> load_from T sl rec (flat_map (resolve_loc T) ps) = Ok ob ->
  exists files, o_ids ob = map idN files /\
    forall d nm c, In (d, nm, c) files -> suffixb s_py nm = false ->
      exists_in T d (removelast nm) = false /\ (suffixb s_pyo nm = true -> exists_in T d (removelast nm ++ [99]) = false).
Proof. exact source_wins. Qed.
Print Assumptions C19_source_wins.

(* ---- locations reaching the same real paths again (repeated, nested, through a link): same revisions, and at
        least one "loaded twice" warning per path listed again *)
Theorem C19_dedupe : forall T sl rec ps ps2 ob ob',
  wf_tree T = true -> incl ps2 ps ->
  load_from T sl rec (flat_map (resolve_loc T) ps) = Ok ob ->
  load_from T sl rec (flat_map (resolve_loc T) (ps ++ ps2)) = Ok ob' ->
  Permutation (o_ids ob) (o_ids ob')
  /\ (length (listing T sl rec (flat_map (resolve_loc T) ps2)) <= N.to_nat (o_twice ob'))%nat.
Proof. exact dedupe_locations. Qed.
Print Assumptions C19_dedupe.

(* ---- the result is a function of the SET of listed files: for ANY order in which the listed paths are met (any
        permutation of the listing of a tree) the Scripts, the warnings and the error status are the same, and so is
        the revision map as long as no revision id is defined twice *)
Theorem C19_order_invariant : forall T sl L L',
  wf_tree T = true -> incl L (all_entries T) -> Permutation L L' ->
  obs_equiv (load_listing T sl L) (load_listing T sl L').
Proof. intros T sl L L' H. apply order_invariant. apply wf_tree_good; auto. Qed.
Print Assumptions C19_order_invariant.
Theorem C19_location_order_invariant : forall T sl rec ps ps',
  wf_tree T = true -> Permutation ps ps' ->
  obs_equiv (load_from T sl rec (flat_map (resolve_loc T) ps)) (load_from T sl rec (flat_map (resolve_loc T) ps')).
Proof. exact location_order_invariant. Qed.
Print Assumptions C19_location_order_invariant.

(* with a revision id defined twice the map is NOT a function of the set of files: version_locations "v1 v2" and
   "v2 v1" (same files, same warning) leave different Scripts in the map.  Replayed on the real ScriptDirectory by the
   two corpus cases map-order-v1v2 / map-order-v2v1 (exact correspondence includes the map). *)
Definition s_v2 : str := [118;50].
Definition T_twice : node :=
  Dir [(s_sd, Dir []); (s_v1, Dir [(s_a_py, File (R 7 1))]); (s_v2, Dir [([98;46;112;121], File (R 7 2))])].
Theorem C19_map_order_refuted : exists T ps ps' a b,
  wf_tree T = true /\ Permutation ps ps' /\
  load_from T false false (flat_map (resolve_loc T) ps) = Ok a /\
  load_from T false false (flat_map (resolve_loc T) ps') = Ok b /\
  Permutation (o_ids a) (o_ids b) /\ o_dups a = [7] /\ o_dups b = [7] /\ ~ Permutation (o_map a) (o_map b).
Proof. exists T_twice, [Some [s_v1]; Some [s_v2]], [Some [s_v2]; Some [s_v1]],
         (mkObs [mkcode 7 1; mkcode 7 2] 0 [7] [mkcode 7 2]), (mkObs [mkcode 7 2; mkcode 7 1] 0 [7] [mkcode 7 1]).
  repeat split; try (vm_compute; reflexivity).
  - apply perm_swap.
  - cbn [o_ids]. apply perm_swap.
  - cbn [o_map]. intro H. apply Permutation_length_1 in H. vm_compute in H. discriminate. Qed.
Print Assumptions C19_map_order_refuted.

(* ---- modules without a `revision` attribute: the id comes from a hex file name, for sources only *)
Theorem C19_legacy_ids : forall nm code r,
  module_revision nm code = Some r ->
  (rid_of code <> 0 /\ r = code) \/ (rid_of code = 0 /\ suffixb s_py nm = true /\ exists v, legacy_rev nm = Some v /\ r = mkcode v (tag_of code)).
Proof. intros nm code r. unfold module_revision. destruct (N.eqb_spec (rid_of code) 0) as [E|E].
  - destruct (legacy_rev nm) as [v|] eqn:L; [|discriminate]. intros [= <-]. right. repeat split; auto.
    + unfold legacy_rev in L. destruct (suffixb s_py nm); [reflexivity|discriminate].
    + eauto.
  - intros [= <-]. left. auto. Qed.
Print Assumptions C19_legacy_ids.
Example C19_legacy_ids_nonvacuous :
  module_revision [48;97;102;51;46;112;121] (mkcode 0 9) = Some (mkcode (1000 + 0x10af3) 9) /\      (* "0af3.py" *)
  module_revision [48;97;102;51;46;112;121;99] (mkcode 0 9) = None /\                              (* "0af3.pyc" *)
  module_revision [120;46;112;121] (mkcode 0 9) = None.                                            (* "x.py" *)
Proof. repeat split; vm_compute; reflexivity. Qed.

(* ---- an id defined by k files is reported k-1 times *)
Theorem C19_duplicate_id : forall ids x, count x (dup_ids [] ids) = pred (count x ids).
Proof. exact duplicate_id. Qed.
Print Assumptions C19_duplicate_id.

(* ---- version_locations splitting: the code's items are exactly the documented items (blank items dropped), for
        every version_path_separator and every string *)
Theorem C19_split_clean : forall sp s,
  match split_locations sp s, spec_locations sp s with
  | Ok vl, Ok ps => version_locations vl = ps
  | Err a, Err b => a = b
  | _, _ => False
  end.
Proof. exact split_full. Qed.
Print Assumptions C19_split_clean.

(* ---- characterisation of the two file-name patterns as modelled *)
Theorem C19_rev_file_names : forall sl nm,
  match_rev_file sl nm = if is_rev_name sl nm then Some (match kind_of nm with KSrc => nm | _ => removelast nm end, kind_of nm) else None.
Proof. exact match_rev_file_spec. Qed.
Print Assumptions C19_rev_file_names.

(* ---- the witnesses of the three repaired findings now satisfy the property *)
Definition T_shadow : node :=
  Dir [(s_sd, Dir [(s_versions, Dir [(s_x_txt, File (R 1 1)); (s_pycache, Dir [(s_x_cache, File (R 2 2))])])])].
Definition i_blank : input :=
  mkInput SepNone (Some [118;49;32]) false false
          (Dir [(s_sd, Dir []); (s_v1, Dir [(s_a_py, File (R 1 1))]); (s_setup, File (R 2 2))]).
Definition T_pyo : node := Dir [(s_sd, Dir [(s_versions, Dir [(s_x_pyo, File (R 1 1))])])].
Example C19_repaired_witnesses :
  load_from T_pyo true false (flat_map (resolve_loc T_pyo) dflt) = Ok (mkObs [mkcode 1 1] 0 [] [mkcode 1 1]) /\
  load_from T_shadow true false (flat_map (resolve_loc T_shadow) dflt) = Ok (mkObs [mkcode 2 2] 0 [] [mkcode 2 2]) /\
  load_revisions i_blank = Ok (mkObs [mkcode 1 1] 0 [] [mkcode 1 1]) /\ expected i_blank = Ok [mkcode 1 1].
Proof. repeat split; vm_compute; reflexivity. Qed.

(* ---- non-vacuity: a tree with source + compiled + __pycache__ + junk + file link + directory link, three locations
        (one of them the link), ":" separator with blanks around items, recursive, sourceless — satisfies every
        hypothesis, and the load is non-trivial *)
Definition T_rich : node :=
  Dir [(s_sd, Dir [(s_versions, Dir [(s_x_py, File (R 1 1)); (s_x_pyc, File (R 2 2)); (s_x_txt, File None);
          (s_pycache, Dir [(s_x_cache, File (R 3 3));
                           ([121;46;99;112;121;116;104;111;110;45;51;49;50;46;112;121;99], File (R 4 4))]);
          ([108;110;107;46;116;120;116], Link [s_v1; s_a_py])])]);
       (s_v1, Dir [(s_a_py, File (R 5 5)); ([98;46;112;121], File (R 5 6))]);
       ([108], Link [s_v1])].
(* version_locations = "sd/versions:v1: l " *)
Definition i_rich : input :=
  mkInput SepColon (Some [115;100;47;118;101;114;115;105;111;110;115;58;118;49;58;32;108;32]) true true T_rich.
Example C19_main_nonvacuous :
  inclass_C19 i_rich = true /\ load_revisions i_rich = Ok (mkObs [mkcode 5 5; mkcode 1 1; mkcode 4 4; mkcode 5 6] 3 [5] [mkcode 1 1; mkcode 4 4; mkcode 5 6]) /\ expected i_rich = Ok [mkcode 1 1; mkcode 4 4; mkcode 5 5; mkcode 5 6].
Proof. repeat split; vm_compute; reflexivity. Qed.
Definition ps_rich : list (option path) := [Some [s_sd; s_versions]; Some [s_v1]; Some [[108]]].
Example C19_exactly_once_nonvacuous :
  wf_tree T_rich = true /\
  load_from T_rich true true (flat_map (resolve_loc T_rich) ps_rich) = Ok (mkObs [mkcode 5 5; mkcode 1 1; mkcode 4 4; mkcode 5 6] 3 [5] [mkcode 1 1; mkcode 4 4; mkcode 5 6]) /\
  expected_from T_rich true true (flat_map (resolve_loc T_rich) ps_rich) = Ok [mkcode 1 1; mkcode 4 4; mkcode 5 5; mkcode 5 6].
Proof. repeat split; vm_compute; reflexivity. Qed.
Example C19_dedupe_nonvacuous :
  incl [Some [[108]]] ps_rich /\
  exists ob, load_from T_rich true true (flat_map (resolve_loc T_rich) (ps_rich ++ [Some [[108]]])) = Ok ob /\ o_twice ob = 5.
Proof. split; [intros x [<-|[]]; right; right; left; reflexivity|]. eexists. split; vm_compute; reflexivity. Qed.
Example C19_split_clean_nonvacuous :
  split_locations SepColon (i_locs i_rich) = Ok (Some [[115;100;47;118;101;114;115;105;111;110;115]; [118;49]; [108]]).
Proof. vm_compute; reflexivity. Qed.
