(* C19 — Every revision file in the configured locations is loaded exactly once.
   Statement-only file: every theorem is proved in Proofs/LoaderProof.v. *)
From AV Require Import Model.Loader Spec.C19 Proofs.LoaderProof.
Open Scope N_scope.

(* ---- decider soundness: what the harness evaluates on the implementation's output implies the property *)
Theorem C19_check_sound : forall i o, check_C19 i o = true -> C19_holds i o.
Proof. exact check_sound. Qed.
Print Assumptions C19_check_sound.

(* ---- main theorem: for every well-formed tree and every configuration the model satisfies the property (ids each once and nothing else,
        duplicate ids reported k-1 times, errors exactly when a revision file cannot be imported / bad separator) *)
Theorem C19_main : forall i, wf_tree (i_tree i) = true -> C19_holds i (load_revisions i).
Proof. exact main. Qed.
Print Assumptions C19_main.
Theorem C19_main_inclass : forall i, inclass_C19 i = true -> C19_holds i (load_revisions i).
Proof. exact main_inclass. Qed.
Print Assumptions C19_main_inclass.

(* ---- exactly once: for every well-formed tree, every list of configured locations (existing or not, nested,
        repeated, symlinked), recursive or not, sourceless or not *)
Theorem C19_exactly_once : forall T sl rec ps ob,
  wf_tree T = true ->
  load_from T sl rec (flat_map (resolve_loc T) ps) = Ok ob ->
  exists ids, expected_from T sl rec (flat_map (resolve_loc T) ps) = Ok ids /\ Permutation (o_ids ob) ids.
Proof. exact exactly_once. Qed.
Print Assumptions C19_exactly_once.

(* as files: whatever is loaded is an expected revision file, and no file is loaded twice *)
Theorem C19_nothing_else : forall T sl rec ps ob,
  wf_tree T = true -> load_from T sl rec (flat_map (resolve_loc T) ps) = Ok ob ->
  exists files, o_ids ob = map idN files /\ NoDup files /\
                incl files (expected_files T sl rec (flat_map (resolve_loc T) ps)).
Proof. exact nothing_else. Qed.
Print Assumptions C19_nothing_else.

Definition s_x_txt : str := [120;46;116;120;116].                                              (* x.txt *)
Definition s_x_cache : str := [120;46;99;112;121;116;104;111;110;45;51;49;50;46;112;121;99].   (* x.cpython-312.pyc *)
Definition s_x_pyo : str := [120;46;112;121;111].
Definition s_x_py : str := [120;46;112;121].
Definition s_x_pyc : str := [120;46;112;121;99].
Definition s_a_py : str := [97;46;112;121].
Definition s_v1 : str := [118;49].
Definition s_setup : str := [115;101;116;117;112;46;112;121].                                  (* setup.py *)
Definition dflt : list (option path) := [Some [s_sd; s_versions]].

(* ---- no error: if every expected revision file is importable the load succeeds *)
Theorem C19_no_error : forall T sl rec ps ids,
  wf_tree T = true ->
  expected_from T sl rec (flat_map (resolve_loc T) ps) = Ok ids ->
  exists ob, load_from T sl rec (flat_map (resolve_loc T) ps) = Ok ob.
Proof. exact no_error. Qed.
Print Assumptions C19_no_error.

(* ---- a source wins over its compiled forms; a .pyc wins over a .pyo *)
Theorem C19_source_wins : forall T sl rec ps ob,
  wf_tree T = true -> load_from T sl rec (flat_map (resolve_loc T) ps) = Ok ob ->
  exists files, o_ids ob = map idN files /\
    forall d nm c, In (d, nm, c) files -> suffixb s_py nm = false ->
      exists_in T d (removelast nm) = false /\ (suffixb s_pyo nm = true -> exists_in T d (removelast nm ++ [99]) = false).
Proof. exact source_wins. Qed.
Print Assumptions C19_source_wins.

(* ---- locations reaching the same real paths again (repeated, nested, through a link): same revisions, and at
        least one "loaded twice" warning per path listed again *)
Theorem C19_dedupe : forall T sl rec ps ps2 ob ob',
  wf_tree T = true -> incl ps2 ps ->
  load_from T sl rec (flat_map (resolve_loc T) ps) = Ok ob ->
  load_from T sl rec (flat_map (resolve_loc T) (ps ++ ps2)) = Ok ob' ->
  Permutation (o_ids ob) (o_ids ob')
  /\ (length (listing T sl rec (flat_map (resolve_loc T) ps2)) <= N.to_nat (o_twice ob'))%nat.
Proof. exact dedupe_locations. Qed.
Print Assumptions C19_dedupe.

(* ---- an id defined by k files is reported k-1 times *)
Theorem C19_duplicate_id : forall ids x, count x (dup_ids [] ids) = pred (count x ids).
Proof. exact duplicate_id. Qed.
Print Assumptions C19_duplicate_id.

(* ---- version_locations splitting: the code's items are exactly the documented items (blank items dropped), for
        every version_path_separator and every string *)
Theorem C19_split_clean : forall sp s,
  match split_locations sp s, spec_locations sp s with
  | Ok vl, Ok ps => version_locations vl = ps
  | Err a, Err b => a = b
  | _, _ => False
  end.
Proof. exact split_full. Qed.
Print Assumptions C19_split_clean.

(* ---- characterisation of the two file-name patterns as modelled *)
Theorem C19_rev_file_names : forall sl nm,
  match_rev_file sl nm = if is_rev_name sl nm then Some (match kind_of nm with KSrc => nm | _ => removelast nm end, kind_of nm) else None.
Proof. exact match_rev_file_spec. Qed.
Print Assumptions C19_rev_file_names.

(* ---- the witnesses of the three repaired findings now satisfy the property *)
Definition T_shadow : node :=
  Dir [(s_sd, Dir [(s_versions, Dir [(s_x_txt, File (Some 1)); (s_pycache, Dir [(s_x_cache, File (Some 2))])])])].
Definition i_blank : input :=
  mkInput SepNone (Some [118;49;32]) false false
          (Dir [(s_sd, Dir []); (s_v1, Dir [(s_a_py, File (Some 1))]); (s_setup, File (Some 2))]).
Definition T_pyo : node := Dir [(s_sd, Dir [(s_versions, Dir [(s_x_pyo, File (Some 1))])])].
Example C19_repaired_witnesses :
  load_from T_pyo true false (flat_map (resolve_loc T_pyo) dflt) = Ok (mkObs [1] 0 []) /\
  load_from T_shadow true false (flat_map (resolve_loc T_shadow) dflt) = Ok (mkObs [2] 0 []) /\
  load_revisions i_blank = Ok (mkObs [1] 0 []) /\ expected i_blank = Ok [1].
Proof. repeat split; vm_compute; reflexivity. Qed.

(* ---- non-vacuity: a tree with source + compiled + __pycache__ + junk + file link + directory link, three locations
        (one of them the link), ":" separator with blanks around items, recursive, sourceless — satisfies every
        hypothesis, and the load is non-trivial *)
Definition T_rich : node :=
  Dir [(s_sd, Dir [(s_versions, Dir [(s_x_py, File (Some 1)); (s_x_pyc, File (Some 2)); (s_x_txt, File None);
          (s_pycache, Dir [(s_x_cache, File (Some 3));
                           ([121;46;99;112;121;116;104;111;110;45;51;49;50;46;112;121;99], File (Some 4))]);
          ([108;110;107;46;116;120;116], Link [s_v1; s_a_py])])]);
       (s_v1, Dir [(s_a_py, File (Some 5)); ([98;46;112;121], File (Some 5))]);
       ([108], Link [s_v1])].
(* version_locations = "sd/versions:v1: l " *)
Definition i_rich : input :=
  mkInput SepColon (Some [115;100;47;118;101;114;115;105;111;110;115;58;118;49;58;32;108;32]) true true T_rich.
Example C19_main_nonvacuous :
  inclass_C19 i_rich = true /\ load_revisions i_rich = Ok (mkObs [1; 5; 4; 5] 3 [5]) /\ expected i_rich = Ok [1; 4; 5; 5].
Proof. repeat split; vm_compute; reflexivity. Qed.
Definition ps_rich : list (option path) := [Some [s_sd; s_versions]; Some [s_v1]; Some [[108]]].
Example C19_exactly_once_nonvacuous :
  wf_tree T_rich = true /\
  load_from T_rich true true (flat_map (resolve_loc T_rich) ps_rich) = Ok (mkObs [1; 5; 4; 5] 3 [5]) /\
  expected_from T_rich true true (flat_map (resolve_loc T_rich) ps_rich) = Ok [1; 4; 5; 5].
Proof. repeat split; vm_compute; reflexivity. Qed.
Example C19_dedupe_nonvacuous :
  incl [Some [[108]]] ps_rich /\
  exists ob, load_from T_rich true true (flat_map (resolve_loc T_rich) (ps_rich ++ [Some [[108]]])) = Ok ob /\ o_twice ob = 5.
Proof. split; [intros x [<-|[]]; right; right; left; reflexivity|]. eexists. split; vm_compute; reflexivity. Qed.
Example C19_split_clean_nonvacuous :
  split_locations SepColon (i_locs i_rich) = Ok (Some [[115;100;47;118;101;114;115;105;111;110;115]; [118;49]; [108]]).
Proof. vm_compute; reflexivity. Qed.
