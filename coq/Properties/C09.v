(* C09 — The generated downgrade undoes the generated upgrade.  Statements only. *)
From AV Require Import Model.Ops Spec.C09 Model.C09Ddl Proofs.OpsProof Proofs.C09UndoProof Proofs.C09ExactProof.

(* The decider applied to the implementation's output is sound for the property. *)
Theorem C09_decider_sound : forall i o, check_C09 i o = true -> C09_holds i o.
Proof. exact check_C09_sound. Qed.
Print Assumptions C09_decider_sound.

(* ... and complete: the decider says yes exactly when the property holds of the implementation's output. *)
Theorem C09_decider_complete : forall i o, C09_holds i o -> check_C09 i o = true.
Proof. exact check_C09_complete. Qed.
Print Assumptions C09_decider_complete.

(* For every list of operations (leaf operations and ModifyTableOps containers) whose reversal
   succeeds: the reversed list has the inverse kinds in reverse order, containers included. *)
Theorem C09_kinds : forall up down, reverse_ops up = Ok down -> kinds down = rev (map inverse_tkind (kinds up)).
Proof. exact reverse_ops_kinds. Qed.
Print Assumptions C09_kinds.

(* Reversing twice: on the class roundtrip_safe every reversible operation (or container) can be
   reversed again and the result reads identically for every toimpl function. *)
Theorem C09_involutive_partial : forall x x', roundtrip_safe_top x = true -> reverse_top x = Ok x' ->
  exists x'', reverse_top x' = Ok x'' /\ ddl_equiv_top x'' x.
Proof. exact reverse_top_involutive. Qed.
Print Assumptions C09_involutive_partial.

Theorem C09_involutive_ops_partial : forall up down, forallb roundtrip_safe_top up = true -> reverse_ops up = Ok down ->
  exists up', reverse_ops down = Ok up' /\ Forall2 ddl_equiv_top up' up.
Proof. exact reverse_ops_involutive. Qed.
Print Assumptions C09_involutive_ops_partial.

(* Full strength on exact_class (roundtrip_safe and the stored original in the shape from_* gives it):
   reversing twice gives back the very operation object, field by field. *)
Theorem C09_reverse_involution : forall o, exact_class o = true -> bind (reverse o) reverse = Ok o.
Proof. exact reverse_twice_exact. Qed.
Print Assumptions C09_reverse_involution.
(* Outside exact_class (inside roundtrip_safe) equality on the nose is false although the DDL is the same. *)
Theorem C09_reverse_involution_refuted : roundtrip_safe w_inexact = true /\ exact_class w_inexact = false /\
  exists o'', bind (reverse w_inexact) reverse = Ok o'' /\ o'' <> w_inexact /\ ddl_equiv o'' w_inexact.
Proof. exact inexact_witness. Qed.
Print Assumptions C09_reverse_involution_refuted.

(* The names of the diff tuples (what compare_metadata reports) of a reversed operation are the inverse names,
   add_table_comment / remove_table_comment counted as one family. *)
Theorem C09_diff_tags : forall o o' d, roundtrip_safe o = true -> reverse o = Ok o' -> to_diff_tuple o = Ok d ->
  exists d', to_diff_tuple o' = Ok d' /\ map comment_family (diff_tags d') = map comment_family (map inverse_tag (diff_tags d)).
Proof. exact reverse_diff_tags. Qed.
Print Assumptions C09_diff_tags.

(* The diff tuples themselves: what as_diffs() reports for the reversed operation or container is, tuple by tuple and in
   reverse order, the inverse report (same object added/removed; for alter_column the old and new value exchanged and the
   other existing_ values as they are after the change), and one tuple is reported per leaf operation. *)
Theorem C09_diffs_inverse : forall x x' ds, diff_safe_top x = true -> reverse_top x = Ok x' -> as_diffs [x] = Ok ds ->
  exists ds', as_diffs [x'] = Ok ds' /\ Forall2 inv_diff (rev ds) ds'.
Proof. exact top_inv_diff. Qed.
Print Assumptions C09_diffs_inverse.
Theorem C09_diffs_complete : forall x ds, as_diffs [x] = Ok ds -> length ds = leaf_count x.
Proof. exact as_diffs_length. Qed.
Print Assumptions C09_diffs_complete.

(* Main theorem: the model's output satisfies the property on the class. *)
Theorem C09_model_holds : forall i, inclass_C09 i = true -> C09_holds i (model_C09 i).
Proof. exact model_C09_holds. Qed.
Print Assumptions C09_model_holds.

(* Exactly the operations without their stored original, and the classes without reverse(), fail,
   with the exception class the Python raises. *)
Theorem C09_irreversible : forall o e,
  reverse o = Err e <->
  match o with
  | DropConstraintOp _ _ _ _ None | DropColumnOp _ _ _ _ None => e = ValueError
  | RenameTableOp _ _ _ | ExecuteSQLOp _ | BulkInsertOp _ _ => e = NotImplementedError
  | _ => False
  end.
Proof. exact reverse_error. Qed.
Print Assumptions C09_irreversible.

(* Outside roundtrip_safe the involution is false of the faithful model: one witness per class.
   `refutes o` = o is outside the class, reverses twice, and the result reads differently. *)
Theorem C09_involutive_refuted_flags : refutes w_flag.
Proof. exact refuted_flags. Qed.
Print Assumptions C09_involutive_refuted_flags.
Theorem C09_involutive_refuted_table_index : refutes w_index.
Proof. exact refuted_table_index. Qed.
Print Assumptions C09_involutive_refuted_table_index.
Theorem C09_involutive_refuted_alter : refutes w_alter.
Proof. exact refuted_alter. Qed.
Print Assumptions C09_involutive_refuted_alter.
Theorem C09_involutive_refuted_dropcol_kw : refutes w_dropcol.
Proof. exact refuted_dropcol_kw. Qed.
Print Assumptions C09_involutive_refuted_dropcol_kw.
Theorem C09_involutive_refuted_table_comment : refutes w_comment.
Proof. exact refuted_table_comment. Qed.
Print Assumptions C09_involutive_refuted_table_comment.
Theorem C09_involutive_refuted_drop_type : refutes w_droptype.
Proof. exact refuted_drop_type. Qed.
Print Assumptions C09_involutive_refuted_drop_type.

(* On abstract database states: if what the operations remember of the database is what the
   database holds (undoable_ops, a boolean threaded through the upgrade), then the upgrade applies,
   its reversal exists, and running the reversal afterwards gives back the starting state. *)
Theorem C09_undo : forall up A, wf_db A -> undoable_ops up A = true ->
  exists down B, reverse_ops up = Ok down /\ apply_ops up A = Some B /\ apply_ops down B = Some A /\ wf_db B.
Proof. exact undo_ops. Qed.
Print Assumptions C09_undo.

(* One operation: its abstract effect followed by the abstract effect of its reversal restores the state. *)
Theorem C09_undo_op : forall o A, wf_db A -> undoable_op o A = true ->
  exists o' B, reverse o = Ok o' /\ apply_op o A = Some B /\ apply_op o' B = Some A /\ wf_db B.
Proof. exact undo_op. Qed.
Print Assumptions C09_undo_op.
(* Without the hypothesis it is false of the faithful model: DropTableCommentOp('t') without existing_comment. *)
Theorem C09_undo_refuted :
  wf_db w_undo_db /\ undoable_op w_undo_op w_undo_db = false /\
  exists o' B, reverse w_undo_op = Ok o' /\ apply_op w_undo_op w_undo_db = Some B /\
               exists C, apply_op o' B = Some C /\ C <> w_undo_db.
Proof. exact undo_refuted_witness. Qed.
Print Assumptions C09_undo_refuted.

(* The capture of compare.py for a changed object (Ops.capture): with old := the database's object the case is in the class
   of C09_model_holds (so the downgrade restores the database); with the metadata's object stored instead, the upgrade reads
   identically for toimpl, but the payload does not describe the database and the downgrade does not restore it. *)
Theorem C09_capture_database_side :
  inclass_C09 (InChange w_cap_tables [116%N] None (ChUnique w_cap_old w_cap_new)) = true /\
  let bad := capture_ops [116%N] None (ChUnique w_cap_new w_cap_new) in
  Forall2 ddl_equiv_top bad (capture_ops [116%N] None (ChUnique w_cap_old w_cap_new)) /\
  undoable_ops bad (db_of w_cap_tables) = false /\
  restoresb w_cap_tables bad (reverse_ops bad) = false.
Proof. exact capture_witness. Qed.
Print Assumptions C09_capture_database_side.

(* ------------------------------------------------------------------ non-vacuity *)

(* deferrable=False (repaired by ea71f11) is inside the class *)
Example C09_deferrable_false_in_class : roundtrip_safe w_deferrable = true.
Proof. exact deferrable_false_in_class. Qed.

Example C09_class_nonvacuous : forallb roundtrip_safe_top nv_ops = true /\ exists d, reverse_ops nv_ops = Ok d.
Proof. exact nv_ops_in_class. Qed.

Open Scope N_scope.
Definition nv_up : list top :=
  [ Leaf (CreateTableOp (mkT [116] None [mkCol [97] 1 false None None false false; mkCol [122] 1 true None None true false]
                             [CPk None [116] None [[97]] 0; CUq (Some [117]) [116] None [[122]] (Some false) None 6] [] (Some [99]) [] 0) None false);
    ModifyTableOps [116] None
      [ AddColumnOp [116] (mkCol [98] 2 true (Some 3) None false true) None;
        AlterColumnOp (mkAC [116] [98] None (Some 2) (SetTo (Some 3)) (Some true) None (Some false) (SetTo (Some [120])) (SetTo None) (Some [100]) (Some 4) 0);
        AddConstraintOp (CreateForeignKeyOp (Some [102]) [116] [116] [[100]] [[97]] None None (mkFkO (Some [67]) None None None (Some false)) 0);
        CreateIndexOp (mkCI (Some [105]) [116] [IxCol [100]; IxText 5] None true None 0);
        CreateTableCommentOp [116] (Some [110]) (Some [99]) None;
        DropColumnOp [116] [122] None 0 (Some ([116], mkCol [122] 1 true None None true false, None));
        DropConstraintOp (Some [117]) [116] (Some TyUnique) None (Some (CreateUniqueConstraintOp (Some [117]) [116] [[122]] None (Some false) None 6)) ];
    Leaf (CreateTableOp (mkT [117] (Some [115]) [mkCol [97] 1 false None None false false] [] [] None [] 0) None true) ].
Example C09_undo_nonvacuous : wf_db [] /\ undoable_ops nv_up [] = true /\
  (forall d B, reverse_ops nv_up = Ok d -> apply_ops nv_up [] = Some B -> undoable_ops d B = true).
Proof.
  split; [exact wf_empty|]. split; [vm_compute; reflexivity|].
  intros d B Hd HB. vm_compute in Hd, HB. inversion Hd; inversion HB; subst. vm_compute. reflexivity.
Qed.

(* the autogenerate class: a table with a comment in the database, the model drops the comment and a column *)
Definition nv_tables : list tdesc :=
  [ mkT [116] None [mkCol [97] 1 false None None false false; mkCol [98] 2 true None (Some [99]) false false]
        [CPk None [116] None [[97]] 0] [] (Some [111; 108; 100]) [] 0 ].
Definition nv_auto : list top :=
  [ ModifyTableOps [116] None
      [ DropColumnOp [116] [98] None 0 (Some ([116], mkCol [98] 2 true None (Some [99]) false false, None));
        DropTableCommentOp [116] (Some [111; 108; 100]) None ] ].
Example C09_auto_nonvacuous : inclass_C09 (InAuto nv_tables nv_auto) = true /\
  check_C09 (InAuto nv_tables nv_auto) (model_C09 (InAuto nv_tables nv_auto)) = true.
Proof. split; vm_compute; reflexivity. Qed.
(* ... and the decider rejects a downgrade that does not restore the comment (DropTableCommentOp without existing_comment) *)
Example C09_auto_decider_rejects :
  let up := [ModifyTableOps [116] None [DropTableCommentOp [116] None None]] in
  check_C09 (InAuto nv_tables up) (model_C09 (InAuto nv_tables up)) = false.
Proof. vm_compute. reflexivity. Qed.

(* exact_class has an inhabitant of every reversible class *)
Example C09_exact_nonvacuous :
  forallb exact_class
    [ AddConstraintOp (CreateForeignKeyOp (Some [102]) [116] [116] [[98]] [[97]] None None (mkFkO (Some [67]) None None None (Some false)) 3);
      DropConstraintOp (Some [117]) [116] (Some TyUnique) None (Some (CreateUniqueConstraintOp (Some [117]) [116] [[122]] None (Some false) None 6));
      CreateIndexOp (mkCI (Some [105]) [116] [IxCol [98]; IxText 5] None true None 2);
      DropIndexOp (Some [105]) (Some [116]) None None (Some true) 2 (Some (mkCI (Some [105]) [116] [IxCol [98]] None true None 2));
      CreateTableOp (mkT [116] None [mkCol [97] 1 false None None false false] [CPk None [116] None [[97]] 0] [] (Some [99]) [[84]] 4) None true;
      DropTableOp [116] None None (Some [99]) [] 4 (Some (mkTRev [mkCol [97] 1 false None None false false] [CPk None [116] None [[97]] 0] true));
      CreateTableCommentOp [116] (Some [110]) (Some [99]) None; DropTableCommentOp [116] (Some [99]) None;
      AlterColumnOp (mkAC [116] [98] None (Some 2) (SetTo (Some 3)) (Some true) None (Some false) (SetTo (Some [120])) (SetTo None) (Some [100]) (Some 4) 0);
      AddColumnOp [116] (mkCol [98] 2 true (Some 3) None true true) None;
      DropColumnOp [116] [98] None 0 (Some ([116], mkCol [98] 2 true None None false false, None)) ] = true.
Proof. vm_compute. reflexivity. Qed.
