(* C01 — Upgrade plan is exactly the missing ancestors, in dependency order.
   Statement-only file.  `input01 = (history, resolved targets, current rows)`. *)
From AV Require Import Spec.C01 Proofs.PlanProof Proofs.C01Proof.

(* For every well-formed acyclic history (any size, merges, several roots, depends_on, redundant
   parents), every set of current rows and every set of resolved targets: when the planner answers
   with a plan, the plan has no repetition, contains exactly the ancestors-or-self of the targets
   that are not ancestors-or-self of a current row, and every revision comes after all of its
   down revisions and dependencies (earlier in the plan, or already implied by the rows). *)
Theorem C01_plan_exact : forall G T Cur plan,
  wf_refs G -> ~ cyclic (all_down G) -> ndeps_ok G ->
  upgrade_plan G T Cur = POk plan ->
    NoDup plan /\
    (forall r, In r plan <-> AncOf G T r /\ ~ AncOf G Cur r) /\
    (forall pre r post, plan = pre ++ r :: post ->
       forall p, In p (all_down G r) -> In p pre \/ AncOf G Cur p).
Proof. intros G T Cur plan WF AC NOK E. pose proof (upgrade_plan_result G WF AC NOK T Cur) as H. rewrite E in H.
  exact (proj2 (H (TIds T) (proj2 (seteqN_spec T T) (fun x => iff_refl _)))). Qed.
Print Assumptions C01_plan_exact.

(* The planner never runs out of fuel (the topological sort terminates), never trips
   `assert not todo`, and refuses only an overlapping request. *)
Theorem C01_total : forall G T Cur e,
  wf_refs G -> ~ cyclic (all_down G) -> ndeps_ok G ->
  upgrade_plan G T Cur = PErr e -> e = PEOverlap /\ (Overlapping G T \/ Overlapping G Cur).
Proof. intros G T Cur e WF AC NOK E. pose proof (upgrade_plan_result G WF AC NOK T Cur) as H. rewrite E in H.
  destruct e; try contradiction. auto. Qed.
Print Assumptions C01_total.

(* whenever the resolved targets are the ones the documentation defines for the request (ref_agrees) *)
Theorem C01_model_holds : forall G, wf_refs G -> ~ cyclic (all_down G) -> ndeps_ok G ->
  forall t T Cur, ref_agrees G Cur t T = true -> C01_holds (G, t, T, Cur) (upgrade_plan G T Cur).
Proof. exact model_holds. Qed.
Print Assumptions C01_model_holds.

(* the boolean decider run on the implementation's plans implies the Prop-level property *)
Theorem C01_decider_sound : forall G, wf_refs G -> forall t T Cur out,
  check_C01 (G, t, T, Cur) out = true -> C01_holds (G, t, T, Cur) out.
Proof. exact decider_sound. Qed.
Print Assumptions C01_decider_sound.

(* the boolean class predicate evaluated by the harness is the hypothesis set of the theorems *)
Theorem C01_inclass : forall G, wf_graphb G = true -> wf_refs G /\ ~ cyclic (all_down G) /\ ndeps_ok G.
Proof. exact wf_graphb_spec. Qed.
Print Assumptions C01_inclass.

(* normalisation of depends_on (whatever order the implementation stored) preserves ancestry *)
Theorem C01_normalisation : forall G, wf_refs G -> ~ cyclic (all_down G) -> ndeps_ok G ->
  forall x y, path (norm_down G) x y <-> path (all_down G) x y.
Proof. exact norm_path_iff. Qed.
Print Assumptions C01_normalisation.

(* non-vacuity: six revisions, two roots, a merge point, a depends_on, two current rows *)
Definition ex_G : graph :=
  [mkRev 0 [] [] [] []; mkRev 1 [0] [] [] []; mkRev 2 [0] [] [] []; mkRev 3 [1;2] [] [] [];
   mkRev 4 [] [] [] []; mkRev 5 [4] [3] [3] []]%N.
Example C01_nonvacuous : wf_graphb ex_G = true /\ upgrade_plan ex_G [5]%N [1; 4]%N = POk [2; 3; 5]%N
  /\ check_C01 (ex_G, TIds [5], [5], [1;4])%N (POk [2; 3; 5]%N) = true
  /\ ref_targets ex_G [1;4]%N THeads = RefOk [5]%N /\ ref_targets ex_G [3]%N (TRelCur 1) = RefError
  /\ ref_targets ex_G [2]%N (TRelId 4 1) = RefOk [5]%N.
Proof. vm_compute. auto 10. Qed.

(* `upgrade heads`: the real heads cover the whole history, so after the plan EVERYTHING is applied:
   every revision is in the plan or already implied by the rows *)
From AV Require Import Proofs.C02Proof.
Theorem C01_upgrade_heads_applies_all : forall G Cur plan,
  wf_refs G -> ~ cyclic (all_down G) -> ndeps_ok G ->
  upgrade_plan G (real_heads_of G) Cur = POk plan ->
  forall x, In x (ids G) -> In x plan \/ AncOf G Cur x.
Proof. intros G Cur plan WF AC NOK E x Hx.
  destruct (C01_plan_exact G (real_heads_of G) Cur plan WF AC NOK E) as [_ [Hmem _]].
  pose proof (every_revision_below_a_real_head G WF AC x Hx) as HA.
  destruct (proj2 (ancs_spec G WF Cur)) with (z := x) as [_ _].
  destruct (in_dec N.eq_dec x (ancs G Cur)) as [Hin|Hnin].
  - right. apply (proj2 (ancs_spec G WF Cur)). exact Hin.
  - left. apply Hmem. split; auto. intros A. apply Hnin. apply (proj2 (ancs_spec G WF Cur)). exact A. Qed.
Print Assumptions C01_upgrade_heads_applies_all.

(* ---------- the whole command, end to end (Model.Command): the target exactly as typed is resolved (Model.Resolve, C16),
   planned (Model.Plan) and run step by step against the version table (Model.Heads, C03).  For every history, version
   table, and target string: whatever the resolution stage hands to the planner, the scripts that run are exactly the
   C01 plan in its order, and the table afterwards is exactly the heads of what is applied; a refused command
   runs nothing and leaves the table as it was. ---------- *)
From AV Require Import Spec.Command Proofs.CommandProof.
Theorem C01_whole_command_model : forall i, Cmd_holds i (run_command i).
Proof. exact CommandProof.model_holds. Qed.
Print Assumptions C01_whole_command_model.

Theorem C01_whole_command_decider_sound : forall i o, check_cmd i o = true -> Cmd_holds i o.
Proof. exact CommandProof.decider_sound. Qed.
Print Assumptions C01_whole_command_decider_sound.

(* a history with a cycle is refused by every command whatever the target (C15 inside the command), nothing runs *)
Theorem C01_cyclic_history_refused : forall i G0,
  has_colon (c_target i) = false -> intern0 (c_revs i) = Some G0 -> wf_refs G0 -> cyclic (all_down G0) ->
  run_command i = CFail R.CmdRevision [] (c_rows i).
Proof. exact CommandProof.cyclic_refused. Qed.
Print Assumptions C01_cyclic_history_refused.

(* sessions: typed commands one after the other on one database, every command finding the rows the previous one left
   (after a refused command: the unchanged rows).  Every outcome of the model session satisfies the whole-command
   statement, and the decider applied to an observed session is sound. *)
Theorem C01_session_model_holds : forall rows cmds,
  Cmds_hold (run_session rows cmds) /\ chained (run_session rows cmds) = true.
Proof. exact CommandProof.session_model_holds. Qed.
Print Assumptions C01_session_model_holds.

Theorem C01_session_decider_sound : forall l, check_cmds l tt = true -> Cmds_hold l.
Proof. exact CommandProof.session_decider_sound. Qed.
Print Assumptions C01_session_decider_sound.

(* sessions never leave the domain: the rows a successful command of the domain leaves are the names of a version table
   of the domain again (ids of the history, duplicate-free, the maximal elements of their own closure), so the
   hypothesis `cmd_pre` has to be assumed for the first command of a session only (a refused command leaves the rows
   it found: Cmd_holds) *)
From AV Require Proofs.SessionProof.
Theorem C01_session_state_preserved : forall i ran rows,
  cmd_pre i = true -> run_command i = COk ran rows ->
  match resolve_cmd i with
  | RPlanUp G rowsN _ _ | RPlanDown G rowsN _ _ _ =>
      exists rws, rows = names (c_revs i) rws /\ state_okb G rws = true
  | _ => False
  end.
Proof. exact SessionProof.command_state_preserved. Qed.
Print Assumptions C01_session_state_preserved.

(* and re-reading those names against the history gives back the same positions, when the written ids are distinct
   (duplicate ids are a load error) and the positions are positions of the history *)
Theorem C01_session_rows_reread : forall H, NoDup (map R.s_id H) -> forall l,
  Forall (fun n => (N.to_nat n < length H)%nat) l -> pos_list H (names H l) = Some l.
Proof. exact SessionProof.names_roundtrip. Qed.
Print Assumptions C01_session_rows_reread.

(* the two together, for a command: when the written ids are distinct, the rows a successful command of the domain leaves,
   re-read against the history, ARE a version table of the domain (the graph is the interned loaded history, its ids are
   positions of the history) *)
Theorem C01_session_next_rows_in_domain : forall i ran rows,
  cmd_pre i = true -> run_command i = COk ran rows -> NoDup (map R.s_id (c_revs i)) ->
  match resolve_cmd i with
  | RPlanUp G _ _ _ | RPlanDown G _ _ _ _ =>
      exists rws, pos_list (c_revs i) rows = Some rws /\ state_okb G rws = true
  | _ => False
  end.
Proof. exact SessionProof.command_rows_reread. Qed.
Print Assumptions C01_session_next_rows_in_domain.

Definition ex_cmd : cmd_in :=
  mkCmd [R.mkS [97;49;98;50;99]%N [] [] []; R.mkS [98;50;99;51;100]%N [[97;49;98;50;99]%N] [] [[108;97;98;48]%N]; R.mkS [99;51;100;52;101]%N [[97;49;98;50;99]%N] [] []; R.mkS [100;52;101;53;102]%N [[98;50;99;51;100]%N; [99;51;100;52;101]%N] [] []; R.mkS [101;53;102;54;97]%N [] [[98;50;99;51;100]%N] []]
        [([98;50;99;51;100]%N, [100;52;101;53;102]%N)] [] [[99;51;100;52;101]%N] true [104;101;97;100;115]%N.
Example C01_whole_command_nonvacuous : cmd_pre ex_cmd = true /\ run_command ex_cmd = COk [[98;50;99;51;100]%N; [101;53;102;54;97]%N; [100;52;101;53;102]%N] [[100;52;101;53;102]%N; [101;53;102;54;97]%N]
  /\ check_cmd ex_cmd (run_command ex_cmd) = true.
Proof. vm_compute. auto. Qed.
