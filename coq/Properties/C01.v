From AV Require Import Spec.C01.
Theorem C01_placeholder : True. Proof. exact I. Qed.
Print Assumptions C01_placeholder.
