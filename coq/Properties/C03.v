(* C03 — Version table always holds exactly the heads of the applied set.  Statements only. *)
From AV Require Import Model.Heads Spec.C03 Proofs.C03Graph Proofs.HeadsProof.
From Coq Require Import Permutation.

(* the decider applied to implementation traces is sound for the property *)
Theorem C03_decider_sound : forall i o, check_C03 i o = true -> C03_holds i o.
Proof. exact decider_sound. Qed.
Print Assumptions C03_decider_sound.

(* ONE step of update_to_step: from any state in which heads/rows are in step and are the maximal applied
   revisions of a closed applied set A, a valid upgrade/downgrade step never errs, every statement matches
   exactly one row, and the rows are again duplicate-free, exactly the maximal applied revisions, an antichain,
   and imply exactly the applied set — for every history (no `reduced G` hypothesis) and every iteration
   order `ord` of the un-merge set *)
Theorem C03_step : forall G ord r up A s,
  wf_refs G -> ~ cyclic (all_down G) -> ndeps_okb G = true -> (forall l, Permutation (ord l) l) ->
  Inv G A s -> valid_step G A r up ->
  exists s' st, update_to_step G ord (RevStep r up) s = Ok (s', st) /\
                Inv G (ghost r up A) s' /\ Forall one_row st /\ rows_ok G (ghost r up A) (rows s').
Proof. intros. apply step_thm; auto. apply gwf_of; auto. Qed.
Print Assumptions C03_step.

(* ANY valid step sequence, by induction over the step list *)
Theorem C03_invariant : forall G ord steps A s,
  wf_refs G -> ~ cyclic (all_down G) -> ndeps_okb G = true -> (forall l, Permutation (ord l) l) ->
  Inv G A s -> valid_steps G A steps ->
  exists os s', run_steps G ord steps s = (os, Some s') /\ steps_hold G A steps os /\
                Inv G (ghost_steps steps A) s' /\ last_rows os (rows s) = rows s'.
Proof. intros. apply run_steps_thm; auto. apply gwf_of; auto. Qed.
Print Assumptions C03_invariant.

(* end points: everything applied => the rows are the history's heads; nothing applied => empty table *)
Theorem C03_endpoints : forall G e A rws, InvR G A rws -> end_pre G e A -> end_ok G e rws.
Proof. exact endpoints. Qed.
Print Assumptions C03_endpoints.

(* the main theorem: C03_holds i (model i) for every command sequence of valid plans from the EMPTY database *)
Theorem C03_model_from_empty : forall G cmds,
  wf_refs G -> ~ cyclic (all_down G) -> ndeps_okb G = true -> valid_cmds G [] cmds ->
  C03_holds (G, [], false, cmds) (model_C03 (G, [], false, cmds)).
Proof. intros. unfold model_C03. apply (main_trace G (fun l => l) [] cmds []); auto. Qed.
Print Assumptions C03_model_from_empty.

(* the same from any state of the domain (duplicate-free antichain rows), for every iteration order *)
Theorem C03_trace : forall G ord rws0 cmds A0,
  wf_refs G -> ~ cyclic (all_down G) -> ndeps_okb G = true -> (forall l, Permutation (ord l) l) ->
  closure G rws0 = Some A0 -> valid_cmds G A0 cmds ->
  C03_holds (G, rws0, false, cmds) (run_cmds G ord (map snd cmds) rws0).
Proof. exact main_trace. Qed.
Print Assumptions C03_trace.

(* and for the transition cases of the harness (every command from the same start state) *)
Theorem C03_model_transitions : forall G rws0 cmds A0,
  wf_refs G -> ~ cyclic (all_down G) -> ndeps_okb G = true ->
  closure G rws0 = Some A0 -> (forall c, In c cmds -> valid_cmds G A0 [c]) ->
  C03_holds (G, rws0, true, cmds) (model_C03 (G, rws0, true, cmds)).
Proof. intros. unfold model_C03. apply (main_each G (fun l => l) rws0 cmds A0); auto. Qed.
Print Assumptions C03_model_transitions.

(* ---------- non-vacuity: the 4-revision history with redundant parents on which the code before the fix
   raised KeyError (b base; a<-b; c<-b; d<-(b,c,a)), upgrade heads / downgrade d / downgrade base ---------- *)
Definition G4 : graph := [mkRev 0 [] [] [] []; mkRev 1 [0] [] [] []; mkRev 2 [0] [] [] []; mkRev 3 [0;2;1] [] [] []]%N.
Definition cmds4 : list cmd :=
  [(EndHeads, [RevStep 0 true; RevStep 1 true; RevStep 2 true; RevStep 3 true]);
   (EndNone, [RevStep 3 false]);
   (EndBase, [RevStep 1 false; RevStep 2 false; RevStep 0 false])]%N.
Example C03_hypotheses_nonvacuous :
  wf_refs G4 /\ ~ cyclic (all_down G4) /\ ndeps_okb G4 = true /\ valid_cmds G4 [] cmds4 /\ pre_C03 (G4, [], false, cmds4) = true /\
  model_C03 (G4, [], false, cmds4) =
    [[ObsOk [0] [Ins 0]; ObsOk [1] [Upd 0 1 1]; ObsOk [1;2] [Ins 2]; ObsOk [3] [Del 2 1; Upd 1 3 1]];
     [ObsOk [1;2] [Ins 2; Upd 3 1 1]];
     [ObsOk [2] [Del 1 1]; ObsOk [0] [Upd 2 0 1]; ObsOk [] [Del 0 1]]]%N.
Proof. split; [apply wf_refsb_spec; vm_compute; reflexivity|].
  split; [apply (rankedb_acyclic G4 N.to_nat); vm_compute; reflexivity|].
  split; [vm_compute; reflexivity|]. split; [apply valid_cmdsb_spec; vm_compute; reflexivity|].
  split; vm_compute; reflexivity. Qed.

(* a history with depends_on where normalisation drops a dependency (2 depends on 0, which its parent 1 already
   depends on): a state with Inv and a valid downgrade step *)
Definition G3 : graph := [mkRev 0 [] [] [] []; mkRev 1 [] [0] [0] []; mkRev 2 [1] [0] [] []]%N.
Example C03_step_nonvacuous :
  wf_refs G3 /\ ~ cyclic (all_down G3) /\ ndeps_okb G3 = true /\ valid_cmds G3 [] [(EndHeads, [RevStep 0 true; RevStep 1 true; RevStep 2 true])] /\
  valid_step G3 [2;1;0]%N 2%N false.
Proof. split; [apply wf_refsb_spec; vm_compute; reflexivity|].
  split; [apply (rankedb_acyclic G3 N.to_nat); vm_compute; reflexivity|].
  split; [vm_compute; reflexivity|]. split; [apply valid_cmdsb_spec; vm_compute; reflexivity|].
  apply valid_stepb_spec. vm_compute; reflexivity. Qed.

(* ---------- composition with C01 / C02: a whole upgrade / downgrade COMMAND ----------
   The plan computed by the planner model is always a valid step sequence, hence from any state in
   which the rows are the heads of a closed applied set, planning with `upgrade_plan` (resp.
   `downgrade_plan`) from the rows and book-keeping every step never errs, touches exactly one row per
   statement, and leaves rows = maximal applied revisions after EVERY step. *)
From AV Require Import Model.Plan Spec.C01 Spec.C02 Proofs.PlanProof Proofs.ComposeProof.
Theorem C03_upgrade_command : forall G ord T A s plan,
  wf_refs G -> ~ cyclic (all_down G) -> ndeps_ok G -> Spec.C03.ndeps_okb G = true ->
  (forall l, Permutation (ord l) l) -> incl T (ids G) ->
  Inv G A s -> upgrade_plan G T (rows s) = POk plan ->
  exists os s', run_steps G ord (up_steps plan) s = (os, Some s') /\ steps_hold G A (up_steps plan) os /\
                Inv G (ghost_steps (up_steps plan) A) s' /\ last_rows os (rows s) = rows s'.
Proof. exact upgrade_command. Qed.
Print Assumptions C03_upgrade_command.

Theorem C03_downgrade_command : forall G ord target branch A s plan,
  wf_refs G -> ~ cyclic (all_down G) -> ndeps_ok G -> Spec.C03.ndeps_okb G = true ->
  (forall l, Permutation (ord l) l) ->
  Inv G A s -> downgrade_plan G target branch (rows s) = POk plan ->
  exists os s', run_steps G ord (down_steps plan) s = (os, Some s') /\ steps_hold G A (down_steps plan) os /\
                Inv G (ghost_steps (down_steps plan) A) s' /\ last_rows os (rows s) = rows s'.
Proof. exact downgrade_command. Qed.
Print Assumptions C03_downgrade_command.

(* the planners' output satisfies C03's step-validity hypothesis *)
Theorem C03_plans_are_valid : forall G T Cur A plan,
  wf_refs G -> ~ cyclic (all_down G) -> ndeps_ok G -> incl T (ids G) ->
  (forall z, In z A <-> AncOf G Cur z) -> upgrade_plan G T Cur = POk plan -> valid_steps G A (up_steps plan).
Proof. intros. eapply upgrade_plan_valid; eauto. Qed.
Print Assumptions C03_plans_are_valid.

(* ---------- a whole SEQUENCE of commands from the empty database ----------
   Every command is planned by the planner models from the rows the previous command left (a planner refusal runs
   no step); the resulting trace satisfies C03_holds: after EVERY step of EVERY command the rows are the heads of the
   applied set, every statement matches one row, no error.  Induction over the command list with InvR as the loop
   invariant, so every reachable state is covered by this one theorem. *)
From AV Require Import Proofs.C03CommandsProof.
Theorem C03_command_sequence : forall G ord cmds,
  wf_refs G -> ~ cyclic (all_down G) -> ndeps_ok G -> Spec.C03.ndeps_okb G = true ->
  (forall l, Permutation (ord l) l) -> (forall c, In c cmds -> pcmd_ok G c) ->
  C03_holds (G, [], false, plan_cmds G ord cmds []) (run_cmds G ord (map snd (plan_cmds G ord cmds [])) []).
Proof. intros. apply command_sequence; auto. Qed.
Print Assumptions C03_command_sequence.

Example C03_command_sequence_nonvacuous :
  ndeps_ok G4 /\ (forall c, In c [PUp [3]; PDown (Some 1) None; PUp [3]; PDown None None]%N -> pcmd_ok G4 c) /\
  pre_C03 (G4, [], false, plan_cmds G4 (fun l => l) [PUp [3]; PDown (Some 1) None; PUp [3]; PDown None None]%N []) = true /\
  map (fun c => length (snd c)) (plan_cmds G4 (fun l => l) [PUp [3]; PDown (Some 1) None; PUp [3]; PDown None None]%N []) = [4; 1; 1; 4].
Proof. split; [apply ndeps_okb_spec; vm_compute; reflexivity|]. split.
  - intros c Hc. cbn in Hc. destruct Hc as [<-|[<-|[<-|[<-|[]]]]]; cbn [pcmd_ok]; auto;
      intros x [<-|[]]; vm_compute; auto 10.
  - split; vm_compute; reflexivity. Qed.

(* ---------- offline (--sql, as_sql) mode of the HeadMaintainer ----------
   _delete_version/_update_version skip the rowcount check when as_sql; update_to_step_g carries the flag. *)
Theorem C03_any_decider_sound : forall i o, check_C03_any i o = true -> C03_any_holds i o.
Proof. exact any_decider_sound3. Qed.
Print Assumptions C03_any_decider_sound.

(* whatever the online step does successfully the offline step does identically: same new state, same statement list
   (this is what C12/C18 rely on), for every step and every state *)
Theorem C03_as_sql_same_statements : forall G ord as_sql st s r,
  update_to_step G ord st s = Ok r -> update_to_step_g as_sql G ord st s = Ok r.
Proof. exact as_sql_same_step. Qed.
Print Assumptions C03_as_sql_same_statements.

Theorem C03_as_sql_same_trace : forall G ord as_sql steps s os s',
  run_steps G ord steps s = (os, Some s') -> run_steps_g as_sql G ord steps s = (os, Some s').
Proof. exact as_sql_same_trace. Qed.
Print Assumptions C03_as_sql_same_trace.

(* so the invariant holds verbatim offline: any valid step sequence, same observations as online *)
Theorem C03_offline_invariant : forall G ord as_sql steps A s,
  wf_refs G -> ~ cyclic (all_down G) -> Spec.C03.ndeps_okb G = true -> (forall l, Permutation (ord l) l) ->
  Inv G A s -> valid_steps G A steps ->
  exists os s', run_steps_g as_sql G ord steps s = (os, Some s') /\ run_steps G ord steps s = (os, Some s') /\
                steps_hold G A steps os /\ Inv G (ghost_steps steps A) s'.
Proof. intros. apply offline_invariant; auto. apply gwf_of; auto. Qed.
Print Assumptions C03_offline_invariant.

(* the emitted script: executed on a table holding starting_rev it matches one row per statement and leaves
   rows = heads of the applied set after every step (Offline_holds = C03_holds of the replayed script) *)
Theorem C03_offline_script : forall G rws0 cmds A0,
  wf_refs G -> ~ cyclic (all_down G) -> Spec.C03.ndeps_okb G = true ->
  closure G rws0 = Some A0 -> (forall c, In c cmds -> valid_cmds G A0 [c]) ->
  Offline_holds (G, rws0, true, cmds) (model_offline (G, rws0, true, cmds)).
Proof. exact main_offline. Qed.
Print Assumptions C03_offline_script.

(* version_table_pk=False: the model has no uniqueness constraint at all (INSERT appends unconditionally), so every theorem
   above is about the table without primary key; duplicates can only come from outside: from duplicate-free rows every
   valid trace stays duplicate-free (rows_ok) — and with duplicates present online raises CommandError where offline goes on *)
Example C03_offline_nonvacuous :
  update_to_step G4 (fun l => l) (RevStep 0 false) (mkHM [0] [0;0])%N = Err ECommand /\
  update_to_step_g true G4 (fun l => l) (RevStep 0 false) (mkHM [0] [0;0])%N = Ok (mkHM [] [], [Del 0%N 2]) /\
  model_offline (G4, [1;2]%N, true, [(EndNone, [RevStep 3 true])]%N) = [[SOk [3]%N [Del 2%N 0; Upd 1%N 3%N 0]]] /\
  check_offline (G4, [1;2]%N, true, [(EndNone, [RevStep 3 true])]%N) [[SOk [3]%N [Del 2%N 0; Upd 1%N 3%N 0]]] = true.
Proof. repeat split; vm_compute; reflexivity. Qed.
