(* C13 — alter_column changes only what it was asked to change, on every dialect.
   Statement-only file: every theorem is `exact <lemma of Proofs/AlterColProof.v>`.
   Model: Model/AlterCol.v (plan = toimpl_alter_column, sem, run, override); property, decider,
   correspondence: Spec/C13.v.
   Every abstract statement carries the column name it addresses; `sem` fails (None) on a statement that
   names a column name the column does not have at that point, so `run ss st0 = Some _` says that the ORDER of
   the statements relative to a rename is right. *)
From AV Require Import Spec.C13 Proofs.AlterColProof.

(* the abstract reading of a statement as a constant assignment is what it does to the column it addresses *)
Theorem C13_sem_is_assign : forall st s, apply st s = fold_left set (assign s) st.
Proof. exact apply_assign. Qed.
Print Assumptions C13_sem_is_assign.

(* run = the total effect exactly when every statement names the column's current name *)
Theorem C13_run_addressing : forall ss st,
  run ss st = if addr_ok (c_name st) ss then Some (run_total ss st) else None.
Proof. exact run_spec. Qed.
Print Assumptions C13_run_addressing.

(* decider soundness, for ARBITRARY statement lists (it is applied to the implementation's output) *)
Theorem C13_decider_sound : forall i o, check_C13 i o = true -> C13_holds i o.
Proof. exact check_C13_sound. Qed.
Print Assumptions C13_decider_sound.

(* ... and completeness: the decider accepts every output that satisfies the property, so
   check_C13 i o = true <-> C13_holds i o *)
Theorem C13_decider_complete : forall i o, C13_holds i o -> check_C13 i o = true.
Proof. exact check_C13_complete. Qed.
Print Assumptions C13_decider_complete.

(* main theorem: the model satisfies the whole property on every dialect, for all requests, all stated
   existing attributes and all (abstract) values -- for plain server defaults (Identity / Computed objects are in
   the model and the correspondence; for them see C13_raises_iff_unsupported and the examples below) and outside the
   refuted class excluded by autoinc_honoured (C13_autoinc_ignored_refuted): inclass_C13 = autoinc_honoured &&
   plain_defaults, hence `_partial` *)
Theorem C13_model_holds_partial : forall i, inclass_C13 i = true -> C13_holds i (tagged_C13 i).
Proof. exact model_holds_partial. Qed.
Print Assumptions C13_model_holds_partial.

(* its clauses separately *)
Theorem C13_effect : forall i ss st0,
  inclass_C13 i = true ->                          (* autoinc_honoured && plain_defaults *)
  model_C13 i = (ss, None) ->                      (* ran to completion, no exception *)
  matches (i_ex i) st0 ->                          (* every stated existing_* is the column's value *)
  stated_enough ss (i_req i) (i_ex i) st0 ->       (* see C13_stated_enough_exact / _minimal *)
  run ss st0 = Some (override st0 (i_req i)).      (* every statement addresses the column by its current name,
                                                      requested set, everything else unchanged *)
Proof. exact effect_all. Qed.
Print Assumptions C13_effect.

Theorem C13_restated : forall i ss e, plain_defaults i = true -> model_C13 i = (ss, e) ->
  forall s v w, In s ss -> In v (assign s) -> req_val (i_req i) (attr_of v) = None ->
                stated_val (i_ex i) (attr_of v) = Some w -> v = w.
Proof. exact no_invention_all. Qed.
Print Assumptions C13_restated.

Theorem C13_raises_instead : forall i ss e, plain_defaults i = true -> model_C13 i = (ss, Some e) ->
  unsupported i = true /\
  forall st0, matches (i_ex i) st0 -> stated_enough ss (i_req i) (i_ex i) st0 ->
    exists st', run ss st0 = Some st' /\
    forall a, get a st' = get a st0 \/ get a st' = get a (override st0 (i_req i)).
Proof. exact raises_instead_all. Qed.
Print Assumptions C13_raises_instead.

(* for every kind of server default, including Computed / Identity objects on either side *)
Theorem C13_raises_iff_unsupported : forall i, isSome (snd (model_C13 i)) = unsupported i.
Proof. exact raises_iff_unsupported. Qed.
Print Assumptions C13_raises_iff_unsupported.

(* toimpl.alter_column wraps the impl-level call in DROP / ADD CONSTRAINT for type-bound CHECKs only; those
   statements leave the six column attributes alone *)
Theorem C13_toimpl_frame : forall i st0, run_total (fst (model_C13 i)) st0 = run_total (fst (inner_C13 i)) st0.
Proof. exact toimpl_frame. Qed.
Print Assumptions C13_toimpl_frame.

(* FINDING: outside MySQL/MariaDB a requested autoincrement is never applied (no statement touches it, nothing
   is raised), so the full-strength statement is false there *)
Theorem C13_autoinc_ignored : forall i st0 st',
  plain_defaults i = true -> is_mysql (i_d i) = false -> run (fst (model_C13 i)) st0 = Some st' -> c_autoinc st' = c_autoinc st0.
Proof. exact autoinc_ignored. Qed.
Print Assumptions C13_autoinc_ignored.

Theorem C13_autoinc_ignored_refuted : forall d sch, is_mysql d = false ->
  inclass_C13 (mkIn d sch req_autoinc_only ex_nothing) = false /\
  tagged_C13 (mkIn d sch req_autoinc_only ex_nothing) = ([], None) /\
  ~ C13_holds (mkIn d sch req_autoinc_only ex_nothing) (tagged_C13 (mkIn d sch req_autoinc_only ex_nothing)).
Proof. exact autoinc_refuted. Qed.
Print Assumptions C13_autoinc_ignored_refuted.

(* the hypothesis stated_enough, spelled out per dialect, exactly ... *)
Theorem C13_stated_enough_exact : forall i st0, plain_defaults i = true ->
  (stated_enough (fst (model_C13 i)) (i_req i) (i_ex i) st0 <-> existing_needed i st0).
Proof. exact stated_enough_exact. Qed.
Print Assumptions C13_stated_enough_exact.

(* ... and each item of it is necessary: a witness where only that one attribute is unknown and the effect is wrong *)
Theorem C13_stated_enough_minimal :
  needed_witness Dmysql ANull /\ needed_witness Dmysql ADefault /\ needed_witness Dmysql AComment /\
  needed_witness Dmysql AAutoinc /\
  needed_witness Dmariadb ANull /\ needed_witness Dmariadb ADefault /\ needed_witness Dmariadb AComment /\
  needed_witness Dmariadb AAutoinc /\
  needed_witness Dmssql ANull.
Proof. exact stated_enough_minimal. Qed.
Print Assumptions C13_stated_enough_minimal.

(* non-vacuity of the hypothesis sets *)
Example C13_effect_nonvacuous :
  exists ss, inclass_C13 nv_in = true /\ model_C13 nv_in = (ss, None) /\ matches (i_ex nv_in) nv_st /\
             stated_enough ss (i_req nv_in) (i_ex nv_in) nv_st /\ run ss nv_st <> Some nv_st.
Proof. exact effect_nonvacuous. Qed.
Example C13_raises_nonvacuous : model_C13 nv_raise = ([MSSQLAlterNull 1%N T1 false], Some CompileError).
Proof. exact raises_nonvacuous. Qed.
(* the decider accepts the model's outputs and rejects: a wrong restated value; the comment statement placed
   after the rename (names a column that no longer exists); a statement on another schema *)
Example C13_decider_nonvacuous :
  check_C13 nv_in (tagged_C13 nv_in) = true /\ check_C13 nv_raise (tagged_C13 nv_raise) = true /\
  check_C13 nv_in ([(tS, MySQLChange 1%N 2%N (mkSpec T0 false true None (Some 30%N)))], None) = false /\
  check_C13 nv_order ([(tS, SetComment 1%N (Some 31%N)); (tS, Rename 1%N 2%N)], None) = true /\
  check_C13 nv_order ([(tS, Rename 1%N 2%N); (tS, SetComment 1%N (Some 31%N))], None) = false /\
  check_C13 nv_order ([(tS, SetComment 1%N (Some 31%N)); (tN, Rename 1%N 2%N)], None) = false.
Proof. exact decider_nonvacuous. Qed.
Example C13_toimpl_nonvacuous :
  model_C13 (mkIn Doracle tN (mkReq (Some (mkTy 13 false (Some 51%N))) None TFalse None TFalse None None KPlain)
                  (mkEx 1%N (Some (mkTy 12 false (Some 50%N))) None TFalse None None KPlain))
  = ([DropConstraint 50%N; SetType 1%N (mkTy 13 false (Some 51%N)) None; AddConstraint 1%N 51%N], None).
Proof. reflexivity. Qed.
(* the CHECK of the new type is added after the rename and names the NEW column name (fix 0b330f6) *)
Example C13_check_after_rename_fixed :
  model_C13 (mkIn Dpostgresql tN (mkReq (Some (mkTy 13 false (Some 51%N))) None TFalse (Some 2%N) TFalse None None KPlain) ex_nothing)
  = ([SetType 1%N (mkTy 13 false (Some 51%N)) None; Rename 1%N 2%N; AddConstraint 2%N 51%N], None).
Proof. reflexivity. Qed.

(* FINDING 2 (PostgreSQL): a plain server_default requested while the stated existing default is an Identity: an empty
   ALTER COLUMN, the request is not applied, nothing is raised *)
Theorem C13_pg_plain_default_on_identity_refuted :
  inclass_C13 (mkIn Dpostgresql tN req_plain_default ex_identity) = false /\
  tagged_C13 (mkIn Dpostgresql tN req_plain_default ex_identity) = ([(tN, AlterIdentityEmpty 1%N)], None) /\
  ~ C13_holds (mkIn Dpostgresql tN req_plain_default ex_identity) (tagged_C13 (mkIn Dpostgresql tN req_plain_default ex_identity)).
Proof. exact pg_plain_default_on_identity_refuted. Qed.
Print Assumptions C13_pg_plain_default_on_identity_refuted.

(* Identity / Computed server defaults in the model *)
Example C13_identity_examples :
  model_C13 (mkIn Dpostgresql tN req_identity ex_identity) = ([AlterIdentity 1%N 71%N false], None) /\
  model_C13 (mkIn Dpostgresql tN req_identity ex_nothing) = ([AlterIdentity 1%N 71%N true], None) /\
  model_C13 (mkIn Doracle tN req_identity ex_identity) = ([AddIdentity 1%N 71%N], None) /\
  model_C13 (mkIn Dmssql tN req_identity ex_identity) = ([], Some CompileError) /\
  model_C13 (mkIn Dmysql tN (mkReq None None TFalse (Some 2%N) TFalse None None KPlain)
                   (mkEx 1%N (Some T0) None (TSome 80%N) None None KComputed)) = ([], Some OtherErr) /\
  check_C13 (mkIn Dpostgresql tN req_identity ex_identity) (tagged_C13 (mkIn Dpostgresql tN req_identity ex_identity)) = true.
Proof. exact identity_examples. Qed.
