(* C13 — alter_column changes only what it was asked to change, on every dialect.
   Statement-only file: every theorem is `exact <lemma of Proofs/AlterColProof.v>`.
   Model: Model/AlterCol.v (plan = alter_column, sem, run, override); property, decider,
   correspondence: Spec/C13.v. *)
From AV Require Import Spec.C13 Proofs.AlterColProof.

(* the abstract reading of a statement as a constant assignment is its meaning *)
Theorem C13_sem_is_assign : forall st s, sem st s = fold_left set (assign s) st.
Proof. exact sem_assign. Qed.
Print Assumptions C13_sem_is_assign.

(* decider soundness, for ARBITRARY statement lists (it is applied to the implementation's output) *)
Theorem C13_decider_sound : forall i o, check_C13 i o = true -> C13_holds i o.
Proof. exact check_C13_sound. Qed.
Print Assumptions C13_decider_sound.

(* main theorem: the model satisfies the whole property on every dialect, for all requests, all stated
   existing attributes and all (abstract) values -- except that a requested autoincrement must be one the
   dialect honours (see C13_autoinc_ignored_refuted): hence `_partial` *)
Theorem C13_model_holds_partial : forall i, autoinc_honoured i = true -> C13_holds i (model_C13 i).
Proof. exact model_holds_partial. Qed.
Print Assumptions C13_model_holds_partial.

(* its three clauses separately *)
Theorem C13_effect : forall i ss st0,
  autoinc_honoured i = true ->                     (* see C13_autoinc_ignored_refuted *)
  model_C13 i = (ss, None) ->                      (* ran to completion, no exception *)
  matches (i_ex i) st0 ->                          (* every stated existing_* is the column's value *)
  stated_enough ss (i_req i) (i_ex i) st0 ->       (* see C13_stated_enough_exact / _minimal *)
  run ss st0 = override st0 (i_req i).             (* requested set, everything else unchanged *)
Proof. exact effect_all. Qed.
Print Assumptions C13_effect.

Theorem C13_restated : forall i ss e, model_C13 i = (ss, e) ->
  forall s v w, In s ss -> In v (assign s) -> req_val (i_req i) (attr_of v) = None ->
                stated_val (i_ex i) (attr_of v) = Some w -> v = w.
Proof. exact no_invention_all. Qed.
Print Assumptions C13_restated.

Theorem C13_raises_instead : forall i ss e, model_C13 i = (ss, Some e) ->
  unsupported i = true /\
  forall st0, matches (i_ex i) st0 -> stated_enough ss (i_req i) (i_ex i) st0 ->
    forall a, get a (run ss st0) = get a st0 \/ get a (run ss st0) = get a (override st0 (i_req i)).
Proof. exact raises_instead_all. Qed.
Print Assumptions C13_raises_instead.

Theorem C13_raises_iff_unsupported : forall i, isSome (snd (model_C13 i)) = unsupported i.
Proof. exact raises_iff_unsupported. Qed.
Print Assumptions C13_raises_iff_unsupported.

(* toimpl.alter_column wraps the impl-level call in DROP / ADD CONSTRAINT for type-bound CHECKs only; those
   statements leave the six column attributes alone *)
Theorem C13_toimpl_frame : forall i st0, run (fst (model_C13 i)) st0 = run (fst (inner_C13 i)) st0.
Proof. exact toimpl_frame. Qed.
Print Assumptions C13_toimpl_frame.

(* FINDING: outside MySQL/MariaDB a requested autoincrement is never applied (no statement touches it, nothing
   is raised), so the full-strength statement is false there *)
Theorem C13_autoinc_ignored : forall i st0,
  is_mysql (i_d i) = false -> c_autoinc (run (fst (model_C13 i)) st0) = c_autoinc st0.
Proof. exact autoinc_ignored. Qed.
Print Assumptions C13_autoinc_ignored.

Theorem C13_autoinc_ignored_refuted : forall d sch, is_mysql d = false ->
  autoinc_honoured (mkIn d sch req_autoinc_only ex_nothing) = false /\
  model_C13 (mkIn d sch req_autoinc_only ex_nothing) = ([], None) /\
  ~ C13_holds (mkIn d sch req_autoinc_only ex_nothing) (model_C13 (mkIn d sch req_autoinc_only ex_nothing)).
Proof. exact autoinc_refuted. Qed.
Print Assumptions C13_autoinc_ignored_refuted.

(* the hypothesis stated_enough, spelled out per dialect, exactly ... *)
Theorem C13_stated_enough_exact : forall i st0,
  stated_enough (fst (model_C13 i)) (i_req i) (i_ex i) st0 <-> existing_needed i st0.
Proof. exact stated_enough_exact. Qed.
Print Assumptions C13_stated_enough_exact.

(* ... and each item of it is necessary: a witness where only that one attribute is unknown and the effect is wrong *)
Theorem C13_stated_enough_minimal :
  needed_witness Dmysql ANull /\ needed_witness Dmysql ADefault /\ needed_witness Dmysql AComment /\
  needed_witness Dmysql AAutoinc /\
  needed_witness Dmariadb ANull /\ needed_witness Dmariadb ADefault /\ needed_witness Dmariadb AComment /\
  needed_witness Dmariadb AAutoinc /\
  needed_witness Dmssql ANull.
Proof. exact stated_enough_minimal. Qed.
Print Assumptions C13_stated_enough_minimal.

(* non-vacuity of the hypothesis sets *)
Example C13_effect_nonvacuous :
  exists ss, autoinc_honoured nv_in = true /\ model_C13 nv_in = (ss, None) /\ matches (i_ex nv_in) nv_st /\
             stated_enough ss (i_req nv_in) (i_ex nv_in) nv_st /\ run ss nv_st <> nv_st.
Proof. exact effect_nonvacuous. Qed.
Example C13_raises_nonvacuous : model_C13 nv_raise = ([MSSQLAlterNull T1 false], Some CompileError).
Proof. exact raises_nonvacuous. Qed.
Example C13_decider_nonvacuous :
  check_C13 nv_in (model_C13 nv_in) = true /\ check_C13 nv_raise (model_C13 nv_raise) = true /\
  check_C13 nv_in ([MySQLChange 2%N (mkSpec T0 false true None (Some 30%N))], None) = false.
Proof. exact decider_nonvacuous. Qed.
Example C13_toimpl_nonvacuous :
  model_C13 (mkIn Doracle false (mkReq (Some (mkTy 13 false (Some 51%N))) None TFalse None TFalse None None)
                  (mkEx 1%N (Some (mkTy 12 false (Some 50%N))) None TFalse None None))
  = ([DropConstraint 50%N; SetType (mkTy 13 false (Some 51%N)) None; AddConstraint 51%N], None).
Proof. reflexivity. Qed.
