(* C12 — Offline SQL script has the same effect as the online run.  Statement-only file. *)
From AV Require Import Base.ListSet Model.OfflineEffect Spec.C12 Proofs.OfflineEffectProof.
Import ListNotations.
Open Scope N_scope.

(* decider soundness: the boolean applied to the implementation's two observables implies the property *)
Theorem C12_check_sound : forall i o, check_C12 i o = true -> C12_holds i o.
Proof. exact check_C12_sound. Qed.
Print Assumptions C12_check_sound.

(* MAIN (abstract literals).  lit = SQLAlchemy's literal renderer, parse_lit = SQLite's reading of a literal, untext =
   what SQLAlchemy's text() does to the text of a literal inside an op.execute string (DefaultImpl._exec wraps a plain
   string in text() in both modes): any functions.  Bulk rows may omit columns (column default / NULL) or give None;
   CreateTable / AddColumn columns may carry a server default, whose literal is part of the DDL.
   For every starting database d at `start` (version rows = start; no version table at base), every plan `steps`
   (each step = migration body over the op alphabet + the version-table statements HeadMaintainer issues for it) such that
   the version heads are non-empty between steps and a run from base is not empty: if every literal of the plan
   round-trips (parse_lit (lit v) = v) and contains no tab, then executing the offline statement stream statement by
   statement on d has the same observable (tables, columns, rows, indexes, version rows) as the online run on d;
   if one side aborts so does the other. *)
Theorem C12_same_effect : forall (lit : value -> text) (parse_lit : text -> value) (untext : text -> text) d start steps,
  db_at d start -> mid_nonempty start steps = true -> (start = [] -> steps <> []) ->
  (forall v, In v (steps_values steps) -> parse_lit (lit v) = v) ->
  (forall v, In v (steps_values steps) -> no_tab (lit v) = true)        (* no_tab_in_literals: rendered literals *) ->
  (forall w, In w (steps_texts steps) -> no_tab (untext w) = true)      (* no_tab_in_literals: op.execute literals *) ->
  option_map observable (offline_effect lit parse_lit untext d start steps) = option_map observable (run_online lit parse_lit untext d steps).
Proof. exact same_effect. Qed.
Print Assumptions C12_same_effect.

(* MAIN (closed form): with the concrete literal syntax lit_c / parse_c, on the decidable class inclass_C12 *)
Theorem C12_main : forall i, inclass_C12 i = true -> C12_holds i (model_C12 i).
Proof. exact main_concrete. Qed.
Print Assumptions C12_main.

(* the full statement (without no_tab_in_literals) is FALSE of the faithful model: DefaultImpl._exec rewrites the
   tab inside a string literal of an offline statement; every other hypothesis of C12_main holds for the witness *)
Theorem C12_refuted_tab : exists i, lits_roundtripb (i_steps i) = true /\ start_okb i = true /\ ~ C12_holds i (model_C12 i).
Proof. exact refuted_tab. Qed.
Print Assumptions C12_refuted_tab.

(* two edge deviations of the version-table framing (both outside db_at / the non-empty-plan hypothesis):
   `upgrade base:base --sql` emits a lone DROP TABLE alembic_version; an empty version table left at base makes the
   offline CREATE TABLE alembic_version fail *)
Theorem C12_refuted_empty_plan : exists i, no_tab_in_literalsb (i_steps i) = true /\ lits_roundtripb (i_steps i) = true /\
  db_atb (i_db i) (i_start i) = true /\ i_start i = [] /\ i_steps i = [] /\ ~ C12_holds i (model_C12 i).
Proof. exact refuted_empty_plan. Qed.
Print Assumptions C12_refuted_empty_plan.
Theorem C12_refuted_empty_version_table : exists i, no_tab_in_literalsb (i_steps i) = true /\ lits_roundtripb (i_steps i) = true /\
  snd (i_db i) = Some [] /\ i_start i = [] /\ i_steps i <> [] /\ ~ C12_holds i (model_C12 i).
Proof. exact refuted_empty_vt. Qed.
Print Assumptions C12_refuted_empty_version_table.

(* `post` is the identity on the parsed value whenever the literal has no tab *)
Theorem C12_post_identity : forall (lit : value -> text) (parse_lit : text -> value) v,
  parse_lit (lit v) = v -> no_tab (lit v) = true -> parse_lit (post (lit v)) = v.
Proof. exact post_identity. Qed.
Print Assumptions C12_post_identity.

(* statement level: a literal l standing between non-blank text is reached by replace("\t","    ") and by nothing else
   (strip() and the terminator act at the ends of the statement) *)
Theorem C12_exec_post_literal : forall term a pre l suf b, is_ws a = false -> is_ws b = false ->
  exec_post term ((a :: pre) ++ l ++ suf ++ [b]) = replace_tab (a :: pre) ++ post l ++ replace_tab (suf ++ [b]) ++ term.
Proof. exact exec_post_literal. Qed.
Print Assumptions C12_exec_post_literal.

(* the invariant of the induction, for every plan and independent of the literals:
   offline HeadMaintainer.heads = online HeadMaintainer.heads = the rows of the version table *)
Theorem C12_heads_invariant : forall (lit : value -> text) (parse_lit : text -> value) (untext : text -> text) steps d h s hf d2 h2,
  snd d = Some h -> NoDup h ->
  off_steps lit untext h steps = Some (s, hf) -> on_steps lit parse_lit untext d h steps = Some (d2, h2) ->
  h2 = hf /\ snd d2 = Some hf /\ NoDup hf.
Proof. exact heads_invariant. Qed.
Print Assumptions C12_heads_invariant.

(* the concrete literal syntax round-trips on NULL, every integer and every string (any code points, quotes doubled);
   a numeric token round-trips iff it is read as a numeric token (decided per case by lits_roundtripb) *)
Theorem C12_lit_c_roundtrip : forall v, (forall s, v = VNum s -> parse_c s = VNum s) -> parse_c (lit_c v) = v.
Proof. exact lit_c_roundtrip. Qed.
Print Assumptions C12_lit_c_roundtrip.

(* non-vacuity: a two-step branched plan from a non-empty database satisfies every hypothesis of C12_main (hence of
   C12_same_effect with lit_c/parse_c), and both runs succeed with two tables and version rows {r1, r2} *)
Example C12_main_nonvacuous : exists i, inclass_C12 i = true /\ length (i_steps i) = 2%nat /\
  exists o, o_on (model_C12 i) = Some o /\ ob_vers o = [1; 2] /\ length (ob_tabs o) = 2%nat.
Proof. exact main_nonvacuous. Qed.
