(* C12 — Offline SQL script has the same effect as the online run.  Statement-only file. *)
From AV Require Import Base.ListSet Model.OfflineEffect Spec.C12 Proofs.OfflineEffectProof.
Import ListNotations.
Open Scope N_scope.

(* decider soundness: the boolean applied to the implementation's two observables implies the property *)
Theorem C12_check_sound : forall i o, check_C12 i o = true -> C12_holds i o.
Proof. exact check_C12_sound. Qed.
Print Assumptions C12_check_sound.

(* MAIN (abstract literals), for every configuration c = (transactional_ddl, transaction_per_migration): the offline script
   is the FRAMED one (run_offline_f: BEGIN / COMMIT around the whole run, or around every step and the final DROP of the
   version table, or none), replayed on an autocommit connection where a nested BEGIN or an unmatched COMMIT is an error
   (exec_tx); online the same flags decide where the connection commits.  lit = SQLAlchemy's literal renderer, parse_lit = SQLite's reading of a literal, untext =
   what SQLAlchemy's text() does to the text of a literal inside an op.execute string (DefaultImpl._exec wraps a plain
   string in text() in both modes): any functions.  Bulk rows may omit columns (column default / NULL) or give None;
   CreateTable / AddColumn columns may carry a server default, whose literal is part of the DDL.
   For every starting database d at `start` (version rows = start; no version table at base), every plan `steps`
   (each step = migration body over the op alphabet + the version-table statements HeadMaintainer issues for it) such that
   the version heads are non-empty between steps and a run from base is not empty: if every literal of the plan
   round-trips (parse_lit (lit v) = v) and contains no tab, then executing the offline statement stream statement by
   statement on d has the same observable (tables, columns with defaults / NOT NULL, PRIMARY KEY / UNIQUE sets, rows,
   indexes, version rows) as the online run on d; if one side is stopped by an error so is the other
   (run_online / offline_effect are None then; see C12_abort_same_statement for what is left behind). *)
Theorem C12_same_effect : forall (lit : value -> text) (parse_lit : text -> value) (untext : text -> text) (c : cfg) d start steps,
  db_at d start -> mid_nonempty start steps = true -> (start = [] -> steps <> []) ->
  (forall v, In v (steps_values steps) -> parse_lit (lit v) = v) ->
  (forall v, In v (steps_values steps) -> no_tab (lit v) = true)        (* no_tab_in_literals: rendered literals *) ->
  (forall w, In w (steps_texts steps) -> no_tab (untext w) = true)      (* no_tab_in_literals: op.execute literals *) ->
  option_map observable (offline_effect_f lit parse_lit untext c d start steps) = option_map observable (run_online lit parse_lit untext c d steps).
Proof. exact same_effect. Qed.
Print Assumptions C12_same_effect.

(* MAIN (closed form): with the concrete literal syntax lit_c / parse_c, on the decidable class inclass_C12; the start of
   the range is given as it is SPELLED (base, full id, branch label, unique prefix, head) together with the revision map
   and is resolved to the revision id first (resolve_start), as get_current_heads does offline *)
Theorem C12_main : forall i, inclass_C12 i = true -> C12_holds i (model_C12 i).
Proof. exact main_concrete. Qed.
Print Assumptions C12_main.

(* the full statement (without no_tab_in_literals) is FALSE of the faithful model: DefaultImpl._exec rewrites the
   tab inside a string literal of an offline statement; every other hypothesis of C12_main holds for the witness *)
Theorem C12_refuted_tab : exists i, lits_roundtripb (i_steps i) = true /\ start_okb i = true /\ ~ C12_holds i (model_C12 i).
Proof. exact refuted_tab. Qed.
Print Assumptions C12_refuted_tab.

(* two edge deviations of the version-table framing (both outside db_at / the non-empty-plan hypothesis):
   `upgrade base:base --sql` emits a lone DROP TABLE alembic_version; an empty version table left at base makes the
   offline CREATE TABLE alembic_version fail *)
Theorem C12_refuted_empty_plan : exists i, no_tab_in_literalsb (i_steps i) = true /\ lits_roundtripb (i_steps i) = true /\
  db_atb (i_db i) (i_start i) = true /\ i_start i = [] /\ i_steps i = [] /\ ~ C12_holds i (model_C12 i).
Proof. exact refuted_empty_plan. Qed.
Print Assumptions C12_refuted_empty_plan.
Theorem C12_refuted_empty_version_table : exists i, no_tab_in_literalsb (i_steps i) = true /\ lits_roundtripb (i_steps i) = true /\
  snd (i_db i) = Some [] /\ i_start i = [] /\ i_steps i <> [] /\ ~ C12_holds i (model_C12 i).
Proof. exact refuted_empty_vt. Qed.
Print Assumptions C12_refuted_empty_version_table.

(* `post` is the identity on the parsed value whenever the literal has no tab *)
Theorem C12_post_identity : forall (lit : value -> text) (parse_lit : text -> value) v,
  parse_lit (lit v) = v -> no_tab (lit v) = true -> parse_lit (post (lit v)) = v.
Proof. exact post_identity. Qed.
Print Assumptions C12_post_identity.

(* statement level: a literal l standing between non-blank text is reached by replace("\t","    ") and by nothing else
   (strip() and the terminator act at the ends of the statement) *)
Theorem C12_exec_post_literal : forall term a pre l suf b, is_ws a = false -> is_ws b = false ->
  exec_post term ((a :: pre) ++ l ++ suf ++ [b]) = replace_tab (a :: pre) ++ post l ++ replace_tab (suf ++ [b]) ++ term.
Proof. exact exec_post_literal. Qed.
Print Assumptions C12_exec_post_literal.

(* ---- the offline script as TEXT ---------------------------------------------------------------------------------
   DefaultImpl._exec on a WHOLE statement text str(compiled) = blanks ++ tokens ++ blanks (tokens: words without tab, runs
   of blanks, literals delimited by non-blank characters; the first and last token are not blank): the surrounding blanks
   are stripped, every token has its tabs replaced, the terminator is appended, nothing else happens. *)
Theorem C12_exec_post_statement : forall term x, stext_wf x = true ->
  exec_post term (stext_text x) = flat (map post_tok (st_core x)) ++ term.
Proof. exact exec_post_stext. Qed.
Print Assumptions C12_exec_post_statement.

(* render = SQLAlchemy's compiler with the token structure of its output, sqlite = SQLite reading one chunk of the script;
   assumed for the supported constructs: the compiled text is well formed (render_wf) and SQLite reads a text token-wise —
   runs of blanks are interchangeable, a literal token is read as that literal (sqlite_reads).  Then what SQLite reads
   from the text _exec wrote for a construct s is s with `post` applied to its literals. *)
Theorem C12_text_read : forall (render : sqlstmt -> stext) (sqlite : text -> option sqlstmt) term (supported : sqlstmt -> bool),
  (forall s, supported s = true -> stext_wf (render s) = true) ->
  (forall s g core', supported s = true -> Forall2 (tok_sim g) (st_core (render s)) core' ->
                     sqlite (flat core' ++ term) = Some (map_stmt g s)) ->
  forall s, supported s = true -> sqlite (exec_text render term s) = Some (map_stmt post s).
Proof. exact text_read. Qed.
Print Assumptions C12_text_read.

(* MAIN, about statement TEXTS: the script is the list of texts exec_post term (str(compiled)) of the constructs alembic
   hands to _exec (literals lit v / untext w, no post-processing yet); it is split into chunks, each read by SQLite and
   executed.  Same hypotheses as C12_same_effect plus the two assumptions on render / sqlite for the constructs of the
   script.  (The BEGIN / COMMIT lines are written by static_output, not by _exec: the text-level statement is about the
   unframed statement stream.) *)
Theorem C12_same_effect_text : forall (lit : value -> text) (parse_lit : text -> value) (untext : text -> text)
    (render : sqlstmt -> stext) (sqlite : text -> option sqlstmt) term (supported : sqlstmt -> bool) (c : cfg),
  (forall s, supported s = true -> stext_wf (render s) = true) ->
  (forall s g core', supported s = true -> Forall2 (tok_sim g) (st_core (render s)) core' ->
                     sqlite (flat core' ++ term) = Some (map_stmt g s)) ->
  forall d start steps,
  db_at d start -> mid_nonempty start steps = true -> (start = [] -> steps <> []) ->
  (forall v, In v (steps_values steps) -> parse_lit (lit v) = v) ->
  (forall v, In v (steps_values steps) -> no_tab (lit v) = true) ->
  (forall w, In w (steps_texts steps) -> no_tab (untext w) = true) ->
  (forall l, run_offline_plain lit untext start steps = Some l -> forallb supported l = true) ->
  option_map observable (offline_text_effect lit parse_lit untext render sqlite term d start steps)
  = option_map observable (run_online lit parse_lit untext c d steps).
Proof. exact same_effect_text. Qed.
Print Assumptions C12_same_effect_text.

(* the invariant of the induction, for every plan and independent of the literals:
   offline HeadMaintainer.heads = online HeadMaintainer.heads = the rows of the version table *)
Theorem C12_heads_invariant : forall (lit : value -> text) (parse_lit : text -> value) (untext : text -> text) (c : cfg) steps st h s hf st2 h2,
  snd (o_cur st) = Some h -> NoDup h ->
  off_steps lit untext h steps = Some (s, hf) -> on_steps lit parse_lit untext c st h steps = (st2, h2, true) ->
  h2 = hf /\ snd (o_cur st2) = Some hf /\ NoDup hf.
Proof. exact heads_invariant. Qed.
Print Assumptions C12_heads_invariant.

(* both commands complete with the same observable, or both are stopped by an error (constraint violation, inapplicable
   statement, failing bookkeeping assertion) *)
Theorem C12_outcome_sim : forall (lit : value -> text) (parse_lit : text -> value) (untext : text -> text) (c : cfg) d start steps,
  class_hyps lit parse_lit untext d start steps ->
  match offline_outcome lit parse_lit untext c d start steps, online_outcome lit parse_lit untext c d steps with
  | Done a, Done b => observable a = observable b
  | Aborted _, Aborted _ => True
  | _, _ => False
  end.
Proof. exact outcome_sim. Qed.
Print Assumptions C12_outcome_sim.

(* WHEN A STATEMENT FAILS.  The replay of the script (autocommit, statement by statement) stops iff the online run stops,
   and then after exactly the same statements: the database the replay leaves behind IS the online database before the
   rollback.  What the online run leaves behind is `rolled_back` of that state: the database at the first DML statement
   since the last commit (sqlite3 driver: DML opens the transaction, DDL before it is permanent; the connection commits
   after every step, or only at the end when transactional_ddl is set without transaction_per_migration).  What the
   replay leaves behind is `rolled_back` of ITS state: everything before the failing statement, or — inside a
   BEGIN..COMMIT block of the script — the database at that BEGIN.  In particular the script's BEGIN / COMMIT never fail
   (they are properly nested for every configuration: run_offline_f_core in the proofs).  The two leftovers are therefore NOT equal in general (C12_abort_nonvacuous) and the property does not
   claim they are. *)
Theorem C12_abort_same_statement : forall (lit : value -> text) (parse_lit : text -> value) (untext : text -> text) (c : cfg) d start steps script,
  class_hyps lit parse_lit untext d start steps ->
  run_offline_f lit untext c start steps = Some script ->
  let '(sto, ok1) := replay_tx parse_lit d script in
  let '(st, _, ok2) := run_online_tx lit parse_lit untext c d steps in
  ok1 = ok2 /\ (ok1 = false -> o_cur sto = o_cur st /\
                             offline_outcome lit parse_lit untext c d start steps = Aborted (rolled_back sto) /\
                             online_outcome lit parse_lit untext c d steps = Aborted (rolled_back st)).
Proof. exact abort_same_statement. Qed.
Print Assumptions C12_abort_same_statement.

(* the concrete literal syntax round-trips on NULL, every integer and every string (any code points, quotes doubled);
   a numeric token round-trips iff it is read as a numeric token (decided per case by lits_roundtripb) *)
Theorem C12_lit_c_roundtrip : forall v, (forall s, v = VNum s -> parse_c s = VNum s) -> parse_c (lit_c v) = v.
Proof. exact lit_c_roundtrip. Qed.
Print Assumptions C12_lit_c_roundtrip.

(* non-vacuity: a two-step branched plan from a non-empty database (defaults, NOT NULL, primary key, unique index, omitted
   and None cells, a backslash-colon escape) satisfies every hypothesis of C12_main (hence class_hyps with lit_c/parse_c/
   untext_c), and both runs succeed with two tables and version rows {r1, r2} *)
Example C12_main_nonvacuous : exists i, inclass_C12 i = true /\ length (i_steps i) = 2%nat /\
  exists o, o_on (model_C12 i) = ROk o /\ ob_vers o = [1; 2] /\ length (ob_tabs o) = 2%nat.
Proof. exact main_nonvacuous. Qed.
(* an aborting run inside the class (a repeated primary key in the third bulk row): the online leftover has no rows in
   either table, the offline leftover keeps the two rows inserted before the failing statement *)
Example C12_abort_nonvacuous : exists i, inclass_C12 i = true /\
  exists a b, o_on (model_C12 i) = RErr a /\ o_off (model_C12 i) = RErr b /\
  length (ob_tabs a) = 2%nat /\ length (ob_tabs b) = 2%nat /\
  map (fun t => length (t_rows t)) (ob_tabs a) = [0; 0]%nat /\ map (fun t => length (t_rows t)) (ob_tabs b) = [2; 0]%nat.
Proof. exact abort_nonvacuous. Qed.
(* the hypotheses of C12_same_effect_text are jointly satisfiable: a toy compiler / reader pair (code points stand for
   keywords and ids) for INSERT and the version-table statements, and a one-step plan from base whose text-level replay
   completes with one row and version row r5 *)
Example C12_text_nonvacuous :
  (forall s, supported_c s = true -> stext_wf (render_c s) = true) /\
  (forall s g core', supported_c s = true -> Forall2 (tok_sim g) (st_core (render_c s)) core' ->
                     sqlite_c (flat core' ++ [59]) = Some (map_stmt g s)) /\
  inclass_C12 (mkIn toy_db SpBase [] toy_steps [] (mkCfg None false)) = true /\
  (forall l, run_offline_plain lit_c untext_c [] toy_steps = Some l -> forallb supported_c l = true) /\
  exists d, offline_text_effect lit_c parse_c untext_c render_c sqlite_c [59] toy_db [] toy_steps = Some d /\
            ob_vers (observable d) = [5] /\ map (fun t => length (t_rows t)) (ob_tabs (observable d)) = [1%nat].
Proof. exact text_nonvacuous. Qed.
