(* C16 — Revision identifiers resolve to the right revision or fail loudly.  Statement-only file. *)
From AV Require Import Model.Resolve Spec.C16 Proofs.ResolveProof Proofs.ResolveMain Proofs.ResolveLabels Proofs.ResolveAll.

(* the decider applied to the implementation's output is sound (and complete) for the property *)
Theorem C16_decider_sound : forall i o, check_C16 i o = true -> C16_holds i o.
Proof. exact check_C16_sound. Qed.
Print Assumptions C16_decider_sound.

(* what the hand model of the regular expression _relative_destination accepts, on the documented grammar *)
Theorem C16_regex_char :
  (forall w, word w -> relative_destination w = None) /\
  (forall l w, word l -> word w -> relative_destination (l ++ c_at :: w) = None) /\
  (forall w sg ds, word w -> is_sign sg = true -> digits ds ->
     relative_destination (w ++ sg :: ds) = Some (None, opt_word w, rel_val sg ds)) /\
  (forall l w sg ds, l <> [] -> word l -> word w -> is_sign sg = true -> digits ds ->
     relative_destination (l ++ c_at :: w ++ sg :: ds) = Some (Some l, opt_word w, rel_val sg ds)).
Proof. exact regex_char. Qed.
Print Assumptions C16_regex_char.

(* a full revision id resolves to that revision *)
Theorem C16_full_id : forall G o M r, load G o = Ok M -> NoDup (ids G) -> In r G -> legal_id (s_id r) ->
  get_revision M (s_id r) = Ok (Some r).
Proof. intros G o M r H ND. apply (full_id G M (load_loaded _ _ _ H) ND). Qed.
Print Assumptions C16_full_id.

(* a partial id resolves only to the unique revision whose id starts with it (or is that id) ... *)
Theorem C16_prefix_partial : forall G o M p r, load G o = Ok M -> NoDup (ids G) ->
  ids_len_ge4 G -> labels_prefix_free G p -> plain p ->
  get_revision M p = Ok (Some r) ->
  In r G /\ prefix_of p (s_id r) /\ (p = s_id r \/ forall r', In r' G -> prefix_of p (s_id r') -> r' = r).
Proof. intros G o M p r H ND. apply (prefix_partial G M (load_loaded _ _ _ H) ND). Qed.
Print Assumptions C16_prefix_partial.

(* ... and under the same hypotheses the unique revision IS found *)
Theorem C16_prefix_complete : forall G o M p r, load G o = Ok M -> NoDup (ids G) ->
  ids_len_ge4 G -> labels_prefix_free G p -> plain p -> p <> [] ->
  In r G -> prefix_of p (s_id r) -> (forall r', In r' G -> prefix_of p (s_id r') -> r' = r) ->
  get_revision M p = Ok (Some r).
Proof. intros G o M p r H ND. apply (prefix_complete G M (load_loaded _ _ _ H) ND). Qed.
Print Assumptions C16_prefix_complete.

(* without ids_len_ge4 the statement is false of the faithful model: ids abc <- abcd, "ab" resolves to abcd *)
Theorem C16_prefix_refuted :
  exists G o M p r r', load G o = Ok M /\ NoDup (ids G) /\ labels_prefix_free G p /\ plain p /\ ~ ids_len_ge4 G /\
    get_revision M p = Ok (Some r) /\ In r' G /\ prefix_of p (s_id r') /\ r' <> r.
Proof. exact prefix_refuted. Qed.
Print Assumptions C16_prefix_refuted.

(* head / heads / base / label@head / label@id *)
Theorem C16_symbolic : forall G o M rk, load G o = Ok M -> wfG G -> ranked G rk ->
  (get_revisions M s_base = Ok [] /\ get_revision M s_base = Ok None) /\
  (get_revisions M s_heads = Ok (map EId (m_real_heads M)) /\ forall x, In x (m_real_heads M) <-> is_real_head G x) /\
  ((forall x, In x (m_heads M) <-> is_head G x) /\
   (m_heads M = [] -> get_revision M s_head = Ok None) /\
   (forall h, m_heads M = [h] -> exists r, find_rev G h = Some r /\ get_revision M s_head = Ok (Some r)) /\
   (forall h h' t, m_heads M = h :: h' :: t -> get_revision M s_head = Err EMultipleHeads)) /\
  (forall L br, has_at L = false -> L <> [] -> L <> s_head -> L <> s_heads -> L <> s_base ->
     revision_for_ident0 M (Some L) = Ok (Some br) ->
     (forall r, get_revision M (at_join L s_head) = Ok (Some r) ->
        is_head G (s_id r) /\ lineage G (s_id br) (s_id r) /\ forall h, is_head G h -> lineage G (s_id br) h -> h = s_id r) /\
     (forall h1 h2, is_head G h1 -> is_head G h2 -> h1 <> h2 -> lineage G (s_id br) h1 -> lineage G (s_id br) h2 ->
        get_revision M (at_join L s_head) = Err EMultipleHeads)) /\
  (forall L br r, has_at L = false -> L <> [] -> revision_for_ident0 M (Some L) = Ok (Some br) -> In r G ->
     (lineage G (s_id br) (s_id r) -> get_revision M (at_join L (s_id r)) = Ok (Some r)) /\
     (~ lineage G (s_id br) (s_id r) -> get_revision M (at_join L (s_id r)) = Err EResolution)).
Proof.
  intros G o M rk H WF RK. apply load_loaded in H.
  split; [apply base_symbol|]. split; [split; [eapply heads_symbol; eauto | eapply real_heads_spec; eauto]|].
  split; [split; [eapply heads_spec; eauto | eapply head_symbol; eauto]|].
  split; [intros; eapply label_at_head; eauto | intros; eapply label_at_id; eauto].
Qed.
Print Assumptions C16_symbolic.

(* relative forms: exact distance along single down revisions / only children; ambiguity is RevisionError;
   id+N and id-N as spelled on the command line *)
Theorem C16_relative : forall G o M, load G o = Ok M -> wfG G ->
  (forall n r r' bl now, In r G -> walk_n M n false (WRev r) bl now = Ok (WRev r') -> In r' G /\ down_chain G n (s_id r) (s_id r')) /\
  (forall n r bl now p q t, In r G -> s_down r = p :: q :: t -> walk_n M (S n) false (WRev r) bl now = Err ERevision) /\
  (forall n r r', In r G -> walk_n M n true (WRev r) None true = Ok (WRev r') -> In r' G /\ up_chain G (fun _ => True) n (s_id r) (s_id r')) /\
  (forall cur r ds es, In r G -> word (s_id r) -> digits ds -> (0 < digits_num 0 ds)%Z ->
     parse_upgrade_target M cur (s_id r ++ c_plus :: ds) true = Ok es ->
     exists r', In r' G /\ es = [EId (s_id r')] /\ up_chain G (fun _ => True) (Z.abs_nat (digits_num 0 ds)) (s_id r) (s_id r')) /\
  (forall cur r ds y, In r G -> word (s_id r) -> digits ds ->
     parse_upgrade_target M cur (s_id r ++ c_minus :: ds) true = Ok [EId y] ->
     down_chain G (Z.abs_nat (digits_num 0 ds)) (s_id r) y).
Proof.
  intros G o M H WF. apply load_loaded in H.
  split; [intros; eapply walk_down_chain; eauto|]. split; [intros; eapply walk_down_ambiguous; eauto|].
  split; [intros; eapply walk_up_chain; eauto|].
  split; [intros; eapply relative_up_string; eauto | intros; eapply relative_down_string; eauto].
Qed.
Print Assumptions C16_relative.

(* label@x never resolves to a revision outside the lineage of the label *)
Theorem C16_never_outside_branch : forall G o M rk L x es, load G o = Ok M -> wfG G -> ranked G rk ->
  has_at L = false -> L <> [] -> (forall z, py_int x = Some z -> (z <? 0)%Z = false) ->
  get_revisions M (at_join L x) = Ok es ->
  forall y, In (EId y) es ->
    exists br r, revision_for_ident0 M (Some L) = Ok (Some br) /\ In br G /\ In r G /\ s_id r = y /\ lineage G (s_id br) y.
Proof. intros G o M rk L x es H WF RK. apply (never_outside_branch G M rk (load_loaded _ _ _ H) WF RK). Qed.
Print Assumptions C16_never_outside_branch.

(* non-vacuity: a labelled history satisfying every hypothesis set above, with non-trivial conclusions *)
Example C16_nonvacuous :
  exists M, load G_ok [(sc, sc)] = Ok M /\ wfG G_ok /\ ranked G_ok rk_ok /\ ids_len_ge4 G_ok /\
    labels_prefix_free G_ok [98;99]%N /\ plain [98;99]%N /\
    get_revision M [98;99]%N = Ok (Some (mkS sc [sb] [] [sl])) /\
    get_revisions M (at_join sl s_head) = Ok [EId sc] /\
    parse_upgrade_target M [] (sb ++ [43;49])%N true = Ok [EId sc] /\
    parse_upgrade_target M [] (sc ++ [45;49])%N true = Ok [EId sb].
Proof.
  destruct (load G_ok [(sc, sc)]) as [M|] eqn:E; [|vm_compute in E; discriminate].
  exists M. split; [reflexivity|]. destruct G_ok_wf as (W & R & L4). repeat (split; [assumption|]).
  split. { intros r l [<-|[<-|[]]]; cbn; [intros []|intros [<-|[]] (t & H); discriminate]. }
  split. { repeat split; discriminate. }
  vm_compute in E. inversion E; subst. repeat split; vm_compute; reflexivity.
Qed.

(* the model's whole observable satisfies the decider-level property on batches of full revision ids (all five entry
   points agree with the reference); the branch-label clause is a hypothesis here — it is decided on every run *)
Theorem C16_model_holds_full_ids : forall i M,
  load_in i = Ok M -> wfG (i_revs i) -> load_ok (i_revs i) = true ->
  labels_okb (i_revs i) (c_labels (run i)) = true ->
  Forall (fun q => exists r, In r (i_revs i) /\ q = s_id r /\ word q) (i_queries i) ->
  C16_holds i (run i).
Proof. exact ResolveMain.model_holds_full_ids. Qed.
Print Assumptions C16_model_holds_full_ids.

(* what the boolean notions of the reference resolution mean *)
Theorem C16_reference_meaning : forall G rk, ranked G rk -> NoDup (ids G) ->
  (forall x y, r_is_anc G x y = true <-> anc G x y) /\
  (forall x y, r_lineage G x y = true <-> lineage G x y) /\
  (forall x, In x (r_heads G) <-> is_head G x) /\
  (forall x, In x (r_real_heads G) <-> is_real_head G x) /\
  (forall n x, r_name G n = Some x ->
     (n = x /\ In x (ids G)) \/ (exists r, In r G /\ s_id r = x /\ In n (s_labels r)) \/
     (In x (ids G) /\ prefix_of n x /\ forall y, In y (ids G) -> prefix_of n y -> y = x)).
Proof.
  intros G rk R ND. split; [intros; eapply ResolveMain.r_is_anc_spec; eauto|].
  split; [intros; eapply ResolveMain.r_lineage_spec; eauto|].
  split; [apply ResolveMain.r_heads_spec|]. split; [apply ResolveMain.r_real_heads_spec|].
  intros n x. apply ResolveMain.r_name_spec; auto.
Qed.
Print Assumptions C16_reference_meaning.

(* after the repair of _parse_downgrade_target (965a10e): `label@-N` on a database with no current revision is the
   documented RevisionError (-> CommandError), for every history and every label/offset spelling *)
Theorem C16_downgrade_label_relative : forall M l ds, plain l -> l <> [] -> word l -> digits ds ->
  parse_downgrade_target M [] (l ++ c_at :: c_minus :: ds) true = Err ERevision.
Proof. exact ResolveMain.downgrade_label_relative_empty. Qed.
Print Assumptions C16_downgrade_label_relative.

(* the absolute downgrade target label@rev is NOT checked against the label (finding C16-downgrade-label-unchecked):
   aaaa carries lab0, bbbb is unrelated; get_revision refuses lab0@bbbb, the downgrade target parser resolves it to bbbb *)
Theorem C16_downgrade_label_refuted :
  exists M, load ResolveMain.G_unrel [(ResolveMain.s_aaaa, ResolveMain.s_aaaa)] = Ok M /\
    parse_downgrade_target M [] (at_join ResolveMain.s_lab0 ResolveMain.s_bbbb) true = Ok (Some ResolveMain.s_lab0, EId ResolveMain.s_bbbb) /\
    get_revision M (at_join ResolveMain.s_lab0 ResolveMain.s_bbbb) = Err EResolution /\
    revision_for_ident0 M (Some ResolveMain.s_lab0) = Ok (Some (mkS ResolveMain.s_aaaa [] [] [ResolveMain.s_lab0])) /\
    ~ lineage ResolveMain.G_unrel ResolveMain.s_aaaa ResolveMain.s_bbbb.
Proof. exact ResolveMain.downgrade_label_unchecked. Qed.
Print Assumptions C16_downgrade_label_refuted.

Example C16_model_holds_nonvacuous :
  let i := mkIn G_ok [(sc, sc)] [] [sb; sc] in
  exists M, load_in i = Ok M /\ load_ok (i_revs i) = true /\ labels_okb (i_revs i) (c_labels (run i)) = true /\
            check_C16 i (run i) = true.
Proof.
  cbv zeta. destruct (load_in (mkIn G_ok [(sc, sc)] [] [sb; sc])) as [M|] eqn:E; [|vm_compute in E; discriminate].
  exists M. repeat split; vm_compute; reflexivity.
Qed.

(* MAIN THEOREM: on the whole proved class (a boolean on the input, Spec.C16.inclass_C16: well-formed acyclic history
   that loads, ids/labels/current revisions of word characters, every name of every identifier string a full id, a
   branch label or a partial id under ids_len_ge4 /\ labels_prefix_free; all forms of the grammar) the model's
   observable satisfies exactly the statement the harness decides on the implementation's output.
   Not in the class (said in Spec.C16.qclassb): label@+N with a non-empty version table; label@-N with a non-empty
   version table none of whose revisions is on the branch; label@name as a downgrade target where the unchecked
   label would change the answer (the recorded finding). *)
Theorem C16_model_holds : forall i, inclass_C16 i = true -> C16_holds i (run i).
Proof. exact ResolveAll.model_holds. Qed.
Print Assumptions C16_model_holds.

(* which revision carries which branch label after the load, for EVERY admissible order oracle: exactly `carries`
   (Spec.C16): the labels as written, plus, for each labelled revision R handled in the oracle's order, the labels R
   carries at that moment on R's down_revision-descendants and on the upward chain from the last-yielded descendant
   up to (excluding) the first real branch point or merge point *)
Theorem C16_labels_invariant : forall G rk oracle M, NoDup (ids G) -> ranked G rk -> load G oracle = Ok M ->
  map fst (m_blabels M) = ids G /\
  forall x L, In x (ids G) -> (In L (labels_get (m_blabels M) x) <-> carries G oracle x L).
Proof. intros G rk oracle M ND RK H. exact (ResolveLabels.labels_invariant G rk ND RK oracle M H). Qed.
Print Assumptions C16_labels_invariant.

(* with one labelled revision this is the plain statement: x carries L iff L is written on x, or L is written on R and
   x is R, a descendant of R, or on the upward chain from the last-yielded descendant *)
Theorem C16_labels_single : forall G R last x L,
  carries G [(R, last)] x L <->
  orig_label G x L \/ (orig_label G R L /\ In x (ids G) /\ (anc G x R \/ In x (upchain G (S (length G)) last))).
Proof. intros. reflexivity. Qed.
Print Assumptions C16_labels_single.

(* hence the branch-label clause of the property holds of the model (every descendant has the label; a label only on
   revisions sharing lineage with its owner) *)
Theorem C16_labels_ok : forall G rk oracle M, NoDup (ids G) -> ranked G rk -> refs_ok G -> load G oracle = Ok M ->
  labels_okb G (m_blabels M) = true.
Proof. intros G rk oracle M ND RK RO H. exact (ResolveLabels.labels_ok_model G rk oracle M ND RK RO H). Qed.
Print Assumptions C16_labels_ok.

(* non-vacuity of the class: a labelled branching history, a current revision, and one identifier of every form *)
Definition nv_in : c16_in :=
  mkIn [mkS sb [] [] []; mkS sc [sb] [] [sl]; mkS [99;100;101;102]%N [sb] [] []]
       [(sc, sc)] [sc]
       [sb; [98;99]%N; sl; s_head; s_heads; s_base; at_join sl s_head; at_join sl sc; at_join sl s_heads;
        (sb ++ [43;49])%N; (sc ++ [45;49])%N; [45;49]%N; [43;49]%N; at_join sl [45;49]%N; at_join sl (sb ++ [43;49])%N;
        (s_head ++ [45;49])%N; [64]%N].
Example C16_model_holds_class_nonvacuous : inclass_C16 nv_in = true /\ check_C16 nv_in (run nv_in) = true.
Proof. split; vm_compute; reflexivity. Qed.
