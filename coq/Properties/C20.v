(* C20 — Objects excluded by autogenerate filters never appear in the output.  Statements only.
   io = include_object (shown the object, `reflected`, `compare_to`), iname = include_name: ARBITRARY predicates. *)
From AV Require Import Model.Schema Model.Diff Model.Filters Spec.C06 Spec.C07 Spec.C20 Proofs.SchemaProof Proofs.C07Proof Proofs.C20Proof.

(* every generated operation was approved by include_object, for the object it creates/drops/alters and for its table *)
Theorem C20_object_filter : forall io iname g A B, object_filter_ok io (diff_f io iname g (reflect_sqlite A) B).
Proof. intros io iname g A B o Ho. apply (diff_f_In io iname g _ _ o Ho). Qed.
Print Assumptions C20_object_filter.

(* an operation that drops or alters concerns a reflected schema / table / object name that include_name accepted *)
Theorem C20_name_filter : forall io iname g A B, name_filter_ok iname (diff_f io iname g (reflect_sqlite A) B).
Proof. intros io iname g A B o Ho. apply (diff_f_In io iname g _ _ o Ho). Qed.
Print Assumptions C20_name_filter.

(* on objects neither filter rejects (acc: names accepted - for an added foreign key also the names of the reflected keys
   with the same signature, which is what identifies a foreign key; the include_object calls the unfiltered comparison
   makes for the operation's table and object say yes) the filtered and the unfiltered comparison contain the same operations *)
Theorem C20_conservative : forall io iname g A B o, wf_schemab A = true -> wf_schemab B = true -> no_unnamed_uq B = true ->
  acc io iname (reflect_sqlite A) B o = true ->
  (In o (diff_f io iname g (reflect_sqlite A) B) <-> In o (diff g (reflect_sqlite A) B)).
Proof. intros io iname g A B o HA HB Hu. apply diff_f_conservative; [apply nd_schema_reflect; apply wf_nd_schema|apply wf_nd_schema|apply named_of_no_unnamed]; auto. Qed.
Print Assumptions C20_conservative.

(* "the database object of that name is treated as absent": without an object filter the filtered comparison is exactly the
   plain comparison of the database from which every name-rejected object (table of a rejected schema, table, column, index,
   unique constraint - named or not -, foreign key - named or not) has been removed.  In particular a rejected reflected
   constraint whose metadata counterpart exists yields the ADD.  For ALL include_name predicates and ALL schema pairs. *)
Theorem C20_name_absent : forall iname g A B,
  diff_f (fun _ _ _ => true) iname g (reflect_sqlite A) B = diff g (prune iname (reflect_sqlite A)) B.
Proof. intros. apply diff_f_name_absent. Qed.
Print Assumptions C20_name_absent.

Theorem C20_decider_sound : forall i out, check_C20 i out = true -> C20_holds i out.
Proof. exact check_C20_sound. Qed.
Print Assumptions C20_decider_sound.

Theorem C20_model_holds : forall i, inclass_C20 i = true -> C20_holds i (model_C20 i).
Proof. exact model_C20_holds. Qed.
Print Assumptions C20_model_holds.

(* non-vacuity: a pair with real differences and filters that reject a table name, a column (object filter), an index
   (object filter only when reflected), a new foreign key (object filter), a unique-constraint name and a reflected foreign-key name; the filtered comparison differs from the plain one,
   is in the class, and the decider accepts the model's output *)
Open Scope N_scope.
Definition ex20_A : schema :=
  [mkTable 0 [mkCol 0 (mkTy 0 []) false true None true; mkCol 1 (mkTy 3 [20]) true false (Some (DLit [53])) true; mkCol 2 (mkTy 5 [10;2]) true false None true]
             [Uq 1 [1]; Ix 2 [2;1] false] [mkFk 0 [2] 0 [0] no_opts true; mkFk 1 [1] 0 [0] no_opts true] [];
   mkTable 1 [mkCol 0 (mkTy 0 []) false true None true] [] [] []].
Definition ex20_B : schema :=
  [mkTable 0 [mkCol 0 (mkTy 0 []) false true None true; mkCol 1 (mkTy 4 []) false false (Some (DExpr [39;54;39])) true; mkCol 3 (mkTy 9 []) true false None true]
             [Ix 1 [1] true] [mkFk 3 [3] 0 [0] no_opts true] [];
   mkTable 2 [mkCol 0 (mkTy 0 []) false true None true; mkCol 1 (mkTy 1 []) true false None true] [Uq 20 [1]; Ix 21 [1;0] false] [mkFk 20 [1] 0 [0] no_opts true] []].
Definition ex20_f : filt :=
  mkFilt [((NColumn 0 3, false, false), false); ((NIx 0 2, true, false), false); ((NFk 0 3, false, false), false)] true
         [(NTable 1, false); (NUq 0 1, false); (NFk 0 1, false)] true [RTabHasCol 9; RColFam 11; RFkTo 7] [1] false.
Example C20_nonvacuous :
  inclass_C20 (ex20_A, ex20_B, ex20_f) = true /\
  check_C20 (ex20_A, ex20_B, ex20_f) (model_C20 (ex20_A, ex20_B, ex20_f)) = true /\
  negb (Nat.eqb (length (o_plain (model_C20 (ex20_A, ex20_B, ex20_f)))) (length (o_filtered (model_C20 (ex20_A, ex20_B, ex20_f))))) = true /\
  negb (is_nil (o_filtered (model_C20 (ex20_A, ex20_B, ex20_f)))) = true.
Proof. vm_compute. auto. Qed.
