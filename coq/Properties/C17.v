(* C17 — a generated revision file reloads as the revision that was requested; the incrementally maintained
   map equals the reloaded one.  Statements only. *)
From Coq Require Import String.
From AV Require Import Model.PyRepr Model.Render Model.RevHeader Model.Incremental Spec.C17
  Proofs.RevHeaderProof Proofs.IncrementalProof Proofs.C17Proof.
Open Scope N_scope.

(* the identifier lines written with repr() read back to exactly what was requested: all strings, every oracle *)
Theorem C17_header_roundtrip : forall (printable : N -> bool) (rev : str) (down labels deps : list str),
  valid_strb rev = true -> forallb valid_strb down = true -> forallb valid_strb labels = true -> forallb valid_strb deps = true ->
  read_header (write_header printable (mk_args rev down labels deps)) = Some (mkFields rev down labels deps).
Proof. exact RevHeaderProof.header_roundtrip. Qed.
Print Assumptions C17_header_roundtrip.

(* the docstring literal closes where the template means it to when its body has no backslash, no three
   consecutive double quotes and does not end with a double quote *)
Theorem C17_docstring_partial : forall body rest, doc_safe body = true -> doc_ok body rest = true.
Proof. exact RevHeaderProof.docstring_safe. Qed.
Print Assumptions C17_docstring_partial.

(* a message with three consecutive double quotes: the literal ends inside the message and the rest of the
   message is left behind as code *)
Theorem C17_docstring_refuted : exists body, doc_ok body [] = false.
Proof. exists (lit "has """""" triple

Revision ID: r0
Revises: 
Create Date: 2026-01-01

"). vm_compute. reflexivity. Qed.
Print Assumptions C17_docstring_refuted.

(* add_revision after the batch load IS the batch load of the extended history: every component,
   including normalised dependencies and branch labels *)
Theorem C17_incremental : forall G r L, load G = MOk L -> wf_new G r = true -> add_revision L r = load (G ++ [r]).
Proof. exact IncrementalProof.incremental. Qed.
Print Assumptions C17_incremental.

Theorem C17_incremental_view : forall G r L, load G = MOk L -> wf_new G r = true ->
  exists L', add_revision L r = MOk L' /\ load (G ++ [r]) = MOk L' /\ view_eqb (view_of L') (view_of L') = true.
Proof.
  intros G r L HL W. destruct (IncrementalProof.add_revision_ok G r L HL W) as [L' H]. exists L'.
  pose proof (IncrementalProof.incremental G r L HL W) as E. split; [exact H|]. split; [rewrite <- E; exact H|].
  apply IncrementalProof.view_eqb_refl. rewrite E in H. apply (IncrementalProof.load_ids_nodup _ _ H).
Qed.
Print Assumptions C17_incremental_view.

(* outside the class: a new revision whose id is an existing branch label is accepted by add_revision
   (it silently overwrites the label key) while a reload refuses the directory *)
Theorem C17_incremental_refuted_id_is_label : exists G r L,
  load G = MOk L /\ (exists L', add_revision L r = MOk L') /\ load (G ++ [r]) = MErr ERevisionError.
Proof.
  exists [mkF 0 [] [] [5]], (mkF 5 [0] [] []). eexists. split; [vm_compute; reflexivity|].
  split; [eexists; vm_compute; reflexivity|vm_compute; reflexivity].
Qed.
Print Assumptions C17_incremental_refuted_id_is_label.

(* a call that generate_revision accepts writes into a configured version location, i.e. into a directory that
   a reload scans (with or without recursive_version_locations) *)
Theorem C17_accepted_is_scanned : forall rec locs p, accept_path locs p = true -> scanned rec locs p = true.
Proof. exact C17Proof.accepted_is_scanned. Qed.
Print Assumptions C17_accepted_is_scanned.

(* a sub-directory of a location is not scanned unless recursive_version_locations is on, a sibling never *)
Theorem C17_subdir_not_scanned : scanned false [[1; 2]] [1; 2; 3] = false /\ scanned true [[1; 2]] [1; 2; 3] = true
  /\ scanned true [[1; 2]] [1; 4] = false /\ accept_path [[1; 2]] [1; 2; 3] = false.
Proof. vm_compute. auto. Qed.
Print Assumptions C17_subdir_not_scanned.

(* the file name: a template that starts with the revision id gives a name the loader accepts whenever the id does not
   start with a dot or an underscore, whatever the message, slug length and remaining tokens *)
Theorem C17_filename_prefix_ok : forall is_word lower rest c r msg trunc, c <> 46 -> c <> 95 ->
  has_prefix (lit ".#") (rev_filename is_word lower (TRevId :: rest) (c :: r) msg trunc) = false /\
  has_prefix (lit "__init__") (rev_filename is_word lower (TRevId :: rest) (c :: r) msg trunc) = false.
Proof. exact RevHeaderProof.filename_prefix_ok. Qed.
Print Assumptions C17_filename_prefix_ok.

(* the default shape (revision id, then a separator no id contains): different ids never share a file *)
Theorem C17_filename_injective : forall is_word lower sep l rest r1 r2 m1 m2 t1 t2, ~ In sep r1 -> ~ In sep r2 ->
  rev_filename is_word lower (TRevId :: TLit (sep :: l) :: rest) r1 m1 t1
  = rev_filename is_word lower (TRevId :: TLit (sep :: l) :: rest) r2 m2 t2 -> r1 = r2.
Proof. exact RevHeaderProof.filename_injective. Qed.
Print Assumptions C17_filename_injective.

(* outside that shape both fail: a template that starts with the slug and a message that starts with __init__ give a file
   the loader skips; a template without the revision id makes two revisions with one message share (overwrite) a file *)
Theorem C17_filename_refuted :
  loadable_name (rev_filename is_ident_char (fun c => [c]) [TSlug; TLit (lit "_"); TRevId] (lit "r1") (lit "__init__ of the schema") 40) = false
  /\ rev_filename is_ident_char (fun c => [c]) [TSlug] (lit "r1") (lit "add table") 40
     = rev_filename is_ident_char (fun c => [c]) [TSlug] (lit "r2") (lit "add table") 40.
Proof. split; vm_compute; reflexivity. Qed.
Print Assumptions C17_filename_refuted.

Theorem C17_decider_complete : forall i o, C17_holds i o -> check_C17 i o = true.
Proof. exact C17Proof.decider_complete. Qed.
Print Assumptions C17_decider_complete.

Theorem C17_decider_sound : forall i o, check_C17 i o = true -> C17_holds i o.
Proof. exact C17Proof.decider_sound. Qed.
Print Assumptions C17_decider_sound.

Theorem C17_main : forall i, inclass_C17 i = true -> C17_holds i (model_C17 i).
Proof. exact C17Proof.model_holds. Qed.
Print Assumptions C17_main.

(* ---------------------------------------------------------------- non-vacuity *)
Definition ex_doc : str := lit "it's ""quoted""

Revision ID: r1
Revises: r0
Create Date: 2026-01-01

".
Definition ex_steps : c17_in :=
  [mkStep (mkF 9 [] [] []) (lit "rejected") [] [] [] [] ex_doc [[1; 2]] false [1; 2; 3] [TRevId; TLit (lit "_"); TSlug] (lit "Add it") 40%nat [65; 100; 105; 116] [(65, [97])];
   mkStep (mkF 0 [] [] [7]) (lit "r0") [] [lit "lab'0"] [] [] ex_doc [[1; 2]] false [1; 2] [TRevId; TLit (lit "_"); TSlug] (lit "Add it") 40%nat [65; 100; 105; 116] [(65, [97])];
   mkStep (mkF 1 [0] [] []) (lit "r1") [lit "r0"] [] [] [] ex_doc [[1; 2]] false [1; 2] [TRevId; TLit (lit "_"); TSlug] (lit "Add it") 40%nat [65; 100; 105; 116] [(65, [97])];
   mkStep (mkF 2 [] [7; 1] [8]) (lit "r2é") [] [lit "b"] [lit "lab'0"; lit "r1"] [] ex_doc [[1; 2]] false [1; 2] [TRevId; TLit (lit "_"); TSlug] (lit "Add it") 40%nat [65; 100; 105; 116] [(65, [97])];
   mkStep (mkF 3 [1; 2] [] []) (lit "r3") [lit "r1"; lit "r2é"] [] [] [] ex_doc [[1; 2]] false [1; 2] [TRevId; TLit (lit "_"); TSlug] (lit "Add it") 40%nat [65; 100; 105; 116] [(65, [97])]].
Example C17_main_nonvacuous : inclass_C17 ex_steps = true /\ length (model_C17 ex_steps) = 5%nat /\ check_C17 ex_steps (model_C17 ex_steps) = true.
Proof. vm_compute. auto. Qed.
Example C17_incremental_nonvacuous : exists L, load [mkF 0 [] [] [7]; mkF 1 [0] [] []] = MOk L /\ wf_new [mkF 0 [] [] [7]; mkF 1 [0] [] []] (mkF 2 [] [7; 1] [8]) = true.
Proof. eexists. split; vm_compute; reflexivity. Qed.
