(* C10 — Batch move-and-copy keeps every row and everything it was not told to change.   Statements only;
   proofs in Proofs/BatchProof.v (bookkeeping refinement) and Proofs/BatchFailProof.v (statement sequence).

   Universe of the refinement theorems: every table description T with wf_tbl T (constraint and PK columns exist),
   every operation sequence of the class `in_class` — drop_column, alter_column (rename — also back to the original name — / type / nullable / default), add / drop named constraint (UNIQUE / CHECK / FK incl. self-referential), create / drop
   index — of any length, for which the abstract specification `edit_all` gives a table and the modelled ApplyBatchImpl
   (`batch`) does not raise; for EVERY topological-sort function (SQLAlchemy's is never reached in this class) and every
   CAST / DEFAULT behaviour of the database.  add_column (plain and insert_before/after) is inside the model and the
   correspondence but outside these theorems (its position is decided by SQLAlchemy's topological sort). *)
From AV Require Import Model.BatchFail Model.Batch Spec.C11 Spec.C10 Proofs.BatchFailProof Proofs.BatchProof Proofs.BatchMainProof Proofs.BatchSortProof Proofs.BatchAddProof Proofs.BatchAddMainProof Proofs.BatchAddPlaceProof.

(* the decider applied to the implementation's output is sound for the property *)
Theorem C10_decider_sound : forall i o, check_C10 i o = true -> C10_holds i o.
Proof. exact decider_sound10. Qed.
Print Assumptions C10_decider_sound.

(* ... and complete: the decider accepts an observation iff the property holds of it *)
Theorem C10_decider_complete : forall i o, C10_holds i o -> check_C10 i o = true.
Proof. exact decider_complete10. Qed.
Print Assumptions C10_decider_complete.

(* refinement: the table Alembic builds is exactly the edited description — same columns in the same order with the same
   attributes under their current names, same PK, same named constraints and indexes *)
Theorem C10_schema : forall tsort T ops T' nd cm,
  wf_tbl T = true -> forallb in_class ops = true ->
  edit_all ops T = BOk T' -> batch tsort T ops = BOk (nd, cm) ->
  nd = describe T'.
Proof. intros tsort T ops T' nd cm H1 H2 H3 H4. exact (proj1 (schema_rows tsort T ops T' nd cm H1 H2 H3 H4)). Qed.
Print Assumptions C10_schema.

(* rows: the INSERT..SELECT mapping has exactly one entry per surviving column, in column order, each reading the
   column's own source under the column's current name (so values never cross columns; the CAST list is what
   cast_for_batch_migrate stacked), and the copy has as many rows as the original *)
Theorem C10_rows : forall tsort T ops T' nd cm,
  wf_tbl T = true -> forallb in_class ops = true ->
  edit_all ops T = BOk T' -> batch tsort T ops = BOk (nd, cm) ->
  map (fun e => snd (fst e)) cm = akeys (tb_cols T') /\
  (forall e, In e cm -> fst (fst e) = cur_name (tb_cols T') (snd (fst e))) /\
  (forall cast dflt rows, length (copy_rows cast dflt T nd cm rows) = length rows).
Proof.
  intros tsort T ops T' nd cm H1 H2 H3 H4. destruct (schema_rows tsort T ops T' nd cm H1 H2 H3 H4) as [_ [A B]].
  repeat split; auto. intros; apply copy_rows_length.
Qed.
Print Assumptions C10_rows.

(* untouched: a column / named constraint / index whose name no operation mentions is in the edited description —
   hence, by C10_schema, in the table Alembic builds — with identical definition; and the PRIMARY KEY, when no operation
   mentions one of its columns, comes out with the same columns in the same (declared) order *)
Theorem C10_untouched : forall tsort T ops T' nd cm,
  wf_tbl T = true -> forallb in_class ops = true ->
  edit_all ops T = BOk T' -> batch tsort T ops = BOk (nd, cm) ->
  nd = describe T' /\
  ((forall k, In k (tb_pk T) -> ~ In k (mentioned ops)) -> n_pk nd = n_pk (describe T)) /\   (* the unnamed PK; a NAMED one is a constraint, below *)
  (forall k, ~ In k (mentioned ops) -> aget k (tb_cols T') = aget k (tb_cols T)) /\
  (forall c, In c (tb_cons T) -> ~ In (k_name c) (mentioned ops) -> (forall x, In x (k_cols c) -> ~ In x (mentioned ops)) -> In c (tb_cons T')) /\
  (forall x, In x (tb_idx T) -> ~ In (x_name x) (mentioned ops) -> In x (tb_idx T')).
Proof.
  intros tsort T ops T' nd cm H1 H2 H3 H4.
  pose proof (proj1 (schema_rows tsort T ops T' nd cm H1 H2 H3 H4)) as E.
  split; [exact E|]. split; [intros Hpk; rewrite E; exact (untouched_pk ops T T' H2 H3 Hpk)|].
  exact (proj2 (untouched_spec ops T T' H2 H3)).
Qed.
Print Assumptions C10_untouched.

(* MAIN THEOREM — the statement the harness evaluates: on inclass_C10 the model's output satisfies the property at full
   strength (C10_holds: no temporary table, row count, every surviving column present, every cell = the expected cell —
   added columns hold what the database fills in —, untouched columns / PK / constraints / indexes identical and in order,
   every requested constraint present, inserted columns on the requested side, partial_reordering / table_args honoured,
   and the table = the edited description up to the order of added columns inside one gap).
   inclass_C10 (every conjunct is a boolean the harness evaluates):
     recreate='always'; no partial_reordering / table_args / unnamed CHECK constraints;
     wf_tbl2: a reflected table (column keys = names, all different; constraint and PK columns exist; constraint names
       distinct; primary keys have columns);
     in_class_a: every operation of the model — add_column appended, with insert_before= or with insert_after= (not both
       at once: `edit` has no single reading), drop / alter (rename, type, nullable, default) column, add / drop named
       constraint (added ones not primary keys), create / drop index — in any order and number;
     types_once: each column's type altered at most once;
     fresh_adds: an added column's key is new (not a column of the table, not added twice);
     placement_ok: no drop_column of a column that add_col_ordering mentions — its complement is the registered deviation
       C10-added-column-misplaced-when-neighbour-dropped-later; the column named by insert_before / insert_after is one of
       the table's own (still present) columns, not one added by the same batch;
     selfref_ok: no rename of a column that a self-referential foreign key (of the table or added by the batch) refers
       to — its complement is the registered deviation C10-selfref-fk-target-not-renamed;
     specok: accepted by the specification `edit` — its complement contains the two other registered deviations (a
       constraint naming a column the batch does not know; re-adding an existing column).
   Proof (Proofs/BatchAddPlaceProof.v): `edit` and the append specification differ only in where added columns sit (EA);
   along the run every added column owns a gap of the surviving original columns, the recorded pairs name both sides of
   the gap and the specification puts it into that gap (PG); a linear extension of the pairs that keeps the original
   order (SQLAlchemy's sort, C10_tsort_linear_extension) puts it into the same gap (gap_sorted).
   Outside the class but modelled, compared exactly and checked by the decider on every run: add_column naming a column
   added by the same batch or both insert_before and insert_after, partial_reordering, table_args, unnamed constraints, naming conventions, copy_from,
   recreate='auto' / 'never'. *)
Theorem C10_main : forall i, inclass_C10 i = true -> C10_holds i (model10 i).
Proof. exact mainG. Qed.
Print Assumptions C10_main.

(* C10_rows, per cell, for EVERY cast/default behaviour of the database: in every row, the cell of a surviving column (under
   its new name, at its place in the new table) is the old cell of that column, converted with CAST to the new type exactly
   when the type class changed; a column that no transfer feeds (an added column) holds what the database fills in *)
Theorem C10_rows_cell : forall cast dflt i T' nd cm r k' c',
  inclass_C10_noadd i = true -> edit_all (j_ops i) (j_tbl i) = BOk T' -> batch sa_tsort (j_tbl i) (j_ops i) = BOk (nd, cm) ->
  In (k', c') (tb_cols T') ->
  In c' (n_cols nd) /\
  exists c0, aget k' (tb_cols (j_tbl i)) = Some c0 /\
    copy_val cast dflt (j_tbl i) cm r c' =
      (if N.eqb (affinity (c_ty c0)) (affinity (c_ty c')) then src_val (j_tbl i) r k' else cast (c_ty c') (src_val (j_tbl i) r k')).
Proof. exact cell_value. Qed.
Print Assumptions C10_rows_cell.

Theorem C10_rows_default : forall cast dflt T cm r c,
  (forall e, In e cm -> fst (fst e) <> c_name c) -> copy_val cast dflt T cm r c = dflt c.
Proof. exact cell_default. Qed.
Print Assumptions C10_rows_default.

(* ---- add_column inside the refinement (any insert_before / insert_after), and SQLAlchemy's topological sort ---- *)
(* the transcription of sqlalchemy.util.topological.sort: whatever it returns is a permutation of the items in which the
   first component of every pair comes before the second (a linear extension of the recorded pairs) *)
Theorem C10_tsort_linear_extension : forall pairs items out, NoDup items -> sa_tsort pairs items = Some out ->
  (forall x, In x out <-> In x items) /\ NoDup out /\
  (forall a b, In (a, b) pairs -> In a items -> In b items -> a <> b -> precedes a b out).
Proof. exact sa_tsort_spec. Qed.
Print Assumptions C10_tsort_linear_extension.

(* with add_column in the sequence (in_class_a: everything except an add naming BOTH neighbours and added primary keys):
   the bookkeeping refines the specification in which an added column is appended (edit_app) — same column definitions under
   their keys (FinA: the new table's columns are those of the edited description taken in the order `sorted`), same PK, named
   constraints and indexes — and `sorted` is a permutation of the keys that is a linear extension of add_col_ordering + the
   existing order (fa_prec) in which the ORIGINAL columns keep their relative order *)
Theorem C10_schema_add : forall T ops T1 nd cm,
  wf_tbl T = true -> NoDup (akeys (tb_cols T)) -> forallb in_class_a ops = true ->
  edit_app_all ops T = BOk T1 -> batch sa_tsort T ops = BOk (nd, cm) ->
  exists s sorted, apply_ops ops (init T) = BOk s /\ InvA s T1 /\ FinA s T1 nd cm sorted /\
    filter (fun k => mem_name k (b_existing s)) sorted = b_existing s.
Proof. exact schema_add. Qed.
Print Assumptions C10_schema_add.

(* no temporary table: when the statement sequence of _create runs without an exception and the transaction is committed,
   the table is under its original name with the new definition and the copied rows, and the temporary name is free *)
Theorem C10_no_temp : forall k pre db t nd tr ixs f inj sc T0, lookup t db = Some T0 ->
  let r := run_batch k pre db t nd tr ixs f inj sc in
  let tmp := calc_temp_name t in
  lookup tmp db = None -> r_err r = None -> eff_outcome sc (r_err r) = Commit ->
  lookup tmp (r_final r) = None /\
  exists T, lookup t (r_final r) = Some T /\ t_def T = nd /\ t_rows T = map (copy_row tr) (t_rows T0).
Proof. intros k pre db t nd tr ixs f inj sc T0 H. exact (success_no_temp_lk k pre db t nd tr ixs f inj sc T0 H). Qed.
Print Assumptions C10_no_temp.

(* genuine deviations of the faithful model (and of the code) from the property, as closed witnesses *)
Theorem C10_constraint_by_new_name_refuted :
  exists i, (exists nd r, model10 i = OutOk nd r false) /\ check_C10 i (model10 i) = false /\ ~ C10_holds i (model10 i).
Proof. exact byname_refuted. Qed.
Print Assumptions C10_constraint_by_new_name_refuted.

Theorem C10_readd_last_column_refuted :
  exists i, (exists nd r, model10 i = OutOk nd r false) /\ check_C10 i (model10 i) = false /\ ~ C10_holds i (model10 i).
Proof. exact readd_refuted. Qed.
Print Assumptions C10_readd_last_column_refuted.

(* where an added column lands: the specification appends a column added without position; the code (add_col_ordering +
   SQLAlchemy's topological sort) puts it right after the first column once the column that was last is dropped *)
Theorem C10_added_column_order_refuted : exists i,
  (exists nd r, model10 i = OutOk nd r false /\ map c_name (n_cols nd) = [w_id; w_z; w_a; w_b]) /\
  (exists T', edit_all (j_ops i) (j_tbl i) = BOk T' /\ map c_name (n_cols (describe T')) = [w_id; w_a; w_b; w_z]) /\
  check_C10 i (model10 i) = false /\ ~ C10_holds i (model10 i).
Proof. exact added_order_refuted. Qed.
Print Assumptions C10_added_column_order_refuted.

(* a self-referential foreign key must still refer to the same COLUMNS of the table after a rename (describe_s: its referred
   columns follow renames like its source columns — what SQLite's own RENAME COLUMN does); the batch recreate renames the
   column and leaves REFERENCES t (id): registered deviation C10-selfref-fk-target-not-renamed, delimited by selfref_ok *)
Theorem C10_selfref_fk_target_refuted :
  selfref_ok (j_tbl w_in_self) (j_ops w_in_self) = false /\
  (exists nd r, model10 w_in_self = OutOk nd r false /\ In (mkCon w_uqa (KFk self_table [w_id]) [w_a]) (n_cons nd)) /\
  check_C10 w_in_self (model10 w_in_self) = false /\ ~ C10_holds w_in_self (model10 w_in_self).
Proof. exact selfref_refuted. Qed.
Print Assumptions C10_selfref_fk_target_refuted.

(* ------------------------------------------------------------------ non-vacuity *)
(* a sequence of the class touching every kind of element, accepted by the specification and by the model *)
Definition nv_ops : list batch_op :=
  [OAlterColumn w_a (mkAlter (Some w_a2) (Some 2%N) (Some false) (Some (Some [48%N]))); ODropConstraint w_uqc; ODropColumn w_c;
   OAddConstraint (mkCon w_uqa KUnique [w_a]); OCreateIndex (mkIndex [105;120;95;97]%N [w_a; w_id] true None); ODropIndex w_ixb].
Example C10_schema_nonvacuous :
  wf_tbl w_tbl = true /\ forallb in_class nv_ops = true /\
  (exists T', edit_all nv_ops w_tbl = BOk T') /\ (exists nd cm, batch sa_tsort w_tbl nv_ops = BOk (nd, cm) /\ cm <> []).
Proof.
  split; [vm_compute; reflexivity|]. split; [vm_compute; reflexivity|].
  split; [eexists; vm_compute; reflexivity|]. eexists; eexists. split; [vm_compute; reflexivity|discriminate].
Qed.
Example C10_no_temp_nonvacuous :
  let r := run_batch Pysqlite false wit_db wit_t (mkDef 11 [0%nat] [[0%nat]] []) [TCol 0; TCol 2] [mkIdx [105]%N [1%nat] false] (fun _ => false) (fun _ => EInjected) OwnScope in
  lookup (calc_temp_name wit_t) wit_db = None /\ r_err r = None /\ eff_outcome OwnScope (r_err r) = Commit.
Proof. vm_compute. repeat split. Qed.

Local Open Scope N_scope.
Definition nv_pk_tbl : tbl :=
  mkTbl [(w_id, mkCol w_id 0 false None); (w_a, mkCol w_a 0 false None); (w_b, mkCol w_b 2 false None); (w_c, mkCol w_c 0 true None)]
        [w_b; w_a] [mkCon w_uqc KUnique [w_c]] [].
Example C10_untouched_pk_nonvacuous :
  let ops := [OAddConstraint (mkCon w_uqa KUnique [w_id]); ODropConstraint w_uqc] in
  wf_tbl nv_pk_tbl = true /\ forallb in_class ops = true /\ (forall k, In k (tb_pk nv_pk_tbl) -> ~ In k (mentioned ops)) /\
  (exists nd cm, batch sa_tsort nv_pk_tbl ops = BOk (nd, cm) /\ n_pk nd = [w_b; w_a]).
Proof.
  split; [vm_compute; reflexivity|]. split; [vm_compute; reflexivity|]. split.
  - intros k [<-|[<-|[]]]; vm_compute; intuition discriminate.
  - eexists; eexists. split; vm_compute; reflexivity.
Qed.

(* a rename back to the original name is inside the class (repaired code: the guard compares with the current name) *)
Example C10_schema_rename_back_nonvacuous :
  let ops := [OAlterColumn w_a (mkAlter (Some w_a2) None None None); OAlterColumn w_a (mkAlter (Some w_a) None None None)] in
  forallb in_class ops = true /\ (exists T', edit_all ops w_tbl = BOk T') /\
  (exists nd cm, batch sa_tsort w_tbl ops = BOk (nd, cm) /\ map c_name (n_cols nd) = [w_id; w_a; w_b; w_c]).
Proof.
  split; [vm_compute; reflexivity|]. split; [eexists; vm_compute; reflexivity|]. eexists; eexists. split; vm_compute; reflexivity.
Qed.

(* a NAMED composite primary key declared against the column order: dropped by name it is gone (no PK at all, no unnamed one
   re-derived from the columns' flags); left alone it stays as it was *)
Definition nv_npk_tbl : tbl :=
  mkTbl [(w_id, mkCol w_id 0 false None); (w_a, mkCol w_a 0 false None); (w_b, mkCol w_b 2 true None); (w_c, mkCol w_c 0 true None)]
        [] [mkCon [112;107] KPrimary [w_a; w_id]; mkCon w_uqc KUnique [w_c]] [].
Example C10_schema_named_pk_nonvacuous :
  wf_tbl nv_npk_tbl = true /\
  (exists T' nd cm, edit_all [ODropConstraint [112;107]] nv_npk_tbl = BOk T' /\ batch sa_tsort nv_npk_tbl [ODropConstraint [112;107]] = BOk (nd, cm) /\
                    n_pk nd = [] /\ map k_name (n_cons nd) = [w_uqc]) /\
  (exists nd cm, batch sa_tsort nv_npk_tbl [ODropConstraint w_uqc] = BOk (nd, cm) /\ n_cons nd = [mkCon [112;107] KPrimary [w_a; w_id]]).
Proof.
  split; [vm_compute; reflexivity|]. split.
  - eexists; eexists; eexists. repeat split; vm_compute; reflexivity.
  - eexists; eexists. split; vm_compute; reflexivity.
Qed.

(* the main theorem's class is inhabited by a sequence touching every kind of element, with rows and a type change *)
Example C10_main_add_nonvacuous :
  let ops := [ODropConstraint w_uqc; ODropColumn w_c; OAddColumn w_z (mkCol w_z 2 true (Some [55])) None None;
              OAlterColumn w_z (mkAlter (Some [122; 122]) None (Some false) None); OAddConstraint (mkCon w_uqa KUnique [w_z]);
              OAlterColumn w_a (mkAlter None (Some 2) None None); OAddColumn [121] (mkCol [121] 0 true None) None None] in
  let i := mkIn10 w_tbl w_rows ops [(2, VInt 1, VText [49]); (2, VNull, VNull)] [([122; 122], VText [55])] true [] [] true [] false in
  inclass_C10 i = true /\ (exists nd rows, model10 i = OutOk nd rows false /\ map c_name (n_cols nd) = [w_id; w_a; w_b; [122; 122]; [121]]) /\
  check_C10 i (model10 i) = true.
Proof. split; [vm_compute; reflexivity|]. split; [eexists; eexists; split; vm_compute; reflexivity|vm_compute; reflexivity]. Qed.

(* ... and by insert_before / insert_after next to renames, drops and a second column for the same gap *)
Example C10_main_placed_nonvacuous :
  let ops := [OAddColumn w_z (mkCol w_z 2 true None) (Some w_b) None; OAlterColumn w_b (mkAlter (Some [113]) None None None);
              OAddColumn [121] (mkCol [121] 0 true None) None (Some w_a); OAddColumn [120] (mkCol [120] 0 true None) None (Some w_a);
              ODropConstraint w_uqc; ODropColumn w_c; OAddColumn [119] (mkCol [119] 0 true None) None None] in
  let i := mkIn10 w_tbl w_rows ops [] [] true [] [] true [] false in
  inclass_C10 i = true /\ inclass_C10_plain i = false /\
  (exists nd rows, model10 i = OutOk nd rows false /\ map c_name (n_cols nd) = [w_id; w_a; w_z; [121]; [120]; [113]; [119]]) /\
  check_C10 i (model10 i) = true.
Proof. split; [vm_compute; reflexivity|]. split; [vm_compute; reflexivity|]. split; [eexists; eexists; split; vm_compute; reflexivity|vm_compute; reflexivity]. Qed.

(* a partial UNIQUE index (CREATE UNIQUE INDEX ... WHERE ...) the batch does not mention is kept WITH its predicate: inside the
   class, and the decider rejects the same output with the predicate gone *)
Example C10_partial_index_kept_nonvacuous :
  let ux := mkIndex [117;120] [w_a] true (Some (7%N, [w_c])) in
  let T := mkTbl (tb_cols w_tbl) (tb_pk w_tbl) [] [ux] in
  let i := mkIn10 T w_rows [OAlterColumn w_b (mkAlter (Some [113]) None None None)] [] [] true [] [] true [] false in
  inclass_C10 i = true /\
  (exists nd rows, model10 i = OutOk nd rows false /\ n_idx nd = [ux] /\
     check_C10 i (OutOk (mkDesc (n_cols nd) (n_pk nd) (n_cons nd) [mkIndex [117;120] [w_a] true None]) rows false) = false) /\
  check_C10 i (model10 i) = true /\
  model10 (mkIn10 T w_rows [ODropColumn w_c] [] [] true [] [] true [] false) = OutErr EOperationalB.
Proof. split; [vm_compute; reflexivity|]. split; [eexists; eexists; split; [vm_compute; reflexivity|split; vm_compute; reflexivity]|]. split; vm_compute; reflexivity. Qed.

Example C10_main_nonvacuous :
  let i := mkIn10 w_tbl w_rows nv_ops [(2, VInt 1, VText [49]); (2, VNull, VNull)] [] true [] [] true [] false in
  inclass_C10 i = true /\ (exists nd rows, model10 i = OutOk nd rows false /\ length rows = 2%nat) /\ check_C10 i (model10 i) = true.
Proof. split; [vm_compute; reflexivity|]. split; [eexists; eexists; split; vm_compute; reflexivity|vm_compute; reflexivity]. Qed.

Example C10_schema_add_nonvacuous :
  let ops := [ODropColumn w_c; OAddColumn w_z (mkCol w_z 0 true None) None (Some w_a); OAlterColumn w_z (mkAlter None (Some 2) None None);
              OAddColumn [121] (mkCol [121] 0 true None) (Some w_z) None] in
  let T := mkTbl (tb_cols w_tbl) [w_id] [] [] in
  wf_tbl T = true /\ forallb in_class_a ops = true /\ (exists T1, edit_app_all ops T = BOk T1) /\
  (exists nd cm, batch sa_tsort T ops = BOk (nd, cm) /\ map c_name (n_cols nd) = [w_id; w_a; [121]; w_z; w_b]).
Proof.
  split; [vm_compute; reflexivity|]. split; [vm_compute; reflexivity|]. split; [eexists; vm_compute; reflexivity|].
  eexists; eexists. split; vm_compute; reflexivity.
Qed.
