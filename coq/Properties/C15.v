From AV Require Import Spec.C15.
Theorem C15_placeholder : True. Proof. exact I. Qed.
Print Assumptions C15_placeholder.
