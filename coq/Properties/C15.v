(* C15 — A revision history with a cycle is always rejected, an acyclic one never.
   Statement-only file: every theorem is closed by `exact` of a lemma in Proofs/CycleProof.v. *)
From AV Require Import Spec.C15 Proofs.CycleProof Model.Plan Spec.C01 Spec.C02 Proofs.PlanProof Proofs.C01Proof Proofs.C02Proof.

(* the model of RevisionMap._revision_map reports a cycle error exactly when the
   down_revision + depends_on links contain a directed cycle — for every graph, any size *)
Theorem C15_iff : forall G, wf_refs G -> (is_cycle_err (load G) = true <-> cyclic (all_down G)).
Proof. exact load_iff. Qed.
Print Assumptions C15_iff.

(* it never hangs and never fails in another way: no fuel exhaustion on any graph, cyclic or not *)
Theorem C15_total : forall G, wf_refs G -> load G <> LoadErr EFuel /\ load G <> LoadErr EOther.
Proof. exact load_total. Qed.
Print Assumptions C15_total.

(* for an accepted history heads/bases/_real_heads/_real_bases are the graph-theoretic ones *)
Theorem C15_heads_bases : forall G l, load G = Loaded l ->
    (forall x, In x (l_heads l) <-> In x (ids G) /\ no_child r_down G x) /\
    (forall x, In x (l_real_heads l) <-> In x (ids G) /\ no_child all_down_r G x) /\
    (forall x, In x (l_bases l) <-> exists r, In r G /\ r_id r = x /\ r_down r = []) /\
    (forall x, In x (l_real_bases l) <-> exists r, In r G /\ r_id r = x /\ r_down r = [] /\ r_deps r = []).
Proof. exact load_heads_bases. Qed.
Print Assumptions C15_heads_bases.

(* the full property for the model *)
Theorem C15_model_holds : forall G, wf_refs G -> C15_holds G (load G).
Proof. exact CycleProof.model_holds. Qed.
Print Assumptions C15_model_holds.

(* the boolean decider applied to the implementation's output implies the Prop-level property *)
Theorem C15_decider_sound : forall G out, wf_refs G -> check_C15g G out = true -> C15_holds G out.
Proof. exact CycleProof.decider_sound. Qed.
Print Assumptions C15_decider_sound.

(* the same with depends_on as written in the files (ids or branch labels): load_raw = load after resolution *)
Theorem C15_raw : forall R, wf_refs (resolve_graph R) ->
  C15_holds (resolve_graph R) (load_raw R) /\
  (forall out, check_C15 R out = true -> C15_holds (resolve_graph R) out).
Proof. intros R WF. split; [apply raw_model_holds; auto|]. intros out H. apply CycleProof.decider_sound; auto. Qed.
Print Assumptions C15_raw.

(* the elimination loop alone decides acyclicity of any parent function closed in the graph *)
Theorem C15_kahn_iff : forall f G, NoDup (ids G) -> (forall r, In r G -> incl (f r) (ids G)) ->
  (kahn f G = Some [] <-> ~ cyclic (of_rev f G)).
Proof. exact kahn_iff. Qed.
Print Assumptions C15_kahn_iff.

(* every ancestor/descendant traversal terminates within its fuel on every history, cyclic or not *)
Theorem C15_traversal_total : forall G f targets, wf_refs G -> (f = r_down \/ f = all_down_r) ->
  reach_set (of_rev f G) G targets <> None /\ reach_set (children_by f G) G targets <> None.
Proof. exact traversal_total. Qed.
Print Assumptions C15_traversal_total.

(* on every ACCEPTED history the upgrade and downgrade planners terminate: they never run out of fuel
   (the topological sort always ends) and never trip `assert not todo` *)
Theorem C15_accepted_commands_terminate : forall G l, wf_refs G -> ndeps_ok G -> load G = Loaded l ->
  (forall T Cur, upgrade_plan G T Cur <> PErr PEFuel /\ upgrade_plan G T Cur <> PErr PEAssert) /\
  (forall t b Cur, downgrade_plan G t b Cur <> PErr PEFuel /\ downgrade_plan G t b Cur <> PErr PEAssert).
Proof. intros G l WF NOK E.
  assert (~ cyclic (all_down G)) as AC. { intros C. apply (load_iff G WF) in C. rewrite E in C. discriminate. }
  split.
  - intros T Cur. pose proof (upgrade_plan_result G WF AC NOK T Cur) as H.
    destruct (upgrade_plan G T Cur) as [p|e]; [split; discriminate|]. destruct e; try contradiction; split; discriminate.
  - intros t b Cur. pose proof (downgrade_plan_result G WF AC NOK DOther t b Cur eq_refl) as H.
    destruct (downgrade_plan G t b Cur) as [p|e]; [split; discriminate|]. destruct e; cbn [C02_holds] in H; destruct H as [_ H]; try contradiction; split; discriminate.
Qed.
Print Assumptions C15_accepted_commands_terminate.

(* non-vacuity: a concrete cyclic history that the reachability checks alone accept
   (a:None, b:c, c:d, d:(a,c) — the design-time witness), and a concrete acyclic one *)
Definition witness_cyclic : graph := [mkRev 0 [] [] [] []; mkRev 1 [2] [] [] []; mkRev 2 [3] [] [] []; mkRev 3 [0;2] [] [] []]%N.
Example C15_nonvacuous_cyclic : wf_refsb witness_cyclic = true /\ load witness_cyclic = LoadErr ECycle
  /\ reach_check witness_cyclic (down witness_cyclic) (nextrev witness_cyclic) (heads_of witness_cyclic) (bases_of witness_cyclic) ECycle = None.
Proof. vm_compute. auto. Qed.
Definition witness_acyclic : graph := [mkRev 0 [] [] [] []; mkRev 1 [0] [] [] []; mkRev 2 [0] [1] [] []; mkRev 3 [1;2] [] [] []]%N.
Example C15_nonvacuous_acyclic : wf_refsb witness_acyclic = true /\ load witness_acyclic = Loaded (mkLoaded [3] [0] [3] [0])%N.
Proof. vm_compute. auto. Qed.
