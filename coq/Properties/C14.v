(* C14 — Emitted DDL quotes every identifier and honours the schema.  Statement-only file.
   Definitions: Model/Quote.v (quote, lex), Model/Visitors.v (visitor table, render, emit_stmt),
   Spec/C14.v (expected_tokens, C14_holds, check_C14, name_ok/env_ok, visitor_wf).  Proofs: Proofs/QuoteProof.v,
   Proofs/VisitorsProof.v, Proofs/C14Final.v. *)
From Coq Require Import List NArith Bool String.
From AV Require Import Spec.C14 Proofs.QuoteProof Proofs.VisitorsProof Proofs.C14Final Proofs.C14Inner.
Import ListNotations.
Open Scope N_scope.

(* ---- lexer round trips, for ALL strings and ALL quoting parameters ---- *)

(* a quoted (or legitimately bare) identifier followed by nothing or a separator reads back as that identifier *)
Theorem C14_quote_lex_roundtrip : forall q s t rest,
  qspec_wf q = true -> name_ok q s = true -> quote q s = Some t -> sep_ok q rest ->
  lex q (t ++ rest) = ident_token q s :: lex q rest.
Proof. exact quote_lex_roundtrip_proof. Qed.
Print Assumptions C14_quote_lex_roundtrip.

(* the same for quoted_name objects: quote=True is ALWAYS quoted and reads back as the quoted identifier; quote=False is
   emitted raw, which reads back as the name only if the name needs no quotes (that is what name_ok_f asks of it) *)
Theorem C14_quoted_name_roundtrip : forall q f s t rest,
  qspec_wf q = true -> name_ok_f q f s = true -> quote_f q f s = Some t -> sep_ok q rest ->
  lex q (t ++ rest) = ident_token_f q f s :: lex q rest.
Proof. intros q f s t rest W N Q S. exact (closed_then q t _ rest (quote_f_closed q f s t W N Q) S). Qed.
Print Assumptions C14_quoted_name_roundtrip.

Theorem C14_forced_flags : forall q s,
  quote_f q QTrue s = Some (quote_identifier q s) /\ quote_f q QFalse s = Some s /\ ident_token_f q QTrue s = QIdent s.
Proof. intros. repeat split. Qed.
Print Assumptions C14_forced_flags.

(* '...' with _sql_literal's doubling reads back as the literal of exactly that string *)
Theorem C14_strlit_roundtrip : forall q s rest,
  q_bslash q = false -> (q_open q =? 39) = false -> sep_ok q rest ->
  lex q (sql_string_literal s ++ rest) = SLit s :: lex q rest.
Proof. exact strlit_roundtrip_proof. Qed.
Print Assumptions C14_strlit_roundtrip.

(* format_table_name: the schema chain, dot separated, then the table *)
Theorem C14_format_table_roundtrip : forall q fn name fs sc t,
  qspec_wf q = true -> name_ok_f q fn name = true -> schema_ok q fs sc = true ->
  format_table_name q fn name fs sc = Some t ->
  lex q t = schema_tokens q fs sc ++ [ident_token_f q fn name].
Proof. intros q fn name fs sc t W N S F. now destruct (format_table_closed q fn name fs sc t W N S F). Qed.
Print Assumptions C14_format_table_roundtrip.

(* str.strip() of a lexically closed text whose tokens contain no stray non-ASCII white space changes no token *)
Theorem C14_strip_lex : forall q s, qspec_wf q = true ->
  pending (end_st q s) = true -> forallb tok_nospace (lex q s) = true ->
  lex q (strip s) = lex q s.
Proof. intros q s W P T. now destruct (strip_lex q s W P T). Qed.
Print Assumptions C14_strip_lex.

(* ---- decider ---- *)

Theorem C14_decider_sound : forall c o, check_C14 c o = true -> C14_case_holds c o.
Proof. exact decider_sound. Qed.
Print Assumptions C14_decider_sound.

(* ---- visitors ---- *)

(* for ANY well-formed list of pieces, any quoting parameters, any names of the class: the rendered statement reads
   back as exactly the expected tokens, is lexically closed, and contains no tab *)
Theorem C14_visitor_sound : forall q e v sql,
  visitor_wf q v = true -> env_ok q e = true -> sa_ok v e = true -> render q e v = ROk sql ->
  lex q sql = expected_tokens q e v /\ pending (end_st q sql) = true /\ notab sql = true
  /\ forallb tok_nospace (expected_tokens q e v) = true /\ raises v = false.
Proof. exact visitor_sound. Qed.
Print Assumptions C14_visitor_sound.

(* every (dialect, construct) visitor transcribed from alembic/ddl is well-formed (by computation on the table) *)
Theorem C14_wf_table : forall d c, visitor_wf (qspec_of d) (visitor d c) = true.
Proof. exact wf_table. Qed.
Print Assumptions C14_wf_table.

(* main theorem: on every dialect, for every construct, every schema and all names of the class, whatever the model
   emits — as compiled and as written by _exec in as_sql mode — reads back as the expected tokens *)
Theorem C14_main : forall d c e, env_ok (qspec_of d) e = true -> C14_holds (d, c, e) (emit_stmt (d, c, e)).
Proof. intros d c e E. exact (main_generic d c e (wf_table d c) E). Qed.
Print Assumptions C14_main.

(* the same without the `judged` guard of C14_holds: on the class where the statement is unconditional *)
Theorem C14_main_strict : forall d c e, env_ok (qspec_of d) e = true -> sa_ok (visitor d c) e = true ->
  C14_strict (d, c, e) (emit_stmt (d, c, e)).
Proof. intros d c e E SA. exact (main_strict d c e (wf_table d c) E SA). Qed.
Print Assumptions C14_main_strict.

(* sa_ok only ever speaks about the MySQL/MariaDB DROP CHECK visitor (the one that calls SQLAlchemy's format_table) *)
Theorem C14_sa_ok_trivial : forall d c e, uses_sa c = false -> sa_ok (visitor d c) e = true.
Proof. exact no_sa. Qed.
Print Assumptions C14_sa_ok_trivial.

Theorem C14_main_cases : forall c, inclass_C14 c = true -> C14_case_holds c (model_C14 c).
Proof. exact model_holds. Qed.
Print Assumptions C14_main_cases.

(* ... and it does emit when the visitor has no raise *)
Theorem C14_emits : forall d c e, env_ok (qspec_of d) e = true -> raises (visitor d c) = false ->
  exists sql, emit_stmt (d, c, e) = OutSql sql (offline d sql).
Proof.
  intros d c e E F. destruct (emits_generic (qspec_of d) e (visitor d c) E F) as [sql R].
  exists sql. unfold emit_stmt. now rewrite R.
Qed.
Print Assumptions C14_emits.

(* each piece of the visitor is found in the statement: every table reference with its schema chain, every column *)
Theorem C14_every_piece_reads_back : forall d c e sql off p,
  env_ok (qspec_of d) e = true -> sa_ok (visitor d c) e = true -> emit_stmt (d, c, e) = OutSql sql off ->
  In p (visitor d c) ->
  exists pre post, lex (qspec_of d) sql = pre ++ piece_tokens (qspec_of d) e p ++ post.
Proof. exact piece_read_back. Qed.
Print Assumptions C14_every_piece_reads_back.

Theorem C14_schema_qualifies_every_table : forall d c e sql off sch,
  env_ok (qspec_of d) e = true -> sa_ok (visitor d c) e = true -> emit_stmt (d, c, e) = OutSql sql off ->
  In (Tbl NTable sch) (visitor d c) ->
  exists pre post, lex (qspec_of d) sql =
    pre ++ (schema_tokens (qspec_of d) (sflag e) (e_schema e)
            ++ [ident_token_f (qspec_of d) (flag e NTable) (e_table e)]) ++ post.
Proof.
  intros d c e sql off sch E SA M I. destruct (piece_read_back d c e sql off _ E SA M I) as (pre & post & H).
  exists pre, post. rewrite H. cbn [piece_tokens]. unfold table_tokens. cbn [is_ref slot]. now rewrite orb_true_r.
Qed.
Print Assumptions C14_schema_qualifies_every_table.

(* a literal of a visitor that carries SQL (T-SQL exec('alter table ...'), sp_rename '<qualified name>' — every literal
   without a raw name): its content, which is the SLit token of the statement, reads as exactly the expected tokens too *)
Theorem C14_inner_sql_sound : forall d c e ps,
  In (StrLit ps) (visitor d c) -> is_data_literal ps = false -> env_ok (qspec_of d) e = true ->
  lex (qspec_of d) (concat (map (inner_expected (qspec_of d) e) ps)) = expected_tokens (qspec_of d) e (map as_piece ps).
Proof.
  intros d c e ps I D E. pose proof (literal_table d c _ I) as L. cbn [literal_ok] in L. rewrite D in L.
  exact (inner_sql_sound _ e ps L E).
Qed.
Print Assumptions C14_inner_sql_sound.

(* ---- operations: the impl-level dispatch (DefaultImpl / MySQLImpl / MSSQLImpl / PostgresqlImpl .alter_column,
   add_column, drop_column incl. mssql_drop_*, rename_table) ---- *)

(* every construct the dispatch builds carries the operation's table, column, schema and new names *)
Theorem C14_plan_carries_names : forall n d o, Forall (step_carries n) (plan n d o).
Proof. exact plan_carries. Qed.
Print Assumptions C14_plan_carries_names.

(* hence every statement an operation emits reads back as expected for the names and the schema OF THE OPERATION *)
Theorem C14_op_main : forall d o n opqs,
  forallb (fun opq => env_ok (qspec_of d) (op_env n opq)) ([] :: opqs) = true ->
  steps_hold d n opqs (fst (run_op d o n opqs)).
Proof. intros d o n opqs E. exact (run_plan_holds d n (plan n d o) (plan_carries n d o) opqs E). Qed.
Print Assumptions C14_op_main.

(* exact agreement with the model transfers the theorem to the observed output *)
Theorem C14_corr_transfers : forall d k e out, corr_C14 (CaseStmt d k e) (ObsStmt out) = true ->
  env_ok (qspec_of d) e = true -> C14_holds (d, k, e) out.
Proof.
  intros d k e out H E. apply corr_is_model in H. subst out. exact (main_generic d k e (wf_table d k) E).
Qed.
Print Assumptions C14_corr_transfers.

(* ---- what is false of the faithful model: the three excluded name classes ---- *)

(* '%' in a name on a format/pyformat dialect: _escape_identifier doubles it, the statement names "a%%b" *)
Theorem C14_refuted_percent : exists i, ~ C14_holds i (emit_stmt i).
Proof. exists w_pct. exact (refuted w_pct w_pct_fails). Qed.
Print Assumptions C14_refuted_percent.

(* a tab in a name: _exec's .replace("\t", "    ") rewrites the identifier in as_sql mode *)
Theorem C14_refuted_tab : exists i, ~ C14_holds i (emit_stmt i).
Proof. exists w_tab. exact (refuted w_tab w_tab_fails). Qed.
Print Assumptions C14_refuted_tab.

(* a trailing newline: legal_characters' `$` matches before it, the (reserved) word is emitted bare *)
Theorem C14_refuted_trailing_newline : exists i, ~ C14_holds i (emit_stmt i).
Proof. exists w_nl. exact (refuted w_nl w_nl_fails). Qed.
Print Assumptions C14_refuted_trailing_newline.

(* ---- what delimits the class: two kinds of input the property does not judge (NOT refutations of the property; the
   model and the exact comparison still cover them, C14_holds is vacuous there) ---- *)

(* quoted_name(name, quote=False) with a name that needs quotes: the caller's explicit opt-out, emitted raw *)
Theorem C14_outside_forced_unquoted :
  exists i, judged i = false /\ ~ C14_strict i (emit_stmt i) /\ C14_holds i (emit_stmt i).
Proof. exists w_unq. exact (outside w_unq w_unq_outside). Qed.
Print Assumptions C14_outside_forced_unquoted.

(* MySQL DROP CHECK with a plain dotted schema: SQLAlchemy's format_table emits `db.sch`.t (one identifier), alembic's own
   helpers emit db.sch.t; MySQL has no three-part names and the property does not fix which reading is expected *)
Theorem C14_outside_sa_dotted_schema :
  exists i, judged i = false /\ ~ C14_strict i (emit_stmt i) /\ C14_holds i (emit_stmt i).
Proof. exists w_sa. exact (outside w_sa w_sa_outside). Qed.
Print Assumptions C14_outside_sa_dotted_schema.

(* the two visitors repaired by the "fix:" commits, as they were: not well-formed, with a failing witness *)
Theorem C14_old_oracle_comment_rejected :
  visitor_wf (qspec_of Oracle) old_oracle_column_comment = false /\
  env_ok (qspec_of Oracle) w_old_env = true /\
  exists sql, render (qspec_of Oracle) w_old_env old_oracle_column_comment = ROk sql /\
              lex (qspec_of Oracle) sql <> expected_tokens (qspec_of Oracle) w_old_env old_oracle_column_comment.
Proof. exact old_oracle_rejected. Qed.
Print Assumptions C14_old_oracle_comment_rejected.

Theorem C14_old_mssql_literal_rejected :
  visitor_wf (qspec_of Mssql) old_mssql_rename_table = false /\
  env_ok (qspec_of Mssql) w_old_env2 = true /\
  exists sql, render (qspec_of Mssql) w_old_env2 old_mssql_rename_table = ROk sql /\
              lex (qspec_of Mssql) sql <> expected_tokens (qspec_of Mssql) w_old_env2 old_mssql_rename_table.
Proof. exact old_mssql_rejected. Qed.
Print Assumptions C14_old_mssql_literal_rejected.

(* ---- non-vacuity: the hypotheses are satisfiable on non-trivial inputs and the model emits there ---- *)

Definition nv_env : env :=
  mkEnv (Some (s2l "My.sch x")) (s2l "it's ]a""b`") (s2l "New T") (s2l "select") (s2l "naive col")
        [s2l "VARCHAR(5)"; s2l "'x y'"; s2l "'c''m'"] (mkFlags Plain QTrue QNone Plain Plain).

Example C14_main_nonvacuous :
  forallb (fun d => env_ok (qspec_of d) nv_env) all_dialects = true /\
  (exists sql off, emit_stmt (Mssql, CMssqlDropConstraint, nv_env) = OutSql sql off) /\
  (exists sql off, emit_stmt (Mysql, CMysqlChange true true true true, nv_env) = OutSql sql off) /\
  (exists sql off, emit_stmt (Oracle, CColumnComment true, nv_env) = OutSql sql off) /\
  (exists sql off, emit_stmt (Postgresql, CPgColumnType false, nv_env) = OutSql sql off).
Proof. split; [vm_compute; reflexivity|]. repeat split; eexists; eexists; vm_compute; reflexivity. Qed.

Example C14_quote_roundtrip_nonvacuous :
  qspec_wf (qspec_of Mssql) = true /\ name_ok (qspec_of Mssql) (s2l "a]b c") = true /\
  quote (qspec_of Mssql) (s2l "a]b c") = Some (s2l "[a]]b c]") /\ sep_ok (qspec_of Mssql) (s2l ", x").
Proof. repeat split; try (vm_compute; reflexivity). right. vm_compute. reflexivity. Qed.

Example C14_strlit_roundtrip_nonvacuous :
  q_bslash (qspec_of Mssql) = false /\ (q_open (qspec_of Mssql) =? 39) = false /\
  sql_string_literal (s2l "it's") = s2l "'it''s'".
Proof. repeat split; vm_compute; reflexivity. Qed.

Example C14_visitor_sound_nonvacuous :
  visitor_wf (qspec_of Mssql) (visitor Mssql CColumnName) = true /\ env_ok (qspec_of Mssql) nv_env = true /\
  exists sql, render (qspec_of Mssql) nv_env (visitor Mssql CColumnName) = ROk sql.
Proof. repeat split; try (vm_compute; reflexivity). eexists. vm_compute. reflexivity. Qed.

Example C14_inner_sql_nonvacuous :
  In (StrLit [IK "alter table "; (true, ITbl NTable true); IK " drop constraint "]) (visitor Mssql CMssqlDropFK) /\
  is_data_literal [IK "alter table "; (true, ITbl NTable true); IK " drop constraint "] = false /\
  lex (qspec_of Mssql) (concat (map (inner_expected (qspec_of Mssql) nv_env)
                                   [IK "alter table "; (true, ITbl NTable true); IK " drop constraint "]))
  = [Word (s2l "alter"); Word (s2l "table"); QIdent (s2l "My"); Punct 46; QIdent (s2l "sch x"); Punct 46;
     QIdent (s2l "it's ]a""b`"); Word (s2l "drop"); Word (s2l "constraint")].
Proof. split; [vm_compute; tauto|]. split; vm_compute; reflexivity. Qed.

Definition nv_names : names :=
  mkNames (Some (s2l "My.sch x")) (s2l "it's ]a""b`") (s2l "New T") (s2l "select") (s2l "naive col") no_flags.
Definition nv_req : areq := mkReq TFalse DSet true true DKeep TNone true TNone DSet false false false.

Example C14_op_main_nonvacuous :
  forallb (fun opq => env_ok (qspec_of Mssql) (op_env nv_names opq))
          [[]; [s2l "VARCHAR(5)"]; [s2l "sys.default_constraints"]; [s2l "'x y'"]; []] = true /\
  length (fst (run_op Mssql (OpAlterColumn nv_req) nv_names
                      [[s2l "VARCHAR(5)"]; [s2l "sys.default_constraints"]; [s2l "'x y'"]; []])) = 4%nat /\
  length (fst (run_op Mysql (OpAlterColumn nv_req) nv_names [[s2l "VARCHAR(5)"; s2l "'x y'"; s2l ""]])) = 1%nat.
Proof. repeat split; vm_compute; reflexivity. Qed.

Example C14_depth_nonvacuous :
  (* quoted_name flags, the MySQL/MariaDB DROP CHECK wrapper, the PostgreSQL alter-identity loop *)
  env_ok (qspec_of Mariadb) nv_env = true /\ sa_ok (visitor Mariadb CMysqlDropCheck) nv_env = false /\
  (let e := mkEnv (Some (s2l "My Schema")) (s2l "select") (s2l "n") (s2l "ck 1") (s2l "x") [] (mkFlags QTrue QFalse Plain QNone Plain) in
   env_ok (qspec_of Mariadb) e = false /\
   (let e' := mkEnv (Some (s2l "My.Schema")) (s2l "tbl") (s2l "n") (s2l "ck 1") (s2l "x") [] (mkFlags QTrue QFalse Plain QNone Plain) in
    env_ok (qspec_of Mariadb) e' = true /\ sa_ok (visitor Mariadb CMysqlDropCheck) e' = true /\
    exists sql off, emit_stmt (Mariadb, CMysqlDropCheck, e') = OutSql sql off)) /\
  (exists sql off, emit_stmt (Postgresql, CIdentityAlter [Some true; None; None],
                              mkEnv None (s2l "t") (s2l "n") (s2l "Col") (s2l "x") [s2l "START WITH 5"; s2l "CYCLE"] no_flags)
                   = OutSql sql off).
Proof. repeat split; try (vm_compute; reflexivity); eexists; eexists; vm_compute; reflexivity. Qed.

Example C14_strip_lex_nonvacuous :
  pending (end_st (qspec_of Postgresql) (s2l "ALTER TABLE t ALTER COLUMN c TYPE INTEGER ")) = true /\
  forallb tok_nospace (lex (qspec_of Postgresql) (s2l "ALTER TABLE t ALTER COLUMN c TYPE INTEGER ")) = true.
Proof. split; vm_compute; reflexivity. Qed.
