(* C05 — Stamp moves only the branches that share lineage with the target.  Statements only. *)
From AV Require Import Model.Heads Model.Stamp Spec.C03 Spec.C05 Proofs.C03Graph Proofs.HeadsProof Proofs.StampProof.

Theorem C05_decider_sound : forall i o, check_C05 i o = true -> C05_holds i o.
Proof. exact decider_sound5. Qed.
Print Assumptions C05_decider_sound.

(* a single target, from every duplicate-free antichain state, with or without --purge: no error, every DELETE/UPDATE
   matches one row, rows' == (H \ lineage(t)) U {t}, duplicate-free, an antichain *)
Theorem C05_single_target : forall G purge t H, ~ cyclic (all_down G) -> ndeps_okb G = true ->
  C05_holds (G, purge, TIds [t], H) (model_C05 (G, purge, TIds [t], H)).
Proof. exact single_target. Qed.
Print Assumptions C05_single_target.

Theorem C05_base : forall G purge H, ~ cyclic (all_down G) -> ndeps_okb G = true ->
  C05_holds (G, purge, TBase, H) (model_C05 (G, purge, TBase, H)).
Proof. exact base_target. Qed.
Print Assumptions C05_base.

Theorem C05_purge : forall G t H, stamp G true t H = stamp G false t [].
Proof. exact purge_is_empty_start. Qed.
Print Assumptions C05_purge.

(* several targets: the full statement is FALSE of the faithful model (and of the real code): `stamp heads` from rows {a,d}
   on  c base; b<-c; a<-c; e<-a; d base depends_on c  deletes the unrelated row d *)
Theorem C05_multi_refuted : exists i, pre_C05 i = true /\ (let '(G, _, _, _) := i in ~ cyclic (all_down G) /\ ndeps_okb G = true) /\
  ~ C05_holds i (model_C05 i).
Proof. exact multi_refuted. Qed.
Print Assumptions C05_multi_refuted.

(* the full statement with the excluding hypothesis: AT MOST ONE of the targets shares lineage with a row of the table, or the
   targets that do are rows themselves (any number of targets; single id, `base`, --purge, `heads` when at most one branch is
   affected are inside).  inclass_C05 is the boolean class predicate; its negation is the class of the known finding.
   The class cannot be widened to "lineages with the rows pairwise disjoint": C05_multi_refuted's input has that property. *)
Theorem C05_multi_partial : forall G (purge:bool) t (H:list N), ~ cyclic (all_down G) -> ndeps_okb G = true ->
  (forall t1 t2, In t1 (targets_of t) -> In t2 (targets_of t) ->
     rel G (if purge then [] else H) t1 -> rel G (if purge then [] else H) t2 ->
     t1 = t2 \/ (In t1 (if purge then [] else H) /\ In t2 (if purge then [] else H))) ->
  C05_holds (G, purge, t, H) (model_C05 (G, purge, t, H)).
Proof. exact one_related_target. Qed.
Print Assumptions C05_multi_partial.

Theorem C05_multi_partial_class : forall i, inclass_C05 i = true ->
  (let '(G, _, _, _) := i in ~ cyclic (all_down G) /\ ndeps_okb G = true) -> C05_holds i (model_C05 i).
Proof. exact inclass_holds. Qed.
Print Assumptions C05_multi_partial_class.

(* ---------- command.stamp end to end (committed rows read by a fresh connection) ---------- *)
(* the decider the engine applies (either kind of case) is sound *)
Theorem C05_any_decider_sound : forall i o, check_C05_any i o = true -> C05_any_holds i o.
Proof. exact any_decider_sound. Qed.
Print Assumptions C05_any_decider_sound.

Theorem C05_e2e_single : forall G purge t H, ~ cyclic (all_down G) -> ndeps_okb G = true ->
  E2E_holds (G, purge, [[t]], Some [t], H) (model_e2e (G, purge, [[t]], Some [t], H)).
Proof. exact e2e_single. Qed.
Print Assumptions C05_e2e_single.

Theorem C05_e2e_base : forall G purge H, ~ cyclic (all_down G) -> ndeps_okb G = true ->
  E2E_holds (G, purge, [[]], None, H) (model_e2e (G, purge, [[]], None, H)).
Proof. exact e2e_base. Qed.
Print Assumptions C05_e2e_base.

(* C05_purge end to end: with --purge the committed rows are exactly the target, whatever the table held before
   (rows that are not revisions of the history included) *)
Theorem C05_e2e_purge_any_table : forall G t H, ~ cyclic (all_down G) -> ndeps_okb G = true -> wf_refsb G = true -> In t (ids G) ->
  exists rws', model_e2e (G, true, [[t]], Some [t], H) = Ok rws' /\ forall x, In x rws' <-> x = t.
Proof. exact e2e_purge_any_table. Qed.
Print Assumptions C05_e2e_purge_any_table.

(* label@head: REFUTED — a row that shares lineage only with the revision carrying the label (not with the destination) is
   folded into the destination, while the same destination given by id leaves it alone (found by the end-to-end correspondence) *)
Theorem C05_label_head_refuted :
  pre_C05 (Gl, false, TIds [2]%N, [1;3]%N) = true /\ ~ cyclic (all_down Gl) /\ ndeps_okb Gl = true /\
  ~ E2E_holds il (model_e2e il) /\
  E2E_holds (Gl, false, [[2]]%N, Some [2]%N, [1;3]%N) (model_e2e (Gl, false, [[2]]%N, Some [2]%N, [1;3]%N)).
Proof. exact label_head_refuted. Qed.
Print Assumptions C05_label_head_refuted.

(* several targets that EACH share lineage with rows: the first StampStep folds all filtered rows into its destination, a later
   one finds its from_ rows gone and becomes an INSERT (should_create_branch) — right exactly when no such target is itself a
   row and every such target except the first in destination order has no row above it (is_upgrade).  This covers e.g. rows
   {c1,c2} stamped to (d1,d2) with d1 above c1, d2 above c2.  A later destination BELOW its rows raises KeyError
   (C05_multi_down_refuted), a destination that is itself a row is deleted (C05_multi_refuted): the class is tight. *)
Theorem C05_multi_partial_general : forall G (purge:bool) t (H:list N), ~ cyclic (all_down G) -> ndeps_okb G = true ->
  amo_class G (if purge then [] else H) (targets_of t) \/ up_class G (if purge then [] else H) (targets_of t) ->
  C05_holds (G, purge, t, H) (model_C05 (G, purge, t, H)).
Proof. exact multi_target_holds. Qed.
Print Assumptions C05_multi_partial_general.

(* both targets below their rows (rows {d1,d2} stamped to (c1,c2)): the second step raises KeyError; first above then below: same *)
Theorem C05_multi_down_refuted :
  pre_C05 (Ge, false, TIds [0;1]%N, [2;3]%N) = true /\
  model_C05 (Ge, false, TIds [0;1]%N, [2;3]%N) =
    Ok ([StampStep [2;3]%N [0]%N false false; StampStep [2;3]%N [1]%N false false], [ObsOk [0]%N [Del 2%N 1; Upd 3%N 0%N 1]; ObsErr EKey]) /\
  ~ C05_holds (Ge, false, TIds [0;1]%N, [2;3]%N) (model_C05 (Ge, false, TIds [0;1]%N, [2;3]%N)) /\
  model_C05 (Ge, false, TIds [3;0]%N, [2;1]%N) =
    Ok ([StampStep [1;2]%N [3]%N true false; StampStep [1;2]%N [0]%N false false], [ObsOk [3]%N [Del 1%N 1; Upd 2%N 3%N 1]; ObsErr EKey]).
Proof. split; [vm_compute; reflexivity|]. split; [vm_compute; reflexivity|]. split; [|vm_compute; reflexivity].
  intros Hh. destruct Hh as [steps [os [E [_ [F _]]]]]; [vm_compute; reflexivity|].
  assert (EM : model_C05 (Ge, false, TIds [0;1]%N, [2;3]%N) =
    Ok ([StampStep [2;3]%N [0]%N false false; StampStep [2;3]%N [1]%N false false], [ObsOk [0]%N [Del 2%N 1; Upd 3%N 0%N 1]; ObsErr EKey]))
    by (vm_compute; reflexivity).
  rewrite EM in E. inversion E; subst. inversion F as [|? ? _ F']; subst. inversion F' as [|? ? K _]; subst. exact K. Qed.
Print Assumptions C05_multi_down_refuted.

(* ---------- label targets (resolution inside the model: resolve_label) ---------- *)
(* <label>@base: exactly the rows sharing lineage with the revision that declares the label are deleted *)
Theorem C05_label_base : forall G purge lab H, ~ cyclic (all_down G) -> ndeps_okb G = true ->
  Label_holds (G, purge, LBase lab, H) (model_label (G, purge, LBase lab, H)).
Proof. exact label_base_holds. Qed.
Print Assumptions C05_label_base.

(* <label>@head resolving to the head h: the single-target statement for h, on the class where no row shares lineage with the
   labelled revision only; C05_label_head_refuted delimits the rest *)
Theorem C05_label_head_partial : forall G purge lab H lr h h', ~ cyclic (all_down G) -> ndeps_okb G = true ->
  resolve_label G (LHead lab) = Ok ([[lr; h]], Some [h']) ->
  (forall x, In x (e2e_start purge H) -> lineage G [lr] x -> lineage G [h] x) ->
  Label_holds (G, purge, LHead lab, H) (model_label (G, purge, LHead lab, H)).
Proof. exact label_head_holds. Qed.
Print Assumptions C05_label_head_partial.

(* ---------- partial ids as targets (resolution inside the model: resolve_partial) ---------- *)
(* a partial id that resolves to the revision t is stamped exactly as the full id t (and the statement holds for it) *)
Theorem C05_partial_single : forall G purge keys s t H, ~ cyclic (all_down G) -> ndeps_okb G = true ->
  resolve_partial keys s = Ok t ->
  Partial_holds (G, purge, keys, [s], H) (model_partial (G, purge, keys, [s], H)) /\
  model_partial (G, purge, keys, [s], H) = model_e2e (G, purge, [[t]], Some [t], H).
Proof. exact partial_single. Qed.
Print Assumptions C05_partial_single.

Theorem C05_resolve_partial_spec : forall keys s t, resolve_partial keys s = Ok t ->
  exists k, In (k, t) keys /\ startswith k s = true.
Proof. exact resolve_partial_spec. Qed.
Print Assumptions C05_resolve_partial_spec.

(* ---------- several databases in one run ---------- *)
(* every database gets the same command with the same options, independently: the result on database k is the
   single-database result for its own rows *)
Theorem C05_multi_db_pointwise : forall G purge groups dests dbs rs, stamp_multi G purge groups dests dbs = Ok rs ->
  length rs = length dbs /\
  forall k H, nth_error dbs k = Some H -> exists r, nth_error rs k = Some r /\ stamp_cmd G purge groups dests H = Ok r.
Proof. exact multi_is_pointwise. Qed.
Print Assumptions C05_multi_db_pointwise.

Theorem C05_multi_db_single : forall G purge t dbs, ~ cyclic (all_down G) -> ndeps_okb G = true ->
  Multi_holds (G, purge, [[t]], Some [t], dbs) (model_multi (G, purge, [[t]], Some [t], dbs)).
Proof. exact multi_holds_single. Qed.
Print Assumptions C05_multi_db_single.

Theorem C05_multi_db_base : forall G purge dbs, ~ cyclic (all_down G) -> ndeps_okb G = true ->
  Multi_holds (G, purge, [[]], None, dbs) (model_multi (G, purge, [[]], None, dbs)).
Proof. exact multi_holds_base. Qed.
Print Assumptions C05_multi_db_base.

(* ---------- non-vacuity ---------- *)
(* the three kinds of single-target stamp on the witness history: move a branch up (a -> e), a new branch (b), down (e -> c) *)
Example C05_single_nonvacuous :
  pre_C05 (Gw, false, TIds [3]%N, [2;4]%N) = true /\ ~ cyclic (all_down Gw) /\ ndeps_okb Gw = true /\
  model_C05 (Gw, false, TIds [3]%N, [2;4]%N) = Ok ([StampStep [2]%N [3]%N true false], [ObsOk [3;4]%N [Upd 2%N 3%N 1]]) /\
  model_C05 (Gw, false, TIds [1]%N, [2;4]%N) = Ok ([StampStep [] [1]%N true true], [ObsOk [2;4;1]%N [Ins 1%N]]) /\
  model_C05 (Gw, false, TIds [0]%N, [3;1]%N) = Ok ([StampStep [3;1]%N [0]%N false false], [ObsOk [0]%N [Del 3%N 1; Upd 1%N 0%N 1]]) /\
  pre_C05 (Gw, false, TIds [0]%N, [3;1]%N) = true.
Proof. split; [vm_compute; reflexivity|]. split; [apply (rankedb_acyclic Gw N.to_nat); vm_compute; reflexivity|].
  repeat split; vm_compute; reflexivity. Qed.
Example C05_base_nonvacuous :
  pre_C05 (Gw, false, TBase, [2;4]%N) = true /\
  model_C05 (Gw, false, TBase, [2;4]%N) =
    Ok ([StampStep [2]%N [] false true; StampStep [4]%N [] false true], [ObsOk [4]%N [Del 2%N 1]; ObsOk [] [Del 4%N 1]]) /\
  model_C05 (Gw, true, TIds [1]%N, [2;4]%N) = Ok ([StampStep [] [1]%N true true], [ObsOk [1]%N [Ins 1%N]]).
Proof. repeat split; vm_compute; reflexivity. Qed.
(* two targets of which one (e) shares lineage with a row and the other (b) starts a new branch; `stamp heads` when only
   one branch is behind; the refuted input is outside the class *)
Example C05_multi_partial_nonvacuous :
  inclass_C05 (Gw, false, TIds [1;3]%N, [2;4]%N) = true /\
  model_C05 (Gw, false, TIds [1;3]%N, [2;4]%N) =
    Ok ([StampStep [] [1]%N true true; StampStep [2]%N [3]%N true false], [ObsOk [2;4;1]%N [Ins 1%N]; ObsOk [3;4;1]%N [Upd 2%N 3%N 1]]) /\
  inclass_C05 (Gw, false, THeads [1;3;4]%N, [2]%N) = true /\
  inclass_C05 iw = false.
Proof. repeat split; vm_compute; reflexivity. Qed.
Example C05_e2e_nonvacuous :
  model_e2e (Gw, true, [[]], None, [99;2]%N) = Ok [] /\ pre_C05 (Gw, false, TBase, e2e_start true [99;2]%N) = true /\
  model_e2e (Gw, true, [[3]]%N, Some [3]%N, [99]%N) = Ok [3]%N /\
  model_e2e (Gw, false, [[3]]%N, Some [3]%N, [99]%N) = Err ECommand /\
  model_e2e (Gw, false, [[2;3]]%N, Some [3]%N, [2;4]%N) = Ok [3;4]%N.
Proof. repeat split; vm_compute; reflexivity. Qed.
Definition Gll : graph := [mkRev 0 [] [] [] [7]; mkRev 1 [0] [] [] []; mkRev 2 [1] [] [] []; mkRev 3 [] [0] [0] []]%N.
Example C05_label_nonvacuous :
  resolve_label Gll (LHead 7%N) = Ok ([[0;2]]%N, Some [2]%N) /\ resolve_label Gll (LBase 7%N) = Ok ([[0]]%N, None) /\
  model_label (Gll, false, LHead 7%N, [1]%N) = Ok [2]%N /\ label_class (Gll, false, LHead 7%N, [1]%N) = true /\
  model_label (Gll, false, LHead 7%N, [1;3]%N) = Ok [2]%N /\ label_class (Gll, false, LHead 7%N, [1;3]%N) = false /\
  model_label (Gll, false, LBase 7%N, [1;3]%N) = Ok [] /\ pre_C05 (Gll, false, TBase, [1;3]%N) = true /\
  inclass_C05 (Gw, false, TIds [2;4]%N, [2;4]%N) = true.
Proof. repeat split; vm_compute; reflexivity. Qed.
(* C05-e's shape: both targets above their own row: inside up_class, outside the old class, exact result {d1,d2};
   first below then above is inside as well *)
Example C05_multi_general_nonvacuous :
  inclass_C05 (Ge, false, TIds [2;3]%N, [0;1]%N) = false /\
  model_C05 (Ge, false, TIds [2;3]%N, [0;1]%N) =
    Ok ([StampStep [0;1]%N [2]%N true false; StampStep [0;1]%N [3]%N true false], [ObsOk [2]%N [Del 0%N 1; Upd 1%N 2%N 1]; ObsOk [2;3]%N [Ins 3%N]]) /\
  check_C05 (Ge, false, TIds [2;3]%N, [0;1]%N) (model_C05 (Ge, false, TIds [2;3]%N, [0;1]%N)) = true /\
  check_C05 (Ge, false, TIds [0;3]%N, [2;1]%N) (model_C05 (Ge, false, TIds [0;3]%N, [2;1]%N)) = true.
Proof. repeat split; vm_compute; reflexivity. Qed.
Example C05_up_class_nonvacuous :
  up_class Ge [0;1]%N [2;3]%N /\ ~ amo_class Ge [0;1]%N [2;3]%N /\ pre_C05 (Ge, false, TIds [2;3]%N, [0;1]%N) = true.
Proof.
  assert (BASE : forall h z, In h [0;1]%N -> path (all_down Ge) h z -> h = z).
  { intros h z Hh P. destruct P as [|x y z Hy _]; auto. exfalso. destruct Hh as [<-|[<-|[]]]; vm_compute in Hy; exact Hy. }
  split; [|split; [|vm_compute; reflexivity]].
  - split.
    + intros t Ht _ [E|[E|[]]]; subst t; destruct Ht as [E|[E|[]]]; discriminate.
    + intros pre t post E _ t' Ht' _ h Hh P. apply (BASE h t' Hh) in P. subst t'.
      assert (Hin : In h [2;3]%N) by (rewrite E; apply in_or_app; right; right; auto).
      destruct Hh as [<-|[<-|[]]]; destruct Hin as [E'|[E'|[]]]; discriminate.
  - intros A.
    assert (R2 : rel Ge [0;1]%N 2%N).
    { exists 0%N. split; [left; auto|]. left. apply (path_step _ 2%N 0%N 0%N); [vm_compute; auto|constructor]. }
    assert (R3 : rel Ge [0;1]%N 3%N).
    { exists 1%N. split; [right; left; auto|]. left. apply (path_step _ 3%N 1%N 1%N); [vm_compute; auto|constructor]. }
    destruct (A 2%N 3%N) as [E|[[E|[E|[]]] _]]; try discriminate; cbn; auto. Qed.
Definition keysw : list (str * N) := [([97;98;49;50;99], 0); ([97;98;49;50;101], 1); ([99;100;51;52], 3)]%N.   (* ab12c ab12e cd34 *)
Example C05_partial_multi_nonvacuous :
  resolve_partial keysw [99;100;51]%N = Ok 3%N /\ resolve_partial keysw [97;98;49;50]%N = Err ECommand /\
  resolve_partial keysw [97;98;49;50;101]%N = Ok 1%N /\ resolve_partial keysw [122;122]%N = Err ECommand /\
  model_partial (Gw, false, keysw, [[99;100;51]]%N, [2;4]%N) = Ok [3;4]%N /\
  model_multi (Gw, true, [[3]]%N, Some [3]%N, [[2;4]; [99]; []]%N) = Ok [[3]; [3]; [3]]%N /\
  all_in_domain Gw true (Some [3]%N) [[2;4]; [99]; []]%N = true /\
  model_multi (Gw, false, [[3]]%N, Some [3]%N, [[2;4]; [1]]%N) = Ok [[3;4]; [1;3]]%N.
Proof. repeat split; vm_compute; reflexivity. Qed.
