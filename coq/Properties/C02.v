From AV Require Import Spec.C02.
Theorem C02_placeholder : True. Proof. exact I. Qed.
Print Assumptions C02_placeholder.
