(* C02 — Downgrade plan removes exactly the applied dependents, children first.
   Statement-only file.  `input02 = (history, resolved target (None = base), branch revision, current rows)`. *)
From AV Require Import Spec.C02 Proofs.PlanProof Proofs.C01Proof Proofs.C02Proof.

(* the full property for the model, every well-formed acyclic history, every row set, every resolved target:
   a plan lists exactly the revisions that descend from (or depend on) the roots and are implied by the rows,
   each once, children first, never the target nor its prerequisites; an empty plan only when the database
   is at the target; refusal (RangeNotAncestorError) exactly for an empty set away from the target *)
Theorem C02_model_holds : forall G, wf_refs G -> ~ cyclic (all_down G) -> ndeps_ok G ->
  forall rq target branch Cur, ref_agrees02 G Cur rq target branch = true ->
  C02_holds (G, rq, target, branch, Cur) (downgrade_plan G target branch Cur).
Proof. exact downgrade_plan_result. Qed.
Print Assumptions C02_model_holds.

Theorem C02_plan_exact : forall G target branch Cur plan,
  wf_refs G -> ~ cyclic (all_down G) -> ndeps_ok G ->
  downgrade_plan G target branch Cur = POk plan ->
  let R := roots_of G target branch in
    NoDup plan /\
    (forall r, In r plan <-> DescOf G R r /\ AncOf G Cur r) /\
    (forall pre r post, plan = pre ++ r :: post ->
       forall c, AncOf G Cur c -> In r (all_down G c) -> In c pre) /\
    (forall t, target = Some t -> forall a, Anc G t a -> ~ In a plan) /\
    (plan = [] -> forall t, target = Some t -> In t Cur).
Proof. intros G target branch Cur plan WF AC NOK E. pose proof (downgrade_plan_result G WF AC NOK DOther target branch Cur eq_refl) as H.
  rewrite E in H. exact (proj2 H). Qed.
Print Assumptions C02_plan_exact.

(* never out of fuel, never `assert not todo`; the only refusals are the two documented ones, each with its reason *)
Theorem C02_total : forall G target branch Cur e,
  wf_refs G -> ~ cyclic (all_down G) -> ndeps_ok G ->
  downgrade_plan G target branch Cur = PErr e ->
  (e = PERange /\ exists t, target = Some t /\ ~ In t Cur /\
       forall r, ~ (DescOf G (roots_of G target branch) r /\ AncOf G Cur r))
  \/ (e = PERevision /\ roots_of G target branch = [] /\ branch <> None).
Proof. intros G target branch Cur e WF AC NOK E. pose proof (downgrade_plan_result G WF AC NOK DOther target branch Cur eq_refl) as H.
  rewrite E in H. destruct H as [_ H]. destruct e; try contradiction; [left|right]; auto. Qed.
Print Assumptions C02_total.

Theorem C02_decider_sound : forall G, wf_refs G -> ~ cyclic (all_down G) ->
  forall rq target branch Cur out,
  check_C02 (G, rq, target, branch, Cur) out = true -> C02_holds (G, rq, target, branch, Cur) out.
Proof. exact decider_sound. Qed.
Print Assumptions C02_decider_sound.

(* non-vacuity: branch point 0 with children 1 and 2, merge 3 of (1,2), second root 4, 5 on 4 depending on 3 *)
Definition ex_G : graph :=
  [mkRev 0 [] [] [] []; mkRev 1 [0] [] [] []; mkRev 2 [0] [] [] []; mkRev 3 [1;2] [] [] [];
   mkRev 4 [] [] [] []; mkRev 5 [4] [3] [3] []]%N.
Example C02_nonvacuous : wf_graphb ex_G = true
  /\ downgrade_plan ex_G (Some 1)%N None [5]%N = POk [5; 3]%N
  /\ check_C02 (ex_G, DId 1, Some 1, None, [5])%N (POk [5; 3]%N) = true
  /\ downgrade_plan ex_G (Some 5)%N None [3]%N = PErr PERange
  /\ ref_down ex_G [5]%N (DRelCur 1) = R2Ok (Some 4)%N (Some 5)%N /\ ref_down ex_G [3]%N (DRelCur 1) = R2Error
  /\ ref_down ex_G [2]%N (DRelId 1 2) = R2Ok None None.
Proof. vm_compute. auto 10. Qed.

(* `downgrade base`: the roots are all bases and every revision descends from a base, so the plan is
   exactly everything that is applied — the whole applied set is removed *)
Theorem C02_downgrade_base_removes_all : forall G Cur plan,
  wf_refs G -> ~ cyclic (all_down G) -> ndeps_ok G ->
  downgrade_plan G None None Cur = POk plan -> incl Cur (ids G) ->
  forall x, In x plan <-> AncOf G Cur x.
Proof. intros G Cur plan WF AC NOK E HC x.
  destruct (C02_plan_exact G None None Cur plan WF AC NOK E) as [_ [Hmem _]].
  rewrite Hmem. cbn [roots_of roots0_of]. split; [tauto|]. intros A. split; auto.
  apply every_revision_above_a_base; auto.
  destruct A as [c [Hc P]]. apply HC in Hc. unfold Anc in P. clear HC. induction P; auto.
  apply IHP. eapply all_down_closed; eauto. Qed.
Print Assumptions C02_downgrade_base_removes_all.

(* ---------- the whole command, end to end (Model.Command): the target exactly as typed is resolved (Model.Resolve, C16),
   planned (Model.Plan) and run step by step against the version table (Model.Heads, C03).  For every history, version
   table, and target string: whatever the resolution stage hands to the planner, the scripts that run are exactly the
   C02 plan in its order, and the table afterwards is exactly the heads of what is applied; a refused command
   runs nothing and leaves the table as it was. ---------- *)
From AV Require Import Spec.Command Proofs.CommandProof.
Theorem C02_whole_command_model : forall i, Cmd_holds i (run_command i).
Proof. exact CommandProof.model_holds. Qed.
Print Assumptions C02_whole_command_model.

Theorem C02_whole_command_decider_sound : forall i o, check_cmd i o = true -> Cmd_holds i o.
Proof. exact CommandProof.decider_sound. Qed.
Print Assumptions C02_whole_command_decider_sound.

(* a history with a cycle is refused by every command whatever the target (C15 inside the command), nothing runs *)
Theorem C02_cyclic_history_refused : forall i G0,
  has_colon (c_target i) = false -> intern0 (c_revs i) = Some G0 -> wf_refs G0 -> cyclic (all_down G0) ->
  run_command i = CFail R.CmdRevision [] (c_rows i).
Proof. exact CommandProof.cyclic_refused. Qed.
Print Assumptions C02_cyclic_history_refused.

Definition ex_cmd : cmd_in :=
  mkCmd [R.mkS [97;49;98;50;99]%N [] [] []; R.mkS [98;50;99;51;100]%N [[97;49;98;50;99]%N] [] [[108;97;98;48]%N]; R.mkS [99;51;100;52;101]%N [[97;49;98;50;99]%N] [] []; R.mkS [100;52;101;53;102]%N [[98;50;99;51;100]%N; [99;51;100;52;101]%N] [] []; R.mkS [101;53;102;54;97]%N [] [[98;50;99;51;100]%N] []]
        [([98;50;99;51;100]%N, [100;52;101;53;102]%N)] [] [[100;52;101;53;102]%N; [101;53;102;54;97]%N] false [99;51;100;52;101]%N.
Example C02_whole_command_nonvacuous : cmd_pre ex_cmd = true /\ run_command ex_cmd = COk [[100;52;101;53;102]%N] [[99;51;100;52;101]%N; [101;53;102;54;97]%N]
  /\ check_cmd ex_cmd (run_command ex_cmd) = true.
Proof. vm_compute. auto. Qed.
