(* C18 — Offline scripts frame transactions correctly for each dialect.   Statement-only file. *)
From AV Require Import Spec.C18 Proofs.OfflineProof Gen.DialectTables Model.C18Replay Proofs.C18ReplayProof.

(* the decider applied to the implementation's output is sound for the property *)
Theorem C18_decider_sound : forall i o, check_C18 i o = true -> C18_holds i o.
Proof. exact check_C18_sound. Qed.
Print Assumptions C18_decider_sound.

(* main theorem: for every well-formed dialect entry, every setting and every step list (any length, any bodies,
   any autocommit sections) the modelled offline script satisfies the whole property *)
Theorem C18_main : forall d c r, table_wf d = true -> C18_holds (d, c, r) (offline_out d c r).
Proof. exact C18_main_thm. Qed.
Print Assumptions C18_main.

(* every begin marker is closed by exactly one commit marker and blocks do not nest: (BEGIN x* COMMIT | y)* *)
Theorem C18_grammar : forall d c r, table_wf d = true -> effective_tddl d c = true ->
  framed false (strip_sep (offline_events d c r)).
Proof. exact grammar_thm. Qed.
Print Assumptions C18_grammar.

(* one transaction per migration: a block never holds statements of two steps; the Running line, the statements and
   the version statements of a step without autocommit section share one block *)
Theorem C18_per_migration : forall d c r, table_wf d = true -> effective_tddl d c = true -> c_per_mig c = true ->
  let A := ann 0 false (strip_sep (offline_events d c r)) in
  (forall e e' b i i', In (e, b, i) A -> In (e', b, i') A -> i = true -> i' = true -> step_of e = step_of e') /\
  (forall j s, nth_error (r_steps r) j = Some s -> no_auto s = true ->
     forall e e' b b' i i', In (e, b, i) A -> In (e', b', i') A ->
       step_of e = Some (N.of_nat j) -> step_of e' = Some (N.of_nat j) -> b = b' /\ i = true /\ i' = true).
Proof. exact per_migration_thm. Qed.
Print Assumptions C18_per_migration.

(* otherwise one block encloses the whole run *)
Theorem C18_single_block : forall d c r, table_wf d = true -> effective_tddl d c = true -> c_per_mig c = false ->
  forallb no_auto (r_steps r) = true ->
  forall e e' b b' i i', In (e, b, i) (ann 0 false (strip_sep (offline_events d c r))) ->
    In (e', b', i') (ann 0 false (strip_sep (offline_events d c r))) -> b = b' /\ i = true /\ i' = true.
Proof. exact single_block_thm. Qed.
Print Assumptions C18_single_block.

(* the statements of an autocommit section lie outside every block (everything else inside one), a block was closed
   before the section and another one is opened after it *)
Theorem C18_autocommit : forall d c r, table_wf d = true -> effective_tddl d c = true ->
  forall e b i, In (e, b, i) (ann 0 false (strip_sep (offline_events d c r))) ->
    i = negb (is_auto e) /\
    (is_auto e = true -> 1 <= b /\ b < count_begin (strip_sep (offline_events d c r))).
Proof. exact autocommit_thm. Qed.
Print Assumptions C18_autocommit.

(* without transactional DDL no transaction markers are emitted *)
Theorem C18_no_markers : forall d c r, table_wf d = true -> effective_tddl d c = false ->
  forall e, In e (offline_events d c r) -> is_marker e = false.
Proof. exact no_markers_thm. Qed.
Print Assumptions C18_no_markers.

(* the script is the run's statements, in order, plus markers and separators *)
Theorem C18_content : forall d c r, table_wf d = true -> filter content (offline_events d c r) = expected_content r.
Proof. exact content_thm. Qed.
Print Assumptions C18_content.

(* every class of the table regenerated from alembic/ddl/*.py resolves to a well-formed entry *)
Lemma C18_tables_wf : forallb table_wf_opt dialects = true.
Proof. vm_compute. reflexivity. Qed.
Print Assumptions C18_tables_wf.

(* hence the property holds of the model for every dialect alembic ships *)
Theorem C18_table : forall d c r, In (Some d) dialects -> C18_holds (d, c, r) (offline_out d c r).
Proof. exact (table_thm dialects C18_tables_wf). Qed.
Print Assumptions C18_table.

(* an offline script does not depend on whether the connection handed to context.configure() is in a transaction *)
Theorem C18_ignores_connection_state : forall d tddl pm b e r,
  offline_chunks d (mkOcfg tddl pm b e) r = offline_chunks d (mkOcfg tddl pm false e) r.
Proof. exact conn_state_thm. Qed.
Print Assumptions C18_ignores_connection_state.

(* the transactional_ddl override has the same effect through context.configure(transactional_ddl=x) and through
   EnvironmentContext(..., transactional_ddl=x); the argument of configure() wins over the keyword *)
Theorem C18_override_routes : forall d pm b x r,
  offline_chunks d (mkOcfg (Some x) pm b None) r = offline_chunks d (mkOcfg None pm b (Some x)) r /\
  (forall y, offline_chunks d (mkOcfg (Some x) pm b (Some y)) r = offline_chunks d (mkOcfg (Some x) pm b None) r).
Proof. exact override_routes_thm. Qed.
Print Assumptions C18_override_routes.

(* an offline run cut short by an exception (raised anywhere in the last step of r: between statements, inside an
   autocommit section, in a callback after the version statements): the script never has a nested BEGIN or an unmatched
   COMMIT — every BEGIN emitted before the failure is closed or is the last, still open, block — autocommit statements lie
   outside every block, all others inside one, and what was written is exactly what ran *)
Theorem C18_cut_short : forall d c r, table_wf d = true ->
  C18_cut_hold (effective_tddl d c) r (tokenize d (offline_chunks_cut d c r)).
Proof. exact cut_thm. Qed.
Print Assumptions C18_cut_short.

(* ONE statement of well-bracketedness, for every dialect entry, every setting and every plan length (with or without
   CREATE at base / DROP at base, start:end ranges, autocommit sections): with transactional DDL every BEGIN is closed by
   exactly one COMMIT and none is nested, every statement that is not in an autocommit section — in particular every
   version-table statement and the CREATE/DROP of the version table — lies inside a bracket, autocommit statements lie
   between two brackets; without transactional DDL there is no bracket at all *)
Theorem C18_well_bracketed : forall d c r, table_wf d = true ->
  let E := strip_sep (offline_events d c r) in
  (effective_tddl d c = true ->
     framed false E /\
     (forall e b i, In (e, b, i) (ann 0 false E) -> i = negb (is_auto e)) /\
     (forall e b i, In (e, b, i) (ann 0 false E) -> is_auto e = true -> 1 <= b /\ b < count_begin E)) /\
  (effective_tddl d c = false -> forall e, In e (offline_events d c r) -> is_marker e = false).
Proof. exact well_bracketed_thm. Qed.
Print Assumptions C18_well_bracketed.

(* replaying ANY well-bracketed script on a database with real transactional DDL executes each of its statements exactly
   once, in order, durably, and leaves no transaction open (den: what a statement does; arbitrary) *)
Theorem C18_replay_well_framed : forall den evs s, well_framed (strip_sep evs) ->
  replay den evs (mkDB s None) = mkDB (exec_all den (filter content evs) s) None.
Proof. exact replay_well_framed. Qed.
Print Assumptions C18_replay_well_framed.

(* and a script cut short by an exception loses and duplicates nothing either: only its last block is still open *)
Theorem C18_replay_cut : forall den evs s dp, run_depth false (strip_sep evs) = Some dp ->
  view (replay den evs (mkDB s None)) = exec_all den (filter content evs) s.
Proof. exact replay_cut. Qed.
Print Assumptions C18_replay_cut.

(* the script of a plan (each step: its migration body and its bookkeeping statements — the granularity of C12) replayed
   on a transactional database has the effect of the ONLINE run of the same plan (Model/Txn.v, any transaction setting):
   same schema effects, same version rows, nothing left pending *)
Theorem C18_replay_equals_online : forall d c plan d0 t p exc, table_wf d = true ->
  let script := offline_events d c (run_of plan (vrows d0)) in
  let D' := replay (den plan) script (mkDB d0 None) in
  let i := mkIn TxDDL t p false (steps_of plan) d0 exc in
  pending D' = None /\
  effs (committed D') = effs (o_db (txn_run i)) /\ vrows (committed D') = vrows (o_db (txn_run i)).
Proof. exact replay_equals_online. Qed.
Print Assumptions C18_replay_equals_online.

(* several databases configured through ONE EnvironmentContext (multidb env.py, --sql): the script of database k is the
   script of call k alone under the explicit transactional_ddl options given up to it (context_opts is one dict: an
   explicit override stays in force for later calls that give none); the dialects, runs and other settings of the other
   calls do not matter *)
Theorem C18_multi_db : forall calls env k c, nth_error calls k = Some c ->
  nth_error (multi_out env calls) k =
  Some (offline_out (dc_dialect c)
          (mkOcfg (acc_of env (map dc_tddl (firstn (S k) calls))) (dc_per_mig c) (dc_conn_in_txn c) None) (dc_run c)).
Proof. exact multi_nth_thm. Qed.
Print Assumptions C18_multi_db.
Theorem C18_multi_db_independent : forall calls calls' env k c,
  nth_error calls k = Some c -> nth_error calls' k = Some c ->
  map dc_tddl (firstn k calls) = map dc_tddl (firstn k calls') ->
  nth_error (multi_out env calls) k = nth_error (multi_out env calls') k.
Proof. exact multi_independent_thm. Qed.
Print Assumptions C18_multi_db_independent.

(* ---- non-vacuity: a transactional dialect of the table, two steps, the first with an autocommit section ---- *)
Definition ex_run : run := mkRun true [mkOstep [IStmt 0%N; IAuto [1%N]; IStmt 2%N] 1 false []; mkOstep [IStmt 0%N] 1 false []] false.
Example C18_grammar_nonvacuous :
  In (Some (dget 5)) dialects /\ table_wf (dget 5) = true /\ effective_tddl (dget 5) (mkOcfg None true true None) = true /\
  count_begin (offline_events (dget 5) (mkOcfg None true true None) ex_run) = 3%nat /\
  nth_error (r_steps ex_run) 1 = Some (mkOstep [IStmt 0%N] 1 false []) /\ no_auto (mkOstep [IStmt 0%N] 1 false []) = true.
Proof. vm_compute. repeat split; auto 10. Qed.
Example C18_single_block_nonvacuous :
  table_wf (dget 1) = true /\ effective_tddl (dget 1) (mkOcfg None false true None) = true /\
  forallb no_auto (r_steps (mkRun true [mkOstep [IStmt 0%N] 1 false []; mkOstep [IStmt 0%N] 2 true []] false)) = true /\
  count_begin (offline_events (dget 1) (mkOcfg None false true None) (mkRun true [mkOstep [IStmt 0%N] 1 false []; mkOstep [IStmt 0%N] 2 true []] false)) = 1%nat.
Proof. vm_compute. repeat split; auto. Qed.
Example C18_no_markers_nonvacuous :
  table_wf (dget 4) = true /\ effective_tddl (dget 4) (mkOcfg None true true None) = false /\
  length (offline_events (dget 4) (mkOcfg None true true None) ex_run) = 16%nat.
Proof. vm_compute. repeat split; auto. Qed.
Example C18_cut_short_nonvacuous :
  let r := mkRun true [mkOstep [IStmt 0%N] 1 false []; mkOstep [IStmt 0%N; IAuto [1%N]] 0 false []] true in
  table_wf (dget 5) = true /\ effective_tddl (dget 5) (mkOcfg None true false None) = true /\
  run_depth false (strip_sep (tokenize (dget 5) (offline_chunks_cut (dget 5) (mkOcfg None true false None) r))) = Some true /\
  count_begin (tokenize (dget 5) (offline_chunks_cut (dget 5) (mkOcfg None true false None) r)) = 3%nat.
Proof. vm_compute. repeat split. Qed.
