(* C11 — A failed batch recreate never loses the table's data.   Statements only; proofs in Proofs/BatchFailProof.v.

   Universe: every database `db` (finite map name -> definition, rows, indexes), every table name `t` present in it,
   every new definition `nd`, copy mapping `tr`, list of trailing indexes `ixs` (any length), every fault function
   `f : nat -> bool` (any set of statement positions made to raise, the handler's own DROP included), the three
   transaction behaviours `k`, a transaction already open or not (`pre`), and every way the transaction is ended `sc`
   (Alembic's own scope, caller commits, caller rolls back).  `run_batch` is the model of
   BatchOperationsImpl.flush / ApplyBatchImpl._create over the statement semantics of Model/BatchFail.v. *)
From AV Require Import Model.BatchFail Spec.C11 Proofs.BatchFailProof.

(* the decider applied to the implementation's observation is sound for the property *)
Theorem C11_decider_sound : forall i o, check_C11 i o = true -> C11_holds i o.
Proof. exact decider_sound. Qed.
Print Assumptions C11_decider_sound.

(* no row is ever lost: afterwards the original rows are under the original name with the original definition, or their
   copies are under the temporary name, or their copies are under the original name with the new definition *)
Theorem C11_no_row_lost : forall k pre db t nd tr ixs f inj sc T0, lookup t db = Some T0 ->
  let r := run_batch k pre db t nd tr ixs f inj sc in
  let tmp := calc_temp_name t in
  let img := map (copy_row tr) (t_rows T0) in
  (exists T, lookup t (r_final r) = Some T /\ t_def T = t_def T0 /\ t_rows T = t_rows T0) \/
  (exists T, lookup tmp (r_final r) = Some T /\ t_rows T = img) \/
  (exists T, lookup t (r_final r) = Some T /\ t_def T = nd /\ t_rows T = img).
Proof. intros k pre db t nd tr ixs f inj sc T0 H. exact (no_row_lost_lk k pre db t nd tr ixs f inj sc T0 H). Qed.
Print Assumptions C11_no_row_lost.

(* the same on the observable the harness compares (definition identity, rows as a multiset) *)
Theorem C11_no_row_lost_obs : forall i T0, lookup (i_t i) (i_db i) = Some T0 -> no_row_lost i (model_out i) T0.
Proof. exact no_row_lost_obs. Qed.
Print Assumptions C11_no_row_lost_obs.

(* a failure at or before the removal of the original (RENAME never sent): the original table is identical —
   definition, rows, indexes — for every kind and whatever the caller does with the transaction *)
Theorem C11_original_untouched : forall k pre db t nd tr ixs f inj sc T0, lookup t db = Some T0 ->
  let r := run_batch k pre db t nd tr ixs f inj sc in
  early (r_log r) = true -> lookup t (r_final r) = Some T0.
Proof. intros k pre db t nd tr ixs f inj sc T0 H. exact (original_untouched_lk k pre db t nd tr ixs f inj sc T0 H). Qed.
Print Assumptions C11_original_untouched.

(* ... and the temporary table is gone, on the class tmp_gone_class: real transactional DDL, or DDL that commits, or
   the stock sqlite3 driver when a transaction was open before / the INSERT..SELECT never reached the database /
   the transaction is committed *)
Theorem C11_tmp_gone_partial : forall k pre db t nd tr ixs f inj sc T0, lookup t db = Some T0 ->
  let r := run_batch k pre db t nd tr ixs f inj sc in
  let tmp := calc_temp_name t in
  early (r_log r) = true -> lookup tmp db = None -> handler_clean f tmp (r_log r) ->
  tmp_gone_class k pre f (eff_outcome sc (r_err r)) = true ->
  lookup tmp (r_final r) = None.
Proof. intros k pre db t nd tr ixs f inj sc T0 H. exact (tmp_gone_lk k pre db t nd tr ixs f inj sc T0 H). Qed.
Print Assumptions C11_tmp_gone_partial.

(* outside that class the full statement is false of the faithful model (closed witness: NULL in a column made NOT NULL) *)
Theorem C11_tmp_gone_refuted :
  exists i, inclass_C11 i = false /\ check_C11 i (model_out i) = false /\ ~ C11_holds i (model_out i).
Proof. exact tmp_gone_refuted. Qed.
Print Assumptions C11_tmp_gone_refuted.

(* ... and not only for the witness: on the whole complement class the empty temporary table is back after the rollback *)
Theorem C11_tmp_resurrected : forall k pre db t nd tr ixs f inj sc T0, lookup t db = Some T0 ->
  let r := run_batch k pre db t nd tr ixs f inj sc in
  let tmp := calc_temp_name t in
  k = Pysqlite -> pre = false -> copy_reached f = true -> eff_outcome sc (r_err r) = Rollback ->
  early (r_log r) = true -> lookup tmp db = None -> handler_clean f tmp (r_log r) ->
  lookup tmp (r_final r) = Some (mkTable nd [] []).
Proof. intros k pre db t nd tr ixs f inj sc T0 H. exact (tmp_resurrected_lk k pre db t nd tr ixs f inj sc T0 H). Qed.
Print Assumptions C11_tmp_resurrected.

(* a copy whose rows violate NOT NULL / UNIQUE / CHECK of the new definition, no fault injected: IntegrityError, exactly
   CREATE tmp; INSERT..SELECT; DROP tmp are sent, the failure is an early one, the original is identical *)
Theorem C11_natural_copy_failure : forall k pre db t nd tr ixs f inj sc T0, lookup t db = Some T0 ->
  let r := run_batch k pre db t nd tr ixs f inj sc in
  let tmp := calc_temp_name t in
  (forall n, f n = false) -> lookup tmp db = None -> violates nd [] (map (copy_row tr) (t_rows T0)) = true ->
  r_err r = Some EIntegrity /\ r_log r = [KCreate tmp; KCopy t tmp; KDrop tmp] /\ early (r_log r) = true /\
  lookup t (r_final r) = Some T0.
Proof. intros k pre db t nd tr ixs f inj sc T0 H. exact (natural_copy_failure_lk k pre db t nd tr ixs f inj sc T0 H). Qed.
Print Assumptions C11_natural_copy_failure.

(* no other table is ever touched, failing or not *)
Theorem C11_others_untouched : forall k pre db t nd tr ixs f inj sc n,
  n <> t -> n <> calc_temp_name t -> lookup n (r_final (run_batch k pre db t nd tr ixs f inj sc)) = lookup n db.
Proof. intros k pre db t nd tr ixs f inj sc. exact (others_untouched_lk k pre db t nd tr ixs f inj sc). Qed.
Print Assumptions C11_others_untouched.

(* inside one transaction a rollback restores the whole database, wherever the failure was *)
Theorem C11_txddl_rollback_restores : forall k pre db t nd tr ixs f inj sc,
  let r := run_batch k pre db t nd tr ixs f inj sc in
  k = TxDDL \/ (k = Pysqlite /\ pre = true) -> eff_outcome sc (r_err r) = Rollback -> r_final r = db.
Proof. intros k pre db t nd tr ixs f inj sc. exact (txddl_rollback_restores_lk k pre db t nd tr ixs f inj sc). Qed.
Print Assumptions C11_txddl_rollback_restores.

(* bare `except:` — the handler runs for every exception class: with the same statements hit, an injected Exception and an
   injected non-Exception BaseException (KeyboardInterrupt, SystemExit, CancelledError: `inj k = EInterrupt`) send the same
   statements and leave the same database, on the same connection and afterwards; only the class that propagates differs.
   (All the theorems above quantify over every `inj` as well.) *)
Theorem C11_exception_class_irrelevant : forall k pre db t nd tr ixs f inj inj' sc,
  let r := run_batch k pre db t nd tr ixs f inj sc in
  let r' := run_batch k pre db t nd tr ixs f inj' sc in
  r_log r = r_log r' /\ r_mid r = r_mid r' /\ r_final r = r_final r' /\ (r_err r = None <-> r_err r' = None).
Proof. exact exception_class_irrelevant. Qed.
Print Assumptions C11_exception_class_irrelevant.

(* the context options transactional_ddl (unset / True / False) and transaction_per_migration are never read by flush / _create: the modelled outcome
   is the same for all three (the correspondence checks that the real code agrees, for every kind, scope and fault) *)
Theorem C11_transactional_ddl_irrelevant : forall k pre db t nd tr ixs fl sc v1 v2 p1 p2,
  model_out (mkIn k pre db t nd tr ixs fl sc v1 p1) = model_out (mkIn k pre db t nd tr ixs fl sc v2 p2).
Proof. exact tddl_irrelevant. Qed.
Print Assumptions C11_transactional_ddl_irrelevant.

(* WHAT IS LEFT, per failure point: exactly one of CREATE tmp / INSERT..SELECT / DROP original / RENAME (positions 0..3)
   raises, nothing else fails (the copy itself satisfies the new constraints, the temporary name was free).  Then the pair
   (table under the original name, table under the temporary name) after the transaction is ended is `left_after`:
     0, 1 : original identical, no temporary table                                    — every kind, commit or rollback
     2    : original identical, no temporary table — except stock sqlite3, no transaction open before, rollback:
            the EMPTY temporary table is back (the registered deviation)
     3    : commit (or DDL that commits): the original is gone and EVERY row is, copied, under the temporary name;
            rollback inside one transaction: original identical, nothing else; rollback on the stock driver: original
            identical and the empty temporary table
   Never "data lost" (C11_no_row_lost covers positions >= 4 and every other fault pattern too). *)
Theorem C11_fault_table : forall k pre db t nd tr ixs f inj sc T0 pos, lookup t db = Some T0 ->
  let r := run_batch k pre db t nd tr ixs f inj sc in
  let tmp := calc_temp_name t in
  (pos <= 3)%nat -> (forall n, f n = Nat.eqb n pos) -> lookup tmp db = None ->
  violates nd [] (map (copy_row tr) (t_rows T0)) = false ->
  (lookup t (r_final r), lookup tmp (r_final r)) =
    left_after k pre (eff_outcome sc (r_err r)) pos T0 nd (map (copy_row tr) (t_rows T0)).
Proof. intros k pre db t nd tr ixs f inj sc T0 pos H. exact (fault_table_lk k pre db t nd tr ixs f inj sc T0 H pos). Qed.
Print Assumptions C11_fault_table.

(* the Python-level failure point of _create: `for idx in self._gather_indexes_from_both_tables()` is evaluated AFTER the
   rename and outside the try; an index of the batch on a column the new table does not have (dropped by the same batch, or
   never there: gather_ok = false) raises KeyError there, before any CREATE INDEX.  For every connection kind (the autocommit
   connection included), every way the transaction is ended: no handler runs, four statements were sent, and
     commit / autocommit / DDL that commits: the table is recreated under its own name with EVERY row (no index);
     rollback inside one transaction      : the original, identical, nothing else;
     rollback on the stock driver         : the original, identical, and the empty temporary table.
   Never "data lost": the rows are under the original name, or the original is back. *)
Theorem C11_gather_failure_point : forall k pre db t nd tr ixs f inj sc T0, lookup t db = Some T0 ->
  let r := run_batch k pre db t nd tr ixs f inj sc in
  let tmp := calc_temp_name t in
  gather_ok tr ixs = false -> (forall n, f n = false) -> lookup tmp db = None ->
  violates nd [] (map (copy_row tr) (t_rows T0)) = false ->
  r_err r = Some EPython /\ r_log r = [KCreate tmp; KCopy t tmp; KDrop t; KRename tmp t] /\
  (lookup t (r_final r), lookup tmp (r_final r)) =
    left_after_gather k pre (eff_outcome sc (r_err r)) T0 nd (map (copy_row tr) (t_rows T0)).
Proof. intros k pre db t nd tr ixs f inj sc T0 H. exact (gather_fault_lk k pre db t nd tr ixs f inj sc T0 H). Qed.
Print Assumptions C11_gather_failure_point.

(* the decider is exact: it accepts an observation iff the property holds of it *)
Theorem C11_decider_complete : forall i o, C11_holds i o -> check_C11 i o = true.
Proof. exact decider_complete. Qed.
Print Assumptions C11_decider_complete.

(* main theorem: on the proved class the model's output satisfies the property at full strength *)
Theorem C11_holds_partial : forall i, inclass_C11 i = true -> C11_holds i (model_out i).
Proof. exact holds_partial. Qed.
Print Assumptions C11_holds_partial.

(* ------------------------------------------------------------------ non-vacuity *)
(* a failing run with rows at stake: t(id,a,b), three rows, NULL in a, the batch makes a NOT NULL *)
Example C11_no_row_lost_nonvacuous :
  lookup wit_t wit_db <> None /\ r_err (model_res (wit OwnScope)) = Some EIntegrity /\ length wit_rows = 3%nat.
Proof. vm_compute. repeat split; congruence. Qed.

Example C11_tmp_gone_partial_nonvacuous :
  let i := wit (Caller Commit) in let r := model_res i in let tmp := calc_temp_name (i_t i) in
  early (r_log r) = true /\ lookup tmp (i_db i) = None /\ handler_clean (faults_of (i_faults i)) tmp (r_log r) /\
  tmp_gone_class (i_kind i) (i_pre i) (faults_of (i_faults i)) (eff_outcome (i_scope i) (r_err r)) = true.
Proof. repeat split; try (vm_compute; reflexivity); try (intros j _; reflexivity). Qed.

Example C11_tmp_resurrected_nonvacuous :
  let i := wit OwnScope in let r := model_res i in let tmp := calc_temp_name (i_t i) in
  i_kind i = Pysqlite /\ i_pre i = false /\ copy_reached (faults_of (i_faults i)) = true /\
  eff_outcome (i_scope i) (r_err r) = Rollback /\ early (r_log r) = true /\ lookup tmp (i_db i) = None /\
  handler_clean (faults_of (i_faults i)) tmp (r_log r).
Proof. repeat split; try (vm_compute; reflexivity); try (intros j _; reflexivity). Qed.

Example C11_natural_copy_failure_nonvacuous :
  let i := wit OwnScope in
  (forall n, faults_of (i_faults i) n = false) /\ lookup (calc_temp_name (i_t i)) (i_db i) = None /\
  violates (i_nd i) [] (map (copy_row (i_tr i)) wit_rows) = true.
Proof. repeat split; try (vm_compute; reflexivity). Qed.

Example C11_holds_partial_nonvacuous :
  let i := wit (Caller Commit) in inclass_C11 i = true /\ o_err (model_out i) <> None /\ lookup (i_t i) (i_db i) <> None.
Proof. vm_compute. repeat split; congruence. Qed.

Example C11_txddl_rollback_restores_nonvacuous :
  let i := mkIn TxDDL false wit_db wit_t (i_nd (wit OwnScope)) (i_tr (wit OwnScope)) [] [(3%nat, EInjected)] (Caller Rollback) None false in
  eff_outcome (i_scope i) (r_err (model_res i)) = Rollback /\ r_err (model_res i) <> None.
Proof. vm_compute. split; congruence. Qed.

(* an interrupt at DROP original under real transactional DDL with transactional_ddl=True, caller carries on and commits:
   in the class, the handler's DROP is sent, the temporary table is gone *)
Example C11_interrupt_nonvacuous :
  let i := mkIn TxDDL false wit_db wit_t (mkDef 11 [0%nat] [[0%nat]] []) [TCol 0; TCol 1; TCol 2] [] [(2%nat, EInterrupt)] (Caller Commit) (Some true) true in
  inclass_C11 i = true /\ r_err (model_res i) = Some EInterrupt /\
  r_log (model_res i) = [KCreate (calc_temp_name wit_t); KCopy wit_t (calc_temp_name wit_t); KDrop wit_t; KDrop (calc_temp_name wit_t)] /\
  lookup (calc_temp_name wit_t) (r_final (model_res i)) = None.
Proof. vm_compute. repeat split. Qed.

Example C11_gather_failure_point_nonvacuous :
  let nd := mkDef 11 [0%nat] [[0%nat]] [] in let tr := [TCol 0; TCol 1] in let ixs := [mkIdx [105%N;120%N] [2%nat] false] in
  gather_ok tr ixs = false /\ lookup (calc_temp_name wit_t) wit_db = None /\ violates nd [] (map (copy_row tr) wit_rows) = false /\
  (forall sc, r_err (run_batch AutoCommit false wit_db wit_t nd tr ixs (fun _ => false) (fun _ => EInjected) sc) = Some EPython) /\
  option_map t_rows (lookup wit_t (r_final (run_batch AutoCommit false wit_db wit_t nd tr ixs (fun _ => false) (fun _ => EInjected) OwnScope)))
    = Some (map (copy_row tr) wit_rows).
Proof.
  split; [vm_compute; reflexivity|]. split; [vm_compute; reflexivity|]. split; [vm_compute; reflexivity|].
  split; [intros [[]|]; vm_compute; reflexivity|vm_compute; reflexivity].
Qed.

Example C11_fault_table_nonvacuous :
  let nd := mkDef 11 [0%nat] [[0%nat]] [] in let tr := [TCol 0; TCol 1; TCol 2] in
  lookup wit_t wit_db <> None /\ lookup (calc_temp_name wit_t) wit_db = None /\ violates nd [] (map (copy_row tr) wit_rows) = false /\
  r_err (run_batch Pysqlite false wit_db wit_t nd tr [] (fun n => Nat.eqb n 2) (fun _ => EInjected) OwnScope) = Some EInjected.
Proof. vm_compute. repeat split; congruence. Qed.
