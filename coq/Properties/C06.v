(* C06 — Autogenerate is quiet on a matching database and converges in one pass.  Statements only.
   The full-strength statements (all server defaults) are FALSE of the faithful model and of the real code: SQLiteImpl.
   compare_server_default strips "(...)" from the metadata string before it strips quotes from the reflected literal, does not
   undo the doubling of quotes, and its .+ does not match an empty literal.  Hence the _refuted twins and the defaults_ok
   hypothesis (Schema.dflt_ok: no quote / double quote / parenthesis / newline inside; Python strings non-empty). *)
From AV Require Import Model.Schema Model.Diff Spec.C06 Proofs.SchemaProof Proofs.C06Proof.

(* comparing a database created from A with A reports nothing, for every compare_type / compare_server_default *)
Theorem C06_quiet_partial : forall g A, wf_schemab A = true -> defaults_ok A = true -> no_unnamed_uq A = true -> diff g (reflect_sqlite A) A = [].
Proof. exact diff_quiet. Qed.
Print Assumptions C06_quiet_partial.

(* applying the first comparison's operations to db(A) yields a database on which the second comparison is empty
   (A's own defaults are unrestricted: whatever they are, they are replaced or kept consistently) *)
Theorem C06_converge_partial : forall g A B, wf_schemab A = true -> wf_schemab B = true -> defaults_ok B = true -> fk_names_ok A B = true ->
  no_unnamed_uq B = true ->     (* "all constraints named": see C06_unnamed_uq_outside below for what happens otherwise *)
  diff g (reflect_sqlite (apply_ops (diff g (reflect_sqlite A) B) A)) B = [].
Proof. exact diff_converge_rendered. Qed.
Print Assumptions C06_converge_partial.

Open Scope N_scope.
(* witnesses: one table, one VARCHAR column whose server default is the Python string "(a)", resp. "", resp. "it's" *)
Definition bad_schema (s:list N) : schema :=
  [mkTable 0 [mkCol 0 (mkTy 0 []) false true None true; mkCol 1 (mkTy 3 [20]) true false (Some (DLit s)) true] [] [] []].
Definition bad_defaults : list (list N) := [[40;97;41]; []; [105;116;39;115]].
Theorem C06_quiet_refuted : exists g A, wf_schemab A = true /\ diff g (reflect_sqlite A) A <> [].
Proof. exists (mkCfg true true), (bad_schema [40;97;41]). split; [reflexivity|]. vm_compute. discriminate. Qed.
Print Assumptions C06_quiet_refuted.
Theorem C06_converge_refuted : exists g A B, wf_schemab A = true /\ wf_schemab B = true /\
  diff g (reflect_sqlite (apply_ops (diff g (reflect_sqlite A) B) A)) B <> [].
Proof. exists (mkCfg true true), (bad_schema [40;97;41]), (bad_schema [40;97;41]). split; [reflexivity|]. split; [reflexivity|].
  vm_compute. discriminate. Qed.
Print Assumptions C06_converge_refuted.
(* each of the three witness strings is outside dflt_ok and makes the comparison of a matching database non-empty *)
Example C06_refuted_class :
  forallb (fun s => negb (dflt_ok (DLit s)) && negb (is_nil (diff (mkCfg true true) (reflect_sqlite (bad_schema s)) (bad_schema s)))) bad_defaults = true.
Proof. vm_compute. reflexivity. Qed.

(* second refuted class: foreign keys are matched by signature only.  db: f10 = (c2)->t1(c0).  model: f16 = (c2)->t1(c0) (the same
   key under a new name) and a NEW key (c2,c1)->t1(c1,c0) that re-uses the name f10.  The comparison emits only create_foreign_key
   f10; batch mode keeps named constraints in a dict, so the new f10 replaces the old one and the second comparison asks for f16. *)
Definition fkname_A : schema :=
  [mkTable 1 [mkCol 0 (mkTy 0 []) false true None true; mkCol 1 (mkTy 0 []) true false None true; mkCol 2 (mkTy 0 []) true false None true] []
             [mkFk 10 [2] 1 [0] no_opts true] []].
Definition fkname_B : schema :=
  [mkTable 1 [mkCol 0 (mkTy 0 []) false true None true; mkCol 1 (mkTy 0 []) true false None true; mkCol 2 (mkTy 0 []) true false None true] []
             [mkFk 10 [2;1] 1 [1;0] no_opts true; mkFk 16 [2] 1 [0] no_opts true] []].
Theorem C06_converge_fkname_refuted : exists g A B, wf_schemab A = true /\ wf_schemab B = true /\ defaults_ok B = true /\
  diff g (reflect_sqlite (apply_ops (diff g (reflect_sqlite A) B) A)) B <> [].
Proof. exists (mkCfg true true), fkname_A, fkname_B. repeat (split; [reflexivity|]). vm_compute. discriminate. Qed.
Print Assumptions C06_converge_fkname_refuted.
Example C06_fkname_class : fk_names_ok fkname_A fkname_B = false.
Proof. vm_compute. reflexivity. Qed.

(* what happens outside "all constraints named" (both facts replayed on the real code):
   (a) an unnamed unique constraint that is only in the database is never dropped - the comparison is empty although database
       and model differ;
   (b) one pass is not enough when an unnamed model constraint's signature is carried by a NAMED database constraint that the
       same pass changes: db k1 = UNIQUE(c1); model k1 = UNIQUE(c2) plus an unnamed UNIQUE(c1).  First pass: drop k1, add k1(c2)
       (the unnamed one is "there", by signature); second pass: add the unnamed UNIQUE(c1). *)
Definition uq_cols := [mkCol 0 (mkTy 0 []) false true None true; mkCol 1 (mkTy 0 []) true false None true; mkCol 2 (mkTy 0 []) true false None true].
Example C06_unnamed_uq_outside :
  diff (mkCfg true true) (reflect_sqlite [mkTable 0 uq_cols [] [] [mkUuq 900 [1]]]) [mkTable 0 uq_cols [] [] []] = [] /\
  let A := [mkTable 0 uq_cols [Uq 1 [1]] [] []] in let B := [mkTable 0 uq_cols [Uq 1 [2]] [] [mkUuq 900 [1]]] in
  wf_schemab A = true /\ wf_schemab B = true /\
  diff (mkCfg true true) (reflect_sqlite (apply_ops (diff (mkCfg true true) (reflect_sqlite A) B) A)) B = [OpAddUUq 0 (mkUuq 900 [1])].
Proof. vm_compute. auto. Qed.

(* the decider applied to the implementation's outputs is sound for the property *)
Theorem C06_decider_sound : forall i o, check_C06 i o = true -> C06_holds i o.
Proof. exact check_C06_sound. Qed.
Print Assumptions C06_decider_sound.

(* the model of a whole case (4 settings, quiet + converge in both rendering modes) satisfies the property *)
Theorem C06_model_holds : forall i, inclass_C06 i = true -> C06_holds i (model_C06 i).
Proof. intros i H. apply inclass_C06_wf in H. destruct H as [? [? [? [? [? [? ?]]]]]]. apply model_C06_holds; auto. Qed.
Print Assumptions C06_model_holds.

(* the hypotheses are satisfiable by a pair on which the comparison has real work to do: a column changes nullability, type
   and server default, another gains a default, a unique constraint becomes a unique index, an index and a table are
   dropped, a table with an index and a two-column foreign key is created, a foreign key is dropped and a self-referential one added *)
Definition ex_A : schema :=
  [mkTable 0 [mkCol 0 (mkTy 0 []) false true None true; mkCol 1 (mkTy 3 [20]) true false (Some (DLit [53])) true;
              mkCol 2 (mkTy 5 [10;2]) true false None true; mkCol 4 (mkTy 0 []) true false (Some (DExpr [49;46;53])) true]
             [Uq 1 [1]; Ix 2 [2;1] false] [mkFk 0 [2] 0 [0] no_opts true] [];
   mkTable 1 [mkCol 0 (mkTy 0 []) false true None true] [] [] []].
Definition ex_B : schema :=
  [mkTable 0 [mkCol 0 (mkTy 0 []) false true None true; mkCol 1 (mkTy 4 []) false false (Some (DExpr [39;120;39])) true;
              mkCol 3 (mkTy 9 []) true false None true; mkCol 4 (mkTy 0 []) true false (Some (DExpr [40;49;46;53;41])) true]
             [Ix 1 [1] true] [mkFk 1 [3] 0 [0] (mkFkOpts None (Some [99;97;115;99;97;100;101]) (Some true) (Some [68;101;102;101;114;114;101;100])) true] [];
   mkTable 2 [mkCol 0 (mkTy 0 []) false true None true; mkCol 1 (mkTy 1 []) true false (Some (DLit [97;32;98])) true] [Uq 20 [1]; Ix 21 [1;0] false]
             [mkFk 20 [1;0] 0 [0;1] no_opts true] []].
Example C06_nonvacuous :
  inclass_C06 (ex_A, ex_B) = true /\ length (diff (mkCfg true true) (reflect_sqlite ex_A) ex_B) = 11%nat /\
  check_C06 (ex_A, ex_B) (model_C06 (ex_A, ex_B)) = true.
Proof. vm_compute. auto. Qed.
