(* C06 — Autogenerate is quiet on a matching database and converges in one pass.  Statements only. *)
From AV Require Import Model.Schema Model.Diff Spec.C06 Proofs.SchemaProof Proofs.C06Proof.

(* comparing a database created from A with A reports nothing, for every compare_type / compare_server_default *)
Theorem C06_quiet : forall g A, wf_schemab A = true -> diff g (reflect_sqlite A) A = [].
Proof. exact diff_quiet. Qed.
Print Assumptions C06_quiet.

(* applying the first comparison's operations to db(A) yields a database on which the second comparison is empty *)
Theorem C06_converge : forall g A B, wf_schemab A = true -> wf_schemab B = true ->
  diff g (reflect_sqlite (apply_ops (diff g (reflect_sqlite A) B) A)) B = [].
Proof. exact diff_converge. Qed.
Print Assumptions C06_converge.

(* the decider applied to the implementation's outputs is sound for the property *)
Theorem C06_decider_sound : forall i o, check_C06 i o = true -> C06_holds i o.
Proof. exact check_C06_sound. Qed.
Print Assumptions C06_decider_sound.

(* the model of a whole case (4 settings, quiet + converge in both rendering modes) satisfies the property *)
Theorem C06_model_holds : forall i, inclass_C06 i = true -> C06_holds i (model_C06 i).
Proof. intros i H. apply inclass_C06_wf in H. destruct H. apply model_C06_holds; auto. Qed.
Print Assumptions C06_model_holds.

(* the hypotheses are satisfiable by a pair on which the comparison has real work to do:
   a column changes nullability and type, a unique constraint becomes a unique index, an index and a table are
   dropped, a table with an index is created *)
Open Scope N_scope.
Definition ex_A : schema :=
  [mkTable 0 [mkCol 0 (mkTy 0 []) false true; mkCol 1 (mkTy 3 [20]) true false; mkCol 2 (mkTy 5 [10;2]) true false]
             [Uq 1 [1]; Ix 2 [2;1] false];
   mkTable 1 [mkCol 0 (mkTy 0 []) false true] []].
Definition ex_B : schema :=
  [mkTable 0 [mkCol 0 (mkTy 0 []) false true; mkCol 1 (mkTy 4 []) false false; mkCol 3 (mkTy 9 []) true false]
             [Ix 1 [1] true];
   mkTable 2 [mkCol 0 (mkTy 0 []) false true; mkCol 1 (mkTy 1 []) true false] [Uq 20 [1]; Ix 21 [1;0] false]].
Example C06_nonvacuous :
  inclass_C06 (ex_A, ex_B) = true /\ length (diff (mkCfg true true) (reflect_sqlite ex_A) ex_B) = 9%nat /\
  check_C06 (ex_A, ex_B) (model_C06 (ex_A, ex_B)) = true.
Proof. vm_compute. auto. Qed.
