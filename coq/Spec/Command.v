(* The whole `upgrade` / `downgrade` command (Model.Command): what must be true of what is OBSERVED of one command —
   the scripts that ran, in order, and the version table afterwards, or the exception class — stated with the
   property statements of C01 / C02 (the plan) and C03 (the version table), for the request the resolution stage
   (C16) hands to the planner.  Decider and exact comparison for the end-to-end correspondence. *)
From AV Require Export Spec.C01 Spec.C02.
From AV Require Export Model.Heads Model.Command.
From AV Require Spec.C03.
From Coq Require Import Permutation.

Definition names (H:list R.srev) (l:list N) : list str := map (name_of H) l.
Definition steps_of (up:bool) (plan:list N) : list step := map (fun r => RevStep r up) plan.

(* the same rows: every string occurs equally often *)
Definition count_s (x:str) (l:list str) : nat := length (filter (R.streqb x) l).
Definition same_rows (a b:list str) : Prop := forall x, count_s x a = count_s x b.
Definition unchanged (i:cmd_in) (ran rows:list str) : Prop := ran = [] /\ same_rows rows (c_rows i).

(* ---------- the domain: a history that loads into a well-formed acyclic graph, a version table that holds
   revision ids of it, duplicate-free, none an ancestor of another (what C03 maintains) ---------- *)
Definition graph_okb (G:graph) : bool := wf_graphb G && Spec.C03.ndeps_okb G.
Definition state_okb (G:graph) (rowsN:list N) : bool := Spec.C03.pre_C03 (G, rowsN, false, []).
Definition cmd_pre (i:cmd_in) : bool :=
  match resolve_cmd i with
  | RBad => false
  | RFail _ => true
  | RPlanUp G rowsN T L =>
      graph_okb G && state_okb G rowsN && list_eqb N.eqb L rowsN && subsetN T (ids G)
  | RPlanDown G rowsN target branch U =>
      graph_okb G && state_okb G rowsN && list_eqb N.eqb U rowsN && opt_in target (ids G) && opt_in branch (ids G)
  end.

(* ---------- the statement ---------- *)
Definition Cmd_holds (i:cmd_in) (o:cres) : Prop :=
  cmd_pre i = true ->
  match resolve_cmd i with
  | RBad => True
  | RFail e =>
      (* refused before planning: that error, nothing ran, the table is untouched *)
      match o with CFail e' ran rows => e' = e /\ unchanged i ran rows | COk _ _ => False end
  | RPlanUp G rowsN T L =>
      forall A0, Spec.C03.closure G rowsN = Some A0 ->
      match o with
      | COk ran rows =>
          exists plan rws, ran = names (c_revs i) plan /\ rows = names (c_revs i) rws /\
            (* C01: exactly the missing ancestors of the targets, once each, prerequisites first *)
            C01_holds (G, TOther, T, L) (POk plan) /\
            (* C03: the table is exactly the heads of everything applied now *)
            Spec.C03.rows_ok G (Spec.C03.ghost_steps (steps_of true plan) A0) rws
      | CFail e ran rows =>
          e = R.CmdRevision /\ C01_holds (G, TOther, T, L) (PErr PEOverlap) /\ unchanged i ran rows
      end
  | RPlanDown G rowsN target branch U =>
      forall A0, Spec.C03.closure G rowsN = Some A0 ->
      match o with
      | COk ran rows =>
          exists plan rws, ran = names (c_revs i) plan /\ rows = names (c_revs i) rws /\
            C02_holds (G, DOther, target, branch, U) (POk plan) /\
            Spec.C03.rows_ok G (Spec.C03.ghost_steps (steps_of false plan) A0) rws
      | CFail e ran rows =>
          ((e = R.CmdRange /\ C02_holds (G, DOther, target, branch, U) (PErr PERange)) \/
           (e = R.CmdRevision /\ C02_holds (G, DOther, target, branch, U) (PErr PERevision))) /\
          unchanged i ran rows
      end
  end.

(* ---------- decider ---------- *)
Definition same_rowsb (a b:list str) : bool :=
  forallb (fun x => Nat.eqb (count_s x a) (count_s x b)) (a ++ b).
Definition unchangedb (i:cmd_in) (ran rows:list str) : bool :=
  match ran with [] => same_rowsb rows (c_rows i) | _ => false end.
Definition closedb (G:graph) (A:list N) : bool := forallb (fun x => subsetN (all_down G x) A) A.

Definition check_cmd (i:cmd_in) (o:cres) : bool :=
  if negb (cmd_pre i) then true else
  match resolve_cmd i with
  | RBad => true
  | RFail e => match o with CFail e' ran rows => xerr_eqb e' e && unchangedb i ran rows | COk _ _ => false end
  | RPlanUp G rowsN T L =>
      match Spec.C03.closure G rowsN with
      | None => false
      | Some A0 =>
        match o with
        | COk ran rows =>
            match pos_list (c_revs i) ran, pos_list (c_revs i) rows with
            | Some plan, Some rws =>
                let A' := Spec.C03.ghost_steps (steps_of true plan) A0 in
                check_C01 (G, TOther, T, L) (POk plan) && closedb G A' && Spec.C03.rows_okb G A' rws
            | _, _ => false
            end
        | CFail e ran rows =>
            xerr_eqb e R.CmdRevision && check_C01 (G, TOther, T, L) (PErr PEOverlap) && unchangedb i ran rows
        end
      end
  | RPlanDown G rowsN target branch U =>
      match Spec.C03.closure G rowsN with
      | None => false
      | Some A0 =>
        match o with
        | COk ran rows =>
            match pos_list (c_revs i) ran, pos_list (c_revs i) rows with
            | Some plan, Some rws =>
                let A' := Spec.C03.ghost_steps (steps_of false plan) A0 in
                check_C02 (G, DOther, target, branch, U) (POk plan) && closedb G A' && Spec.C03.rows_okb G A' rws
            | _, _ => false
            end
        | CFail e ran rows =>
            ((xerr_eqb e R.CmdRange && check_C02 (G, DOther, target, branch, U) (PErr PERange)) ||
             (xerr_eqb e R.CmdRevision && check_C02 (G, DOther, target, branch, U) (PErr PERevision))) &&
            unchangedb i ran rows
        end
      end
  end.

(* ---------- exact correspondence ---------- *)
Definition corr_cmd (i:cmd_in) (o:cres) : bool := cres_eqb (run_command i) o.
(* the comparison is exact on EVERY input (also where the statement has nothing to say: an oracle that does not fit,
   a version table outside the domain): a disagreement anywhere is a broken tie *)
Definition inclass_cmd (i:cmd_in) : bool := true.

(* ---------- sequences of typed commands on one database ---------- *)
(* one case = the commands of a session, each with the rows it found and what was observed of it; the rows a command
   leaves are the rows the next one finds (same multiset) *)
Definition rows_after (o:cres) : list str := match o with COk _ r => r | CFail _ _ r => r end.
Fixpoint chained (l:list (cmd_in * cres)) : bool :=
  match l with
  | p :: ((q :: _) as rest) => same_rowsb (rows_after (snd p)) (c_rows (fst q)) && chained rest
  | _ => true
  end.
Definition corr_cmds (l:list (cmd_in * cres)) (_:unit) : bool := forallb (fun p => corr_cmd (fst p) (snd p)) l.
Definition check_cmds (l:list (cmd_in * cres)) (_:unit) : bool :=
  chained l && forallb (fun p => check_cmd (fst p) (snd p)) l.
Definition inclass_cmds (l:list (cmd_in * cres)) : bool := true.
Definition Cmds_hold (l:list (cmd_in * cres)) : Prop := Forall (fun p => Cmd_holds (fst p) (snd p)) l.

(* the model run as a session: every command finds the rows the previous one left *)
Definition with_rows (i:cmd_in) (rows:list str) : cmd_in :=
  mkCmd (c_revs i) (c_oracle i) (c_ndeps i) rows (c_up i) (c_target i).
Fixpoint run_session (rows:list str) (cmds:list cmd_in) : list (cmd_in * cres) :=
  match cmds with
  | [] => []
  | c :: rest => let i := with_rows c rows in let o := run_command i in (i, o) :: run_session (rows_after o) rest
  end.
