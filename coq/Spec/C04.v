(* C04 — "A failing migration never leaves the version table out of step": the property as a Prop over the database
   found by a fresh connection after the command, a boolean decider, and the exact model-vs-implementation comparison. *)
From AV Require Export Base.ListSet Model.Txn.

(* ------------------------------------------------------------------ reading a migration body *)
(* `ext`: the caller holds a transaction; autocommit_block then fails its assertion, i.e. the migration raises *)
Fixpoint autos_raise (xs:list aitem) : bool :=
  match xs with [] => false | ARaise :: _ => true | AStmt _ :: r => autos_raise r end.
Fixpoint items_raise (ext:bool) (items:list bitem) : bool :=
  match items with
  | [] => false
  | BRaise :: _ => true
  | BStmt _ :: r => items_raise ext r
  | BAuto xs :: r => ext || autos_raise xs || items_raise ext r
  | BTry _ :: r => items_raise ext r           (* whatever the section raises — the assertion under a caller-held
                                                   transaction included — is swallowed *)
  end.
(* the body gets as far as entering an autocommit section (which commits the transaction that precedes it) *)
Fixpoint enters_auto (ext:bool) (items:list bitem) : bool :=
  match items with
  | [] => false
  | BRaise :: _ => false
  | BStmt _ :: r => enters_auto ext r
  | BAuto _ :: _ => negb ext
  | BTry _ :: r => negb ext || enters_auto ext r
  end.
Definition step_raises (ext:bool) (sp:step) : bool := items_raise ext (s_body sp) || s_cb_raises sp.

(* the statements of an autocommit section that ran: those before its first raise *)
Fixpoint autos_run (xs:list aitem) : list stmt :=
  match xs with [] => [] | ARaise :: _ => [] | AStmt x :: r => x :: autos_run r end.
Definition try_free (items:list bitem) : bool := forallb (fun it => match it with BTry _ => false | _ => true end) items.

(* the statements of a body that returns (under a caller-held transaction a tolerated section does not run at all:
   see no_partial_commit) *)
Definition item_stmts (it:bitem) : list stmt :=
  match it with
  | BStmt x => [x]
  | BAuto xs => flat_map (fun a => match a with AStmt x => [x] | ARaise => [] end) xs
  | BRaise => []
  | BTry xs => autos_run xs
  end.
Definition body_stmts (items:list bitem) : list stmt := flat_map item_stmts items.

(* what the completed migrations imply *)
Definition body_effs (sp:step) (l:list N) : list N :=
  fold_left (fun l x => apply_eff (stmt_eff x) l) (body_stmts (s_body sp)) l.
Definition ver_rows (sp:step) (l:list N) : list N := fold_left (fun l v => apply_vop v l) (s_ver sp) l.
Definition effs_after (steps:list step) (l:list N) : list N := fold_left (fun l sp => body_effs sp l) steps l.
Definition rows_after (steps:list step) (l:list N) : list N := fold_left (fun l sp => ver_rows sp l) steps l.

(* index of the failing migration *)
Fixpoint fidx (ext:bool) (steps:list step) : option nat :=
  match steps with
  | [] => None
  | sp :: r => if step_raises ext sp then Some O else option_map S (fidx ext r)
  end.
Definition fail_index (i:input) : option nat := fidx (i_external i) (i_steps i).

(* one transaction encloses the whole run: the caller's, or the one env.py's begin_transaction() opens *)
Definition one_txn (i:input) : bool := i_external i || (i_tddl i && negb (i_per_mig i)).

(* With one enclosing transaction opened by Alembic, an autocommit section commits it (documented: "the database
   transaction preceding the block is unconditionally committed"): everything up to the migration that entered the
   section is then durable and recorded.  Index of the last migration, up to the failing one, that entered one. *)
Fixpoint last_autocommit (steps:list step) (idx acc:nat) : nat :=
  match steps with
  | [] => acc
  | sp :: r => let acc' := if enters_auto false (s_body sp) then idx else acc in
               if step_raises false sp then acc' else last_autocommit r (S idx) acc'
  end.

(* number of migrations of the run whose function returned and whose bookkeeping was committed *)
Definition committed_count (i:input) : nat :=
  match fail_index i with
  | None => length (i_steps i)
  | Some k => if i_external i then O
              else if i_tddl i && negb (i_per_mig i) then last_autocommit (i_steps i) O O
              else k
  end.

(* no autocommit section committed part of a migration that was not recorded: with one transaction per migration the
   failing migration entered none, with one enclosing transaction no migration up to the failing one did *)
Fixpoint none_enters (steps:list step) : bool :=       (* up to and including the first raising step *)
  match steps with
  | [] => true
  | sp :: r => negb (enters_auto false (s_body sp)) && (step_raises false sp || none_enters r)
  end.
Definition no_partial_commit (i:input) : bool :=
  negb (i_external i && negb (forallb (fun sp => try_free (s_body sp)) (i_steps i))) &&
  match fail_index i with
  | None => true
  | Some k => if i_external i then true
              else if i_tddl i && negb (i_per_mig i) then none_enters (i_steps i)
              else match nth_error (i_steps i) k with Some sp => negb (enters_auto false (s_body sp)) | None => true end
  end.

Definition C04_holds (i:input) (o:output) : Prop :=
  let c := committed_count i in
  let done := firstn c (i_steps i) in
  let d0 := i_db0 i in
  (* the command raises iff a migration raised (whatever the class of the exception) *)
  (o_raised o = true <-> fail_index i <> None) /\
  (* never more than the migrations before the failing one *)
  (forall k, fail_index i = Some k -> c <= k) /\
  (* version rows == what the bookkeeping of exactly the committed migrations makes of the initial rows: the failed
     migration is neither named (upgrade) nor dropped (downgrade) — also when it used an autocommit section before it
     failed; with one enclosing transaction nothing after the last autocommit section is recorded, otherwise exactly
     the completed migrations are *)
  (forall x, In x (vrows (o_db o)) <-> In x (rows_after done (vrows d0))) /\
  (* with real transactional DDL, and no autocommit section having committed part of an unrecorded migration, the schema
     is the one implied by the version rows: exactly as before the command with one enclosing transaction, exactly the
     completed migrations otherwise — the failed one leaves no trace; the version table itself exists afterwards iff it
     did before or a migration committed *)
  (i_kind i = TxDDL -> no_partial_commit i = true ->
     (forall x, In x (effs (o_db o)) <-> In x (effs_after done (effs d0))) /\
     (i_steps i <> [] -> vt (o_db o) = (vt d0 || Nat.ltb 0 c))).

Definition is_some {A} (o:option A) : bool := match o with Some _ => true | None => false end.
Definition kind_eqb (a b:kind) : bool :=
  match a, b with TxDDL, TxDDL | ImplicitCommitDDL, ImplicitCommitDDL | Pysqlite, Pysqlite => true | _, _ => false end.

Definition check_C04 (i:input) (o:output) : bool :=
  let c := committed_count i in
  let done := firstn c (i_steps i) in
  let d0 := i_db0 i in
  Bool.eqb (o_raised o) (is_some (fail_index i)) &&
  (match fail_index i with Some k => Nat.leb c k | None => true end) &&
  seteqN (vrows (o_db o)) (rows_after done (vrows d0)) &&
  (negb (kind_eqb (i_kind i) TxDDL) || negb (no_partial_commit i) ||
   (seteqN (effs (o_db o)) (effs_after done (effs d0)) &&
    (match i_steps i with [] => true | _ => Bool.eqb (vt (o_db o)) (vt d0 || Nat.ltb 0 c) end))).

(* exact correspondence on the observable: raised?, version table present?, version rows, applied effects (as sets) *)
Definition corr_C04 (i:input) (o:output) : bool :=
  let m := txn_run i in
  Bool.eqb (o_raised m) (o_raised o) && Bool.eqb (vt (o_db m)) (vt (o_db o)) &&
  seteqN (vrows (o_db m)) (vrows (o_db o)) && seteqN (effs (o_db m)) (effs (o_db o)).

(* hypothesis of the theorems: a single enclosing transaction is only claimed to be all-or-nothing on the version
   rows when DDL does not commit implicitly (transactional_ddl=True on an implicit-commit backend is a configuration
   error, cf. DESIGN section 6.1 C04) *)
Definition consistent (i:input) : bool := negb (one_txn i && kind_eqb (i_kind i) ImplicitCommitDDL).
Definition inclass_C04 (i:input) : bool := consistent i.

(* the whole database state after a list of completed migrations (used for real transactional DDL) *)
Definition apply_step (sp:step) (d:dbstate) : dbstate :=
  fold_left (fun d v => apply_act (AVop v) d) (s_ver sp)
            (fold_left (fun d x => apply_act (AEff (stmt_eff x)) d) (body_stmts (s_body sp)) d).
Definition state_after (steps:list step) (d:dbstate) : dbstate := fold_left (fun d sp => apply_step sp d) steps d.
Definition with_version_table (d:dbstate) : dbstate := mkDb (effs d) true (vrows d).

(* ================================================================== branched histories: the rows through C03 *)
(* The run is given as the history G and the plan (revision, direction, body); the bookkeeping statements are those of
   the C03 model of update_to_step (Model/C04Heads.v).  What "the bookkeeping of the committed migrations" amounts to is
   then said by C03: the rows are exactly the maximal applied revisions. *)
From AV Require Export Model.RevGraph Model.C04Heads.
From AV Require Spec.C03.

Definition gapply (m:mstep) (A:list N) : list N := Spec.C03.ghost (ms_rev m) (ms_up m) A.
Fixpoint gapplied (ms:list mstep) (A:list N) : list N :=       (* the applied set after the migrations ms *)
  match ms with [] => A | m :: r => gapplied r (gapply m A) end.
Fixpoint gvalid (G:graph) (A:list N) (ms:list mstep) : Prop :=  (* every step is one the planners may emit (C01/C02) *)
  match ms with
  | [] => True
  | m :: r => Spec.C03.valid_step G A (ms_rev m) (ms_up m) /\ gvalid G (gapply m A) r
  end.
Fixpoint gvalidb (G:graph) (A:list N) (ms:list mstep) : bool :=
  match ms with
  | [] => true
  | m :: r => Spec.C03.valid_stepb G A (ms_rev m) (ms_up m) && gvalidb G (gapply m A) r
  end.
Definition gpre (gi:ginput) : bool := Spec.C03.pre_C03 (g_graph gi, vrows (g_db0 gi), false, []).

Definition implied (G:graph) (rws:list N) (r:N) : Prop := exists h, In h rws /\ path (all_down G) h r.

Definition C04g_holds (gi:ginput) (o:output) : Prop :=
  let i := to_input gi in
  let G := g_graph gi in
  let ms := g_msteps gi in
  C04_holds i o /\
  forall A0, gpre gi = true -> Spec.C03.closure G (vrows (g_db0 gi)) = Some A0 ->
    wf_refs G -> ~ cyclic (all_down G) -> Spec.C03.ndeps_okb G = true -> gvalid G A0 ms ->
    let A' := gapplied (firstn (committed_count i) ms) A0 in
    (* the version rows are exactly the maximal applied revisions of the committed migrations, duplicate-free, an
       antichain, and they imply exactly that applied set *)
    Spec.C03.rows_ok G A' (vrows (o_db o)) /\
    forall k m, fail_index i = Some k -> nth_error ms k = Some m ->
      (* a failed upgrade: the revision is not applied — not a row, and no row implies it *)
      (forallb ms_up ms = true -> ~ In (ms_rev m) A') /\
      (* a failed downgrade: the revision is still applied — some row is it or implies it *)
      (forallb (fun x => negb (ms_up x)) ms = true -> In (ms_rev m) A').

Definition check_C04g (gi:ginput) (o:output) : bool :=
  let i := to_input gi in
  let G := g_graph gi in
  let ms := g_msteps gi in
  check_C04 i o &&
  (negb (gpre gi) ||
   match Spec.C03.closure G (vrows (g_db0 gi)) with
   | None => true
   | Some A0 =>
       negb (gvalidb G A0 ms) ||
       (let A' := gapplied (firstn (committed_count i) ms) A0 in
        Spec.C03.rows_okb G A' (vrows (o_db o)) &&
        match fail_index i with
        | None => true
        | Some k => match nth_error ms k with
                    | None => true
                    | Some m => (negb (forallb ms_up ms) || negb (memN (ms_rev m) A')) &&
                                (negb (forallb (fun x => negb (ms_up x)) ms) || memN (ms_rev m) A')
                    end
        end)
   end).

Definition corr_C04g (gi:ginput) (o:output) : bool :=
  Spec.C03.ndeps_okb (g_graph gi) && corr_C04 (to_input gi) o.
Definition inclass_C04g (gi:ginput) : bool := consistent (to_input gi).

(* ================================================================== online and offline under one decision tree *)
From AV Require Export Model.C04Unified.

Definition sql_steps (u:uinput) : list step :=
  mk_steps_sql (g_graph (u_gi u)) (g_msteps (u_gi u)) (Model.Heads.start (vrows (g_db0 (u_gi u)))).

Definition C04u_holds (u:uinput) (o:output) : Prop :=
  if u_as_sql u then
    (* --sql: whatever the settings and wherever the run fails, the database is not touched: no effect, no version row,
       no version table *)
    (o_raised o = true <-> fidx false (sql_steps u) <> None) /\
    (forall x, In x (effs (o_db o)) <-> In x (effs (g_db0 (u_gi u)))) /\
    (forall x, In x (vrows (o_db o)) <-> In x (vrows (g_db0 (u_gi u)))) /\
    vt (o_db o) = vt (g_db0 (u_gi u))
  else C04g_holds (u_gi u) o.

Definition check_C04u (u:uinput) (o:output) : bool :=
  if u_as_sql u then
    Bool.eqb (o_raised o) (is_some (fidx false (sql_steps u))) &&
    seteqN (effs (o_db o)) (effs (g_db0 (u_gi u))) && seteqN (vrows (o_db o)) (vrows (g_db0 (u_gi u))) &&
    Bool.eqb (vt (o_db o)) (vt (g_db0 (u_gi u)))
  else check_C04g (u_gi u) o.

Definition corr_C04u (u:uinput) (o:output) : bool :=
  if u_as_sql u then
    let m := run_u u in
    Spec.C03.ndeps_okb (g_graph (u_gi u)) &&
    Bool.eqb (o_raised m) (o_raised o) && Bool.eqb (vt (o_db m)) (vt (o_db o)) &&
    seteqN (vrows (o_db m)) (vrows (o_db o)) && seteqN (effs (o_db m)) (effs (o_db o))
  else corr_C04g (u_gi u) o.
Definition inclass_C04u (u:uinput) : bool := u_as_sql u || inclass_C04g (u_gi u).
