(* C04 — "A failing migration never leaves the version table out of step": the property as a Prop over the database
   found by a fresh connection after the command, a boolean decider, and the exact model-vs-implementation comparison. *)
From AV Require Export Base.ListSet Model.Txn.

(* what the completed migrations imply *)
Definition body_effs (sp:step) (l:list N) : list N := fold_left (fun l x => apply_eff (stmt_eff x) l) (s_body sp) l.
Definition ver_rows (sp:step) (l:list N) : list N := fold_left (fun l v => apply_vop v l) (s_ver sp) l.
Definition effs_after (steps:list step) (l:list N) : list N := fold_left (fun l sp => body_effs sp l) steps l.
Definition rows_after (steps:list step) (l:list N) : list N := fold_left (fun l sp => ver_rows sp l) steps l.

(* the failure position is real: it names an existing step and a point of its body (or its callback) *)
Definition valid_fpos (sp:step) (p:fpos) : bool :=
  match p with FBody j => Nat.leb j (length (s_body sp)) | FCallback => true end.
Fixpoint fidx (steps:list step) (fail:option (nat*fpos)) : option nat :=     (* index of the failing migration *)
  match steps, fail with
  | sp :: _, Some (O, p) => if valid_fpos sp p then Some O else None
  | _ :: r, Some (S n, p) => option_map S (fidx r (Some (n, p)))
  | _, _ => None
  end.
Definition fail_index (i:input) : option nat := fidx (i_steps i) (i_fail i).

(* one transaction encloses the whole run: the caller's, or the one env.py's begin_transaction() opens *)
Definition one_txn (i:input) : bool := i_external i || (i_tddl i && negb (i_per_mig i)).

(* number of migrations of the run whose function returned and whose transaction committed *)
Definition committed_count (i:input) : nat :=
  match fail_index i with
  | None => length (i_steps i)
  | Some k => if one_txn i then O else k
  end.

Definition C04_holds (i:input) (o:output) : Prop :=
  let c := committed_count i in
  let done := firstn c (i_steps i) in
  let d0 := i_db0 i in
  (* the command raises iff a migration raised *)
  (o_raised o = true <-> fail_index i <> None) /\
  (* version rows == what the bookkeeping of exactly the committed migrations makes of the initial rows: the failed
     migration is neither named (upgrade) nor dropped (downgrade); with one enclosing transaction nothing is recorded,
     otherwise exactly the completed migrations are *)
  (forall x, In x (vrows (o_db o)) <-> In x (rows_after done (vrows d0))) /\
  (* with real transactional DDL the schema is the one implied by the version rows: exactly as before the command
     with one enclosing transaction, exactly the completed migrations otherwise — the failed one leaves no trace;
     the version table itself exists afterwards iff it did before or a migration committed *)
  (i_kind i = TxDDL ->
     (forall x, In x (effs (o_db o)) <-> In x (effs_after done (effs d0))) /\
     (i_steps i <> [] -> vt (o_db o) = (vt d0 || Nat.ltb 0 c))).

Definition is_some {A} (o:option A) : bool := match o with Some _ => true | None => false end.
Definition kind_eqb (a b:kind) : bool :=
  match a, b with TxDDL, TxDDL | ImplicitCommitDDL, ImplicitCommitDDL | Pysqlite, Pysqlite => true | _, _ => false end.

Definition check_C04 (i:input) (o:output) : bool :=
  let c := committed_count i in
  let done := firstn c (i_steps i) in
  let d0 := i_db0 i in
  Bool.eqb (o_raised o) (is_some (fail_index i)) &&
  seteqN (vrows (o_db o)) (rows_after done (vrows d0)) &&
  (negb (kind_eqb (i_kind i) TxDDL) ||
   (seteqN (effs (o_db o)) (effs_after done (effs d0)) &&
    (match i_steps i with [] => true | _ => Bool.eqb (vt (o_db o)) (vt d0 || Nat.ltb 0 c) end))).

(* exact correspondence on the observable: raised?, version table present?, version rows, applied effects (as sets) *)
Definition corr_C04 (i:input) (o:output) : bool :=
  let m := txn_run i in
  Bool.eqb (o_raised m) (o_raised o) && Bool.eqb (vt (o_db m)) (vt (o_db o)) &&
  seteqN (vrows (o_db m)) (vrows (o_db o)) && seteqN (effs (o_db m)) (effs (o_db o)).

(* hypothesis of the theorems: a single enclosing transaction is only claimed to be all-or-nothing on the version
   rows when DDL does not commit implicitly (transactional_ddl=True on an implicit-commit backend is a configuration
   error, cf. DESIGN section 6.1 C04) *)
Definition consistent (i:input) : bool := negb (one_txn i && kind_eqb (i_kind i) ImplicitCommitDDL).
Definition inclass_C04 (i:input) : bool := consistent i.

(* the whole database state after a list of completed migrations (used for real transactional DDL) *)
Definition apply_step (sp:step) (d:dbstate) : dbstate :=
  fold_left (fun d v => apply_act (AVop v) d) (s_ver sp)
            (fold_left (fun d x => apply_act (AEff (stmt_eff x)) d) (s_body sp) d).
Definition state_after (steps:list step) (d:dbstate) : dbstate := fold_left (fun d sp => apply_step sp d) steps d.
Definition with_version_table (d:dbstate) : dbstate := mkDb (effs d) true (vrows d).
