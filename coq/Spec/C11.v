(* C11 — "A failed batch recreate never loses the table's data":
   the property as a Prop over what is observed in the database after the failure, a boolean
   decider applied to the implementation's observation, and the exact model-vs-implementation
   comparison. *)
From AV Require Export Model.BatchFail.

(* ------------------------------------------------------------------ inputs and observations *)
Record input := mkIn {
  i_kind : kind; i_pre : bool; i_db : tables; i_t : name;
  i_nd : tdef; i_tr : list transfer; i_ixs : list idx;      (* what _create was about to build: new definition, copy mapping, trailing indexes *)
  i_faults : list (nat * err);                               (* positions (in sending order) of the statements made to raise, and what they raise *)
  i_scope : scope;
  i_tddl : option bool;
  i_tpm : bool }.                                    (* the context option transactional_ddl: unset / True / False.  flush and _create never read it:
                                                                 the model takes it as an input and ignores it; the correspondence checks exactly that.
                                                                 i_tpm: the option transaction_per_migration, likewise never read there *)

(* an observed table: definition identity, rows (a multiset), index names (a set) *)
Definition otable := (N * list row * list name)%type.
Definition o_tag (x:otable) : N := fst (fst x).
Definition o_rows (x:otable) : list row := snd (fst x).
Definition o_ixn (x:otable) : list name := snd x.
Definition obs := list (name * otable).
Record output := mkOut { o_err : option err; o_log : list skind; o_mid : obs; o_final : obs }.

Fixpoint obs_lookup (n:name) (ob:obs) : option otable :=
  match ob with
  | [] => None
  | (m, x) :: r => if name_eqb n m then Some x else obs_lookup n r
  end.

Definition abs_table (T:table) : otable := (d_tag (t_def T), t_rows T, map i_name (t_idx T)).
Definition obs_of (tb:tables) : obs :=
  flat_map (fun n => match option_map abs_table (lookup n tb) with Some x => [(n, x)] | None => [] end) (table_names tb).

Definition model_res (i:input) : result :=
  run_batch (i_kind i) (i_pre i) (i_db i) (i_t i) (i_nd i) (i_tr i) (i_ixs i) (faults_of (i_faults i)) (inj_of (i_faults i)) (i_scope i).
Definition model_out (i:input) : output :=
  let r := model_res i in mkOut (r_err r) (r_log r) (obs_of (r_mid r)) (obs_of (r_final r)).

(* ------------------------------------------------------------------ equivalence of observations *)
Definition count_row (r:row) (l:list row) : nat := length (filter (row_eqb r) l).
Definition mseq (a b:list row) : Prop := forall r, count_row r a = count_row r b.
Definition mseqb (a b:list row) : bool := forallb (fun r => Nat.eqb (count_row r a) (count_row r b)) (a ++ b).
Definition name_subb (a b:list name) : bool := forallb (fun x => mem_name x b) a.
Definition name_seteqb (a b:list name) : bool := name_subb a b && name_subb b a.
Definition name_seteq (a b:list name) : Prop := forall x, In x a <-> In x b.

Definition otable_equiv (x y:otable) : Prop := o_tag x = o_tag y /\ mseq (o_rows x) (o_rows y) /\ name_seteq (o_ixn x) (o_ixn y).
Definition otable_eqb (x y:otable) : bool := N.eqb (o_tag x) (o_tag y) && mseqb (o_rows x) (o_rows y) && name_seteqb (o_ixn x) (o_ixn y).

Definition obs_eqb (a b:obs) : bool :=
  name_seteqb (map fst a) (map fst b) &&
  forallb (fun p => match obs_lookup (fst p) b with Some y => otable_eqb (snd p) y | None => false end) a.

Definition err_eqb (a b:err) : bool :=
  match a, b with
  | EInjected, EInjected | EInterrupt, EInterrupt | EIntegrity, EIntegrity | EOperational, EOperational | EPython, EPython | EOther, EOther => true
  | _, _ => false
  end.
Definition oerr_eqb (a b:option err) : bool :=
  match a, b with Some x, Some y => err_eqb x y | None, None => true | _, _ => false end.
Definition skind_eqb (a b:skind) : bool :=
  match a, b with
  | KCreate x, KCreate y => name_eqb x y
  | KCopy x x', KCopy y y' => name_eqb x y && name_eqb x' y'
  | KDrop x, KDrop y => name_eqb x y
  | KRename x x', KRename y y' => name_eqb x y && name_eqb x' y'
  | KIndex x x', KIndex y y' => name_eqb x y && name_eqb x' y'
  | _, _ => false
  end.

(* exact correspondence: exception class, statements sent, database seen on the same connection
   before the transaction is ended, database seen by a fresh connection afterwards *)
Definition corr_C11 (i:input) (o:output) : bool :=
  let m := model_out i in
  oerr_eqb (o_err m) (o_err o) && list_eqb skind_eqb (o_log m) (o_log o)
  && obs_eqb (o_mid m) (o_mid o) && obs_eqb (o_final m) (o_final o).

(* ------------------------------------------------------------------ the property *)
Definition is_rename (k:skind) : bool := match k with KRename _ _ => true | _ => false end.
(* the failure happened at or before the removal of the original table: the `else:` branch (RENAME) was never reached *)
Definition early (log:list skind) : bool := negb (existsb is_rename log).
(* the fault sequence did not hit the handler's own DROP of the temporary table *)
Definition handler_clean (f:nat -> bool) (tmp:name) (log:list skind) : Prop :=
  forall j, nth_error log j = Some (KDrop tmp) -> f j = false.
Fixpoint handler_cleanb_from (f:nat -> bool) (tmp:name) (j:nat) (log:list skind) : bool :=
  match log with
  | [] => true
  | k :: r => (if skind_eqb k (KDrop tmp) then negb (f j) else true) && handler_cleanb_from f tmp (S j) r
  end.
Definition handler_cleanb f tmp log := handler_cleanb_from f tmp 0 log.

Section Holds.
  Variable i : input.
  Variable o : output.
  Let t := i_t i.
  Let tmp := calc_temp_name (i_t i).
  Let fin := fun n => obs_lookup n (o_final o).

  (* every original row is retrievable: under the original name with the original definition, or (copied)
     under the temporary name, or (copied) under the original name with the new definition *)
  Definition no_row_lost (T0:table) : Prop :=
    let img := map (copy_row (i_tr i)) (t_rows T0) in
    (exists x, fin t = Some x /\ o_tag x = d_tag (t_def T0) /\ mseq (o_rows x) (t_rows T0))
    \/ (exists x, fin tmp = Some x /\ mseq (o_rows x) img)
    \/ (exists x, fin t = Some x /\ o_tag x = d_tag (i_nd i) /\ mseq (o_rows x) img).

  Definition original_untouched (T0:table) : Prop :=
    exists x, fin t = Some x /\ otable_equiv x (abs_table T0).

  (* full strength of the property text: a failed recreate loses no row; failing at or before the removal of
     the original leaves the original identical and no temporary table (the latter unless one was there before
     the batch started, or the fault sequence made the handler's own DROP fail too) *)
  Definition C11_holds : Prop :=
    o_err o <> None -> forall T0, lookup t (i_db i) = Some T0 ->
      no_row_lost T0 /\
      (early (o_log o) = true ->
         original_untouched T0 /\
         (lookup tmp (i_db i) = None -> handler_clean (faults_of (i_faults i)) tmp (o_log o) -> fin tmp = None)).

  Definition no_row_lostb (T0:table) : bool :=
    let img := map (copy_row (i_tr i)) (t_rows T0) in
    match fin t with Some x => N.eqb (o_tag x) (d_tag (t_def T0)) && mseqb (o_rows x) (t_rows T0) | None => false end
    || match fin tmp with Some x => mseqb (o_rows x) img | None => false end
    || match fin t with Some x => N.eqb (o_tag x) (d_tag (i_nd i)) && mseqb (o_rows x) img | None => false end.

  Definition check_C11 : bool :=
    match o_err o with
    | None => true
    | Some _ =>
      match lookup t (i_db i) with
      | None => true
      | Some T0 =>
          no_row_lostb T0 &&
          (if early (o_log o) then
             match fin t with Some x => otable_eqb x (abs_table T0) | None => false end &&
             (if is_some (lookup tmp (i_db i)) || negb (handler_cleanb (faults_of (i_faults i)) tmp (o_log o)) then true
              else negb (is_some (fin tmp)))
           else true)
      end
    end.
End Holds.

(* the class on which the temporary table is proved to be gone; its complement is the recorded deviation
   "C11-tmp-table-resurrected-pysqlite-rollback": stock sqlite3 driver, no transaction open before the batch,
   the INSERT..SELECT really reached the database, and the transaction is rolled back *)
Definition copy_reached (f:nat -> bool) : bool := negb (f 0%nat) && negb (f 1%nat).
Definition tmp_gone_class (k:kind) (pre:bool) (f:nat -> bool) (oc:outcome) : bool :=
  match k with
  | Pysqlite => pre || negb (copy_reached f) || match oc with Commit => true | Rollback => false end
  | _ => true
  end.
Definition inclass_C11 (i:input) : bool :=
  tmp_gone_class (i_kind i) (i_pre i) (faults_of (i_faults i)) (eff_outcome (i_scope i) (Some EInjected)).

(* ------------------------------------------------------------------ what a single failing statement leaves behind *)
(* The statement at position `pos` of CREATE tmp (0); INSERT..SELECT (1); DROP original (2); RENAME (3) raises before it
   reaches the database, nothing else fails.  What is then under the original and under the temporary name once the
   transaction is ended with `oc` — (original table, temporary table): *)
Definition left_after (k:kind) (pre:bool) (oc:outcome) (pos:nat) (T0:table) (nd:tdef) (img:list row) : option table * option table :=
  let in_tx := match k with TxDDL => true | Pysqlite => pre | AutoCommitDDL | AutoCommit => false end in
  match pos with
  | 0%nat | 1%nat => (Some T0, None)                                    (* original intact, no temporary table *)
  | 2%nat => (Some T0, match k, pre, oc with
                       | Pysqlite, false, Rollback => Some (mkTable nd [] [])      (* the registered deviation: empty temporary table back *)
                       | _, _, _ => None end)
  | _ => match oc, k with
         | Commit, _ | Rollback, AutoCommitDDL | Rollback, AutoCommit => (None, Some (mkTable nd img []))  (* every row, copied, under the temporary name *)
         | Rollback, _ => if in_tx then (Some T0, None) else (Some T0, Some (mkTable nd [] []))
         end
  end.

(* The Python-level failure point of _create: every statement CREATE tmp; INSERT..SELECT; DROP original; RENAME succeeded,
   then _gather_indexes_from_both_tables raises (an index of the batch names a column the new table does not have) before
   any CREATE INDEX is sent — after the rename and outside the try: no handler runs.  (original name, temporary name): *)
Definition left_after_gather (k:kind) (pre:bool) (oc:outcome) (T0:table) (nd:tdef) (img:list row) : option table * option table :=
  let in_tx := match k with TxDDL => true | Pysqlite => pre | AutoCommitDDL | AutoCommit => false end in
  match oc, k with
  | Commit, _ | Rollback, AutoCommitDDL | Rollback, AutoCommit => (Some (mkTable nd img []), None)   (* recreated, every row, no index *)
  | Rollback, _ => if in_tx then (Some T0, None) else (Some T0, Some (mkTable nd [] []))
  end.

